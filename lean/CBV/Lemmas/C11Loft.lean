/-
C11 — assembling the lemmas on the point generators: the lofts of the disk sketches (ExtrudedShape, Cylinder,
SemiCylinder, Frustum) are images of two-layer lofts in plane coordinates; faces are counter-clockwise about the
normal; rim points lie on the circle.
-/
import CBV.Lemmas.C11Disk

namespace CBV.C11
open P3

set_option linter.unusedSectionVars false
set_option linter.unusedSimpArgs false
set_option linter.unusedVariables false

variable {K : Type} [Field K] [LinearOrder K] [IsStrictOrderedRing K]

/-- the conditions on `h = cos π/4`, `k = core_ratio`, `dg = diagonal_ratio` under which the quads of a class
    are convex: `OneCoreDisk` needs `0 < dg < 1`; the others `0 < k < 1`, `0 < h` and the diagonal inner point
    `dg·h` beyond the chord of its neighbours (`k < 2 dg h`) and inside the rim (`dg h < h`) -/
def DiskOK (cl : DiskCls) (h k dg : K) : Prop :=
  match cl with
  | .oneCore => 0 < dg ∧ dg < 1
  | _ => 0 < k ∧ k < 1 ∧ 0 < h ∧ k < 2 * (dg * h) ∧ dg * h < h

theorem disk_convex (cl : DiskCls) (h k dg : K) (hok : DiskOK cl h k dg) :
    ∀ q ∈ sketchQuads cl.name, convexCCW (quadOf (diskL cl h k dg) q) := by
  cases cl
  · exact oneCore_convex h k dg hok.1 hok.2
  · exact quarter_convex h k dg hok.1 hok.2.1 hok.2.2.1 hok.2.2.2.1 hok.2.2.2.2
  · exact half_convex h k dg hok.1 hok.2.1 hok.2.2.1 hok.2.2.2.1 hok.2.2.2.2
  · exact fourCore_convex h k dg hok.1 hok.2.1 hok.2.2.1 hok.2.2.2.1 hok.2.2.2.2

/-- every class puts its points into the plane `z = 0` of the frame (default included) -/
theorem liftZ_zero (p : P3 K) : liftZ 0 p = p := by cases p; simp [liftZ]

theorem translate_frame (a : K) (c ρ u : P3 K) (L : List (P3 K)) :
    translatePts (smul a u) (L.map (frame c ρ u)) = (L.map (liftZ a)).map (frame c ρ u) := by
  simp only [translatePts, List.map_map]
  apply List.map_congr_left
  intro p _
  simp only [Function.comp, add_frame, liftZ]

/-- `ExtrudedShape(disk sketch, amount)` in the frame of the fan -/
theorem extrudedHexes_frame (quads : List (List Nat)) (cl : DiskCls) (c rp u : P3 K) (h k dg a : K)
    (hp : dot u (sub rp c) = 0) :
    extrudedHexes quads cl c rp u h k dg a
      = loftHexes quads ((diskL cl h k dg).map (frame c (sub rp c) u))
          (((diskL cl h k dg).map (liftZ a)).map (frame c (sub rp c) u))
          (frame c (sub rp c) u ⟨0, 0, 0⟩) (frame c (sub rp c) u (liftZ a ⟨0, 0, 0⟩)) := by
  unfold extrudedHexes
  rw [diskPts_frame cl c rp u h k dg hp, translate_frame, frame_zero]
  congr 1
  have h0 := add_frame a c (sub rp c) u ⟨0, 0, 0⟩
  rw [frame_zero] at h0
  rw [h0]; simp only [liftZ, zero_add]

theorem unit_of_witness (v : P3 K) (w : K) (hw : 0 < w) (hww : w * w = nsq v) : nsq (smul (1 / w) v) = 1 := by
  have hne : w ≠ 0 := ne_of_gt hw
  have : nsq (smul (1 / w) v) = nsq v / (w * w) := by
    simp only [nsq, dot, smul]; field_simp
  rw [this, ← hww]; field_simp

theorem smul_witness (v : P3 K) (w : K) (hw : 0 < w) : smul w (smul (1 / w) v) = v := by
  have hne : w ≠ 0 := ne_of_gt hw
  cases v; simp only [smul, P3.mk.injEq]; refine ⟨?_, ?_, ?_⟩ <;> field_simp

theorem dot_smul_left (a : K) (v w : P3 K) : dot (smul a v) w = a * dot v w := by
  simp only [dot, smul]; ring

/-- face orientation: for three points of the plane `z = const` of a frame, the cross product of the two edges
    leaving the first one, projected on the normal, is determinant × plane cross product -/
theorem cross_frame_dot (c ρ u a b e : P3 K) :
    dot (cross (sub (frame c ρ u b) (frame c ρ u a)) (sub (frame c ρ u e) (frame c ρ u a))) u
      = frameDet ρ u * cross2K a b e := by
  simp only [frame, frameDet, P3.triple, dot, cross, cross2K, add, smul, sub, nsq]; ring

theorem getD_map_frame (c ρ u : P3 K) (L : List (P3 K)) (i : Nat) :
    (L.map (frame c ρ u)).getD i c = frame c ρ u (L.getD i ⟨0, 0, 0⟩) := by
  have := getD_map' (frame c ρ u) L i ⟨0, 0, 0⟩
  rwa [frame_zero] at this

/-- `Cylinder(p1, p2, rp)` is the `ExtrudedShape` of its sketch by `|axis|` along `axis/|axis|` -/
theorem cylinderHexes_eq (quads : List (List Nat)) (cl : DiskCls) (p1 p2 rp : P3 K) (wl h k dg : K) (hw : 0 < wl) :
    cylinderHexes quads cl p1 p2 rp wl h k dg
      = extrudedHexes quads cl p1 rp (smul (1 / wl) (sub p2 p1)) h k dg wl := by
  unfold cylinderHexes extrudedHexes
  rw [smul_witness _ _ hw]

/-- the second sketch of a `Frustum` in the frame of the fan -/
theorem frustum_top_frame (t a : K) (c ρ u : P3 K) (L : List (P3 K)) :
    (translatePts (smul a u) (L.map (frame c ρ u))).map (scaleP t (add c (smul a u)))
      = ((L.map (scaleL t)).map (liftZ a)).map (frame c ρ u) := by
  have h0 : add c (smul a u) = frame c ρ u ⟨0, 0, a⟩ := by
    have h := add_frame a c ρ u ⟨0, 0, 0⟩
    rw [frame_zero] at h
    rw [h]; simp only [zero_add]
  rw [translate_frame, h0]
  simp only [List.map_map]
  apply List.map_congr_left
  intro p _
  simp only [Function.comp, scaleP_frame, liftZ, scaleL]
  congr 1
  simp only [P3.mk.injEq]; refine ⟨?_, ?_, ?_⟩ <;> ring

end CBV.C11
