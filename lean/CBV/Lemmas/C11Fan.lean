/-
C11 — lemmas about the point generators of `Model/C11Geo.lean` over an arbitrary linearly ordered field:
the generated points are the images of a *local* list of plane coordinates under the frame
`(x, y, z) ↦ c + x ρ + y (u × ρ) + z u`; corner Jacobians of a loft between two parallel layers.
-/
import CBV.Model.C11
import Mathlib.Tactic.Ring
import Mathlib.Tactic.Linarith
import Mathlib.Tactic.LinearCombination
import Mathlib.Tactic.FieldSimp
import Mathlib.Algebra.Order.Field.Basic

namespace CBV.C11
open P3

set_option linter.unusedSectionVars false
set_option linter.unusedSimpArgs false

variable {K : Type} [Field K] [LinearOrder K] [IsStrictOrderedRing K]

/-- the frame of a fan: centre `c`, radius vector `ρ`, unit normal `u` -/
def frame (c ρ u p : P3 K) : P3 K := add c (add (add (smul p.x ρ) (smul p.y (cross u ρ))) (smul p.z u))

/-- determinant of the frame, `= (ρ·ρ)(u·u) − (u·ρ)²` -/
def frameDet (ρ u : P3 K) : K := P3.triple ρ (cross u ρ) u

theorem frameDet_eq (ρ u : P3 K) : frameDet ρ u = nsq ρ * nsq u - dot u ρ * dot u ρ := by
  simp only [frameDet, P3.triple, nsq, dot, cross]; ring

theorem frameDet_pos (ρ u : P3 K) (hu : nsq u = 1) (hp : dot u ρ = 0) (hr : 0 < nsq ρ) : 0 < frameDet ρ u := by
  rw [frameDet_eq, hu, hp]; linarith

theorem frame_zero (c ρ u : P3 K) : frame c ρ u ⟨0, 0, 0⟩ = c := by
  cases c; simp only [frame, add, smul, cross, P3.mk.injEq]; refine ⟨?_, ?_, ?_⟩ <;> ring

theorem rotAbout_frame (cs sn : K) (u c rp : P3 K) (h : dot u (sub rp c) = 0) :
    rotAbout cs sn u c rp = frame c (sub rp c) u ⟨cs, sn, 0⟩ := by
  unfold rotAbout; rw [h]
  simp only [frame, add, smul, sub, cross, P3.mk.injEq]; refine ⟨?_, ?_, ?_⟩ <;> ring

theorem scaleP_frame (r : K) (c ρ u o p : P3 K) :
    scaleP r (frame c ρ u o) (frame c ρ u p)
      = frame c ρ u ⟨o.x + r * (p.x - o.x), o.y + r * (p.y - o.y), o.z + r * (p.z - o.z)⟩ := by
  simp only [scaleP, frame, add, smul, sub, cross, P3.mk.injEq]; refine ⟨?_, ?_, ?_⟩ <;> ring

theorem scaleP_centre_frame (r : K) (c ρ u p : P3 K) :
    scaleP r c (frame c ρ u p) = frame c ρ u ⟨r * p.x, r * p.y, r * p.z⟩ := by
  simp only [scaleP, frame, add, smul, sub, cross, P3.mk.injEq]; refine ⟨?_, ?_, ?_⟩ <;> ring

theorem add_frame (a : K) (c ρ u p : P3 K) : add (frame c ρ u p) (smul a u) = frame c ρ u ⟨p.x, p.y, p.z + a⟩ := by
  simp only [frame, add, smul, cross, P3.mk.injEq]; refine ⟨?_, ?_, ?_⟩ <;> ring

/-- squared distance from the centre of a point given in the frame -/
theorem nsq_frame (c ρ u p : P3 K) (hu : nsq u = 1) (hp : dot u ρ = 0) :
    nsq (sub (frame c ρ u p) c) = (p.x * p.x + p.y * p.y) * nsq ρ + p.z * p.z := by
  have key : nsq (sub (frame c ρ u p) c)
      = p.x * p.x * nsq ρ + p.y * p.y * (nsq ρ * nsq u - dot u ρ * dot u ρ) + p.z * p.z * nsq u
        + 2 * p.x * p.z * dot u ρ := by
    simp only [frame, nsq, dot, add, smul, sub, cross]; ring
  rw [key, hu, hp]; ring

/-! ### the local coordinate lists -/

def fanPtL (h : K) (i : Nat) : P3 K := ⟨(dir8 h i).1, (dir8 h i).2, 0⟩

def fanOuterL (h : K) (idx : List Nat) : List (P3 K) := idx.map (fanPtL h)

def fanInnerFromL (h : K) (ratios : List K) : Nat → List Nat → List (P3 K)
  | _, [] => []
  | i, a :: rest =>
    ⟨ratioAt ratios i * (dir8 h a).1, ratioAt ratios i * (dir8 h a).2, 0⟩ :: fanInnerFromL h ratios (i + 1) rest

theorem fanPt_frame (c rp u : P3 K) (h : K) (i : Nat) (hp : dot u (sub rp c) = 0) :
    fanPt c rp u h i = frame c (sub rp c) u (fanPtL h i) := by
  unfold fanPt fanPtL; exact rotAbout_frame _ _ _ _ _ hp

theorem fanOuter_frame (c rp u : P3 K) (h : K) (idx : List Nat) (hp : dot u (sub rp c) = 0) :
    fanOuter c rp u h idx = (fanOuterL h idx).map (frame c (sub rp c) u) := by
  unfold fanOuter fanOuterL
  rw [List.map_map]
  apply List.map_congr_left
  intro i _
  exact fanPt_frame c rp u h i hp

theorem fanInnerFrom_frame (c rp u : P3 K) (h : K) (ratios : List K) (hp : dot u (sub rp c) = 0) :
    ∀ (idx : List Nat) (i : Nat),
      fanInnerFrom c rp u h ratios i idx = (fanInnerFromL h ratios i idx).map (frame c (sub rp c) u) := by
  intro idx
  induction idx with
  | nil => intro i; rfl
  | cons a rest ih =>
    intro i
    simp only [fanInnerFrom, fanInnerFromL, List.map_cons, ih (i + 1)]
    congr 1
    rw [fanPt_frame c rp u h a hp, scaleP_centre_frame]
    simp only [fanPtL, mul_zero]

/-- the plane coordinates of the positions of the four `DiskBase` classes, in the frame of their fan -/
def diskL (cl : DiskCls) (h k dg : K) : List (P3 K) :=
  match cl with
  | .oneCore => fanInnerFromL h [dg] 0 cl.idx ++ fanOuterL h cl.idx
  | _ => ⟨0, 0, 0⟩ :: (fanInnerFromL h [k, dg] 0 cl.idx ++ fanOuterL h cl.idx)

theorem diskPts_frame (cl : DiskCls) (c rp u : P3 K) (h k dg : K) (hp : dot u (sub rp c) = 0) :
    diskPts cl c rp u h k dg = (diskL cl h k dg).map (frame c (sub rp c) u) := by
  cases cl <;>
    simp only [diskPts, diskL, fanInner, List.map_cons, List.map_append, frame_zero,
      fanOuter_frame c rp u h _ hp, fanInnerFrom_frame c rp u h _ hp]

/-! ### lofts between two parallel layers -/

def liftZ (z : K) (p : P3 K) : P3 K := ⟨p.x, p.y, p.z + z⟩

/-- plane cross product of `b − a` and `c − a` -/
def cross2K (a b c : P3 K) : K := (b.x - a.x) * (c.y - a.y) - (b.y - a.y) * (c.x - a.x)

/-- the quad `q` of a position list -/
def quadOf (L : List (P3 K)) (q : List Nat) : P3 K × P3 K × P3 K × P3 K :=
  (L.getD (q.getD 0 0) ⟨0, 0, 0⟩, L.getD (q.getD 1 0) ⟨0, 0, 0⟩, L.getD (q.getD 2 0) ⟨0, 0, 0⟩, L.getD (q.getD 3 0) ⟨0, 0, 0⟩)

/-- the four points lie in the plane `z = 0` of the frame and go round counter-clockwise about the normal,
    with a convex corner at each of them -/
def convexCCW (Q : P3 K × P3 K × P3 K × P3 K) : Prop :=
  Q.1.z = 0 ∧ Q.2.1.z = 0 ∧ Q.2.2.1.z = 0 ∧ Q.2.2.2.z = 0 ∧
  0 < cross2K Q.1 Q.2.1 Q.2.2.2 ∧ 0 < cross2K Q.2.1 Q.2.2.1 Q.1 ∧
  0 < cross2K Q.2.2.1 Q.2.2.2 Q.2.1 ∧ 0 < cross2K Q.2.2.2 Q.1 Q.2.2.1

/-- all eight corner Jacobians are positive -/
def Hex.RH (H : Hex K) : Prop := ∀ j ∈ H.jacs, 0 < j

theorem getD_map' {α β : Type} (f : α → β) (L : List α) (i : Nat) (d : α) :
    (L.map f).getD i (f d) = f (L.getD i d) := by
  simp only [List.getD_eq_getElem?_getD, List.getElem?_map]
  cases L[i]? <;> rfl

/-- corner Jacobians of a block whose bottom face lies in the layer `z = 0` and whose top face in the layer
    `z = L` of a frame: determinant × height × plane cross product of the face at that corner -/
theorem jacs_layers (c ρ u a b d e a' b' d' e' : P3 K) (L : K)
    (ha : a.z = 0) (hb : b.z = 0) (hd : d.z = 0) (he : e.z = 0)
    (ha' : a'.z = 0) (hb' : b'.z = 0) (hd' : d'.z = 0) (he' : e'.z = 0) :
    Hex.jacs ⟨frame c ρ u a, frame c ρ u b, frame c ρ u d, frame c ρ u e,
        frame c ρ u (liftZ L a'), frame c ρ u (liftZ L b'), frame c ρ u (liftZ L d'), frame c ρ u (liftZ L e')⟩
      = [frameDet ρ u * (L * cross2K a b e), frameDet ρ u * (L * cross2K b d a),
         frameDet ρ u * (L * cross2K d e b), frameDet ρ u * (L * cross2K e a d),
         frameDet ρ u * (L * cross2K a' b' e'), frameDet ρ u * (L * cross2K b' d' a'),
         frameDet ρ u * (L * cross2K d' e' b'), frameDet ρ u * (L * cross2K e' a' d')] := by
  simp only [Hex.jacs, List.cons.injEq, and_true]
  refine ⟨?_, ?_, ?_, ?_, ?_, ?_, ?_, ?_⟩ <;>
    (simp only [frame, liftZ, frameDet, P3.triple, dot, cross, cross2K, add, smul, sub, ha, hb, hd, he, ha', hb', hd', he']
     ring)

/-- a loft between the layers `z = 0` and `z = L > 0` of a positively oriented frame is right-handed when
    the quads of both sketches are convex and counter-clockwise in plane coordinates -/
theorem loft_RH (c ρ u : P3 K) (B T : List (P3 K)) (L : K) (quads : List (List Nat))
    (hdet : 0 < frameDet ρ u) (hL : 0 < L)
    (hB : ∀ q ∈ quads, convexCCW (quadOf B q)) (hT : ∀ q ∈ quads, convexCCW (quadOf T q)) :
    ∀ H ∈ loftHexes quads (B.map (frame c ρ u)) ((T.map (liftZ L)).map (frame c ρ u))
        (frame c ρ u ⟨0, 0, 0⟩) (frame c ρ u (liftZ L ⟨0, 0, 0⟩)), H.RH := by
  intro H hH
  obtain ⟨q, hq, rfl⟩ := List.mem_map.mp hH
  obtain ⟨h1, h2, h3, h4, c1, c2, c3, c4⟩ := hB q hq
  obtain ⟨g1, g2, g3, g4, e1, e2, e3, e4⟩ := hT q hq
  simp only [quadOf] at h1 h2 h3 h4 c1 c2 c3 c4 g1 g2 g3 g4 e1 e2 e3 e4
  unfold hexAt
  simp only [getD_map']
  unfold Hex.RH
  rw [jacs_layers c ρ u _ _ _ _ _ _ _ _ L h1 h2 h3 h4 g1 g2 g3 g4]
  intro j hj
  simp only [List.mem_cons, List.not_mem_nil, or_false] at hj
  rcases hj with rfl | rfl | rfl | rfl | rfl | rfl | rfl | rfl <;>
    exact mul_pos hdet (mul_pos hL (by assumption))

/-- scaling a sketch about the origin of the plane keeps its quads convex and counter-clockwise -/
def scaleL (t : K) (p : P3 K) : P3 K := ⟨t * p.x, t * p.y, t * p.z⟩

theorem convexCCW_scale (t : K) (ht : 0 < t) (L : List (P3 K)) (q : List Nat) (h : convexCCW (quadOf L q)) :
    convexCCW (quadOf (L.map (scaleL t)) q) := by
  have hz : (⟨0, 0, 0⟩ : P3 K) = scaleL t ⟨0, 0, 0⟩ := by simp [scaleL]
  obtain ⟨h1, h2, h3, h4, c1, c2, c3, c4⟩ := h
  simp only [quadOf] at h1 h2 h3 h4 c1 c2 c3 c4
  have ht2 : 0 < t * t := mul_pos ht ht
  unfold quadOf
  rw [hz]
  simp only [getD_map']
  unfold convexCCW
  dsimp only
  refine ⟨by simp only [scaleL, h1, mul_zero], by simp only [scaleL, h2, mul_zero], by simp only [scaleL, h3, mul_zero], by simp only [scaleL, h4, mul_zero], ?_, ?_, ?_, ?_⟩
  · have : cross2K (scaleL t (L.getD (q.getD 0 0) ⟨0, 0, 0⟩)) (scaleL t (L.getD (q.getD 1 0) ⟨0, 0, 0⟩))
        (scaleL t (L.getD (q.getD 3 0) ⟨0, 0, 0⟩)) = t * t * cross2K (L.getD (q.getD 0 0) ⟨0, 0, 0⟩)
          (L.getD (q.getD 1 0) ⟨0, 0, 0⟩) (L.getD (q.getD 3 0) ⟨0, 0, 0⟩) := by
      simp only [cross2K, scaleL]; ring
    rw [this]; exact mul_pos ht2 c1
  · have : cross2K (scaleL t (L.getD (q.getD 1 0) ⟨0, 0, 0⟩)) (scaleL t (L.getD (q.getD 2 0) ⟨0, 0, 0⟩))
        (scaleL t (L.getD (q.getD 0 0) ⟨0, 0, 0⟩)) = t * t * cross2K (L.getD (q.getD 1 0) ⟨0, 0, 0⟩)
          (L.getD (q.getD 2 0) ⟨0, 0, 0⟩) (L.getD (q.getD 0 0) ⟨0, 0, 0⟩) := by
      simp only [cross2K, scaleL]; ring
    rw [this]; exact mul_pos ht2 c2
  · have : cross2K (scaleL t (L.getD (q.getD 2 0) ⟨0, 0, 0⟩)) (scaleL t (L.getD (q.getD 3 0) ⟨0, 0, 0⟩))
        (scaleL t (L.getD (q.getD 1 0) ⟨0, 0, 0⟩)) = t * t * cross2K (L.getD (q.getD 2 0) ⟨0, 0, 0⟩)
          (L.getD (q.getD 3 0) ⟨0, 0, 0⟩) (L.getD (q.getD 1 0) ⟨0, 0, 0⟩) := by
      simp only [cross2K, scaleL]; ring
    rw [this]; exact mul_pos ht2 c3
  · have : cross2K (scaleL t (L.getD (q.getD 3 0) ⟨0, 0, 0⟩)) (scaleL t (L.getD (q.getD 0 0) ⟨0, 0, 0⟩))
        (scaleL t (L.getD (q.getD 2 0) ⟨0, 0, 0⟩)) = t * t * cross2K (L.getD (q.getD 3 0) ⟨0, 0, 0⟩)
          (L.getD (q.getD 0 0) ⟨0, 0, 0⟩) (L.getD (q.getD 2 0) ⟨0, 0, 0⟩) := by
      simp only [cross2K, scaleL]; ring
    rw [this]; exact mul_pos ht2 c4

end CBV.C11
