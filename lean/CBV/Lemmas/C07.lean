/-
C07 — helper lemmas about the edge list (`EdgeList.find/add` folded over a request sequence).
-/
import CBV.Model.C07

namespace CBV.C07

/-! ### unordered vertex pairs -/

theorem samePair_iff (a b c d : Nat) :
    samePair a b c d = true ↔ (a = c ∧ b = d) ∨ (a = d ∧ b = c) := by
  simp [samePair]

theorem samePair_false_iff (a b c d : Nat) :
    samePair a b c d = false ↔ ¬ ((a = c ∧ b = d) ∨ (a = d ∧ b = c)) := by
  rw [← samePair_iff]; simp

theorem samePair_self (a b : Nat) : samePair a b a b = true := by simp [samePair]

theorem samePair_comm (a b c d : Nat) : samePair a b c d = samePair c d a b := by
  cases h : samePair c d a b
  · rw [samePair_false_iff] at *; omega
  · rw [samePair_iff] at *; omega

theorem samePair_swap (a b c d : Nat) : samePair a b c d = samePair b a c d := by
  cases h : samePair b a c d
  · rw [samePair_false_iff] at *; omega
  · rw [samePair_iff] at *; omega

theorem samePair_trans {a b c d e f : Nat} (h1 : samePair a b c d = true) (h2 : samePair c d e f = true) :
    samePair a b e f = true := by
  rw [samePair_iff] at *; omega

theorem Entry.same_self (e : Entry) : e.same e = true := samePair_self _ _

theorem Entry.same_comm (e f : Entry) : e.same f = f.same e := samePair_comm _ _ _ _

theorem Entry.same_trans {e f g : Entry} (h1 : e.same f = true) (h2 : f.same g = true) : e.same g = true :=
  samePair_trans h1 h2

/-! ### find / add -/

theorem find_none_iff (es : List Entry) (a b : Nat) :
    find es a b = none ↔ ∀ e ∈ es, samePair a b e.v1 e.v2 = false := by
  simp [find, List.find?_eq_none]

theorem find_some {es : List Entry} {a b : Nat} {e : Entry} (h : find es a b = some e) :
    e ∈ es ∧ samePair a b e.v1 e.v2 = true := by
  unfold find at h
  exact ⟨List.mem_of_find?_eq_some h, by simpa using List.find?_some h⟩

/-- the three ways an `add` call ends -/
theorem add_cases (pos : Nat → V3) (es : List Entry) (r : Entry) :
    (∃ e, find es r.v1 r.v2 = some e ∧ add pos es r = (es, e)) ∨
    (find es r.v1 r.v2 = none ∧ valid pos r = true ∧ add pos es r = (es ++ [r], r)) ∨
    (find es r.v1 r.v2 = none ∧ valid pos r = false ∧ add pos es r = (es, r)) := by
  unfold add
  cases hf : find es r.v1 r.v2 with
  | some e => left; exact ⟨e, rfl, rfl⟩
  | none =>
    right
    cases hv : valid pos r with
    | true => left; simp
    | false => right; simp

theorem run_nil (pos : Nat → V3) (es : List Entry) : run pos [] es = es := rfl

theorem run_cons (pos : Nat → V3) (r : Entry) (rs es : List Entry) :
    run pos (r :: rs) es = run pos rs (add pos es r).1 := rfl

theorem run_append (pos : Nat → V3) (rs1 rs2 es : List Entry) :
    run pos (rs1 ++ rs2) es = run pos rs2 (run pos rs1 es) := by
  induction rs1 generalizing es with
  | nil => rfl
  | cons r rs ih => simp only [List.cons_append, run_cons, ih]

/-- the list only grows -/
theorem add_mono {pos : Nat → V3} {es : List Entry} {r e : Entry} (h : e ∈ es) : e ∈ (add pos es r).1 := by
  rcases add_cases pos es r with ⟨e', _, h'⟩ | ⟨_, _, h'⟩ | ⟨_, _, h'⟩ <;> rw [h'] <;> simp [h]

theorem run_mono {pos : Nat → V3} {rs es : List Entry} {e : Entry} (h : e ∈ es) : e ∈ run pos rs es := by
  induction rs generalizing es with
  | nil => exact h
  | cons r rs ih => rw [run_cons]; exact ih (add_mono h)

/-- membership after one `add` -/
theorem mem_add {pos : Nat → V3} {es : List Entry} {r e : Entry} (h : e ∈ (add pos es r).1) :
    e ∈ es ∨ (e = r ∧ valid pos r = true ∧ find es r.v1 r.v2 = none) := by
  rcases add_cases pos es r with ⟨e', _, h'⟩ | ⟨hf, hv, h'⟩ | ⟨_, _, h'⟩ <;> rw [h'] at h
  · left; exact h
  · simp only [List.mem_append, List.mem_singleton] at h
    rcases h with h | h
    · left; exact h
    · right; exact ⟨h, hv, hf⟩
  · left; exact h

/-- every entry is an initial entry or a valid request -/
theorem run_mem_src {pos : Nat → V3} {rs es : List Entry} {e : Entry} (h : e ∈ run pos rs es) :
    e ∈ es ∨ (e ∈ rs ∧ valid pos e = true) := by
  induction rs generalizing es with
  | nil => left; exact h
  | cons r rs ih =>
    rw [run_cons] at h
    rcases ih h with h | ⟨h, hv⟩
    · rcases mem_add h with h | ⟨h, hv, _⟩
      · left; exact h
      · right; subst h; exact ⟨List.mem_cons_self, hv⟩
    · right; exact ⟨List.mem_cons_of_mem _ h, hv⟩

/-- no two entries join the same two vertices -/
def Distinct (es : List Entry) : Prop := es.Pairwise (fun e f => e.same f = false)

theorem add_distinct {pos : Nat → V3} {es : List Entry} {r : Entry} (h : Distinct es) :
    Distinct (add pos es r).1 := by
  rcases add_cases pos es r with ⟨e', _, h'⟩ | ⟨hf, _, h'⟩ | ⟨_, _, h'⟩ <;> rw [h']
  · exact h
  · unfold Distinct
    rw [List.pairwise_append]
    refine ⟨h, List.pairwise_singleton _ _, ?_⟩
    intro a ha b hb
    simp only [List.mem_singleton] at hb
    subst hb
    rw [find_none_iff] at hf
    have := hf a ha
    unfold Entry.same
    rw [samePair_comm]; exact this
  · exact h

theorem run_distinct {pos : Nat → V3} {rs es : List Entry} (h : Distinct es) : Distinct (run pos rs es) := by
  induction rs generalizing es with
  | nil => exact h
  | cons r rs ih => rw [run_cons]; exact ih (add_distinct h)

/-- a valid request leaves an entry for its vertex pair -/
theorem add_kept {pos : Nat → V3} {es : List Entry} {r : Entry} (hv : valid pos r = true) :
    ∃ e ∈ (add pos es r).1, e.same r = true := by
  rcases add_cases pos es r with ⟨e', hf, h'⟩ | ⟨_, _, h'⟩ | ⟨_, hv', _⟩
  · rw [h']
    obtain ⟨hm, hs⟩ := find_some hf
    exact ⟨e', hm, by unfold Entry.same; rw [samePair_comm]; exact hs⟩
  · rw [h']; exact ⟨r, by simp, Entry.same_self r⟩
  · rw [hv] at hv'; cases hv'

theorem run_kept {pos : Nat → V3} {pre post es : List Entry} {r : Entry} (hv : valid pos r = true) :
    ∃ e ∈ run pos (pre ++ r :: post) es, e.same r = true := by
  rw [run_append, run_cons]
  obtain ⟨e, he, hs⟩ := add_kept (pos := pos) (es := run pos pre es) hv
  exact ⟨e, run_mono he, hs⟩

theorem run_kept_mem {pos : Nat → V3} {rs es : List Entry} {r : Entry} (hm : r ∈ rs) (hv : valid pos r = true) :
    ∃ e ∈ run pos rs es, e.same r = true := by
  obtain ⟨pre, post, rfl⟩ := List.append_of_mem hm
  exact run_kept hv

/-- the first valid definition of a vertex pair is the one that is written -/
theorem run_first_wins {pos : Nat → V3} {pre post es : List Entry} {r : Entry} (hv : valid pos r = true)
    (hes : ∀ q ∈ es, q.same r = false) (hpre : ∀ q ∈ pre, valid pos q = true → q.same r = false) :
    r ∈ run pos (pre ++ r :: post) es := by
  rw [run_append, run_cons]
  apply run_mono
  have hnone : find (run pos pre es) r.v1 r.v2 = none := by
    rw [find_none_iff]
    intro e he
    have : e.same r = false := by
      rcases run_mem_src he with h | ⟨h, hv'⟩
      · exact hes e h
      · exact hpre e h hv'
    unfold Entry.same at this
    rw [samePair_comm]; exact this
  rcases add_cases pos (run pos pre es) r with ⟨e', hf, _⟩ | ⟨_, _, h'⟩ | ⟨_, hv', _⟩
  · rw [hnone] at hf; cases hf
  · rw [h']; simp
  · rw [hv] at hv'; cases hv'

/-- when only one (possibly repeated) valid request exists for a pair, that request is written -/
theorem run_sole {pos : Nat → V3} {rs es : List Entry} {r : Entry} (hm : r ∈ rs) (hv : valid pos r = true)
    (hes : ∀ q ∈ es, q.same r = false)
    (hsole : ∀ q ∈ rs, valid pos q = true → q.same r = true → q = r) : r ∈ run pos rs es := by
  obtain ⟨e, he, hs⟩ := run_kept_mem (pos := pos) (es := es) hm hv
  rcases run_mem_src he with h | ⟨h, hv'⟩
  · rw [hes e h] at hs; cases hs
  · rw [← hsole e h hv' hs]; exact he

/-- every entry is the first valid request for its vertex pair -/
theorem run_char {pos : Nat → V3} {rs es : List Entry} {e : Entry} (h : e ∈ run pos rs es) :
    e ∈ es ∨ ∃ pre post, rs = pre ++ e :: post ∧ valid pos e = true ∧ (∀ q ∈ es, q.same e = false) ∧
      ∀ q ∈ pre, valid pos q = true → q.same e = false := by
  induction rs generalizing es with
  | nil => left; exact h
  | cons r rs ih =>
    rw [run_cons] at h
    rcases ih h with h | ⟨pre, post, hrs, hv, hes, hpre⟩
    · rcases mem_add h with h | ⟨h, hv, hf⟩
      · left; exact h
      · right
        subst h
        refine ⟨[], rs, rfl, hv, ?_, by simp⟩
        intro q hq
        rw [find_none_iff] at hf
        have := hf q hq
        unfold Entry.same; rw [samePair_comm]; exact this
    · by_cases hin : e ∈ es
      · left; exact hin
      · right
        refine ⟨r :: pre, post, by rw [hrs]; rfl, hv, fun q hq => hes q (add_mono hq), ?_⟩
        intro q hq hvq
        simp only [List.mem_cons] at hq
        rcases hq with hq | hq
        · subst hq
          -- a valid request leaves an entry with its pair, which differs from e's pair
          obtain ⟨e', he', hs'⟩ := add_kept (pos := pos) (es := es) hvq
          cases hqe : q.same e with
          | false => rfl
          | true =>
            have h1 : e'.same e = true := Entry.same_trans hs' hqe
            rw [hes e' he'] at h1; cases h1
        · exact hpre q hq hvq

/-- in a list without two entries on the same pair, two entries on the same pair are equal -/
theorem distinct_unique {es : List Entry} (h : Distinct es) {a b : Entry} (ha : a ∈ es) (hb : b ∈ es)
    (hs : a.same b = true) : a = b := by
  induction es with
  | nil => cases ha
  | cons x xs ih =>
    unfold Distinct at h
    rw [List.pairwise_cons] at h
    simp only [List.mem_cons] at ha hb
    rcases ha with ha | ha <;> rcases hb with hb | hb
    · rw [ha, hb]
    · subst ha; rw [h.1 b hb] at hs; cases hs
    · subst hb; rw [Entry.same_comm, h.1 a ha] at hs; cases hs
    · exact ih h.2 ha hb

end CBV.C07
