/-
Helper lemmas for C01/C02/C04: frame properties of the grading steps of M-PROP and the ownership
invariant "the wires of a user-chopped axis hold exactly the divisions of that axis' own chops".
-/
import CBV.Model.C01

namespace CBV.Prop

@[simp] theorem specOf_setSpec (st : St) (w : Nat) (s : Spec) (w' : Nat) :
    specOf (setSpec st w s) w' = if w' = w then s else specOf st w' := rfl
@[simp] theorem chopsOf_setSpec (st : St) (w : Nat) (s : Spec) (x : Nat) :
    chopsOf (setSpec st w s) x = chopsOf st x := rfl
@[simp] theorem specOf_addChops (st : St) (x : Nat) (cs : List Chop) (w : Nat) :
    specOf (addChops st x cs) w = specOf st w := rfl
@[simp] theorem chopsOf_addChops (st : St) (x : Nat) (cs : List Chop) (x' : Nat) :
    chopsOf (addChops st x cs) x' = if x' = x then chopsOf st x ++ cs else chopsOf st x' := rfl

/-! ### gradeChopped -/

theorem gradeChopped_spec (inp : Inp) (st : St) (x w : Nat) :
    specOf (gradeChopped inp st x) w =
      if w / 4 = x then specOf st w ++ (chopsOf st x).map (secOn inp w) else specOf st w := by
  unfold gradeChopped axisWires
  simp only [List.foldl, specOf_setSpec, chopsOf_setSpec]
  have h : w = 4 * x ∨ w = 4 * x + 1 ∨ w = 4 * x + 2 ∨ w = 4 * x + 3 ∨ w / 4 ≠ x := by omega
  rcases h with h | h | h | h | h
  · subst h; simp
  · subst h; simp; intro hc; omega
  · subst h; simp; intro hc; omega
  · subst h; simp; intro hc; omega
  · have h0 : w ≠ 4 * x := by omega
    have h1 : w ≠ 4 * x + 1 := by omega
    have h2 : w ≠ 4 * x + 2 := by omega
    have h3 : w ≠ 4 * x + 3 := by omega
    simp [h, h0, h1, h2, h3]

theorem gradeChopped_chops (inp : Inp) (st : St) (x y : Nat) :
    chopsOf (gradeChopped inp st x) y = chopsOf st y := by
  unfold gradeChopped axisWires
  simp only [List.foldl, chopsOf_setSpec]

/-! ### gradePropagated: only the wires of the axis change, the managers' chops do not -/

theorem copyWire_frame (inp : Inp) (w : Nat) (cs : List Nat) :
    ∀ st : St, (∀ w', w' ≠ w → specOf (cs.foldl (fun st cw =>
      if (specOf st cw).isEmpty then st
      else setSpec st w (if aligned inp cw w then specOf st cw else invertSpec (specOf st cw))) st) w' = specOf st w') ∧
      (∀ y, chopsOf (cs.foldl (fun st cw =>
      if (specOf st cw).isEmpty then st
      else setSpec st w (if aligned inp cw w then specOf st cw else invertSpec (specOf st cw))) st) y = chopsOf st y) := by
  induction cs with
  | nil => intro st; exact ⟨fun _ _ => rfl, fun _ => rfl⟩
  | cons c cs ih =>
    intro st
    simp only [List.foldl]
    split
    · exact ih st
    · obtain ⟨h1, h2⟩ := ih (setSpec st w (if aligned inp c w then specOf st c else invertSpec (specOf st c)))
      refine ⟨?_, ?_⟩
      · intro w' hw'; rw [h1 w' hw']; simp [hw']
      · intro y; rw [h2 y]; rfl

theorem copyWire_spec (inp : Inp) (st : St) (w w' : Nat) (h : w' ≠ w) :
    specOf (copyWire inp st w) w' = specOf st w' := (copyWire_frame inp w (inp.coinc w) st).1 w' h

theorem copyWire_chops (inp : Inp) (st : St) (w y : Nat) :
    chopsOf (copyWire inp st w) y = chopsOf st y := (copyWire_frame inp w (inp.coinc w) st).2 y

theorem fillWire_spec (inp : Inp) (st : St) (x w w' : Nat) (h : w' ≠ w) :
    specOf (fillWire inp st x w) w' = specOf st w' := by
  unfold fillWire; split <;> simp [h]

theorem fillWire_chops (inp : Inp) (st : St) (x w y : Nat) :
    chopsOf (fillWire inp st x w) y = chopsOf st y := by
  unfold fillWire; split <;> simp

theorem gradePropagated_spec (inp : Inp) (st : St) (x w : Nat) (h : w / 4 ≠ x) :
    specOf (gradePropagated inp st x) w = specOf st w := by
  have h0 : w ≠ 4 * x := by omega
  have h1 : w ≠ 4 * x + 1 := by omega
  have h2 : w ≠ 4 * x + 2 := by omega
  have h3 : w ≠ 4 * x + 3 := by omega
  unfold gradePropagated axisWires
  split
  · rfl
  · simp only [List.foldl]
    rw [fillWire_spec _ _ _ _ _ h3, fillWire_spec _ _ _ _ _ h2, fillWire_spec _ _ _ _ _ h1,
      fillWire_spec _ _ _ _ _ h0, copyWire_spec _ _ _ _ h3, copyWire_spec _ _ _ _ h2,
      copyWire_spec _ _ _ _ h1, copyWire_spec _ _ _ _ h0]

theorem gradePropagated_chops (inp : Inp) (st : St) (x y : Nat) :
    chopsOf (gradePropagated inp st x) y = chopsOf st y := by
  unfold gradePropagated axisWires
  split
  · rfl
  · simp only [List.foldl, fillWire_chops, copyWire_chops]

theorem gradePropagated_idle (inp : Inp) (st : St) (x : Nat) (h : chopsOf st x = []) :
    gradePropagated inp st x = st := by
  unfold gradePropagated; simp [h]

theorem gradeAxis_spec (inp : Inp) (st : St) (x w : Nat) (h : w / 4 ≠ x) :
    specOf (gradeAxis inp st x) w = specOf st w := by
  unfold gradeAxis; split
  · rw [gradeChopped_spec]; simp [h]
  · exact gradePropagated_spec inp st x w h

theorem gradeAxis_chops (inp : Inp) (st : St) (x y : Nat) :
    chopsOf (gradeAxis inp st x) y = chopsOf st y := by
  unfold gradeAxis; split
  · exact gradeChopped_chops inp st x y
  · exact gradePropagated_chops inp st x y

/-! ### ownership -/

/-- the wires of axis `x` hold exactly the divisions of the user's chops on `x` -/
def Own (inp : Inp) (st : St) (x : Nat) : Prop :=
  ∀ w, w / 4 = x → specOf st w = (inp.chops x).map (secOn inp w)

theorem own_defined (inp : Inp) (st : St) (x : Nat) (hu : userChopped inp x = true) (ho : Own inp st x) :
    axisDefined st x = true := by
  unfold axisDefined axisWires
  have hne : inp.chops x ≠ [] := by
    unfold userChopped at hu; intro h; simp [h] at hu
  simp only [List.all_cons, List.all_nil, Bool.and_true, Bool.and_eq_true, Bool.not_eq_true']
  refine ⟨?_, ?_, ?_, ?_⟩ <;>
  · rw [ho _ (by omega)]
    cases hc : inp.chops x with
    | nil => exact absurd hc hne
    | cons a as => rfl

/-- after `grade_blocks`: managers hold the user's chops, chopped axes own their wires -/
theorem gradeBlocks_fold (inp : Inp) : ∀ k : Nat,
    let st := (List.range k).foldl (gradeAxis inp) (init inp)
    (∀ y, chopsOf st y = inp.chops y) ∧
    (∀ y, y < k → userChopped inp y = true → Own inp st y) ∧
    (∀ w, k ≤ w / 4 → specOf st w = []) ∧
    (∀ w, userChopped inp (w / 4) = false → specOf st w = []) := by
  intro k
  induction k with
  | zero =>
    simp only [List.range_zero, List.foldl_nil]
    exact ⟨fun _ => rfl, fun _ h => absurd h (Nat.not_lt_zero _), fun _ _ => rfl, fun _ _ => rfl⟩
  | succ k ih =>
    simp only [List.range_succ, List.foldl_append, List.foldl_cons, List.foldl_nil]
    obtain ⟨hc, ho, he, hn⟩ := ih
    generalize (List.range k).foldl (gradeAxis inp) (init inp) = st at hc ho he hn
    refine ⟨?_, ?_, ?_, ?_⟩
    · intro y; rw [gradeAxis_chops]; exact hc y
    · intro y hy hu
      by_cases hyk : y = k
      · subst hyk
        intro w hw
        unfold gradeAxis
        simp only [hu, if_true]
        rw [gradeChopped_spec]
        simp only [hw, if_true]
        rw [he w (by omega), hc y]
        rfl
      · intro w hw
        rw [gradeAxis_spec inp st k w (by omega)]
        exact ho y (by omega) hu w hw
    · intro w hw
      rw [gradeAxis_spec inp st k w (by omega)]
      exact he w (by omega)
    · intro w hw
      by_cases hk : w / 4 = k
      · have hi : gradeAxis inp st k = st := by
          unfold gradeAxis
          rw [← hk, hw]
          simp only [Bool.false_eq_true, if_false]
          apply gradePropagated_idle
          rw [hc]
          unfold userChopped at hw
          simpa using hw
        rw [hi]; exact hn w hw
      · rw [gradeAxis_spec inp st k w hk]; exact hn w hw

/-- the invariant of the propagation phase -/
def Inv (inp : Inp) (st : St) : Prop :=
  ∀ x, x < 3 * inp.nBlocks → userChopped inp x = true → Own inp st x

theorem gradeBlocks_inv (inp : Inp) : Inv inp (gradeBlocks inp (init inp)) := by
  intro x hx hu
  exact (gradeBlocks_fold inp (3 * inp.nBlocks)).2.1 x hx hu

theorem axisCopy_inv (inp : Inp) (st st' : St) (x : Nat) (b : Bool) (hi : Inv inp st)
    (h : axisCopy inp st x = .ok (st', b)) : Inv inp st' := by
  unfold axisCopy at h
  split at h
  · cases h; exact hi
  · rename_i hnd
    split at h
    · cases h; exact hi
    · split at h
      · cases h
      · cases h
        intro y hy hu w hw
        have hyx : y ≠ x := by
          intro e; subst e
          exact hnd (own_defined inp st y hu (hi y hy hu))
        rw [gradeAxis_spec _ _ _ _ (by omega), specOf_addChops]
        exact hi y hy hu w hw
      · cases h
        intro y hy hu w hw
        have hyx : y ≠ x := by
          intro e; subst e
          exact hnd (own_defined inp st y hu (hi y hy hu))
        rw [gradeAxis_spec _ _ _ _ (by omega), specOf_addChops]
        exact hi y hy hu w hw

theorem blockCopy_inv (inp : Inp) (st st' : St) (b : Nat) (u : Bool) (hi : Inv inp st)
    (h : blockCopy inp st b = .ok (st', u)) : Inv inp st' := by
  unfold blockCopy at h
  split at h
  · cases h; exact hi
  · split at h
    · cases h
    · rename_i r0 h0
      split at h
      · cases h
      · rename_i r1 h1
        split at h
        · cases h
        · rename_i r2 h2
          cases h
          have i0 := axisCopy_inv inp st r0.1 _ r0.2 hi h0
          have i1 := axisCopy_inv inp r0.1 r1.1 _ r1.2 i0 h1
          exact axisCopy_inv inp r1.1 r2.1 _ r2.2 i1 h2

theorem pass_inv (inp : Inp) (wl : List Nat) : ∀ (st : St) (r : St × List Nat × Bool), Inv inp st →
    pass inp st wl = .ok r → Inv inp r.1 := by
  induction wl with
  | nil => intro st r hi h; unfold pass at h; cases h; exact hi
  | cons b rest ih =>
    intro st r hi h
    unfold pass at h
    split at h
    · cases h; exact hi
    · split at h
      · cases h
      · rename_i rb hb
        split at h
        · cases h
        · rename_i p hp
          cases h
          exact ih rb.1 p (blockCopy_inv inp st rb.1 b rb.2 hi hb) hp

theorem loop_inv (inp : Inp) : ∀ (fuel : Nat) (st st' : St) (wl : List Nat), Inv inp st →
    loop inp fuel st wl = .ok st' → Inv inp st' := by
  intro fuel
  induction fuel with
  | zero => intro st st' wl _ h; unfold loop at h; cases h
  | succ f ih =>
    intro st st' wl hi h
    unfold loop at h
    split at h
    · cases h; exact hi
    · split at h
      · cases h
      · rename_i r hr
        split at h
        · exact ih r.1 st' r.2.1 (pass_inv inp _ st r hi hr) h
        · cases h

/-- whenever `run` succeeds, every user-chopped axis still owns its wires -/
theorem run_inv (inp : Inp) (st : St) (h : run inp = .ok st) : Inv inp st := by
  unfold run at h
  split at h
  · cases h
  · split at h
    · cases h
    · rename_i st0 hl
      split at h
      · cases h
        exact loop_inv inp _ _ st _ (gradeBlocks_inv inp) hl
      · cases h

theorem count_map_secOn (inp : Inp) (w : Nat) (cs : List Chop) :
    count (cs.map (secOn inp w)) = (cs.map (·.count)).sum := by
  unfold count
  induction cs with
  | nil => rfl
  | cons c cs ih => simp [secOn, List.map_cons, List.sum_cons] at ih ⊢; omega

end CBV.Prop
