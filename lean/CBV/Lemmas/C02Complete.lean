import CBV.Lemmas.C02Sound
namespace CBV.Prop0

structure WF (inp : Inp) : Prop where
  range : ∀ a n, n ∈ inp.adj a → n < 3 * inp.nBlocks

theorem blockDef_mono {d d' : Def} (h : ∀ x, x ∈ d → x ∈ d') {b : Nat} (hb : BlockDef d b) : BlockDef d' b :=
  fun a ha => h a (hb a ha)

theorem mem_axesOf_div (x : Nat) : x ∈ axesOf (x / 3) := by
  unfold axesOf
  simp only [List.mem_cons, List.mem_nil_iff, or_false]
  omega

/-- blocks outside `pre ++ wl` are completely defined -/
def Off (inp : Inp) (d : Def) (pending : List Nat) : Prop :=
  ∀ b, b < inp.nBlocks → b ∉ pending → BlockDef d b

theorem pass_off (inp : Inp) (wl : List Nat) : ∀ (d : Def) (pre : List Nat),
    Off inp d (pre ++ wl) → Off inp (pass inp d wl).1 (pre ++ (pass inp d wl).2.1) := by
  induction wl with
  | nil => intro d pre h; exact h
  | cons b rest ih =>
    intro d pre h
    unfold pass
    by_cases hb : BlockDef d b
    · simp only [hb, if_true]
      intro c hc hcr
      by_cases hcb : c = b
      · subst hcb; exact hb
      · apply h c hc
        simp only [List.mem_append, List.mem_cons, not_or] at hcr ⊢
        exact ⟨hcr.1, hcb, hcr.2⟩
    · simp only [hb, if_false]
      have h1 : Off inp (blockCopy inp d b).1 ((pre ++ [b]) ++ rest) := by
        intro c hc hcr
        apply blockDef_mono (blockCopy_mono inp d b)
        apply h c hc
        simpa [List.append_assoc] using hcr
      have := ih _ (pre ++ [b]) h1
      simpa [List.append_assoc] using this

theorem pass_sub (inp : Inp) (wl : List Nat) : ∀ (d : Def), ∀ b ∈ (pass inp d wl).2.1, b ∈ wl := by
  induction wl with
  | nil => intro d b hb; exact hb
  | cons c rest ih =>
    intro d b hb
    unfold pass at hb
    by_cases hc : BlockDef d c
    · simp only [hc, if_true] at hb; exact List.mem_cons_of_mem _ hb
    · simp only [hc, if_false] at hb
      rcases List.mem_cons.mp hb with rfl | hb
      · exact List.mem_cons_self
      · exact List.mem_cons_of_mem _ (ih _ b hb)

/-- completeness at a stuck state -/
theorem stuck_complete (inp : Inp) (wf : WF inp) (src d : Def) (wl : List Nat)
    (hsrc : ∀ x ∈ src, x ∈ d) (hoff : Off inp d wl) (hst : Stuck inp d wl) :
    ∀ x, Reach inp src x → x < 3 * inp.nBlocks → x ∈ d := by
  intro x hx
  induction hx with
  | base h => intro _; exact hsrc _ h
  | @step a n hn _ ih =>
    intro ha
    have hnd : n ∈ d := ih (wf.range a n hn)
    have hnb : HasDefNbr inp d a := ⟨n, hn, hnd⟩
    have hblk : a / 3 < inp.nBlocks := by omega
    by_cases hw : a / 3 ∈ wl
    · rcases (hst _ hw).2 a (mem_axesOf_div a) with h | h
      · exact h
      · exact absurd hnb h
    · exact hoff _ hblk hw a (mem_axesOf_div a)

/-- the loop, started with every block on the work-list -/
theorem loop_result (inp : Inp) (wf : WF inp) (src : Def) : ∀ (fuel : Nat) (d : Def) (wl : List Nat),
    (∀ x ∈ src, x ∈ d) → Sound inp src d → Off inp d wl → (∀ b ∈ wl, b < inp.nBlocks) →
    match (loop inp fuel d wl).2 with
    | .ok => ∀ b, b < inp.nBlocks → ∀ a ∈ axesOf b, Reach inp src a ∧ a ∈ (loop inp fuel d wl).1
    | .undefined => ∃ b, b < inp.nBlocks ∧ ∃ a ∈ axesOf b, ¬ Reach inp src a
    | .outOfFuel => True := by
  intro fuel
  induction fuel with
  | zero => intro d wl _ _ _ _; simp [loop]
  | succ f ih =>
    intro d wl hsrc hs hoff hwl
    unfold loop
    cases wl with
    | nil =>
      simp only
      intro b hb a ha
      have := hoff b hb (by simp) a ha
      exact ⟨hs a this, this⟩
    | cons b rest =>
      simp only
      by_cases hu : (pass inp d (b :: rest)).2.2 = true
      · simp only [hu, if_true]
        apply ih
        · intro x hx; exact pass_mono inp _ d x (hsrc x hx)
        · exact pass_sound inp src _ d hs
        · have := pass_off inp (b :: rest) d [] (by simpa using hoff); simpa using this
        · intro c hc; exact hwl c (pass_sub inp _ d c hc)
      · have hu' : (pass inp d (b :: rest)).2.2 = false := by simpa using hu
        simp only [hu', Bool.false_eq_true, if_false]
        obtain ⟨e1, _, st⟩ := pass_false inp (b :: rest) d hu'
        have hb : ¬ BlockDef d b := (st b List.mem_cons_self).1
        have hbN : b < inp.nBlocks := hwl b List.mem_cons_self
        -- some axis of b is undefined, hence unreachable
        have : ∃ a ∈ axesOf b, a ∉ d := by
          unfold BlockDef at hb
          simpa using hb
        obtain ⟨a, ha, had⟩ := this
        refine ⟨b, hbN, a, ha, ?_⟩
        intro hr
        have ha3 : a < 3 * inp.nBlocks := by
          unfold axesOf at ha
          simp only [List.mem_cons, List.mem_nil_iff, or_false] at ha
          omega
        exact had (stuck_complete inp wf src d (b :: rest) hsrc hoff st a hr ha3)

end CBV.Prop0
