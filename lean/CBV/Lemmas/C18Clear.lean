/-
C18 — the re-orienter in a clear view (round 6).

`reorientCore` is followed through all of its steps for every block `Q : Hex` whose corners are pairwise distinct to
the merge tolerance, every list of hull triangles that is — in any order, with the vertices of every triangle in any
order — the two halves of each of the six sides of `Q` (either diagonal), and every view in which the two halves of
the side the pass is meant for beat all triangles that are still left (`Clear`).  The result is `fixHand Q.toList`.
-/
import CBV.Lemmas.C18Model
import CBV.Lemmas.C18Hex

namespace CBV.C18

/-! ### `sorted(...)[-2:]` on a list given up to order -/

theorem perm_cons_eraseIdx {l : List Tri} {i : Nat} {a : Tri} (h : l[i]? = some a) :
    l.Perm (a :: l.eraseIdx i) := by
  induction l generalizing i with
  | nil => simp at h
  | cons x xs ih =>
    cases i with
    | zero =>
      simp only [List.getElem?_cons_zero, Option.some.injEq] at h
      subst h
      exact List.Perm.refl _
    | succ i =>
      simp only [List.getElem?_cons_succ] at h
      simp only [List.eraseIdx_cons_succ]
      exact ((ih h).cons x).trans (List.Perm.swap _ _ _)

theorem best_of_ne {d : V3} {l : List Tri} (hpos : ∀ t ∈ l, 0 < (t.key d).2) (hne : l ≠ []) :
    ∃ i a, bestIdx d l = some i ∧ l[i]? = some a ∧ (∀ t ∈ l, ¬ alignLt (a.key d) (t.key d)) ∧
      l.Perm (a :: l.eraseIdx i) := by
  cases l with
  | nil => exact absurd rfl hne
  | cons t ts =>
    obtain ⟨a, ha, hmax⟩ := bestIdx_spec hpos (rfl : bestIdx d (t :: ts) = some (bestIdxAux d ts 1 0 t))
    exact ⟨_, a, rfl, ha, hmax, perm_cons_eraseIdx ha⟩

/-- `_get_aligned` on a list that is, in some order, `A`, `B` and triangles all worse than both: the answer is
    `A` and `B` (in one of the two orders) and what is left is the rest, whatever the order of the list. -/
theorem pick2_clear {d : V3} {l : List Tri} {A B : Tri} {R : List Tri}
    (hpos : ∀ t ∈ l, 0 < (t.key d).2) (hl : l.Perm (A :: B :: R)) (hc : Clear d A B R) :
    ∃ rest, rest.Perm R ∧ (pick2 d l = some (B, A, rest) ∨ pick2 d l = some (A, B, rest)) := by
  have hne : l ≠ [] := by
    intro h; subst h; exact absurd hl.length_eq (by simp)
  obtain ⟨i, a, hi, ha, hmax, hperm⟩ := best_of_ne hpos hne
  have hAl : A ∈ l := hl.mem_iff.mpr (by simp)
  have hBl : B ∈ l := hl.mem_iff.mpr (by simp)
  have ha_mem : a ∈ A :: B :: R := hl.mem_iff.mp (List.mem_of_getElem? ha)
  have stage2 : ∀ (X Y : Tri), a = X → (l.eraseIdx i).Perm (Y :: R) → (∀ x ∈ R, alignLt (x.key d) (Y.key d)) →
      ∃ rest, rest.Perm R ∧ pick2 d l = some (Y, X, rest) := by
    intro X Y hax hp1 hY
    have hsub : ∀ t ∈ l.eraseIdx i, t ∈ l := fun t ht => (List.eraseIdx_sublist l i).subset ht
    have hne1 : l.eraseIdx i ≠ [] := by
      intro h; rw [h] at hp1; exact absurd hp1.length_eq (by simp)
    obtain ⟨j, b, hj, hb, hmax2, hperm2⟩ := best_of_ne (fun t ht => hpos t (hsub t ht)) hne1
    have hb_mem : b ∈ Y :: R := hp1.mem_iff.mp (List.mem_of_getElem? hb)
    have hbY : b = Y := by
      rcases List.mem_cons.mp hb_mem with h | h
      · exact h
      · exact absurd (hY b h) (hmax2 Y (hp1.mem_iff.mpr (by simp)))
    refine ⟨(l.eraseIdx i).eraseIdx j, ?_, ?_⟩
    · have := hperm2.symm.trans hp1
      rw [hbY] at this
      exact this.cons_inv
    · unfold pick2
      simp only [Option.bind_eq_bind, hi, ha, hj, hb, Option.bind_some, hbY, hax]
  rcases List.mem_cons.mp ha_mem with h | h
  · have hp1 : (l.eraseIdx i).Perm (B :: R) := by
      have := hperm.symm.trans hl
      rw [h] at this
      exact this.cons_inv
    obtain ⟨rest, hr, hp⟩ := stage2 A B h hp1 (fun x hx => (hc x hx).2)
    exact ⟨rest, hr, Or.inl hp⟩
  · rcases List.mem_cons.mp h with h | h
    · have hp1 : (l.eraseIdx i).Perm (A :: R) := by
        have := (hperm.symm.trans hl).trans (List.Perm.swap B A R)
        rw [h] at this
        exact this.cons_inv
      obtain ⟨rest, hr, hp⟩ := stage2 B A h hp1 (fun x hx => (hc x hx).1)
      exact ⟨rest, hr, Or.inr hp⟩
    · exact absurd (hc a h).1 (hmax A hAl)

/-! ### corner numbers instead of positions -/

theorem commonIdx_subset {l1 l2 : List Nat} : ∀ i ∈ commonIdx l1 l2, i ∈ l1 := by
  intro i hi
  simp only [commonIdx, List.mem_flatMap, List.mem_filterMap] at hi
  obtain ⟨a, ha, j, _, h⟩ := hi
  split at h
  · cases h; exact ha
  · cases h

theorem commonPoints_cons (p : V3) (l1 l2 : List V3) :
    commonPoints (p :: l1) l2 = l2.filterMap (fun p2 => if near p p2 then some p else none) ++ commonPoints l1 l2 := by
  simp [commonPoints]

theorem commonIdx_cons (i : Nat) (l1 l2 : List Nat) :
    commonIdx (i :: l1) l2 = l2.filterMap (fun j => if i = j then some i else none) ++ commonIdx l1 l2 := by
  simp [commonIdx]

theorem commonPoints_map {Q : Hex} (hs : Sep Q) (l1 l2 : List Nat) (h1 : ∀ i ∈ l1, i < 8) (h2 : ∀ j ∈ l2, j < 8) :
    commonPoints (l1.map Q) (l2.map Q) = (commonIdx l1 l2).map Q := by
  induction l1 with
  | nil => rfl
  | cons i l1 ih =>
    rw [List.map_cons, commonPoints_cons, commonIdx_cons, List.map_append,
      ih (fun k hk => h1 k (List.mem_cons_of_mem _ hk))]
    congr 1
    have hi : i < 8 := h1 i (List.mem_cons_self ..)
    clear ih
    induction l2 with
    | nil => rfl
    | cons j l2 ih2 =>
      have hj : j < 8 := h2 j (List.mem_cons_self ..)
      have ih2' := ih2 (fun k hk => h2 k (List.mem_cons_of_mem _ hk))
      by_cases hij : i = j
      · subst hij
        simp only [List.map_cons, List.filterMap_cons, near_refl, if_true, List.map_cons]
        rw [ih2']
      · have hn : ¬ near (Q i) (Q j) := fun hn => hij (hs i j hi hj hn)
        simp only [List.map_cons, List.filterMap_cons, hn, hij, if_false]
        exact ih2'

theorem any_near_map {Q : Hex} (hs : Sep Q) (i : Nat) (hi : i < 8) (cp : List Nat) (hcp : ∀ c ∈ cp, c < 8) :
    (cp.map Q).any (fun c => decide (near (Q i) c)) = cp.any (fun c => decide (i = c)) := by
  induction cp with
  | nil => rfl
  | cons c cp ih =>
    have hc : c < 8 := hcp c (List.mem_cons_self ..)
    simp only [List.map_cons, List.any_cons, ih (fun k hk => hcp k (List.mem_cons_of_mem _ hk))]
    congr 1
    by_cases hic : i = c
    · subst hic; simp [near_refl]
    · have hn : ¬ near (Q i) (Q c) := fun hn => hic (hs i c hi hc hn)
      simp [hn, hic]

theorem uniquePoints_map {Q : Hex} (hs : Sep Q) (l1 l2 : List Nat) (h1 : ∀ i ∈ l1, i < 8) (h2 : ∀ j ∈ l2, j < 8) :
    uniquePoints (l1.map Q) (l2.map Q) = (uniqueIdx l1 l2).map Q := by
  unfold uniquePoints uniqueIdx
  simp only
  rw [commonPoints_map hs l1 l2 h1 h2, ← List.map_append, List.filter_map]
  congr 1
  apply List.filter_congr
  intro i hi
  have hi8 : i < 8 := by
    rcases List.mem_append.mp hi with h | h
    · exact h1 i h
    · exact h2 i h
  simp only [Function.comp]
  rw [any_near_map hs i hi8 _ (fun c hc => h1 c (commonIdx_subset c hc))]

theorem triP_points (Q : Hex) (t : ITri) : (triP Q t).points = t.idxs.map Q := rfl

theorem mkQuad_ok {t0 t1 : Tri} (hst : ¬ tooSteep t0 t1) (hc : (commonPoints t0.points t1.points).length = 2)
    (hu : (uniquePoints t0.points t1.points).length = 2) :
    mkQuad t0 t1 = .ok (uniquePoints t0.points t1.points ++ commonPoints t0.points t1.points) := by
  unfold mkQuad
  rw [if_neg hst]
  simp only [hc, hu, ne_eq, not_true_eq_false, if_false]

theorem mkQuad_idx {Q : Hex} (hs : Sep Q) {s : Nat} {a b : ITri} (hh : half1 s a b = true)
    (hst : ¬ tooSteep (triP Q a) (triP Q b)) :
    mkQuad (triP Q a) (triP Q b) = .ok ((mkQuadIdx a b).map Q) ∧ (mkQuadIdx a b).Perm (corners s) := by
  simp only [half1, Bool.and_eq_true, List.all_eq_true, decide_eq_true_eq, beq_iff_eq, List.isPerm_iff] at hh
  obtain ⟨⟨⟨⟨ha, hb⟩, hc⟩, hu⟩, hp⟩ := hh
  refine ⟨?_, hp⟩
  have hcp : commonPoints (triP Q a).points (triP Q b).points = (commonIdx a.idxs b.idxs).map Q :=
    commonPoints_map hs _ _ ha hb
  have hup : uniquePoints (triP Q a).points (triP Q b).points = (uniqueIdx a.idxs b.idxs).map Q :=
    uniquePoints_map hs _ _ ha hb
  rw [mkQuad_ok hst (by rw [hcp, List.length_map, hc]) (by rw [hup, List.length_map, hu]), hcp, hup, mkQuadIdx,
    List.map_append]

theorem tooSteep_comm (t0 t1 : Tri) : tooSteep t0 t1 ↔ tooSteep t1 t0 := by
  have h : V3.dot t0.normalRaw t1.normalRaw = V3.dot t1.normalRaw t0.normalRaw := by
    simp only [V3.dot]; ring
  unfold tooSteep
  rw [h, mul_comm (V3.norm2 t0.normalRaw)]

/-- one pass of the loop on a list that is, in some order, the two halves of side `s` and triangles that are all
    worse aligned: the quad consists of the four corners of side `s`, the rest is the rest -/
theorem quadStep_clear {Q : Hex} (hs : Sep Q) {d : V3} {l : List Tri} {s : Nat} {a b : ITri} {R : List Tri}
    (hpos : ∀ t ∈ triP Q a :: triP Q b :: R, 0 < (t.key d).2)
    (hl : l.Perm (triP Q a :: triP Q b :: R)) (hc : Clear d (triP Q a) (triP Q b) R)
    (hh : halves s a b = true) (hst : ¬ tooSteep (triP Q a) (triP Q b)) :
    ∃ (m : List Nat) (rest : List Tri), m.Perm (corners s) ∧ rest.Perm R ∧ quadStep d l = .ok (m.map Q, rest) := by
  simp only [halves, Bool.and_eq_true] at hh
  obtain ⟨rest, hr, hp⟩ := pick2_clear (fun t ht => hpos t (hl.mem_iff.mp ht)) hl hc
  rcases hp with hp | hp
  · obtain ⟨hq, hm⟩ := mkQuad_idx hs hh.2 (fun h => hst ((tooSteep_comm _ _).mp h))
    exact ⟨_, rest, hm, hr, by unfold quadStep; rw [hp]; simp only [hq]⟩
  · obtain ⟨hq, hm⟩ := mkQuad_idx hs hh.1 hst
    exact ⟨_, rest, hm, hr, by unfold quadStep; rw [hp]; simp only [hq]⟩

/-! ### the eight triple intersections -/

theorem commonIdx_perm {l1 l1' l2 l2' : List Nat} (h1 : l1.Perm l1') (h2 : l2.Perm l2') :
    (commonIdx l1 l2).Perm (commonIdx l1' l2') := by
  unfold commonIdx
  refine (List.Perm.flatMap_right _ h1).trans (List.Perm.flatMap_left _ ?_)
  intro i _
  exact h2.filterMap _

theorem corner_recipes :
    commonIdx (commonIdx (corners 0) (corners 4)) (corners 2) = [0] ∧
    commonIdx (commonIdx (corners 0) (corners 4)) (corners 3) = [1] ∧
    commonIdx (commonIdx (corners 0) (corners 5)) (corners 3) = [2] ∧
    commonIdx (commonIdx (corners 0) (corners 5)) (corners 2) = [3] ∧
    commonIdx (commonIdx (corners 1) (corners 4)) (corners 2) = [4] ∧
    commonIdx (commonIdx (corners 1) (corners 4)) (corners 3) = [5] ∧
    commonIdx (commonIdx (corners 1) (corners 5)) (corners 3) = [6] ∧
    commonIdx (commonIdx (corners 1) (corners 5)) (corners 2) = [7] := by decide

theorem corners_lt (s : Nat) : ∀ i ∈ corners s, i < 8 := by
  intro i hi
  simp only [corners, List.mem_cons, List.not_mem_nil, or_false] at hi
  have : ∀ k, cyc s k < 8 := by
    intro k
    unfold cyc
    split <;> omega
  rcases hi with rfl | rfl | rfl | rfl <;> exact this _

/-- `get_common_point` of three quads that consist of the corners of the sides `s`, `s1`, `s2` -/
theorem commonPoint_sides {Q : Hex} (hs : Sep Q) {s s1 s2 k : Nat} {m m1 m2 : List Nat}
    (hm : m.Perm (corners s)) (hm1 : m1.Perm (corners s1)) (hm2 : m2.Perm (corners s2))
    (hk : commonIdx (commonIdx (corners s) (corners s1)) (corners s2) = [k]) :
    commonPoint (m.map Q) (m1.map Q) (m2.map Q) = .ok (Q k) := by
  have lt : ∀ {m : List Nat} {s : Nat}, m.Perm (corners s) → ∀ i ∈ m, i < 8 :=
    fun h i hi => corners_lt _ i (h.mem_iff.mp hi)
  have h2 : commonIdx (commonIdx m m1) m2 = [k] := by
    have := commonIdx_perm (commonIdx_perm hm hm1) hm2
    rw [hk] at this
    exact List.perm_singleton.mp this
  unfold commonPoint
  simp only
  rw [commonPoints_map hs _ _ (lt hm) (lt hm1),
    commonPoints_map hs _ _ (fun i hi => lt hm i (commonIdx_subset i hi)) (lt hm2), h2]
  simp

theorem eachOnce_self {Q : Hex} (hs : Sep Q) : eachOnce Q.toList Q.toList = true := by
  unfold eachOnce Hex.toList
  simp only [List.all_eq_true, List.mem_map, beq_iff_eq]
  rintro q ⟨j, hj, rfl⟩
  have hj8 : j < 8 := List.mem_range.mp hj
  rw [List.filter_map, List.length_map]
  have : (List.range 8).filter ((fun p => decide (near p (Q j))) ∘ Q) = (List.range 8).filter (fun i => i == j) := by
    apply List.filter_congr
    intro i hi
    have hi8 : i < 8 := List.mem_range.mp hi
    by_cases hij : i = j
    · subst hij; simp [near_refl]
    · have hn : ¬ near (Q i) (Q j) := fun hn => hij (hs i j hi8 hj8 hn)
      simp [hn, hij]
  rw [this]
  have hall : ∀ j ∈ List.range 8, ((List.range 8).filter (fun i => i == j)).length = 1 := by decide
  exact hall j hj

/-! ### the whole of `reorientCore` -/

theorem cornersOf_sides_ok {Q : Hex} (hs : Sep Q) {mf mb mt mo ml mr : List Nat}
    (hf : mf.Perm (corners 4)) (hb : mb.Perm (corners 5)) (ht : mt.Perm (corners 1)) (ho : mo.Perm (corners 0))
    (hl : ml.Perm (corners 2)) (hr : mr.Perm (corners 3)) :
    cornersOf ⟨mf.map Q, mb.map Q, mt.map Q, mo.map Q, ml.map Q, mr.map Q⟩ = .ok Q.toList := by
  obtain ⟨c0, c1, c2, c3, c4, c5, c6, c7⟩ := corner_recipes
  unfold cornersOf
  simp only [commonPoint_sides hs ho hf hl c0, commonPoint_sides hs ho hf hr c1, commonPoint_sides hs ho hb hr c2,
    commonPoint_sides hs ho hb hl c3, commonPoint_sides hs ht hf hl c4, commonPoint_sides hs ht hf hr c5,
    commonPoint_sides hs ht hb hr c6, commonPoint_sides hs ht hb hl c7]
  rfl

theorem quadsOf_of_steps {tris r1 r2 r3 r4 r5 r6 : List Tri} {d : Dirs} {q1 q2 q3 q4 q5 q6 : List V3}
    (e1 : quadStep d.o tris = .ok (q1, r1)) (e2 : quadStep (-d.o) r1 = .ok (q2, r2))
    (e3 : quadStep d.t r2 = .ok (q3, r3)) (e4 : quadStep (-d.t) r3 = .ok (q4, r4))
    (e5 : quadStep d.l r4 = .ok (q5, r5)) (e6 : quadStep (-d.l) r5 = .ok (q6, r6)) :
    quadsOf tris d = .ok ⟨q1, q2, q3, q4, q5, q6⟩ := by
  unfold quadsOf
  rw [e1]; show (quadStep (-d.o) r1 >>= _) = _
  rw [e2]; show (quadStep d.t r2 >>= _) = _
  rw [e3]; show (quadStep (-d.t) r3 >>= _) = _
  rw [e4]; show (quadStep d.l r4 >>= _) = _
  rw [e5]; show (quadStep (-d.l) r5 >>= _) = _
  rw [e6]; rfl

theorem quadsOf_clear {Q : Hex} (hs : Sep Q) {tris : List Tri} {d : Dirs}
    {f1 f2 b1 b2 t1 t2 o1 o2 l1 l2 r1 r2 : ITri}
    (hcut : sidesCut f1 f2 b1 b2 t1 t2 o1 o2 l1 l2 r1 r2 = true)
    (htris : tris.Perm ([f1, f2, b1, b2, t1, t2, o1, o2, l1, l2, r1, r2].map (triP Q)))
    (hv : ClearView d (triP Q f1) (triP Q f2) (triP Q b1) (triP Q b2) (triP Q t1) (triP Q t2) (triP Q o1) (triP Q o2)
      (triP Q l1) (triP Q l2) (triP Q r1) (triP Q r2)) :
    ∃ mf mb mt mo ml mr : List Nat, mf.Perm (corners 4) ∧ mb.Perm (corners 5) ∧ mt.Perm (corners 1) ∧
      mo.Perm (corners 0) ∧ ml.Perm (corners 2) ∧ mr.Perm (corners 3) ∧
      quadsOf tris d = .ok ⟨mf.map Q, mb.map Q, mt.map Q, mo.map Q, ml.map Q, mr.map Q⟩ := by
  simp only [sidesCut, Bool.and_eq_true] at hcut
  obtain ⟨⟨⟨⟨⟨h4, h5⟩, h1⟩, h0⟩, h2⟩, h3⟩ := hcut
  simp only [List.map_cons, List.map_nil] at htris
  have key : ∀ (dir : V3) (t : Tri), (t.key dir).2 = V3.norm2 t.normalRaw := fun _ _ => rfl
  have m2 : ∀ {t a b : Tri} {l : List Tri}, t ∈ l → t ∈ a :: b :: l :=
    fun h => List.mem_cons_of_mem _ (List.mem_cons_of_mem _ h)
  have nd := hv.nondeg
  obtain ⟨mf, x1, pf, px1, e1⟩ := quadStep_clear hs (d := d.o)
    (fun t ht => by rw [key]; exact nd t ht) htris hv.front h4 hv.flat.1
  obtain ⟨mb, x2, pb, px2, e2⟩ := quadStep_clear hs (d := -d.o)
    (fun t ht => by rw [key]; exact nd t (m2 ht)) px1 hv.back h5 hv.flat.2.1
  obtain ⟨mt, x3, pt, px3, e3⟩ := quadStep_clear hs (d := d.t)
    (fun t ht => by rw [key]; exact nd t (m2 (m2 ht))) px2 hv.top h1 hv.flat.2.2.1
  obtain ⟨mo, x4, po, px4, e4⟩ := quadStep_clear hs (d := -d.t)
    (fun t ht => by rw [key]; exact nd t (m2 (m2 (m2 ht)))) px3 hv.bottom h0 hv.flat.2.2.2.1
  obtain ⟨ml, x5, pl, px5, e5⟩ := quadStep_clear hs (d := d.l)
    (fun t ht => by rw [key]; exact nd t (m2 (m2 (m2 (m2 ht))))) px4 hv.left h2 hv.flat.2.2.2.2.1
  obtain ⟨mr, x6, pr, _, e6⟩ := quadStep_clear (R := []) hs (d := -d.l)
    (fun t ht => by rw [key]; exact nd t (m2 (m2 (m2 (m2 (m2 ht)))))) px5
    (fun x hx => absurd hx List.not_mem_nil) h3 hv.flat.2.2.2.2.2
  exact ⟨mf, mb, mt, mo, ml, mr, pf, pb, pt, po, pl, pr, quadsOf_of_steps e1 e2 e3 e4 e5 e6⟩

/-- `reorientCore` in a clear view: the numbering `Q` (up to the handedness swap), whatever the order of the hull
    triangles, of the vertices in each triangle, of the input points, and whichever diagonals the hull has chosen. -/
theorem reorientCore_clear {Q : Hex} (hs : Sep Q) {pts : List V3} (hp : pts.Perm Q.toList) {tris : List Tri}
    {c obs ceil : V3} {f1 f2 b1 b2 t1 t2 o1 o2 l1 l2 r1 r2 : ITri}
    (hcut : sidesCut f1 f2 b1 b2 t1 t2 o1 o2 l1 l2 r1 r2 = true)
    (htris : tris.Perm ([f1, f2, b1, b2, t1, t2, o1, o2, l1, l2, r1, r2].map (triP Q)))
    (hview : ¬ ((dirsOf c obs ceil).o = V3.zero ∨ (dirsOf c obs ceil).t = V3.zero))
    (hv : ClearView (dirsOf c obs ceil) (triP Q f1) (triP Q f2) (triP Q b1) (triP Q b2) (triP Q t1) (triP Q t2)
      (triP Q o1) (triP Q o2) (triP Q l1) (triP Q l2) (triP Q r1) (triP Q r2)) :
    reorientCore pts tris c obs ceil = .ok (fixHand Q.toList) := by
  obtain ⟨mf, mb, mt, mo, ml, mr, pf, pb, pt, po, pl, pr, hq⟩ := quadsOf_clear hs hcut htris hv
  rw [reorientCore_perm hp]
  unfold reorientCore
  simp only [if_neg hview, hq, cornersOf_sides_ok hs pf pb pt po pl pr, eachOnce_self hs, if_true]

/-! ### planar sides: triangle alignment = side alignment -/

/-- the (outward) normal of the half `X` of side `s` is a positive multiple of the side's area vector: what holds for
    both halves, along either diagonal, of a planar side of a right-handed block -/
def PlanarHalf (Q : Hex) (s : Nat) (X : Tri) : Prop := ∃ k : Rat, 0 < k ∧ X.normalRaw = V3.smul k (sideNormal Q s)

theorem alignLt_scale {a A b B k m : Rat} (hk : 0 < k) (hm : 0 < m) :
    alignLt (k * a, k * k * A) (m * b, m * m * B) ↔ alignLt (a, A) (b, B) := by
  have h1 : k * a < 0 ↔ a < 0 := by
    constructor
    · intro h
      rcases lt_or_ge a 0 with h' | h'
      · exact h'
      · exact absurd h (not_lt.mpr (mul_nonneg hk.le h'))
    · exact fun h => mul_neg_of_pos_of_neg hk h
  have h2 : m * b < 0 ↔ b < 0 := by
    constructor
    · intro h
      rcases lt_or_ge b 0 with h' | h'
      · exact h'
      · exact absurd h (not_lt.mpr (mul_nonneg hm.le h'))
    · exact fun h => mul_neg_of_pos_of_neg hm h
  have hp : 0 < k * k * (m * m) := by positivity
  have e1 : m * b * (m * b) * (k * k * A) = k * k * (m * m) * (b * b * A) := by ring
  have e2 : k * a * (k * a) * (m * m * B) = k * k * (m * m) * (a * a * B) := by ring
  have key : ∀ x y : Rat, k * k * (m * m) * x < k * k * (m * m) * y ↔ x < y :=
    fun x y => ⟨fun h => lt_of_mul_lt_mul_left h hp.le, fun h => mul_lt_mul_of_pos_left h hp⟩
  unfold alignLt
  simp only [h1, h2, e1, e2, key]

theorem key_planar {Q : Hex} {s : Nat} {X : Tri} {k : Rat} (h : X.normalRaw = V3.smul k (sideNormal Q s)) (d : V3) :
    X.key d = (k * (sideKey Q d s).1, k * k * (sideKey Q d s).2) := by
  unfold Tri.key sideKey
  rw [h]
  simp only [V3.dot, V3.norm2, V3.smul_x, V3.smul_y, V3.smul_z, Prod.mk.injEq]
  constructor <;> ring

/-- for planar halves the comparison the code makes (triangles) is the comparison the specification makes (sides) -/
theorem alignLt_planar {Q : Hex} {s s' : Nat} {X Y : Tri} (hX : PlanarHalf Q s X) (hY : PlanarHalf Q s' Y) (d : V3) :
    alignLt (X.key d) (Y.key d) ↔ alignLt (sideKey Q d s) (sideKey Q d s') := by
  obtain ⟨k, hk, ek⟩ := hX
  obtain ⟨m, hm, em⟩ := hY
  rw [key_planar ek, key_planar em]
  exact alignLt_scale hk hm

/-- a clear view of a right-handed block with planar sides is canonical in the sense of the specification -/
theorem canonical_of_clear {Q : Hex} {obs ceil : V3} {F1 F2 B1 B2 T1 T2 O1 O2 L1 L2 R1 R2 : Tri}
    (hv : ClearView (dirsOf Q.center obs ceil) F1 F2 B1 B2 T1 T2 O1 O2 L1 L2 R1 R2)
    (hF : PlanarHalf Q 4 F1) (hB : PlanarHalf Q 5 B1) (hT : PlanarHalf Q 1 T1) (hO : PlanarHalf Q 0 O1)
    (hL : PlanarHalf Q 2 L1) (hR : PlanarHalf Q 3 R1) (hrh : ∀ i < 8, 0 < tp Q i) : Canonical obs ceil Q := by
  refine ⟨?_, ?_, fun i hi => hrh i (List.mem_range.mp hi)⟩
  · intro s hs
    simp only [List.mem_cons, List.not_mem_nil, or_false] at hs
    rcases hs with rfl | rfl | rfl | rfl | rfl
    · exact (alignLt_planar hO hF _).mp (hv.front O1 (by simp)).1
    · exact (alignLt_planar hT hF _).mp (hv.front T1 (by simp)).1
    · exact (alignLt_planar hL hF _).mp (hv.front L1 (by simp)).1
    · exact (alignLt_planar hR hF _).mp (hv.front R1 (by simp)).1
    · exact (alignLt_planar hB hF _).mp (hv.front B1 (by simp)).1
  · intro s hs
    simp only [List.mem_cons, List.not_mem_nil, or_false] at hs
    rcases hs with rfl | rfl | rfl
    · exact (alignLt_planar hO hT _).mp (hv.top O1 (by simp)).1
    · exact (alignLt_planar hL hT _).mp (hv.top L1 (by simp)).1
    · exact (alignLt_planar hR hT _).mp (hv.top R1 (by simp)).1

end CBV.C18
