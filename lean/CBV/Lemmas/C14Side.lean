/-
C14 — one side of a cell (`hexSide`, `quadSide`) under a rigid motion, a uniform scaling and a cyclic
shift of its corner list.
-/
import CBV.Lemmas.C14

namespace CBV.C14
open CBV

theorem list4 {α : Type} (l : List α) (h : l.length = 4) : ∃ a b c d, l = [a, b, c, d] := by
  match l, h with
  | [a, b, c, d], _ => exact ⟨a, b, c, d, rfl⟩

theorem list2 {α : Type} (l : List α) (h : l.length = 2) : ∃ a b, l = [a, b] := by
  match l, h with
  | [a, b], _ => exact ⟨a, b, rfl⟩

/-! ### rigid motion -/

theorem c2c_rigid (w : Rat) (a t centre sc : V3) (nb : Option V3) :
    c2c (rigid w a t centre) (rigid w a t sc) (nb.map (rigid w a t)) = rot w a (c2c centre sc nb) := by
  cases nb <;> simp [c2c, rigid_sub]

theorem hexSide_rigid (w : Rat) (a t : V3) (hN : w * w + V3.dot a a ≠ 0) (sp : List V3) (h4 : sp.length = 4)
    (centre : V3) (nb : Option V3) :
    hexSide (sp.map (rigid w a t)) (rigid w a t centre) (nb.map (rigid w a t)) = hexSide sp centre nb := by
  obtain ⟨p, q, r, s, rfl⟩ := list4 sp h4
  have hsc : avg ([p, q, r, s].map (rigid w a t)) = rigid w a t (avg [p, q, r, s]) :=
    avg_map_rigid _ _ _ _ (by simp)
  unfold hexSide
  simp only [hsc, c2c_rigid]
  simp only [List.map, rollL, rollR, List.zipWith, List.getLast?, List.getLast, List.dropLast,
    List.cons_append, List.nil_append, rigid_sub, rot_cross _ _ _ _ hN, mkTri_rot _ _ _ _ hN]

theorem pt_map_of_lt (f : V3 → V3) (pts : List V3) (i : Nat) (h : i < pts.length) :
    pt (pts.map f) i = f (pt pts i) := by
  simp [pt, List.getD_eq_getElem?_getD, h]

theorem map_pt_map (f : V3 → V3) (pts : List V3) (idx : List Nat) (h : ∀ i ∈ idx, i < pts.length) :
    idx.map (pt (pts.map f)) = (idx.map (pt pts)).map f := by
  rw [List.map_map]
  apply List.map_congr_left
  intro i hi
  exact pt_map_of_lt f pts i (h i hi)

theorem quadSide_rigid (w : Rat) (a t : V3) (hN : w * w + V3.dot a a ≠ 0) (pts : List V3) (hp : pts.length = 4)
    (i : Nat) (hi : i < 4) (idx : List Nat) (h2 : idx.length = 2) (hidx : ∀ k ∈ idx, k < 4) (centre : V3) (nb : Option V3) :
    quadSide (pts.map (rigid w a t)) i idx (rigid w a t centre) (nb.map (rigid w a t)) =
      quadSide pts i idx centre nb := by
  obtain ⟨x, y, rfl⟩ := list2 idx h2
  have hx : x < pts.length := by rw [hp]; exact hidx x (by simp)
  have hy : y < pts.length := by rw [hp]; exact hidx y (by simp)
  have hsc : avg ([x, y].map (pt (pts.map (rigid w a t)))) = rigid w a t (avg ([x, y].map (pt pts))) := by
    rw [map_pt_map _ _ _ (by intro k hk; rw [hp]; exact hidx k hk)]
    exact avg_map_rigid _ _ _ _ (by simp)
  unfold quadSide
  simp only [hsc, c2c_rigid]
  have e : ∀ k, k < 4 → pt (pts.map (rigid w a t)) k = rigid w a t (pt pts k) :=
    fun k hk => pt_map_of_lt _ _ _ (by omega)
  have m3 : (i + 3) % 4 < 4 := Nat.mod_lt _ (by omega)
  have m1 : (i + 1) % 4 < 4 := Nat.mod_lt _ (by omega)
  simp only [List.map, pt_map_of_lt _ _ _ hx, pt_map_of_lt _ _ _ hy, e 0 (by omega), e 1 (by omega),
    e 3 (by omega), e i hi, e _ m3, e _ m1, rigid_sub, rot_cross _ _ _ _ hN, mkTri_rot _ _ _ _ hN]
  simp only [pt, List.getD_cons_zero, List.getD_cons_succ, rigid_sub, rot_cross _ _ _ _ hN,
    mkTri_rot _ _ _ _ hN]

/-! ### uniform scaling -/

theorem smul_sub (k : Rat) (u v : V3) : V3.smul k u - V3.smul k v = V3.smul k (u - v) := by
  apply V3.ext' <;> simp <;> ring

theorem cross_smul_smul' (j k : Rat) (x y : V3) :
    V3.cross (V3.smul j x) (V3.smul k y) = V3.smul (j * k) (V3.cross x y) := by
  apply V3.ext' <;> simp only [V3.cross, V3.smul] <;> ring

theorem vsum_map_smul (k : Rat) (l : List V3) : vsum (l.map (V3.smul k)) = V3.smul k (vsum l) := by
  induction l with
  | nil => apply V3.ext' <;> simp [vsum, V3.zero]
  | cons x xs ih => simp only [List.map_cons, vsum, ih]; apply V3.ext' <;> simp <;> ring

theorem avg_map_smul (k : Rat) (l : List V3) : avg (l.map (V3.smul k)) = V3.smul k (avg l) := by
  unfold avg
  rw [vsum_map_smul, List.length_map]
  apply V3.ext' <;> simp <;> ring

theorem pt_map_smul (k : Rat) (pts : List V3) (i : Nat) : pt (pts.map (V3.smul k)) i = V3.smul k (pt pts i) := by
  unfold pt
  by_cases h : i < pts.length
  · simp [List.getD_eq_getElem?_getD, h]
  · simp [List.getD_eq_getElem?_getD, h, V3.zero, V3.smul]

theorem map_pt_map_smul (k : Rat) (pts : List V3) (idx : List Nat) :
    idx.map (pt (pts.map (V3.smul k))) = (idx.map (pt pts)).map (V3.smul k) := by
  rw [List.map_map]
  apply List.map_congr_left
  intro i _
  exact pt_map_smul k pts i

theorem c2c_smul (k : Rat) (centre sc : V3) (nb : Option V3) :
    c2c (V3.smul k centre) (V3.smul k sc) (nb.map (V3.smul k)) = V3.smul k (c2c centre sc nb) := by
  cases nb <;> simp [c2c, smul_sub]

theorem sgn_mul_pos (c x : Rat) (hc : 0 < c) : sgn (c * x) = sgn x := by
  unfold sgn
  rcases lt_trichotomy x 0 with h | h | h
  · have : c * x < 0 := mul_neg_of_pos_of_neg hc h
    simp [h, this, not_lt.mpr (le_of_lt h), not_lt.mpr (le_of_lt this)]
  · subst h; simp
  · have : 0 < c * x := mul_pos hc h
    simp [h, this]

/-- the scale-free form of a triple does not see positive factors on the two vectors -/
theorem norm_mkTri_smul (j k : Rat) (u v : V3) (hjk : 0 < j * k) :
    (mkTri (V3.smul j u) (V3.smul k v)).norm = (mkTri u v).norm := by
  have hj : j ≠ 0 := by rintro rfl; simp at hjk
  have hk : k ≠ 0 := by rintro rfl; simp at hjk
  unfold Tri.norm mkTri
  simp only [Tri0.mk.injEq]
  constructor
  · have : V3.dot (V3.smul j u) (V3.smul k v) = (j * k) * V3.dot u v := by
      simp only [V3.dot, V3.smul]; ring
    rw [this]; exact sgn_mul_pos _ _ hjk
  · have h1 : V3.dot (V3.smul j u) (V3.smul k v) * V3.dot (V3.smul j u) (V3.smul k v) =
        (j * j * (k * k)) * (V3.dot u v * V3.dot u v) := by simp only [V3.dot, V3.smul]; ring
    have h2 : V3.norm2 (V3.smul j u) * V3.norm2 (V3.smul k v) = (j * j * (k * k)) * (V3.norm2 u * V3.norm2 v) := by
      simp only [V3.norm2, V3.dot, V3.smul]; ring
    rw [h1, h2]
    exact mul_div_mul_left _ _ (mul_ne_zero (mul_ne_zero hj hj) (mul_ne_zero hk hk))

theorem hexSide_smul (k : Rat) (hk : 0 < k) (sp : List V3) (h4 : sp.length = 4) (centre : V3) (nb : Option V3) :
    let a := hexSide (sp.map (V3.smul k)) (V3.smul k centre) (nb.map (V3.smul k))
    let b := hexSide sp centre nb
    a.1.map Tri.norm = b.1.map Tri.norm ∧ a.2.map Tri.norm = b.2.map Tri.norm := by
  obtain ⟨p, q, r, s, rfl⟩ := list4 sp h4
  have hkk : 0 < k * k := mul_pos hk hk
  have hk3 : 0 < k * k * k := mul_pos hkk hk
  intro a b
  simp only [a, b]
  unfold hexSide
  simp only [avg_map_smul, c2c_smul]
  simp only [List.map, rollL, rollR, List.zipWith, List.getLast?, List.getLast, List.dropLast,
    List.cons_append, List.nil_append, smul_sub, cross_smul_smul', norm_mkTri_smul _ _ _ _ hk3,
    norm_mkTri_smul _ _ _ _ hkk]
  exact ⟨trivial, trivial⟩

theorem quadSide_smul (k : Rat) (hk : 0 < k) (pts : List V3) (i : Nat) (idx : List Nat) (h2 : idx.length = 2)
    (centre : V3) (nb : Option V3) :
    let a := quadSide (pts.map (V3.smul k)) i idx (V3.smul k centre) (nb.map (V3.smul k))
    let b := quadSide pts i idx centre nb
    a.1.norm = b.1.norm ∧ a.2.norm = b.2.norm := by
  obtain ⟨x, y, rfl⟩ := list2 idx h2
  have hkk : 0 < k * k := mul_pos hk hk
  have hk4 : 0 < k * k * k * k := mul_pos (mul_pos hkk hk) hk
  intro a b
  simp only [a, b]
  unfold quadSide
  simp only [map_pt_map_smul, avg_map_smul, c2c_smul, pt_map_smul]
  simp only [List.map, pt, List.getD_cons_zero, List.getD_cons_succ, smul_sub, cross_smul_smul',
    norm_mkTri_smul _ _ _ _ hk4, norm_mkTri_smul _ _ _ _ hkk]
  exact ⟨trivial, trivial⟩

/-! ### cyclic shift of the corner list of a hexahedron's side -/

theorem hexSide_rollL (sp : List V3) (h4 : sp.length = 4) (centre : V3) (nb : Option V3) :
    hexSide (rollL sp) centre nb = (rollL (hexSide sp centre nb).1, rollL (hexSide sp centre nb).2) := by
  obtain ⟨p, q, r, s, rfl⟩ := list4 sp h4
  have hsc : avg [q, r, s, p] = avg [p, q, r, s] := avg_perm (by
    exact (List.perm_append_comm (l₁ := [p]) (l₂ := [q, r, s])).symm)
  unfold hexSide
  simp only [rollL, List.cons_append, List.nil_append, hsc]
  simp only [List.map, rollR, List.zipWith, List.getLast?, List.getLast, List.dropLast, rollL,
    List.cons_append, List.nil_append]

theorem rollL_perm {α : Type} (l : List α) : (rollL l).Perm l := by
  cases l with
  | nil => exact List.Perm.refl _
  | cons x xs => exact (List.perm_append_comm (l₁ := xs) (l₂ := [x]))

theorem rollL_length {α : Type} (l : List α) : (rollL l).length = l.length := (rollL_perm l).length_eq

theorem rollL_map {α β : Type} (f : α → β) (l : List α) : rollL (l.map f) = (rollL l).map f := by
  cases l <;> simp [rollL]

/-- `rollL` applied `r` times -/
def rollN {α : Type} : Nat → List α → List α
  | 0, l => l
  | r + 1, l => rollN r (rollL l)

theorem rollN_map {α β : Type} (f : α → β) (r : Nat) (l : List α) : rollN r (l.map f) = (rollN r l).map f := by
  induction r generalizing l with
  | zero => rfl
  | succ r ih => simp [rollN, rollL_map, ih]

theorem hexSide_rollN (r : Nat) (sp : List V3) (h4 : sp.length = 4) (centre : V3) (nb : Option V3) :
    (hexSide (rollN r sp) centre nb).1.Perm (hexSide sp centre nb).1 ∧
    (hexSide (rollN r sp) centre nb).2.Perm (hexSide sp centre nb).2 := by
  induction r generalizing sp with
  | zero => exact ⟨List.Perm.refl _, List.Perm.refl _⟩
  | succ r ih =>
    have h := ih (rollL sp) (by rw [rollL_length]; exact h4)
    simp only [rollN]
    rw [hexSide_rollL sp h4] at h
    exact ⟨h.1.trans (rollL_perm _), h.2.trans (rollL_perm _)⟩

end CBV.C14
