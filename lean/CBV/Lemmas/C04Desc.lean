/-
Helper lemmas for C04: every chop a manager holds descends from a user chop (same id, length ratio and
count; only the inversion parity may differ) — invariant of the propagation phase of M-PROP.
-/
import CBV.Lemmas.C01Own

namespace CBV.Prop

/-- `c` descends from a chop the user placed on some axis -/
def Descends (inp : Inp) (c : Chop) : Prop :=
  ∃ y, ∃ c0 ∈ inp.chops y, c.id = c0.id ∧ c.ratio = c0.ratio ∧ c.count = c0.count

def Desc (inp : Inp) (st : St) : Prop := ∀ x, ∀ c ∈ chopsOf st x, Descends inp c

theorem copyPreserving_desc (inp : Inp) (b : Bool) (c : Chop) (h : Descends inp c) :
    Descends inp (copyPreserving b c) := by
  obtain ⟨y, c0, hc0, h1, h2, h3⟩ := h
  exact ⟨y, c0, hc0, by simpa [copyPreserving] using h1, by simpa [copyPreserving] using h2,
    by simpa [copyPreserving] using h3⟩

theorem init_desc (inp : Inp) : Desc inp (gradeBlocks inp (init inp)) := by
  intro x c hc
  have e : chopsOf (gradeBlocks inp (init inp)) x = inp.chops x := (gradeBlocks_fold inp (3 * inp.nBlocks)).1 x
  rw [e] at hc
  exact ⟨x, c, hc, rfl, rfl, rfl⟩

theorem axisCopy_desc (inp : Inp) (st st' : St) (x : Nat) (b : Bool) (hi : Desc inp st)
    (h : axisCopy inp st x = .ok (st', b)) : Desc inp st' := by
  unfold axisCopy at h
  split at h
  · cases h; exact hi
  · split at h
    · cases h; exact hi
    · rename_i nb _
      split at h
      · cases h
      · cases h
        intro y c hc
        rw [gradeAxis_chops, chopsOf_addChops] at hc
        split at hc
        · rcases List.mem_append.mp hc with hc | hc
          · exact hi x c hc
          · obtain ⟨c', hc', rfl⟩ := List.mem_map.mp hc
            exact copyPreserving_desc inp _ c' (hi nb c' hc')
        · exact hi y c hc
      · cases h
        intro y c hc
        rw [gradeAxis_chops, chopsOf_addChops] at hc
        split at hc
        · rcases List.mem_append.mp hc with hc | hc
          · exact hi x c hc
          · obtain ⟨c', hc', rfl⟩ := List.mem_map.mp hc
            exact copyPreserving_desc inp _ c' (hi nb c' (List.mem_reverse.mp hc'))
        · exact hi y c hc

theorem blockCopy_desc (inp : Inp) (st st' : St) (b : Nat) (u : Bool) (hi : Desc inp st)
    (h : blockCopy inp st b = .ok (st', u)) : Desc inp st' := by
  unfold blockCopy at h
  split at h
  · cases h; exact hi
  · split at h
    · cases h
    · rename_i r0 h0
      split at h
      · cases h
      · rename_i r1 h1
        split at h
        · cases h
        · rename_i r2 h2
          cases h
          have i0 := axisCopy_desc inp st r0.1 _ r0.2 hi h0
          have i1 := axisCopy_desc inp r0.1 r1.1 _ r1.2 i0 h1
          exact axisCopy_desc inp r1.1 r2.1 _ r2.2 i1 h2

theorem pass_desc (inp : Inp) (wl : List Nat) : ∀ (st : St) (r : St × List Nat × Bool), Desc inp st →
    pass inp st wl = .ok r → Desc inp r.1 := by
  induction wl with
  | nil => intro st r hi h; unfold pass at h; cases h; exact hi
  | cons b rest ih =>
    intro st r hi h
    unfold pass at h
    split at h
    · cases h; exact hi
    · split at h
      · cases h
      · rename_i rb hb
        split at h
        · cases h
        · rename_i p hp
          cases h
          exact ih rb.1 p (blockCopy_desc inp st rb.1 b rb.2 hi hb) hp

theorem loop_desc (inp : Inp) : ∀ (fuel : Nat) (st st' : St) (wl : List Nat), Desc inp st →
    loop inp fuel st wl = .ok st' → Desc inp st' := by
  intro fuel
  induction fuel with
  | zero => intro st st' wl _ h; unfold loop at h; cases h
  | succ f ih =>
    intro st st' wl hi h
    unfold loop at h
    split at h
    · cases h; exact hi
    · split at h
      · cases h
      · rename_i r hr
        split at h
        · exact ih r.1 st' r.2.1 (pass_desc inp _ st r hi hr) h
        · cases h

theorem run_desc (inp : Inp) (st : St) (h : run inp = .ok st) : Desc inp st := by
  unfold run at h
  split at h
  · cases h
  · split at h
    · cases h
    · rename_i st0 hl
      split at h
      · cases h
        exact loop_desc inp _ _ st _ (init_desc inp) hl
      · cases h

end CBV.Prop
