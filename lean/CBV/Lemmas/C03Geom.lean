/-
C03 — the geometric progression: count specification (uniqueness, never coarser / coarser with one
fewer), the executable exact count, first/last cell, inversion.
-/
import CBV.Lemmas.C03
import Mathlib.Algebra.Order.Ring.Pow

namespace CBV.C03

/-! ### first and last cell -/

theorem firstCell_mul {L r : ℚ} {n : ℕ} (hr : 0 ≤ r) (hn : 0 < n) : firstCell L n r * geomSum r n = L := by
  have := geomSum_pos hr hn
  unfold firstCell; field_simp

theorem firstCell_one (L r : ℚ) : firstCell L 1 r = L := by simp [firstCell, geomSum]

/-- the closed formula of the code is the first cell of the progression -/
theorem startFormula_eq_firstCell {L r : ℚ} {n : ℕ} (h1 : r ≠ 1) (hn : 1 - r ^ n ≠ 0) :
    L * (1 - r) / (1 - r ^ n) = firstCell L n r := by
  have h1' : (1 - r) ≠ 0 := sub_ne_zero.mpr (Ne.symm h1)
  have hc := geomSum_closed r n
  have hg : geomSum r n = (1 - r ^ n) / (1 - r) := by field_simp; linarith
  unfold firstCell; rw [hg]; field_simp

theorem uniformFormula_eq_firstCell (L : ℚ) (n : ℕ) : L / n = firstCell L n 1 := by
  unfold firstCell; rw [geomSum_one]

/-- the last cell is the first cell of the progression read backwards -/
theorem lastCell_eq {L r : ℚ} {n : ℕ} (hr : 0 < r) (hn : 0 < n) : lastCell L n r = L / geomSum r⁻¹ n := by
  have hi : (0 : ℚ) ≤ r⁻¹ := le_of_lt (inv_pos.mpr hr)
  have h1 := geomSum_pos (le_of_lt hr) hn
  have h2 := geomSum_pos hi hn
  have h3 := geomSum_inv (ne_of_gt hr) n
  unfold lastCell cell firstCell
  rw [← h3]; field_simp

theorem lastCell_eq_first_mul (L r : ℚ) (n : ℕ) : lastCell L n r = firstCell L n r * r ^ (n - 1) := rfl

theorem cell_succ (L r : ℚ) (n i : ℕ) : cell L n r (i + 1) = cell L n r i * r := by
  unfold cell; rw [pow_succ]; ring

/-- sum of the first `k` cells -/
def cellSum (L : ℚ) (n : ℕ) (r : ℚ) : ℕ → ℚ
  | 0 => 0
  | k + 1 => cellSum L n r k + cell L n r k

theorem cellSum_eq (L r : ℚ) (n k : ℕ) : cellSum L n r k = firstCell L n r * geomSum r k := by
  induction k with
  | zero => simp [cellSum, geomSum]
  | succ k ih => simp only [cellSum, geomSum, ih, cell]; ring

/-! ### the count specification -/

/-- strict form: `n-1` cells do not exceed the edge, `n` cells overshoot it -/
def CountSpec (s r L : ℚ) (n : ℕ) : Prop := 1 ≤ n ∧ s * geomSum r (n - 1) ≤ L ∧ L < s * geomSum r n

/-- non-strict form (what the validator admits at tolerance 0): ties at exact-integer solutions -/
def CountSpecW (s r L : ℚ) (n : ℕ) : Prop := 1 ≤ n ∧ s * geomSum r (n - 1) ≤ L ∧ L ≤ s * geomSum r n

theorem countOK_zero {s ρ L : ℚ} {n : ℕ} (h : countOK 0 s ρ L n = true) : CountSpecW s ρ L n := by
  rw [countOK_iff] at h
  simpa [CountSpecW] using h

theorem CountSpec.weak {s r L : ℚ} {n : ℕ} (h : CountSpec s r L n) : CountSpecW s r L n :=
  ⟨h.1, h.2.1, le_of_lt h.2.2⟩

theorem countSpec_unique {s r L : ℚ} {n m : ℕ} (hs : 0 < s) (hr : 0 < r)
    (hn : CountSpec s r L n) (hm : CountSpec s r L m) : n = m := by
  obtain ⟨n1, n2, n3⟩ := hn
  obtain ⟨m1, m2, m3⟩ := hm
  by_contra hne
  rcases Nat.lt_or_gt_of_ne hne with h | h
  · have : geomSum r n ≤ geomSum r (m - 1) := geomSum_le_of_le hr (by omega)
    have := mul_le_mul_of_nonneg_left this (le_of_lt hs)
    linarith
  · have : geomSum r m ≤ geomSum r (n - 1) := geomSum_le_of_le hr (by omega)
    have := mul_le_mul_of_nonneg_left this (le_of_lt hs)
    linarith

/-- the non-strict specification determines the count up to the tie at an exact-integer solution -/
theorem countSpecW_near_unique {s r L : ℚ} {n m : ℕ} (hs : 0 < s) (hr : 0 < r)
    (hn : CountSpecW s r L n) (hm : CountSpecW s r L m) :
    n = m ∨ (m = n + 1 ∧ L = s * geomSum r n) ∨ (n = m + 1 ∧ L = s * geomSum r m) := by
  obtain ⟨n1, n2, n3⟩ := hn
  obtain ⟨m1, m2, m3⟩ := hm
  rcases Nat.lt_trichotomy n m with h | h | h
  · right; left
    have hle : geomSum r n ≤ geomSum r (m - 1) := geomSum_le_of_le hr (by omega)
    have hle' := mul_le_mul_of_nonneg_left hle (le_of_lt hs)
    have hL : L = s * geomSum r n := le_antisymm n3 (by linarith)
    refine ⟨?_, hL⟩
    by_contra hne
    have hlt : geomSum r n < geomSum r (m - 1) := geomSum_lt_of_lt hr (by omega)
    have := mul_lt_mul_of_pos_left hlt hs
    linarith
  · left; exact h
  · right; right
    have hle : geomSum r m ≤ geomSum r (n - 1) := geomSum_le_of_le hr (by omega)
    have hle' := mul_le_mul_of_nonneg_left hle (le_of_lt hs)
    have hL : L = s * geomSum r m := le_antisymm m3 (by linarith)
    refine ⟨?_, hL⟩
    by_contra hne
    have hlt : geomSum r m < geomSum r (n - 1) := geomSum_lt_of_lt hr (by omega)
    have := mul_lt_mul_of_pos_left hlt hs
    linarith

/-- never coarser than requested, and coarser (or equal, at a tie) with one cell fewer -/
theorem never_coarser {s r L : ℚ} {n : ℕ} (hr : 0 < r) (h : CountSpecW s r L n) :
    firstCell L n r ≤ s ∧ (2 ≤ n → s ≤ firstCell L (n - 1) r) := by
  obtain ⟨h1, h2, h3⟩ := h
  constructor
  · have hg := geomSum_pos (le_of_lt hr) (show 0 < n by omega)
    unfold firstCell
    rw [div_le_iff₀ hg]; exact h3
  · intro h2n
    have hg := geomSum_pos (le_of_lt hr) (show 0 < n - 1 by omega)
    unfold firstCell
    rw [le_div_iff₀ hg]; exact h2

/-! ### the executable exact count -/

theorem searchFrom_spec {s r L : ℚ} :
    ∀ (fuel k : ℕ) (acc pw : ℚ) (n : ℕ), acc = s * geomSum r k → pw = r ^ k → acc ≤ L →
      searchFrom s r L fuel k acc pw = some n → CountSpec s r L n := by
  intro fuel
  induction fuel with
  | zero => intro k acc pw n _ _ _ h; simp [searchFrom] at h
  | succ f ih =>
    intro k acc pw n hacc hpw hle h
    simp only [searchFrom] at h
    have hnext : acc + s * pw = s * geomSum r (k + 1) := by rw [hacc, hpw]; simp only [geomSum]; ring
    split_ifs at h with hlt
    · simp only [Option.some.injEq] at h; subst h
      refine ⟨by omega, ?_, ?_⟩
      · simp only [Nat.add_sub_cancel]; rw [← hacc]; exact hle
      · rw [← hnext]; exact hlt
    · exact ih (k + 1) _ _ n hnext (by rw [hpw, pow_succ]) (not_lt.mp hlt) h

/-- whatever `searchCount` returns satisfies the strict count specification -/
theorem searchCount_spec {s r L : ℚ} {fuel n : ℕ} (hL : 0 ≤ L) (h : searchCount s r L fuel = some n) :
    CountSpec s r L n :=
  searchFrom_spec fuel 0 0 1 n (by simp [geomSum]) (by simp) hL h

theorem searchFrom_complete {s r L : ℚ} (hs : 0 < s) (hr : 0 < r) {n : ℕ} (hn : CountSpec s r L n) :
    ∀ (fuel k : ℕ) (acc pw : ℚ), acc = s * geomSum r k → pw = r ^ k → k < n → n ≤ k + fuel →
      searchFrom s r L fuel k acc pw = some n := by
  intro fuel
  induction fuel with
  | zero => intro k acc pw _ _ h1 h2; omega
  | succ f ih =>
    intro k acc pw hacc hpw hk hf
    simp only [searchFrom]
    have hnext : acc + s * pw = s * geomSum r (k + 1) := by rw [hacc, hpw]; simp only [geomSum]; ring
    obtain ⟨n1, n2, n3⟩ := hn
    by_cases hkn : k + 1 = n
    · subst hkn
      rw [if_pos (by rw [hnext]; exact n3)]
    · have hle : geomSum r (k + 1) ≤ geomSum r (n - 1) := geomSum_le_of_le hr (by omega)
      have := mul_le_mul_of_nonneg_left hle (le_of_lt hs)
      rw [if_neg (by rw [hnext]; linarith)]
      exact ih (k + 1) _ _ hnext (by rw [hpw, pow_succ]) (by omega) (by omega)

/-- and it finds the count whenever one exists within the fuel -/
theorem searchCount_complete {s r L : ℚ} {fuel n : ℕ} (hs : 0 < s) (hr : 0 < r) (hn : CountSpec s r L n)
    (hf : n ≤ fuel) : searchCount s r L fuel = some n :=
  searchFrom_complete hs hr hn fuel 0 0 1 (by simp [geomSum]) (by simp) (by have := hn.1; omega) (by omega)

/-! ### `searchCount` is total: the fuel of `searchFuel` suffices -/

theorem searchFrom_total {s r L : ℚ} :
    ∀ (fuel k : ℕ) (acc pw : ℚ), acc = s * geomSum r k → pw = r ^ k → acc ≤ L →
      L < s * geomSum r (k + fuel) → ∃ n, searchFrom s r L fuel k acc pw = some n := by
  intro fuel
  induction fuel with
  | zero => intro k acc pw hacc _ hle hlt; rw [Nat.add_zero, ← hacc] at hlt; linarith
  | succ f ih =>
    intro k acc pw hacc hpw hle hlt
    simp only [searchFrom]
    have hnext : acc + s * pw = s * geomSum r (k + 1) := by rw [hacc, hpw]; simp only [geomSum]; ring
    split_ifs with h
    · exact ⟨_, rfl⟩
    · exact ih (k + 1) _ _ hnext (by rw [hpw, pow_succ]) (not_lt.mp h) (by rwa [show k + 1 + f = k + (f + 1) by omega])

theorem geomSum_ge_n {r : ℚ} (h1 : 1 ≤ r) (n : ℕ) : (n : ℚ) ≤ geomSum r n := by
  induction n with
  | zero => simp [geomSum]
  | succ n ih => simp only [geomSum]; have := one_le_pow₀ h1 (n := n); push_cast; linarith

theorem natCast_floor_toNat_succ_gt {q : ℚ} (hq : 0 ≤ q) : q < ((q.floor.toNat + 1 : ℕ) : ℚ) := by
  have h0 : 0 ≤ q.floor := Rat.le_floor_iff.mpr (by simpa using hq)
  have h1 := Rat.lt_floor_add_one q
  have h2 : ((q.floor.toNat : ℕ) : ℤ) = q.floor := Int.toNat_of_nonneg h0
  have h3 : ((q.floor.toNat + 1 : ℕ) : ℚ) = ((q.floor + 1 : ℤ) : ℚ) := by
    calc ((q.floor.toNat + 1 : ℕ) : ℚ) = (((q.floor.toNat : ℕ) : ℤ) : ℚ) + 1 := by push_cast; ring
      _ = (q.floor : ℚ) + 1 := by rw [h2]
      _ = ((q.floor + 1 : ℤ) : ℚ) := by push_cast; ring
  rw [h3]; exact h1

/-- the fuel computed by `searchFuel` always suffices -/
theorem searchFuel_enough {s r L : ℚ} (hs : 0 < s) (hr : 0 < r) (hL : 0 ≤ L)
    (ha : r < 1 → 0 < 1 - L * (1 - r) / s) : L < s * geomSum r (searchFuel s r L) := by
  unfold searchFuel
  by_cases h1 : 1 ≤ r
  · rw [if_pos h1]
    -- r ≥ 1: at least `n` cells of size `s`
    have hq : 0 ≤ L / s := div_nonneg hL (le_of_lt hs)
    have hN := natCast_floor_toNat_succ_gt hq
    have hg := geomSum_ge_n h1 ((L / s).floor.toNat + 1)
    have : L / s < geomSum r ((L / s).floor.toNat + 1) := lt_of_lt_of_le hN hg
    rw [div_lt_iff₀ hs] at this
    linarith
  · rw [if_neg h1]
    simp only []
    have hr1 : r < 1 := not_le.mp h1
    have h2 : ¬(1 - L * (1 - r) / s ≤ 0) := not_le.mpr (ha hr1)
    rw [if_neg h2]
    -- r < 1: Bernoulli on 1/r
    set a := 1 - L * (1 - r) / s with ha_def
    have hapos : 0 < a := not_le.mp h2
    have hale : a ≤ 1 := by
      have : 0 ≤ L * (1 - r) / s := div_nonneg (mul_nonneg hL (by linarith)) (le_of_lt hs)
      linarith
    have hd : 0 < 1 / r - 1 := by
      have : 1 < 1 / r := by rw [lt_div_iff₀ hr]; linarith
      linarith
    have hq : 0 ≤ (1 / a - 1) / (1 / r - 1) := by
      apply div_nonneg _ (le_of_lt hd)
      have : 1 ≤ 1 / a := by rw [le_div_iff₀ hapos]; linarith
      linarith
    set N := ((1 / a - 1) / (1 / r - 1)).floor.toNat + 1 with hN_def
    have hN : (1 / a - 1) / (1 / r - 1) < (N : ℚ) := natCast_floor_toNat_succ_gt hq
    rw [div_lt_iff₀ hd] at hN
    have hb := one_add_mul_le_pow (a := 1 / r - 1) (by linarith) N
    have hpow : 1 / a < (1 / r) ^ N := by
      have : (1 : ℚ) + (1 / r - 1) = 1 / r := by ring
      rw [this] at hb
      linarith
    -- r^N < a
    have hrN : r ^ N < a := by
      have hrNpos : 0 < r ^ N := pow_pos hr N
      rw [one_div, one_div, inv_pow] at hpow
      have := inv_lt_inv₀ (a := a) (b := r ^ N) hapos hrNpos
      exact this.mp hpow
    -- hence the n-th partial sum exceeds L
    have hc := geomSum_closed r N
    have h1r : 0 < 1 - r := by linarith
    have hg : geomSum r N = (1 - r ^ N) / (1 - r) := by field_simp; linarith
    rw [hg]
    have hlt : L * (1 - r) / s < 1 - r ^ N := by rw [ha_def] at hrN; linarith
    rw [div_lt_iff₀ hs] at hlt
    rw [mul_div_assoc', lt_div_iff₀ h1r]
    linarith

/-! ### reversal of the progression -/

theorem inv_pow_total (r : ℚ) (n : ℕ) : r⁻¹ ^ (n - 1) = (r ^ (n - 1))⁻¹ := inv_pow r (n - 1)

/-- first cell of the reversed progression = last cell of the original one -/
theorem firstCell_inv {L r : ℚ} {n : ℕ} (hr : 0 < r) (hn : 0 < n) : firstCell L n r⁻¹ = lastCell L n r := by
  rw [lastCell_eq hr hn]; rfl

theorem lastCell_inv {L r : ℚ} {n : ℕ} (hr : 0 < r) (hn : 0 < n) : lastCell L n r⁻¹ = firstCell L n r := by
  rw [lastCell_eq (inv_pos.mpr hr) hn, inv_inv]; rfl

/-- cell `i` of the reversed progression is cell `n-1-i` of the original one -/
theorem cell_inv {L r : ℚ} {n i : ℕ} (hr : 0 < r) (hi : i < n) : cell L n r⁻¹ i = cell L n r (n - 1 - i) := by
  have hn : 0 < n := by omega
  have h := firstCell_inv (L := L) hr hn
  unfold cell
  rw [h, lastCell_eq_first_mul]
  have hr0 : r ≠ 0 := ne_of_gt hr
  have : r ^ (n - 1) = r ^ (n - 1 - i) * r ^ i := by rw [← pow_add]; congr 1; omega
  rw [this, inv_pow]
  field_simp

/-- a positive ratio is determined by the total expansion (what blockMesh computes is well defined) -/
theorem ratio_unique {a b : ℚ} {m : ℕ} (ha : 0 < a) (hb : 0 < b) (hm : m ≠ 0) (h : a ^ m = b ^ m) : a = b :=
  (pow_left_inj₀ (le_of_lt ha) (le_of_lt hb) hm).mp h

end CBV.C03
