/-
C11 — no two generated points of a disk sketch coincide (so two faces share exactly the points their quads
share by index): the frame is injective, the plane coordinates are pairwise different.
-/
import CBV.Lemmas.C11Loft

namespace CBV.C11
open P3

set_option linter.unusedSectionVars false
set_option linter.unusedSimpArgs false
set_option linter.unusedVariables false

variable {K : Type} [Field K] [LinearOrder K] [IsStrictOrderedRing K]

theorem frame_inj (c ρ u p q : P3 K) (hdet : frameDet ρ u ≠ 0) (h : frame c ρ u p = frame c ρ u q) : p = q := by
  have ex := congrArg P3.x h
  have ey := congrArg P3.y h
  have ez := congrArg P3.z h
  simp only [frame, add, smul, cross] at ex ey ez
  have hx : (p.x - q.x) * frameDet ρ u = 0 := by
    simp only [frameDet, P3.triple, dot, cross]
    linear_combination ((u.z * ρ.x - u.x * ρ.z) * u.z - (u.x * ρ.y - u.y * ρ.x) * u.y) * ex
      + ((u.x * ρ.y - u.y * ρ.x) * u.x - (u.y * ρ.z - u.z * ρ.y) * u.z) * ey
      + ((u.y * ρ.z - u.z * ρ.y) * u.y - (u.z * ρ.x - u.x * ρ.z) * u.x) * ez
  have hy : (p.y - q.y) * frameDet ρ u = 0 := by
    simp only [frameDet, P3.triple, dot, cross]
    linear_combination (u.y * ρ.z - u.z * ρ.y) * ex + (u.z * ρ.x - u.x * ρ.z) * ey + (u.x * ρ.y - u.y * ρ.x) * ez
  have hz : (p.z - q.z) * frameDet ρ u = 0 := by
    simp only [frameDet, P3.triple, dot, cross]
    linear_combination (ρ.y * (u.x * ρ.y - u.y * ρ.x) - ρ.z * (u.z * ρ.x - u.x * ρ.z)) * ex
      + (ρ.z * (u.y * ρ.z - u.z * ρ.y) - ρ.x * (u.x * ρ.y - u.y * ρ.x)) * ey
      + (ρ.x * (u.z * ρ.x - u.x * ρ.z) - ρ.y * (u.y * ρ.z - u.z * ρ.y)) * ez
  have fx := sub_eq_zero.mp ((mul_eq_zero.mp hx).resolve_right hdet)
  have fy := sub_eq_zero.mp ((mul_eq_zero.mp hy).resolve_right hdet)
  have fz := sub_eq_zero.mp ((mul_eq_zero.mp hz).resolve_right hdet)
  cases p; cases q; simp only [P3.mk.injEq]; exact ⟨fx, fy, fz⟩

theorem fourCore_nodup (h k dg : K) (hk0 : 0 < k) (hk1 : k < 1) (hh : 0 < h) (he1 : k < 2 * (dg * h))
    (he2 : dg * h < h) : (diskL .fourCore h k dg).Nodup := by
  rw [diskL_fourCore]
  have a2 : 0 < dg * h := by linarith
  simp only [List.nodup_cons, List.mem_cons, List.not_mem_nil, or_false, not_or, P3.mk.injEq, List.nodup_nil,
    and_true, mul_one, mul_zero, mul_neg]
  repeat' constructor
  all_goals first
    | (rintro ⟨h1, h2⟩; linarith)
    | (intro h1; linarith)
    | (intro h1; exact h1)

theorem half_nodup (h k dg : K) (hk0 : 0 < k) (hk1 : k < 1) (hh : 0 < h) (he1 : k < 2 * (dg * h))
    (he2 : dg * h < h) : (diskL .half h k dg).Nodup := by
  rw [diskL_half]
  have a2 : 0 < dg * h := by linarith
  simp only [List.nodup_cons, List.mem_cons, List.not_mem_nil, or_false, not_or, P3.mk.injEq, List.nodup_nil,
    and_true, mul_one, mul_zero, mul_neg]
  repeat' constructor
  all_goals first
    | (rintro ⟨h1, h2⟩; linarith)
    | (intro h1; linarith)
    | (intro h1; exact h1)

theorem quarter_nodup (h k dg : K) (hk0 : 0 < k) (hk1 : k < 1) (hh : 0 < h) (he1 : k < 2 * (dg * h))
    (he2 : dg * h < h) : (diskL .quarter h k dg).Nodup := by
  rw [diskL_quarter]
  have a2 : 0 < dg * h := by linarith
  simp only [List.nodup_cons, List.mem_cons, List.not_mem_nil, or_false, not_or, P3.mk.injEq, List.nodup_nil,
    and_true, mul_one, mul_zero, mul_neg]
  repeat' constructor
  all_goals first
    | (rintro ⟨h1, h2⟩; linarith)
    | (intro h1; linarith)
    | (intro h1; exact h1)

theorem oneCore_nodup (h k dg : K) (hd0 : 0 < dg) (hd1 : dg < 1) : (diskL .oneCore h k dg).Nodup := by
  rw [diskL_oneCore]
  simp only [List.nodup_cons, List.mem_cons, List.not_mem_nil, or_false, not_or, P3.mk.injEq, List.nodup_nil,
    and_true, mul_one, mul_zero, mul_neg]
  repeat' constructor
  all_goals first
    | (rintro ⟨h1, h2⟩; linarith)
    | (intro h1; linarith)
    | (intro h1; exact h1)

/-- the plane coordinates of a disk sketch are pairwise different -/
theorem diskL_nodup (cl : DiskCls) (h k dg : K) (hok : DiskOK cl h k dg) : (diskL cl h k dg).Nodup := by
  cases cl
  · exact oneCore_nodup h k dg hok.1 hok.2
  · exact quarter_nodup h k dg hok.1 hok.2.1 hok.2.2.1 hok.2.2.2.1 hok.2.2.2.2
  · exact half_nodup h k dg hok.1 hok.2.1 hok.2.2.1 hok.2.2.2.1 hok.2.2.2.2
  · exact fourCore_nodup h k dg hok.1 hok.2.1 hok.2.2.1 hok.2.2.2.1 hok.2.2.2.2

end CBV.C11
