/-
C16 — lemmas over ℝ for `CircleCurve` (round 6): the curve function `rotate(rim, t, normal, origin)` for a rim point in the
plane orthogonal to the normal is `circAt C e1 e2 r t = C + r cos t · e1 + r sin t · e2` (frame `e1 = (rim − C)/r`, `e2 = n × e1`);
chords, polylines through samples, distance to a query point.
-/
import CBV.Lemmas.C08Real
import CBV.Lemmas.C16Samples
import Mathlib.Analysis.SpecialFunctions.Trigonometric.Bounds

namespace CBV.C16

open CBV.C08 (Vec Frame comb circPt circAt sub_circPt nsq_comb dot_comb_smul_n dot_smul_n)
open CBV.C08.Vec

/-- `functions.polyline_length` over ℝ (same recursion as `polyLenD`) -/
noncomputable def polyLenR {α : Type} (d : α → α → ℝ) : List α → ℝ
  | p :: q :: rest => d p q + polyLenR d (q :: rest)
  | _ => 0

/-- `norm(p - q)` over ℝ -/
noncomputable def distR (p q : Vec ℝ) : ℝ := Real.sqrt (nsq (sub p q))

theorem polyLenR_cons2 {α : Type} (d : α → α → ℝ) (p q : α) (rest : List α) :
    polyLenR d (p :: q :: rest) = d p q + polyLenR d (q :: rest) := rfl

/-- squared chord between the circle points at `t` and `u`: `2r²(1 − cos(t − u))` -/
theorem chord_sq {C e1 e2 : Vec ℝ} (hF : Frame e1 e2) (r t u : ℝ) :
    nsq (sub (circAt C e1 e2 r t) (circAt C e1 e2 r u)) = 2 * (r * r) * (1 - Real.cos (t - u)) := by
  unfold circAt
  rw [sub_circPt, nsq_comb hF, Real.cos_sub]
  linear_combination (r * r) * Real.cos_sq_add_sin_sq t + (r * r) * Real.cos_sq_add_sin_sq u

/-- a chord is at most the arc between its ends: `|c(t) − c(u)| ≤ r·|t − u|` -/
theorem chord_le {C e1 e2 : Vec ℝ} (hF : Frame e1 e2) {r : ℝ} (hr : 0 ≤ r) (t u : ℝ) :
    distR (circAt C e1 e2 r t) (circAt C e1 e2 r u) ≤ r * |u - t| := by
  unfold distR
  rw [chord_sq hF]
  have hb := Real.one_sub_sq_div_two_le_cos (x := t - u)
  have h0 : 0 ≤ r * |u - t| := mul_nonneg hr (abs_nonneg _)
  have hsq : (r * |u - t|) * (r * |u - t|) = r * r * ((t - u) * (t - u)) := by
    have := abs_mul_abs_self (u - t)
    calc (r * |u - t|) * (r * |u - t|) = r * r * (|u - t| * |u - t|) := by ring
      _ = r * r * ((u - t) * (u - t)) := by rw [this]
      _ = r * r * ((t - u) * (t - u)) := by ring
  calc Real.sqrt (2 * (r * r) * (1 - Real.cos (t - u)))
      ≤ Real.sqrt ((r * |u - t|) * (r * |u - t|)) := by
        apply Real.sqrt_le_sqrt
        rw [hsq]
        nlinarith [mul_nonneg hr hr]
    _ = r * |u - t| := Real.sqrt_mul_self h0

/-- the polyline through the circle points of **any** parameter list is at most radius × total variation of the parameters -/
theorem circle_polyline_le {C e1 e2 : Vec ℝ} (hF : Frame e1 e2) {r : ℝ} (hr : 0 ≤ r) : ∀ ts : List ℝ,
    polyLenR distR (ts.map (circAt C e1 e2 r)) ≤ r * polyLenR (fun t u => |u - t|) ts
  | [] => by simp [polyLenR]
  | [_] => by simp [polyLenR]
  | t :: u :: rest => by
      have ih := circle_polyline_le (C := C) hF hr (u :: rest)
      simp only [List.map_cons] at ih ⊢
      rw [polyLenR_cons2, polyLenR_cons2, mul_add]
      have := chord_le (C := C) hF hr t u
      linarith

/-- for ascending parameters the total variation is `last − first` -/
theorem variation_sorted : ∀ (ts : List ℝ) (last : ℝ), ts.getLast? = some last → ts.Pairwise (· ≤ ·) →
    ∀ first, ts.head? = some first → polyLenR (fun t u => |u - t|) ts = last - first
  | [], _, h, _, _, _ => by simp at h
  | [t], last, hl, _, first, hf => by
      simp at hl hf; subst hl; subst hf; simp [polyLenR]
  | t :: u :: rest, last, hl, hs, first, hf => by
      have hl' : (u :: rest).getLast? = some last := by simpa [List.getLast?_cons_cons] using hl
      rw [List.pairwise_cons] at hs
      have htu : t ≤ u := hs.1 u (by simp)
      have ih := variation_sorted (u :: rest) last hl' hs.2 u rfl
      simp at hf; subst hf
      rw [polyLenR_cons2, ih, abs_of_nonneg (sub_nonneg.mpr htu)]; ring

/-- squared distance of the circle point at `t` to the query `C + ρ cos φ · e1 + ρ sin φ · e2 + h · (e1 × e2)` -/
theorem circle_query_sq {C e1 e2 : Vec ℝ} (hF : Frame e1 e2) (r ρ φ h t : ℝ) :
    nsq (sub (circAt C e1 e2 r t) (add (circAt C e1 e2 ρ φ) (smul h (cross e1 e2))))
      = r * r + ρ * ρ - 2 * (r * ρ) * Real.cos (t - φ) + h * h := by
  have e : sub (circAt C e1 e2 r t) (add (circAt C e1 e2 ρ φ) (smul h (cross e1 e2)))
      = sub (comb e1 e2 (r * Real.cos t - ρ * Real.cos φ) (r * Real.sin t - ρ * Real.sin φ)) (smul h (cross e1 e2)) := by
    unfold circAt
    apply CBV.C08.Vec.ext' <;> simp only [circPt, comb, sub, add, smul] <;> ring
  have e2 : ∀ A B : Vec ℝ, nsq (sub A B) = nsq A - 2 * dot A B + dot B B := by
    intro A B; simp only [nsq, dot, sub]; ring
  rw [e, e2, nsq_comb hF, dot_comb_smul_n, dot_smul_n hF, Real.cos_sub]
  linear_combination (r * r) * Real.cos_sq_add_sin_sq t + (ρ * ρ) * Real.cos_sq_add_sin_sq φ

end CBV.C16
