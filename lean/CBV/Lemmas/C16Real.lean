/-
C16 — lemmas over ℝ for `CircleCurve` (round 6): the curve function `rotate(rim, t, normal, origin)` for a rim point in the
plane orthogonal to the normal is `circAt C e1 e2 r t = C + r cos t · e1 + r sin t · e2` (frame `e1 = (rim − C)/r`, `e2 = n × e1`);
chords, polylines through samples, distance to a query point.
-/
import CBV.Lemmas.C08Real
import CBV.Lemmas.C16Samples
import Mathlib.Analysis.SpecialFunctions.Trigonometric.Bounds

namespace CBV.C16

open CBV.C08 (Vec Frame comb circPt circAt sub_circPt nsq_comb dot_comb_smul_n dot_smul_n)
open CBV.C08.Vec

/-- `functions.polyline_length` over ℝ (same recursion as `polyLenD`) -/
noncomputable def polyLenR {α : Type} (d : α → α → ℝ) : List α → ℝ
  | p :: q :: rest => d p q + polyLenR d (q :: rest)
  | _ => 0

/-- `norm(p - q)` over ℝ -/
noncomputable def distR (p q : Vec ℝ) : ℝ := Real.sqrt (nsq (sub p q))

theorem polyLenR_cons2 {α : Type} (d : α → α → ℝ) (p q : α) (rest : List α) :
    polyLenR d (p :: q :: rest) = d p q + polyLenR d (q :: rest) := rfl

/-- squared chord between the circle points at `t` and `u`: `2r²(1 − cos(t − u))` -/
theorem chord_sq {C e1 e2 : Vec ℝ} (hF : Frame e1 e2) (r t u : ℝ) :
    nsq (sub (circAt C e1 e2 r t) (circAt C e1 e2 r u)) = 2 * (r * r) * (1 - Real.cos (t - u)) := by
  unfold circAt
  rw [sub_circPt, nsq_comb hF, Real.cos_sub]
  linear_combination (r * r) * Real.cos_sq_add_sin_sq t + (r * r) * Real.cos_sq_add_sin_sq u

/-- a chord is at most the arc between its ends: `|c(t) − c(u)| ≤ r·|t − u|` -/
theorem chord_le {C e1 e2 : Vec ℝ} (hF : Frame e1 e2) {r : ℝ} (hr : 0 ≤ r) (t u : ℝ) :
    distR (circAt C e1 e2 r t) (circAt C e1 e2 r u) ≤ r * |u - t| := by
  unfold distR
  rw [chord_sq hF]
  have hb := Real.one_sub_sq_div_two_le_cos (x := t - u)
  have h0 : 0 ≤ r * |u - t| := mul_nonneg hr (abs_nonneg _)
  have hsq : (r * |u - t|) * (r * |u - t|) = r * r * ((t - u) * (t - u)) := by
    have := abs_mul_abs_self (u - t)
    calc (r * |u - t|) * (r * |u - t|) = r * r * (|u - t| * |u - t|) := by ring
      _ = r * r * ((u - t) * (u - t)) := by rw [this]
      _ = r * r * ((t - u) * (t - u)) := by ring
  calc Real.sqrt (2 * (r * r) * (1 - Real.cos (t - u)))
      ≤ Real.sqrt ((r * |u - t|) * (r * |u - t|)) := by
        apply Real.sqrt_le_sqrt
        rw [hsq]
        nlinarith [mul_nonneg hr hr]
    _ = r * |u - t| := Real.sqrt_mul_self h0

/-- the polyline through the circle points of **any** parameter list is at most radius × total variation of the parameters -/
theorem circle_polyline_le {C e1 e2 : Vec ℝ} (hF : Frame e1 e2) {r : ℝ} (hr : 0 ≤ r) : ∀ ts : List ℝ,
    polyLenR distR (ts.map (circAt C e1 e2 r)) ≤ r * polyLenR (fun t u => |u - t|) ts
  | [] => by simp [polyLenR]
  | [_] => by simp [polyLenR]
  | t :: u :: rest => by
      have ih := circle_polyline_le (C := C) hF hr (u :: rest)
      simp only [List.map_cons] at ih ⊢
      rw [polyLenR_cons2, polyLenR_cons2, mul_add]
      have := chord_le (C := C) hF hr t u
      linarith

/-- for ascending parameters the total variation is `last − first` -/
theorem variation_sorted : ∀ (ts : List ℝ) (last : ℝ), ts.getLast? = some last → ts.Pairwise (· ≤ ·) →
    ∀ first, ts.head? = some first → polyLenR (fun t u => |u - t|) ts = last - first
  | [], _, h, _, _, _ => by simp at h
  | [t], last, hl, _, first, hf => by
      simp at hl hf; subst hl; subst hf; simp [polyLenR]
  | t :: u :: rest, last, hl, hs, first, hf => by
      have hl' : (u :: rest).getLast? = some last := by simpa [List.getLast?_cons_cons] using hl
      rw [List.pairwise_cons] at hs
      have htu : t ≤ u := hs.1 u (by simp)
      have ih := variation_sorted (u :: rest) last hl' hs.2 u rfl
      simp at hf; subst hf
      rw [polyLenR_cons2, ih, abs_of_nonneg (sub_nonneg.mpr htu)]; ring

/-- squared distance of the circle point at `t` to the query `C + ρ cos φ · e1 + ρ sin φ · e2 + h · (e1 × e2)` -/
theorem circle_query_sq {C e1 e2 : Vec ℝ} (hF : Frame e1 e2) (r ρ φ h t : ℝ) :
    nsq (sub (circAt C e1 e2 r t) (add (circAt C e1 e2 ρ φ) (smul h (cross e1 e2))))
      = r * r + ρ * ρ - 2 * (r * ρ) * Real.cos (t - φ) + h * h := by
  have e : sub (circAt C e1 e2 r t) (add (circAt C e1 e2 ρ φ) (smul h (cross e1 e2)))
      = sub (comb e1 e2 (r * Real.cos t - ρ * Real.cos φ) (r * Real.sin t - ρ * Real.sin φ)) (smul h (cross e1 e2)) := by
    unfold circAt
    apply CBV.C08.Vec.ext' <;> simp only [circPt, comb, sub, add, smul] <;> ring
  have e2 : ∀ A B : Vec ℝ, nsq (sub A B) = nsq A - 2 * dot A B + dot B B := by
    intro A B; simp only [nsq, dot, sub]; ring
  rw [e, e2, nsq_comb hF, dot_comb_smul_n, dot_smul_n hF, Real.cos_sub]
  linear_combination (r * r) * Real.cos_sq_add_sin_sq t + (ρ * ρ) * Real.cos_sq_add_sin_sq φ

/-! ### round 6c: a lower bound for the chord sum (re-sampling error of `AnalyticCurve.get_length` on circles) -/

/-- consecutive parameters ascend by at most `h` -/
def Steps (h : ℝ) : List ℝ → Prop
  | t :: u :: rest => t ≤ u ∧ u - t ≤ h ∧ Steps h (u :: rest)
  | _ => True

/-- a chord is at least the arc minus a cubic term: for `0 ≤ u − t ≤ 2`, `|c(t) − c(u)| ≥ r (u − t)(1 − (u − t)²/24)`
    (`chord = 2 r sin(Δ/2)`, `sin x > x − x³/6` for `x > 0`) -/
theorem chord_ge {C e1 e2 : Vec ℝ} (hF : Frame e1 e2) {r : ℝ} (hr : 0 ≤ r) (t u : ℝ) (h0 : t ≤ u) (h2 : u - t ≤ 2) :
    r * (u - t) * (1 - (u - t) * (u - t) / 24) ≤ distR (circAt C e1 e2 r t) (circAt C e1 e2 r u) := by
  unfold distR
  rw [chord_sq hF]
  obtain ⟨x, hx⟩ : ∃ x, x = (u - t) / 2 := ⟨_, rfl⟩
  have hx0 : 0 ≤ x := by rw [hx]; linarith
  have hx1 : x ≤ 1 := by rw [hx]; linarith
  have hcos : Real.cos (t - u) = 1 - 2 * Real.sin x ^ 2 := by
    have h1 : t - u = -(2 * x) := by rw [hx]; ring
    rw [h1, Real.cos_neg, Real.cos_two_mul]
    have := Real.sin_sq_add_cos_sq x
    linarith
  have hs0 : 0 ≤ Real.sin x := Real.sin_nonneg_of_nonneg_of_le_pi hx0 (by linarith [Real.two_le_pi])
  have hsx : x - x ^ 3 / 6 ≤ Real.sin x := by
    rcases eq_or_lt_of_le hx0 with h | h
    · rw [← h]; simp
    · exact le_of_lt (Real.sin_gt_sub_cube h)
  have hval : 2 * (r * r) * (1 - Real.cos (t - u)) = (2 * r * Real.sin x) * (2 * r * Real.sin x) := by
    rw [hcos]; ring
  rw [hval, Real.sqrt_mul_self (by positivity)]
  have e : r * (u - t) * (1 - (u - t) * (u - t) / 24) = 2 * r * (x - x ^ 3 / 6) := by rw [hx]; ring
  rw [e]
  exact mul_le_mul_of_nonneg_left hsx (by positivity)

/-- chord sum ≥ arc · (1 − h²/24) for ascending parameters with steps of at most `h ≤ 2` -/
theorem circle_polyline_ge {C e1 e2 : Vec ℝ} (hF : Frame e1 e2) {r : ℝ} (hr : 0 ≤ r) {h : ℝ} (hh : h ≤ 2) :
    ∀ (ts : List ℝ) (last : ℝ), ts.getLast? = some last → Steps h ts → ∀ first, ts.head? = some first →
      r * (last - first) * (1 - h * h / 24) ≤ polyLenR distR (ts.map (circAt C e1 e2 r))
  | [], _, hl, _, _, _ => by simp at hl
  | [t], last, hl, _, first, hf => by
      simp at hl hf; subst hl; subst hf; simp [polyLenR]
  | t :: u :: rest, last, hl, hs, first, hf => by
      have hl' : (u :: rest).getLast? = some last := by simpa [List.getLast?_cons_cons] using hl
      obtain ⟨htu, hstep, hs'⟩ := hs
      have ih := circle_polyline_ge (C := C) hF hr hh (u :: rest) last hl' hs' u rfl
      simp at hf; subst hf
      simp only [List.map_cons] at ih ⊢
      rw [polyLenR_cons2]
      have hc := chord_ge (C := C) hF hr t u htu (by linarith)
      have hd0 : 0 ≤ u - t := by linarith
      have hmono : r * (u - t) * (1 - h * h / 24) ≤ r * (u - t) * (1 - (u - t) * (u - t) / 24) := by
        apply mul_le_mul_of_nonneg_left _ (mul_nonneg hr hd0)
        have : (u - t) * (u - t) ≤ h * h := mul_self_le_mul_self hd0 hstep
        linarith
      nlinarith

/-- for parameters ascending in steps the total variation is `last − first` -/
theorem variation_steps {h : ℝ} : ∀ (ts : List ℝ) (last : ℝ), ts.getLast? = some last → Steps h ts →
    ∀ first, ts.head? = some first → polyLenR (fun t u => |u - t|) ts = last - first
  | [], _, hl, _, _, _ => by simp at hl
  | [t], last, hl, _, first, hf => by
      simp at hl hf; subst hl; subst hf; simp [polyLenR]
  | t :: u :: rest, last, hl, hs, first, hf => by
      have hl' : (u :: rest).getLast? = some last := by simpa [List.getLast?_cons_cons] using hl
      obtain ⟨htu, _, hs'⟩ := hs
      have ih := variation_steps (u :: rest) last hl' hs' u rfl
      simp at hf; subst hf
      rw [polyLenR_cons2, ih, abs_of_nonneg (sub_nonneg.mpr htu)]; ring

/-- `g s, g (s+1), …, g (s+n), b` ascends in steps of at most `h` when `g` does and `b` follows `g (s+n)` -/
theorem steps_range' {h : ℝ} (g : Nat → ℝ) (b : ℝ) (hg : ∀ i, g i ≤ g (i + 1) ∧ g (i + 1) - g i ≤ h) :
    ∀ (n s : Nat), g (s + n) ≤ b → b - g (s + n) ≤ h → Steps h ((List.range' s (n + 1)).map g ++ [b])
  | 0, s, h1, h2 => by
      have e : (List.range' s (0 + 1)).map g ++ [b] = [g s, b] := by simp
      rw [e]; exact ⟨by simpa using h1, by simpa using h2, trivial⟩
  | n + 1, s, h1, h2 => by
      have ih := steps_range' g b hg n (s + 1) (by rw [show s + 1 + n = s + (n + 1) by omega]; exact h1)
        (by rw [show s + 1 + n = s + (n + 1) by omega]; exact h2)
      rw [List.range'_succ, List.map_cons, List.cons_append]
      rw [List.range'_succ, List.map_cons, List.cons_append] at ih ⊢
      exact ⟨(hg s).1, (hg s).2, ih⟩

/-! ### round 6d: reversed polylines (descending parameters) -/

theorem polyLenR_append {α : Type} (d : α → α → ℝ) : ∀ (l1 : List α) (x : α) (l2 : List α),
    polyLenR d (l1 ++ x :: l2) = polyLenR d (l1 ++ [x]) + polyLenR d (x :: l2)
  | [], x, l2 => by simp [polyLenR]
  | [p], x, l2 => by simp [polyLenR]
  | p :: q :: l1, x, l2 => by
      have := polyLenR_append d (q :: l1) x l2
      simp only [List.cons_append, polyLenR] at this ⊢
      linarith

theorem polyLenR_snoc {α : Type} (d : α → α → ℝ) (l : List α) (x y : α) :
    polyLenR d (l ++ [x, y]) = polyLenR d (l ++ [x]) + d x y := by
  have := polyLenR_append d l x [y]
  simp only [polyLenR] at this
  linarith

theorem polyLenR_reverse {α : Type} (d : α → α → ℝ) (hsym : ∀ x y, d x y = d y x) :
    ∀ l : List α, polyLenR d l.reverse = polyLenR d l
  | [] => rfl
  | [_] => rfl
  | p :: q :: rest => by
      have ih := polyLenR_reverse d hsym (q :: rest)
      have : (p :: q :: rest).reverse = rest.reverse ++ [q, p] := by simp
      rw [this, polyLenR_snoc]
      have h2 : rest.reverse ++ [q] = (q :: rest).reverse := by simp
      rw [h2, ih, hsym q p]
      simp only [polyLenR]; ring

theorem distR_symm (p q : Vec ℝ) : distR p q = distR q p := by
  unfold distR
  congr 1
  simp only [nsq, dot, sub]; ring

end CBV.C16
