/-
C14 — the 24 rotations of the hexahedron from the coordinates of its corners; signature of a cuboid.
-/
import CBV.Lemmas.C14Renum
import CBV.Gen.TC14

namespace CBV.C14
open CBV

/-! ### a rectangular side seen from a centre straight above it -/

theorem norm2_pos_of_ne (w : V3) (h : V3.norm2 w ≠ 0) : 0 < V3.norm2 w := by
  have : 0 ≤ V3.norm2 w := by
    simp only [V3.norm2, V3.dot]; nlinarith [mul_self_nonneg w.x, mul_self_nonneg w.y, mul_self_nonneg w.z]
  exact lt_of_le_of_ne this (Ne.symm h)

theorem norm_mkTri_self (w : V3) (h : V3.norm2 w ≠ 0) : (mkTri w w).norm = ⟨1, 1⟩ := by
  have hp := norm2_pos_of_ne w h
  unfold Tri.norm mkTri
  simp only [Tri0.mk.injEq]
  constructor
  · unfold sgn; simp [show (0 : Rat) < V3.dot w w from hp]
  · exact div_self (mul_ne_zero h h)

theorem norm_mkTri_orth (u v : V3) (h : V3.dot u v = 0) : (mkTri u v).norm = ⟨0, 0⟩ := by
  unfold Tri.norm mkTri
  simp [h, sgn]

/-- A side `[p, q, r, s]` that is a rectangle (`r = q + (s - p)`, `(q-p) ⟂ (s-p)`, not flat) with the
    centre-to-centre vector a positive multiple of its normal: all four triangle normals are parallel
    to it (cos = +1) and all four corners are right angles (cos = 0). -/
theorem hexSide_rect (p q r s centre : V3) (nb : Option V3) (t : Rat)
    (h1 : r = q + (s - p)) (h2 : V3.dot (q - p) (s - p) = 0) (ht : 0 < t)
    (hA : V3.norm2 (V3.cross (q - p) (s - p)) ≠ 0)
    (h3 : c2c centre (avg [p, q, r, s]) nb = V3.smul t (V3.cross (q - p) (s - p))) :
    (hexSide [p, q, r, s] centre nb).1.map Tri.norm = List.replicate 4 ⟨1, 1⟩ ∧
    (hexSide [p, q, r, s] centre nb).2.map Tri.norm = List.replicate 4 ⟨0, 0⟩ := by
  subst h1
  have hn : ∀ x y : V3, V3.cross x y = V3.smul (1 / 2) (V3.cross (q - p) (s - p)) →
      (mkTri (V3.cross x y) (V3.smul t (V3.cross (q - p) (s - p)))).norm = ⟨1, 1⟩ := by
    intro x y hxy
    rw [hxy, norm_mkTri_smul _ _ _ _ (by positivity), norm_mkTri_self _ hA]
  have hdot : ∀ x y : V3, V3.dot x y = 0 → (mkTri x y).norm = ⟨0, 0⟩ := norm_mkTri_orth
  unfold hexSide
  simp only [h3]
  simp only [List.map, rollL, rollR, List.zipWith, List.getLast?, List.getLast, List.dropLast,
    List.cons_append, List.nil_append, List.replicate]
  refine ⟨?_, ?_⟩
  · simp only [List.cons.injEq, and_true]
    refine ⟨hn _ _ ?_, hn _ _ ?_, hn _ _ ?_, hn _ _ ?_⟩ <;>
    · apply V3.ext' <;> simp [avg, vsum, V3.zero] <;> ring
  · simp only [List.cons.injEq, and_true]
    simp only [V3.dot, V3.sub_x, V3.sub_y, V3.sub_z, V3.add_x, V3.add_y, V3.add_z] at h2
    refine ⟨hdot _ _ ?_, hdot _ _ ?_, hdot _ _ ?_, hdot _ _ ?_⟩ <;>
    · simp only [V3.dot, V3.sub_x, V3.sub_y, V3.sub_z, V3.add_x, V3.add_y, V3.add_z]
      linarith

/-! ### the cuboid -/

/-- the axis-aligned cuboid `a × b × c` in blockMesh numbering -/
def box (a b c : Rat) : List V3 :=
  [⟨0, 0, 0⟩, ⟨a, 0, 0⟩, ⟨a, b, 0⟩, ⟨0, b, 0⟩, ⟨0, 0, c⟩, ⟨a, 0, c⟩, ⟨a, b, c⟩, ⟨0, b, c⟩]

theorem box_side (a b c : Rat) (ha : 0 < a) (hb : 0 < b) (hc : 0 < c) (i : Nat) (hi : i < 6) :
    ((hexSide ((CBV.Gen.hexSideIdx.getD i []).map (pt (box a b c))) (avg (box a b c)) none).1.map Tri.norm
        = List.replicate 4 ⟨1, 1⟩) ∧
    ((hexSide ((CBV.Gen.hexSideIdx.getD i []).map (pt (box a b c))) (avg (box a b c)) none).2.map Tri.norm
        = List.replicate 4 ⟨0, 0⟩) := by
  have hab := mul_pos ha hb
  have hbc := mul_pos hb hc
  have hac := mul_pos ha hc
  have hcases : i = 0 ∨ i = 1 ∨ i = 2 ∨ i = 3 ∨ i = 4 ∨ i = 5 := by omega
  rcases hcases with rfl | rfl | rfl | rfl | rfl | rfl
  all_goals simp only [CBV.Gen.hexSideIdx, List.getD_cons_zero, List.getD_cons_succ, List.map, pt, box]
  · refine hexSide_rect _ _ _ _ _ _ (c / (2 * (a * b))) ?_ ?_ (div_pos hc (mul_pos (by norm_num) hab)) ?_ ?_
    · apply V3.ext' <;> simp
    · simp [V3.dot]
    · simp [V3.norm2, V3.dot]; exact ⟨ne_of_gt ha, ne_of_gt hb⟩
    · apply V3.ext' <;> simp [c2c, avg, vsum, V3.zero] <;> field_simp <;> ring
  · refine hexSide_rect _ _ _ _ _ _ (c / (2 * (a * b))) ?_ ?_ (div_pos hc (mul_pos (by norm_num) hab)) ?_ ?_
    · apply V3.ext' <;> simp
    · simp [V3.dot]
    · simp [V3.norm2, V3.dot]; exact ⟨ne_of_gt ha, ne_of_gt hb⟩
    · apply V3.ext' <;> simp [c2c, avg, vsum, V3.zero] <;> field_simp <;> ring
  · refine hexSide_rect _ _ _ _ _ _ (a / (2 * (b * c))) ?_ ?_ (div_pos ha (mul_pos (by norm_num) hbc)) ?_ ?_
    · apply V3.ext' <;> simp
    · simp [V3.dot]
    · simp [V3.norm2, V3.dot]; exact ⟨ne_of_gt hc, ne_of_gt hb⟩
    · apply V3.ext' <;> simp [c2c, avg, vsum, V3.zero] <;> field_simp <;> ring
  · refine hexSide_rect _ _ _ _ _ _ (a / (2 * (b * c))) ?_ ?_ (div_pos ha (mul_pos (by norm_num) hbc)) ?_ ?_
    · apply V3.ext' <;> simp
    · simp [V3.dot]
    · simp [V3.norm2, V3.dot]; exact ⟨ne_of_gt hc, ne_of_gt hb⟩
    · apply V3.ext' <;> simp [c2c, avg, vsum, V3.zero] <;> field_simp <;> ring
  · refine hexSide_rect _ _ _ _ _ _ (b / (2 * (a * c))) ?_ ?_ (div_pos hb (mul_pos (by norm_num) hac)) ?_ ?_
    · apply V3.ext' <;> simp
    · simp [V3.dot]
    · simp [V3.norm2, V3.dot]; exact ⟨ne_of_gt hc, ne_of_gt ha⟩
    · apply V3.ext' <;> simp [c2c, avg, vsum, V3.zero] <;> field_simp <;> ring
  · refine hexSide_rect _ _ _ _ _ _ (b / (2 * (a * c))) ?_ ?_ (div_pos hb (mul_pos (by norm_num) hac)) ?_ ?_
    · apply V3.ext' <;> simp
    · simp [V3.dot]
    · simp [V3.norm2, V3.dot]; exact ⟨ne_of_gt hc, ne_of_gt ha⟩
    · apply V3.ext' <;> simp [c2c, avg, vsum, V3.zero] <;> field_simp <;> ring

theorem box_edges (a b c : Rat) :
    maxL (edgeLens CBV.Gen.hexAspectPairs (box a b c)) = max (max (a * a) (b * b)) (c * c) ∧
    minL (edgeLens CBV.Gen.hexAspectPairs (box a b c)) = min (min (a * a) (b * b)) (c * c) := by
  simp only [edgeLens, CBV.Gen.hexAspectPairs, List.map, pt, box, List.getD_cons_zero, List.getD_cons_succ,
    V3.norm2, V3.dot, V3.sub_x, V3.sub_y, V3.sub_z, maxL, minL, List.foldl]
  simp only [sub_zero, zero_sub, sub_self, mul_zero, add_zero, zero_add, neg_mul_neg]
  constructor
  · simp only [max_self, max_assoc, max_comm, max_left_comm]
  · simp only [min_self, min_assoc, min_comm, min_left_comm]

/-- the scale-free signature of a cuboid: all 24 triangle normals parallel to their centre-to-centre
    vector, all 24 corners right angles, aspect entry (longest/shortest)² -/
theorem box_sig0 (a b c : Rat) (ha : 0 < a) (hb : 0 < b) (hc : 0 < c) :
    (sigHex (box a b c) (fun _ => none)).norm =
      ⟨List.replicate 24 ⟨1, 1⟩, List.replicate 24 ⟨0, 0⟩,
        max (max (a * a) (b * b)) (c * c) / min (min (a * a) (b * b)) (c * c)⟩ := by
  have h := box_side a b c ha hb hc
  unfold sigHex sigHexWith Sig.norm
  simp only [List.map_flatMap, List.flatMap_map, (box_edges a b c).1, (box_edges a b c).2]
  have hlen : CBV.Gen.hexSideIdx.length = 6 := by decide
  rw [hlen]
  rw [List.flatMap_congr (fun i hi => (h i (List.mem_range.mp hi)).1),
    List.flatMap_congr (fun i hi => (h i (List.mem_range.mp hi)).2)]
  rfl

/-! ### the rectangle (quad cell) -/

theorem norm_mkTri_parallel (n d : V3) (h1 : 0 < V3.dot n d)
    (h2 : V3.dot n d * V3.dot n d = V3.norm2 n * V3.norm2 d) : (mkTri n d).norm = ⟨1, 1⟩ := by
  unfold Tri.norm mkTri
  simp only [Tri0.mk.injEq]
  constructor
  · unfold sgn; simp [h1]
  · rw [h2]
    have : V3.norm2 n * V3.norm2 d ≠ 0 := by rw [← h2]; exact ne_of_gt (mul_pos h1 h1)
    exact div_self this

def rect (a b : Rat) : List V3 := [⟨0, 0, 0⟩, ⟨a, 0, 0⟩, ⟨a, b, 0⟩, ⟨0, b, 0⟩]

theorem rect_sig0 (a b : Rat) (ha : 0 < a) (hb : 0 < b) :
    (sigQuad (rect a b) (fun _ => none)).norm =
      ⟨List.replicate 4 ⟨1, 1⟩, List.replicate 4 ⟨0, 0⟩, max (a * a) (b * b) / min (a * a) (b * b)⟩ := by
  have hab := mul_pos ha hb
  unfold sigQuad sigQuadWith Sig.norm
  simp only [CBV.Gen.quadSideIdx, CBV.Gen.quadAspectPairs, List.length_cons, List.length_nil, List.range,
    List.range.loop, List.map, quadSide, List.getD_cons_zero, List.getD_cons_succ, pt, rect, c2c, edgeLens,
    maxL, minL, List.foldl, List.replicate, Sig0.mk.injEq, List.cons.injEq, and_true]
  refine ⟨⟨?_, ?_, ?_, ?_⟩, ⟨?_, ?_, ?_, ?_⟩, ?_⟩
  · apply norm_mkTri_parallel
    · simp [V3.dot, avg, vsum, V3.zero]; nlinarith [mul_pos hab hab, mul_pos ha hab]
    · simp [V3.dot, V3.norm2, avg, vsum, V3.zero]; ring
  · apply norm_mkTri_parallel
    · simp [V3.dot, avg, vsum, V3.zero]; nlinarith [mul_pos hab hab, mul_pos ha hab, mul_pos hb hab]
    · simp [V3.dot, V3.norm2, avg, vsum, V3.zero]; ring
  · apply norm_mkTri_parallel
    · simp [V3.dot, avg, vsum, V3.zero]; nlinarith [mul_pos hab hab, mul_pos ha hab, mul_pos hb hab]
    · simp [V3.dot, V3.norm2, avg, vsum, V3.zero]; ring
  · apply norm_mkTri_parallel
    · simp [V3.dot, avg, vsum, V3.zero]; nlinarith [mul_pos hab hab, mul_pos ha hab, mul_pos hb hab]
    · simp [V3.dot, V3.norm2, avg, vsum, V3.zero]; ring
  · apply norm_mkTri_orth; simp [V3.dot]
  · apply norm_mkTri_orth; simp [V3.dot]
  · apply norm_mkTri_orth; simp [V3.dot]
  · apply norm_mkTri_orth; simp [V3.dot]
  · simp only [V3.norm2, V3.dot, V3.sub_x, V3.sub_y, V3.sub_z, sub_zero, zero_sub, sub_self, mul_zero,
      add_zero, zero_add, neg_mul_neg]
    simp only [max_self, max_assoc, max_comm, max_left_comm, min_self, min_assoc, min_comm, min_left_comm]
    rw [max_eq_right (le_max_left _ _), min_eq_right (min_le_left _ _)]

end CBV.C14
