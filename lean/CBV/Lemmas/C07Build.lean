/-
C07 — helper lemmas about the entry points that put edge data on faces and operations
(`Face.add_edge`, `Face.remove_edges`, `Operation.add_side_edge`) and histories of such calls.
-/
import CBV.Model.C07

namespace CBV.C07

/-- reading a slot after `set`: the default of `getD` is a line, so a `set` beyond the end (which does
    nothing) and a read beyond the end (which gives the default) agree with "a line was put there" -/
theorem getD_set_line (es : List Datum) (k i : Nat) :
    (es.set k lineDatum).getD i lineDatum = if i = k then lineDatum else es.getD i lineDatum := by
  simp only [List.getD_eq_getElem?_getD, List.getElem?_set]
  by_cases h : k = i
  · subst h; simp; split <;> simp
  · have h' : ¬ i = k := fun e => h e.symm
    simp [h, h']

theorem getD_set_of_lt (es : List Datum) (k i : Nat) (d : Datum) (hk : k < es.length) :
    (es.set k d).getD i lineDatum = if i = k then d else es.getD i lineDatum := by
  simp only [List.getD_eq_getElem?_getD, List.getElem?_set]
  by_cases h : k = i
  · subst h; simp [hk]
  · have h' : ¬ i = k := fun e => h e.symm
    simp [h, h']

theorem faceAddEdge_none_iff (es : List Datum) (c : Int) (d : Option Datum) :
    faceAddEdge es c d = none ↔ (c < 0 ∨ c > 3) := by
  unfold faceAddEdge; split <;> simp_all

theorem faceAddEdge_some {es es' : List Datum} {c : Int} {d : Option Datum} (h : faceAddEdge es c d = some es') :
    0 ≤ c ∧ c ≤ 3 ∧ es' = es.set c.toNat (d.getD lineDatum) := by
  unfold faceAddEdge at h
  split at h
  · cases h
  · rename_i hc
    simp only [Option.some.injEq] at h
    exact ⟨by omega, by omega, h.symm⟩

theorem addSideEdge_some {es es' : List Datum} {i : Int} {d : Datum} (h : addSideEdge es i d = some es') :
    0 ≤ i ∧ i ≤ 3 ∧ es' = es.set i.toNat d := by
  unfold addSideEdge at h
  split at h
  · cases h
  · rename_i hc
    simp only [Option.some.injEq] at h
    exact ⟨by omega, by omega, h.symm⟩

/-- `remove_edges`: when it does not raise, exactly the listed corners read as lines afterwards -/
theorem faceRemove_getD (cs : List Int) (es es' : List Datum)
    (h : cs.foldlM (fun es c => faceAddEdge es c none) es = some es') (i : Nat) :
    es'.length = es.length ∧
    es'.getD i lineDatum = if (i : Int) ∈ cs then lineDatum else es.getD i lineDatum := by
  induction cs generalizing es with
  | nil => simp only [List.foldlM_nil, Option.pure_def, Option.some.injEq] at h; subst h; simp
  | cons k cs ih =>
    simp only [List.foldlM_cons, Option.bind_eq_bind] at h
    cases h1 : faceAddEdge es k none with
    | none => rw [h1] at h; cases h
    | some es1 =>
      rw [h1] at h
      simp only [Option.bind_some] at h
      obtain ⟨hk0, hk3, rfl⟩ := faceAddEdge_some h1
      obtain ⟨hl, hg⟩ := ih _ h
      refine ⟨by rw [hl]; simp, ?_⟩
      rw [hg]
      simp only [Option.getD_none, getD_set_line, List.mem_cons]
      have hik : ((i : Int) = k) ↔ (i = k.toNat) := by omega
      by_cases hm : (i : Int) ∈ cs
      · rw [if_pos hm, if_pos (Or.inr hm)]
      · rw [if_neg hm]
        by_cases he : i = k.toNat
        · rw [if_pos he, if_pos (Or.inl (hik.mpr he))]
        · rw [if_neg he, if_neg (by rintro (e | e); exact he (hik.mp e); exact hm e)]

end CBV.C07
