/-
C03 — `Chop.calculate` on the ten parameter pairs: the closure plan (decided on the generated
relation table) unfolds into three concrete relation calls.
-/
import CBV.Lemmas.C03
import CBV.Lemmas.C03Geom

namespace CBV.C03

theorem map_ok {α β ε} {f : α → β} {x : Except ε α} {b : β} :
    (x.map f) = .ok b ↔ ∃ a, x = .ok a ∧ b = f a := by
  cases x with
  | error e => simp [Except.map]
  | ok a => simp [Except.map, eq_comm]

theorem runSteps_cons {t : Tol} {L : ℚ} {o : Oracle} {rel : Rel} {rest : List Rel} {v res : Vals} :
    runSteps t L o (rel :: rest) v = .ok res ↔
      ∃ v1, applyRel t L o v rel = .ok v1 ∧ runSteps t L o rest v1 = .ok res := by
  rw [runSteps]
  split
  · next e he => simp [he]
  · next v' hv => simp [hv]

theorem runSteps_nil {t : Tol} {L : ℚ} {o : Oracle} {v res : Vals} :
    runSteps t L o [] v = .ok res ↔ res = v := by
  simp [runSteps, pure, Except.pure, eq_comm]

theorem runSteps3 {t : Tol} {L : ℚ} {o : Oracle} {a b c : Rel} {v res : Vals} :
    runSteps t L o [a, b, c] v = .ok res ↔
      ∃ v1 v2, applyRel t L o v a = .ok v1 ∧ applyRel t L o v1 b = .ok v2 ∧ applyRel t L o v2 c = .ok res := by
  simp only [runSteps_cons, runSteps_nil]
  constructor
  · rintro ⟨v1, h1, v2, h2, v3, h3, rfl⟩; exact ⟨v1, v2, h1, h2, h3⟩
  · rintro ⟨v1, v2, h1, h2, h3⟩; exact ⟨v1, h1, v2, h2, res, h3, rfl⟩

theorem calculate_ok_iff {t : Tol} {L : ℚ} {o : Oracle} {v res : Vals} {steps : List Rel} {k : ℕ}
    (hp : plan v.known = some (steps, k, true)) :
    calculate t L o v = .ok res ↔ runSteps t L o steps v = .ok res := by
  unfold calculate
  rw [hp]
  simp only
  cases runSteps t L o steps v with
  | error e => simp
  | ok v' => simp [pure, Except.pure]

/-! the ten plans (decided on `CBV.Gen.relations`) -/

theorem plan_count_start : plan [.count, .start] =
    some ([⟨.c2c, .count, .start⟩, ⟨.total, .count, .c2c⟩, ⟨.end_, .start, .total⟩], 2, true) := by decide
theorem plan_count_end : plan [.count, .end_] =
    some ([⟨.c2c, .count, .end_⟩, ⟨.start, .count, .c2c⟩, ⟨.total, .count, .c2c⟩], 1, true) := by decide
theorem plan_count_c2c : plan [.count, .c2c] =
    some ([⟨.start, .count, .c2c⟩, ⟨.total, .count, .c2c⟩, ⟨.end_, .start, .total⟩], 2, true) := by decide
theorem plan_count_total : plan [.count, .total] =
    some ([⟨.c2c, .count, .total⟩, ⟨.start, .count, .c2c⟩, ⟨.end_, .start, .total⟩], 2, true) := by decide
theorem plan_start_end : plan [.start, .end_] =
    some ([⟨.total, .start, .end_⟩, ⟨.count, .total, .start⟩, ⟨.c2c, .count, .end_⟩], 3, true) := by decide
theorem plan_start_c2c : plan [.start, .c2c] =
    some ([⟨.count, .start, .c2c⟩, ⟨.total, .count, .c2c⟩, ⟨.end_, .start, .total⟩], 2, true) := by decide
theorem plan_start_total : plan [.start, .total] =
    some ([⟨.count, .total, .start⟩, ⟨.end_, .start, .total⟩, ⟨.c2c, .count, .end_⟩], 2, true) := by decide
theorem plan_end_c2c : plan [.end_, .c2c] =
    some ([⟨.count, .end_, .c2c⟩, ⟨.start, .count, .c2c⟩, ⟨.total, .count, .c2c⟩], 1, true) := by decide
theorem plan_end_total : plan [.end_, .total] =
    some ([⟨.start, .end_, .total⟩, ⟨.count, .total, .start⟩, ⟨.c2c, .count, .end_⟩], 3, true) := by decide
theorem plan_c2c_total : plan [.c2c, .total] =
    some ([⟨.count, .total, .c2c⟩, ⟨.start, .count, .c2c⟩, ⟨.end_, .start, .total⟩], 2, true) := by decide

/-! the ten pairs: `calculate` is exactly these three calls, in this order -/

theorem pair_count_start {t : Tol} {L s : ℚ} {n : ℕ} {o : Oracle} {res : Vals}
    (h : calculate t L o { count := some n, start := some s } = .ok res) :
    ∃ c T e, c2cCountStart t o L n s = .ok c ∧ totalCountC2c L n c = .ok T ∧ endStartTotal L s T = .ok e ∧
      res = { count := some n, start := some s, end_ := some e, c2c := some c, total := some T } := by
  rw [calculate_ok_iff (k := 2) (by exact plan_count_start), runSteps3] at h
  obtain ⟨v1, v2, h1, h2, h3⟩ := h
  simp only [applyRel, map_ok] at h1; obtain ⟨a, ha, rfl⟩ := h1
  simp only [applyRel, map_ok] at h2; obtain ⟨b, hb, rfl⟩ := h2
  simp only [applyRel, map_ok] at h3; obtain ⟨c, hc, rfl⟩ := h3
  exact ⟨a, b, c, ha, hb, hc, rfl⟩

theorem pair_count_end {t : Tol} {L e : ℚ} {n : ℕ} {o : Oracle} {res : Vals}
    (h : calculate t L o { count := some n, end_ := some e } = .ok res) :
    ∃ c s T, c2cCountEnd t o L n e = .ok c ∧ startCountC2c L n c = .ok s ∧ totalCountC2c L n c = .ok T ∧
      res = { count := some n, start := some s, end_ := some e, c2c := some c, total := some T } := by
  rw [calculate_ok_iff (k := 1) (by exact plan_count_end), runSteps3] at h
  obtain ⟨v1, v2, h1, h2, h3⟩ := h
  simp only [applyRel, map_ok] at h1; obtain ⟨a, ha, rfl⟩ := h1
  simp only [applyRel, map_ok] at h2; obtain ⟨b, hb, rfl⟩ := h2
  simp only [applyRel, map_ok] at h3; obtain ⟨c, hc, rfl⟩ := h3
  exact ⟨a, b, c, ha, hb, hc, rfl⟩

theorem pair_count_c2c {t : Tol} {L r : ℚ} {n : ℕ} {o : Oracle} {res : Vals}
    (h : calculate t L o { count := some n, c2c := some r } = .ok res) :
    ∃ s T e, startCountC2c L n r = .ok s ∧ totalCountC2c L n r = .ok T ∧ endStartTotal L s T = .ok e ∧
      res = { count := some n, start := some s, end_ := some e, c2c := some r, total := some T } := by
  rw [calculate_ok_iff (k := 2) (by exact plan_count_c2c), runSteps3] at h
  obtain ⟨v1, v2, h1, h2, h3⟩ := h
  simp only [applyRel, map_ok] at h1; obtain ⟨a, ha, rfl⟩ := h1
  simp only [applyRel, map_ok] at h2; obtain ⟨b, hb, rfl⟩ := h2
  simp only [applyRel, map_ok] at h3; obtain ⟨c, hc, rfl⟩ := h3
  exact ⟨a, b, c, ha, hb, hc, rfl⟩

theorem pair_count_total {t : Tol} {L T : ℚ} {n : ℕ} {o : Oracle} {res : Vals}
    (h : calculate t L o { count := some n, total := some T } = .ok res) :
    ∃ c s e, c2cCountTotal t o L n T = .ok c ∧ startCountC2c L n c = .ok s ∧ endStartTotal L s T = .ok e ∧
      res = { count := some n, start := some s, end_ := some e, c2c := some c, total := some T } := by
  rw [calculate_ok_iff (k := 2) (by exact plan_count_total), runSteps3] at h
  obtain ⟨v1, v2, h1, h2, h3⟩ := h
  simp only [applyRel, map_ok] at h1; obtain ⟨a, ha, rfl⟩ := h1
  simp only [applyRel, map_ok] at h2; obtain ⟨b, hb, rfl⟩ := h2
  simp only [applyRel, map_ok] at h3; obtain ⟨c, hc, rfl⟩ := h3
  exact ⟨a, b, c, ha, hb, hc, rfl⟩

theorem pair_start_end {t : Tol} {L s e : ℚ} {o : Oracle} {res : Vals}
    (h : calculate t L o { start := some s, end_ := some e } = .ok res) :
    ∃ T n c, totalStartEnd L s e = .ok T ∧ countTotalStart t o L T s = .ok n ∧ c2cCountEnd t o L n e = .ok c ∧
      res = { count := some n, start := some s, end_ := some e, c2c := some c, total := some T } := by
  rw [calculate_ok_iff (k := 3) (by exact plan_start_end), runSteps3] at h
  obtain ⟨v1, v2, h1, h2, h3⟩ := h
  simp only [applyRel, map_ok] at h1; obtain ⟨a, ha, rfl⟩ := h1
  simp only [applyRel, map_ok] at h2; obtain ⟨b, hb, rfl⟩ := h2
  simp only [applyRel, map_ok] at h3; obtain ⟨c, hc, rfl⟩ := h3
  exact ⟨a, b, c, ha, hb, hc, rfl⟩

theorem pair_start_c2c {t : Tol} {L s r : ℚ} {o : Oracle} {res : Vals}
    (h : calculate t L o { start := some s, c2c := some r } = .ok res) :
    ∃ n T e, countStartC2c t o L s r = .ok n ∧ totalCountC2c L n r = .ok T ∧ endStartTotal L s T = .ok e ∧
      res = { count := some n, start := some s, end_ := some e, c2c := some r, total := some T } := by
  rw [calculate_ok_iff (k := 2) (by exact plan_start_c2c), runSteps3] at h
  obtain ⟨v1, v2, h1, h2, h3⟩ := h
  simp only [applyRel, map_ok] at h1; obtain ⟨a, ha, rfl⟩ := h1
  simp only [applyRel, map_ok] at h2; obtain ⟨b, hb, rfl⟩ := h2
  simp only [applyRel, map_ok] at h3; obtain ⟨c, hc, rfl⟩ := h3
  exact ⟨a, b, c, ha, hb, hc, rfl⟩

theorem pair_start_total {t : Tol} {L s T : ℚ} {o : Oracle} {res : Vals}
    (h : calculate t L o { start := some s, total := some T } = .ok res) :
    ∃ n e c, countTotalStart t o L T s = .ok n ∧ endStartTotal L s T = .ok e ∧ c2cCountEnd t o L n e = .ok c ∧
      res = { count := some n, start := some s, end_ := some e, c2c := some c, total := some T } := by
  rw [calculate_ok_iff (k := 2) (by exact plan_start_total), runSteps3] at h
  obtain ⟨v1, v2, h1, h2, h3⟩ := h
  simp only [applyRel, map_ok] at h1; obtain ⟨a, ha, rfl⟩ := h1
  simp only [applyRel, map_ok] at h2; obtain ⟨b, hb, rfl⟩ := h2
  simp only [applyRel, map_ok] at h3; obtain ⟨c, hc, rfl⟩ := h3
  exact ⟨a, b, c, ha, hb, hc, rfl⟩

theorem pair_end_c2c {t : Tol} {L e r : ℚ} {o : Oracle} {res : Vals}
    (h : calculate t L o { end_ := some e, c2c := some r } = .ok res) :
    ∃ n s T, countEndC2c t o L e r = .ok n ∧ startCountC2c L n r = .ok s ∧ totalCountC2c L n r = .ok T ∧
      res = { count := some n, start := some s, end_ := some e, c2c := some r, total := some T } := by
  rw [calculate_ok_iff (k := 1) (by exact plan_end_c2c), runSteps3] at h
  obtain ⟨v1, v2, h1, h2, h3⟩ := h
  simp only [applyRel, map_ok] at h1; obtain ⟨a, ha, rfl⟩ := h1
  simp only [applyRel, map_ok] at h2; obtain ⟨b, hb, rfl⟩ := h2
  simp only [applyRel, map_ok] at h3; obtain ⟨c, hc, rfl⟩ := h3
  exact ⟨a, b, c, ha, hb, hc, rfl⟩

theorem pair_end_total {t : Tol} {L e T : ℚ} {o : Oracle} {res : Vals}
    (h : calculate t L o { end_ := some e, total := some T } = .ok res) :
    ∃ s n c, startEndTotal L e T = .ok s ∧ countTotalStart t o L T s = .ok n ∧ c2cCountEnd t o L n e = .ok c ∧
      res = { count := some n, start := some s, end_ := some e, c2c := some c, total := some T } := by
  rw [calculate_ok_iff (k := 3) (by exact plan_end_total), runSteps3] at h
  obtain ⟨v1, v2, h1, h2, h3⟩ := h
  simp only [applyRel, map_ok] at h1; obtain ⟨a, ha, rfl⟩ := h1
  simp only [applyRel, map_ok] at h2; obtain ⟨b, hb, rfl⟩ := h2
  simp only [applyRel, map_ok] at h3; obtain ⟨c, hc, rfl⟩ := h3
  exact ⟨a, b, c, ha, hb, hc, rfl⟩

theorem pair_c2c_total {t : Tol} {L r T : ℚ} {o : Oracle} {res : Vals}
    (h : calculate t L o { c2c := some r, total := some T } = .ok res) :
    ∃ n s e, countTotalC2c t o L T r = .ok n ∧ startCountC2c L n r = .ok s ∧ endStartTotal L s T = .ok e ∧
      res = { count := some n, start := some s, end_ := some e, c2c := some r, total := some T } := by
  rw [calculate_ok_iff (k := 2) (by exact plan_c2c_total), runSteps3] at h
  obtain ⟨v1, v2, h1, h2, h3⟩ := h
  simp only [applyRel, map_ok] at h1; obtain ⟨a, ha, rfl⟩ := h1
  simp only [applyRel, map_ok] at h2; obtain ⟨b, hb, rfl⟩ := h2
  simp only [applyRel, map_ok] at h3; obtain ⟨c, hc, rfl⟩ := h3
  exact ⟨a, b, c, ha, hb, hc, rfl⟩

/-! ### vocabulary of the property theorems -/

/-- exact solver answers: no slack in any validator -/
abbrev T0 : Tol := {}

/-- what `Chop.calculate` returns: `(count, total_expansion)`, `none` when it raises -/
def returned (x : Except (Err × Option Rel) Vals) : Option (Option ℕ × Option ℚ) :=
  match x with
  | .ok r => some (r.count, r.total)
  | .error _ => none


/-- the ten supported pairs (in the order of `Vals.known`) -/
def pairs : List (List Q) :=
  [[.count, .start], [.count, .end_], [.count, .c2c], [.count, .total], [.start, .end_], [.start, .c2c],
   [.start, .total], [.end_, .c2c], [.end_, .total], [.c2c, .total]]

def sublistsOf : List Q → List (List Q)
  | [] => [[]]
  | q :: qs => (sublistsOf qs).map (q :: ·) ++ sublistsOf qs

/-- all 32 sets of known quantities -/
def knownSets : List (List Q) := sublistsOf [.count, .start, .end_, .c2c, .total]

/-- every relation of the plan computes a value that is not yet known from two known ones, and the loop
    reports success exactly when all five values are known at the end -/
def planSound (K : List Q) : Bool :=
  match plan K with
  | none => false
  | some (steps, _, done) =>
      let r := steps.foldl
        (fun (acc : List Q × Bool) rel =>
          (rel.out :: acc.1, acc.2 && !(acc.1.contains rel.out) && acc.1.contains rel.in1 && acc.1.contains rel.in2))
        (K, true)
      r.2 && (done == allFive r.1)


/-! ### a given count is never recalculated -/

theorem applyRel_count_eq {t : Tol} {L : ℚ} {o : Oracle} {v v' : Vals} {rel : Rel}
    (hne : rel.out ≠ .count) (h : applyRel t L o v rel = .ok v') : v'.count = v.count := by
  unfold applyRel at h
  split at h <;> (try contradiction) <;>
    (split at h <;> try contradiction) <;>
    (rw [map_ok] at h; obtain ⟨a, _, rfl⟩ := h; rfl)

theorem runSteps_count_eq {t : Tol} {L : ℚ} {o : Oracle} :
    ∀ (steps : List Rel) (v res : Vals), (∀ rel ∈ steps, rel.out ≠ .count) →
      runSteps t L o steps v = .ok res → res.count = v.count := by
  intro steps
  induction steps with
  | nil => intro v res _ h; rw [runSteps_nil] at h; rw [h]
  | cons rel rest ih =>
    intro v res hall h
    rw [runSteps_cons] at h
    obtain ⟨v1, h1, h2⟩ := h
    rw [ih v1 res (fun r hr => hall r (List.mem_cons_of_mem _ hr)) h2]
    exact applyRel_count_eq (hall rel List.mem_cons_self) h1

theorem known_mem (v : Vals) : v.known ∈ knownSets := by
  obtain ⟨c, s, e, r, T⟩ := v
  cases c <;> cases s <;> cases e <;> cases r <;> cases T <;> simp [Vals.known, knownSets, sublistsOf]

theorem plan_keeps_count : ∀ K ∈ knownSets, Q.count ∈ K →
    (plan K).map (fun p => p.1.all (fun r => decide (r.out ≠ Q.count))) = some true := by decide

theorem given_count {t : Tol} {L : ℚ} {o : Oracle} {v res : Vals} {n : ℕ}
    (h : calculate t L o v = .ok res) (hn : v.count = some n) : res.count = some n := by
  have hmem : Q.count ∈ v.known := by
    unfold Vals.known; rw [hn]; simp
  have hp := plan_keeps_count v.known (known_mem v) hmem
  unfold calculate at h
  cases hpl : plan v.known with
  | none => rw [hpl] at h; simp at h
  | some p =>
    obtain ⟨steps, k, done⟩ := p
    rw [hpl] at h hp
    simp only [Option.map_some, Option.some.injEq, List.all_eq_true, decide_eq_true_eq] at hp
    simp only at h
    cases hr : runSteps t L o steps v with
    | error e => rw [hr] at h; simp at h
    | ok v' =>
      rw [hr] at h
      simp only at h
      split_ifs at h
      simp only [pure, Except.pure, Except.ok.injEq] at h
      subst h
      rw [runSteps_count_eq steps v v' hp hr, hn]

/-! ### building a successful call -/

theorem oracleCount_intro {o : Oracle} {ok : ℕ → Bool} {why : String} {n : ℕ}
    (ho : o.count = some (n : ℤ)) (hn : 1 ≤ n) (hok : ok n = true) : oracleCount o ok why = .ok n := by
  unfold oracleCount
  rw [ho]
  simp only [Int.toNat_natCast]
  rw [if_pos ⟨by exact_mod_cast hn, hok⟩]
  rfl

theorem pow_ne_one_of_pos {x : ℚ} (hx : 0 < x) (h1 : x ≠ 1) {n : ℕ} (hn : 1 ≤ n) : x ^ n ≠ 1 := by
  intro h
  exact h1 ((pow_eq_one_iff_of_nonneg (le_of_lt hx) (by omega)).mp h)


/-! ### the root-finding count -/

/-- what the size-and-total pairs guarantee on the root-finding branch: with `w^(n-1) = T` (the ratio blockMesh
    uses for `n` cells) the first cell is not coarser than `s`; with one cell fewer (`w'^(n-2) = T`) it is -/
def SizeTotalSpec (L s T : ℚ) (n : ℕ) : Prop :=
  (n = 1 → L ≤ s) ∧
  (2 ≤ n → ∃ w, 0 < w ∧ w ^ (n - 1) = T ∧ firstCell L n w ≤ s) ∧
  (n = 2 → s ≤ L) ∧
  (3 ≤ n → ∃ w, 0 < w ∧ w ^ (n - 2) = T ∧ s ≤ firstCell L (n - 1) w)

theorem sizeTotalSpec_of_countTOK {L s T : ℚ} {n : ℕ} {w1 w2 : Option ℚ}
    (h : countTOK T0 L s T n w1 w2 = true) : 1 ≤ n ∧ SizeTotalSpec L s T n := by
  unfold countTOK at h
  simp only [Bool.and_eq_true, decide_eq_true_eq] at h
  obtain ⟨⟨hn, h1⟩, h2⟩ := h
  refine ⟨hn, ?_, ?_, ?_, ?_⟩
  · intro hn1
    rw [if_pos hn1] at h1
    simpa using h1
  · intro hn2
    rw [if_neg (by omega)] at h1
    cases w1 with
    | none => simp at h1
    | some w =>
      simp only [Bool.and_eq_true, decide_eq_true_eq] at h1
      obtain ⟨hp, hle⟩ := h1
      obtain ⟨hw, hpw⟩ := powOK_zero hp
      refine ⟨w, hw, hpw, ?_⟩
      have hg := geomSum_pos (le_of_lt hw) (show 0 < n by omega)
      rw [gsum_eq_geomSum] at hle
      unfold firstCell
      rw [div_le_iff₀ hg]
      simpa using hle
  · intro hn2
    rw [if_neg (by omega), if_pos hn2] at h2
    simpa using h2
  · intro hn3
    rw [if_neg (by omega), if_neg (by omega)] at h2
    cases w2 with
    | none => simp at h2
    | some w =>
      simp only [Bool.and_eq_true, decide_eq_true_eq] at h2
      obtain ⟨hp, hle⟩ := h2
      obtain ⟨hw, hpw⟩ := powOK_zero hp
      refine ⟨w, hw, hpw, ?_⟩
      have hg := geomSum_pos (le_of_lt hw) (show 0 < n - 1 by omega)
      rw [gsum_eq_geomSum] at hle
      unfold firstCell
      rw [le_div_iff₀ hg]
      simpa using hle


end CBV.C03
