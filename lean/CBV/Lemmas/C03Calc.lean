/-
C03 — `Chop.calculate` on the ten parameter pairs: the closure plan (decided on the generated
relation table) unfolds into three concrete relation calls.
-/
import CBV.Lemmas.C03

namespace CBV.C03

theorem map_ok {α β ε} {f : α → β} {x : Except ε α} {b : β} :
    (x.map f) = .ok b ↔ ∃ a, x = .ok a ∧ b = f a := by
  cases x with
  | error e => simp [Except.map]
  | ok a => simp [Except.map, eq_comm]

theorem runSteps_cons {t : Tol} {L : ℚ} {o : Oracle} {rel : Rel} {rest : List Rel} {v res : Vals} :
    runSteps t L o (rel :: rest) v = .ok res ↔
      ∃ v1, applyRel t L o v rel = .ok v1 ∧ runSteps t L o rest v1 = .ok res := by
  rw [runSteps]
  split
  · next e he => simp [he]
  · next v' hv => simp [hv]

theorem runSteps_nil {t : Tol} {L : ℚ} {o : Oracle} {v res : Vals} :
    runSteps t L o [] v = .ok res ↔ res = v := by
  simp [runSteps, pure, Except.pure, eq_comm]

theorem runSteps3 {t : Tol} {L : ℚ} {o : Oracle} {a b c : Rel} {v res : Vals} :
    runSteps t L o [a, b, c] v = .ok res ↔
      ∃ v1 v2, applyRel t L o v a = .ok v1 ∧ applyRel t L o v1 b = .ok v2 ∧ applyRel t L o v2 c = .ok res := by
  simp only [runSteps_cons, runSteps_nil]
  constructor
  · rintro ⟨v1, h1, v2, h2, v3, h3, rfl⟩; exact ⟨v1, v2, h1, h2, h3⟩
  · rintro ⟨v1, v2, h1, h2, h3⟩; exact ⟨v1, h1, v2, h2, res, h3, rfl⟩

theorem calculate_ok_iff {t : Tol} {L : ℚ} {o : Oracle} {v res : Vals} {steps : List Rel} {k : ℕ}
    (hp : plan v.known = some (steps, k, true)) :
    calculate t L o v = .ok res ↔ runSteps t L o steps v = .ok res := by
  unfold calculate
  rw [hp]
  simp only
  cases runSteps t L o steps v with
  | error e => simp
  | ok v' => simp [pure, Except.pure]

/-! the ten plans (decided on `CBV.Gen.relations`) -/

theorem plan_count_start : plan [.count, .start] =
    some ([⟨.c2c, .count, .start⟩, ⟨.total, .count, .c2c⟩, ⟨.end_, .start, .total⟩], 2, true) := by decide
theorem plan_count_end : plan [.count, .end_] =
    some ([⟨.c2c, .count, .end_⟩, ⟨.start, .count, .c2c⟩, ⟨.total, .count, .c2c⟩], 1, true) := by decide
theorem plan_count_c2c : plan [.count, .c2c] =
    some ([⟨.start, .count, .c2c⟩, ⟨.total, .count, .c2c⟩, ⟨.end_, .start, .total⟩], 2, true) := by decide
theorem plan_count_total : plan [.count, .total] =
    some ([⟨.c2c, .count, .total⟩, ⟨.start, .count, .c2c⟩, ⟨.end_, .start, .total⟩], 2, true) := by decide
theorem plan_start_end : plan [.start, .end_] =
    some ([⟨.total, .start, .end_⟩, ⟨.count, .total, .start⟩, ⟨.c2c, .count, .end_⟩], 3, true) := by decide
theorem plan_start_c2c : plan [.start, .c2c] =
    some ([⟨.count, .start, .c2c⟩, ⟨.total, .count, .c2c⟩, ⟨.end_, .start, .total⟩], 2, true) := by decide
theorem plan_start_total : plan [.start, .total] =
    some ([⟨.count, .total, .start⟩, ⟨.end_, .start, .total⟩, ⟨.c2c, .count, .end_⟩], 2, true) := by decide
theorem plan_end_c2c : plan [.end_, .c2c] =
    some ([⟨.count, .end_, .c2c⟩, ⟨.start, .count, .c2c⟩, ⟨.total, .count, .c2c⟩], 1, true) := by decide
theorem plan_end_total : plan [.end_, .total] =
    some ([⟨.start, .end_, .total⟩, ⟨.count, .total, .start⟩, ⟨.c2c, .count, .end_⟩], 3, true) := by decide
theorem plan_c2c_total : plan [.c2c, .total] =
    some ([⟨.count, .total, .c2c⟩, ⟨.start, .count, .c2c⟩, ⟨.end_, .start, .total⟩], 2, true) := by decide

/-! the ten pairs: `calculate` is exactly these three calls, in this order -/

theorem pair_count_start {t : Tol} {L s : ℚ} {n : ℕ} {o : Oracle} {res : Vals}
    (h : calculate t L o { count := some n, start := some s } = .ok res) :
    ∃ c T e, c2cCountStart t o L n s = .ok c ∧ totalCountC2c L n c = .ok T ∧ endStartTotal L s T = .ok e ∧
      res = { count := some n, start := some s, end_ := some e, c2c := some c, total := some T } := by
  rw [calculate_ok_iff (k := 2) (by exact plan_count_start), runSteps3] at h
  obtain ⟨v1, v2, h1, h2, h3⟩ := h
  simp only [applyRel, map_ok] at h1; obtain ⟨a, ha, rfl⟩ := h1
  simp only [applyRel, map_ok] at h2; obtain ⟨b, hb, rfl⟩ := h2
  simp only [applyRel, map_ok] at h3; obtain ⟨c, hc, rfl⟩ := h3
  exact ⟨a, b, c, ha, hb, hc, rfl⟩

theorem pair_count_end {t : Tol} {L e : ℚ} {n : ℕ} {o : Oracle} {res : Vals}
    (h : calculate t L o { count := some n, end_ := some e } = .ok res) :
    ∃ c s T, c2cCountEnd t o L n e = .ok c ∧ startCountC2c L n c = .ok s ∧ totalCountC2c L n c = .ok T ∧
      res = { count := some n, start := some s, end_ := some e, c2c := some c, total := some T } := by
  rw [calculate_ok_iff (k := 1) (by exact plan_count_end), runSteps3] at h
  obtain ⟨v1, v2, h1, h2, h3⟩ := h
  simp only [applyRel, map_ok] at h1; obtain ⟨a, ha, rfl⟩ := h1
  simp only [applyRel, map_ok] at h2; obtain ⟨b, hb, rfl⟩ := h2
  simp only [applyRel, map_ok] at h3; obtain ⟨c, hc, rfl⟩ := h3
  exact ⟨a, b, c, ha, hb, hc, rfl⟩

theorem pair_count_c2c {t : Tol} {L r : ℚ} {n : ℕ} {o : Oracle} {res : Vals}
    (h : calculate t L o { count := some n, c2c := some r } = .ok res) :
    ∃ s T e, startCountC2c L n r = .ok s ∧ totalCountC2c L n r = .ok T ∧ endStartTotal L s T = .ok e ∧
      res = { count := some n, start := some s, end_ := some e, c2c := some r, total := some T } := by
  rw [calculate_ok_iff (k := 2) (by exact plan_count_c2c), runSteps3] at h
  obtain ⟨v1, v2, h1, h2, h3⟩ := h
  simp only [applyRel, map_ok] at h1; obtain ⟨a, ha, rfl⟩ := h1
  simp only [applyRel, map_ok] at h2; obtain ⟨b, hb, rfl⟩ := h2
  simp only [applyRel, map_ok] at h3; obtain ⟨c, hc, rfl⟩ := h3
  exact ⟨a, b, c, ha, hb, hc, rfl⟩

theorem pair_count_total {t : Tol} {L T : ℚ} {n : ℕ} {o : Oracle} {res : Vals}
    (h : calculate t L o { count := some n, total := some T } = .ok res) :
    ∃ c s e, c2cCountTotal t o L n T = .ok c ∧ startCountC2c L n c = .ok s ∧ endStartTotal L s T = .ok e ∧
      res = { count := some n, start := some s, end_ := some e, c2c := some c, total := some T } := by
  rw [calculate_ok_iff (k := 2) (by exact plan_count_total), runSteps3] at h
  obtain ⟨v1, v2, h1, h2, h3⟩ := h
  simp only [applyRel, map_ok] at h1; obtain ⟨a, ha, rfl⟩ := h1
  simp only [applyRel, map_ok] at h2; obtain ⟨b, hb, rfl⟩ := h2
  simp only [applyRel, map_ok] at h3; obtain ⟨c, hc, rfl⟩ := h3
  exact ⟨a, b, c, ha, hb, hc, rfl⟩

theorem pair_start_end {t : Tol} {L s e : ℚ} {o : Oracle} {res : Vals}
    (h : calculate t L o { start := some s, end_ := some e } = .ok res) :
    ∃ T n c, totalStartEnd L s e = .ok T ∧ countTotalStart t o L T s = .ok n ∧ c2cCountEnd t o L n e = .ok c ∧
      res = { count := some n, start := some s, end_ := some e, c2c := some c, total := some T } := by
  rw [calculate_ok_iff (k := 3) (by exact plan_start_end), runSteps3] at h
  obtain ⟨v1, v2, h1, h2, h3⟩ := h
  simp only [applyRel, map_ok] at h1; obtain ⟨a, ha, rfl⟩ := h1
  simp only [applyRel, map_ok] at h2; obtain ⟨b, hb, rfl⟩ := h2
  simp only [applyRel, map_ok] at h3; obtain ⟨c, hc, rfl⟩ := h3
  exact ⟨a, b, c, ha, hb, hc, rfl⟩

theorem pair_start_c2c {t : Tol} {L s r : ℚ} {o : Oracle} {res : Vals}
    (h : calculate t L o { start := some s, c2c := some r } = .ok res) :
    ∃ n T e, countStartC2c t o L s r = .ok n ∧ totalCountC2c L n r = .ok T ∧ endStartTotal L s T = .ok e ∧
      res = { count := some n, start := some s, end_ := some e, c2c := some r, total := some T } := by
  rw [calculate_ok_iff (k := 2) (by exact plan_start_c2c), runSteps3] at h
  obtain ⟨v1, v2, h1, h2, h3⟩ := h
  simp only [applyRel, map_ok] at h1; obtain ⟨a, ha, rfl⟩ := h1
  simp only [applyRel, map_ok] at h2; obtain ⟨b, hb, rfl⟩ := h2
  simp only [applyRel, map_ok] at h3; obtain ⟨c, hc, rfl⟩ := h3
  exact ⟨a, b, c, ha, hb, hc, rfl⟩

theorem pair_start_total {t : Tol} {L s T : ℚ} {o : Oracle} {res : Vals}
    (h : calculate t L o { start := some s, total := some T } = .ok res) :
    ∃ n e c, countTotalStart t o L T s = .ok n ∧ endStartTotal L s T = .ok e ∧ c2cCountEnd t o L n e = .ok c ∧
      res = { count := some n, start := some s, end_ := some e, c2c := some c, total := some T } := by
  rw [calculate_ok_iff (k := 2) (by exact plan_start_total), runSteps3] at h
  obtain ⟨v1, v2, h1, h2, h3⟩ := h
  simp only [applyRel, map_ok] at h1; obtain ⟨a, ha, rfl⟩ := h1
  simp only [applyRel, map_ok] at h2; obtain ⟨b, hb, rfl⟩ := h2
  simp only [applyRel, map_ok] at h3; obtain ⟨c, hc, rfl⟩ := h3
  exact ⟨a, b, c, ha, hb, hc, rfl⟩

theorem pair_end_c2c {t : Tol} {L e r : ℚ} {o : Oracle} {res : Vals}
    (h : calculate t L o { end_ := some e, c2c := some r } = .ok res) :
    ∃ n s T, countEndC2c t o L e r = .ok n ∧ startCountC2c L n r = .ok s ∧ totalCountC2c L n r = .ok T ∧
      res = { count := some n, start := some s, end_ := some e, c2c := some r, total := some T } := by
  rw [calculate_ok_iff (k := 1) (by exact plan_end_c2c), runSteps3] at h
  obtain ⟨v1, v2, h1, h2, h3⟩ := h
  simp only [applyRel, map_ok] at h1; obtain ⟨a, ha, rfl⟩ := h1
  simp only [applyRel, map_ok] at h2; obtain ⟨b, hb, rfl⟩ := h2
  simp only [applyRel, map_ok] at h3; obtain ⟨c, hc, rfl⟩ := h3
  exact ⟨a, b, c, ha, hb, hc, rfl⟩

theorem pair_end_total {t : Tol} {L e T : ℚ} {o : Oracle} {res : Vals}
    (h : calculate t L o { end_ := some e, total := some T } = .ok res) :
    ∃ s n c, startEndTotal L e T = .ok s ∧ countTotalStart t o L T s = .ok n ∧ c2cCountEnd t o L n e = .ok c ∧
      res = { count := some n, start := some s, end_ := some e, c2c := some c, total := some T } := by
  rw [calculate_ok_iff (k := 3) (by exact plan_end_total), runSteps3] at h
  obtain ⟨v1, v2, h1, h2, h3⟩ := h
  simp only [applyRel, map_ok] at h1; obtain ⟨a, ha, rfl⟩ := h1
  simp only [applyRel, map_ok] at h2; obtain ⟨b, hb, rfl⟩ := h2
  simp only [applyRel, map_ok] at h3; obtain ⟨c, hc, rfl⟩ := h3
  exact ⟨a, b, c, ha, hb, hc, rfl⟩

theorem pair_c2c_total {t : Tol} {L r T : ℚ} {o : Oracle} {res : Vals}
    (h : calculate t L o { c2c := some r, total := some T } = .ok res) :
    ∃ n s e, countTotalC2c t o L T r = .ok n ∧ startCountC2c L n r = .ok s ∧ endStartTotal L s T = .ok e ∧
      res = { count := some n, start := some s, end_ := some e, c2c := some r, total := some T } := by
  rw [calculate_ok_iff (k := 2) (by exact plan_c2c_total), runSteps3] at h
  obtain ⟨v1, v2, h1, h2, h3⟩ := h
  simp only [applyRel, map_ok] at h1; obtain ⟨a, ha, rfl⟩ := h1
  simp only [applyRel, map_ok] at h2; obtain ⟨b, hb, rfl⟩ := h2
  simp only [applyRel, map_ok] at h3; obtain ⟨c, hc, rfl⟩ := h3
  exact ⟨a, b, c, ha, hb, hc, rfl⟩

end CBV.C03
