/-
C12 — helper lemmas, part a: the assembly loop as a fold over the operations that are not deleted,
the closed form of the patch table it produces, and the refill lemmas for `PatchList.clear`.
-/
import CBV.Model.C12

namespace CBV.C12

-- the lemmas below never look inside these (they evaluate the generated tables)
attribute [local irreducible] addVerts addEdges addFaces patchItems faceItems

/-! ### the assembly loop -/

/-- the operations `assemble` turns into blocks -/
def liveOps (m : Mesh) : List Op := m.depot.filter (fun o => decide (o.id ∉ m.deleted))

theorem assembleLoop_eq_foldl (sl : List String) (del : List Nat) (ops : List Op) (l : Lists) :
    assembleLoop sl del ops l = (ops.filter (fun o => decide (o.id ∉ del))).foldl (addOp sl) l := by
  induction ops generalizing l with
  | nil => rfl
  | cons o rest ih =>
    simp only [assembleLoop, List.filter]
    by_cases h : o.id ∈ del
    · simp [h, ih]
    · simp [h, ih]

theorem flatten_splitGroups {α : Type} (ns : List Nat) (xs : List α) : (splitGroups ns xs).flatten = xs := by
  induction ns generalizing xs with
  | nil => cases xs <;> simp [splitGroups]
  | cons n ns ih => simp [splitGroups, ih]

theorem assembleLoop_append (sl : List String) (del : List Nat) (a b : List Op) (l : Lists) :
    assembleLoop sl del (a ++ b) l = assembleLoop sl del b (assembleLoop sl del a l) := by
  induction a generalizing l with
  | nil => rfl
  | cons o rest ih => simp only [List.cons_append, assembleLoop]; exact ih _

/-- the nesting of the two loops of `Mesh.assemble` does not matter: a deleted operation is skipped, the operations
    after it in the same entity are not -/
theorem assembleEntities_flatten (sl : List String) (del : List Nat) (es : List (List Op)) (l : Lists) :
    assembleEntities sl del es l = assembleLoop sl del es.flatten l := by
  induction es generalizing l with
  | nil => rfl
  | cons e rest ih => simp only [assembleEntities, List.flatten_cons, assembleLoop_append]; exact ih _

theorem assemble_flat (m : Mesh) :
    assemble m = { m with lists := assembleLoop (slavePatches m) m.deleted m.depot m.lists } := by
  simp only [assemble, assembleEntities_flatten, entities, flatten_splitGroups]

/-- the (patch name, side) items all operations contribute, in order; `vs` is the vertex list so far -/
def allItems (sl : List String) : List Op → List Vtx → List (String × List Nat)
  | [], _ => []
  | o :: ops, vs => patchItems o (addVerts sl o vs).2 ++ allItems sl ops (addVerts sl o vs).1

theorem addItems_append (ps : List Patch) (a b : List (String × List Nat)) :
    addItems ps (a ++ b) = addItems (addItems ps a) b := by
  simp [addItems, List.foldl_append]

theorem addOp_withPatches (sl : List String) (l : Lists) (P : List Patch) (o : Op) :
    addOp sl { l with patches := P } o =
      { addOp sl l o with patches := addItems P (patchItems o (addVerts sl o l.verts).2) } := by
  simp only [addOp]

/-- the fold does not look at the patch table except to add its items to it -/
theorem foldl_addOp_patches (sl : List String) (ops : List Op) (l : Lists) (P : List Patch) :
    ops.foldl (addOp sl) { l with patches := P } =
      { ops.foldl (addOp sl) l with patches := addItems P (allItems sl ops l.verts) } := by
  induction ops generalizing l P with
  | nil => simp [allItems, addItems]
  | cons o rest ih =>
    simp only [List.foldl_cons, allItems]
    rw [addOp_withPatches, ih]
    have h2 := ih (addOp sl l o) (addOp sl l o).patches
    have h3 : ({ addOp sl l o with patches := (addOp sl l o).patches } : Lists) = addOp sl l o := rfl
    rw [h3] at h2
    rw [addItems_append]
    have hv : (addOp sl l o).verts = (addVerts sl o l.verts).1 := rfl
    rw [hv]

/-! ### the patch table -/

def names (ps : List Patch) : List String := ps.map (·.name)

def clearP (p : Patch) : Patch := { p with sides := [] }

theorem clearPatches_eq (ps : List Patch) : clearPatches ps = ps.map clearP := rfl

theorem names_clearPatches (ps : List Patch) : names (clearPatches ps) = names ps := by
  simp [names, clearPatches, List.map_map, Function.comp_def]

theorem clearPatches_idem (ps : List Patch) : clearPatches (clearPatches ps) = clearPatches ps := by
  simp [clearPatches, List.map_map, Function.comp_def]

theorem clearPatches_append (a b : List Patch) : clearPatches (a ++ b) = clearPatches a ++ clearPatches b := by
  simp [clearPatches]

theorem addSide_name (s : List Nat) (p : Patch) : (Patch.addSide s p).name = p.name := by
  unfold Patch.addSide; split <;> rfl

theorem clearP_addSide (s : List Nat) (p : Patch) : clearP (Patch.addSide s p) = clearP p := by
  unfold Patch.addSide clearP; split <;> rfl

theorem clearP_fresh (n : String) : clearP (Patch.fresh n) = Patch.fresh n := rfl

theorem upsert_names_of_mem (ps : List Patch) (n : String) (f : Patch → Patch)
    (hf : ∀ p, (f p).name = p.name) (h : n ∈ names ps) : names (upsert ps n f) = names ps := by
  induction ps with
  | nil => simp [names] at h
  | cons p rest ih =>
    unfold upsert
    by_cases hp : p.name = n
    · simp [hp, names, hf]
    · simp only [hp, if_false]
      have : n ∈ names rest := by
        simp only [names, List.map_cons, List.mem_cons] at h
        rcases h with h | h
        · exact absurd h.symm hp
        · exact h
      simp only [names, List.map_cons] at ih ⊢
      rw [ih this]

theorem upsert_of_not_mem (ps : List Patch) (n : String) (f : Patch → Patch) (h : n ∉ names ps) :
    upsert ps n f = ps ++ [f (Patch.fresh n)] := by
  induction ps with
  | nil => rfl
  | cons p rest ih =>
    unfold upsert
    have hp : ¬ p.name = n := by
      intro e; apply h; simp [names, e]
    have hr : n ∉ names rest := by
      intro e; apply h; simp only [names, List.map_cons, List.mem_cons]; right; exact e
    simp [hp, ih hr]

theorem upsert_append_of_mem (ps qs : List Patch) (n : String) (f : Patch → Patch) (h : n ∈ names ps) :
    upsert (ps ++ qs) n f = upsert ps n f ++ qs := by
  induction ps with
  | nil => simp [names] at h
  | cons p rest ih =>
    simp only [List.cons_append]
    unfold upsert
    by_cases hp : p.name = n
    · simp [hp]
    · simp only [hp, if_false, List.cons_append]
      have : n ∈ names rest := by
        simp only [names, List.map_cons, List.mem_cons] at h
        rcases h with h | h
        · exact absurd h.symm hp
        · exact h
      rw [ih this]

theorem upsert_append_of_not_mem (ps qs : List Patch) (q : Patch) (n : String) (f : Patch → Patch)
    (h : n ∉ names ps) (hq : q.name = n) : upsert (ps ++ q :: qs) n f = ps ++ f q :: qs := by
  induction ps with
  | nil => simp [upsert, hq]
  | cons p rest ih =>
    simp only [List.cons_append]
    unfold upsert
    have hp : ¬ p.name = n := by
      intro e; apply h; simp [names, e]
    have hr : n ∉ names rest := by
      intro e; apply h; simp only [names, List.map_cons, List.mem_cons]; right; exact e
    simp [hp, ih hr]

theorem clearPatches_upsert_addSide_mem (ps : List Patch) (n : String) (s : List Nat) (h : n ∈ names ps) :
    clearPatches (upsert ps n (Patch.addSide s)) = clearPatches ps := by
  induction ps with
  | nil => simp [names] at h
  | cons p rest ih =>
    unfold upsert
    by_cases hp : p.name = n
    · simp only [hp, if_true, clearPatches_eq, List.map_cons, clearP_addSide]
    · simp only [hp, if_false]
      have : n ∈ names rest := by
        simp only [names, List.map_cons, List.mem_cons] at h
        rcases h with h | h
        · exact absurd h.symm hp
        · exact h
      simp only [clearPatches_eq, List.map_cons] at ih ⊢
      rw [ih this]

/-- the names first mentioned by `items` that are not in `seen`, in order -/
def newNames (seen : List String) : List (String × List Nat) → List String
  | [] => []
  | it :: rest => if it.1 ∈ seen then newNames seen rest else it.1 :: newNames (seen ++ [it.1]) rest

theorem addItems_cons (ps : List Patch) (it : String × List Nat) (rest : List (String × List Nat)) :
    addItems ps (it :: rest) = addItems (upsert ps it.1 (Patch.addSide it.2)) rest := rfl

/-- clearing after a refill: the old entries (emptied) followed by one fresh entry per new name -/
theorem clearPatches_addItems (ps : List Patch) (items : List (String × List Nat)) :
    clearPatches (addItems ps items) = clearPatches ps ++ (newNames (names ps) items).map Patch.fresh := by
  induction items generalizing ps with
  | nil => simp [addItems, newNames]
  | cons it rest ih =>
    rw [addItems_cons, ih]
    by_cases h : it.1 ∈ names ps
    · rw [clearPatches_upsert_addSide_mem ps it.1 it.2 h, upsert_names_of_mem ps it.1 _ (addSide_name it.2) h]
      simp [newNames, h]
    · rw [upsert_of_not_mem ps it.1 _ h]
      have hn : names (ps ++ [Patch.addSide it.2 (Patch.fresh it.1)]) = names ps ++ [it.1] := by
        simp [names, addSide_name, Patch.fresh]
      rw [hn, clearPatches_append]
      have hc : clearPatches [Patch.addSide it.2 (Patch.fresh it.1)] = [Patch.fresh it.1] := by
        simp [clearPatches_eq, clearP_addSide, clearP_fresh]
      rw [hc]
      simp [newNames, h]

/-- refilling a table that already holds (empty) entries for the names to come gives the same table -/
theorem addItems_with_fresh (ps : List Patch) (items : List (String × List Nat)) :
    addItems (ps ++ (newNames (names ps) items).map Patch.fresh) items = addItems ps items := by
  induction items generalizing ps with
  | nil => simp [addItems, newNames]
  | cons it rest ih =>
    by_cases h : it.1 ∈ names ps
    · simp only [newNames, h, if_true]
      rw [addItems_cons, addItems_cons, upsert_append_of_mem _ _ _ _ h]
      have hn := upsert_names_of_mem ps it.1 _ (addSide_name it.2) h
      have := ih (upsert ps it.1 (Patch.addSide it.2))
      rw [hn] at this
      exact this
    · simp only [newNames, h, if_false, List.map_cons]
      rw [addItems_cons, addItems_cons, upsert_append_of_not_mem ps _ (Patch.fresh it.1) it.1 _ h rfl,
        upsert_of_not_mem ps it.1 _ h]
      have hn : names (ps ++ [Patch.addSide it.2 (Patch.fresh it.1)]) = names ps ++ [it.1] := by
        simp [names, addSide_name, Patch.fresh]
      have := ih (ps ++ [Patch.addSide it.2 (Patch.fresh it.1)])
      rw [hn] at this
      rw [← this]
      simp

/-- `clear(); assemble()` twice is `clear(); assemble()` once, on the patch table -/
theorem refill_idem (P : List Patch) (items : List (String × List Nat)) :
    addItems (clearPatches (addItems (clearPatches P) items)) items = addItems (clearPatches P) items := by
  rw [clearPatches_addItems, clearPatches_idem]
  have := addItems_with_fresh (clearPatches P) items
  exact this

theorem mem_names_addItems (ps : List Patch) (items : List (String × List Nat)) (n : String)
    (h : n ∈ names ps ∨ ∃ it ∈ items, it.1 = n) : n ∈ names (addItems ps items) := by
  induction items generalizing ps with
  | nil =>
    rcases h with h | ⟨it, hit, _⟩
    · exact h
    · simp at hit
  | cons it rest ih =>
    rw [addItems_cons]
    apply ih
    by_cases hin : it.1 ∈ names ps
    · rw [upsert_names_of_mem ps it.1 _ (addSide_name it.2) hin]
      rcases h with h | ⟨it', hit', e⟩
      · left; exact h
      · simp only [List.mem_cons] at hit'
        rcases hit' with r | r
        · left; rw [← e, r]; exact hin
        · right; exact ⟨it', r, e⟩
    · rw [upsert_of_not_mem ps it.1 _ hin]
      have hn : names (ps ++ [Patch.addSide it.2 (Patch.fresh it.1)]) = names ps ++ [it.1] := by
        simp [names, addSide_name, Patch.fresh]
      rw [hn]
      rcases h with h | ⟨it', hit', e⟩
      · left; simp [h]
      · simp only [List.mem_cons] at hit'
        rcases hit' with r | r
        · left; rw [← e, r]; simp
        · right; exact ⟨it', r, e⟩

/-! ### `modify` commutes with the refill -/

def setKind (kind : String) (settings : Option (List String)) (p : Patch) : Patch :=
  { p with kind := kind, settings := settings.getD p.settings }

theorem modifyPatch_eq (ps : List Patch) (n k : String) (st : Option (List String)) :
    modifyPatch ps n k st = upsert ps n (setKind k st) := rfl

theorem setKind_name (k : String) (st : Option (List String)) (p : Patch) : (setKind k st p).name = p.name := rfl

theorem addSide_setKind (s : List Nat) (k : String) (st : Option (List String)) (p : Patch) :
    Patch.addSide s (setKind k st p) = setKind k st (Patch.addSide s p) := by
  unfold Patch.addSide setKind
  simp only
  split <;> rfl

theorem upsert_cons_eq (p : Patch) (rest : List Patch) (n : String) (f : Patch → Patch) (h : p.name = n) :
    upsert (p :: rest) n f = f p :: rest := by
  simp [upsert, h]

theorem upsert_cons_ne (p : Patch) (rest : List Patch) (n : String) (f : Patch → Patch) (h : ¬ p.name = n) :
    upsert (p :: rest) n f = p :: upsert rest n f := by
  simp [upsert, h]

theorem upsert_comm (Q : List Patch) (n m : String) (f g : Patch → Patch)
    (hm : m ∈ names Q) (hc : ∀ p, f (g p) = g (f p))
    (hf : ∀ p, (f p).name = p.name) (hg : ∀ p, (g p).name = p.name) :
    upsert (upsert Q n g) m f = upsert (upsert Q m f) n g := by
  induction Q with
  | nil => simp [names] at hm
  | cons p rest ih =>
    by_cases h1 : p.name = n <;> by_cases h2 : p.name = m
    · rw [upsert_cons_eq p rest n g h1, upsert_cons_eq p rest m f h2,
        upsert_cons_eq (g p) rest m f ((hg p).trans h2), upsert_cons_eq (f p) rest n g ((hf p).trans h1), hc]
    · rw [upsert_cons_eq p rest n g h1, upsert_cons_ne p rest m f h2,
        upsert_cons_ne (g p) rest m f (by rw [hg]; exact h2), upsert_cons_eq p _ n g h1]
    · rw [upsert_cons_ne p rest n g h1, upsert_cons_eq p rest m f h2,
        upsert_cons_eq p _ m f h2, upsert_cons_ne (f p) rest n g (by rw [hf]; exact h1)]
    · have : m ∈ names rest := by
        simp only [names, List.map_cons, List.mem_cons] at hm
        rcases hm with e | e
        · exact absurd e.symm h2
        · exact e
      rw [upsert_cons_ne p rest n g h1, upsert_cons_ne p rest m f h2, upsert_cons_ne p _ m f h2,
        upsert_cons_ne p _ n g h1, ih this]

theorem clearPatches_modifyPatch (ps : List Patch) (n k : String) (st : Option (List String)) :
    clearPatches (modifyPatch ps n k st) = modifyPatch (clearPatches ps) n k st := by
  induction ps with
  | nil => rfl
  | cons p rest ih =>
    simp only [modifyPatch_eq] at ih ⊢
    unfold upsert
    by_cases hp : p.name = n
    · simp only [hp, if_true, clearPatches_eq, List.map_cons]
      have : (clearP p).name = n := hp
      simp only [this, if_true]
      rfl
    · simp only [hp, if_false, clearPatches_eq, List.map_cons]
      have : ¬ (clearP p).name = n := hp
      simp only [this, if_false]
      simp only [clearPatches_eq] at ih
      rw [ih]

/-- when every item names a patch that is there already, modifying before or after the refill is the same -/
theorem addItems_modifyPatch (Q : List Patch) (items : List (String × List Nat)) (n k : String)
    (st : Option (List String)) (h : ∀ it ∈ items, it.1 ∈ names Q) :
    addItems (modifyPatch Q n k st) items = modifyPatch (addItems Q items) n k st := by
  induction items generalizing Q with
  | nil => rfl
  | cons it rest ih =>
    rw [addItems_cons, addItems_cons]
    have hin : it.1 ∈ names Q := h it (by simp)
    simp only [modifyPatch_eq] at ih ⊢
    rw [upsert_comm Q n it.1 (Patch.addSide it.2) (setKind k st) hin (addSide_setKind it.2 k st)
      (addSide_name it.2) (setKind_name k st)]
    apply ih
    intro it' hit'
    rw [upsert_names_of_mem Q it.1 _ (addSide_name it.2) hin]
    exact h it' (by simp [hit'])

end CBV.C12
