/-
C13 — the two facts about C17's clamp / link *model* (`Model/C17.lean`) that `T_C13_on_line` and
`T_C13_links_translation` use, proved here from C17's model and lemma modules only, so that `Props/C13.lean` does
not depend on `Props/C17.lean` (a broken obligation of C17, e.g. one of its source pins, must not turn C13 red).
Same statements as the first two clauses of `T_C17_line_on` and as `T_C17_translation`.
-/
import CBV.Lemmas.C17
import Mathlib.Algebra.Order.Field.Basic
import Mathlib.Tactic.FieldSimp
import Mathlib.Tactic.Ring

namespace CBV.C13
open CBV CBV.C09 CBV.C17

set_option linter.unusedSimpArgs false

/-- a `LineClamp` position is collinear with `p1, p2` for every parameter, and the parameter is the signed
    distance from `p1` (`s` being the length of `p2 − p1`) -/
theorem c17_line_on (p1 p2 : V3) (s t : Rat) (hs : s ≠ 0) (hw : s * s = V3.dot (p2 - p1) (p2 - p1)) :
    V3.cross (lineClamp p1 p2 s t - p1) (p2 - p1) = V3.zero ∧
      V3.dot (lineClamp p1 p2 s t - p1) (p2 - p1) = t * s := by
  have hd : lineClamp p1 p2 s t - p1 = V3.smul (t / s) (p2 - p1) := by
    apply V3.ext' <;> c17_unfold <;> ring
  rw [hd]
  refine ⟨?_, ?_⟩
  · apply V3.ext' <;> c17_unfold <;> ring
  · have : V3.dot (V3.smul (t / s) (p2 - p1)) (p2 - p1) = (t / s) * V3.dot (p2 - p1) (p2 - p1) := by
      c17_unfold; ring
    rw [this, ← hw]; field_simp

/-- `TranslationLink`: follower − leader is the vector the link was built with -/
theorem c17_translation (l0 f0 l1 : V3) : translationLink l0 f0 l1 - l1 = f0 - l0 := by
  apply V3.ext' <;> c17_unfold <;> ring

end CBV.C13
