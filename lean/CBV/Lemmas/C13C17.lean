/-
C13 — the two facts about C17's clamp / link *model* (`Model/C17.lean`) that `T_C13_on_line` and
`T_C13_links_translation` use, proved here from C17's model and lemma modules only, so that `Props/C13.lean` does
not depend on `Props/C17.lean` (a broken obligation of C17, e.g. one of its source pins, must not turn C13 red).
Same statements as the first two clauses of `T_C17_line_on` and as `T_C17_translation`.
-/
import CBV.Lemmas.C17
import CBV.Lemmas.C17Unique
import Mathlib.Algebra.Order.Field.Basic
import Mathlib.Tactic.FieldSimp
import Mathlib.Tactic.Ring

namespace CBV.C13
open CBV CBV.C09 CBV.C17

set_option linter.unusedSimpArgs false

/-- a `LineClamp` position is collinear with `p1, p2` for every parameter, and the parameter is the signed
    distance from `p1` (`s` being the length of `p2 − p1`) -/
theorem c17_line_on (p1 p2 : V3) (s t : Rat) (hs : s ≠ 0) (hw : s * s = V3.dot (p2 - p1) (p2 - p1)) :
    V3.cross (lineClamp p1 p2 s t - p1) (p2 - p1) = V3.zero ∧
      V3.dot (lineClamp p1 p2 s t - p1) (p2 - p1) = t * s := by
  have hd : lineClamp p1 p2 s t - p1 = V3.smul (t / s) (p2 - p1) := by
    apply V3.ext' <;> c17_unfold <;> ring
  rw [hd]
  refine ⟨?_, ?_⟩
  · apply V3.ext' <;> c17_unfold <;> ring
  · have : V3.dot (V3.smul (t / s) (p2 - p1)) (p2 - p1) = (t / s) * V3.dot (p2 - p1) (p2 - p1) := by
      c17_unfold; ring
    rw [this, ← hw]; field_simp

/-- `TranslationLink`: follower − leader is the vector the link was built with -/
theorem c17_translation (l0 f0 l1 : V3) : translationLink l0 f0 l1 - l1 = f0 - l0 := by
  apply V3.ext' <;> c17_unfold <;> ring

/-! ### round 6c: the other clamp / link kinds of C17's model -/

/-- `PlaneClamp` (and a plane `ParametricSurfaceClamp`): the plane equation holds for all parameters -/
theorem c17_plane_on (point n u v : V3) (a b : Rat) (hu : V3.dot u n = 0) (hv : V3.dot v n = 0) :
    V3.dot (planeClamp point u v a b - point) n = 0 ∧ V3.dot (surfPlane point u v a b - point) n = 0 := by
  have h1 : V3.dot (planeClamp point u v a b - point) n = a * V3.dot u n + b * V3.dot v n := by
    c17_unfold; ring
  have h2 : V3.dot (surfPlane point u v a b - point) n = a * V3.dot u n + b * V3.dot v n := by
    simp only [surfPlane]; c17_unfold; ring
  rw [h1, h2, hu, hv]; constructor <;> ring

/-- a `CurveClamp` on a `LineCurve` stays on the line through the curve's end points -/
theorem c17_curveLine_on (p1 p2 : V3) (t : Rat) : V3.cross (curveLine p1 p2 t - p1) (p2 - p1) = V3.zero := by
  apply V3.ext' <;> simp only [curveLine] <;> c17_unfold <;> ring

/-- a turn about the axis `(o, a)` (`RadialClamp`, `RotationLink`) keeps the height along the axis and the distance
    from the axis point — hence the radius about the axis -/
theorem c17_rot_keeps (w : Rat) (a o p : V3) (hN : w * w + V3.dot a a ≠ 0) :
    V3.dot (rotP w a o p - o) a = V3.dot (p - o) a ∧ V3.norm2 (rotP w a o p - o) = V3.norm2 (p - o) := by
  have h1 : rotP w a o p - o = rotLin w a (p - o) := by unfold rotP; exact add_sub_cancel' _ _
  rw [h1]
  constructor
  · have := rotLin_dot w a (p - o) a hN
    rwa [rotLin_axis] at this
  · exact rotLin_dot w a _ _ hN

/-- `SymmetryLink`: the midpoint of leader and follower lies on the plane and the connecting vector is parallel to
    the normal (first two clauses of `T_C17_symmetry`) -/
theorem c17_symmetry (n o l : V3) (hn : V3.dot n n ≠ 0) :
    V3.dot (V3.smul (1 / 2) (l + symmetryLink n o l) - o) n = 0 ∧ V3.cross (symmetryLink n o l - l) n = V3.zero := by
  refine ⟨?_, ?_⟩
  · simp only [V3.dot] at hn
    c17_unfold
    generalize hNd : n.x * n.x + n.y * n.y + n.z * n.z = N at hn ⊢
    field_simp
    rw [← hNd]; ring
  · apply V3.ext' <;> c17_unfold <;> ring

/-- a `TranslationLink` built from the current leader and follower positions puts the follower where it is -/
theorem c17_translation_at (l0 f0 : V3) : translationLink l0 f0 l0 = f0 := by
  apply V3.ext' <;> c17_unfold <;> ring

/-- the turn by the identity quaternion `(w, 0·a)`, `w ≠ 0` not even needed: a `RotationLink` built from the current
    positions puts the follower where it is as long as the leader has not been turned -/
theorem c17_rotation_identity (w : Rat) (a o f0 : V3) : rotationLink w (V3.smul 0 a) o f0 = f0 := by
  apply V3.ext' <;> c17_unfold <;> ring

/-- a `SymmetryLink` puts the follower where it is when the follower is the leader's mirror image, or the leader the
    follower's (mirroring is an involution) -/
theorem c17_symmetry_at (n o l0 f0 : V3)
    (h : f0 = symmetryLink n o l0 ∨ (V3.dot n n ≠ 0 ∧ l0 = symmetryLink n o f0)) : symmetryLink n o l0 = f0 := by
  rcases h with h | ⟨hn, h⟩
  · exact h.symm
  · rw [h]; exact (T_C09_point_mirror_aux n o f0 hn).1

end CBV.C13
