/-
C03 — lemmas for the end-to-end reversal of the pairs (count, total) and (total, c2c).
-/
import CBV.Lemmas.C03Calc

namespace CBV.C03

/-- `start_size<count+c2c` returns for the reciprocal ratio as well (both ratios on the same side of the `TOL` switch) -/
theorem startCountC2c_inv_ok {L r s : ℚ} {n : ℕ} (hs : startCountC2c L n r = .ok s) (hr : 0 < r)
    (hb : (TOL < absR (r - 1) ∧ TOL < absR (1 / r - 1)) ∨ (absR (r - 1) ≤ TOL ∧ absR (1 / r - 1) ≤ TOL)) :
    ∃ s', startCountC2c L n (1 / r) = .ok s' := by
  obtain ⟨hL, hn1, _⟩ := startCountC2c_ok hs
  have hri : 0 < 1 / r := by positivity
  unfold startCountC2c
  simp only [guardLen_bind, guardCountGe1_bind, guardRatio_bind]
  rw [if_neg (not_le.mpr hL), if_neg (by omega), if_neg (ne_of_gt hri)]
  rcases hb with ⟨_, hb'⟩ | ⟨_, hb'⟩
  · have hri1 : (1 / r) ≠ 1 := by
      intro h1
      rw [h1] at hb'
      simp [absR] at hb'
      exact absurd hb' (not_lt.mpr (le_of_lt TOL_pos))
    rw [if_pos hb', if_neg (sub_ne_zero.mpr (Ne.symm (pow_ne_one_of_pos hri hri1 hn1)))]
    exact ⟨_, rfl⟩
  · rw [if_neg (not_lt.mpr hb')]
    exact ⟨_, rfl⟩

/-- `int(log T / log r) + 1` is the same for the reciprocal ratios -/
theorem powCountOK_inv {r T : ℚ} {n : ℕ} (hr : 0 < r) (hT : 0 < T) (h : powCountOK 0 r T n = true) :
    powCountOK 0 (1 / r) (1 / T) n = true := by
  rw [powCountOK_iff] at h ⊢
  obtain ⟨hn, h⟩ := h
  refine ⟨hn, ?_⟩
  simp only [add_zero, sub_zero, mul_one, one_div_pow] at h ⊢
  have hp1 : 0 < r ^ (n - 1) := pow_pos hr _
  have hp2 : 0 < r ^ n := pow_pos hr _
  rcases h with ⟨h1, h2, h3⟩ | ⟨h1, h2, h3⟩
  · right
    refine ⟨?_, one_div_le_one_div_of_le hp1 h2, one_div_le_one_div_of_le hT h3⟩
    rw [div_lt_one hr]; exact h1
  · left
    refine ⟨?_, one_div_le_one_div_of_le hT h2, one_div_le_one_div_of_le hp2 h3⟩
    rw [lt_div_iff₀ hr]; simpa using h1

/-- `start_size<count+c2c` returns for every positive ratio -/
theorem startCountC2c_ok_of_pos {L r : ℚ} {n : ℕ} (hL : 0 < L) (hn : 1 ≤ n) (hr : 0 < r) :
    ∃ s, startCountC2c L n r = .ok s := by
  unfold startCountC2c
  simp only [guardLen_bind, guardCountGe1_bind, guardRatio_bind]
  rw [if_neg (not_le.mpr hL), if_neg (by omega), if_neg (ne_of_gt hr)]
  by_cases hb : absR (r - 1) > TOL
  · have hr1 : r ≠ 1 := by
      intro h1
      rw [h1] at hb
      simp [absR] at hb
      exact absurd hb (not_lt.mpr (le_of_lt TOL_pos))
    rw [if_pos hb, if_neg (sub_ne_zero.mpr (Ne.symm (pow_ne_one_of_pos hr hr1 hn)))]
    exact ⟨_, rfl⟩
  · rw [if_neg hb]
    exact ⟨_, rfl⟩

/-- the count validator of the size+total relation, read from the other end of the edge (three or more cells) -/
theorem countTOK_inv {L s T : ℚ} {n : ℕ} {w1 w2 : Option ℚ} (hn : 3 ≤ n)
    (h : countTOK T0 L s T n w1 w2 = true) :
    countTOK T0 L (s * T) (1 / T) n (w1.map (fun w => 1 / w)) (w2.map (fun w => 1 / w)) = true := by
  unfold countTOK at h ⊢
  simp only [Bool.and_eq_true, decide_eq_true_eq] at h ⊢
  obtain ⟨⟨hn1, h1⟩, h2⟩ := h
  rw [if_neg (by omega)] at h1
  rw [if_neg (by omega), if_neg (by omega)] at h2
  have mirror : ∀ (w : ℚ) (m : ℕ), 0 < w → w ^ (m - 1) = T → s * T * gsum (1 / w) m = s * gsum w m := by
    intro w m hw hpw
    rw [gsum_eq_geomSum, gsum_eq_geomSum, one_div, ← hpw]
    have := geomSum_inv (ne_of_gt hw) m
    calc s * w ^ (m - 1) * geomSum w⁻¹ m = s * (geomSum w⁻¹ m * w ^ (m - 1)) := by ring
      _ = s * geomSum w m := by rw [this]
  have pinv : ∀ (w : ℚ) (m : ℕ), 0 < w → w ^ m = T → powOK T0.root (1 / w) (1 / T) m = true := by
    intro w m hw hpw
    rw [powOK_iff]
    refine ⟨by positivity, ?_⟩
    rw [one_div_pow, hpw]; simp
  refine ⟨⟨hn1, ?_⟩, ?_⟩
  · rw [if_neg (by omega)]
    cases w1 with
    | none => simp at h1
    | some w =>
      simp only [Bool.and_eq_true, decide_eq_true_eq, Option.map_some] at h1 ⊢
      obtain ⟨hp, hle⟩ := h1
      obtain ⟨hw, hpw⟩ := powOK_zero hp
      exact ⟨pinv w _ hw hpw, by rw [mirror w n hw hpw]; exact hle⟩
  · rw [if_neg (by omega), if_neg (by omega)]
    cases w2 with
    | none => simp at h2
    | some w =>
      simp only [Bool.and_eq_true, decide_eq_true_eq, Option.map_some] at h2 ⊢
      obtain ⟨hp, hle⟩ := h2
      obtain ⟨hw, hpw⟩ := powOK_zero hp
      have hpw' : w ^ (n - 1 - 1) = T := by rw [show n - 1 - 1 = n - 2 by omega]; exact hpw
      exact ⟨pinv w _ hw hpw, by rw [mirror w (n - 1) hw hpw']; exact hle⟩

theorem dMin_inv {s T : ℚ} (hT : 0 < T) : dMin (1 / T) (s * T) = dMin T s := by
  unfold dMin
  have hT0 : T ≠ 0 := ne_of_gt hT
  by_cases h1 : T > 1
  · have : ¬ (1 / T > 1) := by
      rw [gt_iff_lt, lt_div_iff₀ hT]; linarith
    rw [if_pos h1, if_neg this]; field_simp
  · have h1' : T ≤ 1 := not_lt.mp h1
    rw [if_neg h1]
    by_cases h2 : 1 / T > 1
    · rw [if_pos h2]
    · rw [if_neg h2]
      have : T = 1 := by
        rw [gt_iff_lt, lt_div_iff₀ hT] at h2
        linarith
      subst this; simp

/-- the solver answers of the reversed size+total chop: same count, the reciprocal root witnesses, and a ratio `c'` -/
def mirrorOracle (o : Oracle) (c' : ℚ) : Oracle :=
  { count := o.count, c2c := some c', w1 := o.w1.map (fun w => 1 / w), w2 := o.w2.map (fun w => 1 / w) }


end CBV.C03
