/-
C03 — lemmas for the end-to-end reversal of the pairs (count, total) and (total, c2c).
-/
import CBV.Lemmas.C03Calc

namespace CBV.C03

/-- `start_size<count+c2c` returns for the reciprocal ratio as well (both ratios on the same side of the `TOL` switch) -/
theorem startCountC2c_inv_ok {L r s : ℚ} {n : ℕ} (hs : startCountC2c L n r = .ok s) (hr : 0 < r)
    (hb : (TOL < absR (r - 1) ∧ TOL < absR (1 / r - 1)) ∨ (absR (r - 1) ≤ TOL ∧ absR (1 / r - 1) ≤ TOL)) :
    ∃ s', startCountC2c L n (1 / r) = .ok s' := by
  obtain ⟨hL, hn1, _⟩ := startCountC2c_ok hs
  have hri : 0 < 1 / r := by positivity
  unfold startCountC2c
  simp only [guardLen_bind, guardCountGe1_bind, guardRatio_bind]
  rw [if_neg (not_le.mpr hL), if_neg (by omega), if_neg (ne_of_gt hri)]
  rcases hb with ⟨_, hb'⟩ | ⟨_, hb'⟩
  · have hri1 : (1 / r) ≠ 1 := by
      intro h1
      rw [h1] at hb'
      simp [absR] at hb'
      exact absurd hb' (not_lt.mpr (le_of_lt TOL_pos))
    rw [if_pos hb', if_neg (sub_ne_zero.mpr (Ne.symm (pow_ne_one_of_pos hri hri1 hn1)))]
    exact ⟨_, rfl⟩
  · rw [if_neg (not_lt.mpr hb')]
    exact ⟨_, rfl⟩

/-- `int(log T / log r) + 1` is the same for the reciprocal ratios -/
theorem powCountOK_inv {r T : ℚ} {n : ℕ} (hr : 0 < r) (hT : 0 < T) (h : powCountOK 0 r T n = true) :
    powCountOK 0 (1 / r) (1 / T) n = true := by
  rw [powCountOK_iff] at h ⊢
  obtain ⟨hn, h⟩ := h
  refine ⟨hn, ?_⟩
  simp only [add_zero, sub_zero, mul_one, one_div_pow] at h ⊢
  have hp1 : 0 < r ^ (n - 1) := pow_pos hr _
  have hp2 : 0 < r ^ n := pow_pos hr _
  rcases h with ⟨h1, h2, h3⟩ | ⟨h1, h2, h3⟩
  · right
    refine ⟨?_, one_div_le_one_div_of_le hp1 h2, one_div_le_one_div_of_le hT h3⟩
    rw [div_lt_one hr]; exact h1
  · left
    refine ⟨?_, one_div_le_one_div_of_le hT h2, one_div_le_one_div_of_le hp2 h3⟩
    rw [lt_div_iff₀ hr]; simpa using h1

/-- `start_size<count+c2c` returns for every positive ratio -/
theorem startCountC2c_ok_of_pos {L r : ℚ} {n : ℕ} (hL : 0 < L) (hn : 1 ≤ n) (hr : 0 < r) :
    ∃ s, startCountC2c L n r = .ok s := by
  unfold startCountC2c
  simp only [guardLen_bind, guardCountGe1_bind, guardRatio_bind]
  rw [if_neg (not_le.mpr hL), if_neg (by omega), if_neg (ne_of_gt hr)]
  by_cases hb : absR (r - 1) > TOL
  · have hr1 : r ≠ 1 := by
      intro h1
      rw [h1] at hb
      simp [absR] at hb
      exact absurd hb (not_lt.mpr (le_of_lt TOL_pos))
    rw [if_pos hb, if_neg (sub_ne_zero.mpr (Ne.symm (pow_ne_one_of_pos hr hr1 hn)))]
    exact ⟨_, rfl⟩
  · rw [if_neg hb]
    exact ⟨_, rfl⟩

end CBV.C03
