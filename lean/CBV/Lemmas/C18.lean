/-
C18 — helper lemmas: finders as filters, the plane test, the order `alignLt`.
-/
import CBV.Model.C18
import Mathlib.Tactic.Ring
import Mathlib.Tactic.Linarith
import Mathlib.Tactic.FieldSimp
import Mathlib.Tactic.LinearCombination
import Mathlib.Algebra.Order.Field.Rat

namespace CBV.C18

open CBV

theorem mem_findIdx (p : V3 → Bool) (vs : List V3) (i : Nat) :
    i ∈ findIdx p vs ↔ i < vs.length ∧ p (vs.getD i V3.zero) = true := by
  simp [findIdx, List.mem_filter, List.mem_range]

theorem tol_pos : 0 < tol := by decide

theorem norm2_nonneg (a : V3) : 0 ≤ V3.norm2 a := by
  unfold V3.norm2 V3.dot
  nlinarith [mul_self_nonneg a.x, mul_self_nonneg a.y, mul_self_nonneg a.z]

theorem norm2_eq_zero {a : V3} (h : V3.norm2 a = 0) : a = V3.zero := by
  unfold V3.norm2 V3.dot at h
  have hx : a.x = 0 := by nlinarith [mul_self_nonneg a.x, mul_self_nonneg a.y, mul_self_nonneg a.z]
  have hy : a.y = 0 := by nlinarith [mul_self_nonneg a.x, mul_self_nonneg a.y, mul_self_nonneg a.z]
  have hz : a.z = 0 := by nlinarith [mul_self_nonneg a.x, mul_self_nonneg a.y, mul_self_nonneg a.z]
  exact V3.ext' hx hy hz

/-- Cauchy–Schwarz: `(a·b)² ≤ |a|² |b|²` (Lagrange identity). -/
theorem cauchy (a b : V3) : V3.dot a b * V3.dot a b ≤ V3.norm2 a * V3.norm2 b := by
  unfold V3.norm2 V3.dot
  nlinarith [mul_self_nonneg (a.x * b.y - a.y * b.x), mul_self_nonneg (a.y * b.z - a.z * b.y),
    mul_self_nonneg (a.z * b.x - a.x * b.z)]

theorem norm2_pos {n : V3} (h : n ≠ V3.zero) : 0 < V3.norm2 n := by
  rcases lt_or_eq_of_le (norm2_nonneg n) with h1 | h1
  · exact h1
  · exact absurd (norm2_eq_zero h1.symm) h

theorem dist2_comm (a b : V3) : dist2 a b = dist2 b a := by
  unfold dist2 V3.norm2 V3.dot; simp; ring

theorem dist2_self (a : V3) : dist2 a a = 0 := by
  unfold dist2 V3.norm2 V3.dot; simp

theorem near_refl (a : V3) : near a a := by
  unfold near; rw [dist2_self]; exact mul_pos tol_pos tol_pos

theorem near_comm {a b : V3} : near a b ↔ near b a := by
  unfold near; rw [dist2_comm]

/-- the coincident-origin shortcut of `point_to_plane_distance` never changes the answer -/
theorem plane_shortcut {o n v : V3} (hn : n ≠ V3.zero) (h : dist2 o v < tol * tol) :
    V3.dot (v - o) n * V3.dot (v - o) n < tol * tol * V3.norm2 n := by
  have hN := norm2_pos hn
  have hc := cauchy (v - o) n
  have hd : V3.norm2 (v - o) = dist2 o v := by rw [dist2_comm]; rfl
  rw [hd] at hc
  have : dist2 o v * V3.norm2 n < tol * tol * V3.norm2 n := mul_lt_mul_of_pos_right h hN
  linarith

/-- foot of the perpendicular from `v` to the plane through `o` with normal `n` -/
def foot (o n v : V3) : V3 := v - V3.smul (V3.dot (v - o) n / V3.norm2 n) n

theorem foot_aux1 (o n v : V3) (k : Rat) (hk : k * V3.norm2 n = V3.dot (v - o) n) :
    V3.dot (v - V3.smul k n - o) n = 0 := by
  unfold V3.norm2 V3.dot at *
  simp only [V3.sub_x, V3.sub_y, V3.sub_z, V3.smul_x, V3.smul_y, V3.smul_z] at *
  linear_combination (-1 : Rat) * hk

theorem foot_aux2 (o n v : V3) (k : Rat) (hk : k * V3.norm2 n = V3.dot (v - o) n) :
    dist2 v (v - V3.smul k n) * V3.norm2 n = V3.dot (v - o) n * V3.dot (v - o) n := by
  rw [← hk]
  unfold dist2 V3.norm2 V3.dot
  simp only [V3.sub_x, V3.sub_y, V3.sub_z, V3.smul_x, V3.smul_y, V3.smul_z]
  ring

theorem foot_on_plane {o n v : V3} (hn : n ≠ V3.zero) : V3.dot (foot o n v - o) n = 0 :=
  foot_aux1 o n v _ (div_mul_cancel₀ _ (ne_of_gt (norm2_pos hn)))

theorem foot_dist {o n v : V3} (hn : n ≠ V3.zero) :
    dist2 v (foot o n v) * V3.norm2 n = V3.dot (v - o) n * V3.dot (v - o) n :=
  foot_aux2 o n v _ (div_mul_cancel₀ _ (ne_of_gt (norm2_pos hn)))

end CBV.C18
