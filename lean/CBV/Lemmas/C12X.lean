/-
C12 — an exception inside `assemble()` (round 6c): without invalid edge data the exception-aware functions are the plain
ones; the state an interrupted assembly leaves behind; what a later `clear(); assemble()` makes of the leftovers.
-/
import CBV.Lemmas.C12d

namespace CBV.C12

/-- no edge slot of the operation holds data `factory.create` raises on -/
def NoInvalid (o : Op) : Prop := ∀ c1 c2, opEdge o c1 c2 ≠ .invalid

theorem mem_enumFrom {α : Type} (n : Nat) (xs : List α) (p : Nat × α) (h : p ∈ enumFrom n xs) : p.2 ∈ xs := by
  induction xs generalizing n with
  | nil => simp [enumFrom] at h
  | cons x rest ih =>
    simp only [enumFrom, List.mem_cons] at h
    rcases h with rfl | h
    · simp
    · exact List.mem_cons_of_mem _ (ih _ h)

/-- an operation none of whose twelve edge slots holds invalid data -/
theorem noInvalid_of_slots (o : Op) (h : EdgeData.invalid ∉ o.bottomEdges ++ o.topEdges ++ o.sideEdges) : NoInvalid o := by
  intro c1 c2 he
  unfold opEdge at he
  simp only at he
  split at he
  · rename_i s hf
    have hm := List.mem_of_find?_eq_some hf
    simp only [List.mem_append, List.mem_map] at hm
    apply h
    rw [← he]
    simp only [List.mem_append]
    rcases hm with (⟨q, hq, rfl⟩ | ⟨q, hq, rfl⟩) | ⟨q, hq, rfl⟩
    · exact Or.inl (Or.inl (mem_enumFrom 0 _ q hq))
    · exact Or.inl (Or.inr (mem_enumFrom 0 _ q hq))
    · exact Or.inr (mem_enumFrom 0 _ q hq)
  · cases he

theorem addEdges_eq_foldl (es : List Edge) (o : Op) (vi : List Nat) :
    addEdges es o vi = CBV.Gen.beamOrder.foldl
      (fun es c => eadd es (vi.getD c.1 0) (vi.getD c.2 0) (opEdge o c.1 c.2)) es := by
  unfold addEdges
  congr 1

theorem foldl_eaddX_ok (o : Op) (vi : List Nat) (h : NoInvalid o) (bs : List (Nat × Nat)) (es : List Edge) :
    bs.foldl (eaddX o vi) (es, false) =
      (bs.foldl (fun es c => eadd es (vi.getD c.1 0) (vi.getD c.2 0) (opEdge o c.1 c.2)) es, false) := by
  induction bs generalizing es with
  | nil => rfl
  | cons c rest ih =>
    simp only [List.foldl_cons]
    have : eaddX o vi (es, false) c = (eadd es (vi.getD c.1 0) (vi.getD c.2 0) (opEdge o c.1 c.2), false) := by
      simp [eaddX, h c.1 c.2]
    rw [this, ih]

theorem addEdgesX_ok (es : List Edge) (o : Op) (vi : List Nat) (h : NoInvalid o) :
    addEdgesX es o vi = (addEdges es o vi, false) := by
  unfold addEdgesX
  rw [foldl_eaddX_ok o vi h, addEdges_eq_foldl]

theorem addOpX_ok (sl : List String) (l : Lists) (o : Op) (h : NoInvalid o) : addOpX sl l o = (addOp sl l o, false) := by
  unfold addOpX
  simp only [addEdgesX_ok _ _ _ h]
  rfl

theorem assembleLoopX_ok (sl : List String) (del : List Nat) (ops : List Op) (l : Lists)
    (h : ∀ o ∈ ops, NoInvalid o) : assembleLoopX sl del ops l = (assembleLoop sl del ops l, false) := by
  induction ops generalizing l with
  | nil => rfl
  | cons o rest ih =>
    have ho := h o (by simp)
    have hr : ∀ o' ∈ rest, NoInvalid o' := fun o' ho' => h o' (by simp [ho'])
    unfold assembleLoopX assembleLoop
    by_cases hd : o.id ∈ del
    · simp only [hd, if_true]; exact ih l hr
    · simp only [hd, if_false, addOpX_ok sl l o ho]
      exact ih _ hr

theorem assembleX_ok (m : Mesh) (h : ∀ o ∈ m.depot, NoInvalid o) : assembleX m = (assemble m, false) := by
  unfold assembleX
  simp only [assembleLoopX_ok _ _ _ _ h]
  rw [assemble_flat]

/-- the state an interrupted loop leaves behind: everything the operations before the failing one contributed (`P`, reached
    without an exception), plus the vertices of the failing operation and the edges of its beams up to the failing one; no
    block, no `assembled` entry, no patch side and no face of the failing operation, and nothing of the operations after it -/
theorem assembleLoopX_raised (sl : List String) (del : List Nat) (ops : List Op) (l L : Lists)
    (h : assembleLoopX sl del ops l = (L, true)) :
    ∃ pre b post P, ops = pre ++ b :: post ∧ b.id ∉ del ∧ assembleLoopX sl del pre l = (P, false) ∧
      L = { P with verts := (addVerts sl b P.verts).1, edges := (addEdgesX P.edges b (addVerts sl b P.verts).2).1 } ∧
      (addEdgesX P.edges b (addVerts sl b P.verts).2).2 = true := by
  induction ops generalizing l with
  | nil => simp [assembleLoopX] at h
  | cons o rest ih =>
    unfold assembleLoopX at h
    by_cases hd : o.id ∈ del
    · simp only [hd, if_true] at h
      obtain ⟨pre, b, post, P, e, hb, hp, hL⟩ := ih l h
      refine ⟨o :: pre, b, post, P, by rw [e]; rfl, hb, ?_, hL⟩
      unfold assembleLoopX; simp only [hd, if_true]; exact hp
    · simp only [hd, if_false] at h
      by_cases hx : (addOpX sl l o).2 = true
      · simp only [hx, if_true] at h
        refine ⟨[], o, rest, l, rfl, hd, rfl, ?_⟩
        unfold addOpX at h hx
        by_cases he : (addEdgesX l.edges o (addVerts sl o l.verts).2).2 = true
        · simp only [he, if_true] at h
          exact ⟨(Prod.ext_iff.mp h).1.symm, he⟩
        · simp only [he] at hx
          simp at hx
      · have hx' : (addOpX sl l o).2 = false := by simpa using hx
        simp only [hx', Bool.false_eq_true, if_false] at h
        obtain ⟨pre, b, post, P, e, hb, hp, hL⟩ := ih _ h
        refine ⟨o :: pre, b, post, P, by rw [e]; rfl, hb, ?_, hL⟩
        unfold assembleLoopX; simp only [hd, if_false, hx', Bool.false_eq_true]; exact hp

/-- leftovers in the patch table: an interrupted assembly had added the items `X` to the table `P`; a later
    `clear(); assemble()` whose items start with `X` again builds the table it would have built without the interruption -/
theorem recover_patches (P : List Patch) (X S : List (String × List Nat)) :
    addItems (clearPatches (addItems P X)) (X ++ S) = addItems (clearPatches P) (X ++ S) := by
  rw [clearPatches_addItems, addItems_append, addItems_append]
  have h := addItems_with_fresh (clearPatches P) X
  rw [names_clearPatches] at h
  rw [h]

/-! ### backport keeps edge data, hence `NoInvalid` (round 6d) -/

theorem bpOne_only_corners (vs : List Vtx) (pairs : List (Block × Nat)) (o : Op) :
    ∃ cs, bpOne vs pairs o = { o with corners := cs } := by
  induction pairs generalizing o with
  | nil => exact ⟨o.corners, rfl⟩
  | cons p rest ih =>
    obtain ⟨b, id⟩ := p
    simp only [bpOne]
    have h2 : ∃ cs1, setCorners (b.verts.map (locOf vs)) id o = { o with corners := cs1 } := by
      unfold setCorners
      split
      · exact ⟨_, rfl⟩
      · exact ⟨o.corners, rfl⟩
    obtain ⟨cs1, h2⟩ := h2
    obtain ⟨cs, h3⟩ := ih { o with corners := cs1 }
    exact ⟨cs, by rw [h2, h3]⟩

theorem noInvalid_bpOne (vs : List Vtx) (pairs : List (Block × Nat)) (o : Op) (h : NoInvalid o) :
    NoInvalid (bpOne vs pairs o) := by
  obtain ⟨cs, e⟩ := bpOne_only_corners vs pairs o
  rw [e]
  intro c1 c2
  exact h c1 c2

theorem noInvalid_backportDepot (vs : List Vtx) (pairs : List (Block × Nat)) (depot : List Op)
    (h : ∀ o ∈ depot, NoInvalid o) : ∀ o ∈ backportDepot vs pairs depot, NoInvalid o := by
  rw [backportDepot_eq_map]
  intro o ho
  obtain ⟨a, ha, rfl⟩ := List.mem_map.mp ho
  exact noInvalid_bpOne vs pairs a (h a ha)

/-- without invalid edge data `backportX` is `backport` and never raises -/
theorem backportX_ok (m : Mesh) (h : ∀ o ∈ m.depot, NoInvalid o) :
    backportX m = (backport m).map (fun m' => (m', false)) := by
  unfold backportX backport
  by_cases ha : isAssembled m = true
  · simp only [ha, if_true, Option.map_some]
    congr 1
    apply assembleX_ok
    exact noInvalid_backportDepot _ _ _ h
  · simp [ha]

/-! ### along a whole history -/

/-- a call that brings no invalid edge data into the depot -/
def StepOk : Step → Prop
  | .add o => NoInvalid o
  | .addEntity ops => ∀ o ∈ ops, NoInvalid o
  | _ => True

theorem write_depot (m : Mesh) : (write m).1.depot = m.depot := by
  unfold write
  simp only
  split <;> split <;> (try split) <;> rfl

theorem stepX_eq_step (m : Mesh) (s : Step) (h : ∀ o ∈ m.depot, NoInvalid o) : stepX m s = step m s := by
  have ha := assembleX_ok m h
  cases s with
  | assemble => simp [stepX, step, ha]
  | backport =>
    simp only [stepX, step, backportX_ok m h]
    cases backport m <;> rfl
  | write =>
    simp only [stepX, step, writeX, write, ha]
    by_cases hs : isAssembled m = true
    · by_cases hd : (gradeBlocks m).lists.blocks.all Block.isDefined = true <;> simp [hs, hd, -List.all_eq_true]
    · by_cases hb : isAssembled (assemble m) = true
      · by_cases hd : (gradeBlocks (assemble m)).lists.blocks.all Block.isDefined = true <;>
          simp [hs, hb, hd, -List.all_eq_true]
      · simp [hs, hb]
  | _ => rfl

theorem noInvalid_step (m : Mesh) (s : Step) (h : ∀ o ∈ m.depot, NoInvalid o) (hs : StepOk s) :
    ∀ o ∈ (step m s).depot, NoInvalid o := by
  cases s with
  | add o =>
    intro o' ho'
    simp only [step, add, List.mem_append, List.mem_singleton] at ho'
    rcases ho' with ho' | rfl
    · exact h o' ho'
    · exact hs
  | readd id =>
    simp only [step]
    split
    · rename_i o hf
      intro o' ho'
      simp only [add, List.mem_append, List.mem_singleton] at ho'
      rcases ho' with ho' | rfl
      · exact h o' ho'
      · exact h _ (List.mem_of_find?_eq_some hf)
    · exact h
  | addEntity ops =>
    intro o' ho'
    simp only [step, addEntity, List.mem_append] at ho'
    rcases ho' with ho' | ho'
    · exact h o' ho'
    · exact hs o' ho'
  | backport =>
    simp only [step]
    unfold backport
    by_cases ha : isAssembled m = true
    · simp only [ha, if_true, Option.getD_some]
      exact noInvalid_backportDepot _ _ _ h
    · simp only [ha]
      exact h
  | write => show ∀ o ∈ (write m).1.depot, NoInvalid o; rw [write_depot]; exact h
  | move r loc =>
    simp only [step, moveVertex]
    split <;> exact h
  | moveOnto r1 r2 =>
    simp only [step, moveOnto, moveVertex]
    split <;> exact h
  | translate r d =>
    simp only [step, translateVertex, moveVertex]
    split <;> exact h
  | _ => exact h

/-- the histories the driver runs (`stepX`) are the histories the theorems are about (`step`) as long as no call brings
    invalid edge data -/
theorem runX_eq_run (m : Mesh) (hist : List Step) (h : ∀ o ∈ m.depot, NoInvalid o) (hs : ∀ s ∈ hist, StepOk s) :
    hist.foldl stepX m = run m hist := by
  induction hist generalizing m with
  | nil => rfl
  | cons s rest ih =>
    simp only [List.foldl_cons, run]
    rw [stepX_eq_step m s h]
    exact ih (step m s) (noInvalid_step m s h (hs s (by simp))) (fun s' hs' => hs s' (by simp [hs']))

/-! ### the patch table an interrupted loop leaves behind (round 6e) -/

theorem addOpX_fields (sl : List String) (l : Lists) (o : Op) :
    (addOpX sl l o).1.verts = (addVerts sl o l.verts).1 ∧
    ((addOpX sl l o).2 = false → (addOpX sl l o).1.patches = addItems l.patches (patchItems o (addVerts sl o l.verts).2)) := by
  unfold addOpX
  by_cases he : (addEdgesX l.edges o (addVerts sl o l.verts).2).2 = true
  · simp [he]
  · have he' : (addEdgesX l.edges o (addVerts sl o l.verts).2).2 = false := by simpa using he
    simp only [he', Bool.false_eq_true, if_false]
    exact ⟨rfl, fun _ => rfl⟩

/-- a loop that was not interrupted has added the items of its live operations to the patch table -/
theorem assembleLoopX_patches (sl : List String) (del : List Nat) (ops : List Op) (l P : Lists)
    (h : assembleLoopX sl del ops l = (P, false)) :
    P.patches = addItems l.patches (allItems sl (ops.filter (fun o => decide (o.id ∉ del))) l.verts) := by
  induction ops generalizing l with
  | nil =>
    simp only [assembleLoopX] at h
    have hl : l = P := (Prod.ext_iff.mp h).1
    subst hl
    simp [allItems, addItems]
  | cons o rest ih =>
    unfold assembleLoopX at h
    by_cases hd : o.id ∈ del
    · simp only [hd, if_true] at h
      simpa [List.filter, hd] using ih l h
    · simp only [hd, if_false] at h
      by_cases hx : (addOpX sl l o).2 = true
      · simp only [hx, if_true] at h
        have := (Prod.ext_iff.mp h).2
        simp only at this
        rw [hx] at this
        cases this
      · have hx' : (addOpX sl l o).2 = false := by simpa using hx
        simp only [hx', Bool.false_eq_true, if_false] at h
        have h1 := ih _ h
        obtain ⟨hv, hp⟩ := addOpX_fields sl l o
        rw [hv, hp hx'] at h1
        have hf : (o :: rest).filter (fun o => decide (o.id ∉ del)) = o :: rest.filter (fun o => decide (o.id ∉ del)) := by
          simp [List.filter, hd]
        rw [hf, h1]
        simp only [allItems]
        rw [addItems_append]

theorem allItems_append (sl : List String) (a b : List Op) (vs : List Vtx) :
    ∃ S, allItems sl (a ++ b) vs = allItems sl a vs ++ S := by
  induction a generalizing vs with
  | nil => exact ⟨allItems sl b vs, by simp [allItems]⟩
  | cons o rest ih =>
    obtain ⟨S, hS⟩ := ih (addVerts sl o vs).1
    exact ⟨S, by simp only [List.cons_append, allItems, hS, List.append_assoc]⟩

/-! ### leftovers matter through their names only (round 6g) -/

theorem newNames_congr (seen : List String) (X X' : List (String × List Nat)) (h : X.map (·.1) = X'.map (·.1)) :
    newNames seen X = newNames seen X' := by
  induction X generalizing X' seen with
  | nil =>
    cases X' with
    | nil => rfl
    | cons _ _ => simp at h
  | cons it rest ih =>
    cases X' with
    | nil => simp at h
    | cons it' rest' =>
      simp only [List.map_cons, List.cons.injEq] at h
      obtain ⟨h1, h2⟩ := h
      simp only [newNames, h1]
      split
      · exact ih _ _ h2
      · rw [ih _ _ h2]

/-- the names of the items do not depend on the vertex list the assembly starts from -/
theorem allItems_names (sl : List String) (ops : List Op) (vs vs' : List Vtx) :
    (allItems sl ops vs).map (·.1) = (allItems sl ops vs').map (·.1) := by
  induction ops generalizing vs vs' with
  | nil => rfl
  | cons o rest ih =>
    simp only [allItems, List.map_append]
    rw [ih (addVerts sl o vs).1 (addVerts sl o vs').1]
    congr 1
    simp [patchItems, List.map_map, Function.comp_def]

/-- `recover_patches` with the leftovers `X` of the interrupted assembly and the items `X'` of the new one agreeing on
    their names only (the sides may be different vertex indices) -/
theorem recover_patches_names (P : List Patch) (X X' S : List (String × List Nat)) (h : X.map (·.1) = X'.map (·.1)) :
    addItems (clearPatches (addItems P X)) (X' ++ S) = addItems (clearPatches P) (X' ++ S) := by
  rw [clearPatches_addItems, addItems_append, addItems_append, newNames_congr _ X X' h]
  have h2 := addItems_with_fresh (clearPatches P) X'
  rw [names_clearPatches] at h2
  rw [h2]

end CBV.C12
