/-
C09 — sequences that mix the four transformations (method chain or transformation list) with shear steps:
the heap model and the value-level composition agree step by step.
-/
import CBV.Lemmas.C09Seq
import CBV.Lemmas.C09Shear

namespace CBV.C09
open CBV

/-- one step of a mixed sequence: one of the four transformations (default origin resolved against the current centre),
    or a shear with its point map (`shearP n o d sn sd c`, or any other map applied leaf by leaf) -/
inductive AnyStep where
  | tr (t : Tr × Option V3)
  | shear (f : V3 → V3)

def stepHS (vm : Bool) (st : AnyStep) (s : Ent × Heap) : Option (Ent × Heap) :=
  match st with
  | .tr t => stepH vm t s
  | .shear f => some (shearE f s.1 s.2)

def stepOS (vm : Bool) (st : AnyStep) (v : VEnt) : Option VEnt :=
  match st with
  | .tr t => stepO vm t v
  | .shear f => some (shearV f v)

/-- the sequence on the entity in the heap -/
def runS (vm : Bool) (steps : List AnyStep) (s : Ent × Heap) : Option (Ent × Heap) :=
  steps.foldlM (fun s st => stepHS vm st s) s

/-- the sequence on the output geometry -/
def runSV (vm : Bool) (steps : List AnyStep) (v : VEnt) : Option VEnt :=
  steps.foldlM (fun v st => stepOS vm st v) v

theorem runS_resolve (vm : Bool) : ∀ (steps : List AnyStep) (e : Ent) (h : Heap),
    NoAliasL e → InHeapL e h →
    (runS vm steps (e, h)).map (fun s => resolveE s.2 s.1) = runSV vm steps (resolveE h e)
  | [], e, h, _, _ => by simp [runS, runSV]
  | .tr t :: steps, e, h, hna, hin => by
      simp only [runS, runSV, List.foldlM_cons, stepHS, stepOS]
      rcases step_spec vm t e h hna hin with ⟨h1, h2⟩ | ⟨e', h', h1, h2, hna', hin'⟩
      · rw [h1, h2]; rfl
      · rw [h1, h2]
        simp only [Option.bind_eq_bind, Option.bind_some]
        exact runS_resolve vm steps e' h' hna' hin'
  | .shear f :: steps, e, h, hna, hin => by
      simp only [runS, runSV, List.foldlM_cons, stepHS, stepOS, Option.bind_eq_bind, Option.bind_some]
      have hi := inv_shearE f e h hna hin
      rw [← resolve_shearE f e h hna hin]
      exact runS_resolve vm steps (shearE f e h).1 (shearE f e h).2 hi.1 hi.2

end CBV.C09
