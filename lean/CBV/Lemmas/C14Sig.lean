/-
C14 — the whole signature under a rigid motion and a uniform scaling (any side / edge tables whose
entries stay inside the point list), list maxima under scaling.
-/
import CBV.Lemmas.C14Side

namespace CBV.C14
open CBV

/-- the side table lists four corners per side, the edge table pairs of corners, all inside the cell -/
def TablesOk (sides : List (List Nat)) (pairs : List (Nat × Nat)) (sideLen n : Nat) : Prop :=
  (∀ s ∈ sides, s.length = sideLen ∧ ∀ i ∈ s, i < n) ∧ (∀ e ∈ pairs, e.1 < n ∧ e.2 < n)

theorem getD_mem_of_lt {α : Type} (l : List α) (d : α) (i : Nat) (h : i < l.length) : l.getD i d ∈ l := by
  simp [List.getD_eq_getElem?_getD, h]

theorem edgeLens_rigid (w : Rat) (a t : V3) (hN : w * w + V3.dot a a ≠ 0) (pairs : List (Nat × Nat))
    (pts : List V3) (hp : ∀ e ∈ pairs, e.1 < pts.length ∧ e.2 < pts.length) :
    edgeLens pairs (pts.map (rigid w a t)) = edgeLens pairs pts := by
  unfold edgeLens
  apply List.map_congr_left
  intro e he
  rw [pt_map_of_lt _ _ _ (hp e he).1, pt_map_of_lt _ _ _ (hp e he).2, rigid_sub, norm2_rot _ _ _ hN]

theorem sigHexWith_rigid (sides : List (List Nat)) (pairs : List (Nat × Nat)) (pts : List V3)
    (nb : Nat → Option V3) (w : Rat) (a t : V3) (hN : w * w + V3.dot a a ≠ 0)
    (hT : TablesOk sides pairs 4 pts.length) (hne : pts ≠ []) :
    sigHexWith sides pairs (pts.map (rigid w a t)) (fun i => (nb i).map (rigid w a t)) =
      sigHexWith sides pairs pts nb := by
  unfold sigHexWith
  have hside : ∀ i ∈ List.range sides.length,
      hexSide ((sides.getD i []).map (pt (pts.map (rigid w a t)))) (avg (pts.map (rigid w a t)))
        ((nb i).map (rigid w a t)) = hexSide ((sides.getD i []).map (pt pts)) (avg pts) (nb i) := by
    intro i hi
    have hm := getD_mem_of_lt sides [] i (List.mem_range.mp hi)
    rw [map_pt_map _ _ _ (hT.1 _ hm).2, avg_map_rigid _ _ _ _ hne]
    exact hexSide_rigid w a t hN _ (by rw [List.length_map]; exact (hT.1 _ hm).1) _ _
  simp only [List.map_congr_left hside, edgeLens_rigid w a t hN pairs pts hT.2]

theorem sigQuadWith_rigid (sides : List (List Nat)) (pairs : List (Nat × Nat)) (pts : List V3)
    (nb : Nat → Option V3) (w : Rat) (a t : V3) (hN : w * w + V3.dot a a ≠ 0)
    (hT : TablesOk sides pairs 2 4) (hlen : pts.length = 4) (hs : sides.length ≤ 4) :
    sigQuadWith sides pairs (pts.map (rigid w a t)) (fun i => (nb i).map (rigid w a t)) =
      sigQuadWith sides pairs pts nb := by
  unfold sigQuadWith
  have hne : pts ≠ [] := by intro h; rw [h] at hlen; simp at hlen
  have hside : ∀ i ∈ List.range sides.length,
      quadSide (pts.map (rigid w a t)) i (sides.getD i []) (avg (pts.map (rigid w a t)))
        ((nb i).map (rigid w a t)) = quadSide pts i (sides.getD i []) (avg pts) (nb i) := by
    intro i hi
    have hi' := List.mem_range.mp hi
    have hm := getD_mem_of_lt sides [] i hi'
    rw [avg_map_rigid _ _ _ _ hne]
    exact quadSide_rigid w a t hN pts hlen i (by omega) _ (hT.1 _ hm).1 (hT.1 _ hm).2 _ _
  have hp : ∀ e ∈ pairs, e.1 < pts.length ∧ e.2 < pts.length := by rw [hlen]; exact hT.2
  simp only [List.map_congr_left hside, edgeLens_rigid w a t hN pairs pts hp]

/-! ### scaling -/

theorem edgeLens_smul (k : Rat) (pairs : List (Nat × Nat)) (pts : List V3) :
    edgeLens pairs (pts.map (V3.smul k)) = (edgeLens pairs pts).map (fun x => (k * k) * x) := by
  unfold edgeLens
  rw [List.map_map]
  apply List.map_congr_left
  intro e _
  simp only [Function.comp, pt_map_smul, smul_sub]
  simp only [V3.norm2, V3.dot, V3.smul]; ring

theorem foldl_max_mul (c : Rat) (hc : 0 ≤ c) (xs : List Rat) (i : Rat) :
    (xs.map (fun x => c * x)).foldl max (c * i) = c * xs.foldl max i := by
  induction xs generalizing i with
  | nil => rfl
  | cons x xs ih => simp only [List.map_cons, List.foldl_cons]; rw [← mul_max_of_nonneg _ _ hc, ih]

theorem foldl_min_mul (c : Rat) (hc : 0 ≤ c) (xs : List Rat) (i : Rat) :
    (xs.map (fun x => c * x)).foldl min (c * i) = c * xs.foldl min i := by
  induction xs generalizing i with
  | nil => rfl
  | cons x xs ih => simp only [List.map_cons, List.foldl_cons]; rw [← mul_min_of_nonneg _ _ hc, ih]

theorem maxL_mul (c : Rat) (hc : 0 ≤ c) (l : List Rat) : maxL (l.map (fun x => c * x)) = c * maxL l := by
  cases l with
  | nil => simp [maxL]
  | cons x xs => simp only [List.map_cons, maxL]; exact foldl_max_mul c hc xs x

theorem minL_mul (c : Rat) (hc : 0 ≤ c) (l : List Rat) : minL (l.map (fun x => c * x)) = c * minL l := by
  cases l with
  | nil => simp [minL]
  | cons x xs => simp only [List.map_cons, minL]; exact foldl_min_mul c hc xs x

theorem aspect_smul (c : Rat) (hc : 0 < c) (l : List Rat) :
    maxL (l.map (fun x => c * x)) / minL (l.map (fun x => c * x)) = maxL l / minL l := by
  rw [maxL_mul c (le_of_lt hc), minL_mul c (le_of_lt hc)]
  exact mul_div_mul_left _ _ (ne_of_gt hc)

theorem sigHexWith_smul (sides : List (List Nat)) (pairs : List (Nat × Nat)) (pts : List V3)
    (nb : Nat → Option V3) (k : Rat) (hk : 0 < k) (hs : ∀ s ∈ sides, s.length = 4) :
    (sigHexWith sides pairs (pts.map (V3.smul k)) (fun i => (nb i).map (V3.smul k))).norm =
      (sigHexWith sides pairs pts nb).norm := by
  unfold sigHexWith Sig.norm
  simp only [List.map_flatMap, List.flatMap_map]
  have hside : ∀ i ∈ List.range sides.length,
      let a := hexSide ((sides.getD i []).map (pt (pts.map (V3.smul k)))) (avg (pts.map (V3.smul k)))
        ((nb i).map (V3.smul k))
      let b := hexSide ((sides.getD i []).map (pt pts)) (avg pts) (nb i)
      a.1.map Tri.norm = b.1.map Tri.norm ∧ a.2.map Tri.norm = b.2.map Tri.norm := by
    intro i hi
    have hm := getD_mem_of_lt sides [] i (List.mem_range.mp hi)
    rw [map_pt_map_smul, avg_map_smul]
    exact hexSide_smul k hk _ (by rw [List.length_map]; exact hs _ hm) _ _
  rw [List.flatMap_congr (fun i hi => (hside i hi).1), List.flatMap_congr (fun i hi => (hside i hi).2),
    edgeLens_smul, aspect_smul _ (mul_pos hk hk)]

theorem sigQuadWith_smul (sides : List (List Nat)) (pairs : List (Nat × Nat)) (pts : List V3)
    (nb : Nat → Option V3) (k : Rat) (hk : 0 < k) (hs : ∀ s ∈ sides, s.length = 2) :
    (sigQuadWith sides pairs (pts.map (V3.smul k)) (fun i => (nb i).map (V3.smul k))).norm =
      (sigQuadWith sides pairs pts nb).norm := by
  unfold sigQuadWith Sig.norm
  simp only [List.map_map]
  have hside : ∀ i ∈ List.range sides.length,
      let a := quadSide (pts.map (V3.smul k)) i (sides.getD i []) (avg (pts.map (V3.smul k)))
        ((nb i).map (V3.smul k))
      let b := quadSide pts i (sides.getD i []) (avg pts) (nb i)
      a.1.norm = b.1.norm ∧ a.2.norm = b.2.norm := by
    intro i hi
    have hm := getD_mem_of_lt sides [] i (List.mem_range.mp hi)
    rw [avg_map_smul]
    exact quadSide_smul k hk pts i _ (hs _ hm) _ _
  rw [edgeLens_smul, aspect_smul _ (mul_pos hk hk)]
  congr 1
  · apply List.map_congr_left
    intro i hi; simpa [Function.comp] using (hside i hi).1
  · apply List.map_congr_left
    intro i hi; simpa [Function.comp] using (hside i hi).2

end CBV.C14
