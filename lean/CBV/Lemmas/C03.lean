/-
C03 — helper lemmas about the geometric sum on core `Rat` (single Mathlib modules only).
-/
import CBV.Model.C03
import Mathlib.Tactic.Ring
import Mathlib.Tactic.Linarith
import Mathlib.Tactic.FieldSimp
import Mathlib.Tactic.Positivity
import Mathlib.Algebra.Order.Field.Rat
import Mathlib.Algebra.Order.Field.Basic

namespace CBV.C03

theorem geomSum_closed (r : ℚ) (n : ℕ) : geomSum r n * (1 - r) = 1 - r ^ n := by
  induction n with
  | zero => simp [geomSum]
  | succ n ih => simp only [geomSum]; rw [add_mul, ih]; ring

theorem geomSum_one (n : ℕ) : geomSum 1 n = n := by
  induction n with
  | zero => simp [geomSum]
  | succ n ih => simp only [geomSum, ih]; push_cast; ring

theorem gsum_eq_geomSum (r : ℚ) (n : ℕ) : gsum r n = geomSum r n := by
  unfold gsum
  split
  · next h => subst h; rw [geomSum_one]
  · next h =>
    have h1 : (1 - r) ≠ 0 := sub_ne_zero.mpr (Ne.symm h)
    rw [← geomSum_closed]; field_simp

theorem geomSum_nonneg {r : ℚ} (hr : 0 ≤ r) (n : ℕ) : 0 ≤ geomSum r n := by
  induction n with
  | zero => simp [geomSum]
  | succ n ih => simp only [geomSum]; have := pow_nonneg hr n; linarith

theorem geomSum_pos {r : ℚ} (hr : 0 ≤ r) {n : ℕ} (hn : 0 < n) : 0 < geomSum r n := by
  obtain ⟨m, rfl⟩ : ∃ m, n = m + 1 := ⟨n - 1, by omega⟩
  clear hn
  induction m with
  | zero => simp [geomSum]
  | succ m ih => simp only [geomSum] at ih ⊢; have := pow_nonneg hr (m + 1); linarith

theorem geomSum_lt_succ {r : ℚ} (hr : 0 < r) (n : ℕ) : geomSum r n < geomSum r (n + 1) := by
  simp only [geomSum]; have := pow_pos hr n; linarith

theorem geomSum_le_of_le {r : ℚ} (hr : 0 < r) {m n : ℕ} (h : m ≤ n) : geomSum r m ≤ geomSum r n := by
  induction h with
  | refl => exact le_refl _
  | step _ ih => exact le_trans ih (le_of_lt (geomSum_lt_succ hr _))

theorem geomSum_lt_of_lt {r : ℚ} (hr : 0 < r) {m n : ℕ} (h : m < n) : geomSum r m < geomSum r n :=
  lt_of_lt_of_le (geomSum_lt_succ hr m) (geomSum_le_of_le hr h)

theorem geomSum_mono_ratio {r r' : ℚ} (h0 : 0 ≤ r) (h : r ≤ r') (n : ℕ) : geomSum r n ≤ geomSum r' n := by
  induction n with
  | zero => simp [geomSum]
  | succ n ih => simp only [geomSum]; have := pow_le_pow_left₀ h0 h n; linarith

/-- reading the progression from its last cell: ratio `1/r`, scaled by `r^(n-1)` -/
theorem geomSum_inv {r : ℚ} (hr : r ≠ 0) (n : ℕ) : geomSum r⁻¹ n * r ^ (n - 1) = geomSum r n := by
  induction n with
  | zero => simp [geomSum]
  | succ n ih =>
    cases n with
    | zero => simp [geomSum]
    | succ m =>
      simp only [Nat.add_sub_cancel] at ih ⊢
      rw [geomSum, add_mul, pow_succ, ← mul_assoc, ih]
      rw [show geomSum r (m + 1 + 1) = geomSum r (m + 1) + r ^ (m + 1) from rfl]
      have : r⁻¹ ^ (m + 1) * (r ^ m * r) = 1 := by
        rw [← pow_succ, ← mul_pow, inv_mul_cancel₀ hr, one_pow]
      rw [this]
      -- geomSum r (m+1) * r + 1 = geomSum r (m+1) + r^(m+1)
      have hc := geomSum_closed r (m + 1)
      linarith

/-! ### constants -/

theorem TOL_pos : (0 : ℚ) < TOL := by decide +kernel
theorem TOL_lt_one : TOL < 1 := by decide +kernel

theorem absR_eq_abs (x : ℚ) : absR x = |x| := by
  unfold absR; split
  · next h => rw [abs_of_neg h]
  · next h => rw [abs_of_nonneg (not_lt.mp h)]

theorem absR_nonneg (x : ℚ) : 0 ≤ absR x := by rw [absR_eq_abs]; exact abs_nonneg x

/-! ### the guards as nested `if`s -/

@[simp] theorem guardLen_bind {L : ℚ} {α} (f : Unit → Except Err α) :
    (guardLen L >>= f) = if L ≤ 0 then .error .value else f () := by
  unfold guardLen; split <;> rfl
@[simp] theorem guardCountGe1_bind {n : ℕ} {α} (f : Unit → Except Err α) :
    (guardCountGe1 n >>= f) = if n < 1 then .error .value else f () := by
  unfold guardCountGe1; split <;> rfl
@[simp] theorem guardSize_bind {L : ℚ} {α} (f : Unit → Except Err α) :
    (guardSize L >>= f) = if L ≤ 0 then .error .value else f () := by
  unfold guardSize; split <;> rfl
@[simp] theorem guardRatio_bind {L : ℚ} {α} (f : Unit → Except Err α) :
    (guardRatio L >>= f) = if L = 0 then .error .value else f () := by
  unfold guardRatio; split <;> rfl

/-! ### the validators as propositions -/

theorem countOK_iff {ε s ρ L : ℚ} {n : ℕ} :
    countOK ε s ρ L n = true ↔
      1 ≤ n ∧ s * geomSum ρ (n - 1) ≤ L * (1 + ε) ∧ L * (1 - ε) ≤ s * geomSum ρ n := by
  simp only [countOK, Bool.and_eq_true, decide_eq_true_eq, gsum_eq_geomSum, and_assoc]

theorem powCountOK_iff {ε r T : ℚ} {n : ℕ} :
    powCountOK ε r T n = true ↔
      1 ≤ n ∧ ((1 < r ∧ r ^ (n - 1) ≤ T * (1 + ε) ∧ T * (1 - ε) ≤ r ^ n) ∨
               (r < 1 ∧ T * (1 - ε) ≤ r ^ (n - 1) ∧ r ^ n ≤ T * (1 + ε))) := by
  simp only [powCountOK, Bool.and_eq_true, Bool.or_eq_true, decide_eq_true_eq, and_assoc]

theorem rootOK_iff {ε first c L : ℚ} {n : ℕ} :
    rootOK ε first c L n = true ↔ 0 < c ∧ |first * geomSum c n - L| ≤ ε * L := by
  simp only [rootOK, Bool.and_eq_true, decide_eq_true_eq, gsum_eq_geomSum, absR_eq_abs]

theorem powOK_iff {ε c T : ℚ} {m : ℕ} :
    powOK ε c T m = true ↔ 0 < c ∧ |c ^ m - T| ≤ ε * |T| := by
  simp only [powOK, Bool.and_eq_true, decide_eq_true_eq, absR_eq_abs]

theorem rootOK_zero {first c L : ℚ} {n : ℕ} (h : rootOK 0 first c L n = true) :
    0 < c ∧ first * geomSum c n = L := by
  rw [rootOK_iff] at h
  refine ⟨h.1, ?_⟩
  have := h.2
  rw [zero_mul] at this
  have h0 := abs_nonpos_iff.mp this
  linarith

theorem powOK_zero {c T : ℚ} {m : ℕ} (h : powOK 0 c T m = true) : 0 < c ∧ c ^ m = T := by
  rw [powOK_iff] at h
  refine ⟨h.1, ?_⟩
  have := h.2
  rw [zero_mul] at this
  have h0 := abs_nonpos_iff.mp this
  linarith

/-! ### what a successful call of each relation implies -/

theorem oracleCount_ok {o : Oracle} {ok : ℕ → Bool} {why : String} {n : ℕ}
    (h : oracleCount o ok why = .ok n) : o.count = some (n : ℤ) ∧ 1 ≤ n ∧ ok n = true := by
  unfold oracleCount at h
  split at h
  · contradiction
  · next m hm =>
    split_ifs at h with hc
    simp only [pure, Except.pure, Except.ok.injEq] at h
    subst h
    refine ⟨?_, by omega, hc.2⟩
    rw [hm]; congr 1; omega

theorem oracleC2c_ok {o : Oracle} {ok : ℚ → Bool} {why : String} {c : ℚ}
    (h : oracleC2c o ok why = .ok c) : o.c2c = some c ∧ ok c = true := by
  unfold oracleC2c at h
  split at h
  · contradiction
  · next m hm =>
    split_ifs at h with hc
    simp only [pure, Except.pure, Except.ok.injEq] at h
    subst h
    exact ⟨hm, hc⟩

theorem startCountC2c_ok {L r s : ℚ} {n : ℕ} (h : startCountC2c L n r = .ok s) :
    0 < L ∧ 1 ≤ n ∧ r ≠ 0 ∧
      ((TOL < absR (r - 1) ∧ 1 - r ^ n ≠ 0 ∧ s = L * (1 - r) / (1 - r ^ n)) ∨
       (absR (r - 1) ≤ TOL ∧ s = L / n)) := by
  unfold startCountC2c at h
  simp only [guardLen_bind, guardCountGe1_bind, guardRatio_bind] at h
  split_ifs at h with h1 h2 h3 h4 h5
  · simp only [pure, Except.pure, Except.ok.injEq] at h
    exact ⟨not_le.mp h1, by omega, h3, Or.inl ⟨h4, h5, h.symm⟩⟩
  · simp only [pure, Except.pure, Except.ok.injEq] at h
    exact ⟨not_le.mp h1, by omega, h3, Or.inr ⟨not_lt.mp h4, h.symm⟩⟩

theorem startEndTotal_ok {L e T s : ℚ} (h : startEndTotal L e T = .ok s) : 0 < L ∧ T ≠ 0 ∧ s = e / T := by
  unfold startEndTotal at h
  simp only [guardLen_bind, guardRatio_bind] at h
  split_ifs at h with h1 h2
  simp only [pure, Except.pure, Except.ok.injEq] at h
  exact ⟨not_le.mp h1, h2, h.symm⟩

theorem endStartTotal_ok {L s T e : ℚ} (h : endStartTotal L s T = .ok e) : 0 < L ∧ T ≠ 0 ∧ e = s * T := by
  unfold endStartTotal at h
  simp only [guardLen_bind, guardRatio_bind] at h
  split_ifs at h with h1 h2
  simp only [pure, Except.pure, Except.ok.injEq] at h
  exact ⟨not_le.mp h1, h2, h.symm⟩

theorem totalCountC2c_ok {L r T : ℚ} {n : ℕ} (h : totalCountC2c L n r = .ok T) :
    0 < L ∧ 1 ≤ n ∧ r ≠ 0 ∧ T = r ^ (n - 1) := by
  unfold totalCountC2c at h
  simp only [guardLen_bind, guardCountGe1_bind, guardRatio_bind] at h
  split_ifs at h with h1 h2 h3
  simp only [pure, Except.pure, Except.ok.injEq] at h
  exact ⟨not_le.mp h1, by omega, h3, h.symm⟩

theorem totalStartEnd_ok {L s e T : ℚ} (h : totalStartEnd L s e = .ok T) :
    0 < L ∧ 0 < s ∧ 0 < e ∧ T = e / s := by
  unfold totalStartEnd at h
  simp only [guardLen_bind, guardSize_bind] at h
  split_ifs at h with h1 h2 h3
  simp only [pure, Except.pure, Except.ok.injEq] at h
  exact ⟨not_le.mp h1, not_le.mp h2, not_le.mp h3, h.symm⟩

theorem countStartC2c_ok {t : Tol} {o : Oracle} {L s r : ℚ} {n : ℕ} (h : countStartC2c t o L s r = .ok n) :
    0 < L ∧ 0 < s ∧ r ≠ 0 ∧ o.count = some (n : ℤ) ∧ 1 ≤ n ∧
      ((TOL < absR (r - 1) ∧ 0 < r ∧ 0 < 1 - L / s * (1 - r) ∧ countOK t.cnt s r L n = true) ∨
       (absR (r - 1) ≤ TOL ∧ countOK t.cnt s 1 L n = true)) := by
  unfold countStartC2c at h
  simp only [guardLen_bind, guardSize_bind, guardRatio_bind] at h
  split_ifs at h with h1 h2 h3 h4 h5 h6 h7
  · obtain ⟨ho, hn, hok⟩ := oracleCount_ok h
    refine ⟨not_le.mp h1, not_le.mp h2, h3, ho, hn, Or.inl ⟨h4, ?_, ?_, hok⟩⟩
    · exact lt_of_le_of_ne (not_lt.mp h5) (Ne.symm h3)
    · exact lt_of_le_of_ne (not_lt.mp h6) (Ne.symm h7)
  · obtain ⟨ho, hn, hok⟩ := oracleCount_ok h
    exact ⟨not_le.mp h1, not_le.mp h2, h3, ho, hn, Or.inr ⟨not_lt.mp h4, hok⟩⟩

theorem countEndC2c_ok {t : Tol} {o : Oracle} {L e r : ℚ} {n : ℕ} (h : countEndC2c t o L e r = .ok n) :
    0 < L ∧ 0 < e ∧ r ≠ 0 ∧ o.count = some (n : ℤ) ∧ 1 ≤ n ∧
      ((TOL < absR (r - 1) ∧ 0 < r ∧ 0 < 1 + L / e * (1 - r) / r ∧ countOK t.cnt e (1 / r) L n = true) ∨
       (absR (r - 1) ≤ TOL ∧ countOK t.cnt e 1 L n = true)) := by
  unfold countEndC2c at h
  simp only [guardLen_bind, guardSize_bind, guardRatio_bind] at h
  split_ifs at h with h1 h2 h3 h4 h5 h6 h7
  · obtain ⟨ho, hn, hok⟩ := oracleCount_ok h
    refine ⟨not_le.mp h1, not_le.mp h2, h3, ho, hn, Or.inl ⟨h4, ?_, ?_, hok⟩⟩
    · exact lt_of_le_of_ne (not_lt.mp h5) (Ne.symm h3)
    · exact lt_of_le_of_ne (not_lt.mp h6) (Ne.symm h7)
  · obtain ⟨ho, hn, hok⟩ := oracleCount_ok h
    exact ⟨not_le.mp h1, not_le.mp h2, h3, ho, hn, Or.inr ⟨not_lt.mp h4, hok⟩⟩

theorem countTotalC2c_ok {t : Tol} {o : Oracle} {L T r : ℚ} {n : ℕ} (h : countTotalC2c t o L T r = .ok n) :
    0 < L ∧ 0 < T ∧ 0 < r ∧ TOL < absR (r - 1) ∧ 0 ≤ (T - 1) * (r - 1) ∧ o.count = some (n : ℤ) ∧ 1 ≤ n ∧
      powCountOK t.cnt r T n = true := by
  unfold countTotalC2c at h
  simp only [guardLen_bind, guardRatio_bind] at h
  split_ifs at h with h1 h2 h3 h4 h5 h6
  obtain ⟨ho, hn, hok⟩ := oracleCount_ok h
  have h5' := not_or.mp h5
  refine ⟨not_le.mp h1, ?_, ?_, not_le.mp h4, not_lt.mp h6, ho, hn, hok⟩
  · exact lt_of_le_of_ne (not_lt.mp h5'.2) (Ne.symm h2)
  · exact lt_of_le_of_ne (not_lt.mp h5'.1) (Ne.symm h3)

theorem countTotalStart_ok {t : Tol} {o : Oracle} {L T s : ℚ} {n : ℕ} (h : countTotalStart t o L T s = .ok n) :
    0 < L ∧ 0 < s ∧ T ≠ 0 ∧ o.count = some (n : ℤ) ∧ 1 ≤ n ∧
      ((absR (T - 1) < TOL ∧ countOK t.cnt (dMin T s) 1 L n = true) ∨
       (TOL ≤ absR (T - 1) ∧ 0 < T ∧ countTOK t L s T n o.w1 o.w2 = true)) := by
  unfold countTotalStart at h
  simp only [guardLen_bind, guardSize_bind, guardRatio_bind] at h
  split_ifs at h with h1 h2 h3 h4 h5
  · obtain ⟨ho, hn, hok⟩ := oracleCount_ok h
    exact ⟨not_le.mp h1, not_le.mp h2, h3, ho, hn, Or.inl ⟨h4, hok⟩⟩
  · obtain ⟨ho, hn, hok⟩ := oracleCount_ok h
    exact ⟨not_le.mp h1, not_le.mp h2, h3, ho, hn,
      Or.inr ⟨not_lt.mp h4, lt_of_le_of_ne (not_lt.mp h5) (Ne.symm h3), hok⟩⟩

theorem c2cCountStart_ok {t : Tol} {o : Oracle} {L s c : ℚ} {n : ℕ} (h : c2cCountStart t o L n s = .ok c) :
    0 < L ∧ 1 ≤ n ∧ 0 < s ∧ s < L ∧
      ((n = 1 ∧ c = 1) ∨ (2 ≤ n ∧ absR (n * s - L) / L < TOL ∧ c = 1) ∨
       (2 ≤ n ∧ TOL ≤ absR (n * s - L) / L ∧ o.c2c = some c ∧ rootOK t.root s c L n = true)) := by
  unfold c2cCountStart at h
  simp only [guardLen_bind, guardCountGe1_bind] at h
  split_ifs at h with h1 h2 h3 h4 h5
  · simp only [pure, Except.pure, Except.ok.injEq] at h
    have h3' := h3
    exact ⟨not_le.mp h1, by omega, h3'.2, h3'.1, Or.inl ⟨h4, h.symm⟩⟩
  · simp only [pure, Except.pure, Except.ok.injEq] at h
    have h3' := h3
    exact ⟨not_le.mp h1, by omega, h3'.2, h3'.1, Or.inr (Or.inl ⟨by omega, h5, h.symm⟩)⟩
  · obtain ⟨ho, hok⟩ := oracleC2c_ok h
    have h3' := h3
    exact ⟨not_le.mp h1, by omega, h3'.2, h3'.1, Or.inr (Or.inr ⟨by omega, not_lt.mp h5, ho, hok⟩)⟩

theorem c2cCountEnd_ok {t : Tol} {o : Oracle} {L e c : ℚ} {n : ℕ} (h : c2cCountEnd t o L n e = .ok c) :
    0 < L ∧ 1 ≤ n ∧ 0 < e ∧
      ((absR (n * e - L) / L < TOL ∧ c = 1) ∨
       (2 ≤ n ∧ TOL ≤ absR (n * e - L) / L ∧ o.c2c = some c ∧ rootOK t.root e (1 / c) L n = true)) := by
  unfold c2cCountEnd at h
  simp only [guardLen_bind, guardCountGe1_bind, guardSize_bind] at h
  split_ifs at h with h1 h2 h3 h4 h5
  · simp only [pure, Except.pure, Except.ok.injEq] at h
    exact ⟨not_le.mp h1, by omega, not_le.mp h3, Or.inl ⟨h4, h.symm⟩⟩
  · obtain ⟨ho, hok⟩ := oracleC2c_ok h
    exact ⟨not_le.mp h1, by omega, not_le.mp h3, Or.inr ⟨by omega, not_lt.mp h4, ho, hok⟩⟩

theorem c2cCountTotal_ok {t : Tol} {o : Oracle} {L T c : ℚ} {n : ℕ} (h : c2cCountTotal t o L n T = .ok c) :
    0 < L ∧ 2 ≤ n ∧ 0 < T ∧ o.c2c = some c ∧ powOK t.root c T (n - 1) = true := by
  unfold c2cCountTotal at h
  simp only [guardLen_bind, guardRatio_bind] at h
  split_ifs at h with h1 h2 h3 h4
  obtain ⟨ho, hok⟩ := oracleC2c_ok h
  exact ⟨not_le.mp h1, by omega, lt_of_le_of_ne (not_lt.mp h4) (Ne.symm h3), ho, hok⟩

end CBV.C03
