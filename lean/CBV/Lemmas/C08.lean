/-
C08 — helper lemmas: vector algebra over an arbitrary linearly ordered field, square-root witnesses.
-/
import CBV.Model.C08
import Mathlib.Tactic.Ring
import Mathlib.Tactic.FieldSimp
import Mathlib.Tactic.LinearCombination
import Mathlib.Tactic.Linarith
import Mathlib.Algebra.Order.Field.Basic

namespace CBV.C08
open Vec

variable {K : Type} [Field K] [LinearOrder K] [IsStrictOrderedRing K]
set_option linter.unusedSectionVars false

theorem Vec.ext' {a b : Vec K} (hx : a.x = b.x) (hy : a.y = b.y) (hz : a.z = b.z) : a = b := by
  cases a; cases b; simp_all

/-- two non-negative numbers with the same square are equal (uniqueness of a square-root witness) -/
theorem sq_wit_unique {u v : K} (hu : 0 ≤ u) (hv : 0 ≤ v) (h : u * u = v * v) : u = v := by
  rcases eq_or_lt_of_le hu with h0 | hpos
  · have : v * v = 0 := by rw [← h, ← h0]; ring
    have hv0 : v = 0 := by simpa using this
    rw [← h0, hv0]
  · have hsum : 0 < u + v := by linarith
    have : (u - v) * (u + v) = 0 := by ring_nf; linear_combination h
    rcases mul_eq_zero.mp this with h1 | h1
    · linarith
    · linarith

/-- Lagrange: `|u|²|v|² − (u·v)² = |u×v|² ≥ 0` (Cauchy–Schwarz in three dimensions) -/
theorem cauchy_schwarz (u v : Vec K) : dot u v * dot u v ≤ nsq u * nsq v := by
  have h : nsq u * nsq v - dot u v * dot u v = nsq (cross u v) := by
    simp only [nsq, dot, cross]; ring
  have h2 : 0 ≤ nsq (cross u v) := by
    simp only [nsq, dot]
    have := mul_self_nonneg (cross u v).x
    have := mul_self_nonneg (cross u v).y
    have := mul_self_nonneg (cross u v).z
    linarith
  linarith

/-! ### specifications used by the property theorems -/

/-- `M` is the middle of the circular arc about `C` from `p1` to `p2`, in the plane through `C` with normal `n`,
    on the side of the chord that `g` points to: on the circle, equidistant from both ends, in the plane, on the side. -/
def OnArcMid (p1 p2 C n g M : Vec K) : Prop :=
  nsq (sub M C) = nsq (sub p1 C) ∧ nsq (sub M p1) = nsq (sub M p2) ∧ dot (sub M C) n = 0 ∧ 0 < dot (sub M C) g

/-- rotation of `u` (orthogonal to the unit axis `a`) about `a` by the angle whose cosine / sine are `co`, `si` (Rodrigues) -/
def rotPerp (a u : Vec K) (co si : K) : Vec K := add (smul co u) (smul si (cross a u))

/-- the third point lies strictly inside the (minor) sector from `r1` to `r3`: the arc through it is the minor arc -/
def GeomInterior (r1 r2 r3 : Vec K) : Prop :=
  0 < dot (cross r1 r2) (cross r1 r3) ∧ 0 < dot (cross r2 r3) (cross r1 r3)

/-- `ds` are witnesses of the segment lengths of the polyline `pts` -/
def SegWit : List (Vec K) → List K → Prop
  | p :: q :: rest, d :: ds => 0 ≤ d ∧ d * d = nsq (sub p q) ∧ SegWit (q :: rest) ds
  | [_], [] => True
  | _, _ => False

/-! ### lemmas -/

/-- a vector orthogonal to `d` and `n` is a multiple of `d × n` -/
theorem perp_parallel (w d n : Vec K) (hn : dot w n = 0) (hd : dot w d = 0) :
    smul (nsq (cross d n)) w = smul (dot w (cross d n)) (cross d n) := by
  have key : sub (smul (nsq (cross d n)) w) (smul (dot w (cross d n)) (cross d n))
      = sub (smul (dot w n) (cross (cross d n) d)) (smul (dot w d) (cross (cross d n) n)) := by
    apply Vec.ext' <;> simp only [smul, nsq, dot, cross, sub] <;> ring
  rw [hn, hd] at key
  have kx := congrArg Vec.x key
  have ky := congrArg Vec.y key
  have kz := congrArg Vec.z key
  simp only [sub, smul] at kx ky kz
  apply Vec.ext'
  · simp only [smul]; linear_combination kx
  · simp only [smul]; linear_combination ky
  · simp only [smul]; linear_combination kz

theorem perp_dot_sq (w d n : Vec K) (hn : dot w n = 0) (hd : dot w d = 0) :
    dot w (cross d n) * dot w (cross d n) = nsq w * nsq (cross d n) := by
  have key : nsq w * nsq (cross d n) - dot w (cross d n) * dot w (cross d n)
      = nsq d * (dot w n * dot w n) - 2 * dot d n * (dot w n * dot w d) + nsq n * (dot w d * dot w d) := by
    simp only [nsq, dot, cross]; ring
  rw [hn, hd] at key
  linear_combination -key

/-- under the hypotheses of the property (unit axis, chord orthogonal to it) both witnesses of
    `arc_from_theta` are the length of the chord -/
theorem theta_wits (p1 p2 a : Vec K) (wrm wc : K) (ha : nsq a = 1) (hl : dot (sub p2 p1) a = 0)
    (hrm0 : 0 < wrm) (hrm : wrm * wrm = nsq (cross (sub p2 p1) a))
    (hc0 : 0 ≤ wc) (hc : wc * wc = nsq (thetaChord p1 p2 a)) :
    wc = wrm ∧ wrm * wrm = nsq (sub p2 p1) := by
  have h1 : nsq (cross (sub p2 p1) a) = nsq (sub p2 p1) * nsq a - dot (sub p2 p1) a * dot (sub p2 p1) a := by
    simp only [nsq, dot, cross]; ring
  have h2 : nsq (thetaChord p1 p2 a) = nsq (sub p2 p1) - 2 * (dot (sub p2 p1) a * dot (sub p2 p1) a)
      + dot (sub p2 p1) a * dot (sub p2 p1) a * nsq a := by
    simp only [thetaChord, nsq, dot, sub, smul]; ring
  rw [ha, hl] at h1 h2
  have h3 : wrm * wrm = nsq (sub p2 p1) := by rw [hrm, h1]; ring
  refine ⟨sq_wit_unique hc0 (le_of_lt hrm0) ?_, h3⟩
  rw [hc, h2, h3]; ring

/-- the centre of `arc_from_theta` in closed form: `pm − (c / 2s) · (dp × a)` -/
theorem theta_centre_closed (p1 p2 a : Vec K) (c s wrm wc : K) (ha : nsq a = 1)
    (hl : dot (sub p2 p1) a = 0) (hs : s ≠ 0)
    (hrm0 : 0 < wrm) (hrm : wrm * wrm = nsq (cross (sub p2 p1) a))
    (hc0 : 0 ≤ wc) (hc : wc * wc = nsq (thetaChord p1 p2 a)) :
    thetaCentre p1 p2 a c s wrm wc = sub (midPoint p1 p2) (smul (c / (2 * s)) (cross (sub p2 p1) a)) := by
  obtain ⟨hw, _⟩ := theta_wits p1 p2 a wrm wc ha hl hrm0 hrm hc0 hc
  have hne : wrm ≠ 0 := ne_of_gt hrm0
  subst hw
  unfold thetaCentre
  simp only [hl]
  apply Vec.ext' <;> simp only [sub, smul, unitVec, midPoint, cross] <;> field_simp <;> ring

theorem rot_centre (p1 p2 a : Vec K) (c s q : K) (ha : nsq a = 1) (hl : dot (sub p2 p1) a = 0)
    (hcs : c * c + s * s = 1) (hq : 2 * s * q = c) :
    let C := sub (midPoint p1 p2) (smul q (cross (sub p2 p1) a))
    sub p2 C = rotPerp a (sub p1 C) (c * c - s * s) (2 * s * c) := by
  intro C
  simp only [nsq, dot, sub] at ha hl
  apply Vec.ext' <;> simp only [C, rotPerp, add, sub, smul, midPoint, cross]
  · linear_combination (-(c * c) * (p2.x - p1.x)) * ha + (-(p2.x - p1.x) / 2 - q * ((p2.y - p1.y) * a.z - (p2.z - p1.z) * a.y)) * hcs + (-c * (a.x * a.x + a.y * a.y + a.z * a.z) * (p2.x - p1.x) + s * ((p2.y - p1.y) * a.z - (p2.z - p1.z) * a.y) + c * ((p2.x - p1.x) * a.x + (p2.y - p1.y) * a.y + (p2.z - p1.z) * a.z) * a.x) * hq + (c * c * a.x) * hl
  · linear_combination (-(c * c) * (p2.y - p1.y)) * ha + (-(p2.y - p1.y) / 2 - q * ((p2.z - p1.z) * a.x - (p2.x - p1.x) * a.z)) * hcs + (-c * (a.x * a.x + a.y * a.y + a.z * a.z) * (p2.y - p1.y) + s * ((p2.z - p1.z) * a.x - (p2.x - p1.x) * a.z) + c * ((p2.x - p1.x) * a.x + (p2.y - p1.y) * a.y + (p2.z - p1.z) * a.z) * a.y) * hq + (c * c * a.y) * hl
  · linear_combination (-(c * c) * (p2.z - p1.z)) * ha + (-(p2.z - p1.z) / 2 - q * ((p2.x - p1.x) * a.y - (p2.y - p1.y) * a.x)) * hcs + (-c * (a.x * a.x + a.y * a.y + a.z * a.z) * (p2.z - p1.z) + s * ((p2.x - p1.x) * a.y - (p2.y - p1.y) * a.x) + c * ((p2.x - p1.x) * a.x + (p2.y - p1.y) * a.y + (p2.z - p1.z) * a.z) * a.z) * hq + (c * c * a.z) * hl

theorem rot_mid (p1 p2 a : Vec K) (c s q r : K) (ha : nsq a = 1) (hl : dot (sub p2 p1) a = 0)
    (hcs : c * c + s * s = 1) (hq : 2 * s * q = c) (hr : 2 * s * r = 1) :
    let C := sub (midPoint p1 p2) (smul q (cross (sub p2 p1) a))
    smul r (cross (sub p2 p1) a) = rotPerp a (sub p1 C) c s := by
  intro C
  simp only [nsq, dot, sub] at ha hl
  apply Vec.ext' <;> simp only [C, rotPerp, add, sub, smul, midPoint, cross]
  · linear_combination (((p2.y - p1.y) * a.z - (p2.z - p1.z) * a.y) * (c * q + s / 2)) * hr + (-c * r * ((p2.y - p1.y) * a.z - (p2.z - p1.z) * a.y) - (p2.x - p1.x) / 2) * hq + (-r * ((p2.y - p1.y) * a.z - (p2.z - p1.z) * a.y)) * hcs + (-s * q * (p2.x - p1.x)) * ha + (s * q * a.x) * hl
  · linear_combination (((p2.z - p1.z) * a.x - (p2.x - p1.x) * a.z) * (c * q + s / 2)) * hr + (-c * r * ((p2.z - p1.z) * a.x - (p2.x - p1.x) * a.z) - (p2.y - p1.y) / 2) * hq + (-r * ((p2.z - p1.z) * a.x - (p2.x - p1.x) * a.z)) * hcs + (-s * q * (p2.y - p1.y)) * ha + (s * q * a.y) * hl
  · linear_combination (((p2.x - p1.x) * a.y - (p2.y - p1.y) * a.x) * (c * q + s / 2)) * hr + (-c * r * ((p2.x - p1.x) * a.y - (p2.y - p1.y) * a.x) - (p2.z - p1.z) / 2) * hq + (-r * ((p2.x - p1.x) * a.y - (p2.y - p1.y) * a.x)) * hcs + (-s * q * (p2.z - p1.z)) * ha + (s * q * a.z) * hl

theorem sgn_pos {θ : K} (h : 0 < θ) : sgn θ = 1 := by simp [sgn, h]

theorem sgn_neg {θ : K} (h : θ < 0) : sgn θ = -1 := by
  have : ¬ (0 < θ) := not_lt.mpr (le_of_lt h)
  simp [sgn, h, this]

/-- the radius witness of `arc_from_theta` is `|chord| / (2 |sin θ/2|)` -/
theorem theta_radius (p1 p2 a : Vec K) (c s wrm wc wR : K) (ha : nsq a = 1)
    (hl : dot (sub p2 p1) a = 0) (hcs : c * c + s * s = 1) (hs : s ≠ 0)
    (hrm0 : 0 < wrm) (hrm : wrm * wrm = nsq (cross (sub p2 p1) a))
    (hc0 : 0 ≤ wc) (hc : wc * wc = nsq (thetaChord p1 p2 a))
    (hR : wR * wR = nsq (sub p1 (thetaCentre p1 p2 a c s wrm wc))) :
    (2 * s * wR) * (2 * s * wR) = wrm * wrm := by
  obtain ⟨_, hd2⟩ := theta_wits p1 p2 a wrm wc ha hl hrm0 hrm hc0 hc
  have hC := theta_centre_closed p1 p2 a c s wrm wc ha hl hs hrm0 hrm hc0 hc
  obtain ⟨q, hq0⟩ : ∃ q, q = c / (2 * s) := ⟨_, rfl⟩
  have hq : 2 * s * q = c := by rw [hq0]; field_simp
  rw [← hq0] at hC
  have hu : nsq (sub p1 (sub (midPoint p1 p2) (smul q (cross (sub p2 p1) a))))
      = nsq (sub p2 p1) / 4 + q * q * nsq (cross (sub p2 p1) a) := by
    simp only [nsq, dot, sub, smul, midPoint, cross]; ring
  have e1 : wR * wR = wrm * wrm / 4 + q * q * (wrm * wrm) := by
    rw [hR, hC, hu, ← hrm, ← hd2]
  linear_combination (4 * s * s) * e1 + (wrm * wrm) * hcs + (wrm * wrm * (2 * s * q + c)) * hq

/-- the written point of (the repaired) `arc_from_theta` in closed form: `C + (1 / 2s) · (dp × a)` -/
theorem theta_mid_closed (p1 p2 a : Vec K) (θ c s wrm wc wR : K) (ha : nsq a = 1)
    (hl : dot (sub p2 p1) a = 0) (hcs : c * c + s * s = 1)
    (hθ : (0 < θ ∧ 0 < s) ∨ (θ < 0 ∧ s < 0))
    (hrm0 : 0 < wrm) (hrm : wrm * wrm = nsq (cross (sub p2 p1) a))
    (hc0 : 0 ≤ wc) (hc : wc * wc = nsq (thetaChord p1 p2 a))
    (hR0 : 0 ≤ wR) (hR : wR * wR = nsq (sub p1 (thetaCentre p1 p2 a c s wrm wc))) :
    thetaMid p1 p2 a θ c s wrm wc wR
      = add (thetaCentre p1 p2 a c s wrm wc) (smul (1 / (2 * s)) (cross (sub p2 p1) a)) := by
  have hs : s ≠ 0 := by rcases hθ with h | h <;> [exact ne_of_gt h.2; exact ne_of_lt h.2]
  have h4 := theta_radius p1 p2 a c s wrm wc wR ha hl hcs hs hrm0 hrm hc0 hc hR
  have hne : wrm ≠ 0 := ne_of_gt hrm0
  unfold thetaMid
  simp only [hl]
  rcases hθ with ⟨hθ0, hs0⟩ | ⟨hθ0, hs0⟩
  · have hw : 2 * s * wR = wrm :=
      sq_wit_unique (mul_nonneg (mul_nonneg (by norm_num) (le_of_lt hs0)) hR0) (le_of_lt hrm0) h4
    have hwR : wR ≠ 0 := by rintro rfl; apply hne; rw [← hw]; ring
    rw [sgn_pos hθ0, ← hw]
    apply Vec.ext' <;> simp only [add, smul, unitVec] <;> field_simp <;> ring
  · have hw : -(2 * s * wR) = wrm := by
      refine sq_wit_unique ?_ (le_of_lt hrm0) (by linear_combination h4)
      have : 0 ≤ (-s) * wR := mul_nonneg (by linarith) hR0
      linarith
    have hwR : wR ≠ 0 := by rintro rfl; apply hne; rw [← hw]; ring
    rw [sgn_neg hθ0, ← hw]
    apply Vec.ext' <;> simp only [add, smul, unitVec] <;> field_simp <;> ring

theorem nsq_sub_shift (C p q : Vec K) :
    nsq (sub C q) = nsq (sub C p) - 2 * dot (sub C p) (sub q p) + nsq (sub q p) := by
  simp only [nsq, dot, sub]; ring

theorem tri_step (u v : Vec K) (d S : K) (hd : 0 ≤ d) (hS : 0 ≤ S) (hu : nsq u = d * d)
    (hv : nsq v ≤ S * S) : nsq (add u v) ≤ (d + S) * (d + S) := by
  have hexp : nsq (add u v) = nsq u + nsq v + 2 * dot u v := by
    simp only [nsq, dot, add]; ring
  have hcs := cauchy_schwarz u v
  have hv0 : 0 ≤ nsq v := by
    simp only [nsq, dot]
    have := mul_self_nonneg v.x
    have := mul_self_nonneg v.y
    have := mul_self_nonneg v.z
    linarith
  have hdS : dot u v ≤ d * S := by
    by_contra hcon
    rw [not_le] at hcon
    have h0 : 0 ≤ d * S := mul_nonneg hd hS
    have h1 : d * S * (d * S) < dot u v * dot u v := by nlinarith
    have h2 : nsq u * nsq v ≤ d * d * (S * S) := by
      rw [hu]; exact mul_le_mul_of_nonneg_left hv (mul_self_nonneg d)
    nlinarith
  rw [hexp, hu]; nlinarith

theorem polyLen_cons (d : K) (ds : List K) : polyLen (d :: ds) = d + polyLen ds := rfl

theorem chord_aux : ∀ (pts : List (Vec K)) (ds : List K) (last : Vec K), SegWit pts ds →
    pts.getLast? = some last → ∀ first, pts.head? = some first →
    0 ≤ polyLen ds ∧ nsq (sub first last) ≤ polyLen ds * polyLen ds
  | [], _, _, h, _, _, _ => by simp [SegWit] at h
  | [p], [], last, _, hl, first, hf => by
      simp at hl hf; subst hl; subst hf
      simp [polyLen, nsq, dot, sub]
  | [p], _ :: _, _, h, _, _, _ => by simp [SegWit] at h
  | p :: q :: rest, [], _, h, _, _, _ => by simp [SegWit] at h
  | p :: q :: rest, d :: ds, last, h, hl, first, hf => by
      obtain ⟨hd0, hd, hrest⟩ := h
      have hl' : (q :: rest).getLast? = some last := by
        simpa [List.getLast?_cons_cons] using hl
      obtain ⟨hS0, hS⟩ := chord_aux (q :: rest) ds last hrest hl' q rfl
      simp at hf; subst hf
      rw [polyLen_cons]
      refine ⟨by linarith, ?_⟩
      have : sub p last = add (sub p q) (sub q last) := by
        apply Vec.ext' <;> simp only [sub, add] <;> ring
      rw [this]
      exact tri_step _ _ d (polyLen ds) hd0 hS0 hd.symm hS

end CBV.C08
