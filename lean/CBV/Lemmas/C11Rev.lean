/-
C11 — revolved shapes: the block between a sketch quad and its copy turned about an axis in the sketch plane.
In the frame of the axis (`frame o k N`: origin on the axis, `k` the unit axis, `N` the unit normal of the sketch,
`N × k` the direction away from the axis) a sketch point is `(x, y, 0)` with `y` its height over the axis, and its
turned copy is `(x, cos·y, sin·y)`.
-/
import CBV.Lemmas.C11Oval

namespace CBV.C11
open P3

set_option linter.unusedSectionVars false
set_option linter.unusedSimpArgs false
set_option linter.unusedVariables false

variable {K : Type} [Field K] [LinearOrder K] [IsStrictOrderedRing K]

/-- plane coordinates of the turned copy -/
def revL (cs sn : K) (p : P3 K) : P3 K := ⟨p.x, cs * p.y, sn * p.y⟩

/-- turning a point of the sketch plane about the axis, in the frame of the axis -/
theorem rotAbout_axis_frame (cs sn : K) (o k N p : P3 K) (hk : nsq k = 1) (hNk : dot N k = 0) (hz : p.z = 0) :
    rotAbout cs sn k o (frame o k N p) = frame o k N (revL cs sn p) := by
  simp only [nsq, dot] at hk hNk
  apply P3.ext3 <;> simp only [rotAbout, frame, revL, add, smul, sub, cross, dot, hz]
  · linear_combination (p.x * k.x * (1 - cs) + sn * p.y * N.x) * hk
      - (sn * p.y * k.x) * hNk
  · linear_combination (p.x * k.y * (1 - cs) + sn * p.y * N.y) * hk
      - (sn * p.y * k.y) * hNk
  · linear_combination (p.x * k.z * (1 - cs) + sn * p.y * N.z) * hk
      - (sn * p.y * k.z) * hNk

/-- corner Jacobians of the block between a quad `a b d e` of the sketch plane (`z = 0` in the frame of the axis)
    and its turned copy: determinant × sine × height of the corner over the axis × plane cross product there -/
theorem jacs_revolved (o k N a b d e : P3 K) (cs sn : K)
    (ha : a.z = 0) (hb : b.z = 0) (hd : d.z = 0) (he : e.z = 0) :
    Hex.jacs ⟨frame o k N a, frame o k N b, frame o k N d, frame o k N e,
        frame o k N (revL cs sn a), frame o k N (revL cs sn b), frame o k N (revL cs sn d), frame o k N (revL cs sn e)⟩
      = [frameDet k N * (sn * a.y * cross2K a b e), frameDet k N * (sn * b.y * cross2K b d a),
         frameDet k N * (sn * d.y * cross2K d e b), frameDet k N * (sn * e.y * cross2K e a d),
         frameDet k N * (sn * a.y * cross2K a b e), frameDet k N * (sn * b.y * cross2K b d a),
         frameDet k N * (sn * d.y * cross2K d e b), frameDet k N * (sn * e.y * cross2K e a d)] := by
  simp only [Hex.jacs, List.cons.injEq, and_true]
  refine ⟨?_, ?_, ?_, ?_, ?_, ?_, ?_, ?_⟩ <;>
    (simp only [frame, revL, frameDet, P3.triple, dot, cross, cross2K, add, smul, sub, ha, hb, hd, he]
     ring)

/-- the four points of a quad lie on the positive side of the axis (`y` = height over the axis) -/
def aboveAxis (Q : P3 K × P3 K × P3 K × P3 K) : Prop := 0 < Q.1.y ∧ 0 < Q.2.1.y ∧ 0 < Q.2.2.1.y ∧ 0 < Q.2.2.2.y

/-- `RevolvedShape` of a position list given in the frame of the axis -/
theorem revolveOf_frame (quads : List (List Nat)) (L : List (P3 K)) (o k N : P3 K) (cs sn : K)
    (hk : nsq k = 1) (hNk : dot N k = 0) (hz : ∀ p ∈ L, p.z = 0) :
    revolveOf quads (L.map (frame o k N)) (frame o k N ⟨0, 0, 0⟩) cs sn k o
      = loftHexes quads (L.map (frame o k N)) ((L.map (revL cs sn)).map (frame o k N))
          (frame o k N ⟨0, 0, 0⟩) (frame o k N (revL cs sn ⟨0, 0, 0⟩)) := by
  unfold revolveOf
  rw [rotAbout_axis_frame cs sn o k N ⟨0, 0, 0⟩ hk hNk rfl]
  congr 1
  simp only [List.map_map]
  apply List.map_congr_left
  intro p hp
  simp only [Function.comp, rotAbout_axis_frame cs sn o k N p hk hNk (hz p hp)]

/-- a sketch in a half-plane through the axis (plane coordinates: `z = 0`, heights `y > 0`) with convex
    counter-clockwise quads, turned by an angle with positive sine: every block between the sketch and its turned
    copy has eight positive corner Jacobians -/
theorem revolve_RH (o k N : P3 K) (L : List (P3 K)) (cs sn : K) (quads : List (List Nat))
    (hk : nsq k = 1) (hN : nsq N = 1) (hNk : dot N k = 0) (hsn : 0 < sn) (hz : ∀ p ∈ L, p.z = 0)
    (hq : ∀ q ∈ quads, convexCCW (quadOf L q) ∧ aboveAxis (quadOf L q)) :
    ∀ H ∈ revolveOf quads (L.map (frame o k N)) (frame o k N ⟨0, 0, 0⟩) cs sn k o, H.RH := by
  have hdet : 0 < frameDet k N := frameDet_pos k N hN hNk (by rw [hk]; exact one_pos)
  rw [revolveOf_frame quads L o k N cs sn hk hNk hz]
  intro H hH
  obtain ⟨q, hqm, rfl⟩ := List.mem_map.mp hH
  obtain ⟨⟨h1, h2, h3, h4, c1, c2, c3, c4⟩, y1, y2, y3, y4⟩ := hq q hqm
  simp only [quadOf] at h1 h2 h3 h4 c1 c2 c3 c4 y1 y2 y3 y4
  unfold hexAt
  simp only [getD_map']
  unfold Hex.RH
  rw [jacs_revolved o k N _ _ _ _ cs sn h1 h2 h3 h4]
  intro j hj
  simp only [List.mem_cons, List.not_mem_nil, or_false] at hj
  rcases hj with rfl | rfl | rfl | rfl | rfl | rfl | rfl | rfl <;>
    exact mul_pos hdet (mul_pos (mul_pos hsn (by assumption)) (by assumption))

end CBV.C11
