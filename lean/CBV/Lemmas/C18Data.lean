/-
C18 — concrete data used by the non-vacuity examples and by the proved counterexample of Props/C18.
-/
import CBV.Model.C18

namespace CBV.C18

open CBV

/-- the unit cube in blockMesh numbering, as a point list -/
def cubePts : List V3 := [⟨0, 0, 0⟩, ⟨1, 0, 0⟩, ⟨1, 1, 0⟩, ⟨0, 1, 0⟩, ⟨0, 0, 1⟩, ⟨1, 0, 1⟩, ⟨1, 1, 1⟩, ⟨0, 1, 1⟩]

def cubeHull : List (Nat × Nat × Nat) :=
  [(0, 1, 2), (0, 2, 3), (4, 5, 6), (4, 6, 7), (0, 1, 5), (0, 5, 4), (1, 2, 6), (1, 6, 5), (2, 3, 7), (2, 7, 6),
   (3, 0, 4), (3, 4, 7)]

/-- the warped block of corpus/c18/reorient-block-restructured.json and the hull scipy answered for it -/
def cxPts : List V3 :=
  [⟨815 / 1024, -1859 / 8192, -26695 / 8192⟩,
   ⟨4837 / 2048, -1141 / 4096, -28207 / 8192⟩,
   ⟨20239 / 8192, 2991 / 2048, -26623 / 8192⟩,
   ⟨3395 / 4096, 6567 / 4096, -26785 / 8192⟩,
   ⟨1031 / 1024, -2507 / 8192, -8753 / 4096⟩,
   ⟨617 / 256, -2669 / 8192, -17425 / 8192⟩,
   ⟨18835 / 8192, 2901 / 2048, -8627 / 4096⟩,
   ⟨3179 / 4096, 11577 / 8192, -17425 / 8192⟩]

def cxHull : List (Nat × Nat × Nat) :=
  [(1, 5, 2), (4, 1, 5), (6, 5, 2), (6, 4, 7), (6, 4, 5), (3, 1, 2), (3, 6, 7), (3, 6, 2), (0, 4, 1), (0, 3, 1),
   (0, 4, 7), (0, 3, 7)]

/-- the unit cube in blockMesh numbering -/
def unitCube : Hex :=
  Hex.ofList [⟨0, 0, 0⟩, ⟨1, 0, 0⟩, ⟨1, 1, 0⟩, ⟨0, 1, 0⟩, ⟨0, 0, 1⟩, ⟨1, 0, 1⟩, ⟨1, 1, 1⟩, ⟨0, 1, 1⟩]


end CBV.C18
