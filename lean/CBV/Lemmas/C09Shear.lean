/-
C09 — `ElementBase.shear` over a part tree: a fold of one point map over the visited cells (points, array rows AND
axis directions alike); with pairwise distinct cells every cell is changed exactly once.
-/
import CBV.Lemmas.C09Tree

namespace CBV.C09
open CBV

def runG (f : V3 → V3) (vs : List (Nat × Bool)) (h : Heap) : Heap := vs.foldl (fun h v => h.modify v.1 f) h

theorem runG_append (f : V3 → V3) (a b : List (Nat × Bool)) (h : Heap) :
    runG f (a ++ b) h = runG f b (runG f a h) := by
  simp [runG, List.foldl_append]

theorem runG_length (f : V3 → V3) (vs : List (Nat × Bool)) (h : Heap) : (runG f vs h).length = h.length := by
  induction vs generalizing h with
  | nil => rfl
  | cons v vs ih => simp only [runG, List.foldl_cons] at ih ⊢; rw [ih]; simp [List.length_modify]

mutual
theorem shearE_heap (f : V3 → V3) : ∀ (e : Ent) (h : Heap), (shearE f e h).2 = runG f (visitsE e) h
  | .pt i, h => by simp [shearE, visitsE, runG]
  | .dir i, h => by simp [shearE, visitsE, runG]
  | .arr is, h => by simp [shearE, visitsE, runG, List.foldl_map]
  | .node k a ch, h => by
      simp only [shearE, visitsE]
      exact shearL_heap f ch h
theorem shearL_heap (f : V3 → V3) : ∀ (es : List Ent) (h : Heap), (shearL f es h).2 = runG f (visitsL es) h
  | [], h => by simp [shearL, visitsL, runG]
  | e :: es, h => by
      simp only [shearL, visitsL, runG_append]
      rw [shearL_heap f es, shearE_heap f e]
end

mutual
theorem shearE_tree (f : V3 → V3) : ∀ (e : Ent) (h : Heap), (shearE f e h).1 = invalidE e
  | .pt i, h => by simp [shearE, invalidE]
  | .dir i, h => by simp [shearE, invalidE]
  | .arr is, h => by simp [shearE, invalidE]
  | .node k a ch, h => by
      simp only [shearE, invalidE]
      rw [shearL_tree f ch h]
theorem shearL_tree (f : V3 → V3) : ∀ (es : List Ent) (h : Heap), (shearL f es h).1 = invalidL es
  | [], h => by simp [shearL, invalidL]
  | e :: es, h => by
      simp only [shearL, invalidL]
      rw [shearE_tree f e h, shearL_tree f es]
end

theorem runG_untouched (f : V3 → V3) (vs : List (Nat × Bool)) (h : Heap) (i : Nat)
    (hi : i ∉ vs.map Prod.fst) : Heap.get (runG f vs h) i = Heap.get h i := by
  induction vs generalizing h with
  | nil => rfl
  | cons v vs ih =>
      simp only [List.map_cons, List.mem_cons, not_or] at hi
      simp only [runG, List.foldl_cons] at ih ⊢
      rw [ih _ hi.2]
      exact get_modify_ne _ _ _ _ (fun h' => hi.1 h'.symm)

theorem runG_once (f : V3 → V3) (vs : List (Nat × Bool)) (h : Heap) (i : Nat) (b : Bool)
    (hnd : (vs.map Prod.fst).Nodup) (hmem : (i, b) ∈ vs) (hlt : i < h.length) :
    Heap.get (runG f vs h) i = f (Heap.get h i) := by
  induction vs generalizing h with
  | nil => cases hmem
  | cons v vs ih =>
      simp only [List.map_cons, List.nodup_cons] at hnd
      simp only [runG, List.foldl_cons] at ih ⊢
      rcases List.mem_cons.mp hmem with hv | hv
      · subst hv
        have := runG_untouched f vs (h.modify i f) i hnd.1
        simp only [runG] at this
        rw [this]
        exact get_modify_eq _ _ _ hlt
      · have hne : v.1 ≠ i := by
          intro hvi
          apply hnd.1
          rw [hvi]
          exact List.mem_map.mpr ⟨(i, b), hv, rfl⟩
        rw [ih _ hnd.2 hv (by simp [List.length_modify]; exact hlt)]
        exact congrArg f (get_modify_ne _ _ _ _ hne)

/-! ### transform, then read = read, then transform — for the point map of a shear -/

mutual
theorem resolve_shear (f : V3 → V3) (h h' : Heap) : ∀ (e : Ent),
    (∀ v ∈ visitsE e, Heap.get h' v.1 = f (Heap.get h v.1)) →
    resolveE h' (invalidE e) = shearV f (resolveE h e)
  | .pt i, hv => by
      have := hv (i, false) (by simp [visitsE])
      simp only [invalidE, resolveE, shearV]
      simpa using this
  | .dir i, hv => by
      have := hv (i, true) (by simp [visitsE])
      simp only [invalidE, resolveE, shearV]
      simpa using this
  | .arr is, hv => by
      simp only [invalidE, resolveE, shearV, List.map_map, VEnt.arr.injEq]
      apply List.map_congr_left
      intro i hi
      have := hv (i, false) (by simp only [visitsE, List.mem_map]; exact ⟨i, hi, rfl⟩)
      simpa using this
  | .node k a ch, hv => by
      have ih := resolve_shearL f h h' ch (by simpa [visitsE] using hv)
      simp only [invalidE, resolveE, shearV]
      rw [ih]
theorem resolve_shearL (f : V3 → V3) (h h' : Heap) : ∀ (es : List Ent),
    (∀ v ∈ visitsL es, Heap.get h' v.1 = f (Heap.get h v.1)) →
    resolveL h' (invalidL es) = shearVL f (resolveL h es)
  | [], _ => by simp [invalidL, resolveL, shearVL]
  | e :: es, hv => by
      simp only [invalidL, resolveL, shearVL]
      rw [resolve_shear f h h' e (fun v hm => hv v (by simp [visitsL, hm])),
        resolve_shearL f h h' es (fun v hm => hv v (by simp [visitsL, hm]))]
end

theorem resolve_shearE (f : V3 → V3) (e : Ent) (h : Heap) (hna : ((visitsE e).map Prod.fst).Nodup)
    (hin : ∀ v ∈ visitsE e, v.1 < h.length) :
    resolveE (shearE f e h).2 (shearE f e h).1 = shearV f (resolveE h e) := by
  rw [shearE_tree, shearE_heap]
  apply resolve_shear
  intro v hv
  exact runG_once f (visitsE e) h v.1 v.2 hna hv (hin v hv)

mutual
theorem visits_invalidE : ∀ (e : Ent), visitsE (invalidE e) = visitsE e
  | .pt i => by simp [invalidE]
  | .dir i => by simp [invalidE]
  | .arr is => by simp [invalidE]
  | .node k a ch => by simp only [invalidE, visitsE]; exact visits_invalidL ch
theorem visits_invalidL : ∀ (es : List Ent), visitsL (invalidL es) = visitsL es
  | [] => by simp [invalidL]
  | e :: es => by simp only [invalidL, visitsL, visits_invalidE e, visits_invalidL es]
end

/-- NoAlias and InHeap survive a shear -/
theorem inv_shearE (f : V3 → V3) (e : Ent) (h : Heap) (hna : ((visitsE e).map Prod.fst).Nodup)
    (hin : ∀ v ∈ visitsE e, v.1 < h.length) :
    ((visitsE (shearE f e h).1).map Prod.fst).Nodup ∧ ∀ v ∈ visitsE (shearE f e h).1, v.1 < (shearE f e h).2.length := by
  rw [shearE_tree, shearE_heap, visits_invalidE]
  exact ⟨hna, fun v hv => by rw [runG_length]; exact hin v hv⟩

end CBV.C09
