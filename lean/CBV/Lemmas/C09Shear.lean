/-
C09 — `ElementBase.shear` over a part tree: a fold of one point map over the visited cells (points, array rows AND
axis directions alike); with pairwise distinct cells every cell is changed exactly once.
-/
import CBV.Lemmas.C09Tree

namespace CBV.C09
open CBV

def runG (f : V3 → V3) (vs : List (Nat × Bool)) (h : Heap) : Heap := vs.foldl (fun h v => h.modify v.1 f) h

theorem runG_append (f : V3 → V3) (a b : List (Nat × Bool)) (h : Heap) :
    runG f (a ++ b) h = runG f b (runG f a h) := by
  simp [runG, List.foldl_append]

theorem runG_length (f : V3 → V3) (vs : List (Nat × Bool)) (h : Heap) : (runG f vs h).length = h.length := by
  induction vs generalizing h with
  | nil => rfl
  | cons v vs ih => simp only [runG, List.foldl_cons] at ih ⊢; rw [ih]; simp [List.length_modify]

mutual
theorem shearE_heap (f : V3 → V3) : ∀ (e : Ent) (h : Heap), (shearE f e h).2 = runG f (visitsE e) h
  | .pt i, h => by simp [shearE, visitsE, runG]
  | .dir i, h => by simp [shearE, visitsE, runG]
  | .arr is, h => by simp [shearE, visitsE, runG, List.foldl_map]
  | .node k a ch, h => by
      simp only [shearE, visitsE]
      exact shearL_heap f ch h
theorem shearL_heap (f : V3 → V3) : ∀ (es : List Ent) (h : Heap), (shearL f es h).2 = runG f (visitsL es) h
  | [], h => by simp [shearL, visitsL, runG]
  | e :: es, h => by
      simp only [shearL, visitsL, runG_append]
      rw [shearL_heap f es, shearE_heap f e]
end

mutual
theorem shearE_tree (f : V3 → V3) : ∀ (e : Ent) (h : Heap), (shearE f e h).1 = invalidE e
  | .pt i, h => by simp [shearE, invalidE]
  | .dir i, h => by simp [shearE, invalidE]
  | .arr is, h => by simp [shearE, invalidE]
  | .node k a ch, h => by
      simp only [shearE, invalidE]
      rw [shearL_tree f ch h]
theorem shearL_tree (f : V3 → V3) : ∀ (es : List Ent) (h : Heap), (shearL f es h).1 = invalidL es
  | [], h => by simp [shearL, invalidL]
  | e :: es, h => by
      simp only [shearL, invalidL]
      rw [shearE_tree f e h, shearL_tree f es]
end

theorem runG_untouched (f : V3 → V3) (vs : List (Nat × Bool)) (h : Heap) (i : Nat)
    (hi : i ∉ vs.map Prod.fst) : Heap.get (runG f vs h) i = Heap.get h i := by
  induction vs generalizing h with
  | nil => rfl
  | cons v vs ih =>
      simp only [List.map_cons, List.mem_cons, not_or] at hi
      simp only [runG, List.foldl_cons] at ih ⊢
      rw [ih _ hi.2]
      exact get_modify_ne _ _ _ _ (fun h' => hi.1 h'.symm)

theorem runG_once (f : V3 → V3) (vs : List (Nat × Bool)) (h : Heap) (i : Nat) (b : Bool)
    (hnd : (vs.map Prod.fst).Nodup) (hmem : (i, b) ∈ vs) (hlt : i < h.length) :
    Heap.get (runG f vs h) i = f (Heap.get h i) := by
  induction vs generalizing h with
  | nil => cases hmem
  | cons v vs ih =>
      simp only [List.map_cons, List.nodup_cons] at hnd
      simp only [runG, List.foldl_cons] at ih ⊢
      rcases List.mem_cons.mp hmem with hv | hv
      · subst hv
        have := runG_untouched f vs (h.modify i f) i hnd.1
        simp only [runG] at this
        rw [this]
        exact get_modify_eq _ _ _ hlt
      · have hne : v.1 ≠ i := by
          intro hvi
          apply hnd.1
          rw [hvi]
          exact List.mem_map.mpr ⟨(i, b), hv, rfl⟩
        rw [ih _ hnd.2 hv (by simp [List.length_modify]; exact hlt)]
        exact congrArg f (get_modify_ne _ _ _ _ hne)

end CBV.C09
