/-
C03 — the statement trees of the relations: tie to the generated tokens, and `run tree = model function`.
-/
import CBV.Model.C03Trans
import CBV.Lemmas.C03Calc

namespace CBV.C03

/-- the encodings of the model's trees, with the names of the source -/
def relBodiesEnc : List ((String × String × String) × List String) :=
  relBodies.map fun p => ((p.1.out.name, p.1.in1.name, p.1.in2.name), encBody p.2)

theorem relBodies_source : relBodiesEnc = CBV.Gen.c03RelBodies := by decide +kernel

end CBV.C03
