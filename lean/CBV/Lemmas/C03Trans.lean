/-
C03 — the statement trees of the relations: tie to the generated tokens, and `run tree = model function`.
-/
import CBV.Model.C03Trans
import CBV.Lemmas.C03Calc
import CBV.Gen.TC03

namespace CBV.C03

/-! ### the trees are the source: one statement per relation (a relation the translator cannot read breaks only its own) -/

theorem body_c2c_count_end_source : encBody body_c2c_count_end = CBV.Gen.c03Body_c2c_expansion__count__end_size := by decide +kernel
theorem body_c2c_count_start_source : encBody body_c2c_count_start = CBV.Gen.c03Body_c2c_expansion__count__start_size := by decide +kernel
theorem body_c2c_count_total_source : encBody body_c2c_count_total = CBV.Gen.c03Body_c2c_expansion__count__total_expansion := by decide +kernel
theorem body_count_end_c2c_source : encBody body_count_end_c2c = CBV.Gen.c03Body_count__end_size__c2c_expansion := by decide +kernel
theorem body_count_start_c2c_source : encBody body_count_start_c2c = CBV.Gen.c03Body_count__start_size__c2c_expansion := by decide +kernel
theorem body_count_total_c2c_source : encBody body_count_total_c2c = CBV.Gen.c03Body_count__total_expansion__c2c_expansion := by decide +kernel
theorem body_count_total_start_source : encBody body_count_total_start = CBV.Gen.c03Body_count__total_expansion__start_size := by decide +kernel
theorem body_end_start_total_source : encBody body_end_start_total = CBV.Gen.c03Body_end_size__start_size__total_expansion := by decide +kernel
theorem body_start_count_c2c_source : encBody body_start_count_c2c = CBV.Gen.c03Body_start_size__count__c2c_expansion := by decide +kernel
theorem body_start_end_total_source : encBody body_start_end_total = CBV.Gen.c03Body_start_size__end_size__total_expansion := by decide +kernel
theorem body_total_count_c2c_source : encBody body_total_count_c2c = CBV.Gen.c03Body_total_expansion__count__c2c_expansion := by decide +kernel
theorem body_total_start_end_source : encBody body_total_start_end = CBV.Gen.c03Body_total_expansion__start_size__end_size := by decide +kernel

def validatorBodiesEnc : List (String × Nat × List String) :=
  validatorBodies.map fun p => (p.1, p.2.1, encBody p.2.2)

theorem validatorBodies_source : validatorBodiesEnc = CBV.Gen.c03ValidatorBodies := by decide +kernel

@[simp] theorem natOf_natCast (n : ℕ) : natOf (n : ℚ) = some n := by
  simp [natOf]

theorem natOf_natCast_sub_one {n : ℕ} (h : n ≠ 0) : natOf ((n : ℚ) - 1) = some (n - 1) := by
  have : ((n : ℚ) - 1) = ((n - 1 : ℕ) : ℚ) := by
    rw [Nat.cast_sub (Nat.one_le_iff_ne_zero.mpr h)]; simp
  rw [this]; exact natOf_natCast _

theorem cast_sub_one_ne_zero {n : ℕ} (h : 1 < n) : (n : ℚ) - 1 ≠ 0 := by
  have : (1 : ℚ) < n := by exact_mod_cast h
  linarith

theorem RMAX_ne_zero : RMAX ≠ 0 := by decide +kernel

macro "run_simp" : tactic => `(tactic|
  simp [run, relEnv, validateSem, PEnv.num, List.lookup, Q.name, guardLen, guardCountGe1, guardRatio, guardSize,
    evalC, evalE, retSem, assignSem, assignAll, Cmp.holds, natRes, logRatioNan, bind, Except.bind, pure, Except.pure,
    Except.map, *])

macro "run_close" : tactic => `(tactic| all_goals first | rfl | (split_ifs <;> first | rfl | simp_all))

/-! ### relations without a numeric library step: every slot interpretation -/

theorem run_start_count_c2c (P : Prims) (L r : ℚ) (n : ℕ) :
    run P (relEnv ⟨.start, .count, .c2c⟩ L n r) body_start_count_c2c = startCountC2c L n r := by
  by_cases hL : L ≤ 0 <;> by_cases hn : n = 0 <;> by_cases hr : r = 0 <;> by_cases hc : TOL < absR (r - 1) <;>
    simp only [body_start_count_c2c, startCountC2c] <;> run_simp
  all_goals (split_ifs <;> first | rfl | (congr 1; ring))

theorem run_start_end_total (P : Prims) (L e T : ℚ) :
    run P (relEnv ⟨.start, .end_, .total⟩ L e T) body_start_end_total = startEndTotal L e T := by
  by_cases hL : L ≤ 0 <;> by_cases hT : T = 0 <;> simp only [body_start_end_total, startEndTotal] <;> run_simp

theorem run_end_start_total (P : Prims) (L s T : ℚ) :
    run P (relEnv ⟨.end_, .start, .total⟩ L s T) body_end_start_total = endStartTotal L s T := by
  by_cases hL : L ≤ 0 <;> by_cases hT : T = 0 <;> simp only [body_end_start_total, endStartTotal] <;> run_simp

theorem run_total_start_end (P : Prims) (L s e : ℚ) :
    run P (relEnv ⟨.total, .start, .end_⟩ L s e) body_total_start_end = totalStartEnd L s e := by
  by_cases hL : L ≤ 0 <;> by_cases hs : s ≤ 0 <;> by_cases he : e ≤ 0 <;>
    (try have hs0 : s ≠ 0 := ne_of_gt (not_le.mp hs)) <;>
    simp only [body_total_start_end, totalStartEnd] <;> run_simp

theorem run_total_count_c2c (P : Prims) (L r : ℚ) (n : ℕ) :
    run P (relEnv ⟨.total, .count, .c2c⟩ L n r) body_total_count_c2c = totalCountC2c L n r := by
  by_cases hL : L ≤ 0 <;> by_cases hn : n = 0 <;> by_cases hr : r = 0 <;>
    (try have hk := natOf_natCast_sub_one hn) <;>
    simp only [body_total_count_c2c, totalCountC2c] <;> run_simp

/-! ### relations with numeric library steps: the slots are the oracle answers under the validators of the model -/

/-- the slots of `get_count__start_size__c2c_expansion` -/
def primsCountStartC2c (t : Tol) (o : Oracle) (L s : ℚ) : Prims where
  intLog1 := fun _ B => oracleCount o (countOK t.cnt s B L) "count<start_size+c2c_expansion"
  int1 := fun _ => oracleCount o (countOK t.cnt s 1 L) "count<start_size+c2c_expansion:uniform"
  ceil := fun _ => .error .table
  brentqInt1 := fun _ _ => .error .table
  brentq := .error .table
  root := fun _ _ => .error .table

theorem run_count_start_c2c (t : Tol) (o : Oracle) (L s r : ℚ) :
    run (primsCountStartC2c t o L s) (relEnv ⟨.count, .start, .c2c⟩ L s r) body_count_start_c2c =
      natRes (countStartC2c t o L s r) := by
  by_cases hL : L ≤ 0 <;> by_cases hs : s ≤ 0 <;> by_cases hr : r = 0 <;> by_cases hc : TOL < absR (r - 1) <;>
    (try have hs0 : s ≠ 0 := ne_of_gt (not_le.mp hs)) <;>
    simp only [body_count_start_c2c, countStartC2c, primsCountStartC2c] <;> run_simp
  run_close

/-- the slots of `get_count__end_size__c2c_expansion` -/
def primsCountEndC2c (t : Tol) (o : Oracle) (L e : ℚ) : Prims where
  intLog1 := fun _ B => oracleCount o (countOK t.cnt e (1 / B) L) "count<end_size+c2c_expansion"
  int1 := fun _ => oracleCount o (countOK t.cnt e 1 L) "count<end_size+c2c_expansion:uniform"
  ceil := fun _ => .error .table
  brentqInt1 := fun _ _ => .error .table
  brentq := .error .table
  root := fun _ _ => .error .table

theorem run_count_end_c2c (t : Tol) (o : Oracle) (L e r : ℚ) :
    run (primsCountEndC2c t o L e) (relEnv ⟨.count, .end_, .c2c⟩ L e r) body_count_end_c2c =
      natRes (countEndC2c t o L e r) := by
  by_cases hL : L ≤ 0 <;> by_cases hs : e ≤ 0 <;> by_cases hr : r = 0 <;> by_cases hc : TOL < absR (r - 1) <;>
    by_cases hb : 1 + L / e * (1 - r) / r = 0 <;> by_cases hr0 : r < 0 <;>
    by_cases hb' : 1 + L / e * (1 - r) / r < 0 <;>
    (try have hs0 : e ≠ 0 := ne_of_gt (not_le.mp hs)) <;>
    simp only [body_count_end_c2c, countEndC2c, primsCountEndC2c] <;> run_simp
  run_close

/-- the slots of `get_count__total_expansion__c2c_expansion`: stated on the operands of the two logarithms -/
def primsCountTotalC2c (t : Tol) (o : Oracle) : Prims where
  intLog1 := fun A B => oracleCount o (powCountOK t.cnt B A) "count<total_expansion+c2c_expansion"
  int1 := fun _ => .error .table
  ceil := fun _ => .error .table
  brentqInt1 := fun _ _ => .error .table
  brentq := .error .table
  root := fun _ _ => .error .table

theorem run_count_total_c2c (t : Tol) (o : Oracle) (L T r : ℚ) :
    run (primsCountTotalC2c t o) (relEnv ⟨.count, .total, .c2c⟩ L T r) body_count_total_c2c =
      natRes (countTotalC2c t o L T r) := by
  by_cases hL : L ≤ 0 <;> by_cases hT : T = 0 <;> by_cases hr : r = 0 <;> by_cases hc : absR (r - 1) ≤ TOL <;>
    by_cases hr0 : r < 0 <;> by_cases hT0 : T < 0 <;> by_cases hs : (T - 1) * (r - 1) < 0 <;>
    simp only [body_count_total_c2c, countTotalC2c, primsCountTotalC2c] <;> run_simp
  run_close

/-- the slots of `get_count__total_expansion__start_size` -/
def primsCountTotalStart (t : Tol) (o : Oracle) (L T s : ℚ) : Prims where
  intLog1 := fun _ _ => .error .table
  int1 := fun _ => .error .table
  ceil := fun _ => oracleCount o (countOK t.cnt (dMin T s) 1 L) "count<total_expansion+start_size:uniform"
  brentqInt1 := fun _ _ =>
    if T < 0 then .error .unmodelled
    else oracleCount o (fun n => countTOK t L s T n o.w1 o.w2) "count<total_expansion+start_size"
  brentq := .error .table
  root := fun _ _ => .error .table

theorem run_count_total_start (t : Tol) (o : Oracle) (L T s : ℚ) :
    run (primsCountTotalStart t o L T s) (relEnv ⟨.count, .total, .start⟩ L T s) body_count_total_start =
      natRes (countTotalStart t o L T s) := by
  by_cases hL : L ≤ 0 <;> by_cases hs : s ≤ 0 <;> by_cases hT : T = 0 <;> by_cases hc : absR (T - 1) < TOL <;>
    by_cases hT1 : 1 < T <;> by_cases hT0 : T < 0 <;>
    (try have hs0 : s ≠ 0 := ne_of_gt (not_le.mp hs)) <;>
    simp only [body_count_total_start, countTotalStart, primsCountTotalStart, dMin] <;> run_simp
  run_close

/-- `x ** (1 / k)`: the supplied root is accepted when its `k`-th power is `x` (negative `x`: complex, not modelled) -/
def rootSlot (t : Tol) (o : Oracle) (x k : ℚ) : Except Err ℚ :=
  match natOf k with
  | some m =>
      if x < 0 then .error .unmodelled
      else oracleC2c o (fun c => powOK t.root c x m) "c2c_expansion<count+total_expansion"
  | none => .error .unmodelled

/-- the slots of `get_c2c_expansion__count__total_expansion`: stated on the operands of `**` -/
def primsC2cCountTotal (t : Tol) (o : Oracle) : Prims where
  intLog1 := fun _ _ => .error .table
  int1 := fun _ => .error .table
  ceil := fun _ => .error .table
  brentqInt1 := fun _ _ => .error .table
  brentq := .error .table
  root := rootSlot t o

theorem run_c2c_count_total (t : Tol) (o : Oracle) (L T : ℚ) (n : ℕ) :
    run (primsC2cCountTotal t o) (relEnv ⟨.c2c, .count, .total⟩ L n T) body_c2c_count_total =
      c2cCountTotal t o L n T := by
  by_cases hL : L ≤ 0 <;> by_cases hn : 1 < n <;> by_cases hT : T = 0 <;> by_cases hT0 : T < 0 <;>
    (try have hk := natOf_natCast_sub_one (n := n) (by omega)) <;>
    (try have hn1 := cast_sub_one_ne_zero hn) <;>
    simp only [body_c2c_count_total, c2cCountTotal, primsC2cCountTotal] <;> run_simp
  all_goals simp [rootSlot, *]

/-- the slots of `get_c2c_expansion__count__start_size` -/
def primsC2cCountStart (t : Tol) (o : Oracle) (L : ℚ) (n : ℕ) (s : ℚ) : Prims where
  intLog1 := fun _ _ => .error .table
  int1 := fun _ => .error .table
  ceil := fun _ => .error .table
  brentqInt1 := fun _ _ => .error .table
  brentq := oracleC2c o (fun c => rootOK t.root s c L n) "c2c_expansion<count+start_size"
  root := fun _ _ => .error .table

theorem run_c2c_count_start (t : Tol) (o : Oracle) (L s : ℚ) (n : ℕ) :
    run (primsC2cCountStart t o L n s) (relEnv ⟨.c2c, .count, .start⟩ L n s) body_c2c_count_start =
      c2cCountStart t o L n s := by
  have hR := RMAX_ne_zero
  by_cases hL : L ≤ 0 <;> by_cases hn : n = 0 <;> by_cases hs1 : s < L <;> by_cases hs2 : 0 < s <;> by_cases hn1 : n = 1 <;>
    by_cases hc : absR (n * s - L) / L < TOL <;> by_cases hlt : (n : ℚ) * s < L <;>
    (try have hL0 : L ≠ 0 := ne_of_gt (not_le.mp hL)) <;>
    (try have hk0 := cast_sub_one_ne_zero (n := n) (by omega)) <;>
    simp only [body_c2c_count_start, c2cCountStart, primsC2cCountStart] <;> run_simp
  all_goals (cases hk : natOf ((n : ℚ) - 1)⁻¹ <;> simp [List.lookup, hk, *])

/-- the slots of `get_c2c_expansion__count__end_size` -/
def primsC2cCountEnd (t : Tol) (o : Oracle) (L : ℚ) (n : ℕ) (e : ℚ) : Prims where
  intLog1 := fun _ _ => .error .table
  int1 := fun _ => .error .table
  ceil := fun _ => .error .table
  brentqInt1 := fun _ _ => .error .table
  brentq := oracleC2c o (fun c => rootOK t.root e (1 / c) L n) "c2c_expansion<count+end_size"
  root := fun _ _ => .error .table

theorem run_c2c_count_end (t : Tol) (o : Oracle) (L e : ℚ) (n : ℕ) :
    run (primsC2cCountEnd t o L n e) (relEnv ⟨.c2c, .count, .end_⟩ L n e) body_c2c_count_end =
      c2cCountEnd t o L n e := by
  have hR := RMAX_ne_zero
  rcases eq_or_ne n 1 with rfl | hn1
  · by_cases hL : L ≤ 0 <;> by_cases hs : e ≤ 0 <;> by_cases hc : absR (e - L) / L < TOL <;> by_cases hlt : L < e <;>
      (try have hL0 : L ≠ 0 := ne_of_gt (not_le.mp hL)) <;>
      simp only [body_c2c_count_end, c2cCountEnd, primsC2cCountEnd] <;> run_simp
  · by_cases hL : L ≤ 0 <;> by_cases hn : n = 0 <;> by_cases hs : e ≤ 0 <;>
      by_cases hc : absR (n * e - L) / L < TOL <;> by_cases hlt : L < (n : ℚ) * e <;>
      (try have hL0 : L ≠ 0 := ne_of_gt (not_le.mp hL)) <;>
      (try have hk0 := cast_sub_one_ne_zero (n := n) (by omega)) <;>
      simp only [body_c2c_count_end, c2cCountEnd, primsC2cCountEnd] <;> run_simp
    all_goals (cases hk : natOf ((n : ℚ) - 1)⁻¹ <;> simp [List.lookup, hk, *])

/-! ### the functions handed to `brentq`: the validator `rootOK` is the residual of the *translated* function -/

theorem solverFn_c2c_count_start {L s c : ℚ} {n : ℕ} (hs : s ≠ 0) (hc : c ≠ 1) :
    solverFn (relEnv ⟨.c2c, .count, .start⟩ L n s) body_c2c_count_start c = .ok ((1 - c ^ n) / (1 - c) - L / s) := by
  have h1 : (1 : ℚ) - c ≠ 0 := sub_ne_zero.mpr (Ne.symm hc)
  simp [solverFn, brentqFn, findDefn, body_c2c_count_start, relEnv, evalE, PEnv.num, List.lookup, Q.name, bind,
    Except.bind, pure, Except.pure, hs, h1]

theorem solverFn_c2c_count_end {L e c : ℚ} {n : ℕ} (hn : n ≠ 0) (he : e ≠ 0) (hc : c ≠ 1) (hc0 : c ≠ 0) :
    solverFn (relEnv ⟨.c2c, .count, .end_⟩ L n e) body_c2c_count_end c =
      .ok (1 / c ^ (n - 1) * (1 - c ^ n) / (1 - c) - L / e) := by
  have h1 : (1 : ℚ) - c ≠ 0 := sub_ne_zero.mpr (Ne.symm hc)
  have hk := natOf_natCast_sub_one hn
  have hp : c ^ (n - 1) ≠ 0 := pow_ne_zero _ hc0
  simp [solverFn, brentqFn, findDefn, body_c2c_count_end, relEnv, evalE, PEnv.num, List.lookup, Q.name, bind,
    Except.bind, pure, Except.pure, he, h1, hk, hp]

/-- the residual of the geometric sum, scaled by the cell size -/
theorem rootOK_start_resid {ε L s c : ℚ} {n : ℕ} (hs : s ≠ 0) (hc : c ≠ 1) :
    rootOK ε s c L n = (decide (0 < c) && decide (absR (s * ((1 - c ^ n) / (1 - c) - L / s)) ≤ ε * L)) := by
  have : s * gsum c n - L = s * ((1 - c ^ n) / (1 - c) - L / s) := by
    rw [gsum, if_neg hc]; field_simp
  rw [rootOK, this]

theorem rootOK_end_resid {ε L e c : ℚ} {n : ℕ} (hn : n ≠ 0) (he : e ≠ 0) (hc : c ≠ 1) (hc0 : c ≠ 0) :
    rootOK ε e (1 / c) L n =
      (decide (0 < c) && decide (absR (e * (1 / c ^ (n - 1) * (1 - c ^ n) / (1 - c) - L / e)) ≤ ε * L)) := by
  have h1 : (1 : ℚ) - c ≠ 0 := sub_ne_zero.mpr (Ne.symm hc)
  have hci : (1 : ℚ) / c ≠ 1 := by
    intro h; apply hc; field_simp at h; exact h.symm
  have hpos : (0 < 1 / c) ↔ (0 < c) := one_div_pos
  have hn' : n = (n - 1) + 1 := by omega
  have : e * gsum (1 / c) n - L = e * (1 / c ^ (n - 1) * (1 - c ^ n) / (1 - c) - L / e) := by
    rw [gsum, if_neg hci]
    have h2 : (1 : ℚ) - 1 / c ≠ 0 := sub_ne_zero.mpr (Ne.symm hci)
    have hp : c ^ (n - 1) ≠ 0 := pow_ne_zero _ hc0
    have hpn : c ^ n = c ^ (n - 1) * c := by conv_lhs => rw [hn', pow_succ]
    rw [one_div_pow, hpn]
    field_simp
    ring
  rw [rootOK, this]
  simp only [hpos]

/-! ### the simple validators: their bodies do what `validateSem` says -/

theorem validators_sem (P : Prims) (q : ℚ) :
    validatorBodies.map (fun p => (p.1, run P [("v0", LVal.num q), ("v1", LVal.num q)] (p.2.2 ++ [.ret (.lit 0)]))) =
      [("_validate_length", if q ≤ 0 then .error .value else .ok 0),
       ("_validate_start_end_size", if q ≤ 0 then .error .value else .ok 0),
       ("_validate_c2c_expansion", if q = 0 then .error .value else .ok 0),
       ("_validate_total_expansion", if q = 0 then .error .value else .ok 0)] := by
  by_cases h1 : q ≤ 0 <;> by_cases h2 : q = 0 <;> simp only [validatorBodies] <;> run_simp

/-! ### `Chop.invert` -/

theorem invertBody_source : encIBody invertBody = CBV.Gen.c03InvertBody := by decide +kernel

/-- the statements of `Chop.invert`, run in source order, give the inverted fields and the moved `preserve`; when a
    reciprocal raises, the half-inverted record `invertLeft` (sizes swapped, the ratios before the failing one
    inverted) is what stays behind -/
theorem runI_invert (v : Vals) (p : Q) :
    runI invertBody (v, p) =
      match invert v with
      | .ok w => ((w, swapPreserve p), none)
      | .error e => ((invertLeft v, p), some e) := by
  obtain ⟨n, s, e, c, T⟩ := v
  rcases c with _ | c <;> rcases T with _ | T <;> cases p <;>
    (try by_cases hc : c = 0) <;> (try by_cases hT : T = 0) <;>
    simp [runI, invertBody, fieldQ, Q.ofString?, Vals.setOpt, Vals.get, invert, invertLeft, swapPreserve, Q.name,
      List.find?, pure, Except.pure, *]

/-! ### `Chop.__post_init__` interpreted from what the source says now -/

/-- `Chop.__post_init__` as the translated table describes it: `names` are the attributes counted as grading parameters,
    fewer than `k` given and attribute `a` unset → `a = v`; attribute `b` (the count) set → `max(int(b), m)` -/
def postInitGen (tbl : List String × Nat × (String × Nat) × (String × Nat))
    (count : Option Int) (start end_ c2c total : Option Rat) : Option Vals :=
  match tbl with
  | (names, k, (a, v), (b, m)) => do
      let qs ← names.mapM Q.ofString?
      let qa ← fieldQ a
      if b ≠ "count" then none
      let isSet : Q → Bool := fun q =>
        match q with
        | .count => count.isSome | .start => start.isSome | .end_ => end_.isSome | .c2c => c2c.isSome
        | .total => total.isSome
      let given := (qs.filter isSet).length
      let raw : Vals := { count := count.map (fun c => (max c (m : Int)).toNat), start := start, end_ := end_,
                          c2c := c2c, total := total }
      some (if given < k ∧ isSet qa = false then raw.setOpt qa (some (v : Rat)) else raw)

theorem postInitGen_eq (count : Option Int) (start end_ c2c total : Option Rat) :
    postInitGen CBV.Gen.c03PostInit count start end_ c2c total = some (postInit count start end_ c2c total) := by
  cases count <;> cases start <;> cases end_ <;> cases c2c <;> cases total <;>
    simp [postInitGen, CBV.Gen.c03PostInit, postInit, fieldQ, Q.ofString?, Vals.setOpt, List.mapM_cons, List.filter]

/-! ### `Chop.copy_preserving` interpreted from what the source says now -/

theorem floor_natCast_toNat (n : ℕ) : ((n : ℚ)).floor.toNat = n := by
  have h : ((n : ℚ)).floor = (n : ℤ) := by
    apply le_antisymm
    · have := Rat.floor_le (n : ℚ)
      have h2 : (((n : ℚ).floor : ℤ) : ℚ) ≤ ((n : ℤ) : ℚ) := by simpa using this
      exact Int.cast_le.mp h2
    · exact Rat.le_floor_iff.mpr (by simp)
  rw [h]; simp

/-- `Chop.copy_preserving(inverted)` as the translated tables describe it: the arguments start as the chop's *own current
    fields* (`dataclasses.asdict(self)`), `args[k1] = results[k2]`, every key of `cleared` is set to `None`, the preserved
    quantity is taken from `results`, the new chop goes through `__post_init__` (`postInitGen` on `initTbl`), and is
    inverted when asked (`doInvert`) -/
def copyGen (tbl : (String × String) × List String × Bool)
    (initTbl : List String × Nat × (String × Nat) × (String × Nat)) (ob : Obj) (inverted : Bool) : Except Err Vals :=
  match ob.last with
  | none => .error .unmodelled
  | some res =>
      match tbl with
      | ((k1, k2), cleared, doInvert) =>
          if k1 ≠ "count" ∨ k2 ≠ "count" then .error .table
          else
            match cleared.mapM fieldQ, res.count, res.get ob.preserve with
            | none, _, _ => .error .table
            | some qs, some n, some x =>
                let a1 : Vals := qs.foldl (fun v q => v.setOpt q none) ob.params
                let a2 : Vals := a1.setOpt ob.preserve (some x)
                match postInitGen initTbl (some (n : Int)) a2.start a2.end_ a2.c2c a2.total with
                | some c => if inverted && doInvert then invert c else pure c
                | none => .error .table
            | some _, _, _ => .error .unmodelled

theorem copyGen_eq (ob : Obj) (inverted : Bool)
    (hn : ∀ res n, ob.last = some res → res.count = some n → 1 ≤ n) :
    copyGen CBV.Gen.c03CopyPreserving CBV.Gen.c03PostInit ob inverted = copyPreserving ob inverted := by
  obtain ⟨params, preserve, last⟩ := ob
  cases last with
  | none => rfl
  | some res =>
    obtain ⟨cn, cs, ce, cc, cT⟩ := res
    cases cn with
    | none => cases preserve <;> simp [copyGen, CBV.Gen.c03CopyPreserving, copyPreserving, fieldQ, Q.ofString?, Vals.get]
    | some n =>
      have hn1 : 1 ≤ n := hn _ n rfl rfl
      have hmax : max n 1 = n := by omega
      have hmaxI : max (n : ℤ) 1 = (n : ℤ) := by omega
      cases preserve <;> cases cs <;> cases ce <;> cases cc <;> cases cT <;>
        simp [copyGen, CBV.Gen.c03CopyPreserving, copyPreserving, fieldQ, Q.ofString?, Vals.get, List.foldl, Vals.setOpt,
          postInitGen_eq, postInit, Vals.assign, hmax, hmaxI, floor_natCast_toNat]

end CBV.C03
