/-
C11 — Oval in the generic point model: both fans in the frame of the first one.
-/
import CBV.Lemmas.C11Wrap

namespace CBV.C11
open P3

set_option linter.unusedSectionVars false
set_option linter.unusedSimpArgs false
set_option linter.unusedVariables false

theorem idx_half_turn : linspaceIdx 4 5 true = [0, 1, 2, 3, 4] := by decide

theorem quads_oval : sketchQuads "Oval" =
    [[0, 1, 2, 3], [5, 0, 3, 4], [7, 6, 0, 5], [8, 9, 6, 7], [9, 10, 11, 6], [6, 11, 1, 0], [1, 12, 13, 2],
     [2, 13, 14, 3], [3, 14, 15, 4], [4, 15, 16, 5], [5, 16, 17, 7], [7, 17, 18, 8], [8, 18, 19, 9], [9, 19, 20, 10],
     [10, 20, 21, 11], [11, 21, 12, 1]] := by decide +kernel

variable {K : Type} [Field K] [LinearOrder K] [IsStrictOrderedRing K]

/-- first fan: centre `c1`, radius vector `α (u × Δ)` (perpendicular to `u` identically) -/
theorem oval_fan1 (cs sn α : K) (u c1 d : P3 K) :
    rotAbout cs sn u c1 (add c1 (smul α (cross u d))) = frame c1 (smul α (cross u d)) u ⟨cs, sn, 0⟩ := by
  simp only [rotAbout, frame, add, smul, sub, cross, dot, P3.mk.injEq]; refine ⟨?_, ?_, ?_⟩ <;> ring

theorem P3.ext3 {a b : P3 K} (hx : a.x = b.x) (hy : a.y = b.y) (hz : a.z = b.z) : a = b := by
  cases a; cases b; simp only [P3.mk.injEq]; exact ⟨hx, hy, hz⟩

/-- the second centre in the frame of the first fan (`α t = 1`: `α = radius / wd`, `t = wd / radius`) -/
theorem oval_c2 (α t : K) (u c1 c2 : P3 K) (hαt : α * t = 1) (hu : nsq u = 1) (hp : dot u (sub c2 c1) = 0) :
    c2 = frame c1 (smul α (cross u (sub c2 c1))) u ⟨0, -t, 0⟩ := by
  simp only [nsq, dot, sub] at hu hp
  apply P3.ext3 <;> simp only [frame, add, smul, sub, cross]
  · linear_combination (u.x * (u.x * (c2.x - c1.x) + u.y * (c2.y - c1.y) + u.z * (c2.z - c1.z))
        - (c2.x - c1.x) * (u.x * u.x + u.y * u.y + u.z * u.z)) * hαt + u.x * hp - (c2.x - c1.x) * hu
  · linear_combination (u.y * (u.x * (c2.x - c1.x) + u.y * (c2.y - c1.y) + u.z * (c2.z - c1.z))
        - (c2.y - c1.y) * (u.x * u.x + u.y * u.y + u.z * u.z)) * hαt + u.y * hp - (c2.y - c1.y) * hu
  · linear_combination (u.z * (u.x * (c2.x - c1.x) + u.y * (c2.y - c1.y) + u.z * (c2.z - c1.z))
        - (c2.z - c1.z) * (u.x * u.x + u.y * u.y + u.z * u.z)) * hαt + u.z * hp - (c2.z - c1.z) * hu

/-- second fan: centre `c2`, radius vector `α (u × (c1 − c2)) = −ρ1`, in the frame of the first fan -/
theorem oval_fan2 (cs sn α t : K) (u c1 c2 : P3 K) (hαt : α * t = 1) (hu : nsq u = 1)
    (hp : dot u (sub c2 c1) = 0) :
    rotAbout cs sn u c2 (add c2 (smul α (cross u (sub c1 c2))))
      = frame c1 (smul α (cross u (sub c2 c1))) u ⟨-cs, -t - sn, 0⟩ := by
  have h1 : rotAbout cs sn u c2 (add c2 (smul α (cross u (sub c1 c2))))
      = add (frame c1 (smul α (cross u (sub c2 c1))) u ⟨-cs, -sn, 0⟩) (sub c2 c1) := by
    simp only [rotAbout, frame, add, smul, sub, cross, dot, P3.mk.injEq]; refine ⟨?_, ?_, ?_⟩ <;> ring
  have h2 := oval_c2 α t u c1 c2 hαt hu hp
  have h3 : sub c2 c1 = sub (frame c1 (smul α (cross u (sub c2 c1))) u ⟨0, -t, 0⟩) c1 := by rw [← h2]
  rw [h1]
  generalize smul α (cross u (sub c2 c1)) = ρ at h3 ⊢
  rw [h3]
  simp only [frame, add, smul, sub, cross, P3.mk.injEq]; refine ⟨?_, ?_, ?_⟩ <;> ring


theorem sub_add_self (c ρ : P3 K) : sub (add c ρ) c = ρ := by
  apply P3.ext3 <;> simp only [add, sub] <;> ring

theorem dot_cross_self (α : K) (u d : P3 K) : dot u (smul α (cross u d)) = 0 := by
  simp only [dot, smul, cross]; ring

/-- plane coordinates of the second fan in the frame of the first (mirrored, `t = |c2 − c1| / radius` lower) -/
def fan2PtL (h t : K) (i : Nat) : P3 K := ⟨-(dir8 h i).1, -t - (dir8 h i).2, 0⟩

def fan2OuterL (h t : K) (idx : List Nat) : List (P3 K) := idx.map (fan2PtL h t)

def fan2InnerFromL (h t : K) (ratios : List K) : Nat → List Nat → List (P3 K)
  | _, [] => []
  | i, a :: rest =>
    ⟨-(ratioAt ratios i * (dir8 h a).1), -t - ratioAt ratios i * (dir8 h a).2, 0⟩ :: fan2InnerFromL h t ratios (i + 1) rest

/-- plane coordinates of the 22 positions of `Oval` -/
def ovalL (h k dg t : K) : List (P3 K) :=
  ⟨0, 0, 0⟩ :: (fanInnerFromL h [k, dg] 0 (linspaceIdx 4 5 true) ++
    ⟨0, -t, 0⟩ :: (fan2InnerFromL h t [k, dg] 0 (linspaceIdx 4 5 true) ++
      (fanOuterL h (linspaceIdx 4 5 true) ++ fan2OuterL h t (linspaceIdx 4 5 true))))

section ovalframe
variable (α t : K) (u c1 c2 : P3 K) (hαt : α * t = 1) (hu : nsq u = 1) (hp : dot u (sub c2 c1) = 0)
include hαt hu hp

theorem oval_fanPt2 (h : K) (i : Nat) :
    fanPt c2 (add c2 (smul α (cross u (sub c1 c2)))) u h i
      = frame c1 (smul α (cross u (sub c2 c1))) u (fan2PtL h t i) := by
  unfold fanPt fan2PtL; exact oval_fan2 _ _ α t u c1 c2 hαt hu hp

theorem oval_inner2 (r : K) (p : P3 K) :
    scaleP r c2 (frame c1 (smul α (cross u (sub c2 c1))) u p)
      = frame c1 (smul α (cross u (sub c2 c1))) u ⟨r * p.x, -t + r * (p.y + t), r * p.z⟩ := by
  have h2 := oval_c2 α t u c1 c2 hαt hu hp
  have : scaleP r c2 (frame c1 (smul α (cross u (sub c2 c1))) u p)
      = scaleP r (frame c1 (smul α (cross u (sub c2 c1))) u ⟨0, -t, 0⟩) (frame c1 (smul α (cross u (sub c2 c1))) u p) := by
    rw [← h2]
  rw [this, scaleP_frame]
  congr 1
  simp only [P3.mk.injEq]; refine ⟨?_, ?_, ?_⟩ <;> ring

theorem oval_fanOuter2 (h : K) (idx : List Nat) :
    fanOuter c2 (add c2 (smul α (cross u (sub c1 c2)))) u h idx
      = (fan2OuterL h t idx).map (frame c1 (smul α (cross u (sub c2 c1))) u) := by
  unfold fanOuter fan2OuterL
  rw [List.map_map]
  apply List.map_congr_left
  intro i _
  exact oval_fanPt2 α t u c1 c2 hαt hu hp h i

theorem oval_fanInner2 (h : K) (ratios : List K) : ∀ (idx : List Nat) (i : Nat),
    fanInnerFrom c2 (add c2 (smul α (cross u (sub c1 c2)))) u h ratios i idx
      = (fan2InnerFromL h t ratios i idx).map (frame c1 (smul α (cross u (sub c2 c1))) u) := by
  intro idx
  induction idx with
  | nil => intro i; rfl
  | cons a rest ih =>
    intro i
    simp only [fanInnerFrom, fan2InnerFromL, List.map_cons, ih (i + 1)]
    congr 1
    rw [oval_fanPt2 α t u c1 c2 hαt hu hp h a, oval_inner2 α t u c1 c2 hαt hu hp]
    congr 1
    simp only [fan2PtL, P3.mk.injEq]; refine ⟨?_, ?_, ?_⟩ <;> ring

end ovalframe

/-- the positions of `Oval` are the plane coordinates `ovalL` in the frame of the first fan
    (`α = radius / wd`, `t = wd / radius`) -/
theorem ovalPts_frame (c1 c2 u : P3 K) (h k dg radius wd : K) (hr : 0 < radius) (hw : 0 < wd) (hu : nsq u = 1)
    (hp : dot u (sub c2 c1) = 0) :
    ovalPts c1 c2 u h k dg radius wd
      = (ovalL h k dg (wd / radius)).map (frame c1 (smul (radius / wd) (cross u (sub c2 c1))) u) := by
  have hαt : radius / wd * (wd / radius) = 1 := by
    have := ne_of_gt hr; have := ne_of_gt hw; field_simp
  have hp1 : dot u (sub (add c1 (smul (radius / wd) (cross u (sub c2 c1)))) c1) = 0 := by
    rw [sub_add_self]; exact dot_cross_self _ _ _
  unfold ovalPts ovalL
  simp only [fanInner, List.map_cons, List.map_append, frame_zero]
  rw [fanInnerFrom_frame _ _ u h _ hp1, fanOuter_frame _ _ u h _ hp1, sub_add_self,
    oval_fanInner2 (radius / wd) (wd / radius) u c1 c2 hαt hu hp, oval_fanOuter2 (radius / wd) (wd / radius) u c1 c2 hαt hu hp,
    ← oval_c2 (radius / wd) (wd / radius) u c1 c2 hαt hu hp]

theorem ovalL_lit (h k dg t : K) : ovalL h k dg t =
    [⟨0, 0, 0⟩, ⟨k * 1, k * 0, 0⟩, ⟨dg * h, dg * h, 0⟩, ⟨k * 0, k * 1, 0⟩, ⟨dg * -h, dg * h, 0⟩, ⟨k * -1, k * 0, 0⟩, ⟨0, -t, 0⟩, ⟨-(k * 1), -t - k * 0, 0⟩, ⟨-(dg * h), -t - dg * h, 0⟩, ⟨-(k * 0), -t - k * 1, 0⟩, ⟨-(dg * -h), -t - dg * h, 0⟩, ⟨-(k * -1), -t - k * 0, 0⟩, ⟨1, 0, 0⟩, ⟨h, h, 0⟩, ⟨0, 1, 0⟩, ⟨-h, h, 0⟩, ⟨-1, 0, 0⟩, ⟨-(1), -t - 0, 0⟩, ⟨-(h), -t - h, 0⟩, ⟨-(0), -t - 1, 0⟩, ⟨-(-h), -t - h, 0⟩, ⟨-(-1), -t - 0, 0⟩] := by
  simp [ovalL, idx_half_turn, fanInnerFromL, fan2InnerFromL, fanOuterL, fan2OuterL, fanPtL, fan2PtL, dir8, ratioAt]

/-- `Oval`: the conditions of the half disks, and two different centres (`t > 0`) -/
theorem oval_convex (h k dg t : K) (hk0 : 0 < k) (hk1 : k < 1) (hh : 0 < h) (he1 : k < 2 * (dg * h))
    (he2 : dg * h < h) (ht : 0 < t) : ∀ q ∈ sketchQuads "Oval", convexCCW (quadOf (ovalL h k dg t) q) := by
  rw [quads_oval]
  have a1 : 0 < 1 - k := by linarith
  have a2 : 0 < dg * h := by linarith
  have a3 : 0 < 2 * (dg * h) - k := by linarith
  have a4 : 0 < h - dg * h := by linarith
  intro q hq
  simp only [List.mem_cons, List.not_mem_nil, or_false] at hq
  rcases hq with rfl | rfl | rfl | rfl | rfl | rfl | rfl | rfl | rfl | rfl | rfl | rfl | rfl | rfl | rfl | rfl <;>
  · simp [quadOf, ovalL_lit]
    unfold convexCCW cross2K
    dsimp only
    refine ⟨rfl, rfl, rfl, rfl, ?_, ?_, ?_, ?_⟩ <;>
      linarith [mul_pos hk0 hk0, mul_pos hk0 a1, mul_pos hk0 a2, mul_pos hk0 a3, mul_pos hk0 a4, mul_pos hk0 hh, mul_pos hk0 ht, mul_pos a1 a1, mul_pos a1 a2, mul_pos a1 a3, mul_pos a1 a4, mul_pos a1 hh, mul_pos a1 ht, mul_pos a2 a2, mul_pos a2 a3, mul_pos a2 a4, mul_pos a2 hh, mul_pos a2 ht, mul_pos a3 a3, mul_pos a3 a4, mul_pos a3 hh, mul_pos a3 ht, mul_pos a4 a4, mul_pos a4 hh, mul_pos a4 ht, mul_pos hh hh, mul_pos hh ht, mul_pos ht ht]

end CBV.C11
