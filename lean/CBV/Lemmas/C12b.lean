/-
C12 — helper lemmas, part b: the vertex list (an added point gets a vertex at that location, earlier
vertices keep their index), the invariant "every block's vertices sit at the corners of its operation",
the `backport` loop, and grading-insensitivity of `write`.
-/
import CBV.Lemmas.C12a

namespace CBV.C12

attribute [local irreducible] addEdges addFaces patchItems faceItems

/-! ### vertex list -/

theorem locOf_append_left (vs ext : List Vtx) (i : Nat) (h : i < vs.length) :
    locOf (vs ++ ext) i = locOf vs i := by
  simp [locOf, List.getElem?_append_left h]

theorem vfind_some (loc : Pt) (sl : List String) (vs : List Vtx) (i : Nat)
    (h : vfind loc sl vs = some i) : i < vs.length ∧ locOf vs i = loc := by
  induction vs generalizing i with
  | nil => simp [vfind] at h
  | cons v rest ih =>
    unfold vfind at h
    split at h
    · rename_i hc
      cases h
      exact ⟨by simp, by simp [locOf, hc.1]⟩
    · cases hr : vfind loc sl rest with
      | none => simp [hr] at h
      | some j =>
        simp [hr] at h
        subst h
        have := ih j hr
        exact ⟨by simp; omega, by simpa [locOf] using this.2⟩

theorem vadd_spec (vs : List Vtx) (loc : Pt) (proj sl : List String) :
    ∃ ext, (vadd vs loc proj sl).1 = vs ++ ext ∧ (vadd vs loc proj sl).2 < (vadd vs loc proj sl).1.length ∧
      locOf (vadd vs loc proj sl).1 (vadd vs loc proj sl).2 = loc := by
  unfold vadd
  cases h : vfind loc sl vs with
  | some i =>
    have := vfind_some loc sl vs i h
    exact ⟨[], by simp, this.1, this.2⟩
  | none =>
    refine ⟨[⟨loc, proj, sl⟩], rfl, by simp, ?_⟩
    simp [locOf]

theorem addVertsAux_spec (sl : List String) (o : Op) (cs : List Nat) (vs : List Vtx) :
    ∃ ext, (addVertsAux sl o cs vs).1 = vs ++ ext ∧
      (addVertsAux sl o cs vs).2.length = cs.length ∧
      (∀ i ∈ (addVertsAux sl o cs vs).2, i < (addVertsAux sl o cs vs).1.length) ∧
      (addVertsAux sl o cs vs).2.map (locOf (addVertsAux sl o cs vs).1) = cs.map (fun c => o.corners.getD c 0) := by
  induction cs generalizing vs with
  | nil => exact ⟨[], by simp [addVertsAux]⟩
  | cons c rest ih =>
    obtain ⟨e0, h0, hlt, hloc⟩ := vadd_spec vs (o.corners.getD c 0) (o.cornerProj.getD c []) (cornerSlaves sl o c)
    obtain ⟨e2, h2, hlen, hall, hmap⟩ := ih (vadd vs (o.corners.getD c 0) (o.cornerProj.getD c []) (cornerSlaves sl o c)).1
    simp only [addVertsAux, List.getD_eq_getElem?_getD] at h0 hlt hloc h2 hlen hall hmap ⊢
    refine ⟨e0 ++ e2, ?_, ?_, ?_, ?_⟩
    · rw [h2, h0]; simp
    · simp [hlen]
    · intro i hi
      simp only [List.mem_cons] at hi
      rcases hi with hi | hi
      · subst hi
        rw [h2]; simp; omega
      · exact hall i hi
    · simp only [List.map_cons]
      rw [hmap]
      congr 1
      rw [h2, locOf_append_left _ _ _ hlt, hloc]

theorem corners8 (l : List Pt) (h : l.length = 8) :
    [0, 1, 2, 3, 4, 5, 6, 7].map (fun c => l.getD c 0) = l := by
  match l, h with
  | [_, _, _, _, _, _, _, _], _ => rfl

theorem addVerts_spec (sl : List String) (o : Op) (vs : List Vtx) :
    ∃ ext, (addVerts sl o vs).1 = vs ++ ext ∧ (addVerts sl o vs).2.length = 8 ∧
      (∀ i ∈ (addVerts sl o vs).2, i < (addVerts sl o vs).1.length) ∧
      (addVerts sl o vs).2.map (locOf (addVerts sl o vs).1) = [0, 1, 2, 3, 4, 5, 6, 7].map (fun c => o.corners.getD c 0) := by
  have := addVertsAux_spec sl o [0, 1, 2, 3, 4, 5, 6, 7] vs
  simpa [addVerts] using this

theorem addVerts_ne_nil (sl : List String) (o : Op) (vs : List Vtx) : (addVerts sl o vs).1 ≠ [] := by
  obtain ⟨ext, _, hlen, hall, _⟩ := addVerts_spec sl o vs
  intro h
  cases hv : (addVerts sl o vs).2 with
  | nil => simp [hv] at hlen
  | cons i rest =>
    have := hall i (by simp [hv])
    simp [h] at this

attribute [local irreducible] addVerts

/-! ### blocks sit on the corners of their operations -/

def range8Corners (o : Op) : List Pt := [0, 1, 2, 3, 4, 5, 6, 7].map (fun c => o.corners.getD c 0)

def GoodPair (ops : List Op) (vs : List Vtx) (p : Block × Nat) : Prop :=
  ∃ o ∈ ops, p.2 = o.id ∧ p.1.opId = o.id ∧ p.1.verts.map (locOf vs) = range8Corners o ∧
    (∀ i ∈ p.1.verts, i < vs.length) ∧ p.1.verts.length = 8

def GoodLists (ops : List Op) (l : Lists) : Prop :=
  l.blocks.length = l.assembled.length ∧ ∀ p ∈ l.blocks.zip l.assembled, GoodPair ops l.verts p

theorem map_locOf_append (vs ext : List Vtx) (is : List Nat) (h : ∀ i ∈ is, i < vs.length) :
    is.map (locOf (vs ++ ext)) = is.map (locOf vs) := by
  apply List.map_congr_left
  intro i hi
  exact locOf_append_left vs ext i (h i hi)

theorem goodLists_addOp (sl : List String) (ops : List Op) (l : Lists) (o : Op)
    (hg : GoodLists ops l) (ho : o ∈ ops) : GoodLists ops (addOp sl l o) := by
  obtain ⟨ext, hv, hlen, hall, hmap⟩ := addVerts_spec sl o l.verts
  obtain ⟨hl, hp⟩ := hg
  refine ⟨by simp [addOp, hl], ?_⟩
  intro p hpm
  simp only [addOp] at hpm
  rw [List.zip_append hl] at hpm
  simp only [List.mem_append, List.zip_cons_cons, List.zip_nil_right, List.mem_singleton] at hpm
  simp only [addOp]
  rcases hpm with hpm | hpm
  · obtain ⟨o', ho', h1, h1', h2, h3, h4⟩ := hp p hpm
    refine ⟨o', ho', h1, h1', ?_, ?_, h4⟩
    · rw [hv, map_locOf_append _ _ _ h3, h2]
    · intro i hi; rw [hv]; have := h3 i hi; simp; omega
  · subst hpm
    exact ⟨o, ho, rfl, rfl, hmap, hall, hlen⟩

theorem goodLists_foldl (sl : List String) (ops ops' : List Op) (l : Lists)
    (hg : GoodLists ops l) (hs : ∀ o ∈ ops', o ∈ ops) : GoodLists ops (ops'.foldl (addOp sl) l) := by
  induction ops' generalizing l with
  | nil => exact hg
  | cons o rest ih =>
    simp only [List.foldl_cons]
    apply ih
    · exact goodLists_addOp sl ops l o hg (hs o (by simp))
    · intro o' ho'; exact hs o' (by simp [ho'])

theorem foldl_addOp_verts_ne_nil (sl : List String) (ops : List Op) (l : Lists) (h : ops ≠ [] ∨ l.verts ≠ []) :
    (ops.foldl (addOp sl) l).verts ≠ [] := by
  induction ops generalizing l with
  | nil => simpa using h
  | cons o rest ih =>
    simp only [List.foldl_cons]
    apply ih
    right
    simp only [addOp]
    exact addVerts_ne_nil sl o l.verts

theorem foldl_addOp_blocks (sl : List String) (ops : List Op) (l : Lists) :
    (ops.foldl (addOp sl) l).blocks.map (·.opId) = l.blocks.map (·.opId) ++ ops.map (·.id) ∧
    (ops.foldl (addOp sl) l).assembled = l.assembled ++ ops.map (·.id) := by
  induction ops generalizing l with
  | nil => simp
  | cons o rest ih =>
    simp only [List.foldl_cons]
    obtain ⟨h1, h2⟩ := ih (addOp sl l o)
    rw [h1, h2]
    simp [addOp]

/-! ### the backport loop -/

def setCorners (cs : List Pt) (id : Nat) (o : Op) : Op := if o.id = id then { o with corners := cs } else o

theorem setCorners_id (cs : List Pt) (id : Nat) (o : Op) : (setCorners cs id o).id = o.id := by
  unfold setCorners; split <;> rfl

/-- what the loop does to one operation -/
def bpOne (vs : List Vtx) : List (Block × Nat) → Op → Op
  | [], o => o
  | (b, id) :: rest, o => bpOne vs rest (setCorners (b.verts.map (locOf vs)) id o)

theorem backportDepot_eq_map (vs : List Vtx) (pairs : List (Block × Nat)) (depot : List Op) :
    backportDepot vs pairs depot = depot.map (bpOne vs pairs) := by
  induction pairs generalizing depot with
  | nil => simp [backportDepot, bpOne]
  | cons p rest ih =>
    obtain ⟨b, id⟩ := p
    simp only [backportDepot]
    rw [ih]
    simp only [List.map_map]
    apply List.map_congr_left
    intro o _
    simp [bpOne, setCorners]

theorem bpOne_id (vs : List Vtx) (pairs : List (Block × Nat)) (o : Op) : (bpOne vs pairs o).id = o.id := by
  induction pairs generalizing o with
  | nil => rfl
  | cons p rest ih =>
    obtain ⟨b, id⟩ := p
    simp only [bpOne]
    rw [ih, setCorners_id]

/-- an operation without a block is left alone -/
theorem bpOne_untouched (vs : List Vtx) (pairs : List (Block × Nat)) (o : Op)
    (h : o.id ∉ pairs.map (·.2)) : bpOne vs pairs o = o := by
  induction pairs generalizing o with
  | nil => rfl
  | cons p rest ih =>
    obtain ⟨b, id⟩ := p
    simp only [List.map_cons, List.mem_cons, not_or] at h
    simp only [bpOne]
    have : setCorners (b.verts.map (locOf vs)) id o = o := by
      unfold setCorners; simp [h.1]
    rw [this]
    exact ih o h.2

/-- an operation with exactly one block receives the locations of that block's vertices -/
theorem bpOne_corners (vs : List Vtx) (pairs : List (Block × Nat)) (o : Op) (b : Block)
    (hn : (pairs.map (·.2)).Nodup) (hm : (b, o.id) ∈ pairs) :
    (bpOne vs pairs o).corners = b.verts.map (locOf vs) := by
  induction pairs generalizing o with
  | nil => simp at hm
  | cons p rest ih =>
    obtain ⟨b', id'⟩ := p
    simp only [List.map_cons, List.nodup_cons] at hn
    simp only [bpOne]
    simp only [List.mem_cons, Prod.mk.injEq] at hm
    rcases hm with ⟨hb, hid⟩ | hm
    · subst hb
      have h1 : setCorners (b.verts.map (locOf vs)) id' o = { o with corners := b.verts.map (locOf vs) } := by
        unfold setCorners; simp [hid]
      rw [h1, bpOne_untouched]
      simpa [hid] using hn.1
    · have hne : ¬ o.id = id' := by
        intro e
        apply hn.1
        rw [← e]
        exact List.mem_map.mpr ⟨(b, o.id), hm, rfl⟩
      have h1 : setCorners (b'.verts.map (locOf vs)) id' o = o := by
        unfold setCorners; simp [hne]
      rw [h1]
      exact ih o hn.2 hm

/-- when every operation already has the locations of its block's vertices, the loop changes nothing -/
theorem bpOne_aligned (vs : List Vtx) (pairs : List (Block × Nat)) (o : Op)
    (h : ∀ p ∈ pairs, o.id = p.2 → o.corners = p.1.verts.map (locOf vs)) : bpOne vs pairs o = o := by
  induction pairs generalizing o with
  | nil => rfl
  | cons p rest ih =>
    obtain ⟨b, id⟩ := p
    simp only [bpOne]
    have : setCorners (b.verts.map (locOf vs)) id o = o := by
      unfold setCorners
      split
      · rename_i e
        have := h (b, id) (by simp) e
        cases o
        simp_all
      · rfl
    rw [this]
    apply ih
    intro p hp; exact h p (by simp [hp])

/-! ### grading state does not matter for what is written -/

def ungradeB (b : Block) : Block := { b with aspec := [], wspec := [] }
def ungradeL (l : Lists) : Lists := { l with blocks := l.blocks.map ungradeB }
def ungrade (m : Mesh) : Mesh := { m with lists := ungradeL m.lists }

theorem gradeBlock_ungradeB (b : Block) : gradeBlock (ungradeB b) = gradeBlock b := rfl
theorem ungradeB_gradeBlock (b : Block) : ungradeB (gradeBlock b) = ungradeB b := rfl

theorem gradeBlocks_ungrade (m : Mesh) : gradeBlocks (ungrade m) = gradeBlocks m := by
  simp [gradeBlocks, ungrade, ungradeL, List.map_map, Function.comp_def, gradeBlock_ungradeB]

theorem ungrade_gradeBlocks (m : Mesh) : ungrade (gradeBlocks m) = ungrade m := by
  simp [gradeBlocks, ungrade, ungradeL, List.map_map, Function.comp_def, ungradeB_gradeBlock]

theorem addOp_ungradeL (sl : List String) (l : Lists) (o : Op) :
    addOp sl (ungradeL l) o = ungradeL (addOp sl l o) := by
  simp [addOp, ungradeL, ungradeB]

theorem foldl_addOp_ungradeL (sl : List String) (ops : List Op) (l : Lists) :
    ops.foldl (addOp sl) (ungradeL l) = ungradeL (ops.foldl (addOp sl) l) := by
  induction ops generalizing l with
  | nil => rfl
  | cons o rest ih => simp only [List.foldl_cons]; rw [addOp_ungradeL, ih]

theorem assemble_ungrade (m : Mesh) : assemble (ungrade m) = ungrade (assemble m) := by
  simp only [assemble_flat, ungrade, slavePatches, assembleLoop_eq_foldl, foldl_addOp_ungradeL]

theorem isAssembled_ungrade (m : Mesh) : isAssembled (ungrade m) = isAssembled m := rfl

theorem written_ungrade (m : Mesh) : written (ungrade m) = written m := by
  unfold written write
  by_cases h : isAssembled m
  · simp [h, isAssembled_ungrade, gradeBlocks_ungrade]
  · by_cases h2 : isAssembled (assemble m)
    · simp [h, h2, isAssembled_ungrade, gradeBlocks_ungrade, assemble_ungrade]
    · simp [h, h2, isAssembled_ungrade, assemble_ungrade]

/-! ### `clear(); assemble()` in closed form -/

/-- the round trip -/
def RT (m : Mesh) : Mesh := assemble (clear m)

theorem RT_lists (m : Mesh) :
    (RT m).lists =
      { (liveOps m).foldl (addOp (slavePatches m)) {} with
        patches := addItems (clearPatches m.lists.patches) (allItems (slavePatches m) (liveOps m) []) } := by
  simp only [RT, assemble_flat, clear, slavePatches, assembleLoop_eq_foldl]
  have := foldl_addOp_patches (m.merged.map (·.2)) (liveOps m) ({} : Lists) (clearPatches m.lists.patches)
  exact this

theorem RT_fields (m : Mesh) : (RT m).depot = m.depot ∧ (RT m).deleted = m.deleted ∧ (RT m).merged = m.merged ∧
    (RT m).modified = m.modified ∧ (RT m).dflt = m.dflt := ⟨rfl, rfl, rfl, rfl, rfl⟩

theorem liveOps_congr (a b : Mesh) (h1 : a.depot = b.depot) (h2 : a.deleted = b.deleted) : liveOps a = liveOps b := by
  simp [liveOps, h1, h2]

end CBV.C12
