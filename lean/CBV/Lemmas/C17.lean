/-
C17 — helper lemmas: distance along a line as a quadratic in the parameter, Pythagoras for the foot point on a
plane, the radius vector about an axis commutes with rotations about that axis.
-/
import CBV.Model.C17
import CBV.Lemmas.C09Algebra

namespace CBV.C17
open CBV CBV.C09

set_option linter.unusedSimpArgs false

macro "c17_unfold" : tactic =>
  `(tactic| simp only [lineClamp, planeClamp, planeInit, radialClamp, translationLink, symmetryLink, rotationLink,
      radial, rotLin, rotP, scaleP, mirLin, mirP, V3.dot, V3.norm2, V3.add_x, V3.add_y, V3.add_z,
      V3.sub_x, V3.sub_y, V3.sub_z, V3.neg_x, V3.neg_y, V3.neg_z, V3.smul_x, V3.smul_y, V3.smul_z,
      V3.cross_x, V3.cross_y, V3.cross_z, zero_x, zero_y, zero_z])

/-- squared distance from `pos` to the point `p1 + k·d` of a line -/
theorem dist_line (pos p1 d : V3) (k : Rat) :
    V3.norm2 (pos - (p1 + V3.smul k d)) = V3.norm2 (pos - p1) - 2 * k * V3.dot (pos - p1) d + k * k * V3.dot d d := by
  c17_unfold; ring

/-- with `s² = |d|²` the squared distance is `(t − m)²` plus a constant, `m` the signed foot-point distance -/
theorem dist_line_param (pos p1 p2 : V3) (s t : Rat) (hs : s ≠ 0) (hw : s * s = V3.dot (p2 - p1) (p2 - p1)) :
    V3.norm2 (pos - lineClamp p1 p2 s t) =
      V3.norm2 (pos - p1) - (V3.dot (pos - p1) (p2 - p1) / s) * (V3.dot (pos - p1) (p2 - p1) / s)
        + (t - V3.dot (pos - p1) (p2 - p1) / s) * (t - V3.dot (pos - p1) (p2 - p1) / s) := by
  unfold lineClamp
  rw [dist_line, ← hw]
  field_simp
  ring

theorem clampTo_mem (lo hi x : Rat) (h : lo ≤ hi) : lo ≤ clampTo lo hi x ∧ clampTo lo hi x ≤ hi := by
  unfold clampTo
  split
  · exact ⟨le_refl _, h⟩
  · split
    · exact ⟨h, le_refl _⟩
    · constructor <;> linarith

/-- the clamped value is at least as close to `m` as any value of the interval -/
theorem clampTo_closest (lo hi m t : Rat) (hlo : lo ≤ t) (hhi : t ≤ hi) :
    (clampTo lo hi m - m) * (clampTo lo hi m - m) ≤ (t - m) * (t - m) := by
  unfold clampTo
  split
  · nlinarith
  · split
    · nlinarith
    · nlinarith [mul_self_nonneg (t - m)]

theorem clampTo_id (lo hi x : Rat) (h1 : lo ≤ x) (h2 : x ≤ hi) : clampTo lo hi x = x := by
  unfold clampTo
  rw [if_neg (not_lt.mpr h1), if_neg (not_lt.mpr h2)]

/-- the radius vector about the axis `(o, a)` turns with a rotation about that axis -/
theorem radial_rot (w : Rat) (a o p : V3) (hN : w * w + V3.dot a a ≠ 0) :
    radial a o (rotP w a o p) = rotLin w a (radial a o p) := by
  have h1 : rotP w a o p - o = rotLin w a (p - o) := by
    unfold rotP; exact add_sub_cancel' _ _
  have h2 : V3.dot (rotLin w a (p - o)) a = V3.dot (p - o) a := by
    have := rotLin_dot w a (p - o) a hN
    rwa [rotLin_axis] at this
  unfold radial
  rw [h1, h2, rotLin_sub w a (V3.smul (V3.dot a a) (p - o)) (V3.smul (V3.dot (p - o) a) a),
    rotLin_smul, rotLin_smul, rotLin_axis]

/-- the radius vector is normal to the axis -/
theorem radial_perp (a o p : V3) : V3.dot a (radial a o p) = 0 := by
  c17_unfold; ring

/-- mirror: involution, and the plane is fixed pointwise -/
theorem T_C09_point_mirror_aux (n o l : V3) (hn : V3.dot n n ≠ 0) :
    symmetryLink n o (symmetryLink n o l) = l ∧ (V3.dot (l - o) n = 0 → symmetryLink n o l = l) := by
  unfold symmetryLink
  constructor
  · have h : mirP n o l - o = mirLin n (l - o) := by apply V3.ext' <;> c17_unfold <;> ring
    show mirLin n (mirP n o l - o) + o = l
    rw [h, mirLin_invol n _ hn, sub_add_cancel']
  · intro h
    show mirLin n (l - o) + o = l
    rw [mirLin_inplane n _ h, sub_add_cancel']

/-! ### writing follower points into the grid -/

theorem getD_set_eq' (l : List V3) (i : Nat) (v : V3) (h : i < l.length) : (l.set i v).getD i V3.zero = v := by
  simp [List.getD_eq_getElem?_getD, List.getElem?_set, h]

theorem getD_set_ne' (l : List V3) (i j : Nat) (v : V3) (h : i ≠ j) : (l.set i v).getD j V3.zero = l.getD j V3.zero := by
  simp [List.getD_eq_getElem?_getD, List.getElem?_set, h]

theorem foldl_set_length (links : List (Nat × (V3 → V3))) (p : V3) (acc : List V3) :
    (links.foldl (fun acc l => acc.set l.1 (l.2 p)) acc).length = acc.length := by
  induction links generalizing acc with
  | nil => rfl
  | cons l ls ih => simp only [List.foldl_cons]; rw [ih]; simp

theorem foldl_set_untouched (links : List (Nat × (V3 → V3))) (p : V3) (acc : List V3) (j : Nat)
    (hj : j ∉ links.map Prod.fst) :
    (links.foldl (fun acc l => acc.set l.1 (l.2 p)) acc).getD j V3.zero = acc.getD j V3.zero := by
  induction links generalizing acc with
  | nil => rfl
  | cons l ls ih =>
      simp only [List.map_cons, List.mem_cons, not_or] at hj
      simp only [List.foldl_cons]
      rw [ih _ hj.2]
      exact getD_set_ne' _ _ _ _ (fun h => hj.1 h.symm)

theorem foldl_set_written (links : List (Nat × (V3 → V3))) (p : V3) (acc : List V3) (l : Nat × (V3 → V3))
    (hnd : (links.map Prod.fst).Nodup) (hl : l ∈ links) (hlt : l.1 < acc.length) :
    (links.foldl (fun acc l => acc.set l.1 (l.2 p)) acc).getD l.1 V3.zero = l.2 p := by
  induction links generalizing acc with
  | nil => cases hl
  | cons x xs ih =>
      simp only [List.map_cons, List.nodup_cons] at hnd
      simp only [List.foldl_cons]
      rcases List.mem_cons.mp hl with h | h
      · subst h
        rw [foldl_set_untouched xs p _ _ hnd.1]
        exact getD_set_eq' _ _ _ hlt
      · exact ih _ hnd.2 h (by simp; exact hlt)

end CBV.C17