/-
C14 — cells inside a grid: the neighbour centres are computed from the grid (`C15.cellNbrs`), so a
rigid motion / scaling of *all grid points* leaves the signature of every cell unchanged.
-/
import CBV.Lemmas.C14Sig

namespace CBV.C14
open CBV

/-- every recorded neighbour of a cell is the position of a cell of the grid -/
theorem cellNbrs_lt (g : C15.Grid) (ci : Nat) :
    ∀ x ∈ C15.cellNbrs g ci, x = none ∨ ∃ cj, cj < g.cells.length ∧ x = some cj := by
  unfold C15.cellNbrs
  generalize hinit : List.replicate g.kind.sideIdx.length (none : Option Nat) = init
  have hI : ∀ x ∈ init, x = none ∨ ∃ cj, cj < g.cells.length ∧ x = some cj := by
    intro x hx; rw [← hinit] at hx; left; exact (List.mem_replicate.mp hx).2
  clear hinit
  have hr : ∀ cj ∈ List.range g.cells.length, cj < g.cells.length := fun cj h => List.mem_range.mp h
  generalize List.range g.cells.length = rng at hr
  induction rng generalizing init with
  | nil => simpa using hI
  | cons c cs ih =>
    simp only [List.foldl_cons]
    apply ih
    · intro x hx
      split at hx
      · exact hI x hx
      · split at hx
        · rcases List.mem_or_eq_of_mem_set hx with h | h
          · exact hI x h
          · right; exact ⟨c, hr c (List.mem_cons_self), h⟩
        · exact hI x hx
    · intro cj h; exact hr cj (List.mem_cons_of_mem _ h)

theorem cellNbrs_getD (g : C15.Grid) (ci i : Nat) :
    (C15.cellNbrs g ci).getD i none = none ∨
      ∃ cj, cj < g.cells.length ∧ (C15.cellNbrs g ci).getD i none = some cj := by
  by_cases h : i < (C15.cellNbrs g ci).length
  · exact cellNbrs_lt g ci _ (getD_mem_of_lt _ _ _ h)
  · left; simp [List.getD_eq_getElem?_getD, h]

/-- the grid is well formed for cells of `n` corners: every cell has `n` corners, all inside the point list -/
def GridOk (g : C15.Grid) (p : List V3) (n : Nat) : Prop :=
  0 < n ∧ ∀ c ∈ g.cells, c.length = n ∧ ∀ i ∈ c, i < p.length

theorem cellPts_map (f : V3 → V3) (p : List V3) (cell : List Nat) (h : ∀ i ∈ cell, i < p.length) :
    cellPts (p.map f) cell = (cellPts p cell).map f := map_pt_map f p cell h

theorem nb_rigid (g : C15.Grid) (p : List V3) (n : Nat) (hg : GridOk g p n) (ci i : Nat) (w : Rat) (a t : V3) :
    ((C15.cellNbrs g ci).getD i none).map (fun cj => avg (cellPts (p.map (rigid w a t)) (g.cells.getD cj []))) =
      (((C15.cellNbrs g ci).getD i none).map (fun cj => avg (cellPts p (g.cells.getD cj [])))).map (rigid w a t) := by
  rcases cellNbrs_getD g ci i with h | ⟨cj, hlt, h⟩
  · rw [h]; rfl
  · rw [h]
    have hm := getD_mem_of_lt g.cells [] cj hlt
    have hc := hg.2 _ hm
    simp only [Option.map_some]
    rw [cellPts_map _ _ _ hc.2, avg_map_rigid]
    intro hnil
    have hlen : (cellPts p (g.cells.getD cj [])).length = n := by
      unfold cellPts; rw [List.length_map]; exact hc.1
    rw [hnil] at hlen
    have h0 := hg.1
    simp at hlen
    omega

theorem nb_smul (g : C15.Grid) (p : List V3) (ci i : Nat) (k : Rat) :
    ((C15.cellNbrs g ci).getD i none).map (fun cj => avg (cellPts (p.map (V3.smul k)) (g.cells.getD cj []))) =
      (((C15.cellNbrs g ci).getD i none).map (fun cj => avg (cellPts p (g.cells.getD cj [])))).map (V3.smul k) := by
  cases (C15.cellNbrs g ci).getD i none with
  | none => rfl
  | some cj =>
    simp only [Option.map_some]
    rw [show cellPts (p.map (V3.smul k)) (g.cells.getD cj []) = (cellPts p (g.cells.getD cj [])).map (V3.smul k) from
      map_pt_map_smul k p _, avg_map_smul]

theorem finalPts_length (p : List V3) (ops : List HOp) : (finalPts p ops).length = p.length := by
  unfold finalPts
  induction ops generalizing p with
  | nil => rfl
  | cons o os ih =>
    cases o with
    | read => simp [List.foldl_cons, stepPts, ih]
    | update i v => simp [List.foldl_cons, stepPts, ih]
    | setAll q =>
      simp only [List.foldl_cons, stepPts]
      split
      · rename_i h; rw [ih]; exact h
      · exact ih p

end CBV.C14
