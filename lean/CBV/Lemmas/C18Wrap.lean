/-
C18 (round 6g) — `RoundSolidFinder.find_core / find_shell` on a `WrappedDisk` end face, in every placement.
Positions of the class (`[*square_points, *arc_points, *outer_points]`): 0–3 the inner square (`diagonal_ratio · radius`),
4–7 the points on the circle (`radius`), 8–11 the corners of the wrapping square (the corner point's distance).
-/
import CBV.Lemmas.C18Disk
import CBV.Lemmas.C11Wrap

namespace CBV.C18
open CBV.C19 (lookup sketchFromSource SketchIdx)
open CBV.C11 (P3 wrappedPts)
open CBV.C11.P3

/-- decided on the tables regenerated from the source (`quad_map`, `grid`, the slice of `find_shell`): the shell finder looks
    up exactly the positions 8–11, the core finder exactly 0–3; 4–7 are looked up by neither -/
def wrappedIdsOk : Bool :=
  match lookup "WrappedDisk" CBV.Gen.c19QuadMaps, sketchFromSource "WrappedDisk" with
  | some quads, some s =>
      (List.range 12).all (fun i =>
        ((shellIds quads s).contains i == decide (8 ≤ i)) && ((coreIds quads s).contains i == decide (i < 4))) &&
      (shellIds quads s).all (fun i => decide (i < 12)) && (coreIds quads s).all (fun i => decide (i < 12))
  | _, _ => false

theorem wrappedIds_table : wrappedIdsOk = true := by decide +kernel

theorem wrappedIds_spec (quads : List (List Nat)) (s : SketchIdx)
    (hq : lookup "WrappedDisk" CBV.Gen.c19QuadMaps = some quads) (hs : sketchFromSource "WrappedDisk" = some s) (k : Nat) :
    (k ∈ shellIds quads s ↔ 8 ≤ k ∧ k < 12) ∧ (k ∈ coreIds quads s ↔ k < 4) := by
  have hT := wrappedIds_table
  simp only [wrappedIdsOk, hq, hs, Bool.and_eq_true, List.all_eq_true, List.mem_range, decide_eq_true_eq, beq_iff_eq] at hT
  obtain ⟨⟨hall, hsh⟩, hco⟩ := hT
  constructor
  · constructor
    · intro hk
      have hlt := hsh k hk
      have := (hall k hlt).1
      rw [List.contains_iff_mem.mpr hk] at this
      exact ⟨of_decide_eq_true this.symm, hlt⟩
    · rintro ⟨h1, h2⟩
      have := (hall k h2).1
      rw [decide_eq_true h1] at this
      exact List.contains_iff_mem.mp this
  · constructor
    · intro hk
      have hlt := hco k hk
      have := (hall k hlt).2
      rw [List.contains_iff_mem.mpr hk] at this
      exact of_decide_eq_true this.symm
    · intro h1
      have := (hall k (by omega)).2
      rw [decide_eq_true h1] at this
      exact List.contains_iff_mem.mp this

variable {K : Type} [Field K] [LinearOrder K] [IsStrictOrderedRing K]

/-- the squared distance of every position from the centre, as a multiple of the corner point's:
    `(dg·rr)²` on the inner square, `rr²` on the circle (`rr = radius / |corner − centre|`), `1` on the corners -/
def wrappedFactor (dg rr : K) (i : Nat) : K :=
  if i < 4 then dg * rr * (dg * rr) else if i < 8 then rr * rr else 1

theorem wrapped_dist (c corner u : P3 K) (h dg radius wn : K) (hu : nsq u = 1) (hp : dot u (sub corner c) = 0)
    (i : Nat) (hi : i < 12) :
    nsq (sub ((wrappedPts c corner u h dg radius wn).getD i c) c) =
      wrappedFactor dg (radius / wn) i * nsq (sub corner c) := by
  rw [CBV.C11.wrappedPts_frame c corner u h dg radius wn hp, CBV.C11.getD_map_frame,
    CBV.C11.nsq_frame _ _ _ _ hu hp, CBV.C11.wrappedL_lit]
  interval_cases i <;> simp only [List.getD_cons_zero, List.getD_cons_succ, wrappedFactor] <;> norm_num <;> ring

end CBV.C18
