/-
C03 — histories of calls on one `Chop` object (`runHistory`): the parameter record is the whole state.
-/
import CBV.Lemmas.C03Calc

namespace CBV.C03

theorem runHistory_append (v : Vals) (a b : List Step) :
    runHistory v (a ++ b) =
      ((runHistory (runHistory v a).1 b).1, (runHistory v a).2 ++ (runHistory (runHistory v a).1 b).2) := by
  induction a generalizing v with
  | nil => simp [runHistory]
  | cons st rest ih =>
    cases st with
    | eval t L o => simp only [List.cons_append, runHistory, ih, List.cons_append]
    | assign q x => simp only [List.cons_append, runHistory, ih]
    | invert =>
      simp only [List.cons_append, runHistory]
      cases invert v with
      | ok w => simp only [ih, List.cons_append]
      | error e => simp only [ih, List.cons_append]

/-- whether the history contains an odd number of `invert` steps -/
def flipped : List Step → Bool
  | [] => false
  | .invert :: rest => !flipped rest
  | _ :: rest => flipped rest

def noAssign : List Step → Bool
  | [] => true
  | .assign _ _ :: _ => false
  | _ :: rest => noAssign rest

theorem invert_ok_symm {v w : Vals} (h : invert v = .ok w) : invert w = .ok v := by
  unfold invert at h
  split_ifs at h with h0
  simp only [pure, Except.pure, Except.ok.injEq] at h
  subst h
  push Not at h0
  unfold invert
  obtain ⟨c, s, e, r, T⟩ := v
  simp only at h0 ⊢
  have hr : r.map (fun c => 1 / c) ≠ some 0 := by
    cases r with
    | none => simp
    | some x => simp only [Option.map_some, ne_eq, Option.some.injEq, one_div, inv_eq_zero]; intro hx; exact h0.1 (by rw [hx])
  have hT : T.map (fun c => 1 / c) ≠ some 0 := by
    cases T with
    | none => simp
    | some x => simp only [Option.map_some, ne_eq, Option.some.injEq, one_div, inv_eq_zero]; intro hx; exact h0.2 (by rw [hx])
  rw [if_neg (by push Not; exact ⟨hr, hT⟩)]
  simp only [pure, Except.pure, Except.ok.injEq, Vals.mk.injEq, true_and]
  refine ⟨?_, ?_⟩
  · cases r <;> simp
  · cases T <;> simp

/-- without assignments the record after a history is the original one or its inversion, by parity -/
theorem runHistory_state {v w : Vals} (h : invert v = .ok w) :
    ∀ steps, noAssign steps = true →
      (runHistory v steps).1 = (if flipped steps then w else v) ∧
      (runHistory w steps).1 = (if flipped steps then v else w) := by
  have h' := invert_ok_symm h
  intro steps
  induction steps generalizing v w with
  | nil => intro _; simp [runHistory, flipped]
  | cons st rest ih =>
    intro hna
    cases st with
    | eval t L o =>
      simp only [runHistory, flipped]
      exact ih h h' (by simpa [noAssign] using hna)
    | assign q x => simp [noAssign] at hna
    | invert =>
      have hrest : noAssign rest = true := by simpa [noAssign] using hna
      obtain ⟨i1, i2⟩ := ih h' h hrest
      simp only [runHistory, flipped, h, h']
      rw [i1, i2]
      by_cases hf : flipped rest = true
      · simp [hf]
      · simp [hf]

end CBV.C03

namespace CBV.C03

/-! ### histories with preserving copies -/

theorem runObj_append (ob : Obj) (a b : List OStep) :
    runObj ob (a ++ b) = ((runObj (runObj ob a).1 b).1, (runObj ob a).2 ++ (runObj (runObj ob a).1 b).2) := by
  induction a generalizing ob with
  | nil => simp [runObj]
  | cons st rest ih =>
    cases st with
    | plain s => simp only [List.cons_append, runObj, ih]
    | copy inv t L o => simp only [List.cons_append, runObj, ih]

theorem Obj.step_params (ob : Obj) (s : Step) : (ob.step s).1.params = (runHistory ob.params [s]).1 := by
  cases s <;> rfl

/-- the parameter record of the object only follows the calls made on the object itself -/
theorem runObj_params (ob : Obj) (steps : List OStep) :
    (runObj ob steps).1.params = (runHistory ob.params (plainSteps steps)).1 := by
  induction steps generalizing ob with
  | nil => rfl
  | cons st rest ih =>
    cases st with
    | copy inv t L o => simp only [runObj, plainSteps, ih]
    | plain s =>
      simp only [runObj, plainSteps]
      rw [ih, Obj.step_params]
      have := runHistory_append ob.params [s] (plainSteps rest)
      simp only [List.singleton_append] at this
      rw [this]

end CBV.C03
