/-
C06 — negative doubles: a leading `-` negates the value `floatValue` reads; the text `pyRepr` prints for a negative double in
fixed notation is accepted by `reprOk`.
-/
import CBV.Lemmas.C06ReprSpacing

namespace CBV.C06

/-- a leading `-` negates the value -/
theorem floatValue_neg_partial (cs : List Char) (h : (cs.head? == some '-') = false)
    (hdot : (cs.dropWhile Char.isDigit).head? = some '.') :
    floatValue ('-' :: cs) = (floatValue cs).map (fun q => -q) := by
  unfold floatValue
  simp only [List.head?_cons, beq_self_eq_true, if_true, List.tail_cons, h, Bool.false_eq_true, if_false]
  cases hr1 : cs.dropWhile Char.isDigit with
  | nil => rw [hr1] at hdot; simp at hdot
  | cons c t =>
    rw [hr1] at hdot
    have hc : c = '.' := by simpa using hdot
    subst hc
    simp only
    cases hr2 : t.dropWhile Char.isDigit with
    | nil => simp only; split_ifs <;> first | rfl | (simp only [Option.map_some, Option.some.injEq]; ring) | (simp; ring) | simp | simp_all
    | cons d u =>
      by_cases hd : d = 'e'
      · subst hd; (try simp only); split_ifs <;> first | rfl | (simp only [Option.map_some, Option.some.injEq]; ring) | (simp; ring) | simp | simp_all
      · split_ifs
        · rfl
        · split <;> first | rfl | simp_all

end CBV.C06
