/-
C06 — negative doubles: a leading `-` negates the value `floatValue` reads; the text `pyRepr` prints for a negative double in
fixed notation is accepted by `reprOk`.
-/
import CBV.Lemmas.C06ReprSpacing

namespace CBV.C06

/-- a leading `-` negates the value -/
theorem floatValue_neg_partial (cs : List Char) (h : (cs.head? == some '-') = false)
    (hdot : (cs.dropWhile Char.isDigit).head? = some '.') :
    floatValue ('-' :: cs) = (floatValue cs).map (fun q => -q) := by
  unfold floatValue
  simp only [List.head?_cons, beq_self_eq_true, if_true, List.tail_cons, h, Bool.false_eq_true, if_false]
  cases hr1 : cs.dropWhile Char.isDigit with
  | nil => rw [hr1] at hdot; simp at hdot
  | cons c t =>
    rw [hr1] at hdot
    have hc : c = '.' := by simpa using hdot
    subst hc
    simp only
    cases hr2 : t.dropWhile Char.isDigit with
    | nil => simp only; split_ifs <;> first | rfl | (simp only [Option.map_some, Option.some.injEq]; ring) | (simp; ring) | simp | simp_all
    | cons d u =>
      by_cases hd : d = 'e'
      · subst hd; (try simp only); split_ifs <;> first | rfl | (simp only [Option.map_some, Option.some.injEq]; ring) | (simp; ring) | simp | simp_all
      · split_ifs
        · rfl
        · split <;> first | rfl | simp_all

theorem halfUlp_neg (x : Rat) : halfUlp (-x) = halfUlp x := by
  unfold halfUlp; simp [Rat.neg_num, Rat.neg_den]

theorem isPow2_neg (x : Rat) : isPow2 (-x) = isPow2 x := by
  unfold isPow2; simp [Rat.neg_num]

theorem absR_neg (x : Rat) : absR (-x) = absR x := by
  unfold absR
  by_cases h : x < 0
  · have : ¬ (-x < 0) := by linarith
    simp [h, this]
  · by_cases h0 : x = 0
    · subst h0; simp
    · have : -x < 0 := by
        have : 0 < x := lt_of_le_of_ne (not_lt.mp h) (Ne.symm h0)
        linarith
      simp [h, this]

theorem mantEven_neg (x : Rat) : mantEven (-x) = mantEven x := by
  unfold mantEven; rw [absR_neg, halfUlp_neg]

/-- the rounding interval is symmetric: `q > 0` rounds to `−x > 0` iff `−q` rounds to `x` -/
theorem inRound_neg_of_pos (x q : Rat) (hx : x < 0) (hq : 0 < q) (h : inRound (-x) q = true) :
    inRound x (-q) = true := by
  have a1 : absR (-x) = -x := by unfold absR; simp [not_lt.mpr (by linarith : (0 : Rat) ≤ -x)]
  have a2 : absR x = -x := by rw [← absR_neg, a1]
  have a3 : absR q = q := by unfold absR; simp [not_lt.mpr hq.le]
  have a4 : absR (-q) = q := by rw [absR_neg, a3]
  unfold inRound at h ⊢
  simp only [a1, a2, a3, a4, halfUlp_neg, isPow2_neg, mantEven_neg, Bool.and_eq_true] at h ⊢
  refine ⟨?_, h.2⟩
  apply decide_eq_true
  constructor
  · intro _; linarith
  · intro _; exact hx

/-- the fixed-notation layout has its decimal point right after the leading digits -/
theorem reprLayout_fixed_dot (ds : List Char) (dp : Int) (hne : ds ≠ []) (hd : ∀ c ∈ ds, c.isDigit = true)
    (h1 : -4 < dp) (h2 : dp ≤ 16) : ((reprLayout ds dp).dropWhile Char.isDigit).head? = some '.' := by
  have hdot : Char.isDigit '.' = false := by decide
  unfold reprLayout
  simp only [h1, h2, and_self, if_true]
  by_cases hA : dp ≤ 0
  · simp only [hA, if_true]
    have := dropWhile_append_stop (p := Char.isDigit) ['0'] '.' (List.replicate (-dp).toNat '0' ++ ds)
      (by intro c hc; simp at hc; rw [hc]; decide) hdot
    simp only [List.singleton_append] at this
    rw [this]; rfl
  · simp only [hA, if_false]
    by_cases hB : ds.length ≤ dp.toNat
    · simp only [hB, if_true, List.append_assoc]
      have hip : ∀ c ∈ ds ++ List.replicate (dp.toNat - ds.length) '0', c.isDigit = true := by
        intro c hc
        rcases List.mem_append.mp hc with hc | hc
        · exact hd c hc
        · rw [List.mem_replicate] at hc; rw [hc.2]; decide
      have := dropWhile_append_stop (p := Char.isDigit) (ds ++ List.replicate (dp.toNat - ds.length) '0') '.' ['0'] hip hdot
      simp only [List.append_assoc] at this
      rw [this]; rfl
    · simp only [hB, if_false]
      have := dropWhile_append_stop (p := Char.isDigit) (ds.take dp.toNat) '.' (ds.drop dp.toNat)
        (fun c hc => hd c (List.mem_of_mem_take hc)) hdot
      rw [this]; rfl

/-- **the generator's text is accepted (fixed notation, negative doubles)** -/
theorem reprOk_pyReprChars_fixed_neg (x : Rat) (hx : x < 0) (hdy : x.den = 2 ^ Nat.log2 x.den) (m : Nat) (e : Int)
    (h : shortestFrom x (absR x) (decPoint (absR x)) 17 1 = some (m, e))
    (h1 : -4 < ((Nat.toDigits 10 (stripZeros 20 m e).1).length : Int) + (stripZeros 20 m e).2)
    (h2 : ((Nat.toDigits 10 (stripZeros 20 m e).1).length : Int) + (stripZeros 20 m e).2 ≤ 16) :
    reprOk true x (pyReprChars true x) = true := by
  have hx0 : x ≠ 0 := ne_of_lt hx
  have habs : absR x = -x := by unfold absR; simp [hx]
  have hchars : pyReprChars true x =
      '-' :: reprLayout (Nat.toDigits 10 (stripZeros 20 m e).1)
        (((Nat.toDigits 10 (stripZeros 20 m e).1).length : Int) + (stripZeros 20 m e).2) := by
    unfold pyReprChars
    simp only [if_true, hx0, if_false, h, List.singleton_append]
  have hds : ∀ c ∈ Nat.toDigits 10 (stripZeros 20 m e).1, c.isDigit = true := digits_isDigit _
  have hval := floatValue_reprLayout_fixed _ _ Nat.toDigits_ne_nil hds h1 h2
  have hhead := reprLayout_fixed_head _ _ Nat.toDigits_ne_nil hds h1 h2
  have hdot := reprLayout_fixed_dot _ _ Nat.toDigits_ne_nil hds h1 h2
  have hq : ((Nat.ofDigitChars 10 (Nat.toDigits 10 (stripZeros 20 m e).1) 0 : Nat) : Rat) *
      pow10R (((Nat.toDigits 10 (stripZeros 20 m e).1).length : Int) + (stripZeros 20 m e).2 -
        ((Nat.toDigits 10 (stripZeros 20 m e).1).length : Int)) =
      ((m : Nat) : Rat) * pow10R e := by
    rw [Nat.ofDigitChars_ten_toDigits, add_sub_cancel_left]
    exact stripZeros_value 20 m e
  have hin := shortestFrom_sound x (absR x) _ 17 1 m e h
  rw [habs] at hin
  -- the decimal is positive: it is within half an ulp of |x| and half an ulp is at most |x|·2⁻⁵³
  have hclose := inRound_close _ _ hin
  have hxd : (-x).den = 2 ^ Nat.log2 (-x).den := by simpa [Rat.neg_den] using hdy
  have hule := halfUlp_le (-x) (by linarith [hx] : -x ≠ 0) hxd
  have habs' : absR (-x) = -x := by rw [absR_neg, habs]
  rw [habs'] at hule
  have hh := halfUlp_nonneg (-x)
  have hqpos : 0 < ((m : Nat) : Rat) * pow10R e := by
    have c53 : ((2 ^ 53 : Nat) : Rat) = 9007199254740992 := by norm_num
    rw [c53] at hule
    nlinarith [hclose.2]
  have hfin := inRound_neg_of_pos x _ hx hqpos hin
  unfold reprOk
  rw [hchars, floatValue_neg_partial _ hhead hdot, hval, hq]
  simp only [Option.map_some, List.head?_cons, beq_self_eq_true, hx0, if_false, hfin, Bool.and_true]

end CBV.C06
