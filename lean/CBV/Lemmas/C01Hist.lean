/-
C01/C02/C04 — lemmas about M-HIST (Model/C01Hist.lean): chop managers keep the user's chops through a run, a reset
memory is the initial state, a session equals its specification.
-/
import CBV.Model.C01Hist
import CBV.Lemmas.C01Own

namespace CBV.Prop

/-- chop managers keep the user's chops through grading and propagation -/
def Keeps (inp : Inp) (st : St) : Prop :=
  ∀ y, y < 3 * inp.nBlocks → userChopped inp y = true → chopsOf st y = inp.chops y

theorem chopsOf_addChops_ne (st : St) (x y : Nat) (cs : List Chop) (h : y ≠ x) :
    chopsOf (addChops st x cs) y = chopsOf st y := by
  simp [chopsOf, addChops, h]

theorem axisCopy_keeps (inp : Inp) (st st' : St) (x : Nat) (b : Bool) (hi : Inv inp st) (hk : Keeps inp st)
    (h : axisCopy inp st x = .ok (st', b)) : Keeps inp st' := by
  unfold axisCopy at h
  split at h
  · cases h; exact hk
  · rename_i hnd
    split at h
    · cases h; exact hk
    · split at h
      · cases h
      · cases h
        intro y hy hu
        have hyx : y ≠ x := by
          intro e; subst e
          exact hnd (own_defined inp st y hu (hi y hy hu))
        rw [gradeAxis_chops, chopsOf_addChops_ne _ _ _ _ hyx]
        exact hk y hy hu
      · cases h
        intro y hy hu
        have hyx : y ≠ x := by
          intro e; subst e
          exact hnd (own_defined inp st y hu (hi y hy hu))
        rw [gradeAxis_chops, chopsOf_addChops_ne _ _ _ _ hyx]
        exact hk y hy hu

theorem blockCopy_keeps (inp : Inp) (st st' : St) (b : Nat) (u : Bool) (hi : Inv inp st) (hk : Keeps inp st)
    (h : blockCopy inp st b = .ok (st', u)) : Keeps inp st' := by
  unfold blockCopy at h
  split at h
  · cases h; exact hk
  · split at h
    · cases h
    · rename_i r0 h0
      split at h
      · cases h
      · rename_i r1 h1
        split at h
        · cases h
        · rename_i r2 h2
          cases h
          have i0 := axisCopy_inv inp st r0.1 _ r0.2 hi h0
          have i1 := axisCopy_inv inp r0.1 r1.1 _ r1.2 i0 h1
          have k0 := axisCopy_keeps inp st r0.1 _ r0.2 hi hk h0
          have k1 := axisCopy_keeps inp r0.1 r1.1 _ r1.2 i0 k0 h1
          exact axisCopy_keeps inp r1.1 r2.1 _ r2.2 i1 k1 h2

theorem pass_keeps (inp : Inp) (wl : List Nat) : ∀ (st : St) (r : St × List Nat × Bool), Inv inp st → Keeps inp st →
    pass inp st wl = .ok r → Keeps inp r.1 := by
  induction wl with
  | nil => intro st r _ hk h; unfold pass at h; cases h; exact hk
  | cons b rest ih =>
    intro st r hi hk h
    unfold pass at h
    split at h
    · cases h; exact hk
    · split at h
      · cases h
      · rename_i rb hb
        split at h
        · cases h
        · rename_i p hp
          cases h
          exact ih rb.1 p (blockCopy_inv inp st rb.1 b rb.2 hi hb) (blockCopy_keeps inp st rb.1 b rb.2 hi hk hb) hp

theorem loop_keeps (inp : Inp) : ∀ (fuel : Nat) (st st' : St) (wl : List Nat), Inv inp st → Keeps inp st →
    loop inp fuel st wl = .ok st' → Keeps inp st' := by
  intro fuel
  induction fuel with
  | zero => intro st st' wl _ _ h; unfold loop at h; cases h
  | succ f ih =>
    intro st st' wl hi hk h
    unfold loop at h
    split at h
    · cases h; exact hk
    · split at h
      · cases h
      · rename_i r hr
        split at h
        · exact ih r.1 st' r.2.1 (pass_inv inp _ st r hi hr) (pass_keeps inp _ st r hi hk hr) h
        · cases h

/-- whenever `run` succeeds, every chop manager still holds exactly the user's chops -/
theorem run_keeps (inp : Inp) (st : St) (h : run inp = .ok st) : Keeps inp st := by
  unfold run at h
  split at h
  · cases h
  · split at h
    · cases h
    · rename_i st0 hl
      split at h
      · cases h
        refine loop_keeps inp _ _ st _ (gradeBlocks_inv inp) ?_ hl
        intro y _ _
        exact (gradeBlocks_fold inp (3 * inp.nBlocks)).1 y
      · cases h

/-! ### sessions -/


/-- well-formed memory: a chop manager holds at least one chop and sits on an axis of the mesh -/
def Mem.WF (m : Mem) (sched : Inp) : Prop :=
  ∀ x, m.chopMgr x = true → m.st.mch x ≠ [] ∧ x < 3 * sched.nBlocks

theorem reset_userChops (m : Mem) : m.reset.userChops = m.userChops := by
  funext x
  simp only [Mem.userChops, Mem.reset]
  split <;> rfl

theorem reset_inp (m : Mem) (sched : Inp) : m.reset.inp sched = m.inp sched := by
  simp only [Mem.inp, reset_userChops]

/-- `Mesh.grade()` on any memory is the fresh run on the user's chops of the moment -/
theorem grade_is_run (m : Mem) (sched : Inp) : m.grade sched = run (m.inp sched) := by
  unfold Mem.grade Mem.gradeFrom run
  rw [reset_inp]
  rfl

theorem userChopped_eq (m : Mem) (sched : Inp) (hw : m.WF sched) (x : Nat) :
    userChopped (m.inp sched) x = m.chopMgr x := by
  simp only [userChopped, Mem.inp, Mem.userChops]
  cases hc : m.chopMgr x with
  | false => simp
  | true =>
    have := (hw x hc).1
    simp only [if_true]
    cases hm : m.st.mch x with
    | nil => exact absurd hm this
    | cons a as => rfl

theorem count_map_plain (cs : List Chop) :
    count (cs.map (fun c => (⟨c.ratio, c.count, 1⟩ : Sec))) = (cs.map (·.count)).sum := by
  unfold count
  induction cs with
  | nil => rfl
  | cons c cs ih => simp [List.map_cons, List.sum_cons] at ih ⊢; omega

theorem writtenCount_eq (m : Mem) (sched : Inp) (hw : m.WF sched) (st : St) (x : Nat) (hx : x < 3 * sched.nBlocks) :
    m.writtenCount sched st x = writtenCount (m.inp sched) st x := by
  unfold Mem.writtenCount writtenCount
  rw [userChopped_eq m sched hw x]
  cases hc : m.chopMgr x with
  | false => simp
  | true =>
    simp only [if_true]
    have : gradeAxisSpecs sched m.reset x = (m.userChops x).map (fun c => (⟨c.ratio, c.count, 1⟩ : Sec)) := by
      simp [gradeAxisSpecs, Mem.reset, hc, hx, Mem.userChops]
    rw [this, count_map_plain]
    rfl

theorem outOf_eq (m : Mem) (sched : Inp) (hw : m.WF sched) : outOf m sched = specOut sched m.userChops := by
  unfold outOf specOut
  rw [grade_is_run]
  show (match run (m.inp sched) with | .ok st => _ | .error e => _) = (match run (m.inp sched) with | .ok st => _ | .error e => _)
  cases run (m.inp sched) with
  | error e => rfl
  | ok st =>
    simp only
    congr 1
    apply List.map_congr_left
    intro x hx
    exact writtenCount_eq m sched hw st x (List.mem_range.mp hx)

theorem afterGrade_spec (m : Mem) (sched : Inp) (hw : m.WF sched) :
    (m.afterGrade sched).userChops = m.userChops ∧ (m.afterGrade sched).WF sched := by
  unfold Mem.afterGrade
  cases hg : m.grade sched with
  | error e =>
    simp only
    refine ⟨reset_userChops m, ?_⟩
    intro x hc
    have hc' : m.chopMgr x = true := hc
    refine ⟨?_, (hw x hc').2⟩
    show m.userChops x ≠ []
    simp only [Mem.userChops, hc', if_true]
    exact (hw x hc').1
  | ok st =>
    simp only
    rw [grade_is_run] at hg
    have hk := run_keeps (m.inp sched) st hg
    have key : ∀ x, m.chopMgr x = true → st.mch x = m.userChops x := by
      intro x hc
      have hx := (hw x hc).2
      have := hk x hx (by rw [userChopped_eq m sched hw x]; exact hc)
      exact this
    refine ⟨?_, ?_⟩
    · funext x
      simp only [Mem.userChops, Mem.reset]
      by_cases hc : m.chopMgr x = true
      · simp only [hc, if_true]; rw [key x hc]; simp [Mem.userChops, hc]
      · simp [hc]
    · intro x hc
      have hc' : m.chopMgr x = true := hc
      refine ⟨?_, (hw x hc').2⟩
      show st.mch x ≠ []
      rw [key x hc']
      simp only [Mem.userChops, hc', if_true]
      exact (hw x hc').1

theorem chop_spec (m : Mem) (sched : Inp) (hw : m.WF sched) (x : Nat) (c : Chop) (hx : x < 3 * sched.nBlocks) :
    (m.chop x c).userChops = (fun z => if z = x then m.userChops z ++ [c] else m.userChops z) ∧
      (m.chop x c).WF sched := by
  unfold Mem.chop
  cases hc : m.chopMgr x with
  | true =>
    simp only [if_true]
    refine ⟨?_, ?_⟩
    · funext z
      simp only [Mem.userChops, addChops]
      by_cases hz : z = x
      · subst hz; simp [hc]
      · simp [hz]
    · intro z hz
      have hz' : m.chopMgr z = true := hz
      refine ⟨?_, (hw z hz').2⟩
      show (addChops m.st x [c]).mch z ≠ []
      simp only [addChops]
      by_cases e : z = x
      · subst e; simp
      · simp [e]; exact (hw z hz').1
  | false =>
    simp only [Bool.false_eq_true, if_false]
    refine ⟨?_, ?_⟩
    · funext z
      simp only [Mem.userChops]
      by_cases hz : z = x
      · subst hz; simp [hc]
      · simp [hz]
    · intro z hz
      by_cases e : z = x
      · subst e; exact ⟨by simp, hx⟩
      · have hz' : m.chopMgr z = true := by simpa [e] using hz
        refine ⟨?_, (hw z hz').2⟩
        simp [e]; exact (hw z hz').1

/-- every `write` of a session gives what a fresh mesh with the chops placed so far gives — whatever the earlier
    calls left behind (completed gradings, half-done gradings of a call that raised, copied chops) -/
theorem session_is_spec (sched : Inp) (calls : List Call) :
    ∀ m : Mem, m.WF sched → session sched m calls = specSession sched m.userChops calls := by
  induction calls with
  | nil => intro m _; rfl
  | cons call rest ih =>
    intro m hw
    cases call with
    | write =>
      simp only [session, specSession]
      rw [outOf_eq m sched hw]
      have := afterGrade_spec m sched hw
      rw [ih _ this.2, this.1]
    | chop x c =>
      simp only [session, specSession]
      by_cases hx : x < 3 * sched.nBlocks
      · simp only [hx, if_true]
        have := chop_spec m sched hw x c hx
        rw [ih _ this.2, this.1]
      · simp only [hx, if_false]
        exact ih m hw

/-- the memory of a freshly assembled mesh -/
def freshMem (inp : Inp) : Mem :=
  { st := init inp, chopMgr := fun x => !(inp.chops x).isEmpty, axisSpec := fun _ => [] }

theorem freshMem_WF (inp : Inp) (h : ∀ x, inp.chops x ≠ [] → x < 3 * inp.nBlocks) : (freshMem inp).WF inp := by
  intro x hx
  have hne : inp.chops x ≠ [] := by
    intro e; simp [freshMem, e] at hx
  exact ⟨hne, h x hne⟩

theorem freshMem_userChops (inp : Inp) : (freshMem inp).userChops = inp.chops := by
  funext x
  simp only [Mem.userChops, freshMem, init]
  by_cases hc : inp.chops x = []
  · simp [hc]
  · have : (inp.chops x).isEmpty = false := by
      cases h : inp.chops x with
      | nil => exact absurd h hc
      | cons a as => rfl
    simp [this]

end CBV.Prop
