/-
C17 — the relation of a `RotationLink` (same height, same radius, same cosine and sine of the turn) determines the
follower: decomposition of a vector normal to the axis along `r` and `a × r`; curve and surface clamps of the
exactly representable families.
-/
import CBV.Lemmas.C17
import Mathlib.Algebra.Order.Field.Basic

namespace CBV.C17
open CBV CBV.C09

set_option linter.unusedSimpArgs false

/-- a vector `d` normal to `a` is determined by its components along `r` and `a × r` (for `r` normal to `a`):
    `|a|²|r|² d = |a|²(d·r) r + (d·(a×r)) (a×r)` -/
theorem plane_decomp (a r d : V3) (har : V3.dot a r = 0) (had : V3.dot a d = 0) :
    V3.smul (V3.dot a a * V3.dot r r) d =
      V3.smul (V3.dot a a * V3.dot d r) r + V3.smul (V3.dot d (V3.cross a r)) (V3.cross a r) := by
  simp only [V3.dot] at har had
  apply V3.ext' <;> c17_unfold
  · linear_combination ((a.x * r.x + a.y * r.y + a.z * r.z) * d.x - (d.x * r.x + d.y * r.y + d.z * r.z) * a.x) * har + (-(a.x * r.x + a.y * r.y + a.z * r.z) * r.x + (r.x * r.x + r.y * r.y + r.z * r.z) * a.x) * had
  · linear_combination ((a.x * r.x + a.y * r.y + a.z * r.z) * d.y - (d.x * r.x + d.y * r.y + d.z * r.z) * a.y) * har + (-(a.x * r.x + a.y * r.y + a.z * r.z) * r.y + (r.x * r.x + r.y * r.y + r.z * r.z) * a.y) * had
  · linear_combination ((a.x * r.x + a.y * r.y + a.z * r.z) * d.z - (d.x * r.x + d.y * r.y + d.z * r.z) * a.z) * har + (-(a.x * r.x + a.y * r.y + a.z * r.z) * r.z + (r.x * r.x + r.y * r.y + r.z * r.z) * a.z) * had

theorem norm2_eq_zero (x : V3) (h : V3.norm2 x = 0) : x = V3.zero := by
  simp only [V3.norm2, V3.dot] at h
  have hx : x.x = 0 := by nlinarith [mul_self_nonneg x.x, mul_self_nonneg x.y, mul_self_nonneg x.z]
  have hy : x.y = 0 := by nlinarith [mul_self_nonneg x.x, mul_self_nonneg x.y, mul_self_nonneg x.z]
  have hz : x.z = 0 := by nlinarith [mul_self_nonneg x.x, mul_self_nonneg x.y, mul_self_nonneg x.z]
  apply V3.ext' <;> simp [hx, hy, hz, zero_x, zero_y, zero_z]

/-- a point is determined by its height along the axis and its radius vector -/
theorem point_of_radial (a o p q : V3) (ha : V3.dot a a ≠ 0) (hh : V3.dot (p - o) a = V3.dot (q - o) a)
    (hr : radial a o p = radial a o q) : p = q := by
  have h1 : ∀ x : V3, V3.smul (V3.dot a a) (x - o) = radial a o x + V3.smul (V3.dot (x - o) a) a := by
    intro x; apply V3.ext' <;> c17_unfold <;> ring
  have h2 : V3.smul (V3.dot a a) (p - o) = V3.smul (V3.dot a a) (q - o) := by rw [h1 p, h1 q, hh, hr]
  have hx := congrArg V3.x h2
  have hy := congrArg V3.y h2
  have hz := congrArg V3.z h2
  simp only [V3.smul_x, V3.smul_y, V3.smul_z, V3.sub_x, V3.sub_y, V3.sub_z] at hx hy hz
  apply V3.ext'
  · have := mul_left_cancel₀ ha hx; linarith
  · have := mul_left_cancel₀ ha hy; linarith
  · have := mul_left_cancel₀ ha hz; linarith

/-- **uniqueness**: two radius vectors normal to the axis with the same length, the same dot product and the same
    axial component of the cross product with a third one (`r`) are equal -/
theorem radial_unique (a r x y : V3) (ha : V3.dot a a ≠ 0) (har : V3.dot a r = 0) (hax : V3.dot a x = 0)
    (hay : V3.dot a y = 0) (hn : V3.norm2 x = V3.norm2 r) (hn' : V3.norm2 y = V3.norm2 r)
    (hd : V3.dot r x = V3.dot r y) (hc : V3.dot (V3.cross r x) a = V3.dot (V3.cross r y) a) : x = y := by
  by_cases hr : V3.norm2 r = 0
  · rw [norm2_eq_zero x (by rw [hn, hr]), norm2_eq_zero y (by rw [hn', hr])]
  · have had : V3.dot a (x - y) = 0 := by
      simp only [V3.dot] at hax hay; c17_unfold; linarith
    have h1 : V3.dot (x - y) r = 0 := by
      simp only [V3.dot] at hd; c17_unfold; linarith
    have h2 : V3.dot (x - y) (V3.cross a r) = 0 := by
      simp only [V3.dot] at hc
      c17_unfold
      simp only [V3.cross_x, V3.cross_y, V3.cross_z] at hc
      linarith
    have h := plane_decomp a r (x - y) har had
    rw [h1, h2] at h
    have hz : V3.smul (V3.dot a a * V3.dot r r) (x - y) = V3.zero := by
      rw [h]; apply V3.ext' <;> c17_unfold <;> ring
    have hne : V3.dot a a * V3.dot r r ≠ 0 := mul_ne_zero ha hr
    have hx := congrArg V3.x hz
    have hy := congrArg V3.y hz
    have hzz := congrArg V3.z hz
    simp only [V3.smul_x, V3.smul_y, V3.smul_z, V3.sub_x, V3.sub_y, V3.sub_z, zero_x, zero_y, zero_z] at hx hy hzz
    apply V3.ext'
    · rcases mul_eq_zero.mp hx with h | h
      · exact absurd h hne
      · linarith
    · rcases mul_eq_zero.mp hy with h | h
      · exact absurd h hne
      · linarith
    · rcases mul_eq_zero.mp hzz with h | h
      · exact absurd h hne
      · linarith

/-! ### polyline evaluation -/

/-- the value of `polyEval` lies on one segment of the polyline: a convex combination of two consecutive knots' points -/
theorem polyEval_on_segment : ∀ (ks : List (Rat × V3)) (t : Rat) (p : V3), knotsOk ks = true → polyEval ks t = some p →
    ∃ a b lam, (a, b) ∈ ks.zip ks.tail ∧ 0 ≤ lam ∧ lam ≤ 1 ∧ a.1 ≤ t ∧ t ≤ b.1 ∧
      p = a.2 + V3.smul lam (b.2 - a.2) ∧ lam * (b.1 - a.1) = t - a.1
  | [], _, _, _, h => by simp [polyEval] at h
  | [_], _, _, _, h => by simp [polyEval] at h
  | a :: b :: rest, t, p, hk, h => by
      simp only [knotsOk, Bool.and_eq_true, decide_eq_true_eq] at hk
      simp only [polyEval] at h
      by_cases h1 : t < a.1
      · simp [h1] at h
      · by_cases h2 : t ≤ b.1
        · simp only [h1, h2, if_false, if_true, Option.some.injEq] at h
          have hpos : 0 < b.1 - a.1 := by linarith [hk.1]
          refine ⟨a, b, (t - a.1) / (b.1 - a.1), by simp, ?_, ?_, by linarith [not_lt.mp h1], h2, h.symm, ?_⟩
          · exact div_nonneg (by linarith [not_lt.mp h1]) hpos.le
          · rw [div_le_iff₀ hpos]; linarith
          · field_simp
        · simp only [h1, h2, if_false] at h
          obtain ⟨a', b', lam, hm, r1, r2, r3, r4, r5, r6⟩ := polyEval_on_segment (b :: rest) t p hk.2 h
          refine ⟨a', b', lam, ?_, r1, r2, r3, r4, r5, r6⟩
          simp only [List.tail_cons, List.zip_cons_cons, List.mem_cons] at hm ⊢
          right; exact hm

/-- inside the knot range `polyEval` answers -/
theorem polyEval_defined : ∀ (ks : List (Rat × V3)) (t : Rat) (k0 : Rat × V3), ks.head? = some k0 → 2 ≤ ks.length →
    k0.1 ≤ t → (∀ kl, ks.getLast? = some kl → t ≤ kl.1) → (polyEval ks t).isSome = true
  | [], _, _, h, _, _, _ => by simp at h
  | [_], _, _, _, h2, _, _ => by simp at h2
  | a :: b :: rest, t, k0, hh, _, h0, hl => by
      simp only [List.head?_cons, Option.some.injEq] at hh
      subst hh
      simp only [polyEval, not_lt.mpr h0, if_false]
      by_cases h2 : t ≤ b.1
      · simp [h2]
      · simp only [h2, if_false]
        match rest, hl with
        | [], hl => exact absurd (hl b (by simp)) h2
        | c :: rest', hl =>
            apply polyEval_defined (b :: c :: rest') t b rfl (by simp) (by linarith [not_le.mp h2])
            intro kl hkl
            apply hl kl
            simpa [List.getLast?_cons_cons] using hkl

/-! ### two rotations about one axis -/

/-- numerator form of the quaternion rotation: `N·R v = N v + 2 (w a×v + a×(a×v))`, `N = w² + |a|²` -/
theorem rotLin_num (w : Rat) (a v : V3) (hN : w * w + V3.dot a a ≠ 0) :
    V3.smul (w * w + V3.dot a a) (rotLin w a v) =
      V3.smul (w * w + V3.dot a a) v + V3.smul 2 (V3.smul w (V3.cross a v) + V3.cross a (V3.cross a v)) := by
  simp only [V3.dot] at hN
  have hN2 : w ^ 2 + (a.x ^ 2 + a.y ^ 2 + a.z ^ 2) ≠ 0 := by
    intro h; apply hN; rw [← h]; ring
  apply V3.ext' <;> c17_unfold <;> field_simp

theorem rotLin_compose (w1 w2 : Rat) (a v : V3) (h1 : w1 * w1 + V3.dot a a ≠ 0) (h2 : w2 * w2 + V3.dot a a ≠ 0) :
    rotLin w2 a (rotLin w1 a v) = rotLin (w1 * w2 - V3.dot a a) (V3.smul (w1 + w2) a) v := by
  have hN : (w1 * w2 - V3.dot a a) * (w1 * w2 - V3.dot a a) + V3.dot (V3.smul (w1 + w2) a) (V3.smul (w1 + w2) a)
      = (w1 * w1 + V3.dot a a) * (w2 * w2 + V3.dot a a) := by c17_unfold; ring
  have hN' : (w1 * w2 - V3.dot a a) * (w1 * w2 - V3.dot a a) + V3.dot (V3.smul (w1 + w2) a) (V3.smul (w1 + w2) a) ≠ 0 := by
    rw [hN]; exact mul_ne_zero h1 h2
  have E1 := rotLin_num w1 a v h1
  have E3 := rotLin_num w2 a (rotLin w1 a v) h2
  have E2 := rotLin_num (w1 * w2 - V3.dot a a) (V3.smul (w1 + w2) a) v hN'
  rw [hN] at E2
  generalize rotLin w2 a (rotLin w1 a v) = L at E3 ⊢
  generalize rotLin w1 a v = u at E1 E3
  generalize rotLin (w1 * w2 - V3.dot a a) (V3.smul (w1 + w2) a) v = R at E2 ⊢
  have e1x := congrArg V3.x E1; have e1y := congrArg V3.y E1; have e1z := congrArg V3.z E1
  have e2x := congrArg V3.x E2; have e2y := congrArg V3.y E2; have e2z := congrArg V3.z E2
  have e3x := congrArg V3.x E3; have e3y := congrArg V3.y E3; have e3z := congrArg V3.z E3
  have hne : (w1 * w1 + V3.dot a a) * (w2 * w2 + V3.dot a a) ≠ 0 := mul_ne_zero h1 h2
  simp only [V3.dot, V3.smul_x, V3.smul_y, V3.smul_z, V3.add_x, V3.add_y, V3.add_z, V3.cross_x, V3.cross_y, V3.cross_z]
    at e1x e1y e1z e2x e2y e2z e3x e3y e3z hne
  apply V3.ext'
  · apply mul_left_cancel₀ hne
    linear_combination (w1 * w1 + (a.x * a.x + a.y * a.y + a.z * a.z)) * e3x
      + (w2 * w2 + (a.x * a.x + a.y * a.y + a.z * a.z)) * e1x + 2 * w2 * (a.y * e1z - a.z * e1y)
      + 2 * (a.x * a.y * e1y - (a.y * a.y + a.z * a.z) * e1x + a.x * a.z * e1z) - e2x
  · apply mul_left_cancel₀ hne
    linear_combination (w1 * w1 + (a.x * a.x + a.y * a.y + a.z * a.z)) * e3y
      + (w2 * w2 + (a.x * a.x + a.y * a.y + a.z * a.z)) * e1y + 2 * w2 * (a.z * e1x - a.x * e1z)
      + 2 * (a.y * a.z * e1z - (a.z * a.z + a.x * a.x) * e1y + a.y * a.x * e1x) - e2y
  · apply mul_left_cancel₀ hne
    linear_combination (w1 * w1 + (a.x * a.x + a.y * a.y + a.z * a.z)) * e3z
      + (w2 * w2 + (a.x * a.x + a.y * a.y + a.z * a.z)) * e1z + 2 * w2 * (a.x * e1y - a.y * e1x)
      + 2 * (a.z * a.x * e1x - (a.x * a.x + a.y * a.y) * e1z + a.z * a.y * e1y) - e2z
end CBV.C17
