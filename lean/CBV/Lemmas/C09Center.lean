/-
C09 — an affine map commutes with taking the average of a non-empty list of points
(every modelled `center` rule is such an average or a designated point).
-/
import CBV.Lemmas.C09Algebra

namespace CBV.C09
open CBV

set_option linter.unusedSimpArgs false

theorem foldl_add_acc (acc : V3) (ps : List V3) :
    ps.foldl (· + ·) acc = acc + ps.foldl (· + ·) V3.zero := by
  induction ps generalizing acc with
  | nil => simp [add_zero']
  | cons p ps ih =>
      simp only [List.foldl_cons]
      rw [ih (acc + p), ih (V3.zero + p), zero_add', add_assoc']

theorem vsum_nil : vsum [] = V3.zero := rfl

theorem vsum_cons (p : V3) (ps : List V3) : vsum (p :: ps) = p + vsum ps := by
  simp only [vsum, List.foldl_cons]
  rw [foldl_add_acc, zero_add']

theorem RT.lin_zero (t : RT) : t.lin V3.zero = V3.zero := by
  cases t <;> simp only [RT.lin] <;> apply V3.ext' <;> v3_unfold <;> simp

theorem RT.lin_vsum (t : RT) (ps : List V3) : t.lin (vsum ps) = vsum (ps.map t.lin) := by
  induction ps with
  | nil => simp [vsum_nil, RT.lin_zero]
  | cons p ps ih => rw [List.map_cons, vsum_cons, vsum_cons, RT.lin_add, ih]

/-- `t.pt` is its linear part plus a constant -/
theorem RT.pt_eq (t : RT) (p : V3) : t.pt p = t.lin p + t.pt V3.zero := by
  have h := RT.pt_sub t p V3.zero
  have h0 : p - V3.zero = p := by apply V3.ext' <;> v3_unfold <;> simp
  rw [h0] at h
  rw [← h, sub_add_cancel']

theorem vsum_map_add_const (f : V3 → V3) (c : V3) (ps : List V3) :
    vsum (ps.map (fun p => f p + c)) = vsum (ps.map f) + V3.smul (ps.length : Rat) c := by
  induction ps with
  | nil => apply V3.ext' <;> simp [vsum_nil]
  | cons p ps ih =>
      simp only [List.map_cons, vsum_cons, List.length_cons, ih]
      apply V3.ext' <;> v3_unfold <;> push_cast <;> ring

/-- an affine map commutes with the average of a non-empty list of points -/
theorem RT.pt_avg (t : RT) (ps : List V3) (hne : ps ≠ []) : t.pt (avg ps) = avg (ps.map t.pt) := by
  have hlen : ((ps.length : Nat) : Rat) ≠ 0 := by
    have : ps.length ≠ 0 := fun h => hne (List.length_eq_zero_iff.mp h)
    exact_mod_cast this
  have hmap : ps.map t.pt = ps.map (fun p => t.lin p + t.pt V3.zero) := by
    apply List.map_congr_left; intro p _; exact RT.pt_eq t p
  rw [RT.pt_eq t (avg ps), hmap]
  simp only [avg, List.length_map]
  rw [RT.lin_smul, RT.lin_vsum, vsum_map_add_const]
  generalize vsum (ps.map t.lin) = S
  generalize t.pt V3.zero = c
  generalize ((ps.length : Nat) : Rat) = n at hlen
  apply V3.ext' <;> v3_unfold <;> field_simp

/-- the average does not depend on the order in which two blocks of points are listed
    (`Operation.mirror` swaps the bottom and the top face) -/
theorem avg_append_comm (ps qs : List V3) : avg (ps ++ qs) = avg (qs ++ ps) := by
  have hs : ∀ (a b : List V3), vsum (a ++ b) = vsum a + vsum b := by
    intro a b
    induction a with
    | nil => simp [vsum_nil, zero_add']
    | cons p a ih => rw [List.cons_append, vsum_cons, vsum_cons, ih, add_assoc']
  simp only [avg, List.length_append, hs]
  rw [add_comm' (vsum ps) (vsum qs), Nat.add_comm]

end CBV.C09
