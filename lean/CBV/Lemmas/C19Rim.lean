/-
C19 (round 6c) — the rim of the disk sketches on their exact positions: a position lies on the circle through the radius
point iff it comes from `get_outer_points`, for every placement and every ordered field (ℝ with h = √2/2 included).
Uses C11's frame lemmas (`Lemmas/C11Fan.lean`, `C11Disk.lean`, `C11Loft.lean`); no `Props` module is imported.
-/
import CBV.Model.C19
import CBV.Lemmas.C11Loft
import CBV.Lemmas.C11Wrap
import Mathlib.Tactic.IntervalCases

namespace CBV.C19
open CBV.C11 P3

set_option linter.unusedSectionVars false
set_option linter.unusedSimpArgs false
set_option linter.unusedVariables false

variable {K : Type} [Field K] [LinearOrder K] [IsStrictOrderedRing K]

/-- in the plane coordinates of the fan: on the unit circle -/
def onUnit (p : P3 K) : Prop := p.x * p.x + p.y * p.y = 1

theorem diskOK_bounds (cl : DiskCls) (h k dg : K) (hok : DiskOK cl h k dg) (hne : cl ≠ .oneCore) :
    0 < k ∧ k < 1 ∧ 0 < dg ∧ dg < 1 := by
  have hk : 0 < k ∧ k < 1 ∧ 0 < h ∧ k < 2 * (dg * h) ∧ dg * h < h := by
    cases cl
    · exact absurd rfl hne
    all_goals exact hok
  obtain ⟨hk0, hk1, hh, he1, he2⟩ := hk
  refine ⟨hk0, hk1, ?_, ?_⟩
  · by_contra hneg
    have : dg ≤ 0 := not_lt.mp hneg
    have : dg * h ≤ 0 := mul_nonpos_of_nonpos_of_nonneg this hh.le
    linarith
  · by_contra hneg
    have : 1 ≤ dg := not_lt.mp hneg
    have : h ≤ dg * h := by nlinarith
    linarith

/-- the local coordinates of the positions: all in the plane, and on the unit circle exactly from `rimStart` on -/
theorem onUnit_iff (cl : DiskCls) (h k dg : K) (hok : DiskOK cl h k dg) (hh : h * h + h * h = 1) (i : Nat)
    (hi : i < nPositions cl) :
    ((diskL cl h k dg).getD i ⟨0, 0, 0⟩).z = 0 ∧ (onUnit ((diskL cl h k dg).getD i ⟨0, 0, 0⟩) ↔ rimStart cl ≤ i) := by
  cases cl
  · -- OneCoreDisk
    have hd0 : 0 < dg := hok.1
    have hd1 : dg < 1 := hok.2
    have hdd : dg * dg < 1 := by nlinarith
    have hn : nPositions .oneCore = 8 := by decide
    have hs : rimStart .oneCore = 4 := by decide
    rw [hn] at hi; rw [hs, diskL_oneCore]
    interval_cases i <;> refine ⟨rfl, ?_⟩ <;> simp only [List.getD_cons_zero, List.getD_cons_succ, onUnit] <;>
      first
        | (apply iff_of_true; ring1; omega)
        | (apply iff_of_false; (intro e; nlinarith [hdd, e]); omega)
  all_goals
    obtain ⟨hk0, hk1, hd0, hd1⟩ := diskOK_bounds _ h k dg hok (by decide)
    have hkk : k * k < 1 := by nlinarith
    have hdd : dg * dg < 1 := by nlinarith
  · have hn : nPositions .quarter = 7 := by decide
    have hs : rimStart .quarter = 4 := by decide
    rw [hn] at hi; rw [hs, diskL_quarter]
    interval_cases i <;> refine ⟨rfl, ?_⟩ <;> simp only [List.getD_cons_zero, List.getD_cons_succ, onUnit] <;>
      first
        | (apply iff_of_true; ring1; omega)
        | (apply iff_of_true; linear_combination hh; omega)
        | (apply iff_of_false; (intro e; nlinarith [hkk, e]); omega)
  · have hn : nPositions .half = 11 := by decide
    have hs : rimStart .half = 6 := by decide
    rw [hn] at hi; rw [hs, diskL_half]
    interval_cases i <;> refine ⟨rfl, ?_⟩ <;> simp only [List.getD_cons_zero, List.getD_cons_succ, onUnit] <;>
      first
        | (apply iff_of_true; ring1; omega)
        | (apply iff_of_true; linear_combination hh; omega)
        | (apply iff_of_false; (intro e; nlinarith [hkk, e]); omega)
  · have hn : nPositions .fourCore = 17 := by decide
    have hs : rimStart .fourCore = 9 := by decide
    rw [hn] at hi; rw [hs, diskL_fourCore]
    interval_cases i <;> refine ⟨rfl, ?_⟩ <;> simp only [List.getD_cons_zero, List.getD_cons_succ, onUnit] <;>
      first
        | (apply iff_of_true; ring1; omega)
        | (apply iff_of_true; linear_combination hh; omega)
        | (apply iff_of_false; (intro e; nlinarith [hkk, e]); omega)

/-- a position of the placed sketch is at the distance of the radius point from the centre iff it comes from
    `get_outer_points` — for every centre, radius point ≠ centre, unit normal perpendicular to the radius, `h` with `2h² = 1` -/
theorem onCircle_iff (cl : DiskCls) (c rp u : P3 K) (h k dg : K) (hok : DiskOK cl h k dg) (hh : h * h + h * h = 1)
    (hu : nsq u = 1) (hp : dot u (sub rp c) = 0) (hr : 0 < nsq (sub rp c)) (i : Nat) (hi : i < nPositions cl) :
    nsq (sub ((diskPts cl c rp u h k dg).getD i c) c) = nsq (sub rp c) ↔ rimStart cl ≤ i := by
  obtain ⟨hz, hon⟩ := onUnit_iff cl h k dg hok hh i hi
  rw [diskPts_frame cl c rp u h k dg hp, getD_map_frame, nsq_frame _ _ _ _ hu hp, hz, ← hon]
  unfold onUnit
  constructor
  · intro e
    have : ((diskL cl h k dg).getD i ⟨0, 0, 0⟩).x * ((diskL cl h k dg).getD i ⟨0, 0, 0⟩).x +
        ((diskL cl h k dg).getD i ⟨0, 0, 0⟩).y * ((diskL cl h k dg).getD i ⟨0, 0, 0⟩).y - 1 = 0 := by
      have e' : (((diskL cl h k dg).getD i ⟨0, 0, 0⟩).x * ((diskL cl h k dg).getD i ⟨0, 0, 0⟩).x +
        ((diskL cl h k dg).getD i ⟨0, 0, 0⟩).y * ((diskL cl h k dg).getD i ⟨0, 0, 0⟩).y - 1) * nsq (sub rp c) = 0 := by
        linear_combination e
      rcases mul_eq_zero.mp e' with h0 | h0
      · exact h0
      · exact absurd h0 (ne_of_gt hr)
    linarith
  · intro e
    rw [e]; ring

/-- the Prop-level "has a side with both ends in P" is the model's `edgeOn` when P is decided by `p` on the indices of the quad -/
theorem edgeOn_iff (P : Nat → Prop) (p : Nat → Bool) (n : Nat) (hP : ∀ i, i < n → (P i ↔ p i = true)) (q : List Nat)
    (hq : ∀ j, j < 4 → q.getD j 0 < n) :
    (∃ j, j < 4 ∧ P (q.getD j 0) ∧ P (q.getD ((j + 1) % 4) 0)) ↔ edgeOn p q = true := by
  simp only [edgeOn, List.any_eq_true, List.mem_range, Bool.and_eq_true]
  constructor
  · rintro ⟨j, hj, h1, h2⟩
    exact ⟨j, hj, (hP _ (hq j hj)).1 h1, (hP _ (hq _ (Nat.mod_lt _ (by decide)))).1 h2⟩
  · rintro ⟨j, hj, h1, h2⟩
    exact ⟨j, hj, (hP _ (hq j hj)).2 h1, (hP _ (hq _ (Nat.mod_lt _ (by decide)))).2 h2⟩

/-! ### `WrappedDisk` (round 6f): the positions at the distance of the corner point are exactly the four corners of the square -/

/-- `WrappedDisk(center, corner_point, radius, normal)` in any placement: a position is at the distance of the corner point from
    the centre iff it is one of the four `get_outer_points` (index ≥ 8) — the inner square (`diagonal_ratio · radius`) and the
    arc points (`radius`) are strictly inside; `rr = radius / |corner − centre|` with `0 < rr < 1`, `0 < dg < 1` -/
theorem wrapped_onCorner_iff (c corner u : P3 K) (h dg radius wn : K) (hd0 : 0 < dg) (hd1 : dg < 1)
    (hr0 : 0 < radius / wn) (hr1 : radius / wn < 1)
    (hu : nsq u = 1) (hp : dot u (sub corner c) = 0) (hr : 0 < nsq (sub corner c)) (i : Nat) (hi : i < 12) :
    nsq (sub ((wrappedPts c corner u h dg radius wn).getD i c) c) = nsq (sub corner c) ↔ 8 ≤ i := by
  have hrr : radius / wn * (radius / wn) < 1 := by nlinarith
  have hdr0 : 0 < dg * (radius / wn) := mul_pos hd0 hr0
  have hdr1 : dg * (radius / wn) < 1 := by nlinarith
  have hdd : dg * (radius / wn) * (dg * (radius / wn)) < 1 := by nlinarith
  rw [wrappedPts_frame c corner u h dg radius wn hp, getD_map_frame, nsq_frame _ _ _ _ hu hp, wrappedL_lit]
  have key : ∀ x y : K, ((x * x + y * y) * nsq (sub corner c) + 0 * 0 = nsq (sub corner c)) ↔ x * x + y * y = 1 := by
    intro x y
    constructor
    · intro e
      have e' : (x * x + y * y - 1) * nsq (sub corner c) = 0 := by linear_combination e
      rcases mul_eq_zero.mp e' with h0 | h0
      · linarith
      · exact absurd h0 (ne_of_gt hr)
    · intro e; rw [e]; ring
  interval_cases i <;> simp only [List.getD_cons_zero, List.getD_cons_succ] <;> rw [key] <;>
    first
      | (apply iff_of_true; ring1; omega)
      | (apply iff_of_false; (intro e; nlinarith [hrr, hdd, e]); omega)

end CBV.C19
