/-
C10 — helper lemmas for the list form of `set_patch` (Props/C10.lean states the property theorems).
-/
import CBV.Model.C10
namespace CBV.C10

def sixSides : List String := ["bottom", "top", "left", "right", "front", "back"]

theorem idx_of_side (s : String) (i : Nat) (h : indexFromSide s = some i) :
    i < 4 ∧ CBV.Gen.sidesMap.getD i "?" = s := by
  unfold indexFromSide at h
  simp only at h
  split at h
  · rename_i hlt
    cases h
    refine ⟨by simpa [CBV.Gen.sidesMap] using hlt, ?_⟩
    rw [List.getD_eq_getElem?_getD, List.getElem?_eq_getElem hlt]
    exact List.getElem_idxOf hlt
  · cases h

theorem setPatch_patchOf (o o' : Op) (s name : String) (hl : o.sidePatches.length = 4)
    (h : o.setPatch s name = some o') :
    o'.sidePatches.length = 4 ∧
      ∀ s' ∈ sixSides, o'.patchOf s' = if s' = s then some name else o.patchOf s' := by
  unfold Op.setPatch at h
  split at h
  · rename_i hs; cases h; subst hs
    refine ⟨hl, ?_⟩
    intro s' hs'
    simp only [sixSides, List.mem_cons, List.not_mem_nil, or_false] at hs'
    rcases hs' with h | h | h | h | h | h <;> subst h <;> simp [Op.patchOf]
  · split at h
    · rename_i hs; cases h; subst hs
      refine ⟨hl, ?_⟩
      intro s' hs'
      simp only [sixSides, List.mem_cons, List.not_mem_nil, or_false] at hs'
      rcases hs' with h | h | h | h | h | h <;> subst h <;> simp [Op.patchOf]
    · rename_i hb ht
      cases hi : indexFromSide s with
      | none => simp [hi] at h
      | some i =>
        simp [hi] at h
        subst h
        obtain ⟨hi4, hs⟩ := idx_of_side s i hi
        refine ⟨by simp [hl], ?_⟩
        intro s' hs'
        simp only [sixSides, List.mem_cons, List.not_mem_nil, or_false] at hs'
        have hc : i = 0 ∨ i = 1 ∨ i = 2 ∨ i = 3 := by omega
        rcases hc with h | h | h | h <;> subst h <;> simp [CBV.Gen.sidesMap] at hs <;> subst hs <;>
          rcases hs' with h | h | h | h | h | h <;> subst h <;>
          simp [Op.patchOf, indexFromSide, CBV.Gen.sidesMap, List.idxOf, List.findIdx, List.findIdx.go, hl]

theorem setPatch_valid (o : Op) (s name : String) (hs : s ∈ sixSides) : ∃ o', o.setPatch s name = some o' := by
  simp only [sixSides, List.mem_cons, List.not_mem_nil, or_false] at hs
  rcases hs with h | h | h | h | h | h <;> subst h <;>
    simp [Op.setPatch, indexFromSide, CBV.Gen.sidesMap, List.idxOf, List.findIdx, List.findIdx.go]

end CBV.C10
