/-
C11 — helper lemmas: the neighbour relation on bit masks is exactly "the two block axes own a common
edge (unordered pair of vertex ids)".
-/
import CBV.Lemmas.C11

namespace CBV.C11

theorem wireKey_comm (M u v : Nat) : wireKey M u v = wireKey M v u := by
  unfold wireKey
  by_cases h1 : u ≤ v <;> by_cases h2 : v ≤ u <;> simp [h1, h2]
  · have : u = v := by omega
    subst this; rfl
  · omega

/-! ### the table entry of a node -/

theorem wireTableM_getD (M : Nat) : ∀ (B : Blocking) (i a : Nat), i < B.length → a < 3 →
    (wireTableM M B).getD (3 * i + a) 0 = maskOf (axisWires M (B.getD i []) a) := by
  intro B
  induction B with
  | nil => intro i a hi; simp at hi
  | cons b bs ih =>
    intro i a hi ha
    have hcons : wireTableM M (b :: bs) =
        maskOf (axisWires M b 0) :: maskOf (axisWires M b 1) :: maskOf (axisWires M b 2) :: wireTableM M bs := by
      simp [wireTableM]
    rw [hcons]
    cases i with
    | zero =>
      have : a = 0 ∨ a = 1 ∨ a = 2 := by omega
      rcases this with rfl | rfl | rfl <;> rfl
    | succ j =>
      have hj : j < bs.length := by simpa using hi
      have h3 : 3 * (j + 1) + a = (3 * j + a) + 1 + 1 + 1 := by omega
      rw [h3]
      simp only [List.getD_cons_succ]
      rw [ih j a hj ha]

theorem wireTable_getD (B : Blocking) (i a : Nat) (hi : i < B.length) (ha : a < 3) :
    (wireTable B).getD (3 * i + a) 0 = maskOf (axisWires (vertexBound B) (B.getD i []) a) := by
  rw [wireTable_eq, wireTableM_getD _ _ _ _ hi ha]

theorem mem_axisWires_iff {M : Nat} {b : Block} {a : Nat} {w : Nat} :
    w ∈ axisWires M b a ↔
      ∃ p ∈ CBV.Gen.axisPairs.getD a [], b.getD p.1 0 ≠ b.getD p.2 0 ∧ w = wireKey M (b.getD p.1 0) (b.getD p.2 0) := by
  unfold axisWires
  simp only [List.mem_map, List.mem_filter]
  constructor
  · rintro ⟨p, ⟨hp, hne⟩, rfl⟩
    refine ⟨p, hp, ?_, rfl⟩
    intro he
    rw [he] at hne
    simp at hne
  · rintro ⟨p, hp, hne, rfl⟩
    refine ⟨p, ⟨hp, ?_⟩, rfl⟩
    cases hb : Nat.beq (b.getD p.1 0) (b.getD p.2 0)
    · rfl
    · exact absurd (Nat.eq_of_beq_eq_true hb) hne

/-! ### bound on the vertex ids -/

theorem foldl_max_ge (xs : List Nat) : ∀ init, init ≤ xs.foldl max init ∧ ∀ x ∈ xs, x ≤ xs.foldl max init := by
  induction xs with
  | nil => intro init; simp
  | cons y ys ih =>
    intro init
    obtain ⟨h1, h2⟩ := ih (max init y)
    simp only [List.foldl_cons]
    refine ⟨by omega, ?_⟩
    intro x hx
    rcases List.mem_cons.mp hx with rfl | hx
    · omega
    · exact h2 x hx

theorem le_maxOf {xs : List Nat} {x : Nat} (h : x ∈ xs) : x ≤ maxOf xs := (foldl_max_ge xs 0).2 x h

theorem getD_mem_or {α : Type} (l : List α) (i : Nat) (d : α) : l.getD i d ∈ l ∨ l.getD i d = d := by
  simp only [List.getD_eq_getElem?_getD]
  cases h : l[i]? with
  | none => right; rfl
  | some x => left; exact List.mem_of_getElem? h

theorem getD_lt_bound (B : Blocking) (i c : Nat) : (B.getD i []).getD c 0 < vertexBound B := by
  unfold vertexBound
  rcases getD_mem_or B i [] with hb | hb
  · rcases getD_mem_or (B.getD i []) c 0 with hv | hv
    · have h1 := le_maxOf hv
      have h2 : maxOf (B.getD i []) ≤ maxOf (B.map maxOf) := le_maxOf (List.mem_map.mpr ⟨_, hb, rfl⟩)
      omega
    · omega
  · rw [hb]
    simp

/-! ### neighbours own a common edge -/

/-- axis `a` of block `b` and axis `a'` of block `b'` own a common (non-degenerate) edge -/
def SharesEdge (b b' : Block) (a a' : Nat) : Prop :=
  ∃ p ∈ CBV.Gen.axisPairs.getD a [], ∃ p' ∈ CBV.Gen.axisPairs.getD a' [],
    b.getD p.1 0 ≠ b.getD p.2 0 ∧
      ((b.getD p.1 0 = b'.getD p'.1 0 ∧ b.getD p.2 0 = b'.getD p'.2 0) ∨
        (b.getD p.1 0 = b'.getD p'.2 0 ∧ b.getD p.2 0 = b'.getD p'.1 0))

theorem adj_of_sharesEdge (B : Blocking) (i i' a a' : Nat) (hi : i < B.length) (hi' : i' < B.length)
    (ha : a < 3) (ha' : a' < 3) (h : SharesEdge (B.getD i []) (B.getD i' []) a a') :
    Adj (wireTable B) (3 * i + a) (3 * i' + a') := by
  obtain ⟨p, hp, p', hp', hne, heq⟩ := h
  refine ⟨wireKey (vertexBound B) ((B.getD i []).getD p.1 0) ((B.getD i []).getD p.2 0), ?_, ?_⟩
  · rw [wireTable_getD B i a hi ha, testBit_maskOf]
    exact mem_axisWires_iff.mpr ⟨p, hp, hne, rfl⟩
  · rw [wireTable_getD B i' a' hi' ha', testBit_maskOf]
    rcases heq with ⟨h1, h2⟩ | ⟨h1, h2⟩
    · exact mem_axisWires_iff.mpr ⟨p', hp', by rw [← h1, ← h2]; exact hne, by rw [h1, h2]⟩
    · refine mem_axisWires_iff.mpr ⟨p', hp', ?_, ?_⟩
      · rw [← h1, ← h2]; exact fun h => hne h.symm
      · rw [h1, h2, wireKey_comm]

theorem sharesEdge_of_adj (B : Blocking) (i i' a a' : Nat) (hi : i < B.length) (hi' : i' < B.length)
    (ha : a < 3) (ha' : a' < 3) (h : Adj (wireTable B) (3 * i + a) (3 * i' + a')) :
    SharesEdge (B.getD i []) (B.getD i' []) a a' := by
  obtain ⟨w, h1, h2⟩ := h
  rw [wireTable_getD B i a hi ha, testBit_maskOf] at h1
  rw [wireTable_getD B i' a' hi' ha', testBit_maskOf] at h2
  obtain ⟨p, hp, hne, hw⟩ := mem_axisWires_iff.mp h1
  obtain ⟨p', hp', _, hw'⟩ := mem_axisWires_iff.mp h2
  refine ⟨p, hp, p', hp', hne, ?_⟩
  exact wireKey_inj (getD_lt_bound B i _) (getD_lt_bound B i _) (getD_lt_bound B i' _) (getD_lt_bound B i' _)
    (hw.symm.trans hw')

/-- a node that has a neighbour is a node of the table -/
theorem adj_lt_right {T : List Mask} {m n : Nat} (h : Adj T m n) : n < T.length := by
  obtain ⟨w, _, h2⟩ := h
  apply Classical.byContradiction
  intro hn
  have : T.getD n 0 = 0 := by
    simp only [List.getD]
    rw [List.getElem?_eq_none (by omega)]
    rfl
  rw [this, Nat.zero_testBit] at h2
  cases h2

theorem reach_lt {T : List Mask} {S : List Nat} {n : Nat} (h : Reach T S n) : n < T.length := by
  cases h with
  | seed _ hl => exact hl
  | step _ _ hl => exact hl

/-- reachability does not depend on the order or multiplicity of the seeds -/
theorem reach_mono {T : List Mask} {S S' : List Nat} (hs : ∀ x ∈ S, x ∈ S') {n : Nat} (h : Reach T S n) :
    Reach T S' n := by
  induction h with
  | seed h1 h2 => exact Reach.seed (hs _ h1) h2
  | step _ ha hl ih => exact Reach.step ih ha hl

end CBV.C11
