/-
C04 — totality of the chop calculator on the count-based kinds (round 6e): a chop given by its count and a positive
cell-to-cell ratio (`count` alone is `c2c_expansion = 1`) evaluates on every positive length — no guard rejects, no
division by zero, no solver.  Hence in the composed model every wire evaluation of such a chop succeeds, whatever the
wire, and the expansion M-PROP receives does not depend on the wire.
-/
import CBV.Lemmas.C04Chop

namespace CBV.Prop
open CBV.C03 (Vals Q Oracle Tol calculate)

theorem startCountC2c_total {L r : ℚ} {n : ℕ} (hL : 0 < L) (hn : 1 ≤ n) (hr : 0 < r) :
    ∃ s, C03.startCountC2c L n r = .ok s := by
  unfold C03.startCountC2c
  simp only [C03.guardLen_bind, C03.guardCountGe1_bind, C03.guardRatio_bind]
  rw [if_neg (not_le.mpr hL), if_neg (by omega), if_neg (ne_of_gt hr)]
  split_ifs with h1 h2
  · exfalso
    have hr1 : r ≠ 1 := by
      intro e; subst e
      have : C03.absR ((1 : ℚ) - 1) = 0 := by simp [C03.absR]
      rw [this] at h1
      exact absurd h1 (not_lt.mpr (le_of_lt C03.TOL_pos))
    have := C03.pow_ne_one_of_pos hr hr1 hn
    exact this (by linarith)
  · exact ⟨_, rfl⟩
  · exact ⟨_, rfl⟩

theorem totalCountC2c_total {L r : ℚ} {n : ℕ} (hL : 0 < L) (hn : 1 ≤ n) (hr : 0 < r) :
    C03.totalCountC2c L n r = .ok (r ^ (n - 1)) := by
  unfold C03.totalCountC2c
  simp only [C03.guardLen_bind, C03.guardCountGe1_bind, C03.guardRatio_bind]
  rw [if_neg (not_le.mpr hL), if_neg (by omega), if_neg (ne_of_gt hr)]
  rfl

theorem endStartTotal_total {L s T : ℚ} (hL : 0 < L) (hT : T ≠ 0) : C03.endStartTotal L s T = .ok (s * T) := by
  unfold C03.endStartTotal
  simp only [C03.guardLen_bind, C03.guardRatio_bind]
  rw [if_neg (not_le.mpr hL), if_neg hT]
  rfl

/-- `Chop(count=n, c2c_expansion=r).calculate(L)` returns for every positive length -/
theorem calculate_count_c2c_total (t : Tol) {L r : ℚ} {n : ℕ} (o : Oracle) (hL : 0 < L) (hn : 1 ≤ n) (hr : 0 < r) :
    ∃ res, calculate t L o { count := some n, c2c := some r } = .ok res := by
  obtain ⟨s, hs⟩ := startCountC2c_total hL hn hr
  have hT := totalCountC2c_total hL hn hr
  have he := endStartTotal_total (s := s) hL (pow_ne_zero (n - 1) (ne_of_gt hr))
  refine ⟨{ count := some n, start := some s, end_ := some (s * r ^ (n - 1)), c2c := some r, total := some (r ^ (n - 1)) }, ?_⟩
  rw [C03.calculate_ok_iff (k := 2) (by exact C03.plan_count_c2c), C03.runSteps3]
  refine ⟨{ count := some n, start := some s, c2c := some r },
    { count := some n, start := some s, c2c := some r, total := some (r ^ (n - 1)) }, ?_, ?_, ?_⟩
  · simp only [C03.applyRel, hs]; rfl
  · simp only [C03.applyRel, hT]; rfl
  · simp only [C03.applyRel, he]; rfl

/-- every user chop is given by its count and a positive cell-to-cell ratio (the kinds `count` and
    `count + c2c_expansion`), keeps the ratio when copied, and has a valid length ratio -/
def countKindsB (g : Geo) : Bool :=
  g.uchops.all (fun u =>
    decide (u.preserve = .c2c) && decide (0 < u.ratio) && decide (u.ratio ≤ 1) &&
    u.vals.start.isNone && u.vals.end_.isNone && u.vals.total.isNone &&
    (match u.vals.count, u.vals.c2c with
     | some n, some r => decide (1 ≤ n) && decide (0 < r)
     | _, _ => false))

theorem countKinds_of {g : Geo} (h : countKindsB g = true) {id : Nat} {u : UChop} (hu : g.uchops[id]? = some u) :
    u.preserve = .c2c ∧ 0 < u.ratio ∧ u.ratio ≤ 1 ∧
      ∃ n r, 1 ≤ n ∧ 0 < r ∧ u.vals = { count := some n, c2c := some r } := by
  unfold countKindsB at h
  rw [List.all_eq_true] at h
  have hm : u ∈ g.uchops := List.mem_of_getElem? hu
  have := h u hm
  simp only [Bool.and_eq_true, decide_eq_true_eq, Option.isNone_iff_eq_none] at this
  obtain ⟨⟨⟨⟨⟨⟨hp, h0⟩, h1⟩, hs⟩, he⟩, ht⟩, hm⟩ := this
  refine ⟨hp, h0, h1, ?_⟩
  cases hc : u.vals.count with
  | none => simp [hc] at hm
  | some n =>
    cases hr : u.vals.c2c with
    | none => simp [hc, hr] at hm
    | some r =>
      simp only [hc, hr, Bool.and_eq_true, decide_eq_true_eq] at hm
      refine ⟨n, r, hm.1, hm.2, ?_⟩
      cases hv : u.vals with
      | mk c s e cc tt =>
        simp only [hv] at hs he ht hc hr
        subst hs he ht hc hr
        rfl

theorem avgLen_pos {g : Geo} (hl : ∀ w, 0 < g.len w) (x : Nat) : 0 < avgLen g x := by
  unfold avgLen
  have a := hl (4 * x); have b := hl (4 * x + 1); have c := hl (4 * x + 2); have d := hl (4 * x + 3)
  linarith

/-- the axis-level resolution of a count-kind chop succeeds and returns its count and ratio -/
theorem resolved_count_kind {g : Geo} (hl : ∀ w, 0 < g.len w) {id : Nat} {u : UChop} {n : ℕ} {r : ℚ}
    (hu : g.uchops[id]? = some u) (h0 : 0 < u.ratio) (h1 : u.ratio ≤ 1) (hn : 1 ≤ n) (hr : 0 < r)
    (hv : u.vals = { count := some n, c2c := some r }) :
    ∃ res, resolved g id = .ok res ∧ res.count = some n ∧ res.c2c = some r := by
  have hL : 0 < avgLen g u.x * u.ratio := mul_pos (avgLen_pos hl _) h0
  obtain ⟨res, hres⟩ := calculate_count_c2c_total g.tol
    (selfOracle g.tol (avgLen g u.x * u.ratio) { count := some n, c2c := some r } (g.oa id)) hL hn hr
  refine ⟨res, ?_, ?_⟩
  · unfold resolved evalOn
    rw [hu]
    simp only [hv]
    rw [if_neg (by simp [h0, h1])]
    exact hres
  · obtain ⟨_, _, _, _, _, _, rfl⟩ := C03.pair_count_c2c hres
    exact ⟨rfl, rfl⟩

/-- … and so does every evaluation on every wire, with either parity -/
theorem wireVals_count_kind {g : Geo} (hl : ∀ w, 0 < g.len w) {id : Nat} {u : UChop} {n : ℕ} {r : ℚ}
    (hu : g.uchops[id]? = some u) (hp : u.preserve = .c2c) (h0 : 0 < u.ratio) (h1 : u.ratio ≤ 1) (hn : 1 ≤ n) (hr : 0 < r)
    (hv : u.vals = { count := some n, c2c := some r }) (inv : Bool) (w : Nat) :
    ∃ v, wireVals g id inv w = .ok v := by
  obtain ⟨res, hres, hc, hcc⟩ := resolved_count_kind hl hu h0 h1 hn hr hv
  obtain ⟨hh0, hh1⟩ := held_c2c hu hp hres hc hn hcc (ne_of_gt hr)
  have hL : 0 < g.len w * u.ratio := mul_pos (hl w) h0
  cases inv with
  | false =>
    rw [wireVals_eq hu hh0]
    unfold evalOn
    rw [if_neg (by simp [h0, h1])]
    exact calculate_count_c2c_total g.tol _ hL hn hr
  | true =>
    rw [wireVals_eq hu hh1]
    unfold evalOn
    rw [if_neg (by simp [h0, h1])]
    exact calculate_count_c2c_total g.tol _ hL hn (by positivity)

/-- more generally: once the axis-level calculation of a chop that preserves the cell-to-cell ratio has returned a count
    and a positive ratio — whatever the kind of the chop, with whatever validated solver answers — every evaluation of its
    copies on every wire of positive length succeeds -/
theorem wireVals_c2c_total {g : Geo} (hl : ∀ w, 0 < g.len w) {id : Nat} {u : UChop} {res : Vals} {n : ℕ} {c : ℚ}
    (hu : g.uchops[id]? = some u) (hp : u.preserve = .c2c) (h0 : 0 < u.ratio) (h1 : u.ratio ≤ 1)
    (hres : resolved g id = .ok res) (hc : res.count = some n) (hn : 1 ≤ n) (hcc : res.c2c = some c) (hc0 : 0 < c)
    (inv : Bool) (w : Nat) : ∃ v, wireVals g id inv w = .ok v := by
  obtain ⟨hh0, hh1⟩ := held_c2c hu hp hres hc hn hcc (ne_of_gt hc0)
  have hL : 0 < g.len w * u.ratio := mul_pos (hl w) h0
  cases inv with
  | false =>
    rw [wireVals_eq hu hh0]
    unfold evalOn
    rw [if_neg (by simp [h0, h1])]
    exact calculate_count_c2c_total g.tol _ hL hn hc0
  | true =>
    rw [wireVals_eq hu hh1]
    unfold evalOn
    rw [if_neg (by simp [h0, h1])]
    exact calculate_count_c2c_total g.tol _ hL hn (by positivity)

end CBV.Prop
