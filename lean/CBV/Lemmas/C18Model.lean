/-
C18 — helper lemmas about the list-level model of `ViewpointReorienter.reorient`:
where the points of the result come from.
-/
import CBV.Lemmas.C18

namespace CBV.C18

open CBV

theorem except_bind_ok {ε α β : Type} {x : Except ε α} {f : α → Except ε β} {y : β}
    (h : (x >>= f) = .ok y) : ∃ v, x = .ok v ∧ f v = .ok y := by
  cases x with
  | error e => simp [bind, Except.bind] at h
  | ok v => exact ⟨v, rfl, h⟩

theorem commonPoints_spec {l1 l2 : List V3} {p : V3} (hp : p ∈ commonPoints l1 l2) : p ∈ l1 ∧ nearMem p l2 := by
  simp only [commonPoints, List.mem_flatMap, List.mem_filterMap] at hp
  obtain ⟨p1, hp1, x, hx, h⟩ := hp
  split at h
  · cases h; exact ⟨hp1, x, hx, by assumption⟩
  · cases h

theorem commonPoint_spec {q q1 q2 : List V3} {p : V3} (h : commonPoint q q1 q2 = .ok p) :
    p ∈ q ∧ nearMem p q1 ∧ nearMem p q2 := by
  unfold commonPoint at h
  simp only at h
  split at h
  · cases h
  · split at h
    · cases h
    · rename_i p' rest heq
      cases h
      have hm : p ∈ commonPoints (commonPoints q q1) q2 := by rw [heq]; exact List.mem_cons_self
      obtain ⟨h1, h2⟩ := commonPoints_spec hm
      obtain ⟨h3, h4⟩ := commonPoints_spec h1
      exact ⟨h3, h4, h2⟩

theorem mkQuad_subset {t0 t1 : Tri} {q : List V3} (h : mkQuad t0 t1 = .ok q) :
    ∀ p ∈ q, p ∈ t0.points ∨ p ∈ t1.points := by
  unfold mkQuad at h
  simp only at h
  split at h
  · cases h
  · split at h
    · cases h
    · split at h
      · cases h
      · cases h
        intro p hp
        rcases List.mem_append.mp hp with hp | hp
        · simp only [uniquePoints, List.mem_filter, List.mem_append] at hp
          exact hp.1
        · exact Or.inl (commonPoints_spec hp).1

theorem pick2_mem {d : V3} {l : List Tri} {b a : Tri} {rest : List Tri} (h : pick2 d l = some (b, a, rest)) :
    a ∈ l ∧ b ∈ l ∧ ∀ t ∈ rest, t ∈ l := by
  unfold pick2 at h
  simp only [Option.bind_eq_bind] at h
  cases hi : bestIdx d l with
  | none => simp [hi] at h
  | some i =>
    simp only [hi, Option.bind_some] at h
    cases ha : l[i]? with
    | none => simp [ha] at h
    | some a' =>
      simp only [ha, Option.bind_some] at h
      cases hj : bestIdx d (l.eraseIdx i) with
      | none => simp [hj] at h
      | some j =>
        simp only [hj, Option.bind_some] at h
        cases hb : (l.eraseIdx i)[j]? with
        | none => simp [hb] at h
        | some b' =>
          simp only [hb, Option.bind_some, Option.some.injEq, Prod.mk.injEq] at h
          obtain ⟨rfl, rfl, rfl⟩ := h
          have hsub : (l.eraseIdx i).Sublist l := List.eraseIdx_sublist l i
          refine ⟨List.mem_of_getElem? ha, hsub.subset (List.mem_of_getElem? hb), ?_⟩
          intro t ht
          exact hsub.subset ((List.eraseIdx_sublist _ j).subset ht)

theorem quadStep_spec {dir : V3} {rem : List Tri} {q : List V3} {rest : List Tri}
    (h : quadStep dir rem = .ok (q, rest)) : ∃ b a, pick2 dir rem = some (b, a, rest) ∧ mkQuad b a = .ok q := by
  unfold quadStep at h
  split at h
  · cases h
  · rename_i b a r hp
    split at h
    · rename_i q' hq
      cases h
      exact ⟨b, a, hp, hq⟩
    · cases h

/-- all points of a list of triangles -/
def triPoints (tris : List Tri) : List V3 := tris.flatMap Tri.points

theorem quadStep_subset {dir : V3} {rem : List Tri} {q : List V3} {rest : List Tri}
    (h : quadStep dir rem = .ok (q, rest)) :
    (∀ p ∈ q, p ∈ triPoints rem) ∧ (∀ t ∈ rest, t ∈ rem) := by
  obtain ⟨b, a, hp, hq⟩ := quadStep_spec h
  obtain ⟨ha, hb, hr⟩ := pick2_mem hp
  refine ⟨?_, hr⟩
  intro p hpq
  simp only [triPoints, List.mem_flatMap]
  rcases mkQuad_subset hq p hpq with h1 | h1
  · exact ⟨b, hb, h1⟩
  · exact ⟨a, ha, h1⟩

theorem triPoints_mono {l1 l2 : List Tri} (h : ∀ t ∈ l1, t ∈ l2) : ∀ p ∈ triPoints l1, p ∈ triPoints l2 := by
  intro p hp
  simp only [triPoints, List.mem_flatMap] at *
  obtain ⟨t, ht, hpt⟩ := hp
  exact ⟨t, h t ht, hpt⟩

/-- every point of the six quads is a point of one of the hull triangles -/
theorem quadsOf_subset {tris : List Tri} {d : Dirs} {q : Quads} (h : quadsOf tris d = .ok q) :
    ∀ name, ∀ p ∈ q.get name, p ∈ triPoints tris := by
  unfold quadsOf at h
  obtain ⟨x1, h1, h⟩ := except_bind_ok h
  obtain ⟨x2, h2, h⟩ := except_bind_ok h
  obtain ⟨x3, h3, h⟩ := except_bind_ok h
  obtain ⟨x4, h4, h⟩ := except_bind_ok h
  obtain ⟨x5, h5, h⟩ := except_bind_ok h
  obtain ⟨x6, h6, h⟩ := except_bind_ok h
  cases h
  obtain ⟨s1, r1⟩ := quadStep_subset (q := x1.1) (rest := x1.2) h1
  obtain ⟨s2, r2⟩ := quadStep_subset (q := x2.1) (rest := x2.2) h2
  obtain ⟨s3, r3⟩ := quadStep_subset (q := x3.1) (rest := x3.2) h3
  obtain ⟨s4, r4⟩ := quadStep_subset (q := x4.1) (rest := x4.2) h4
  obtain ⟨s5, r5⟩ := quadStep_subset (q := x5.1) (rest := x5.2) h5
  obtain ⟨s6, _⟩ := quadStep_subset (q := x6.1) (rest := x6.2) h6
  have m1 := triPoints_mono r1
  have m2 := fun p hp => m1 p (triPoints_mono r2 p hp)
  have m3 := fun p hp => m2 p (triPoints_mono r3 p hp)
  have m4 := fun p hp => m3 p (triPoints_mono r4 p hp)
  have m5 := fun p hp => m4 p (triPoints_mono r5 p hp)
  intro name p hp
  unfold Quads.get at hp
  split at hp
  · exact s1 p hp
  · exact m1 p (s2 p hp)
  · exact m2 p (s3 p hp)
  · exact m3 p (s4 p hp)
  · exact m4 p (s5 p hp)
  · exact m5 p (s6 p hp)
  · cases hp

theorem nearMem_of_mem {p : V3} {l : List V3} (h : p ∈ l) : nearMem p l := ⟨p, h, near_refl p⟩

/-- the eight corners: where each comes from -/
theorem cornersOf_spec {q : Quads} {c : List V3} (h : cornersOf q = .ok c) :
    ∃ p0 p1 p2 p3 p4 p5 p6 p7, c = [p0, p1, p2, p3, p4, p5, p6, p7] ∧
      (p0 ∈ q.bottom ∧ nearMem p0 q.front ∧ nearMem p0 q.left) ∧
      (p1 ∈ q.bottom ∧ nearMem p1 q.front ∧ nearMem p1 q.right) ∧
      (p2 ∈ q.bottom ∧ nearMem p2 q.back ∧ nearMem p2 q.right) ∧
      (p3 ∈ q.bottom ∧ nearMem p3 q.back ∧ nearMem p3 q.left) ∧
      (p4 ∈ q.top ∧ nearMem p4 q.front ∧ nearMem p4 q.left) ∧
      (p5 ∈ q.top ∧ nearMem p5 q.front ∧ nearMem p5 q.right) ∧
      (p6 ∈ q.top ∧ nearMem p6 q.back ∧ nearMem p6 q.right) ∧
      (p7 ∈ q.top ∧ nearMem p7 q.back ∧ nearMem p7 q.left) := by
  unfold cornersOf at h
  obtain ⟨p0, h0, h⟩ := except_bind_ok h
  obtain ⟨p1, h1, h⟩ := except_bind_ok h
  obtain ⟨p2, h2, h⟩ := except_bind_ok h
  obtain ⟨p3, h3, h⟩ := except_bind_ok h
  obtain ⟨p4, h4, h⟩ := except_bind_ok h
  obtain ⟨p5, h5, h⟩ := except_bind_ok h
  obtain ⟨p6, h6, h⟩ := except_bind_ok h
  obtain ⟨p7, h7, h⟩ := except_bind_ok h
  cases h
  exact ⟨p0, p1, p2, p3, p4, p5, p6, p7, rfl, commonPoint_spec h0, commonPoint_spec h1, commonPoint_spec h2,
    commonPoint_spec h3, commonPoint_spec h4, commonPoint_spec h5, commonPoint_spec h6, commonPoint_spec h7⟩

/-- every corner of the result lies (to the merge tolerance) in the three quads that the blockMesh convention
    (generated `FACE_MAP`) names for it -/
theorem cornersOf_sides {q : Quads} {c : List V3} (h : cornersOf q = .ok c) :
    ∀ e ∈ CBV.Gen.faceMap, ∀ k ∈ e.2, nearMem (c.getD k V3.zero) (q.get e.1) := by
  obtain ⟨p0, p1, p2, p3, p4, p5, p6, p7, rfl, ⟨a0, b0, c0⟩, ⟨a1, b1, c1⟩, ⟨a2, b2, c2⟩, ⟨a3, b3, c3⟩,
    ⟨a4, b4, c4⟩, ⟨a5, b5, c5⟩, ⟨a6, b6, c6⟩, ⟨a7, b7, c7⟩⟩ := cornersOf_spec h
  have a0 := nearMem_of_mem a0; have a1 := nearMem_of_mem a1; have a2 := nearMem_of_mem a2
  have a3 := nearMem_of_mem a3; have a4 := nearMem_of_mem a4; have a5 := nearMem_of_mem a5
  have a6 := nearMem_of_mem a6; have a7 := nearMem_of_mem a7
  intro e he k hk
  simp only [CBV.Gen.faceMap, List.mem_cons, List.not_mem_nil, or_false] at he
  rcases he with rfl | rfl | rfl | rfl | rfl | rfl <;>
    simp only [List.mem_cons, List.not_mem_nil, or_false] at hk <;>
    rcases hk with rfl | rfl | rfl | rfl <;> simp only [Quads.get, List.getD_cons_zero, List.getD_cons_succ] <;>
    assumption

theorem cornersOf_subset {q : Quads} {c : List V3} (h : cornersOf q = .ok c) :
    c.length = 8 ∧ ∀ p ∈ c, p ∈ q.bottom ∨ p ∈ q.top := by
  obtain ⟨p0, p1, p2, p3, p4, p5, p6, p7, rfl, ⟨a0, _⟩, ⟨a1, _⟩, ⟨a2, _⟩, ⟨a3, _⟩,
    ⟨a4, _⟩, ⟨a5, _⟩, ⟨a6, _⟩, ⟨a7, _⟩⟩ := cornersOf_spec h
  refine ⟨rfl, ?_⟩
  intro p hp
  simp only [List.mem_cons, List.not_mem_nil, or_false] at hp
  rcases hp with rfl | rfl | rfl | rfl | rfl | rfl | rfl | rfl <;> simp [*]

theorem getD_lt {l : List V3} {i : Nat} (d : V3) (h : i < l.length) : l.getD i d = l[i] := by
  simp [List.getD, h]

theorem orient_points (t : Tri) (c : V3) : ∀ p ∈ (t.orient c).points, p ∈ t.points := by
  intro p hp
  unfold Tri.orient at hp
  split at hp
  · simp only [Tri.flip, Tri.points, List.mem_cons, List.not_mem_nil, or_false] at hp ⊢
    tauto
  · exact hp

/-- valid hull simplices: every index addresses one of the points -/
def simplicesOk (n : Nat) (sim : List (Nat × Nat × Nat)) : Prop := ∀ s ∈ sim, s.1 < n ∧ s.2.1 < n ∧ s.2.2 < n

theorem makeTriangles_subset {pts : List V3} {sim : List (Nat × Nat × Nat)} {tris : List Tri}
    (hs : simplicesOk pts.length sim) (h : makeTriangles pts sim = .ok tris) : ∀ p ∈ triPoints tris, p ∈ pts := by
  unfold makeTriangles at h
  split at h
  · cases h
  · cases h
    intro p hp
    simp only [triPoints, List.mem_flatMap, List.mem_map] at hp
    obtain ⟨t, ⟨t0, ⟨s, hsm, rfl⟩, rfl⟩, hpt⟩ := hp
    have := orient_points _ _ p hpt
    obtain ⟨h1, h2, h3⟩ := hs s hsm
    simp only [triOf, Tri.points, List.mem_cons, List.not_mem_nil, or_false] at this
    rcases this with rfl | rfl | rfl
    · rw [getD_lt _ h1]; exact List.getElem_mem h1
    · rw [getD_lt _ h2]; exact List.getElem_mem h2
    · rw [getD_lt _ h3]; exact List.getElem_mem h3

theorem eachOnce_perm_left {pts pts' : List V3} (hp : pts'.Perm pts) (out : List V3) :
    eachOnce pts' out = eachOnce pts out := by
  unfold eachOnce
  rw [Bool.eq_iff_iff]
  simp only [List.all_eq_true]
  constructor
  · intro h q hq; exact h q (hp.mem_iff.mpr hq)
  · intro h q hq; exact h q (hp.mem_iff.mp hq)

theorem reorientCore_perm {pts pts' : List V3} (hp : pts'.Perm pts) (tris : List Tri) (c obs ceil : V3) :
    reorientCore pts' tris c obs ceil = reorientCore pts tris c obs ceil := by
  unfold reorientCore
  simp only [eachOnce_perm_left hp]

/-- repair 1 as a theorem: a result that takes every original point exactly once and consists of original
    points is a permutation of the original points (points pairwise distinct to the merge tolerance) -/
theorem eachOnce_perm {pts c : List V3} (hnd : pts.Nodup)
    (hsep : ∀ a ∈ pts, ∀ b ∈ pts, near a b → a = b)
    (hsub : ∀ p ∈ c, p ∈ pts) (h : eachOnce pts c = true) : c.Perm pts := by
  rw [List.perm_iff_count]
  intro a
  by_cases ha : a ∈ pts
  · rw [hnd.count, if_pos ha]
    simp only [eachOnce, List.all_eq_true, beq_iff_eq] at h
    have h1 := h a ha
    have : c.filter (fun p => decide (near p a)) = c.filter (fun p => p == a) := by
      apply List.filter_congr
      intro p hp
      have hpp := hsub p hp
      by_cases hpa : p = a
      · subst hpa; simp [near_refl]
      · have : ¬ near p a := fun hn => hpa (hsep p hpp a ha hn)
        simp [this, hpa]
    rw [this] at h1
    rw [List.count_eq_countP, List.countP_eq_length_filter]
    exact h1
  · rw [List.count_eq_zero_of_not_mem ha, List.count_eq_zero_of_not_mem (fun hc => ha (hsub a hc))]

theorem swapLR_perm {c : List V3} (h : c.length = 8) : (swapLR c).Perm c := by
  match c, h with
  | [p0, p1, p2, p3, p4, p5, p6, p7], _ =>
    show [p1, p0, p3, p2, p5, p4, p7, p6].Perm [p0, p1, p2, p3, p4, p5, p6, p7]
    exact (List.Perm.swap _ _ _).trans (((((List.Perm.swap _ _ _).trans
      (((((List.Perm.swap _ _ _).trans (((List.Perm.swap _ _ _).cons _).cons _)).cons _).cons _))).cons _).cons _))

theorem fixHand_perm {c : List V3} (h : c.length = 8) : (fixHand c).Perm c := by
  unfold fixHand
  simp only
  split
  · exact swapLR_perm h
  · exact List.Perm.refl _

theorem reorientCore_spec {pts : List V3} {tris : List Tri} {c obs ceil : V3} {out : List V3}
    (h : reorientCore pts tris c obs ceil = .ok out) :
    ∃ q c0, quadsOf tris (dirsOf c obs ceil) = .ok q ∧ cornersOf q = .ok c0 ∧ eachOnce pts c0 = true ∧
      out = fixHand c0 := by
  unfold reorientCore at h
  simp only at h
  split at h
  · cases h
  · split at h
    · cases h
    · rename_i q hq
      split at h
      · cases h
      · rename_i c0 hc0
        split at h
        · rename_i he
          cases h
          exact ⟨q, c0, hq, hc0, he, rfl⟩
        · cases h

theorem reorient_spec {pts : List V3} {sim : List (Nat × Nat × Nat)} {obs ceil : V3} {out : List V3}
    (h : reorient pts sim obs ceil = .ok out) :
    ∃ tris, makeTriangles pts sim = .ok tris ∧ reorientCore pts tris (average pts) obs ceil = .ok out := by
  unfold reorient at h
  split at h
  · cases h
  · rename_i tris ht
    exact ⟨tris, ht, h⟩

theorem quadsOf_steps {tris : List Tri} {d : Dirs} {q : Quads} (h : quadsOf tris d = .ok q) :
    ∃ r1 r2 r3 r4 r5 r6, quadStep d.o tris = .ok (q.front, r1) ∧ quadStep (-d.o) r1 = .ok (q.back, r2) ∧
      quadStep d.t r2 = .ok (q.top, r3) ∧ quadStep (-d.t) r3 = .ok (q.bottom, r4) ∧
      quadStep d.l r4 = .ok (q.left, r5) ∧ quadStep (-d.l) r5 = .ok (q.right, r6) := by
  unfold quadsOf at h
  obtain ⟨x1, h1, h⟩ := except_bind_ok h
  obtain ⟨x2, h2, h⟩ := except_bind_ok h
  obtain ⟨x3, h3, h⟩ := except_bind_ok h
  obtain ⟨x4, h4, h⟩ := except_bind_ok h
  obtain ⟨x5, h5, h⟩ := except_bind_ok h
  obtain ⟨x6, h6, h⟩ := except_bind_ok h
  cases h
  exact ⟨x1.2, x2.2, x3.2, x4.2, x5.2, x6.2, h1, h2, h3, h4, h5, h6⟩

/-! ### the two best aligned triangles -/

theorem alignLt_irrefl (x : Rat × Rat) : ¬ alignLt x x := by
  unfold alignLt
  split_ifs <;> simp

theorem alignLt_trans {x y z : Rat × Rat} (hx : 0 < x.2) (hy : 0 < y.2) (hz : 0 < z.2)
    (h1 : alignLt x y) (h2 : alignLt y z) : alignLt x z := by
  unfold alignLt at *
  by_cases ha : x.1 < 0 <;> by_cases hb : y.1 < 0 <;> by_cases hc : z.1 < 0 <;>
    simp only [ha, hb, hc, if_true, if_false] at h1 h2 ⊢ <;> try trivial
  · by_contra hneg
    have hneg : x.1 * x.1 * z.2 ≤ z.1 * z.1 * x.2 := not_lt.mp hneg
    nlinarith [mul_lt_mul_of_pos_right h1 hz, mul_lt_mul_of_pos_right h2 hx,
      mul_le_mul_of_nonneg_right hneg (le_of_lt hy)]
  · by_contra hneg
    have hneg : z.1 * z.1 * x.2 ≤ x.1 * x.1 * z.2 := not_lt.mp hneg
    nlinarith [mul_lt_mul_of_pos_right h1 hz, mul_lt_mul_of_pos_right h2 hx,
      mul_le_mul_of_nonneg_right hneg (le_of_lt hy)]

theorem bestIdxAux_spec (d : V3) (l : List Tri) (hpos : ∀ t ∈ l, 0 < (t.key d).2) :
    ∀ (ts pre : List Tri) (i bi : Nat) (bt : Tri), l = pre ++ ts → i = pre.length → l[bi]? = some bt →
      (∀ t ∈ pre, ¬ alignLt (bt.key d) (t.key d)) →
      ∃ a, l[bestIdxAux d ts i bi bt]? = some a ∧ ∀ t ∈ l, ¬ alignLt (a.key d) (t.key d) := by
  intro ts
  induction ts with
  | nil =>
    intro pre i bi bt hl _ hb hinv
    refine ⟨bt, hb, ?_⟩
    intro t ht
    rw [hl, List.append_nil] at ht
    exact hinv t ht
  | cons t ts ih =>
    intro pre i bi bt hl hi hb hinv
    have hbt : bt ∈ l := List.mem_of_getElem? hb
    have ht : t ∈ l := by rw [hl]; simp
    unfold bestIdxAux
    split
    · rename_i hlt
      apply ih (pre ++ [t]) (i + 1) i t
      · rw [hl]; simp
      · simp [hi]
      · rw [hl, hi]; simp
      · intro u hu
        rcases List.mem_append.mp hu with hu | hu
        · intro hcon
          have hul : u ∈ l := by rw [hl]; exact List.mem_append_left _ hu
          exact hinv u hu (alignLt_trans (hpos bt hbt) (hpos t ht) (hpos u hul) hlt hcon)
        · simp only [List.mem_cons, List.not_mem_nil, or_false] at hu
          subst hu
          exact alignLt_irrefl _
    · rename_i hlt
      apply ih (pre ++ [t]) (i + 1) bi bt
      · rw [hl]; simp
      · simp [hi]
      · exact hb
      · intro u hu
        rcases List.mem_append.mp hu with hu | hu
        · exact hinv u hu
        · simp only [List.mem_cons, List.not_mem_nil, or_false] at hu
          subst hu
          exact hlt

theorem bestIdx_spec {d : V3} {l : List Tri} (hpos : ∀ t ∈ l, 0 < (t.key d).2) {r : Nat}
    (h : bestIdx d l = some r) : ∃ a, l[r]? = some a ∧ ∀ t ∈ l, ¬ alignLt (a.key d) (t.key d) := by
  cases l with
  | nil => simp [bestIdx] at h
  | cons t ts =>
    simp only [bestIdx, Option.some.injEq] at h
    subst h
    apply bestIdxAux_spec d (t :: ts) hpos ts [t] 1 0 t rfl rfl rfl
    intro u hu
    simp only [List.mem_cons, List.not_mem_nil, or_false] at hu
    subst hu
    exact alignLt_irrefl _

/-- `sorted(triangles, key)[-2:]`: no triangle is better aligned than the best one, and none of the
    others is better aligned than the second -/
theorem pick2_max {d : V3} {l : List Tri} (hpos : ∀ t ∈ l, 0 < (t.key d).2) {b a : Tri} {rest : List Tri}
    (h : pick2 d l = some (b, a, rest)) :
    (∀ t ∈ l, ¬ alignLt (a.key d) (t.key d)) ∧ (∀ t ∈ rest, ¬ alignLt (b.key d) (t.key d)) := by
  unfold pick2 at h
  simp only [Option.bind_eq_bind] at h
  cases hi : bestIdx d l with
  | none => simp [hi] at h
  | some i =>
    simp only [hi, Option.bind_some] at h
    cases ha : l[i]? with
    | none => simp [ha] at h
    | some a' =>
      simp only [ha, Option.bind_some] at h
      cases hj : bestIdx d (l.eraseIdx i) with
      | none => simp [hj] at h
      | some j =>
        simp only [hj, Option.bind_some] at h
        cases hb : (l.eraseIdx i)[j]? with
        | none => simp [hb] at h
        | some b' =>
          simp only [hb, Option.bind_some, Option.some.injEq, Prod.mk.injEq] at h
          obtain ⟨rfl, rfl, rfl⟩ := h
          have hsub : (l.eraseIdx i).Sublist l := List.eraseIdx_sublist l i
          obtain ⟨a2, ha2, hmax⟩ := bestIdx_spec hpos hi
          rw [ha] at ha2
          cases ha2
          obtain ⟨b2, hb2, hmax2⟩ := bestIdx_spec (fun t ht => hpos t (hsub.subset ht)) hj
          rw [hb] at hb2
          cases hb2
          exact ⟨hmax, fun t ht => hmax2 t ((List.eraseIdx_sublist _ j).subset ht)⟩

end CBV.C18
