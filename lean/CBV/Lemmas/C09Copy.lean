/-
C09 — `copy` (deep copy with memo) builds an equal entity on fresh cells and leaves the heap it started
from untouched.
-/
import CBV.Lemmas.C09Tree

namespace CBV.C09
open CBV

theorem get_append_left (h ext : Heap) (i : Nat) (hi : i < h.length) : Heap.get (h ++ ext) i = Heap.get h i := by
  simp only [Heap.get, List.getD_eq_getElem?_getD, List.getElem?_append_left hi]

theorem get_append_length (h : Heap) (v : V3) : Heap.get (h ++ [v]) h.length = v := by
  simp [Heap.get, List.getD_eq_getElem?_getD]

theorem lookup_mem : ∀ (m : List (Nat × Nat)) (i j : Nat), m.lookup i = some j → (i, j) ∈ m
  | [], _, _, h => by simp [List.lookup] at h
  | (a, b) :: m, i, j, h => by
      simp only [List.lookup] at h
      by_cases hia : i = a
      · subst hia
        simp at h
        subst h
        exact List.mem_cons_self
      · have : (i == a) = false := by simpa using hia
        rw [this] at h
        exact List.mem_cons_of_mem _ (lookup_mem m i j h)

/-- invariant of the copy state with respect to the heap `h0` the copy started from -/
def Inv (h0 : Heap) (s : CopySt) : Prop :=
  (∃ ext, s.heap = h0 ++ ext) ∧
    ∀ p ∈ s.memo, p.1 < h0.length ∧ h0.length ≤ p.2 ∧ p.2 < s.heap.length ∧ Heap.get s.heap p.2 = Heap.get h0 p.1

/-- what one copied leaf cell satisfies -/
def Fresh (h0 : Heap) (s s' : CopySt) (i j : Nat) : Prop :=
  Inv h0 s' ∧ (∃ ext, s'.heap = s.heap ++ ext) ∧ h0.length ≤ j ∧ j < s'.heap.length ∧
    Heap.get s'.heap j = Heap.get h0 i

theorem copyCell_spec (h0 : Heap) (s : CopySt) (i : Nat) (hinv : Inv h0 s) (hi : i < h0.length) :
    Fresh h0 s (copyCell i s).2 i (copyCell i s).1 := by
  obtain ⟨⟨ext, hext⟩, hmemo⟩ := hinv
  unfold copyCell
  cases hl : s.memo.lookup i with
  | some j =>
      have hm := hmemo _ (lookup_mem _ _ _ hl)
      exact ⟨⟨⟨ext, hext⟩, hmemo⟩, ⟨[], by simp⟩, hm.2.1, hm.2.2.1, hm.2.2.2⟩
  | none =>
      have hlen : h0.length ≤ s.heap.length := by rw [hext]; simp
      have hgi : Heap.get s.heap i = Heap.get h0 i := by rw [hext]; exact get_append_left _ _ _ hi
      refine ⟨⟨⟨ext ++ [Heap.get s.heap i], by simp [hext]⟩, ?_⟩, ⟨[Heap.get s.heap i], rfl⟩, hlen, by simp, ?_⟩
      · intro p hp
        rcases List.mem_cons.mp hp with h | h
        · subst h
          refine ⟨hi, hlen, by simp, ?_⟩
          simp only []
          rw [get_append_length, hgi]
        · have hm := hmemo p h
          refine ⟨hm.1, hm.2.1, by simp; omega, ?_⟩
          simp only []
          rw [get_append_left _ _ _ hm.2.2.1]
          exact hm.2.2.2
      · simp only []
        rw [get_append_length, hgi]

/-- values read through a tree -/
def valsE (h : Heap) (e : Ent) : List (V3 × Bool) := (visitsE e).map (fun v => (Heap.get h v.1, v.2))
def valsL (h : Heap) (es : List Ent) : List (V3 × Bool) := (visitsL es).map (fun v => (Heap.get h v.1, v.2))

mutual
/-- the tree with the cell numbers erased -/
def skelE : Ent → Ent
  | .pt _ => .pt 0
  | .dir _ => .dir 0
  | .arr is => .arr (is.map (fun _ => 0))
  | .node k a ch => .node k a (skelL ch)
def skelL : List Ent → List Ent
  | [] => []
  | e :: es => skelE e :: skelL es
end

/-- specification of a copied list of visits -/
def CopyOk (h0 : Heap) (s s' : CopySt) (vs vs' : List (Nat × Bool)) : Prop :=
  Inv h0 s' ∧ (∃ ext, s'.heap = s.heap ++ ext) ∧
    vs'.map (fun v => (Heap.get s'.heap v.1, v.2)) = vs.map (fun v => (Heap.get h0 v.1, v.2)) ∧
    ∀ v ∈ vs', h0.length ≤ v.1 ∧ v.1 < s'.heap.length

theorem CopyOk.single (h0 : Heap) (s s' : CopySt) (i j : Nat) (b : Bool) (h : Fresh h0 s s' i j) :
    CopyOk h0 s s' [(i, b)] [(j, b)] := by
  obtain ⟨h1, h2, h3, h4, h5⟩ := h
  refine ⟨h1, h2, by simp [h5], ?_⟩
  intro v hv
  simp at hv
  subst hv
  exact ⟨h3, h4⟩

/-- two consecutive copies compose -/
theorem CopyOk.append (h0 : Heap) (s s1 s2 : CopySt) (a a' b b' : List (Nat × Bool))
    (h1 : CopyOk h0 s s1 a a') (h2 : CopyOk h0 s1 s2 b b') : CopyOk h0 s s2 (a ++ b) (a' ++ b') := by
  obtain ⟨_, ⟨e1, he1⟩, hv1, hf1⟩ := h1
  obtain ⟨i2, ⟨e2, he2⟩, hv2, hf2⟩ := h2
  refine ⟨i2, ⟨e1 ++ e2, by rw [he2, he1, List.append_assoc]⟩, ?_, ?_⟩
  · rw [List.map_append, List.map_append, hv2, ← hv1]
    congr 1
    apply List.map_congr_left
    intro v hv
    rw [he2, get_append_left _ _ _ (hf1 v hv).2]
  · intro v hv
    rcases List.mem_append.mp hv with h | h
    · have := hf1 v h
      refine ⟨this.1, ?_⟩
      rw [he2]; simp; omega
    · exact hf2 v h

theorem CopyOk.nil (h0 : Heap) (s : CopySt) (h : Inv h0 s) : CopyOk h0 s s [] [] :=
  ⟨h, ⟨[], by simp⟩, rfl, by intro v hv; cases hv⟩

theorem copyCells_spec (h0 : Heap) : ∀ (is : List Nat) (s : CopySt), Inv h0 s → (∀ i ∈ is, i < h0.length) →
    CopyOk h0 s (copyCells is s).2 (is.map (fun i => (i, false))) ((copyCells is s).1.map (fun i => (i, false))) ∧
      (copyCells is s).1.length = is.length
  | [], s, hinv, _ => ⟨CopyOk.nil h0 s hinv, rfl⟩
  | i :: is, s, hinv, hlt => by
      have h1 := copyCell_spec h0 s i hinv (hlt i List.mem_cons_self)
      have h2 := copyCells_spec h0 is (copyCell i s).2 h1.1 (fun k hk => hlt k (List.mem_cons_of_mem _ hk))
      simp only [copyCells, List.map_cons, List.length_cons]
      refine ⟨?_, by rw [h2.2]⟩
      have := CopyOk.append h0 s _ _ [(i, false)] [((copyCell i s).1, false)] _ _
        (CopyOk.single h0 s _ i _ false h1) h2.1
      simpa using this

mutual
theorem copyE_spec (h0 : Heap) : ∀ (e : Ent) (s : CopySt), Inv h0 s → (∀ v ∈ visitsE e, v.1 < h0.length) →
    CopyOk h0 s (copyE e s).2 (visitsE e) (visitsE (copyE e s).1) ∧ skelE (copyE e s).1 = skelE e
  | .pt i, s, hinv, hlt => by
      have h1 := copyCell_spec h0 s i hinv (hlt (i, false) (by simp [visitsE]))
      simp only [copyE, visitsE, skelE]
      exact ⟨CopyOk.single h0 s _ i _ false h1, trivial⟩
  | .dir i, s, hinv, hlt => by
      have h1 := copyCell_spec h0 s i hinv (hlt (i, true) (by simp [visitsE]))
      simp only [copyE, visitsE, skelE]
      exact ⟨CopyOk.single h0 s _ i _ true h1, trivial⟩
  | .arr is, s, hinv, hlt => by
      have h1 := copyCells_spec h0 is s hinv (fun i hi => hlt (i, false) (by simp [visitsE]; exact hi))
      simp only [copyE, visitsE, skelE]
      refine ⟨h1.1, ?_⟩
      congr 1
      apply List.ext_getElem
      · simp [h1.2]
      · intro n h1 h2; simp
  | .node k a ch, s, hinv, hlt => by
      have h1 := copyL_spec h0 ch s hinv (by simpa [visitsE] using hlt)
      simp only [copyE, visitsE, skelE]
      exact ⟨h1.1, by rw [h1.2]⟩
theorem copyL_spec (h0 : Heap) : ∀ (es : List Ent) (s : CopySt), Inv h0 s → (∀ v ∈ visitsL es, v.1 < h0.length) →
    CopyOk h0 s (copyL es s).2 (visitsL es) (visitsL (copyL es s).1) ∧ skelL (copyL es s).1 = skelL es
  | [], s, hinv, _ => by
      simp only [copyL, visitsL, skelL]
      exact ⟨CopyOk.nil h0 s hinv, trivial⟩
  | e :: es, s, hinv, hlt => by
      have hlt1 : ∀ v ∈ visitsE e, v.1 < h0.length := fun v hv => hlt v (by simp [visitsL]; exact Or.inl hv)
      have hlt2 : ∀ v ∈ visitsL es, v.1 < h0.length := fun v hv => hlt v (by simp [visitsL]; exact Or.inr hv)
      have h1 := copyE_spec h0 e s hinv hlt1
      have h2 := copyL_spec h0 es (copyE e s).2 h1.1.1 hlt2
      simp only [copyL, visitsL, skelL]
      exact ⟨CopyOk.append h0 s _ _ _ _ _ _ h1.1 h2.1, by rw [h1.2, h2.2]⟩
end

end CBV.C09
