/-
C16 — helper lemmas: polylines over a distance oracle, list slicing, first minimum, sorted knot lists.
-/
import CBV.Model.C16
import Mathlib.Tactic.Ring
import Mathlib.Tactic.Linarith
import Mathlib.Tactic.FieldSimp
import Mathlib.Algebra.Order.Field.Rat
import CBV.Lemmas.C08

namespace CBV.C16

variable {α : Type}

/-! ### polylines -/

theorem polyLenD_append (d : α → α → Rat) : ∀ (l1 : List α) (x : α) (l2 : List α),
    polyLenD d (l1 ++ x :: l2) = polyLenD d (l1 ++ [x]) + polyLenD d (x :: l2)
  | [], x, l2 => by simp [polyLenD]
  | [p], x, l2 => by simp [polyLenD]
  | p :: q :: l1, x, l2 => by
      have := polyLenD_append d (q :: l1) x l2
      simp only [List.cons_append, polyLenD] at this ⊢
      linarith

theorem polyLenD_snoc (d : α → α → Rat) (l : List α) (x y : α) :
    polyLenD d (l ++ [x, y]) = polyLenD d (l ++ [x]) + d x y := by
  have := polyLenD_append d l x [y]
  simp only [polyLenD] at this
  linarith

theorem polyLenD_reverse (d : α → α → Rat) (hsym : ∀ x y, d x y = d y x) :
    ∀ l : List α, polyLenD d l.reverse = polyLenD d l
  | [] => rfl
  | [_] => rfl
  | p :: q :: rest => by
      have ih := polyLenD_reverse d hsym (q :: rest)
      have : (p :: q :: rest).reverse = rest.reverse ++ [q, p] := by simp
      rw [this, polyLenD_snoc]
      have h2 : rest.reverse ++ [q] = (q :: rest).reverse := by simp
      rw [h2, ih, hsym q p]
      simp only [polyLenD]; ring

/-! ### parameters of a discrete curve -/

theorem checkParam_spec {n : Nat} {p : Rat} {i : Nat} (h : checkParam n p = some i) :
    i < n ∧ (i : Int) = p.floor ∧ 0 ≤ p ∧ p ≤ ((n : Int) - 1 : Int) := by
  unfold checkParam at h
  split at h
  · rename_i hp
    cases h
    have h0 : 0 ≤ p.floor := Rat.le_floor_iff.mpr (by simpa using hp.1)
    have h1 : p.floor ≤ (n : Int) - 1 := by
      have := Rat.floor_monotone hp.2
      rwa [Rat.floor_intCast] at this
    refine ⟨by omega, by omega, hp.1, hp.2⟩
  · cases h

theorem checkParam_mono {n : Nat} {a b : Rat} {i j : Nat} (ha : checkParam n a = some i)
    (hb : checkParam n b = some j) (hab : a ≤ b) : i ≤ j := by
  have h1 := (checkParam_spec ha).2.1
  have h2 := (checkParam_spec hb).2.1
  have := Rat.floor_monotone hab
  omega

theorem checkParam_some {n : Nat} {p : Rat} (h0 : 0 ≤ p) (h1 : p ≤ ((n : Int) - 1 : Int)) :
    ∃ i, checkParam n p = some i := by
  unfold checkParam
  rw [if_pos ⟨h0, h1⟩]; exact ⟨_, rfl⟩

/-! ### slices -/

theorem slice_split (pts : List α) (i j k : Nat) (hij : i ≤ j) (hjk : j ≤ k) (hk : k < pts.length) :
    ∃ l1 x l2, slice pts i j = l1 ++ [x] ∧ slice pts j k = x :: l2 ∧ slice pts i k = l1 ++ x :: l2 ∧
      pts[j]? = some x := by
  have hj : j < pts.length := by omega
  refine ⟨(pts.drop i).take (j - i), pts[j], (pts.drop (j + 1)).take (k - j), ?_, ?_, ?_, by simp [hj]⟩
  · unfold slice
    have : j + 1 - i = (j - i) + 1 := by omega
    rw [this, List.take_add_one]
    have : (pts.drop i)[j - i]? = some pts[j] := by
      rw [List.getElem?_drop]; simp [show i + (j - i) = j by omega, hj]
    rw [this]; rfl
  · unfold slice
    have : k + 1 - j = (k - j) + 1 := by omega
    rw [this, List.drop_eq_getElem_cons hj, List.take_succ_cons]
  · unfold slice
    have e1 : k + 1 - i = (j - i) + (k + 1 - j) := by omega
    rw [e1, List.take_add, List.drop_drop, show i + (j - i) = j by omega]
    congr 1
    have : k + 1 - j = (k - j) + 1 := by omega
    rw [this, List.drop_eq_getElem_cons hj, List.take_succ_cons]

theorem slice_head (pts : List α) (i j : Nat) (hij : i ≤ j) : (slice pts i j).head? = pts[i]? := by
  unfold slice
  rw [List.head?_take]
  have : j + 1 - i ≠ 0 := by omega
  simp [this]

theorem slice_last (pts : List α) (i j : Nat) (hij : i ≤ j) (hj : j < pts.length) :
    (slice pts i j).getLast? = pts[j]? := by
  obtain ⟨l1, x, _, h1, _, _, hx⟩ := slice_split pts i j j hij (Nat.le_refl _) hj
  rw [h1, hx]; simp

/-! ### first minimum -/

theorem argminAux_spec (L : List Rat) : ∀ (xs pre : List Rat) (best : Nat) (bx : Rat),
    L = pre ++ xs → best < pre.length → L.getD best 0 = bx →
    (∀ j, j < pre.length → bx ≤ L.getD j 0 ∧ (j < best → bx < L.getD j 0)) →
    argminAux xs pre.length best bx < L.length ∧
      ∀ j, j < L.length → L.getD (argminAux xs pre.length best bx) 0 ≤ L.getD j 0 ∧
        (j < argminAux xs pre.length best bx → L.getD (argminAux xs pre.length best bx) 0 < L.getD j 0)
  | [], pre, best, bx, hL, hb, hbx, hinv => by
      simp only [argminAux]
      have hlen : L.length = pre.length := by rw [hL]; simp
      refine ⟨by omega, ?_⟩
      intro j hj
      rw [hbx]
      exact hinv j (by omega)
  | x :: xs, pre, best, bx, hL, hb, hbx, hinv => by
      have hL' : L = (pre ++ [x]) ++ xs := by rw [hL]; simp
      have hlen' : (pre ++ [x]).length = pre.length + 1 := by simp
      have hx : L.getD pre.length 0 = x := by rw [hL]; simp
      simp only [argminAux]
      split
      · rename_i hlt
        have := argminAux_spec L xs (pre ++ [x]) pre.length x hL' (by omega) hx (by
          intro j hj
          rw [hlen'] at hj
          rcases Nat.lt_succ_iff_lt_or_eq.mp hj with h | h
          · have := (hinv j h).1
            exact ⟨by linarith, fun _ => by linarith⟩
          · subst h; exact ⟨by rw [hx], fun h => absurd h (Nat.lt_irrefl _)⟩)
        rwa [hlen'] at this
      · rename_i hge
        have hge' : bx ≤ x := not_lt.mp hge
        have := argminAux_spec L xs (pre ++ [x]) best bx hL' (by omega) hbx (by
          intro j hj
          rw [hlen'] at hj
          rcases Nat.lt_succ_iff_lt_or_eq.mp hj with h | h
          · exact hinv j h
          · subst h; exact ⟨by rw [hx]; exact hge', fun h => absurd h (by omega)⟩)
        rwa [hlen'] at this

/-! ### sorted parameter lists -/

/-- consecutive elements of a strictly increasing list have no element of the list strictly between them -/
theorem consec_no_between : ∀ (L : List Rat), L.Pairwise (· < ·) → ∀ u v, (u, v) ∈ L.zip L.tail →
    ∀ t ∈ L, ¬ (u < t ∧ t < v)
  | [], _, u, v, h, _, _ => by simp at h
  | [_], _, u, v, h, _, _ => by simp at h
  | u0 :: v0 :: rest, hs, u, v, h, t, ht => by
      simp only [List.tail_cons, List.zip_cons_cons, List.mem_cons] at h
      rw [List.pairwise_cons] at hs
      obtain ⟨h0, hs'⟩ := hs
      rcases h with h | h
      · cases h
        rintro ⟨h1, h2⟩
        simp only [List.mem_cons] at ht
        rcases ht with rfl | rfl | ht
        · exact lt_irrefl _ h1
        · exact lt_irrefl _ h2
        · rw [List.pairwise_cons] at hs'
          have := hs'.1 t ht
          exact lt_irrefl _ (lt_trans this h2)
      · have hu : u ∈ v0 :: rest := (List.of_mem_zip h).1
        simp only [List.mem_cons] at ht
        rcases ht with rfl | ht
        · rintro ⟨h1, _⟩
          have := h0 u hu
          exact lt_irrefl _ (lt_trans this h1)
        · exact consec_no_between (v0 :: rest) hs' u v h t (by simpa using ht)

/-- telescoping: if every consecutive pair of parameters is `S v − S u` apart (`S` = length along the curve), the polyline
    through the curve points at these parameters has length `S last − S first` -/
theorem polyLenD_telescope (d : α → α → Rat) (f : Rat → α) (S : Rat → Rat) : ∀ (L : List Rat) (first last : Rat),
    L.head? = some first → L.getLast? = some last →
    (∀ u v, (u, v) ∈ L.zip L.tail → d (f u) (f v) = S v - S u) →
    polyLenD d (L.map f) = S last - S first
  | [], _, _, h, _, _ => by simp at h
  | [x], first, last, hf, hl, _ => by
      simp at hf hl; subst hf; subst hl; simp [polyLenD]
  | x :: y :: rest, first, last, hf, hl, h => by
      simp at hf; subst hf
      have hl' : (y :: rest).getLast? = some last := by simpa [List.getLast?_cons_cons] using hl
      have ih := polyLenD_telescope d f S (y :: rest) y last rfl hl' (by
        intro u v huv
        exact h u v (by simp only [List.tail_cons, List.zip_cons_cons, List.mem_cons]; right; simpa using huv))
      have h0 := h x y (by simp)
      simp only [List.map_cons, polyLenD] at ih ⊢
      rw [ih, h0]; ring

/-! ### projection to a segment -/

open CBV.C08 (Vec cauchy_schwarz) in
theorem dist2_lerp (p0 p1 q : V) (lam : Rat) :
    dist2 (lerpV p0 p1 lam) q = Vec.nsq (Vec.sub p1 p0) * lam * lam
      - 2 * Vec.dot (Vec.sub q p0) (Vec.sub p1 p0) * lam + Vec.nsq (Vec.sub q p0) := by
  simp only [dist2, lerpV, Vec.nsq, Vec.dot, Vec.sub]; ring

open CBV.C08 (Vec) in
theorem nsq_nonneg (v : V) : 0 ≤ Vec.nsq v := by
  simp only [Vec.nsq, Vec.dot]
  have := mul_self_nonneg v.x
  have := mul_self_nonneg v.y
  have := mul_self_nonneg v.z
  linarith

open CBV.C08 (Vec cauchy_schwarz) in
/-- the clipped projection minimises the distance over the whole segment -/
theorem seg_opt (p0 p1 q : V) (lam : Rat) (h0 : 0 ≤ lam) (h1 : lam ≤ 1) :
    segDist2 p0 p1 q ≤ dist2 (lerpV p0 p1 lam) q := by
  unfold segDist2
  rw [dist2_lerp, dist2_lerp]
  unfold segRatio
  simp only []
  set A := Vec.nsq (Vec.sub p1 p0) with hA
  set B := Vec.dot (Vec.sub q p0) (Vec.sub p1 p0) with hB
  set W := Vec.nsq (Vec.sub q p0)
  have hA0 : 0 ≤ A := nsq_nonneg _
  by_cases hpos : 0 < A
  · rw [if_pos hpos]
    obtain ⟨x, hx⟩ : ∃ x, x = B / A := ⟨_, rfl⟩
    have hBx : B = x * A := by rw [hx]; field_simp
    rw [← hx]
    unfold clip01
    split
    · rename_i hneg
      have : x * A ≤ 0 := by nlinarith
      nlinarith [mul_nonneg hA0 (mul_nonneg h0 h0), mul_nonneg h0 (neg_nonneg.mpr this)]
    · split
      · rename_i hbig
        have h2 : A * (1 - x) ≤ 0 := by nlinarith
        nlinarith [mul_nonneg (sub_nonneg.mpr h1) (neg_nonneg.mpr h2), mul_nonneg hA0 (mul_nonneg (sub_nonneg.mpr h1) (sub_nonneg.mpr h1))]
      · have : 0 ≤ A * ((lam - x) * (lam - x)) := mul_nonneg hA0 (mul_self_nonneg _)
        nlinarith
  · have hAz : A = 0 := le_antisymm (not_lt.mp hpos) hA0
    have hcs := cauchy_schwarz (Vec.sub q p0) (Vec.sub p1 p0)
    rw [← hB, ← hA, hAz] at hcs
    have hBz : B = 0 := by
      have : B * B ≤ 0 := by simpa using hcs
      nlinarith [mul_self_nonneg B]
    rw [hAz, hBz]; simp

/-! ### the linear interpolant: knots of exact chord lengths, segment selection of `lerp` -/

/-- consecutive knots differ by (segment length)/T, segment lengths positive -/
def KnotOK (T : Rat) : List Rat → List V → Prop
  | t0 :: t1 :: ts, p0 :: p1 :: ps =>
      t0 < t1 ∧ ((t1 - t0) * T) * ((t1 - t0) * T) = dist2 p1 p0 ∧ KnotOK T (t1 :: ts) (p1 :: ps)
  | [_], [_] => True
  | _, _ => False

/-- `ds` are exact, positive distances of consecutive points of `ps` -/
def SegWitPos : List V → List Rat → Prop
  | p :: q :: rest, d :: ds => 0 < d ∧ d * d = dist2 q p ∧ SegWitPos (q :: rest) ds
  | [_], [] => True
  | _, _ => False

/-- knots from an offset: `c/T :: (cumsum from c)/T` -/
def knotsFrom (T c : Rat) (ds : List Rat) : List Rat := (c / T) :: (cumsumFrom c ds).map (· / T)

theorem knotsFrom_cons (T c d : Rat) (ds : List Rat) :
    knotsFrom T c (d :: ds) = (c / T) :: knotsFrom T (c + d) ds := rfl

theorem knotParams_eq (ds : List Rat) : knotParams ds = knotsFrom (total ds) 0 ds := by
  simp [knotParams, knotsFrom]

theorem knotsFrom_ok (T : Rat) (hT : 0 < T) : ∀ (ps : List V) (ds : List Rat) (c : Rat), SegWitPos ps ds →
    KnotOK T (knotsFrom T c ds) ps ∧ (∀ t ∈ knotsFrom T c ds, c / T ≤ t) ∧
      (knotsFrom T c ds).Pairwise (· < ·) ∧ (knotsFrom T c ds).getLast? = some ((c + total ds) / T) ∧
      (knotsFrom T c ds).length = ps.length
  | [], _, _, h => by simp [SegWitPos] at h
  | [_], [], c, _ => by simp [knotsFrom, cumsumFrom, KnotOK, total]
  | [_], _ :: _, _, h => by simp [SegWitPos] at h
  | p :: q :: rest, [], _, h => by simp [SegWitPos] at h
  | p :: q :: rest, d :: ds, c, h => by
      obtain ⟨hd0, hd, hrest⟩ := h
      obtain ⟨ih1, ih2, ih3, ih4, ih5⟩ := knotsFrom_ok T hT (q :: rest) ds (c + d) hrest
      have hlt : c / T < (c + d) / T := by
        apply div_lt_div_of_pos_right _ hT; linarith
      rw [knotsFrom_cons]
      have hne : T ≠ 0 := ne_of_gt hT
      refine ⟨?_, ?_, ?_, ?_, ?_⟩
      · -- KnotOK: the tail starts with (c+d)/T
        have htail : knotsFrom T (c + d) ds = ((c + d) / T) :: (cumsumFrom (c + d) ds).map (· / T) := rfl
        rw [htail] at ih1 ⊢
        refine ⟨hlt, ?_, ih1⟩
        have : ((c + d) / T - c / T) * T = d := by field_simp; ring
        rw [this, hd]
      · intro t ht
        simp only [List.mem_cons] at ht
        rcases ht with rfl | ht
        · exact le_refl _
        · exact le_trans (le_of_lt hlt) (ih2 t ht)
      · rw [List.pairwise_cons]
        exact ⟨fun t ht => lt_of_lt_of_le hlt (ih2 t ht), ih3⟩
      · have hne' : knotsFrom T (c + d) ds ≠ [] := by simp [knotsFrom]
        rw [List.getLast?_cons_of_ne_nil hne', ih4]
        simp only [total, List.foldr]
        congr 2; ring
      · simp [ih5]

theorem lerpV_one_zero (p0 p1 p2 : V) : lerpV p0 p1 1 = lerpV p1 p2 0 := by
  simp [lerpV]

/-- inside one knot interval both curve points are given by the same segment formula -/
theorem lerp_same_segment (T : Rat) : ∀ (ts : List Rat) (ps : List V), KnotOK T ts ps → 2 ≤ ts.length →
    ∀ (x z : Rat) (t0 tl : Rat), ts.head? = some t0 → ts.getLast? = some tl → t0 ≤ x → x ≤ z → z ≤ tl →
    (∀ t ∈ ts, ¬ (x < t ∧ t < z)) →
    ∃ (q0 q1 : V) (s0 s1 : Rat), s0 < s1 ∧ ((s1 - s0) * T) * ((s1 - s0) * T) = dist2 q1 q0 ∧
      lerp ts ps x = some (lerpV q0 q1 ((x - s0) / (s1 - s0))) ∧
      lerp ts ps z = some (lerpV q0 q1 ((z - s0) / (s1 - s0)))
  | [], _, _, hlen, _, _, _, _, _, _, _, _, _, _ => by simp at hlen
  | [_], _, _, hlen, _, _, _, _, _, _, _, _, _, _ => by simp at hlen
  | t0' :: t1 :: ts, [], h, _, _, _, _, _, _, _, _, _, _, _ => by simp [KnotOK] at h
  | t0' :: t1 :: ts, [_], h, _, _, _, _, _, _, _, _, _, _, _ => by simp [KnotOK] at h
  | t0' :: t1 :: ts, p0 :: p1 :: ps, h, _, x, z, t0, tl, h0, hl, hx, hxz, hz, hno => by
      obtain ⟨h01, hseg, hrest⟩ := h
      simp only [List.head?_cons, Option.some.injEq] at h0
      subst h0
      have hne : t1 - t0' ≠ 0 := ne_of_gt (sub_pos.mpr h01)
      by_cases hx1 : x < t1
      · have hz1 : z ≤ t1 := by
          by_contra hc
          exact hno t1 (by simp) ⟨hx1, not_le.mp hc⟩
        refine ⟨p0, p1, t0', t1, h01, hseg, ?_, ?_⟩
        · simp only [lerp]; rw [if_pos ⟨hx, le_of_lt hx1⟩]
        · simp only [lerp]; rw [if_pos ⟨le_trans hx hxz, hz1⟩]
      · have hx1' : t1 ≤ x := not_lt.mp hx1
        by_cases hz1 : z ≤ t1
        · have hxe : x = t1 := le_antisymm (le_trans hxz hz1) hx1'
          have hze : z = t1 := le_antisymm hz1 (le_trans hx1' hxz)
          refine ⟨p0, p1, t0', t1, h01, hseg, ?_, ?_⟩
          · simp only [lerp]; rw [if_pos ⟨hx, by rw [hxe]⟩]
          · simp only [lerp]; rw [if_pos ⟨le_trans hx hxz, hz1⟩]
        · have hz1' : t1 < z := not_le.mp hz1
          -- the tail has at least two knots, otherwise z ≤ t1
          match ts, ps, hrest, hl, hno with
          | [], _, _, hl, _ =>
              simp at hl; subst hl; exact absurd hz (not_le.mpr hz1')
          | t2 :: ts', [], hrest, _, _ => simp [KnotOK] at hrest
          | t2 :: ts', p2 :: ps', hrest, hl, hno =>
              have hl' : (t1 :: t2 :: ts').getLast? = some tl := by
                simpa [List.getLast?_cons_cons] using hl
              obtain ⟨q0, q1, s0, s1, hs01, hsseg, hlx, hlz⟩ :=
                lerp_same_segment T (t1 :: t2 :: ts') (p1 :: p2 :: ps') hrest (by simp) x z t1 tl rfl hl'
                  hx1' hxz hz (fun t ht => hno t (List.mem_cons_of_mem _ ht))
              refine ⟨q0, q1, s0, s1, hs01, hsseg, ?_, ?_⟩
              · by_cases hxe : x = t1
                · -- x is the knot t1: the first segment gives p1 = lerpV p0 p1 1, the tail gives the same point
                  have h12 : t1 < t2 := hrest.1
                  have e1 : lerp (t0' :: t1 :: t2 :: ts') (p0 :: p1 :: p2 :: ps') x = some (lerpV p0 p1 1) := by
                    simp only [lerp]; rw [if_pos ⟨hx, by rw [hxe]⟩, hxe, div_self hne]
                  have e2 : lerp (t1 :: t2 :: ts') (p1 :: p2 :: ps') x = some (lerpV p1 p2 0) := by
                    simp only [lerp]; rw [if_pos ⟨hx1', by rw [hxe]; exact le_of_lt h12⟩, hxe]; simp
                  rw [e1, lerpV_one_zero p0 p1 p2, ← e2, hlx]
                · have : t1 < x := lt_of_le_of_ne hx1' (Ne.symm hxe)
                  simp only [lerp]
                  rw [if_neg (by intro hh; exact absurd hh.2 (not_le.mpr this))]
                  exact hlx
              · simp only [lerp]
                rw [if_neg (by intro hh; exact absurd hh.2 hz1)]
                exact hlz

theorem total_pos : ∀ (ps : List V) (ds : List Rat), SegWitPos ps ds → 2 ≤ ps.length → 0 < total ds
  | [], _, h, _ => by simp [SegWitPos] at h
  | [_], _, _, hl => by simp at hl
  | p :: q :: rest, [], h, _ => by simp [SegWitPos] at h
  | p :: q :: rest, d :: ds, h, _ => by
      obtain ⟨hd0, _, hrest⟩ := h
      simp only [total, List.foldr]
      match rest, ds, hrest with
      | [], [], _ => simp; exact hd0
      | [], _ :: _, hrest => simp [SegWitPos] at hrest
      | r :: rest', ds', hrest =>
          have := total_pos (q :: r :: rest') ds' hrest (by simp)
          simp only [total] at this
          linarith

open CBV.C08 (Vec) in
theorem dist2_symm (p q : V) : dist2 p q = dist2 q p := by
  simp only [dist2, Vec.nsq, Vec.dot, Vec.sub]; ring

end CBV.C16
