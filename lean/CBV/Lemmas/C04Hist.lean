/-
Sessions with vertex moves on the composed model (`Model/C04Hist.lean`): whatever a mesh remembers, a `grade()` is the
run of a fresh mesh on the geometry and the chops of the moment.
-/
import CBV.Model.C04Hist
import CBV.Lemmas.C01Hist

namespace CBV.Prop

/-- after the chop managers re-resolved their chops, the input M-HIST grades is the composed input of the moment -/
theorem syncG_inp (m : Mem) (g : Geo) : (m.syncG g).inp (toInp g) = toInp g := by
  have h : (m.syncG g).userChops = (toInp g).chops := by
    funext x
    unfold Mem.userChops Mem.syncG
    simp only
    cases hu : userChopped (toInp g) x
    · unfold userChopped at hu
      simp only [Bool.not_eq_eq_eq_not, Bool.not_false, List.isEmpty_iff] at hu
      simp [hu]
    · simp
  unfold Mem.inp
  rw [h]

theorem runG_eq (g : Geo) :
    runG g = match firstChopError g with
      | some e => .error e
      | none => finishG g (run (toInp g)) := by
  unfold runG
  cases firstChopError g with
  | some e => rfl
  | none =>
    simp only [finishG]
    cases run (toInp g) <;> rfl

/-- one `grade()` on any memory is `runG` on the geometry and chops of the moment -/
theorem gradeG_eq_runG (g : Geo) (m : Mem) : gradeG g m = runG g := by
  rw [runG_eq]
  unfold gradeG
  cases firstChopError g with
  | some e => rfl
  | none =>
    simp only
    rw [grade_is_run, syncG_inp]

theorem gsession_is_spec : ∀ (calls : List GCall) (g : Geo) (m : Mem), gsession g m calls = specG g calls
  | [], _, _ => rfl
  | .write oa ow :: rest, g, m => by
      simp only [gsession, specG]
      rw [gradeG_eq_runG, gsession_is_spec rest]
  | .chop u :: rest, g, m => by
      simp only [gsession, specG]
      exact gsession_is_spec rest _ _
  | .move len :: rest, g, m => by
      simp only [gsession, specG]
      exact gsession_is_spec rest _ _

end CBV.Prop
