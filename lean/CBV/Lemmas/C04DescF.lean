/-
C04 — every chop a manager holds descends from a user chop *along a chain of directions that share an edge* (round 6g):
`Descends` of `Lemmas/C04Desc.lean` with the chain of hops (`AxLink`: each hop is an `Axis.copy_grading` from a neighbour,
i.e. `Axis.is_aligned` finds a coincident wire pair).  Invariant of the propagation phase, for every input and schedule.
-/
import CBV.Lemmas.C04Desc

namespace CBV.Prop

/-- `x` is reached from `y` by hops between directions that share a wire (`axisAligned … = some _`) -/
inductive AxLink (inp : Inp) : Nat → Nat → Prop
  | refl (y : Nat) : AxLink inp y y
  | hop {y nb x : Nat} : AxLink inp y nb → (axisAligned inp nb x).isSome = true → AxLink inp y x

def DescendsF (inp : Inp) (x : Nat) (c : Chop) : Prop :=
  ∃ y, ∃ c0 ∈ inp.chops y, c.id = c0.id ∧ c.ratio = c0.ratio ∧ c.count = c0.count ∧ AxLink inp y x

def DescF (inp : Inp) (st : St) : Prop := ∀ x, ∀ c ∈ chopsOf st x, DescendsF inp x c

theorem copyPreserving_descF (inp : Inp) (b : Bool) (nb x : Nat) (c : Chop) (hal : (axisAligned inp nb x).isSome = true)
    (h : DescendsF inp nb c) : DescendsF inp x (copyPreserving b c) := by
  obtain ⟨y, c0, hc0, h1, h2, h3, hl⟩ := h
  exact ⟨y, c0, hc0, by simpa [copyPreserving] using h1, by simpa [copyPreserving] using h2,
    by simpa [copyPreserving] using h3, .hop hl hal⟩

theorem init_descF (inp : Inp) : DescF inp (gradeBlocks inp (init inp)) := by
  intro x c hc
  have e : chopsOf (gradeBlocks inp (init inp)) x = inp.chops x := (gradeBlocks_fold inp (3 * inp.nBlocks)).1 x
  rw [e] at hc
  exact ⟨x, c, hc, rfl, rfl, rfl, .refl x⟩

theorem axisCopy_descF (inp : Inp) (st st' : St) (x : Nat) (b : Bool) (hi : DescF inp st)
    (h : axisCopy inp st x = .ok (st', b)) : DescF inp st' := by
  unfold axisCopy at h
  split at h
  · cases h; exact hi
  · split at h
    · cases h; exact hi
    · rename_i nb _
      split at h
      · cases h
      · rename_i ha
        have hal : (axisAligned inp nb x).isSome = true := by rw [ha]; rfl
        cases h
        intro y c hc
        rw [gradeAxis_chops, chopsOf_addChops] at hc
        split at hc
        · rename_i hyx
          subst hyx
          rcases List.mem_append.mp hc with hc | hc
          · exact hi _ c hc
          · obtain ⟨c', hc', rfl⟩ := List.mem_map.mp hc
            exact copyPreserving_descF inp _ nb _ c' hal (hi nb c' hc')
        · exact hi y c hc
      · rename_i ha
        have hal : (axisAligned inp nb x).isSome = true := by rw [ha]; rfl
        cases h
        intro y c hc
        rw [gradeAxis_chops, chopsOf_addChops] at hc
        split at hc
        · rename_i hyx
          subst hyx
          rcases List.mem_append.mp hc with hc | hc
          · exact hi _ c hc
          · obtain ⟨c', hc', rfl⟩ := List.mem_map.mp hc
            exact copyPreserving_descF inp _ nb _ c' hal (hi nb c' (List.mem_reverse.mp hc'))
        · exact hi y c hc

theorem blockCopy_descF (inp : Inp) (st st' : St) (b : Nat) (u : Bool) (hi : DescF inp st)
    (h : blockCopy inp st b = .ok (st', u)) : DescF inp st' := by
  unfold blockCopy at h
  split at h
  · cases h; exact hi
  · split at h
    · cases h
    · rename_i r0 h0
      split at h
      · cases h
      · rename_i r1 h1
        split at h
        · cases h
        · rename_i r2 h2
          cases h
          have i0 := axisCopy_descF inp st r0.1 _ r0.2 hi h0
          have i1 := axisCopy_descF inp r0.1 r1.1 _ r1.2 i0 h1
          exact axisCopy_descF inp r1.1 r2.1 _ r2.2 i1 h2

theorem pass_descF (inp : Inp) (wl : List Nat) : ∀ (st : St) (r : St × List Nat × Bool), DescF inp st →
    pass inp st wl = .ok r → DescF inp r.1 := by
  induction wl with
  | nil => intro st r hi h; unfold pass at h; cases h; exact hi
  | cons b rest ih =>
    intro st r hi h
    unfold pass at h
    split at h
    · cases h; exact hi
    · split at h
      · cases h
      · rename_i rb hb
        split at h
        · cases h
        · rename_i p hp
          cases h
          exact ih rb.1 p (blockCopy_descF inp st rb.1 b rb.2 hi hb) hp

theorem loop_descF (inp : Inp) : ∀ (fuel : Nat) (st st' : St) (wl : List Nat), DescF inp st →
    loop inp fuel st wl = .ok st' → DescF inp st' := by
  intro fuel
  induction fuel with
  | zero => intro st st' wl _ h; unfold loop at h; cases h
  | succ f ih =>
    intro st st' wl hi h
    unfold loop at h
    split at h
    · cases h; exact hi
    · split at h
      · cases h
      · rename_i r hr
        split at h
        · exact ih r.1 st' r.2.1 (pass_descF inp _ st r hi hr) h
        · cases h

theorem run_descF (inp : Inp) (st : St) (h : run inp = .ok st) : DescF inp st := by
  unfold run at h
  split at h
  · cases h
  · split at h
    · cases h
    · rename_i st0 hl
      split at h
      · cases h
        exact loop_descF inp _ _ st _ (init_descF inp) hl
      · cases h

end CBV.Prop
