/-
C07 — helper lemmas about faces: a call on a face keeps, for every datum, the two points it joins
and the curve it describes (the datum is reversed exactly when its end points are swapped).
-/
import CBV.Model.C07

namespace CBV.C07

open CBV.C10 (Face shiftIdx pick)

theorem Datum.reverse_reverse (d : Datum) : d.reverse.reverse = d := by
  cases d with
  | mk kind tag pts angle third =>
    cases kind <;> simp [Datum.reverse, Rat.neg_neg]

theorem Datum.reverse_kind (d : Datum) : d.reverse.kind = d.kind := by
  cases d with
  | mk kind tag pts angle third => cases kind <;> rfl

theorem Datum.reverse_tag (d : Datum) : d.reverse.tag = d.tag := by
  cases d with
  | mk kind tag pts angle third => cases kind <;> rfl

/-- data that do not depend on direction are untouched -/
theorem Datum.reverse_of_not_dirDep (d : Datum) (h : d.kind.dirDep = false) : d.reverse = d := by
  cases d with
  | mk kind tag pts angle third => cases kind <;> first | rfl | cases h

theorem flipC_flipC {α : Type} (x : α × α × Datum) : flipC (flipC x) = x := by
  obtain ⟨a, b, d⟩ := x
  simp [flipC, Datum.reverse_reverse]

theorem shiftIdx_cases (k : Int) :
    shiftIdx k = [0, 1, 2, 3] ∨ shiftIdx k = [3, 0, 1, 2] ∨ shiftIdx k = [2, 3, 0, 1] ∨
      shiftIdx k = [1, 2, 3, 0] := by
  unfold shiftIdx
  simp only [List.map]
  have h : k % 4 = 0 ∨ k % 4 = 1 ∨ k % 4 = 2 ∨ k % 4 = 3 := by omega
  rcases h with h | h | h | h
  · left; simp only [List.cons.injEq, and_true]; refine ⟨?_, ?_, ?_, ?_⟩ <;> omega
  · right; left; simp only [List.cons.injEq, and_true]; refine ⟨?_, ?_, ?_, ?_⟩ <;> omega
  · right; right; left; simp only [List.cons.injEq, and_true]; refine ⟨?_, ?_, ?_, ?_⟩ <;> omega
  · right; right; right; simp only [List.cons.injEq, and_true]; refine ⟨?_, ?_, ?_, ?_⟩ <;> omega

set_option linter.unusedSectionVars false

variable {α : Type} [Inhabited α]

/-- a face with exactly four points and four edge data -/
def Face4 (f : Face α Datum) : Prop := f.pts.length = 4 ∧ f.edges.length = 4

theorem face4_cases {f : Face α Datum} (h : Face4 f) :
    ∃ a b c d e0 e1 e2 e3, f = ⟨[a, b, c, d], [e0, e1, e2, e3]⟩ := by
  obtain ⟨pts, edges⟩ := f
  obtain ⟨hp, he⟩ := h
  simp only at hp he
  match pts, hp, edges, he with
  | [a, b, c, d], _, [e0, e1, e2, e3], _ => exact ⟨a, b, c, d, e0, e1, e2, e3, rfl⟩

theorem dconn_lit (a b c d : α) (e0 e1 e2 e3 : Datum) :
    dconn (⟨[a, b, c, d], [e0, e1, e2, e3]⟩ : Face α Datum) = [(a, b, e0), (b, c, e1), (c, d, e2), (d, a, e3)] := rfl

theorem faceInvert_lit (a b c d : α) (e0 e1 e2 e3 : Datum) :
    faceInvert (⟨[a, b, c, d], [e0, e1, e2, e3]⟩ : Face α Datum)
      = ⟨[d, c, b, a], [e2.reverse, e1.reverse, e0.reverse, e3.reverse]⟩ := rfl

theorem shift_lit (a b c d : α) (e0 e1 e2 e3 : Datum) (k : Int) :
    let f : Face α Datum := ⟨[a, b, c, d], [e0, e1, e2, e3]⟩
    f.shift k = f ∨ f.shift k = ⟨[d, a, b, c], [e3, e0, e1, e2]⟩ ∨
      f.shift k = ⟨[c, d, a, b], [e2, e3, e0, e1]⟩ ∨ f.shift k = ⟨[b, c, d, a], [e1, e2, e3, e0]⟩ := by
  intro f
  rcases shiftIdx_cases k with h | h | h | h
  · left; simp [f, Face.shift, h, pick]
  · right; left; simp [f, Face.shift, h, pick]
  · right; right; left; simp [f, Face.shift, h, pick]
  · right; right; right; simp [f, Face.shift, h, pick]

/-- `g` carries exactly the curves of `f`: every datum of one is found in the other between the
    same two points, either as it is or described from the other end -/
def SameCurves (f g : Face α Datum) : Prop :=
  (∀ x ∈ dconn g, x ∈ dconn f ∨ flipC x ∈ dconn f) ∧ (∀ x ∈ dconn f, x ∈ dconn g ∨ flipC x ∈ dconn g)

theorem SameCurves.refl (f : Face α Datum) : SameCurves f f :=
  ⟨fun _ h => Or.inl h, fun _ h => Or.inl h⟩

theorem SameCurves.trans {f g h : Face α Datum} (h1 : SameCurves f g) (h2 : SameCurves g h) : SameCurves f h := by
  constructor
  · intro x hx
    rcases h2.1 x hx with hx | hx
    · exact h1.1 x hx
    · rcases h1.1 _ hx with hx | hx
      · right; exact hx
      · left; rw [flipC_flipC] at hx; exact hx
  · intro x hx
    rcases h1.2 x hx with hx | hx
    · exact h2.2 x hx
    · rcases h2.2 _ hx with hx | hx
      · right; exact hx
      · left; rw [flipC_flipC] at hx; exact hx

theorem face4_invert {f : Face α Datum} (h : Face4 f) : Face4 (faceInvert f) := by
  obtain ⟨a, b, c, d, e0, e1, e2, e3, rfl⟩ := face4_cases h
  rw [faceInvert_lit]; exact ⟨rfl, rfl⟩

theorem face4_shift {f : Face α Datum} (h : Face4 f) (k : Int) : Face4 (f.shift k) := by
  obtain ⟨a, b, c, d, e0, e1, e2, e3, rfl⟩ := face4_cases h
  rcases shift_lit a b c d e0 e1 e2 e3 k with h | h | h | h <;> rw [h] <;> exact ⟨rfl, rfl⟩

theorem sameCurves_invert {f : Face α Datum} (h : Face4 f) : SameCurves f (faceInvert f) := by
  obtain ⟨a, b, c, d, e0, e1, e2, e3, rfl⟩ := face4_cases h
  rw [faceInvert_lit]
  simp only [SameCurves, dconn_lit, List.mem_cons, List.not_mem_nil, or_false]
  constructor
  · intro x hx
    right
    rcases hx with h | h | h | h <;> subst h <;> simp [flipC, Datum.reverse_reverse]
  · intro x hx
    right
    rcases hx with h | h | h | h <;> subst h <;> simp [flipC]

theorem sameCurves_shift {f : Face α Datum} (h : Face4 f) (k : Int) : SameCurves f (f.shift k) := by
  obtain ⟨a, b, c, d, e0, e1, e2, e3, rfl⟩ := face4_cases h
  rcases shift_lit a b c d e0 e1 e2 e3 k with h | h | h | h <;> rw [h] <;>
    simp only [SameCurves, dconn_lit, List.mem_cons, List.not_mem_nil, or_false] <;>
    constructor <;> intro x hx <;> left <;> rcases hx with h | h | h | h <;> subst h <;> simp

theorem face4_apply (pos : Nat → V3) {f : Face Nat Datum} (h : Face4 f) (op : FaceOp) :
    Face4 (applyFaceOp pos f op) := by
  cases op with
  | invert => exact face4_invert h
  | shift k => exact face4_shift h k
  | reorient p => exact face4_shift h _

theorem sameCurves_apply (pos : Nat → V3) {f : Face Nat Datum} (h : Face4 f) (op : FaceOp) :
    SameCurves f (applyFaceOp pos f op) := by
  cases op with
  | invert => exact sameCurves_invert h
  | shift k => exact sameCurves_shift h k
  | reorient p => exact sameCurves_shift h _

theorem sameCurves_applyOps (pos : Nat → V3) {f : Face Nat Datum} (h : Face4 f) (ops : List FaceOp) :
    Face4 (applyFaceOps pos f ops) ∧ SameCurves f (applyFaceOps pos f ops) := by
  induction ops generalizing f with
  | nil => exact ⟨h, SameCurves.refl f⟩
  | cons op ops ih =>
    have h1 := face4_apply pos h op
    obtain ⟨h2, h3⟩ := ih h1
    exact ⟨h2, (sameCurves_apply pos h op).trans h3⟩

end CBV.C07
