/-
C13, round 6 — helper lemmas: the regenerated source expressions parse to the model's expressions;
the driver / reporter model; the step records along a run (chain, count).
-/
import CBV.Lemmas.C13
import Mathlib.Algebra.Order.Ring.Cast
import Mathlib.Data.Rat.Cast.Order
import Mathlib.Tactic.NormNum
import Mathlib.Tactic.Positivity

namespace CBV.C13

variable {P Prm Q S : Type}

/-! ### the regenerated tables parse to the model's expressions (closed computations) -/

theorem parse_reporterImprovement : parseCascade CBV.Gen.c13SrcReporterImprovement = some exprReporterImprovement := by
  decide +kernel

theorem parse_rollbackTest : parseRPN CBV.Gen.c13SrcRollbackTest = some exprRollbackTest := by decide +kernel

theorem parse_iterImprovement : parseCascade CBV.Gen.c13SrcIterImprovement = some exprIterImprovement := by
  decide +kernel

theorem parse_initialImprovement : parseCascade CBV.Gen.c13SrcInitialImprovement = some exprInitialImprovement := by
  decide +kernel

theorem parse_lastImprovement : parseCascade CBV.Gen.c13SrcLastImprovement = some exprLastImprovement := by
  decide +kernel

theorem parse_converged : parseCascade CBV.Gen.c13SrcConverged = some exprConverged := by decide +kernel

theorem parse_updateGuard : parseRPN CBV.Gen.c13SrcUpdateGuard = some exprUpdateGuard := by decide +kernel

theorem parse_probeEpsilon : parseRPN CBV.Gen.c13SrcProbeEpsilon = some exprProbeEpsilon := by decide +kernel

/-! ### … and the model's functions are what these expressions mean (for all values) -/

def envReporter (r : Reporter Rat) : Nat → Rat := fun i =>
  if i = 0 then r.gridInitial else if i = 1 then r.gridFinal else if i = 2 then r.improvement else 0

def envIter (d : IterData) : Nat → Rat := fun i => if i = 3 then d.initial else if i = 4 then d.final else 0

/-- the atoms of `IterationDriver`'s properties read off the model driver (absent list elements read as 0:
    the guards in front make sure they are never used) -/
def envDriver (d : Driver) : Nat → Rat := fun i =>
  if i = 5 then (d.its.length : Rat) else if i = 6 then (d.maxIter : Rat) else if i = 7 then d.tol
  else if i = 8 then d.lastImprovement else if i = 9 then (d.its.head?.map (·.initial)).getD 0
  else if i = 10 then d.initialImprovement else if i = 11 then (d.its.head?.map (·.improvement)).getD 0
  else if i = 12 then (d.its.getLast?.map (·.improvement)).getD 0 else 0

theorem eval_reporterImprovement (r : Reporter Rat) :
    evalCascade (envReporter r) exprReporterImprovement = .num r.improvement := by
  simp [evalCascade, Expr.eval, exprReporterImprovement, envReporter, Val.arith, Reporter.improvement]

theorem eval_rollbackTest (r : Reporter Rat) :
    exprRollbackTest.eval (envReporter r) = .bool (decide (r.gridInitial ≤ r.gridFinal)) := by
  simp [Expr.eval, exprRollbackTest, envReporter, Val.arith, Reporter.improvement]

theorem eval_iterImprovement (d : IterData) : evalCascade (envIter d) exprIterImprovement = .num d.improvement := by
  unfold IterData.improvement
  by_cases h : ratAbs (d.initial - d.final) < vsmall <;>
    simp [evalCascade, Expr.eval, exprIterImprovement, envIter, Val.arith, h]

theorem eval_initialImprovement (d : Driver) :
    evalCascade (envDriver d) exprInitialImprovement = .num d.initialImprovement := by
  unfold Driver.initialImprovement
  cases h : d.its with
  | nil => simp [evalCascade, Expr.eval, exprInitialImprovement, envDriver, Val.arith, h]
  | cons a l =>
      have : ¬ ((l.length : Rat) + 1 < 1) := by
        have := Nat.cast_nonneg (α := Rat) l.length
        linarith
      simp [evalCascade, Expr.eval, exprInitialImprovement, envDriver, Val.arith, h, this]

theorem eval_lastImprovement (d : Driver) :
    evalCascade (envDriver d) exprLastImprovement = .num d.lastImprovement := by
  by_cases hl : d.its.length < 2
  · have : ((d.its.length : Nat) : Rat) < 2 := by exact_mod_cast hl
    simp [evalCascade, Expr.eval, exprLastImprovement, envDriver, Val.arith, Driver.lastImprovement, hl, this]
  · have : ¬ ((d.its.length : Nat) : Rat) < 2 := by
      intro h; apply hl; exact_mod_cast h
    have hne : d.its ≠ [] := by intro h; rw [h] at hl; simp at hl
    obtain ⟨l, hlast⟩ : ∃ l, d.its.getLast? = some l := by
      cases h : d.its.getLast? with
      | none => exact absurd (List.getLast?_eq_none_iff.mp h) hne
      | some l => exact ⟨l, rfl⟩
    simp [evalCascade, Expr.eval, exprLastImprovement, envDriver, Val.arith, Driver.lastImprovement, hl, this, hlast]

/-- the value of the cascade that is `IterationDriver.converged` -/
def Conv.val : Conv → Val
  | .yes => .bool true
  | .no => .bool false
  | .zeroDiv => .err

theorem eval_converged (d : Driver) : evalCascade (envDriver d) exprConverged = d.converged.val := by
  unfold Driver.converged
  by_cases h1 : d.maxIter ≤ (d.its.length : Int)
  · have : (d.maxIter : Rat) ≤ ((d.its.length : Nat) : Rat) := by exact_mod_cast h1
    simp [evalCascade, Expr.eval, exprConverged, envDriver, Val.arith, h1, this, Conv.val]
  · have h1' : ¬ (d.maxIter : Rat) ≤ ((d.its.length : Nat) : Rat) := by
      intro h; apply h1; exact_mod_cast h
    by_cases h2 : d.its.length < 2
    · have : ((d.its.length : Nat) : Rat) < 2 := by exact_mod_cast h2
      simp [evalCascade, Expr.eval, exprConverged, envDriver, Val.arith, h1, h1', h2, this, Conv.val]
    · have h2' : ¬ ((d.its.length : Nat) : Rat) < 2 := by
        intro h; apply h2; exact_mod_cast h
      cases hh : d.its.head? with
      | none =>
          rw [List.head?_eq_none_iff] at hh
          rw [hh] at h2; simp at h2
      | some i0 =>
          by_cases h0 : i0.initial = 0
          · simp [evalCascade, Expr.eval, exprConverged, envDriver, Val.arith, h1, h1', h2, h2', hh, h0, Conv.val]
          · by_cases h3 : d.lastImprovement / i0.initial < d.tol <;>
              simp [evalCascade, Expr.eval, exprConverged, envDriver, Val.arith, h1, h1', h2, h2', hh, h0, h3, Conv.val]

theorem eval_updateGuard (n : Nat) :
    exprUpdateGuard.eval (fun i => if i = 13 then (n : Rat) else 0) = .bool (decide (0 < n)) := by
  simp [Expr.eval, exprUpdateGuard, Val.arith]

end CBV.C13
