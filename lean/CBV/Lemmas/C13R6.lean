/-
C13, round 6 — helper lemmas: the regenerated source expressions parse to the model's expressions;
the driver / reporter model; the step records along a run (chain, count).
-/
import CBV.Lemmas.C13
import Mathlib.Algebra.Order.Ring.Cast
import Mathlib.Data.Rat.Cast.Order
import Mathlib.Tactic.NormNum
import Mathlib.Tactic.Positivity
import CBV.Gen.TC13

namespace CBV.C13

variable {P Prm Q S : Type}

/-! ### the regenerated tables parse to the model's expressions (closed computations) -/

theorem parse_reporterImprovement : parseCascade CBV.Gen.c13SrcReporterImprovement = some exprReporterImprovement := by
  decide +kernel

theorem parse_rollbackTest : parseRPN CBV.Gen.c13SrcRollbackTest = some exprRollbackTest := by decide +kernel

theorem parse_iterImprovement : parseCascade CBV.Gen.c13SrcIterImprovement = some exprIterImprovement := by
  decide +kernel

theorem parse_initialImprovement : parseCascade CBV.Gen.c13SrcInitialImprovement = some exprInitialImprovement := by
  decide +kernel

theorem parse_lastImprovement : parseCascade CBV.Gen.c13SrcLastImprovement = some exprLastImprovement := by
  decide +kernel

theorem parse_converged : parseCascade CBV.Gen.c13SrcConverged = some exprConverged := by decide +kernel

theorem parse_updateGuard : parseRPN CBV.Gen.c13SrcUpdateGuard = some exprUpdateGuard := by decide +kernel

theorem parse_probeEpsilon : parseRPN CBV.Gen.c13SrcProbeEpsilon = some exprProbeEpsilon := by decide +kernel

/-! ### … and the model's functions are what these expressions mean (for all values) -/

def envReporter (r : Reporter Rat) : Nat → Rat := fun i =>
  if i = 0 then r.gridInitial else if i = 1 then r.gridFinal else if i = 2 then r.improvement else 0

def envIter (d : IterData) : Nat → Rat := fun i => if i = 3 then d.initial else if i = 4 then d.final else 0

/-- the atoms of `IterationDriver`'s properties read off the model driver (absent list elements read as 0:
    the guards in front make sure they are never used) -/
def envDriver (d : Driver) : Nat → Rat := fun i =>
  if i = 5 then (d.its.length : Rat) else if i = 6 then (d.maxIter : Rat) else if i = 7 then d.tol
  else if i = 8 then d.lastImprovement else if i = 9 then (d.its.head?.map (·.initial)).getD 0
  else if i = 10 then d.initialImprovement else if i = 11 then (d.its.head?.map (·.improvement)).getD 0
  else if i = 12 then (d.its.getLast?.map (·.improvement)).getD 0 else 0

theorem eval_reporterImprovement (r : Reporter Rat) :
    evalCascade (envReporter r) exprReporterImprovement = .num r.improvement := by
  simp [evalCascade, Expr.eval, exprReporterImprovement, envReporter, Val.arith, Reporter.improvement]

theorem eval_rollbackTest (r : Reporter Rat) :
    exprRollbackTest.eval (envReporter r) = .bool (decide (r.gridInitial ≤ r.gridFinal)) := by
  simp [Expr.eval, exprRollbackTest, envReporter, Val.arith, Reporter.improvement]

theorem eval_iterImprovement (d : IterData) : evalCascade (envIter d) exprIterImprovement = .num d.improvement := by
  unfold IterData.improvement
  by_cases h : ratAbs (d.initial - d.final) < vsmall <;>
    simp [evalCascade, Expr.eval, exprIterImprovement, envIter, Val.arith, h]

theorem eval_initialImprovement (d : Driver) :
    evalCascade (envDriver d) exprInitialImprovement = .num d.initialImprovement := by
  unfold Driver.initialImprovement
  cases h : d.its with
  | nil => simp [evalCascade, Expr.eval, exprInitialImprovement, envDriver, Val.arith, h]
  | cons a l =>
      have : ¬ ((l.length : Rat) + 1 < 1) := by
        have := Nat.cast_nonneg (α := Rat) l.length
        linarith
      simp [evalCascade, Expr.eval, exprInitialImprovement, envDriver, Val.arith, h, this]

theorem eval_lastImprovement (d : Driver) :
    evalCascade (envDriver d) exprLastImprovement = .num d.lastImprovement := by
  by_cases hl : d.its.length < 2
  · have : ((d.its.length : Nat) : Rat) < 2 := by exact_mod_cast hl
    simp [evalCascade, Expr.eval, exprLastImprovement, envDriver, Val.arith, Driver.lastImprovement, hl, this]
  · have : ¬ ((d.its.length : Nat) : Rat) < 2 := by
      intro h; apply hl; exact_mod_cast h
    have hne : d.its ≠ [] := by intro h; rw [h] at hl; simp at hl
    obtain ⟨l, hlast⟩ : ∃ l, d.its.getLast? = some l := by
      cases h : d.its.getLast? with
      | none => exact absurd (List.getLast?_eq_none_iff.mp h) hne
      | some l => exact ⟨l, rfl⟩
    simp [evalCascade, Expr.eval, exprLastImprovement, envDriver, Val.arith, Driver.lastImprovement, hl, this, hlast]

/-- the value of the cascade that is `IterationDriver.converged` -/
def Conv.val : Conv → Val
  | .yes => .bool true
  | .no => .bool false
  | .zeroDiv => .err

theorem eval_converged (d : Driver) : evalCascade (envDriver d) exprConverged = d.converged.val := by
  unfold Driver.converged
  by_cases h1 : d.maxIter ≤ (d.its.length : Int)
  · have : (d.maxIter : Rat) ≤ ((d.its.length : Nat) : Rat) := by exact_mod_cast h1
    simp [evalCascade, Expr.eval, exprConverged, envDriver, Val.arith, h1, this, Conv.val]
  · have h1' : ¬ (d.maxIter : Rat) ≤ ((d.its.length : Nat) : Rat) := by
      intro h; apply h1; exact_mod_cast h
    by_cases h2 : d.its.length < 2
    · have : ((d.its.length : Nat) : Rat) < 2 := by exact_mod_cast h2
      simp [evalCascade, Expr.eval, exprConverged, envDriver, Val.arith, h1, h1', h2, this, Conv.val]
    · have h2' : ¬ ((d.its.length : Nat) : Rat) < 2 := by
        intro h; apply h2; exact_mod_cast h
      cases hh : d.its.head? with
      | none =>
          rw [List.head?_eq_none_iff] at hh
          rw [hh] at h2; simp at h2
      | some i0 =>
          by_cases h0 : i0.initial = 0
          · simp [evalCascade, Expr.eval, exprConverged, envDriver, Val.arith, h1, h1', h2, h2', hh, h0, Conv.val]
          · by_cases h3 : d.lastImprovement / i0.initial < d.tol <;>
              simp [evalCascade, Expr.eval, exprConverged, envDriver, Val.arith, h1, h1', h2, h2', hh, h0, h3, Conv.val]

theorem eval_updateGuard (n : Nat) :
    exprUpdateGuard.eval (fun i => if i = 13 then (n : Rat) else 0) = .bool (decide (0 < n)) := by
  simp [Expr.eval, exprUpdateGuard, Val.arith]

/-! ### what the step records say along a run -/

section report
variable {cfg : Cfg P Prm} {o : Oracles P Q} {n : Nat}

/-- shape of the record of one `optimize_clamp`, from any state -/
theorem optimizeClamp_shape [LE Q] [DecidableLE Q] (st : St P Prm) (j : Nat) (evals : List Prm) (sr : Bool) :
    ((optimizeClamp cfg o st j evals sr).raised = none → (optimizeClamp cfg o st j evals sr).step.isSome) ∧
      ∀ s, (optimizeClamp cfg o st j evals sr).step = some s →
        s.clamp = j ∧ o.gq st.pts = some s.gridInitial ∧ (s.flag ≠ .improved → s.gridFinal = s.gridInitial) := by
  unfold optimizeClamp
  split
  · split
    · dsimp only
      split
      · split
        · split
          · split
            · simp [*]
            · simp [restoreSkip, *]
          · simp [*]
        · simp [restoreSkip, *]
      · simp [restoreSkip, *]
    · simp
  · simp

/-- the record of one `optimize_clamp` from a rest state is truthful: `grid_initial` is the grid quality
    before, `grid_final` the grid quality after, never larger, and smaller exactly when the step is kept -/
theorem optimizeClamp_report [LinearOrder Q] (hwf : WF cfg n) (st : St P Prm) (hr : Rest cfg n st) (q0 : Q)
    (hq : o.gq st.pts = some q0) (j : Nat) (evals : List Prm) (sr : Bool)
    (hnr : (optimizeClamp cfg o st j evals sr).raised = none) :
    ∃ s, (optimizeClamp cfg o st j evals sr).step = some s ∧ s.clamp = j ∧ s.gridInitial = q0 ∧
      o.gq (optimizeClamp cfg o st j evals sr).st.pts = some s.gridFinal ∧ s.gridFinal ≤ q0 ∧
      (s.flag = .improved ↔ s.gridFinal < q0) := by
  obtain ⟨hsome, hshape⟩ := optimizeClamp_shape (cfg := cfg) (o := o) st j evals sr
  obtain ⟨s, hs⟩ := Option.isSome_iff_exists.mp (hsome hnr)
  obtain ⟨hcl, hgi, hkeep⟩ := hshape s hs
  have hgi' : s.gridInitial = q0 := by rw [hq] at hgi; exact (Option.some.inj hgi).symm
  rcases optimizeClamp_spec (o := o) hwf st hr.1 j (hr.2.2 j) evals sr with ⟨hst, hflag⟩ | ⟨gi, gf, hgi2, hgf, hlt, _, hstep⟩
  · have hf := hflag s hs
    have hfin : s.gridFinal = q0 := by rw [hkeep hf, hgi']
    refine ⟨s, hs, hcl, hgi', by rw [hst, hq, hfin], le_of_eq hfin, ?_⟩
    constructor
    · intro h; exact absurd h hf
    · intro h; rw [hfin] at h; exact absurd h (lt_irrefl _)
  · rw [hstep] at hs
    have := Option.some.inj hs
    subst this
    rw [hq] at hgi2
    have := Option.some.inj hgi2
    subst this
    exact ⟨_, hstep, rfl, rfl, hgf, le_of_lt hlt, ⟨fun _ => hlt, fun _ => rfl⟩⟩

/-- the records of consecutive `optimize_clamp` calls telescope: each starts at the quality the previous
    one ended with and never ends higher -/
def Chain [LE Q] : Q → List (Step Q) → Q → Prop
  | q0, [], q1 => q0 = q1
  | q0, s :: ss, q1 => s.gridInitial = q0 ∧ s.gridFinal ≤ q0 ∧ Chain s.gridFinal ss q1

theorem solveAll_chain [LinearOrder Q] (hwf : WF cfg n) (sch : IterSched Prm S) (order : List Nat) (k : Nat)
    (st : St P Prm) (hr : Rest cfg n st) (q0 : Q) (hq : o.gq st.pts = some q0)
    (hnr : (solveAll cfg o sch order k st).raised = none) :
    ∃ q1, o.gq (solveAll cfg o sch order k st).st.pts = some q1 ∧ Chain q0 (solveAll cfg o sch order k st).steps q1 ∧
      (solveAll cfg o sch order k st).steps.map (·.clamp) = order := by
  induction order generalizing k st q0 with
  | nil => exact ⟨q0, by simpa [solveAll] using hq, by simp [solveAll, Chain], by simp [solveAll]⟩
  | cons j js ih =>
      cases hrr : (optimizeClamp cfg o st j (sch.solve k j).1 (sch.solve k j).2).raised with
      | some e => simp [solveAll, hrr] at hnr
      | none =>
          obtain ⟨s, hs, hcl, hgi, hgf, hle, _⟩ := optimizeClamp_report hwf st hr q0 hq j _ _ hrr
          have hrest : Rest cfg n (optimizeClamp cfg o st j (sch.solve k j).1 (sch.solve k j).2).st :=
            ((restLe_preserved hwf o q0).solve st j _ _ ⟨hr, q0, hq, le_refl _⟩).1
          simp only [solveAll, hrr] at hnr ⊢
          obtain ⟨q1, h1, h2, h3⟩ := ih (k + 1) _ hrest s.gridFinal hgf hnr
          refine ⟨q1, h1, ?_, ?_⟩
          · rw [hs]; simp only [Option.toList, List.cons_append, List.nil_append, Chain]; exact ⟨hgi, hle, h2⟩
          · rw [hs]; simp [hcl, h3]

/-- all probes of a round give the state back -/
theorem probeAll_eq (hwf : WF cfg n) (sch : IterSched Prm S) (todo : List (Nat × Nat))
    (htodo : ∀ x ∈ todo, cfg.clampIdx[x.2]? = some x.1) (st : St P Prm) (hr : Rest cfg n st) :
    (probeAll cfg o sch todo st).1 = st := by
  induction todo with
  | nil => simp [probeAll]
  | cons x rest ih =>
      obtain ⟨idx, j⟩ := x
      unfold probeAll
      have h1 := probeClamp_eq (o := o) hwf hr (htodo (idx, j) (List.mem_cons_self ..)) (sch.probe j).1
      split
      · next st' e heq => rw [heq] at h1; exact h1
      · next st' heq =>
          rw [heq] at h1
          subst h1
          exact ih (fun x hx => htodo x (List.mem_cons_of_mem _ hx))

theorem probeAll_keys_length (sch : IterSched Prm S) (todo : List (Nat × Nat)) (st : St P Prm)
    (h : (probeAll cfg o sch todo st).2.2 = none) : (probeAll cfg o sch todo st).2.1.length = todo.length := by
  induction todo generalizing st with
  | nil => simp [probeAll]
  | cons x rest ih =>
      obtain ⟨idx, j⟩ := x
      unfold probeAll at h ⊢
      split
      · next st' e heq => rw [heq] at h; simp at h
      · next st' heq => rw [heq] at h; simp only [List.length_cons] at h ⊢; rw [ih st' h]

theorem sortDesc_length [LinearOrder S] (keys : List (Nat × S)) : (sortDesc keys).length = keys.length := by
  unfold sortDesc
  suffices h : ∀ acc : List (Nat × S), (keys.foldl (fun acc x => insertDesc x acc) acc).length = keys.length + acc.length by
    simpa using h []
  induction keys with
  | nil => intro acc; simp
  | cons x xs ih =>
      intro acc
      simp only [List.foldl_cons, List.length_cons]
      rw [ih, (insertDesc_perm x acc).length_eq]
      simp only [List.length_cons]; omega

/-- one iteration from a rest state: the records telescope from the quality before to the quality after,
    and there is exactly one record per clamp -/
theorem optimizeIteration_chain [LinearOrder Q] [LinearOrder S] (hwf : WF cfg n) (sch : IterSched Prm S)
    (st : St P Prm) (hr : Rest cfg n st) (q0 : Q) (hq : o.gq st.pts = some q0)
    (hnr : (optimizeIteration cfg o sch st).raised = none) :
    ∃ q1, o.gq (optimizeIteration cfg o sch st).st.pts = some q1 ∧ Chain q0 (optimizeIteration cfg o sch st).steps q1 ∧
      (optimizeIteration cfg o sch st).steps.length = cfg.clampIdx.length := by
  have h1 := probeAll_eq (o := o) hwf sch _ (zipIdx_clampIdx cfg) st hr
  have h2 := probeAll_keys_length (cfg := cfg) (o := o) sch cfg.clampIdx.zipIdx st
  unfold optimizeIteration at hnr ⊢
  split at hnr
  · simp at hnr
  · next st' keys heq =>
      rw [heq] at h1 h2
      simp only at h1 h2
      subst h1
      obtain ⟨q1, a, b, c⟩ := solveAll_chain hwf sch ((sortDesc keys).map (·.1)) 0 _ hr q0 hq hnr
      refine ⟨q1, a, b, ?_⟩
      have := congrArg List.length c
      simp only [List.length_map] at this
      rw [this, sortDesc_length, h2 (by trivial), List.length_zipIdx]

/-- the iteration qualities telescope as well -/
def HistChain [LE Q] : Q → List (Q × Q) → Q → Prop
  | q0, [], q1 => q0 = q1
  | q0, h :: hs, q1 => h.1 = q0 ∧ h.2 ≤ q0 ∧ HistChain h.2 hs q1

theorem optimizeLoop_report [LinearOrder Q] [LinearOrder S] (hwf : WF cfg n) (conv : List (Q × Q) → Bool)
    (maxIter : Nat) (sched : Nat → IterSched Prm S) (fuel : Nat) (hist : List (Q × Q)) (steps : List (List (Step Q)))
    (st : St P Prm) (hr : Rest cfg n st) (q0 : Q) (hq : o.gq st.pts = some q0)
    (hnr : (optimizeLoop cfg o conv maxIter sched fuel hist steps st).raised = none) :
    ∃ h' s' q1, (optimizeLoop cfg o conv maxIter sched fuel hist steps st).hist = hist ++ h' ∧
      (optimizeLoop cfg o conv maxIter sched fuel hist steps st).steps = steps ++ s' ∧
      o.gq (optimizeLoop cfg o conv maxIter sched fuel hist steps st).st.pts = some q1 ∧ HistChain q0 h' q1 ∧
      List.Forall₂ (fun h ss => Chain h.1 ss h.2 ∧ ss.length = cfg.clampIdx.length) h' s' := by
  induction fuel generalizing hist steps st q0 with
  | zero =>
      unfold optimizeLoop
      split <;> exact ⟨[], [], q0, by simp, by simp, hq, rfl, .nil⟩
  | succ fuel ih =>
      generalize hres : optimizeLoop cfg o conv maxIter sched (fuel + 1) hist steps st = res at hnr ⊢
      unfold optimizeLoop at hres
      split at hres
      · subst hres; exact ⟨[], [], q0, by simp, by simp, hq, rfl, .nil⟩
      · dsimp only at hres
        split at hres
        · subst hres; simp at hnr
        · next q0' hq0' =>
            have e0 : q0' = q0 := by rw [hq] at hq0'; exact (Option.some.inj hq0').symm
            subst e0
            split at hres
            · subst hres; simp at hnr
            · next hrn =>
                have hrest : Rest cfg n (optimizeIteration cfg o (sched hist.length) st).st :=
                  (optimizeIteration_rest (restLe_preserved hwf o q0') (sched hist.length) st ⟨hr, q0', hq, le_refl _⟩).1
                obtain ⟨q1, g1, c1, l1⟩ := optimizeIteration_chain hwf (sched hist.length) st hr q0' hq hrn
                split at hres
                · subst hres; simp at hnr
                · next q1' hq1' =>
                    have e1 : q1' = q1 := by rw [g1] at hq1'; exact (Option.some.inj hq1').symm
                    subst e1
                    have := ih (hist ++ [(q0', q1')]) (steps ++ [(optimizeIteration cfg o (sched hist.length) st).steps])
                      _ hrest q1' g1 (by rw [hres]; exact hnr)
                    rw [hres] at this
                    obtain ⟨h', s', q2, e1, e2, e3, e4, e5⟩ := this
                    have hle : q1' ≤ q0' := by
                      obtain ⟨q, hq', hle⟩ := (optimizeIteration_rest (restLe_preserved hwf o q0') (sched hist.length) st
                        ⟨hr, q0', hq, le_refl _⟩).2
                      rw [g1] at hq'; cases hq'; exact hle
                    exact ⟨(q0', q1') :: h', (optimizeIteration cfg o (sched hist.length) st).steps :: s', q2,
                      by simp [e1], by simp [e2], e3, ⟨rfl, hle, e4⟩, .cons ⟨c1, l1⟩ e5⟩

end report

/-! ### the totals of the report -/

theorem chain_sum {q0 q1 : Rat} {ss : List (Step Rat)} (h : Chain q0 ss q1) :
    q0 - q1 = (ss.map (fun s => s.gridInitial - s.gridFinal)).sum ∧ q1 ≤ q0 ∧
      ∀ s ∈ ss, 0 ≤ s.gridInitial - s.gridFinal := by
  induction ss generalizing q0 with
  | nil => simp only [Chain] at h; subst h; simp
  | cons s ss ih =>
      obtain ⟨h1, h2, h3⟩ := h
      obtain ⟨i1, i2, i3⟩ := ih h3
      subst h1
      refine ⟨by simp only [List.map_cons, List.sum_cons]; linarith, le_trans i2 h2, ?_⟩
      intro x hx
      rcases List.mem_cons.mp hx with rfl | hx
      · linarith
      · exact i3 x hx

theorem histChain_sum {q0 q1 : Rat} {hs : List (Rat × Rat)} (h : HistChain q0 hs q1) :
    q0 - q1 = (hs.map (fun h => h.1 - h.2)).sum ∧ q1 ≤ q0 ∧
      (∀ a, hs.head? = some a → a.1 = q0) ∧ (∀ b, hs.getLast? = some b → b.2 = q1) := by
  induction hs generalizing q0 with
  | nil => simp only [HistChain] at h; subst h; simp
  | cons x xs ih =>
      obtain ⟨h1, h2, h3⟩ := h
      obtain ⟨i1, i2, i3, i4⟩ := ih h3
      subst h1
      refine ⟨by simp only [List.map_cons, List.sum_cons]; linarith, le_trans i2 h2, by simp, ?_⟩
      intro b hb
      cases xs with
      | nil => simp at hb; subst hb; simp only [HistChain] at h3; exact h3
      | cons y ys => rw [List.getLast?_cons_cons] at hb; exact i4 b hb

/-! ### the iteration driver -/

theorem iterImprovement_eq (i : Nat) (h : Rat × Rat) :
    iterImprovement h = IterData.improvement { index := i, initial := h.1, final := h.2 } := by
  simp [iterImprovement, IterData.improvement, ratAbs, neg_sub]

theorem driver_begin_end (d : Driver) (a b : Rat) :
    (d.beginIter a).endIter b = some { d with its := d.its ++ [{ index := d.its.length, initial := a, final := b }] } := by
  simp [Driver.beginIter, Driver.endIter]

theorem driver_fold (hist : List (Rat × Rat)) : ∀ d : Driver,
    hist.foldl (fun d h => ((d.beginIter h.1).endIter h.2).getD d) d =
      { d with its := d.its ++ hist.mapIdx (fun i h => { index := d.its.length + i, initial := h.1, final := h.2 }) } := by
  have hf : (fun (d : Driver) (h : Rat × Rat) => ((d.beginIter h.1).endIter h.2).getD d) =
      fun d h => { d with its := d.its ++ [{ index := d.its.length, initial := h.1, final := h.2 }] } := by
    funext d h; rw [driver_begin_end]; rfl
  rw [hf]
  induction hist with
  | nil => intro d; simp
  | cons h t ih =>
      intro d
      rw [List.foldl_cons, ih]
      simp only [List.length_append, List.length_cons, List.length_nil, List.mapIdx_cons, List.append_assoc,
        List.cons_append, List.nil_append, Nat.add_zero, Nat.zero_add]
      have : (fun (i : Nat) (h : Rat × Rat) => ({ index := d.its.length + 1 + i, initial := h.1, final := h.2 } : IterData)) =
          fun i h => { index := d.its.length + (i + 1), initial := h.1, final := h.2 } := by
        funext i h; congr 1; omega
      rw [this]

@[simp] theorem ofHist_maxIter (m : Int) (t : Rat) (hist : List (Rat × Rat)) : (Driver.ofHist m t hist).maxIter = m := rfl
@[simp] theorem ofHist_tol (m : Int) (t : Rat) (hist : List (Rat × Rat)) : (Driver.ofHist m t hist).tol = t := rfl

theorem ofHist_length (m : Int) (t : Rat) (hist : List (Rat × Rat)) : (Driver.ofHist m t hist).its.length = hist.length := by
  simp [Driver.ofHist]

theorem ofHist_head (m : Int) (t : Rat) (hist : List (Rat × Rat)) :
    (Driver.ofHist m t hist).its.head? = hist.head?.map (fun h => { index := 0, initial := h.1, final := h.2 }) := by
  cases hist <;> simp [Driver.ofHist]

theorem ofHist_last (m : Int) (t : Rat) (hist : List (Rat × Rat)) :
    (Driver.ofHist m t hist).its.getLast? =
      hist.getLast?.map (fun h => { index := hist.length - 1, initial := h.1, final := h.2 }) := by
  simp only [Driver.ofHist, List.getLast?_eq_getElem?, List.getElem?_mapIdx, List.length_mapIdx]

theorem convRat_driver (maxIter : Nat) (tol : Rat) (hist : List (Rat × Rat))
    (h0 : ∀ a, hist.head? = some a → a.1 ≠ 0) :
    converged (convRat tol) maxIter hist = decide ((Driver.ofHist maxIter tol hist).converged = .yes) := by
  unfold converged Driver.converged
  rw [ofHist_length]
  by_cases h1 : maxIter ≤ hist.length
  · have : (maxIter : Int) ≤ (hist.length : Int) := by exact_mod_cast h1
    simp [h1, this]
  · have h1' : ¬ (maxIter : Int) ≤ (hist.length : Int) := by intro h; apply h1; exact_mod_cast h
    have h1'' : hist.length < maxIter := by omega
    by_cases h2 : hist.length < 2
    · have : ¬ 2 ≤ hist.length := by omega
      simp only [h1, h2, decide_false, Bool.false_or, if_true, convRat]
      cases hist.head? <;> cases hist.getLast? <;> simp [this, h1'']
    · cases hh : hist.head? with
      | none => rw [List.head?_eq_none_iff] at hh; rw [hh] at h2; simp at h2
      | some a =>
          have hne : hist ≠ [] := by intro h; rw [h] at hh; simp at hh
          obtain ⟨l, hl⟩ : ∃ l, hist.getLast? = some l := by
            cases h : hist.getLast? with
            | none => exact absurd (List.getLast?_eq_none_iff.mp h) hne
            | some l => exact ⟨l, rfl⟩
          have ha := h0 a hh
          have h2' : 2 ≤ hist.length := by omega
          have hlast : (Driver.ofHist maxIter tol hist).lastImprovement = iterImprovement l := by
            unfold Driver.lastImprovement
            rw [ofHist_length, if_neg h2, ofHist_last, hl]
            simp [← iterImprovement_eq]
          simp only [h1, h2, decide_false, Bool.false_or, if_false, convRat, hh, hl, ofHist_head, Option.map_some, ha,
            hlast, h2', decide_true, Bool.true_and]
          by_cases h3 : iterImprovement l / a.1 < tol <;> simp [h3, h1'']

theorem iterData_improvement_pos (d : IterData) (h : d.final ≤ d.initial) : 0 < d.improvement := by
  unfold IterData.improvement
  split
  · norm_num [vsmall]
  · next hn =>
      have : ratAbs (d.initial - d.final) = d.initial - d.final := by
        unfold ratAbs; rw [if_neg]; linarith
      rw [this] at hn
      have : (0 : Rat) < vsmall := by norm_num [vsmall]
      linarith

/-! ### several `optimize()` calls -/

/-- one `optimize()` call: its tolerance criterion, iteration limit and what scipy does in it -/
structure Call (Prm Q S : Type) where
  conv : List (Q × Q) → Bool
  maxIter : Nat
  sched : Nat → IterSched Prm S

/-- the state after a history of `optimize()` calls on one optimizer (same clamps and links) -/
def runCalls [LE Q] [DecidableLE Q] [LT S] [DecidableLT S] (cfg : Cfg P Prm) (o : Oracles P Q) :
    List (Call Prm Q S) → St P Prm → St P Prm
  | [], st => st
  | c :: cs, st => runCalls cfg o cs (optimize cfg o c.conv c.maxIter c.sched st).st

/-! ### an optimizer that grows between calls (round 6c) -/

/-- one phase: the configuration at the time of the call (clamps and links added so far; `GridBase.clamps` walks the
    junctions, so a new clamp may renumber the others), how the list of held parameters is re-indexed for it, the call.
    `add_clamp` / `add_link` only register (model `addClamp` / `addLink` act on `Reg`): the points are untouched. -/
structure Phase (P Prm Q S : Type) where
  cfg : Cfg P Prm
  reprm : List Prm → List Prm
  call : Call Prm Q S

def Phase.enter (ph : Phase P Prm Q S) (st : St P Prm) : St P Prm := { pts := st.pts, prm := ph.reprm st.prm }

def runPhases [LE Q] [DecidableLE Q] [LT S] [DecidableLT S] (o : Oracles P Q) :
    List (Phase P Prm Q S) → St P Prm → St P Prm
  | [], st => st
  | ph :: rest, st => runPhases o rest (optimize ph.cfg o ph.call.conv ph.call.maxIter ph.call.sched (ph.enter st)).st

/-- every phase is entered in a rest state of a well-formed configuration (what exact clamp constructors give) -/
def PhasesOK [LE Q] [DecidableLE Q] [LT S] [DecidableLT S] (n : Nat) (o : Oracles P Q) :
    List (Phase P Prm Q S) → St P Prm → Prop
  | [], _ => True
  | ph :: rest, st => WF ph.cfg n ∧ Rest ph.cfg n (ph.enter st) ∧
      PhasesOK n o rest (optimize ph.cfg o ph.call.conv ph.call.maxIter ph.call.sched (ph.enter st)).st

/-! ### adding a clamp: the index shift (round 6d) -/

theorem getElem?_ins {α : Type} (l : List α) (k : Nat) (x : α) (hk : k ≤ l.length) (j : Nat) :
    (l.take k ++ x :: l.drop k)[j]? = if j < k then l[j]? else if j = k then some x else l[j - 1]? := by
  have hlen : (l.take k).length = k := by simp [List.length_take, Nat.min_eq_left hk]
  by_cases h1 : j < k
  · rw [if_pos h1, List.getElem?_append_left (by rw [hlen]; exact h1), List.getElem?_take]; simp [h1]
  · rw [if_neg h1, List.getElem?_append_right (by rw [hlen]; omega), hlen]
    by_cases h2 : j = k
    · subst h2; simp
    · rw [if_neg h2]
      obtain ⟨m, hm⟩ : ∃ m, j - k = m + 1 := ⟨j - k - 1, by omega⟩
      rw [hm, List.getElem?_cons_succ, List.getElem?_drop]; congr 1; omega

theorem mem_ins {α : Type} (l : List α) (k : Nat) (x y : α) : y ∈ l.take k ++ x :: l.drop k ↔ y = x ∨ y ∈ l := by
  rw [List.mem_append, List.mem_cons]
  conv_rhs => rw [← List.take_append_drop k l, List.mem_append]
  tauto

/-- the configuration after `add_clamp` put a clamp with position function `newPos` on junction `idx`, the new clamp
    being number `k` in `GridBase.clamps` (the junctions are walked in index order: the clamps on higher junctions
    are renumbered) -/
def Cfg.addClampAt (cfg : Cfg P Prm) (k idx : Nat) (newPos : Prm → P) : Cfg P Prm :=
  { clampIdx := cfg.clampIdx.take k ++ idx :: cfg.clampIdx.drop k,
    pos := fun j p => if j < k then cfg.pos j p else if j = k then newPos p else cfg.pos (j - 1) p,
    links := cfg.links, linkFn := cfg.linkFn }

/-- the held parameters, the new clamp's inserted at its number -/
def St.addPrmAt (st : St P Prm) (k : Nat) (p : Prm) : St P Prm :=
  { pts := st.pts, prm := st.prm.take k ++ p :: st.prm.drop k }

theorem linksOf_addClampAt (cfg : Cfg P Prm) (k idx : Nat) (newPos : Prm → P) (i : Nat) :
    linksOf (cfg.addClampAt k idx newPos) i = linksOf cfg i := rfl

/-- **Index shift.** A rest state stays a rest state when a clamp is added whose position function reproduces the
    vertex it is put on (and the followers of links that vertex already leads are where the links put them). -/
theorem rest_addClampAt {cfg : Cfg P Prm} {n : Nat} {st : St P Prm} (hr : Rest cfg n st) (k idx : Nat)
    (newPos : Prm → P) (p : Prm) (hk : k ≤ cfg.clampIdx.length) (hon : st.pts[idx]? = some (newPos p))
    (hfol : ∀ l ∈ linksOf cfg idx, st.pts[l.follower]? = some (cfg.linkFn l.lid (newPos p))) :
    Rest (cfg.addClampAt k idx newPos) n (st.addPrmAt k p) := by
  obtain ⟨h1, h2, h3⟩ := hr
  have hk' : k ≤ st.prm.length := by rw [h2]; exact hk
  refine ⟨h1, ?_, ?_⟩
  · simp only [St.addPrmAt, Cfg.addClampAt, List.length_append, List.length_cons, List.length_take, List.length_drop]
    omega
  · intro j i q hj hq
    simp only [Cfg.addClampAt] at hj
    simp only [St.addPrmAt] at hq
    rw [getElem?_ins _ _ _ hk] at hj
    rw [getElem?_ins _ _ _ hk'] at hq
    simp only [linksOf_addClampAt]
    show (st.pts[i]? = some ((cfg.addClampAt k idx newPos).pos j q)) ∧ _
    simp only [Cfg.addClampAt]
    by_cases c1 : j < k
    · simp only [c1, if_true] at hj hq ⊢
      exact h3 j i q hj hq
    · by_cases c2 : j = k
      · subst c2
        simp only [Nat.lt_irrefl, if_false, if_true] at hj hq ⊢
        cases hj; cases hq
        exact ⟨hon, hfol⟩
      · simp only [c1, c2, if_false] at hj hq ⊢
        exact h3 (j - 1) i q hj hq

/-- the configuration stays well-formed when the junction is new to the clamps, leads no link yet and follows no
    clamped leader -/
theorem wf_addClampAt {cfg : Cfg P Prm} {n : Nat} (hwf : WF cfg n) (k idx : Nat) (newPos : Prm → P) (hi : idx < n)
    (hnew : idx ∉ cfg.clampIdx) (hlead : ∀ l ∈ cfg.links, l.leader ≠ idx)
    (hfol : ∀ l ∈ cfg.links, l.leader ∈ cfg.clampIdx → l.follower ≠ idx) : WF (cfg.addClampAt k idx newPos) n := by
  have hmem : ∀ y, y ∈ (cfg.addClampAt k idx newPos).clampIdx ↔ y = idx ∨ y ∈ cfg.clampIdx := fun y => mem_ins _ _ _ _
  have hlm : ∀ l ∈ cfg.links, (l.leader ∈ (cfg.addClampAt k idx newPos).clampIdx ↔ l.leader ∈ cfg.clampIdx) := by
    intro l hl
    rw [hmem]
    constructor
    · rintro (h | h)
      · exact absurd h (hlead l hl)
      · exact h
    · exact Or.inr
  refine ⟨?_, ?_, ?_, ?_, ?_⟩
  · have hp : (cfg.clampIdx.take k ++ idx :: cfg.clampIdx.drop k).Perm (idx :: cfg.clampIdx) := by
      have := (List.perm_middle (l₁ := cfg.clampIdx.take k) (l₂ := cfg.clampIdx.drop k) (a := idx))
      rwa [List.take_append_drop] at this
    exact hp.nodup_iff.mpr (List.nodup_cons.mpr ⟨hnew, hwf.nodup⟩)
  · intro i hi'
    rcases (hmem i).mp hi' with rfl | h
    · exact hi
    · exact hwf.inRange i h
  · intro l hl hle
    exact hwf.folRange l hl ((hlm l hl).mp hle)
  · intro l hl hle hfl
    rcases (hmem _).mp hfl with h | h
    · exact hfol l hl ((hlm l hl).mp hle) h
    · exact hwf.folFree l hl ((hlm l hl).mp hle) h
  · have : (cfg.addClampAt k idx newPos).links.filter (fun l => decide (l.leader ∈ (cfg.addClampAt k idx newPos).clampIdx))
        = cfg.links.filter (fun l => decide (l.leader ∈ cfg.clampIdx)) := by
      apply List.filter_congr
      intro l hl
      exact decide_eq_decide.mpr (hlm l hl)
    rw [this]; exact hwf.folNodup

/-! ### an exception that propagates (round 6d) -/

/-- whatever every `moveClamp` preserves holds in the state the evaluations before the raising one left -/
theorem optimizeAbortPre_pres [LE Q] [DecidableLE Q] [LT S] [DecidableLT S] {cfg : Cfg P Prm} {o : Oracles P Q}
    {I : St P Prm → Prop} {A : Nat → Prm → Prop} (hp : Preserved cfg o I A) (conv : List (Q × Q) → Bool)
    (sched : Nat → IterSched Prm S) (hs : ∀ k, SchedOK A (sched k)) (st : St P Prm) (hI : I st) (it s m : Nat) :
    I (optimizeAbortPre cfg o conv sched st it s m).st := by
  have ha := optimize_pres hp conv it sched hs st hI
  unfold optimizeAbortPre
  dsimp only
  split
  · exact ha
  · have hb := probeAll_pres hp (sched it) (hs it) _ (zipIdx_clampIdx cfg) _ ha
    split
    · next stb _ e heq => rw [heq] at hb; exact hb
    · next stb keys heq =>
        rw [heq] at hb
        have hc := solveAll_pres hp (sched it) (hs it) (((sortDesc keys).map (·.1)).take s) 0 stb hb
        split
        · next j _ hj =>
            split
            · next idx e hidx he =>
                exact runEvals_pres hp hidx _ _ hc (fun x hx => (hs it).2 s j x (List.mem_of_mem_take hx))
            · exact hc
        · exact hc

/-! ### adding a link (round 6f) -/

/-- the configuration after `add_link` registered the link `l` (appended to `Junction.links` of its leader) whose
    `transform` is `fn`; `l.lid` is new -/
def Cfg.addLink (cfg : Cfg P Prm) (l : Link) (fn : P → P) : Cfg P Prm :=
  { clampIdx := cfg.clampIdx, pos := cfg.pos, links := cfg.links ++ [l],
    linkFn := fun lid => if lid = l.lid then fn else cfg.linkFn lid }

theorem mem_linksOf_addLink {cfg : Cfg P Prm} {l : Link} {fn : P → P} {idx : Nat} {x : Link} :
    x ∈ linksOf (cfg.addLink l fn) idx ↔ x ∈ linksOf cfg idx ∨ (x = l ∧ l.leader = idx) := by
  simp only [mem_linksOf, Cfg.addLink, List.mem_append, List.mem_singleton]
  constructor
  · rintro ⟨h | h, h2⟩
    · exact Or.inl ⟨h, h2⟩
    · exact Or.inr ⟨h, h ▸ h2⟩
  · rintro (⟨h, h2⟩ | ⟨h, h2⟩)
    · exact ⟨Or.inl h, h2⟩
    · exact ⟨Or.inr h, h ▸ h2⟩

/-- a rest state stays a rest state when a link with a new id is added whose follower already sits where the link
    puts it for the leader's current position (always so when the leader carries no clamp: the link is inert) -/
theorem rest_addLink {cfg : Cfg P Prm} {n : Nat} {st : St P Prm} (hr : Rest cfg n st) (l : Link) (fn : P → P)
    (hfresh : ∀ x ∈ cfg.links, x.lid ≠ l.lid)
    (hon : ∀ j p, cfg.clampIdx[j]? = some l.leader → st.prm[j]? = some p →
      st.pts[l.follower]? = some (fn (cfg.pos j p))) : Rest (cfg.addLink l fn) n st := by
  obtain ⟨h1, h2, h3⟩ := hr
  refine ⟨h1, h2, ?_⟩
  intro j idx p hj hp
  obtain ⟨c1, c2⟩ := h3 j idx p hj hp
  refine ⟨c1, ?_⟩
  intro x hx
  rcases mem_linksOf_addLink.mp hx with h | ⟨rfl, hl⟩
  · have hne : x.lid ≠ l.lid := hfresh x (mem_linksOf.mp h).1
    have : (cfg.addLink l fn).linkFn x.lid = cfg.linkFn x.lid := by simp [Cfg.addLink, hne]
    rw [this]; exact c2 x h
  · have : (cfg.addLink x fn).linkFn x.lid = fn := by simp [Cfg.addLink]
    rw [this]
    exact hon j p (by rw [hl]; exact hj) hp

/-- the configuration stays well-formed: either the leader carries no clamp (nothing to check), or the follower is a
    grid point without clamp that no clamped leader's link writes yet -/
theorem wf_addLink {cfg : Cfg P Prm} {n : Nat} (hwf : WF cfg n) (l : Link) (fn : P → P)
    (h : l.leader ∈ cfg.clampIdx → l.follower < n ∧ l.follower ∉ cfg.clampIdx ∧
      ∀ x ∈ cfg.links, x.leader ∈ cfg.clampIdx → x.follower ≠ l.follower) : WF (cfg.addLink l fn) n := by
  refine ⟨hwf.nodup, hwf.inRange, ?_, ?_, ?_⟩
  · intro x hx hle
    simp only [Cfg.addLink, List.mem_append, List.mem_singleton] at hx
    rcases hx with hx | rfl
    · exact hwf.folRange x hx hle
    · exact (h hle).1
  · intro x hx hle
    simp only [Cfg.addLink, List.mem_append, List.mem_singleton] at hx
    rcases hx with hx | rfl
    · exact hwf.folFree x hx hle
    · exact (h hle).2.1
  · show (((cfg.links ++ [l]).filter (fun x => decide (x.leader ∈ cfg.clampIdx))).map (·.follower)).Nodup
    rw [List.filter_append, List.map_append]
    by_cases hl : l.leader ∈ cfg.clampIdx
    · have : [l].filter (fun x => decide (x.leader ∈ cfg.clampIdx)) = [l] := by simp [hl]
      rw [this, List.map_singleton, List.nodup_append]
      refine ⟨hwf.folNodup, List.nodup_singleton _, ?_⟩
      intro a ha b hb
      simp only [List.mem_singleton] at hb
      subst hb
      simp only [List.mem_map, List.mem_filter, decide_eq_true_eq] at ha
      obtain ⟨x, ⟨hx, hxl⟩, rfl⟩ := ha
      exact (h hl).2.2 x hx hxl
    · have : [l].filter (fun x => decide (x.leader ∈ cfg.clampIdx)) = [] := by simp [hl]
      rw [this, List.map_nil, List.append_nil]; exact hwf.folNodup

end CBV.C13
