/-
C18 — helper lemmas about numbered hexahedra: area vectors and triple products under the 48
relabellings (table facts by `decide`, algebra by `ring`), the order `alignLt`.
-/
import CBV.Lemmas.C18

namespace CBV.C18

open CBV

/-! ### the order on alignments -/

theorem alignLt_asymm {x y : Rat × Rat} (h : alignLt x y) : ¬ alignLt y x := by
  unfold alignLt at *
  split_ifs at h ⊢ <;> first | exact fun h' => by linarith | exact fun h' => h' | exact h | trivial

/-! ### algebra of area vectors and triple products -/

theorem quadArea_shift (a b c d : V3) : quadArea b c d a = quadArea a b c d := by
  apply V3.ext' <;> simp [quadArea] <;> ring

theorem det3_rot (a b c : V3) : det3 b c a = det3 a b c := by
  simp [det3, V3.dot]; ring

theorem det3_swap (a b c : V3) : det3 b a c = -det3 a b c := by
  simp [det3, V3.dot]; ring

/-! ### sums over the eight corners -/

theorem V3.add_comm' (a b : V3) : a + b = b + a := by apply V3.ext' <;> simp <;> ring
theorem V3.add_assoc' (a b c : V3) : a + b + c = a + (b + c) := by apply V3.ext' <;> simp <;> ring
theorem V3.add_zero' (a : V3) : a + V3.zero = a := by apply V3.ext' <;> simp [V3.zero]

theorem sumV_perm {l1 l2 : List V3} (h : l1.Perm l2) : sumV l1 = sumV l2 := by
  induction h with
  | nil => rfl
  | cons x _ ih => simp only [sumV, List.foldr_cons] at *; rw [ih]
  | swap x y l =>
      simp only [sumV, List.foldr_cons]
      rw [← V3.add_assoc', ← V3.add_assoc', V3.add_comm' y x]
  | trans _ _ ih1 ih2 => rw [ih1, ih2]

theorem average_perm {l1 l2 : List V3} (h : l1.Perm l2) : average l1 = average l2 := by
  unfold average; rw [sumV_perm h, h.length_eq]

theorem center_eq_sumV (P : Hex) : P.center = V3.smul (1 / 8) (sumV ((List.range 8).map P)) := by
  unfold Hex.center
  congr 1
  simp only [sumV, List.range, List.range.loop, List.map, List.foldr]
  rw [V3.add_zero']
  simp only [V3.add_assoc']

/-! ### table facts about the 48 relabellings -/

/-- `l` maps the cycle of side `s` onto the cycle of side `s'` shifted by `k` -/
def cycShift (l : List Nat) (s s' k : Nat) : Bool :=
  perm l (cyc s 0) == cyc s' (k % 4) && perm l (cyc s 1) == cyc s' ((1 + k) % 4) &&
    perm l (cyc s 2) == cyc s' ((2 + k) % 4) && perm l (cyc s 3) == cyc s' ((3 + k) % 4)

/-- the side (and the shift of its cycle) a relabelling maps side `s` onto; `(6, 0)` when there is none -/
def sideImg (l : List Nat) (s : Nat) : Nat × Nat :=
  (((List.range 6).flatMap (fun s' => (List.range 4).map (fun k => (s', k)))).find?
    (fun x => cycShift l s x.1 x.2)).getD (6, 0)

theorem sideImg_ok : ∀ l ∈ proper24, ∀ s ∈ List.range 6,
    cycShift l s (sideImg l s).1 (sideImg l s).2 = true ∧ (sideImg l s).1 < 6 ∧ (sideImg l s).2 < 4 := by
  decide +kernel

theorem sideNormal_relabel (P : Hex) (l : List Nat) (s s' k : Nat) (hk : k < 4)
    (h : cycShift l s s' k = true) : sideNormal (relabel P (perm l)) s = sideNormal P s' := by
  simp only [cycShift, Bool.and_eq_true, beq_iff_eq] at h
  obtain ⟨⟨⟨h0, h1⟩, h2⟩, h3⟩ := h
  simp only [sideNormal, relabel, h0, h1, h2, h3]
  have : k = 0 ∨ k = 1 ∨ k = 2 ∨ k = 3 := by omega
  rcases this with rfl | rfl | rfl | rfl
  · rfl
  · exact quadArea_shift _ _ _ _
  · show quadArea (P (cyc s' 2)) (P (cyc s' 3)) (P (cyc s' 0)) (P (cyc s' 1)) = _
    rw [quadArea_shift, quadArea_shift]
  · show quadArea (P (cyc s' 3)) (P (cyc s' 0)) (P (cyc s' 1)) (P (cyc s' 2)) = _
    rw [quadArea_shift, quadArea_shift, quadArea_shift]

/-- the images of the three neighbours of corner `i` are the neighbours `a, b, c` of the image corner -/
def nbMatch (l : List Nat) (i a b c : Nat) : Bool :=
  perm l (nb i 0) == nb (perm l i) a && perm l (nb i 1) == nb (perm l i) b && perm l (nb i 2) == nb (perm l i) c

theorem nb_even : ∀ l ∈ proper24, ∀ i ∈ List.range 8,
    (nbMatch l i 0 1 2 || nbMatch l i 1 2 0 || nbMatch l i 2 0 1) = true := by decide +kernel

theorem nb_odd : ∀ l ∈ improper24, ∀ i ∈ List.range 8,
    (nbMatch l i 0 2 1 || nbMatch l i 1 0 2 || nbMatch l i 2 1 0) = true := by decide +kernel

theorem tp_relabel_of_match (P : Hex) (l : List Nat) (i a b c : Nat) (h : nbMatch l i a b c = true) :
    tp (relabel P (perm l)) i =
      det3 (P (nb (perm l i) a) - P (perm l i)) (P (nb (perm l i) b) - P (perm l i)) (P (nb (perm l i) c) - P (perm l i)) := by
  simp only [nbMatch, Bool.and_eq_true, beq_iff_eq] at h
  obtain ⟨⟨h0, h1⟩, h2⟩ := h
  simp only [tp, relabel, h0, h1, h2]

/-- a rotation keeps every corner triple product … -/
theorem tp_relabel_proper (P : Hex) (l : List Nat) (hl : l ∈ proper24) (i : Nat) (hi : i < 8) :
    tp (relabel P (perm l)) i = tp P (perm l i) := by
  have h := nb_even l hl i (List.mem_range.mpr hi)
  simp only [Bool.or_eq_true] at h
  rcases h with (h | h) | h
  · rw [tp_relabel_of_match P l i _ _ _ h]; rfl
  · rw [tp_relabel_of_match P l i _ _ _ h]; unfold tp; rw [det3_rot]
  · rw [tp_relabel_of_match P l i _ _ _ h]; unfold tp; rw [← det3_rot]

/-- … a mirrored relabelling negates it -/
theorem tp_relabel_improper (P : Hex) (l : List Nat) (hl : l ∈ improper24) (i : Nat) (hi : i < 8) :
    tp (relabel P (perm l)) i = -tp P (perm l i) := by
  have h := nb_odd l hl i (List.mem_range.mpr hi)
  simp only [Bool.or_eq_true] at h
  rcases h with (h | h) | h
  · rw [tp_relabel_of_match P l i _ _ _ h]; unfold tp; rw [← det3_rot, det3_swap, det3_rot, det3_rot]
  · rw [tp_relabel_of_match P l i _ _ _ h]; unfold tp; rw [det3_swap]
  · rw [tp_relabel_of_match P l i _ _ _ h]; unfold tp; rw [det3_swap, det3_rot]

theorem sym48_perm : ∀ l ∈ sym48, l.Perm (List.range 8) ∧ (List.range 8).map (perm l) = l := by decide +kernel

theorem perm_lt : ∀ l ∈ sym48, ∀ i ∈ List.range 8, perm l i < 8 := by decide +kernel

/-- the centre does not depend on the numbering -/
theorem center_relabel (P : Hex) (l : List Nat) (hl : l ∈ sym48) : (relabel P (perm l)).center = P.center := by
  rw [center_eq_sumV, center_eq_sumV]
  congr 1
  obtain ⟨hp, hm⟩ := sym48_perm l hl
  have : (List.range 8).map (relabel P (perm l)) = l.map P := by
    conv_rhs => rw [← hm]
    simp [relabel, List.map_map, Function.comp_def]
  rw [this]
  exact sumV_perm (hp.map P)

theorem sideKey_relabel (P : Hex) (l : List Nat) (d : V3) (s s' k : Nat) (hk : k < 4)
    (h : cycShift l s s' k = true) : sideKey (relabel P (perm l)) d s = sideKey P d s' := by
  unfold sideKey; rw [sideNormal_relabel P l s s' k hk h]

def idl : List Nat := [0, 1, 2, 3, 4, 5, 6, 7]

/-- a rotation that keeps the front side (4) and the top side (1) is the identity -/
theorem rot_fix : ∀ l ∈ proper24, (sideImg l 4).1 = 4 → (sideImg l 1).1 = 1 → l = idl := by decide +kernel

/-- a rotation that moves the front side moves it to another side and moves another side to the front -/
theorem rot_front : ∀ l ∈ proper24, (sideImg l 4).1 ≠ 4 →
    (sideImg l 4).1 ∈ [0, 1, 2, 3, 5] ∧ ∃ s ∈ [0, 1, 2, 3, 5], (sideImg l s).1 = 4 := by decide +kernel

/-- a rotation that keeps the front side but moves the top side exchanges it with one of bottom / left / right -/
theorem rot_top : ∀ l ∈ proper24, (sideImg l 4).1 = 4 → (sideImg l 1).1 ≠ 1 →
    (sideImg l 1).1 ∈ [0, 2, 3] ∧ ∃ s ∈ [0, 2, 3], (sideImg l s).1 = 1 := by decide +kernel

/-! ### completeness of the list of 48 -/

def sameSet (a b : List Nat) : Bool := a.all (fun x => b.contains x) && b.all (fun x => a.contains x)

/-- the corner set `xs` is the corner set of a side of `FACE_MAP` (generated table) -/
def imgSet (xs : List Nat) : Bool := CBV.Gen.faceMap.any (fun e => sameSet xs e.2)

theorem sym48_complete_aux :
    ∀ a0 ∈ List.range 8, ∀ a1 ∈ List.range 8, ∀ a2 ∈ List.range 8, ∀ a3 ∈ List.range 8,
      imgSet [a0, a1, a2, a3] = true →
    ∀ a4 ∈ List.range 8, ∀ a5 ∈ List.range 8, imgSet [a4, a5, a1, a0] = true →
    ∀ a6 ∈ List.range 8, imgSet [a5, a1, a2, a6] = true →
    ∀ a7 ∈ List.range 8, imgSet [a4, a5, a6, a7] = true → imgSet [a4, a0, a3, a7] = true →
      imgSet [a7, a6, a2, a3] = true → [a0, a1, a2, a3, a4, a5, a6, a7].Nodup →
      [a0, a1, a2, a3, a4, a5, a6, a7] ∈ sym48 := by decide +kernel

/-! ### only the eight corners matter -/

theorem nb_lt : ∀ i ∈ List.range 8, ∀ k ∈ List.range 3, nb i k < 8 := by decide
theorem cyc_lt : ∀ s ∈ List.range 6, ∀ k ∈ List.range 4, cyc s k < 8 := by decide

theorem tp_congr {P Q : Hex} (h : ∀ i < 8, P i = Q i) (i : Nat) (hi : i < 8) : tp P i = tp Q i := by
  have hi' := List.mem_range.mpr hi
  unfold tp
  rw [h i hi, h _ (nb_lt i hi' 0 (by decide)), h _ (nb_lt i hi' 1 (by decide)), h _ (nb_lt i hi' 2 (by decide))]

theorem sideNormal_congr {P Q : Hex} (h : ∀ i < 8, P i = Q i) (s : Nat) (hs : s < 6) :
    sideNormal P s = sideNormal Q s := by
  have hs' := List.mem_range.mpr hs
  unfold sideNormal
  rw [h _ (cyc_lt s hs' 0 (by decide)), h _ (cyc_lt s hs' 1 (by decide)), h _ (cyc_lt s hs' 2 (by decide)),
    h _ (cyc_lt s hs' 3 (by decide))]

theorem center_congr {P Q : Hex} (h : ∀ i < 8, P i = Q i) : P.center = Q.center := by
  unfold Hex.center
  rw [h 0 (by decide), h 1 (by decide), h 2 (by decide), h 3 (by decide), h 4 (by decide), h 5 (by decide),
    h 6 (by decide), h 7 (by decide)]

theorem canonical_congr {obs ceil : V3} {P Q : Hex} (h : ∀ i < 8, P i = Q i) (hc : Canonical obs ceil P) :
    Canonical obs ceil Q := by
  have hcen := center_congr h
  have hk : ∀ d s, s < 6 → sideKey P d s = sideKey Q d s := by
    intro d s hs; unfold sideKey; rw [sideNormal_congr h s hs]
  refine ⟨?_, ?_, ?_⟩
  · intro s hs
    have := hc.front s hs
    have hs6 : s < 6 := by
      simp only [List.mem_cons, List.not_mem_nil, or_false] at hs
      rcases hs with rfl | rfl | rfl | rfl | rfl <;> decide
    rw [hcen, hk _ s hs6, hk _ 4 (by decide)] at this
    exact this
  · intro s hs
    have := hc.top s hs
    have hs6 : s < 6 := by
      simp only [List.mem_cons, List.not_mem_nil, or_false] at hs
      rcases hs with rfl | rfl | rfl <;> decide
    rw [hcen, hk _ s hs6, hk _ 1 (by decide)] at this
    exact this
  · intro i hi
    rw [← tp_congr h i (List.mem_range.mp hi)]
    exact hc.rh i hi

end CBV.C18
