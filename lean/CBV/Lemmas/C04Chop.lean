/-
Lemmas on the composed model M-PROP ∘ M-CALC (`Model/C04Chop.lean`): what a held chop is for every `preserve`
mode (through `C03.copyPreserving`), what its evaluation on a wire returns (through C03's theorems on
`Chop.calculate`), and that the tables `toInp` builds once are the functions they tabulate.
-/
import CBV.Model.C04Chop
import CBV.Lemmas.C04Calc

namespace CBV.Prop
open CBV.C03 (Vals Q Oracle Tol calculate firstCell lastCell)

/-- the `Chop` object `copy_preserving` is called on: the user's arguments, its `preserve`, the axis-level results -/
abbrev obOf (u : UChop) (res : Vals) : C03.Obj := { params := u.vals, preserve := u.preserve, last := some res }

theorem evalOn_ok {t : Tol} {L ratio : ℚ} {o : Oracle} {v r : Vals} (h : evalOn t L ratio o v = .ok r) :
    0 < ratio ∧ ratio ≤ 1 ∧ calculate t (L * ratio) (selfOracle t (L * ratio) v o) v = .ok r := by
  unfold evalOn at h
  split at h
  · cases h
  · next hr =>
    have : 0 < ratio ∧ ratio ≤ 1 := by
      by_contra hc; exact hr hc
    exact ⟨this.1, this.2, h⟩

/-- unfolding of `held` for an existing, resolved chop -/
theorem held_eq {g : Geo} {id : Nat} {u : UChop} {res : Vals} (hu : g.uchops[id]? = some u)
    (hr : resolved g id = .ok res) (inv : Bool) :
    held g id inv =
      match C03.copyPreserving (obOf u res) inv with
      | .ok c => .ok c
      | .error e => .error (e, none) := by
  unfold held
  rw [hu, hr]
  rfl

theorem wireVals_eq {g : Geo} {id : Nat} {u : UChop} {c : Vals} {inv : Bool} (hu : g.uchops[id]? = some u)
    (hh : held g id inv = .ok c) (w : Nat) :
    wireVals g id inv w = evalOn g.tol (g.len w) u.ratio (g.ow id inv w) c := by
  unfold wireVals evalHeld
  rw [hu, hh]

/-! ### preserve = c2c_expansion: count and ratio, the reciprocal ratio when inverted -/

theorem held_c2c {g : Geo} {id : Nat} {u : UChop} {res : Vals} {n : ℕ} {c : ℚ} (hu : g.uchops[id]? = some u)
    (hp : u.preserve = .c2c) (hr : resolved g id = .ok res) (hn : res.count = some n) (hn1 : 1 ≤ n)
    (hc : res.c2c = some c) (hc0 : c ≠ 0) :
    held g id false = .ok { count := some n, c2c := some c } ∧
    held g id true = .ok { count := some n, c2c := some (1 / c) } := by
  have h := C03.ForC04.calc_copy_preserving (ob := obOf u res) (res := res) (n := n) (c := c) rfl hp hn hn1 hc hc0
  constructor
  · rw [held_eq hu hr, h.1]
  · rw [held_eq hu hr, h.2.1]

/-! ### preserve = start_size / end_size: count and the size, at the other end when inverted -/

theorem copy_start {u : UChop} {res : Vals} {n : ℕ} {s : ℚ} (hp : u.preserve = .start) (hn : res.count = some n)
    (hn1 : 1 ≤ n) (hs : res.start = some s) :
    C03.copyPreserving (obOf u res) false
      = .ok { count := some n, start := some s } ∧
    C03.copyPreserving (obOf u res) true
      = .ok { count := some n, end_ := some s } := by
  have hmax : max n 1 = n := by omega
  constructor
  · unfold C03.copyPreserving obOf
    simp only [hn, hp, Vals.get, hs, Vals.assign, hmax]
    rfl
  · unfold C03.copyPreserving obOf
    simp only [hn, hp, Vals.get, hs, Vals.assign, hmax]
    simp only [reduceCtorEq, if_false, if_true]
    unfold C03.invert
    simp
    rfl

theorem copy_end {u : UChop} {res : Vals} {n : ℕ} {e : ℚ} (hp : u.preserve = .end_) (hn : res.count = some n)
    (hn1 : 1 ≤ n) (he : res.end_ = some e) :
    C03.copyPreserving (obOf u res) false
      = .ok { count := some n, end_ := some e } ∧
    C03.copyPreserving (obOf u res) true
      = .ok { count := some n, start := some e } := by
  have hmax : max n 1 = n := by omega
  constructor
  · unfold C03.copyPreserving obOf
    simp only [hn, hp, Vals.get, he, Vals.assign, hmax]
    rfl
  · unfold C03.copyPreserving obOf
    simp only [hn, hp, Vals.get, he, Vals.assign, hmax]
    simp only [reduceCtorEq, if_false, if_true]
    unfold C03.invert
    simp
    rfl

theorem held_start {g : Geo} {id : Nat} {u : UChop} {res : Vals} {n : ℕ} {s : ℚ} (hu : g.uchops[id]? = some u)
    (hp : u.preserve = .start) (hr : resolved g id = .ok res) (hn : res.count = some n) (hn1 : 1 ≤ n)
    (hs : res.start = some s) :
    held g id false = .ok { count := some n, start := some s } ∧
    held g id true = .ok { count := some n, end_ := some s } := by
  have h := copy_start (u := u) hp hn hn1 hs
  exact ⟨by rw [held_eq hu hr, h.1], by rw [held_eq hu hr, h.2]⟩

theorem held_end {g : Geo} {id : Nat} {u : UChop} {res : Vals} {n : ℕ} {e : ℚ} (hu : g.uchops[id]? = some u)
    (hp : u.preserve = .end_) (hr : resolved g id = .ok res) (hn : res.count = some n) (hn1 : 1 ≤ n)
    (he : res.end_ = some e) :
    held g id false = .ok { count := some n, end_ := some e } ∧
    held g id true = .ok { count := some n, start := some e } := by
  have h := copy_end (u := u) hp hn hn1 he
  exact ⟨by rw [held_eq hu hr, h.1], by rw [held_eq hu hr, h.2]⟩

/-! ### the tables of `toInp` -/

theorem toInp_ev (g : Geo) : (toInp g).ev = evG g := by
  funext id inv w
  show evTab g _ id inv w = evG g id inv w
  unfold evTab evG wireVals
  rw [List.getElem?_toArray, List.getElem?_map, List.getElem?_zipIdx]
  cases hu : g.uchops[id]? with
  | none => simp [totalOr0]
  | some u =>
    simp only [Option.map_some, Nat.zero_add]
    cases inv <;> simp

theorem toInp_chops (g : Geo) {x : Nat} (hx : x < 3 * g.nBlocks) : (toInp g).chops x = chopsOn g x := by
  show Array.getD _ x [] = chopsOn g x
  simp [Array.getD, hx]

theorem toInp_nBlocks (g : Geo) : (toInp g).nBlocks = g.nBlocks := rfl

/-- every chop M-PROP starts from is un-inverted and carries the count the calculator resolved -/
theorem chopsOn_mem {g : Geo} {x : Nat} {c : Chop} (h : c ∈ chopsOn g x) :
    c.inv = false ∧ c.count = countOf g c.id ∧ ∃ u, g.uchops[c.id]? = some u ∧ u.x = x ∧ c.ratio = u.ratio := by
  unfold chopsOn at h
  rw [List.mem_map] at h
  obtain ⟨p, hp, rfl⟩ := h
  rw [List.mem_filter] at hp
  obtain ⟨hm, hx⟩ := hp
  refine ⟨rfl, rfl, p.1, ?_, by simpa using hx, rfl⟩
  have := List.mem_zipIdx hm
  simp only [Nat.zero_add, Nat.zero_le, true_and] at this
  obtain ⟨hlt, heq⟩ := this
  simp only [List.getElem?_eq_getElem hlt, heq, Nat.sub_zero]

end CBV.Prop
