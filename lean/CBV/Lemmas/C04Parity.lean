/-
Helper lemmas for C04: the inversion parity a propagated chop carries equals the orientation of the receiving axis
relative to the axis the user chopped — invariant of the propagation phase of M-PROP, for orientable inputs.
-/
import CBV.Lemmas.C01Own

namespace CBV.Prop

/-- `o` orients the axes coherently: two wires on the same vertex pair run the same way iff their axes are oriented
    alike (wires of one axis are parallel: `T_C04_axis_pairs_parallel`) -/
def WireCoh (inp : Inp) (o : Nat → Bool) : Prop :=
  ∀ w w', w < 12 * inp.nBlocks → w' < 12 * inp.nBlocks → samePair inp w w' = true →
    aligned inp w w' = (o (w / 4) == o (w' / 4))

/-- the same as a computable check over the wires of the mesh -/
def wireCohB (inp : Inp) (o : Nat → Bool) : Bool :=
  (List.range (12 * inp.nBlocks)).all (fun w => (List.range (12 * inp.nBlocks)).all (fun w' =>
    !samePair inp w w' || (aligned inp w w' == (o (w / 4) == o (w' / 4)))))

theorem wireCoh_of_check (inp : Inp) (o : Nat → Bool) (h : wireCohB inp o = true) : WireCoh inp o := by
  intro w w' hw hw' hs
  unfold wireCohB at h
  rw [List.all_eq_true] at h
  have h1 := h w (List.mem_range.mpr hw)
  rw [List.all_eq_true] at h1
  have h2 := h1 w' (List.mem_range.mpr hw')
  simp only [hs, Bool.not_true, Bool.false_or, beq_iff_eq] at h2
  exact h2

/-- `src` tells on which axis the user chop with a given id was placed; user chops are not inverted -/
def Src (inp : Inp) (src : Nat → Nat) : Prop := ∀ y, ∀ c ∈ inp.chops y, c.inv = false ∧ src c.id = y

/-- every chop a manager holds is inverted iff its axis is oriented against the axis of the user chop it descends from -/
def Par (inp : Inp) (o : Nat → Bool) (src : Nat → Nat) (st : St) : Prop :=
  ∀ x, x < 3 * inp.nBlocks → ∀ c ∈ chopsOf st x, c.inv = (o x != o (src c.id))

theorem axisAligned_coh (inp : Inp) (o : Nat → Bool) (hc : WireCoh inp o) (x y : Nat)
    (hx : x < 3 * inp.nBlocks) (hy : y < 3 * inp.nBlocks) (b : Bool) (h : axisAligned inp y x = some b) :
    b = (o y == o x) := by
  unfold axisAligned at h
  simp only [Option.map_eq_some_iff] at h
  obtain ⟨p, hp, rfl⟩ := h
  have hm := List.mem_of_find?_eq_some hp
  have hs := List.find?_some hp
  simp only [List.mem_flatMap, List.mem_map] at hm
  obtain ⟨w, hw, w', hw', rfl⟩ := hm
  have e1 : w / 4 = y := by
    unfold axisWires at hw; simp only [List.mem_cons, List.not_mem_nil, or_false] at hw; omega
  have e2 : w' / 4 = x := by
    unfold axisWires at hw'; simp only [List.mem_cons, List.not_mem_nil, or_false] at hw'; omega
  have := hc w w' (by omega) (by omega) hs
  rw [e1, e2] at this
  exact this

theorem init_par (inp : Inp) (o : Nat → Bool) (src : Nat → Nat) (hs : Src inp src) :
    Par inp o src (gradeBlocks inp (init inp)) := by
  intro x _ c hc
  have e : chopsOf (gradeBlocks inp (init inp)) x = inp.chops x := (gradeBlocks_fold inp (3 * inp.nBlocks)).1 x
  rw [e] at hc
  obtain ⟨h1, h2⟩ := hs x c hc
  rw [h1, h2]; simp

theorem nbr_lt (inp : Inp) (hv : nbrsValid inp = true) (x nb : Nat) (hx : x < 3 * inp.nBlocks)
    (h : nb ∈ inp.nbrs x) : nb < 3 * inp.nBlocks := by
  unfold nbrsValid at hv
  rw [List.all_eq_true] at hv
  have h1 := hv x (List.mem_range.mpr hx)
  rw [List.all_eq_true] at h1
  have h2 := h1 nb h
  rw [Bool.and_eq_true] at h2
  exact of_decide_eq_true h2.1

theorem axisCopy_par (inp : Inp) (o : Nat → Bool) (src : Nat → Nat) (hc : WireCoh inp o) (hv : nbrsValid inp = true)
    (st st' : St) (x : Nat) (hx : x < 3 * inp.nBlocks) (b : Bool) (hi : Par inp o src st)
    (h : axisCopy inp st x = .ok (st', b)) : Par inp o src st' := by
  unfold axisCopy at h
  split at h
  · cases h; exact hi
  · split at h
    · cases h; exact hi
    · rename_i nb hf
      have hnb : nb < 3 * inp.nBlocks := nbr_lt inp hv x nb hx (List.mem_of_find?_eq_some hf)
      split at h
      · cases h
      · rename_i ha
        have hb := axisAligned_coh inp o hc x nb hx hnb true ha
        cases h
        intro y hy c hcm
        rw [gradeAxis_chops, chopsOf_addChops] at hcm
        split at hcm
        · rename_i hyx
          subst hyx
          rcases List.mem_append.mp hcm with hcm | hcm
          · exact hi _ hy c hcm
          · obtain ⟨c', hc', rfl⟩ := List.mem_map.mp hcm
            have := hi nb hnb c' hc'
            simp only [copyPreserving, Bool.false_eq_true, if_false]
            rw [this]
            have : o nb = o y := by simpa using hb.symm
            rw [this]
        · exact hi y hy c hcm
      · rename_i ha
        have hb := axisAligned_coh inp o hc x nb hx hnb false ha
        cases h
        intro y hy c hcm
        rw [gradeAxis_chops, chopsOf_addChops] at hcm
        split at hcm
        · rename_i hyx
          subst hyx
          rcases List.mem_append.mp hcm with hcm | hcm
          · exact hi _ hy c hcm
          · obtain ⟨c', hc', rfl⟩ := List.mem_map.mp hcm
            have := hi nb hnb c' (List.mem_reverse.mp hc')
            simp only [copyPreserving, if_true]
            rw [this]
            have hne : (o nb == o y) = false := hb.symm
            revert hne
            cases o nb <;> cases o y <;> cases o (src c'.id) <;> decide
        · exact hi y hy c hcm

theorem blockCopy_par (inp : Inp) (o : Nat → Bool) (src : Nat → Nat) (hc : WireCoh inp o) (hv : nbrsValid inp = true)
    (st st' : St) (b : Nat) (hb : b < inp.nBlocks) (u : Bool) (hi : Par inp o src st)
    (h : blockCopy inp st b = .ok (st', u)) : Par inp o src st' := by
  unfold blockCopy at h
  split at h
  · cases h; exact hi
  · split at h
    · cases h
    · rename_i r0 h0
      split at h
      · cases h
      · rename_i r1 h1
        split at h
        · cases h
        · rename_i r2 h2
          cases h
          have i0 := axisCopy_par inp o src hc hv st r0.1 _ (by omega) r0.2 hi h0
          have i1 := axisCopy_par inp o src hc hv r0.1 r1.1 _ (by omega) r1.2 i0 h1
          exact axisCopy_par inp o src hc hv r1.1 r2.1 _ (by omega) r2.2 i1 h2

theorem pass_par (inp : Inp) (o : Nat → Bool) (src : Nat → Nat) (hc : WireCoh inp o) (hv : nbrsValid inp = true)
    (wl : List Nat) : ∀ (st : St) (r : St × List Nat × Bool), (∀ b ∈ wl, b < inp.nBlocks) → Par inp o src st →
    pass inp st wl = .ok r → Par inp o src r.1 ∧ (∀ b ∈ r.2.1, b < inp.nBlocks) := by
  induction wl with
  | nil => intro st r _ hi h; unfold pass at h; cases h; exact ⟨hi, by simp⟩
  | cons b rest ih =>
    intro st r hb hi h
    unfold pass at h
    split at h
    · cases h; exact ⟨hi, fun b' hb' => hb b' (List.mem_cons_of_mem _ hb')⟩
    · split at h
      · cases h
      · rename_i rb hrb
        split at h
        · cases h
        · rename_i p hp
          cases h
          have i1 := blockCopy_par inp o src hc hv st rb.1 b (hb b (List.mem_cons_self ..)) rb.2 hi hrb
          obtain ⟨i2, i3⟩ := ih rb.1 p (fun b' hb' => hb b' (List.mem_cons_of_mem _ hb')) i1 hp
          refine ⟨i2, ?_⟩
          intro b' hb'
          rcases List.mem_cons.mp hb' with e | e
          · subst e; exact hb _ (List.mem_cons_self ..)
          · exact i3 b' e

theorem loop_par (inp : Inp) (o : Nat → Bool) (src : Nat → Nat) (hc : WireCoh inp o) (hv : nbrsValid inp = true) :
    ∀ (fuel : Nat) (st st' : St) (wl : List Nat), (∀ b ∈ wl, b < inp.nBlocks) → Par inp o src st →
    loop inp fuel st wl = .ok st' → Par inp o src st' := by
  intro fuel
  induction fuel with
  | zero => intro st st' wl _ _ h; unfold loop at h; cases h
  | succ f ih =>
    intro st st' wl hb hi h
    unfold loop at h
    split at h
    · cases h; exact hi
    · split at h
      · cases h
      · rename_i r hr
        split at h
        · obtain ⟨i1, i2⟩ := pass_par inp o src hc hv _ st r hb hi hr
          exact ih r.1 st' r.2.1 i2 i1 h
        · cases h

theorem run_par (inp : Inp) (o : Nat → Bool) (src : Nat → Nat) (hc : WireCoh inp o) (hs : Src inp src)
    (st : St) (h : run inp = .ok st) : Par inp o src st := by
  unfold run at h
  split at h
  · cases h
  · rename_i hsched
    have hv : nbrsValid inp = true := by
      have : (coincComplete inp && nbrsValid inp) = true := by simpa using hsched
      exact (Bool.and_eq_true _ _ ▸ this).2
    split at h
    · cases h
    · rename_i st0 hl
      split at h
      · cases h
        exact loop_par inp o src hc hv _ _ st _ (fun b hb => List.mem_range.mp hb) (init_par inp o src hs) hl
      · cases h

end CBV.Prop
