/-
C17 — the chord-length parameters of a `LinearInterpolatedCurve` (`InterpolatorBase.params` with `equalize`):
strictly increasing from 0 to 1, consecutive differences proportional to the segment lengths.
-/
import CBV.Lemmas.C17Unique

namespace CBV.C17
open CBV CBV.C09

set_option linter.unusedSimpArgs false

/-- strictly increasing -/
def incr : List Rat → Bool
  | a :: b :: rest => decide (a < b) && incr (b :: rest)
  | _ => true

theorem cumul_incr (T : Rat) (hT : 0 < T) : ∀ (lens : List Rat) (acc : Rat), (∀ l ∈ lens, 0 < l) →
    incr (acc / T :: (cumul acc lens).map (· / T)) = true
  | [], _, _ => by simp [cumul, incr]
  | l :: ls, acc, h => by
      have hl : 0 < l := h l (by simp)
      have ih := cumul_incr T hT ls (acc + l) (fun x hx => h x (by simp [hx]))
      simp only [cumul, List.map_cons, incr, Bool.and_eq_true, decide_eq_true_eq]
      exact ⟨by rw [div_lt_div_iff_of_pos_right hT]; linarith, ih⟩

theorem knotsOk_zip : ∀ (ps : List Rat) (pts : List V3), incr ps = true → knotsOk (ps.zip pts) = true
  | [], _, _ => by simp [knotsOk]
  | [_], pts, _ => by cases pts <;> simp [knotsOk]
  | a :: b :: rest, [], _ => by simp [knotsOk]
  | a :: b :: rest, [_], _ => by simp [knotsOk]
  | a :: b :: rest, p :: q :: pts, h => by
      simp only [incr, Bool.and_eq_true, decide_eq_true_eq] at h
      have ih := knotsOk_zip (b :: rest) (q :: pts) h.2
      simp only [List.zip_cons_cons, knotsOk, Bool.and_eq_true, decide_eq_true_eq] at ih ⊢
      exact ⟨h.1, ih⟩

theorem cumul_last : ∀ (lens : List Rat) (acc : Rat), lens ≠ [] → (cumul acc lens).getLast? = some (acc + sumR lens)
  | [], _, h => absurd rfl h
  | [l], acc, _ => by simp [cumul, sumR]
  | l :: m :: ls, acc, _ => by
      have ih := cumul_last (m :: ls) (acc + l) (by simp)
      simp only [cumul] at ih ⊢
      rw [List.getLast?_cons_cons, ih]
      simp [sumR]; ring

theorem sumR_pos : ∀ (lens : List Rat), lens ≠ [] → (∀ l ∈ lens, 0 < l) → 0 < sumR lens
  | [], h, _ => absurd rfl h
  | [l], _, h => by simpa [sumR] using h l (by simp)
  | l :: m :: ls, _, h => by
      have := sumR_pos (m :: ls) (by simp) (fun x hx => h x (by simp [hx]))
      have hl := h l (by simp)
      simp only [sumR] at this ⊢
      linarith

/-- differences of consecutive running sums are the summands -/
theorem cumul_diff : ∀ (lens : List Rat) (acc : Rat),
    List.zipWith (fun b a => b - a) (cumul acc lens) (acc :: cumul acc lens) = lens
  | [], _ => by simp [cumul]
  | l :: ls, acc => by
      have ih := cumul_diff ls (acc + l)
      simp only [cumul, List.zipWith_cons_cons]
      rw [ih]
      simp

theorem zipWith_sub_map_div (T : Rat) : ∀ (xs ys : List Rat),
    List.zipWith (fun b a => b - a) (xs.map (· / T)) (ys.map (· / T)) = (List.zipWith (fun b a => b - a) xs ys).map (· / T)
  | [], _ => by simp
  | _ :: _, [] => by simp
  | x :: xs, y :: ys => by
      simp only [List.map_cons, List.zipWith_cons_cons, zipWith_sub_map_div T xs ys, sub_div]

end CBV.C17
