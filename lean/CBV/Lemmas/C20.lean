/-
C20 — helper lemmas: the `checks` combinator, absolute value, squared forms of norm comparisons.
-/
import CBV.Model.C20
import Mathlib.Tactic.Ring
import Mathlib.Tactic.Linarith
import Mathlib.Algebra.Order.Field.Rat

namespace CBV.C20

theorem checks_isReject (l : List (Bool × String)) : (checks l).isReject = l.any (·.1) := by
  induction l with
  | nil => rfl
  | cons a rest ih =>
      obtain ⟨b, cls⟩ := a
      cases b
      · simp only [checks, List.any_cons, Bool.false_or]
        exact ih
      · simp [checks, Out.isReject]

/-- `abs(x) > tol` is the negation of the two-sided condition `-tol ≤ x ≤ tol` -/
theorem absR_gt_iff (x tol : Rat) : absR x > tol ↔ ¬ (-tol ≤ x ∧ x ≤ tol) := by
  unfold absR
  split
  · constructor
    · intro h ⟨h1, _⟩; linarith
    · intro h
      by_contra hc
      apply h
      constructor <;> linarith
  · constructor
    · intro h ⟨_, h2⟩; linarith
    · intro h
      by_contra hc
      apply h
      constructor <;> linarith

theorem absR_nonneg (x : Rat) : 0 ≤ absR x := by
  unfold absR; split <;> linarith

theorem absR_mul_self (x : Rat) : absR x * absR x = x * x := by
  unfold absR; split <;> ring

/-- comparison of non-negative numbers through their squares -/
theorem lt_iff_sq_lt {a b : Rat} (ha : 0 ≤ a) (hb : 0 ≤ b) : a < b ↔ a * a < b * b := by
  constructor
  · intro h; nlinarith
  · intro h; by_contra hc; have : b ≤ a := not_lt.mp hc; nlinarith

theorem le_iff_sq_le {a b : Rat} (ha : 0 ≤ a) (hb : 0 ≤ b) : a ≤ b ↔ a * a ≤ b * b := by
  constructor
  · intro h; nlinarith
  · intro h; by_contra hc; have : b < a := not_le.mp hc; nlinarith

end CBV.C20
