/-
C20 — helper lemmas: the `checks` combinator, absolute value, squared forms of norm comparisons.
-/
import CBV.Model.C20
import Mathlib.Tactic.Ring
import Mathlib.Tactic.Linarith
import Mathlib.Algebra.Order.Field.Rat

namespace CBV.C20

set_option linter.unusedSimpArgs false

theorem checks_isReject (l : List (Bool × String)) : (checks l).isReject = l.any (·.1) := by
  induction l with
  | nil => rfl
  | cons a rest ih =>
      obtain ⟨b, cls⟩ := a
      cases b
      · simp only [checks, List.any_cons, Bool.false_or]
        exact ih
      · simp [checks, Out.isReject]

/-- `abs(x) > tol` is the negation of the two-sided condition `-tol ≤ x ≤ tol` -/
theorem absR_gt_iff (x tol : Rat) : absR x > tol ↔ ¬ (-tol ≤ x ∧ x ≤ tol) := by
  unfold absR
  split
  · constructor
    · intro h ⟨h1, _⟩; linarith
    · intro h
      by_contra hc
      apply h
      constructor <;> linarith
  · constructor
    · intro h ⟨_, h2⟩; linarith
    · intro h
      by_contra hc
      apply h
      constructor <;> linarith

theorem absR_nonneg (x : Rat) : 0 ≤ absR x := by
  unfold absR; split <;> linarith

theorem absR_mul_self (x : Rat) : absR x * absR x = x * x := by
  unfold absR; split <;> ring

/-- comparison of non-negative numbers through their squares -/
theorem lt_iff_sq_lt {a b : Rat} (ha : 0 ≤ a) (hb : 0 ≤ b) : a < b ↔ a * a < b * b := by
  constructor
  · intro h; nlinarith
  · intro h; by_contra hc; have : b ≤ a := not_lt.mp hc; nlinarith

theorem le_iff_sq_le {a b : Rat} (ha : 0 ≤ a) (hb : 0 ≤ b) : a ≤ b ↔ a * a ≤ b * b := by
  constructor
  · intro h; nlinarith
  · intro h; by_contra hc; have : b < a := not_le.mp hc; nlinarith

theorem isZero_iff (v : V3) : isZero v = true ↔ v = V3.zero := by
  cases v
  simp [isZero, V3.zero, and_assoc]

theorem isZero_false_iff (v : V3) : isZero v = false ↔ v ≠ V3.zero := by
  have := isZero_iff v
  cases h : isZero v <;> simp_all

theorem removeEdgesRun_isReject (cs : List Int) :
    (removeEdgesRun cs).isReject = true ↔ ∃ c ∈ cs, ¬ (0 ≤ c ∧ c ≤ 3) := by
  induction cs with
  | nil => simp [removeEdgesRun, Out.isReject]
  | cons c cs ih =>
      unfold removeEdgesRun
      by_cases h : faceCornerBad c = true
      · rw [if_pos h]
        simp only [Out.isReject, List.mem_cons, exists_eq_or_imp, true_iff]
        left
        simp only [faceCornerBad, Bool.or_eq_true, decide_eq_true_eq] at h
        omega
      · rw [if_neg h]
        simp only [List.mem_cons, exists_eq_or_imp, ih]
        simp only [faceCornerBad, Bool.or_eq_true, decide_eq_true_eq] at h
        constructor
        · intro h'; right; exact h'
        · rintro (h' | h')
          · exact absurd (by omega) h'
          · exact h'

theorem validPair_range (c1 c2 : Int) (h : validPair c1 c2 = true) : 0 ≤ c1 ∧ c1 ≤ 7 ∧ 0 ≤ c2 ∧ c2 ≤ 7 := by
  simp only [validPair, CBV.Gen.edgePairs, List.any_cons, List.any_nil, Bool.or_false, Bool.or_eq_true,
    Bool.and_eq_true, beq_iff_eq] at h
  omega

theorem toNat_mem_range8 (c : Int) (h0 : 0 ≤ c) (h7 : c ≤ 7) : c.toNat ∈ List.range 8 ∧ (c.toNat : Int) = c := by
  constructor
  · simp only [List.mem_range]; omega
  · omega

theorem mergeLabels_mem (h new : List Nat) (x : Nat) : x ∈ mergeLabels h new ↔ x ∈ h ∨ x ∈ new := by
  unfold mergeLabels
  induction new generalizing h with
  | nil => simp
  | cons l ls ih =>
      simp only [List.foldl_cons]
      rw [ih]
      by_cases hl : h.contains l = true
      · rw [if_pos hl]
        have : l ∈ h := by simpa using hl
        simp only [List.mem_cons]
        constructor
        · rintro (h1 | h1)
          · exact Or.inl h1
          · exact Or.inr (Or.inr h1)
        · rintro (h1 | h1 | h1)
          · exact Or.inl h1
          · subst h1; exact Or.inl this
          · exact Or.inr h1
      · rw [if_neg hl]
        simp only [List.mem_append, List.mem_cons, List.not_mem_nil, or_false]
        tauto

theorem mergeLabels_nodup (h new : List Nat) (hn : h.Nodup) : (mergeLabels h new).Nodup := by
  unfold mergeLabels
  induction new generalizing h with
  | nil => simpa
  | cons l ls ih =>
      simp only [List.foldl_cons]
      apply ih
      by_cases hl : h.contains l = true
      · rw [if_pos hl]; exact hn
      · rw [if_neg hl]
        have : l ∉ h := by simpa using hl
        rw [List.nodup_append]
        refine ⟨hn, by simp, ?_⟩
        intro a ha b hb
        simp only [List.mem_cons, List.not_mem_nil, or_false] at hb
        subst hb
        intro hab; subst hab; exact this ha

theorem mergeLabels_length (h new : List Nat) : h.length ≤ (mergeLabels h new).length := by
  unfold mergeLabels
  induction new generalizing h with
  | nil => simp
  | cons l ls ih =>
      simp only [List.foldl_cons]
      refine le_trans ?_ (ih _)
      split <;> simp

theorem not_iff_bnot {P : Prop} {b : Bool} (h : b = true ↔ P) : ¬ P ↔ (!b) = true := by
  cases b <;> simp_all

theorem firstNear_none_iff (tol : Rat) (pos : V3) (pts : List V3) (i : Nat) :
    firstNear tol pos pts i = none ↔ ∀ p ∈ pts, near tol p pos = false := by
  induction pts generalizing i with
  | nil => simp [firstNear]
  | cons p ps ih =>
      unfold firstNear
      by_cases h : near tol p pos = true
      · rw [if_pos h]; simp [h]
      · rw [if_neg h, ih]
        have h' : near tol p pos = false := by simpa using h
        simp [h']

theorem addClamp_nodup (tol : Rat) (pts : List V3) (st : List Nat) (pos : V3) (h : st.Nodup) :
    (addClamp tol pts st pos).2.Nodup := by
  unfold addClamp
  cases hf : firstNear tol pos pts 0 with
  | none => simpa
  | some i =>
      by_cases hc : i ∈ st
      · simpa [hc]
      · simp [hc, h]

theorem linkScan_spec (tol : Rat) (leader follower : V3) (pts : List V3) :
    ∀ (pre ps : List V3) (li fi : Option Nat), pts = pre ++ ps →
      let r := linkScan tol leader follower ps pre.length li fi
      (r.1.isSome = true ↔ li.isSome = true ∨ ∃ p ∈ ps, near tol leader p = true) ∧
      (r.2.isSome = true ↔ fi.isSome = true ∨ ∃ q ∈ ps, near tol leader q = false ∧ near tol follower q = true) ∧
      (∀ l, r.1 = some l → li = some l ∨ ∃ p, pts[l]? = some p ∧ near tol leader p = true) ∧
      (∀ f, r.2 = some f → fi = some f ∨ ∃ q, pts[f]? = some q ∧ near tol leader q = false) := by
  intro pre ps
  induction ps generalizing pre with
  | nil =>
      intro li fi _
      simp only [linkScan]
      exact ⟨by simp, by simp, fun l h => Or.inl h, fun f h => Or.inl h⟩
  | cons p ps ih =>
      intro li fi hpts
      have hp : pts[pre.length]? = some p := by rw [hpts]; simp
      have hpts' : pts = (pre ++ [p]) ++ ps := by rw [hpts]; simp
      have hlen : (pre ++ [p]).length = pre.length + 1 := by simp
      unfold linkScan
      by_cases h1 : near tol leader p = true
      · rw [if_pos h1]
        have := ih (pre ++ [p]) (some pre.length) fi hpts'
        rw [hlen] at this
        obtain ⟨a, b, c, d⟩ := this
        refine ⟨?_, ?_, ?_, ?_⟩
        · rw [a]; simp [h1]
        · rw [b]; simp [h1]
        · intro l hl
          rcases c l hl with h | h
          · right; cases h; exact ⟨p, hp, h1⟩
          · right; exact h
        · exact d
      · rw [if_neg h1]
        have h1' : near tol leader p = false := by simpa using h1
        by_cases h2 : near tol follower p = true
        · rw [if_pos h2]
          have := ih (pre ++ [p]) li (some pre.length) hpts'
          rw [hlen] at this
          obtain ⟨a, b, c, d⟩ := this
          refine ⟨?_, ?_, c, ?_⟩
          · rw [a]; simp [h1']
          · rw [b]; simp [h1', h2]
          · intro f hf
            rcases d f hf with h | h
            · right; cases h; exact ⟨p, hp, h1'⟩
            · right; exact h
        · rw [if_neg h2]
          have h2' : near tol follower p = false := by simpa using h2
          have := ih (pre ++ [p]) li fi hpts'
          rw [hlen] at this
          obtain ⟨a, b, c, d⟩ := this
          refine ⟨?_, ?_, c, d⟩
          · rw [a]; simp [h1']
          · rw [b]; simp [h1', h2']

theorem stateRev_depot (r : List MeshOp) : 0 < (stateRev r).depot ↔ MeshOp.add ∈ r := by
  induction r with
  | nil => simp [stateRev]
  | cons op older ih =>
      cases op with
      | add => simp [stateRev, meshStep]
      | assemble => simp [stateRev, meshStep, ih]
      | clear => simp [stateRev, meshStep, ih]
      | grade => simp [stateRev, meshStep, ih]
      | backport =>
          simp only [stateRev, meshStep]
          split <;> simp [ih]

theorem stateRev_assembled (r : List MeshOp) :
    (stateRev r).assembled = assembledSpec r ∧ ((stateRev r).assembled = true → 0 < (stateRev r).depot) := by
  induction r with
  | nil => exact ⟨rfl, by simp [stateRev]⟩
  | cons op older ih =>
      obtain ⟨ih1, ih2⟩ := ih
      have hd : decide (0 < (stateRev older).depot) = older.contains MeshOp.add := by
        simp [stateRev_depot older]
      cases op with
      | add => simp only [stateRev, meshStep, assembledSpec]; exact ⟨ih1, fun h => by have := ih2 h; omega⟩
      | assemble =>
          simp only [stateRev, meshStep, assembledSpec]
          refine ⟨by rw [ih1, hd], ?_⟩
          intro h
          simp only [Bool.or_eq_true, decide_eq_true_eq] at h
          rcases h with h | h
          · exact ih2 h
          · exact h
      | clear => simp [stateRev, meshStep, assembledSpec]
      | grade => simp only [stateRev, meshStep, assembledSpec]; exact ⟨ih1, ih2⟩
      | backport =>
          simp only [stateRev, meshStep, assembledSpec]
          by_cases ha : (stateRev older).assembled = true
          · have hpos := ih2 ha
            simp only [ha, if_true]
            refine ⟨?_, fun _ => hpos⟩
            rw [← ih1, ha]; simp [hpos]
          · have ha' : (stateRev older).assembled = false := by simpa using ha
            simp only [ha', Bool.false_eq_true, if_false]
            exact ⟨by rw [← ih1, ha'], fun h => absurd h (by simp [ha'])⟩

theorem meshRun_append (s : MeshSt) (a b : List MeshOp) :
    meshRun s (a ++ b) = meshRun s a ++ meshRun (meshFold s a) b := by
  induction a generalizing s with
  | nil => rfl
  | cons op a ih => simp [meshRun, meshFold, ih]

theorem meshRun_length (s : MeshSt) (a : List MeshOp) : (meshRun s a).length = a.length := by
  induction a generalizing s with
  | nil => rfl
  | cons op a ih => simp [meshRun, ih]

theorem meshFold_stateRev (r a : List MeshOp) : meshFold (stateRev r) a = stateRev (a.reverse ++ r) := by
  induction a generalizing r with
  | nil => rfl
  | cons op a ih =>
      have : meshFold (stateRev r) (op :: a) = meshFold (stateRev (op :: r)) a := rfl
      rw [this, ih]
      simp [List.reverse_cons, List.append_assoc]

theorem meshFold_eq_stateRev (a : List MeshOp) : meshFold {} a = stateRev a.reverse := by
  have := meshFold_stateRev [] a
  simpa [stateRev] using this

/-! ### projection labels -/

theorem mergeLabels_of_subset (a n : List Nat) (h : ∀ x ∈ n, x ∈ a) : mergeLabels a n = a := by
  unfold mergeLabels
  induction n with
  | nil => rfl
  | cons l ls ih =>
      simp only [List.foldl_cons]
      have hl : a.contains l = true := by simpa using h l (by simp)
      rw [if_pos hl]
      exact ih (fun x hx => h x (by simp [hx]))

theorem mergeLabels_idem (a n : List Nat) : mergeLabels (mergeLabels a n) n = mergeLabels a n :=
  mergeLabels_of_subset _ _ (fun x hx => (mergeLabels_mem a n x).mpr (Or.inr hx))

theorem mergeLabels_disjoint (a n : List Nat) (hn : n.Nodup) (hd : ∀ x ∈ n, x ∉ a) : mergeLabels a n = a ++ n := by
  unfold mergeLabels
  induction n generalizing a with
  | nil => simp
  | cons l ls ih =>
      simp only [List.foldl_cons]
      have hl : ¬ a.contains l = true := by simpa using hd l (by simp)
      rw [if_neg hl]
      have hn' := List.nodup_cons.mp hn
      rw [ih (a ++ [l]) hn'.2]
      · simp
      · intro x hx
        simp only [List.mem_append, List.mem_cons, List.not_mem_nil, or_false, not_or]
        exact ⟨hd x (by simp [hx]), fun h => hn'.1 (h ▸ hx)⟩

theorem mergeLabels_nil (n : List Nat) (hn : n.Nodup) : mergeLabels [] n = n := by
  simpa using mergeLabels_disjoint [] n hn (by simp)

theorem slotUpdate_accept_len (stored new : List Nat) (h : (slotUpdate stored new).1 = .accept) :
    (slotUpdate stored new).2.length ≤ 2 := by
  simp only [slotUpdate] at h ⊢
  split_ifs at h ⊢ with h1 h2 h3
  · show new.length ≤ 2; omega
  · show (mergeLabels stored new).length ≤ 2; omega

theorem applySlot_bounded (st : PState) (s : Nat) (new : List Nat) (hb : Bounded st)
    (h : (applySlot st s new).1 = .accept) : Bounded (applySlot st s new).2 := by
  intro ls hls
  simp only [applySlot] at hls h
  rcases List.mem_or_eq_of_mem_set hls with h1 | h1
  · exact hb ls h1
  · rw [h1]; exact slotUpdate_accept_len _ _ h

theorem seqSlots_bounded (slots new : List Nat) (st : PState) (hb : Bounded st)
    (h : (seqSlots slots new st).1 = .accept) : Bounded (seqSlots slots new st).2 := by
  induction slots generalizing st with
  | nil => simpa [seqSlots] using hb
  | cons s ss ih =>
      unfold seqSlots at h ⊢
      cases ha : (applySlot st s new).1 with
      | accept =>
          simp only [ha] at h ⊢
          exact ih _ (applySlot_bounded st s new hb ha) h
      | reject c =>
          simp only [ha] at h
          exact Out.noConfusion h

/-! ### auto_optimize's clamping loop -/

theorem addClamp_mono (tol : Rat) (pts : List V3) (st : List Nat) (pos : V3) (i : Nat) (h : i ∈ st) :
    i ∈ (addClamp tol pts st pos).2 := by
  unfold addClamp
  cases firstNear tol pos pts 0 with
  | none => exact h
  | some k => by_cases hc : k ∈ st <;> simp [hc, h]

theorem autoClamps_nodup (tol : Rat) (pts : List V3) (js st : List Nat) (h : st.Nodup) :
    (autoClamps tol pts js st).2.Nodup := by
  induction js generalizing st with
  | nil => simpa [autoClamps]
  | cons j js ih =>
      unfold autoClamps
      cases hp : pts[j]? with
      | none => simpa
      | some p =>
          simp only
          cases ha : (addClamp tol pts st p).1 with
          | accept => simp only; exact ih _ (addClamp_nodup tol pts st p h)
          | reject c => simp only; exact addClamp_nodup tol pts st p h

theorem autoClamps_mono (tol : Rat) (pts : List V3) (js st : List Nat) (i : Nat) (h : i ∈ st) :
    i ∈ (autoClamps tol pts js st).2 := by
  induction js generalizing st with
  | nil => simpa [autoClamps]
  | cons j js ih =>
      unfold autoClamps
      cases hp : pts[j]? with
      | none => simpa
      | some p =>
          simp only
          cases ha : (addClamp tol pts st p).1 with
          | accept => simp only; exact ih _ (addClamp_mono tol pts st p i h)
          | reject c => simp only; exact addClamp_mono tol pts st p i h

end CBV.C20
