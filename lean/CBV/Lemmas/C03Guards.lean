/-
C03 — the validator calls read from the source text are the guards the model functions implement.
-/
import CBV.Lemmas.C03Calc
import CBV.Gen.TC03

namespace CBV.C03

/-- per relation: its validator calls in source order and the number of explicit `raise` statements,
    as read from the source text at every run -/
def guardTable : Option (List (Rel × List Guard × Nat)) :=
  CBV.Gen.c03Guards.mapM fun ((o, a, b), gs, raises) => do
    let rel : Rel := ⟨← Q.ofString? o, ← Q.ofString? a, ← Q.ofString? b⟩
    let gs ← gs.mapM Guard.ofStrings?
    some (rel, gs, raises)


/-- what a validator call demands of the values a relation is applied to -/
def Guard.holds (g : Guard) (L : ℚ) (v : Vals) : Prop :=
  match g with
  | .length => 0 < L
  | .countGe1 => ∃ n, v.count = some n ∧ 1 ≤ n
  | .countGt1 => ∃ n, v.count = some n ∧ 1 < n
  | .size q => ∃ x, v.get q = some x ∧ 0 < x
  | .ratio q => ∃ x, v.get q = some x ∧ x ≠ 0

/-- a relation that returns has passed every validator the table lists for it -/
theorem guards_hold {t : Tol} {L : ℚ} {o : Oracle} {v v' : Vals} :
    ∀ p ∈ modelGuards, applyRel t L o v p.1 = .ok v' → ∀ g ∈ p.2.1, g.holds L v := by
  intro p hp h
  simp only [modelGuards, List.mem_cons, List.not_mem_nil, or_false] at hp
  rcases hp with rfl | rfl | rfl | rfl | rfl | rfl | rfl | rfl | rfl | rfl | rfl | rfl <;>
    (simp only [applyRel] at h; split at h <;> try contradiction) <;>
    (rw [map_ok] at h; obtain ⟨a, ha, _⟩ := h) <;> intro g hg <;>
    simp only [List.mem_cons, List.not_mem_nil, or_false] at hg
  · obtain ⟨h1, h2, h3, _⟩ := c2cCountEnd_ok ha
    rcases hg with rfl | rfl | rfl
    · exact h1
    · exact ⟨_, by assumption, h2⟩
    · exact ⟨_, by simpa [Vals.get] using (by assumption), h3⟩
  · obtain ⟨h1, h2, _⟩ := c2cCountStart_ok ha
    rcases hg with rfl | rfl
    · exact h1
    · exact ⟨_, by assumption, h2⟩
  · obtain ⟨h1, h2, h3, _⟩ := c2cCountTotal_ok ha
    rcases hg with rfl | rfl | rfl
    · exact h1
    · exact ⟨_, by assumption, by omega⟩
    · exact ⟨_, by simpa [Vals.get] using (by assumption), ne_of_gt h3⟩
  · obtain ⟨h1, h2, h3, _⟩ := countEndC2c_ok ha
    rcases hg with rfl | rfl | rfl
    · exact h1
    · exact ⟨_, by simpa [Vals.get] using (by assumption), h2⟩
    · exact ⟨_, by simpa [Vals.get] using (by assumption), h3⟩
  · obtain ⟨h1, h2, h3, _⟩ := countStartC2c_ok ha
    rcases hg with rfl | rfl | rfl
    · exact h1
    · exact ⟨_, by simpa [Vals.get] using (by assumption), h2⟩
    · exact ⟨_, by simpa [Vals.get] using (by assumption), h3⟩
  · obtain ⟨h1, h2, h3, _⟩ := countTotalC2c_ok ha
    rcases hg with rfl | rfl | rfl
    · exact h1
    · exact ⟨_, by simpa [Vals.get] using (by assumption), ne_of_gt h2⟩
    · exact ⟨_, by simpa [Vals.get] using (by assumption), ne_of_gt h3⟩
  · obtain ⟨h1, h2, h3, _⟩ := countTotalStart_ok ha
    rcases hg with rfl | rfl | rfl
    · exact h1
    · exact ⟨_, by simpa [Vals.get] using (by assumption), h2⟩
    · exact ⟨_, by simpa [Vals.get] using (by assumption), h3⟩
  · obtain ⟨h1, h2, _⟩ := endStartTotal_ok ha
    rcases hg with rfl | rfl
    · exact h1
    · exact ⟨_, by simpa [Vals.get] using (by assumption), h2⟩
  · obtain ⟨h1, h2, h3, _⟩ := startCountC2c_ok ha
    rcases hg with rfl | rfl | rfl
    · exact h1
    · exact ⟨_, by assumption, h2⟩
    · exact ⟨_, by simpa [Vals.get] using (by assumption), h3⟩
  · obtain ⟨h1, h2, _⟩ := startEndTotal_ok ha
    rcases hg with rfl | rfl
    · exact h1
    · exact ⟨_, by simpa [Vals.get] using (by assumption), h2⟩
  · obtain ⟨h1, h2, h3, _⟩ := totalCountC2c_ok ha
    rcases hg with rfl | rfl | rfl
    · exact h1
    · exact ⟨_, by assumption, h2⟩
    · exact ⟨_, by simpa [Vals.get] using (by assumption), h3⟩
  · obtain ⟨h1, h2, h3, _⟩ := totalStartEnd_ok ha
    rcases hg with rfl | rfl | rfl
    · exact h1
    · exact ⟨_, by simpa [Vals.get] using (by assumption), h2⟩
    · exact ⟨_, by simpa [Vals.get] using (by assumption), h3⟩

end CBV.C03
