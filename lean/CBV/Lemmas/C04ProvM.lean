/-
C04 — wire-level provenance that records the manager (round 6f).  As `Lemmas/C04Prov.lean`, but a chop list evaluated on a
wire must be (part of) the chop list `m (w / 4)` of that wire's own direction: `RealisedIn inp m w s`.  The managers' lists
only grow during `Mesh.grade` (`addChops` appends), so the predicate is monotone in `m` and the invariant
`ProvM st := ∀ w, RealisedIn inp (chopsOf st) w (specOf st w)` goes through every grading step.
-/
import CBV.Lemmas.C04Prov
import CBV.Lemmas.C04Desc

namespace CBV.Prop

inductive RealisedIn (inp : Inp) (m : Nat → List Chop) : Nat → Spec → Prop
  | nil (w : Nat) : RealisedIn inp m w []
  | app {w : Nat} {s : Spec} (cs : List Chop) : (∀ c ∈ cs, c ∈ m (w / 4)) → RealisedIn inp m w s →
      RealisedIn inp m w (s ++ cs.map (secOn inp w))
  | copy {w cw : Nat} {s : Spec} : cw ∈ inp.coinc w → RealisedIn inp m cw s →
      RealisedIn inp m w (if aligned inp cw w then s else invertSpec s)

theorem realisedIn_mono {inp : Inp} {m m' : Nat → List Chop} (hm : ∀ x c, c ∈ m x → c ∈ m' x) {w : Nat} {s : Spec}
    (h : RealisedIn inp m w s) : RealisedIn inp m' w s := by
  induction h with
  | nil w => exact .nil w
  | app cs hcs _ ih => exact .app cs (fun c hc => hm _ c (hcs c hc)) ih
  | copy hc _ ih => exact .copy hc ih

/-- every wire holds a specification realised from the lists `m` -/
def P (inp : Inp) (m : Nat → List Chop) (st : St) : Prop := ∀ w, RealisedIn inp m w (specOf st w)

def ProvM (inp : Inp) (st : St) : Prop := P inp (chopsOf st) st

theorem P_mono {inp : Inp} {m m' : Nat → List Chop} (hm : ∀ x c, c ∈ m x → c ∈ m' x) {st : St} (h : P inp m st) :
    P inp m' st := fun w => realisedIn_mono hm (h w)

theorem P_setSpec {inp : Inp} {m : Nat → List Chop} {st : St} (h : P inp m st) (w : Nat) (s : Spec)
    (hs : RealisedIn inp m w s) : P inp m (setSpec st w s) := by
  intro w'
  rw [specOf_setSpec]
  split
  · next e => rw [e]; exact hs
  · exact h w'

theorem P_gradeChopped {inp : Inp} {m : Nat → List Chop} {st : St} (h : P inp m st) (x : Nat)
    (hm : ∀ c ∈ chopsOf st x, c ∈ m x) : P inp m (gradeChopped inp st x) := by
  intro w
  rw [gradeChopped_spec]
  split
  · next e => exact .app _ (fun c hc => by rw [e]; exact hm c hc) (h w)
  · exact h w

theorem P_copyFold {inp : Inp} {m : Nat → List Chop} (w : Nat) (cs : List Nat) (hcs : ∀ c ∈ cs, c ∈ inp.coinc w) :
    ∀ st : St, P inp m st → P inp m (cs.foldl (fun st cw =>
      if (specOf st cw).isEmpty then st
      else setSpec st w (if aligned inp cw w then specOf st cw else invertSpec (specOf st cw))) st) := by
  induction cs with
  | nil => intro st h; exact h
  | cons c cs ih =>
    intro st h
    simp only [List.foldl]
    have hc : c ∈ inp.coinc w := hcs c (List.mem_cons_self ..)
    have hrest : ∀ c' ∈ cs, c' ∈ inp.coinc w := fun c' hc' => hcs c' (List.mem_cons_of_mem _ hc')
    split
    · exact ih hrest st h
    · exact ih hrest _ (P_setSpec h w _ (.copy hc (h c)))

theorem P_copyWire {inp : Inp} {m : Nat → List Chop} {st : St} (h : P inp m st) (w : Nat) :
    P inp m (copyWire inp st w) := P_copyFold w (inp.coinc w) (fun _ hc => hc) st h

theorem P_fillWire {inp : Inp} {m : Nat → List Chop} {st : St} (h : P inp m st) (x w : Nat) (hx : w / 4 = x)
    (hm : ∀ c ∈ chopsOf st x, c ∈ m x) : P inp m (fillWire inp st x w) := by
  unfold fillWire
  split
  · have := RealisedIn.app (inp := inp) (m := m) (w := w) (chopsOf st x)
      (fun c hc => by rw [hx]; exact hm c hc) (.nil w)
    rw [List.nil_append] at this
    exact P_setSpec h w _ this
  · exact h

theorem P_gradePropagated {inp : Inp} {m : Nat → List Chop} {st : St} (h : P inp m st) (x : Nat)
    (hm : ∀ c ∈ chopsOf st x, c ∈ m x) : P inp m (gradePropagated inp st x) := by
  unfold gradePropagated axisWires
  split
  · exact h
  · simp only [List.foldl]
    have c0 := P_copyWire (P_copyWire (P_copyWire (P_copyWire h (4 * x)) (4 * x + 1)) (4 * x + 2)) (4 * x + 3)
    refine P_fillWire (P_fillWire (P_fillWire (P_fillWire c0 x (4 * x) (by omega) ?_) x (4 * x + 1) (by omega) ?_)
      x (4 * x + 2) (by omega) ?_) x (4 * x + 3) (by omega) ?_ <;>
    · intro c hc
      simp only [fillWire_chops, copyWire_chops] at hc
      exact hm c hc

theorem P_gradeAxis {inp : Inp} {m : Nat → List Chop} {st : St} (h : P inp m st) (x : Nat)
    (hm : ∀ c ∈ chopsOf st x, c ∈ m x) : P inp m (gradeAxis inp st x) := by
  unfold gradeAxis
  split
  · exact P_gradeChopped h x hm
  · exact P_gradePropagated h x hm

theorem provM_gradeBlocks (inp : Inp) : ProvM inp (gradeBlocks inp (init inp)) := by
  have key : ∀ (l : List Nat) (st : St), P inp inp.chops st → (∀ y, chopsOf st y = inp.chops y) →
      P inp inp.chops (l.foldl (gradeAxis inp) st) ∧ ∀ y, chopsOf (l.foldl (gradeAxis inp) st) y = inp.chops y := by
    intro l
    induction l with
    | nil => intro st h hc; exact ⟨h, hc⟩
    | cons x l ih =>
      intro st h hc
      simp only [List.foldl]
      exact ih _ (P_gradeAxis h x (fun c hcc => by rw [← hc x]; exact hcc))
        (fun y => by rw [gradeAxis_chops]; exact hc y)
  obtain ⟨h1, h2⟩ := key (List.range (3 * inp.nBlocks)) (init inp) (fun w => .nil w) (fun _ => rfl)
  unfold ProvM gradeBlocks
  exact P_mono (fun x c hc => by rw [h2 x]; exact hc) h1

theorem axisCopy_provM (inp : Inp) (st st' : St) (x : Nat) (b : Bool) (hi : ProvM inp st)
    (h : axisCopy inp st x = .ok (st', b)) : ProvM inp st' := by
  have step : ∀ cs : List Chop, ProvM inp (gradeAxis inp (addChops st x cs) x) := by
    intro cs
    unfold ProvM
    have hsub : ∀ y c, c ∈ chopsOf st y → c ∈ chopsOf (gradeAxis inp (addChops st x cs) x) y := by
      intro y c hc
      rw [gradeAxis_chops, chopsOf_addChops]
      split
      · next e => rw [e] at hc; exact List.mem_append_left _ hc
      · exact hc
    have h1 : P inp (chopsOf (gradeAxis inp (addChops st x cs) x)) (addChops st x cs) :=
      fun w => realisedIn_mono hsub (hi w)
    exact P_gradeAxis h1 x (fun c hc => by rw [gradeAxis_chops]; exact hc)
  unfold axisCopy at h
  split at h
  · cases h; exact hi
  · split at h
    · cases h; exact hi
    · split at h
      · cases h
      · cases h; exact step _
      · cases h; exact step _

theorem blockCopy_provM (inp : Inp) (st st' : St) (b : Nat) (u : Bool) (hi : ProvM inp st)
    (h : blockCopy inp st b = .ok (st', u)) : ProvM inp st' := by
  unfold blockCopy at h
  split at h
  · cases h; exact hi
  · split at h
    · cases h
    · rename_i r0 h0
      split at h
      · cases h
      · rename_i r1 h1
        split at h
        · cases h
        · rename_i r2 h2
          cases h
          have i0 := axisCopy_provM inp st r0.1 _ r0.2 hi h0
          have i1 := axisCopy_provM inp r0.1 r1.1 _ r1.2 i0 h1
          exact axisCopy_provM inp r1.1 r2.1 _ r2.2 i1 h2

theorem pass_provM (inp : Inp) (wl : List Nat) : ∀ (st : St) (r : St × List Nat × Bool), ProvM inp st →
    pass inp st wl = .ok r → ProvM inp r.1 := by
  induction wl with
  | nil => intro st r hi h; unfold pass at h; cases h; exact hi
  | cons b rest ih =>
    intro st r hi h
    unfold pass at h
    split at h
    · cases h; exact hi
    · split at h
      · cases h
      · rename_i rb hb
        split at h
        · cases h
        · rename_i p hp
          cases h
          exact ih rb.1 p (blockCopy_provM inp st rb.1 b rb.2 hi hb) hp

theorem loop_provM (inp : Inp) : ∀ (fuel : Nat) (st st' : St) (wl : List Nat), ProvM inp st →
    loop inp fuel st wl = .ok st' → ProvM inp st' := by
  intro fuel
  induction fuel with
  | zero => intro st st' wl _ h; unfold loop at h; cases h
  | succ f ih =>
    intro st st' wl hi h
    unfold loop at h
    split at h
    · cases h; exact hi
    · split at h
      · cases h
      · rename_i r hr
        split at h
        · exact ih r.1 st' r.2.1 (pass_provM inp _ st r hi hr) h
        · cases h

theorem run_provM (inp : Inp) (st : St) (h : run inp = .ok st) : ProvM inp st := by
  unfold run at h
  split at h
  · cases h
  · split at h
    · cases h
    · rename_i st0 hl
      split at h
      · cases h
        exact loop_provM inp _ _ st _ (provM_gradeBlocks inp) hl
      · cases h

/-- every section is a chop *of the list of the direction of a wire on the same geometric edge*, evaluated on that wire -/
theorem realisedIn_sections {inp : Inp} {m : Nat → List Chop} {w : Nat} {s : Spec} (h : RealisedIn inp m w s) :
    ∀ d ∈ s, ∃ (c : Chop) (w0 : Nat) (k : Nat), SameEdge inp w w0 ∧ c ∈ m (w0 / 4) ∧ d = flipN k (secOn inp w0 c) := by
  induction h with
  | nil w => intro d hd; cases hd
  | app cs hcs _ ih =>
    intro d hd
    rcases List.mem_append.mp hd with hd | hd
    · exact ih d hd
    · obtain ⟨c, hc, rfl⟩ := List.mem_map.mp hd
      exact ⟨c, _, 0, .refl _, hcs c hc, rfl⟩
  | @copy w cw s hc _ ih =>
    intro d hd
    split at hd
    · obtain ⟨c, w0, k, he, hm, rfl⟩ := ih d hd
      exact ⟨c, w0, k, .step hc he, hm, rfl⟩
    · obtain ⟨d0, hd0, rfl⟩ := mem_invertSpec hd
      obtain ⟨c, w0, k, he, hm, rfl⟩ := ih d0 hd0
      exact ⟨c, w0, k + 1, .step hc he, hm, rfl⟩

theorem flipN_count (k : Nat) (d : Sec) : (flipN k d).count = d.count ∧ (flipN k d).ratio = d.ratio := by
  induction k with
  | zero => exact ⟨rfl, rfl⟩
  | succ k ih => exact ih

end CBV.Prop
