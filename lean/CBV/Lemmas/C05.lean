/-
C05 — helper lemmas: the sort, the invariant of `VertexList` under `add(point, list)`.
-/
import CBV.Model.C05
import Mathlib.Data.List.Sort
import Mathlib.Order.Basic

set_option linter.unusedSectionVars false

namespace CBV.C05

/-! ### sort -/

section SortLemmas
variable {N : Type} [LinearOrder N]

theorem orderedInsert_eq (a : N) (l : List N) : orderedInsert a l = List.orderedInsert (· ≤ ·) a l := by
  induction l with
  | nil => rfl
  | cons b l ih => simp only [orderedInsert, List.orderedInsert_cons, ih]

theorem sort_eq_insertionSort (l : List N) : sort l = l.insertionSort (· ≤ ·) := by
  induction l with
  | nil => rfl
  | cons a l ih =>
    have : sort (a :: l) = orderedInsert a (sort l) := rfl
    rw [this, ih, orderedInsert_eq, List.insertionSort_cons]

theorem sort_perm (l : List N) : (sort l).Perm l := by
  rw [sort_eq_insertionSort]; exact List.perm_insertionSort _ l

theorem sort_pairwise (l : List N) : (sort l).Pairwise (· ≤ ·) := by
  rw [sort_eq_insertionSort]; exact List.pairwise_insertionSort _ l

theorem mem_sort {l : List N} {x : N} : x ∈ sort l ↔ x ∈ l := (sort_perm l).mem_iff

/-- sorting forgets exactly the order -/
theorem sort_eq_sort_iff (l₁ l₂ : List N) : sort l₁ = sort l₂ ↔ l₁.Perm l₂ := by
  constructor
  · intro h
    exact (sort_perm l₁).symm.trans (h ▸ sort_perm l₂)
  · intro h
    apply List.Perm.eq_of_pairwise (le := (· ≤ ·)) (fun a b _ _ hab hba => le_antisymm hab hba)
      (sort_pairwise l₁) (sort_pairwise l₂)
    exact (sort_perm l₁).trans (h.trans (sort_perm l₂).symm)

theorem sort_eq_sort_iff_of_nodup {l₁ l₂ : List N} (h₁ : l₁.Nodup) (h₂ : l₂.Nodup) :
    sort l₁ = sort l₂ ↔ ∀ x, x ∈ l₁ ↔ x ∈ l₂ := by
  rw [sort_eq_sort_iff, List.perm_ext_iff_of_nodup h₁ h₂]

end SortLemmas

/-! ### dedupe -/

section Dedupe
variable {N : Type} [DecidableEq N]

theorem mem_dedupe {l : List N} {x : N} : x ∈ dedupe l ↔ x ∈ l := by
  induction l with
  | nil => simp [dedupe]
  | cons a l ih =>
    unfold dedupe
    split
    · rw [ih]; constructor
      · exact List.mem_cons_of_mem _
      · intro h; rcases List.mem_cons.mp h with rfl | h
        · assumption
        · exact h
    · simp [ih]

theorem nodup_dedupe (l : List N) : (dedupe l).Nodup := by
  induction l with
  | nil => simp [dedupe]
  | cons a l ih =>
    unfold dedupe
    split
    · exact ih
    · rename_i h
      exact List.nodup_cons.mpr ⟨fun hm => h (mem_dedupe.mp hm), ih⟩

end Dedupe

/-! ### the invariant of `VertexList` when only `add(point, list)` is used (what `Mesh` does) -/

section Invariant
variable {P N : Type} [DecidableEq N] [LinearOrder N] (close : P → P → Bool)

/-- `close` (python: `norm(p - q) < TOL`) is an equivalence on the points `S` that occur in the
    assembly (it is not one on all of space: the hypothesis says that the points form clusters) -/
structure CloseEquivOn (S : P → Prop) : Prop where
  refl : ∀ p, S p → close p p = true
  symm : ∀ p q, S p → S q → close p q = true → close q p = true
  trans : ∀ p q r, S p → S q → S r → close p q = true → close q r = true → close p r = true

/-- the registry entry `d` answers the request (position, sorted names) -/
def KeyMatch (p : P) (sp : List N) (d : Dup P N) : Prop :=
  close p d.vertex.pos = true ∧ d.patches = sp

/-- invariant: every vertex is registered, the index is the position, keys are pairwise different -/
structure Inv (S : P → Prop) (vl : VList P N) : Prop where
  inS : ∀ d ∈ vl.duplicated, S d.vertex.pos
  reg : vl.duplicated.map Dup.vertex = vl.vertices
  dense : ∀ (i : Nat) (d : Dup P N), vl.duplicated[i]? = some d → d.vertex.index = i
  distinct : vl.duplicated.Pairwise
    (fun (d e : Dup P N) => ¬ (close d.vertex.pos e.vertex.pos = true ∧ d.patches = e.patches))

theorem inv_empty (S : P → Prop) : Inv close S ({} : VList P N) := ⟨by simp, rfl, by simp, by simp⟩

/-- `vl'` extends `vl` (nothing is ever removed or renumbered) -/
def Ext (vl vl' : VList P N) : Prop := ∃ suf, vl'.duplicated = vl.duplicated ++ suf

theorem Ext.refl (vl : VList P N) : Ext vl vl := ⟨[], by simp⟩
theorem Ext.trans {a b c : VList P N} (h₁ : Ext a b) (h₂ : Ext b c) : Ext a c := by
  obtain ⟨s₁, h₁⟩ := h₁; obtain ⟨s₂, h₂⟩ := h₂
  exact ⟨s₁ ++ s₂, by rw [h₂, h₁, List.append_assoc]⟩
theorem Ext.mem {a b : VList P N} (h : Ext a b) {d : Dup P N} (hd : d ∈ a.duplicated) : d ∈ b.duplicated := by
  obtain ⟨s, h⟩ := h; rw [h]; exact List.mem_append_left _ hd

/-- the vertex `v` handed back for the call `(p, s)` is registered under the call's key -/
def Placed (vl : VList P N) (call : P × List N) (v : Vertex P) : Prop :=
  ∃ d ∈ vl.duplicated, d.vertex = v ∧ KeyMatch close call.1 (sort call.2) d

theorem Placed.mono {a b : VList P N} (h : Ext a b) {call : P × List N} {v : Vertex P}
    (hp : Placed close a call v) : Placed close b call v := by
  obtain ⟨d, hd, h1, h2⟩ := hp
  exact ⟨d, h.mem hd, h1, h2⟩

theorem add_some_eq (vl : VList P N) (p : P) (s : List N) :
    add close vl p (some s) =
      match findDuplicated close vl p (sort s) with
      | some v => (vl, v)
      | none => ({ vertices := vl.vertices ++ [newVertex vl p],
                   duplicated := vl.duplicated ++ [⟨newVertex vl p, sort s⟩] }, newVertex vl p) := rfl

theorem add_some_spec {S : P → Prop} (hc : CloseEquivOn close S) {vl : VList P N} (hi : Inv close S vl)
    (p : P) (hp : S p) (s : List N) :
    Inv close S (add close vl p (some s)).1 ∧ Ext vl (add close vl p (some s)).1 ∧
      Placed close (add close vl p (some s)).1 (p, s) (add close vl p (some s)).2 := by
  rw [add_some_eq]
  cases hf : findDuplicated close vl p (sort s) with
  | some v =>
    refine ⟨hi, Ext.refl _, ?_⟩
    unfold findDuplicated at hf
    rw [Option.map_eq_some_iff] at hf
    obtain ⟨d, hd, rfl⟩ := hf
    have hm := List.mem_of_find?_eq_some hd
    have hp := List.find?_some hd
    simp only [Bool.and_eq_true, decide_eq_true_eq] at hp
    exact ⟨d, hm, rfl, hp.1, hp.2⟩
  | none =>
    unfold findDuplicated at hf
    rw [Option.map_eq_none_iff, List.find?_eq_none] at hf
    have hlen : vl.duplicated.length = vl.vertices.length := by rw [← hi.reg, List.length_map]
    refine ⟨⟨?_, ?_, ?_, ?_⟩, ⟨[⟨newVertex vl p, sort s⟩], rfl⟩, ?_⟩
    · intro d hd
      rcases List.mem_append.mp hd with hd | hd
      · exact hi.inS d hd
      · simp only [List.mem_singleton] at hd; subst hd; exact hp
    · simp [hi.reg]
    · intro i d hd
      rw [List.getElem?_append] at hd
      split at hd
      · exact hi.dense i d hd
      · rename_i hlt
        have : i - vl.duplicated.length = 0 := by
          cases h : i - vl.duplicated.length with
          | zero => rfl
          | succ k => rw [h] at hd; simp at hd
        rw [this] at hd
        simp only [List.getElem?_cons_zero, Option.some.injEq] at hd
        subst hd
        simp only [newVertex]
        omega
    · rw [List.pairwise_append]
      refine ⟨hi.distinct, by simp, ?_⟩
      intro d hd e he
      simp only [List.mem_singleton] at he
      subst he
      intro ⟨h1, h2⟩
      have := hf d hd
      simp only [Bool.and_eq_true, decide_eq_true_eq, not_and] at this
      exact this (hc.symm _ _ (hi.inS d hd) hp h1) h2
    · exact ⟨⟨newVertex vl p, sort s⟩, by simp, rfl, hc.refl p hp, rfl⟩

/-- zip-wise statement about a run of `add(point, list)` calls -/
theorem runAdds_spec {S : P → Prop} (hc : CloseEquivOn close S) (calls : List (P × List N)) :
    ∀ {vl : VList P N}, Inv close S vl → (∀ c ∈ calls, S c.1) →
      Inv close S (runAdds close vl calls).1 ∧ Ext vl (runAdds close vl calls).1 ∧
      (runAdds close vl calls).2.length = calls.length ∧
      ∀ x ∈ calls.zip (runAdds close vl calls).2, Placed close (runAdds close vl calls).1 x.1 x.2 := by
  induction calls with
  | nil => intro vl hi _; exact ⟨hi, Ext.refl _, rfl, by simp [runAdds]⟩
  | cons c rest ih =>
    intro vl hi hS
    obtain ⟨p, s⟩ := c
    obtain ⟨h1, h2, h3⟩ := add_some_spec close hc hi p (hS (p, s) List.mem_cons_self) s
    obtain ⟨k1, k2, k3, k4⟩ := ih h1 (fun c hcm => hS c (List.mem_cons_of_mem _ hcm))
    simp only [runAdds]
    refine ⟨k1, h2.trans k2, by simp [k3], ?_⟩
    intro x hx
    simp only [List.zip_cons_cons, List.mem_cons] at hx
    rcases hx with rfl | hx
    · exact h3.mono close k2
    · exact k4 x hx

theorem cornerCalls_fst {slaves : List N} {op : Op P N} {c : P × List N} (h : c ∈ cornerCalls slaves op) :
    c.1 ∈ op.pts := by
  unfold cornerCalls at h
  rw [List.mem_map] at h
  obtain ⟨⟨p, k⟩, hm, rfl⟩ := h
  exact (List.mem_zipIdx hm).2.2 ▸ List.getElem_mem _

/-- zip-wise statement about the vertex part of `Mesh.assemble` -/
theorem assemble_spec {S : P → Prop} (hc : CloseEquivOn close S) (slaves : List N) (ops : List (Op P N)) :
    ∀ {vl : VList P N}, Inv close S vl → (∀ op ∈ ops, ∀ p ∈ op.pts, S p) →
      Inv close S (assemble close slaves vl ops).1 ∧ Ext vl (assemble close slaves vl ops).1 ∧
      (assemble close slaves vl ops).2.length = ops.length ∧
      ∀ b ∈ ops.zip (assemble close slaves vl ops).2,
        b.2.length = (cornerCalls slaves b.1).length ∧
        ∀ x ∈ (cornerCalls slaves b.1).zip b.2, Placed close (assemble close slaves vl ops).1 x.1 x.2 := by
  induction ops with
  | nil => intro vl hi _; exact ⟨hi, Ext.refl _, rfl, by simp [assemble]⟩
  | cons op rest ih =>
    intro vl hi hS
    obtain ⟨h1, h2, h3, h4⟩ := runAdds_spec close hc (cornerCalls slaves op) hi
      (fun c hcm => hS op List.mem_cons_self _ (cornerCalls_fst hcm))
    obtain ⟨k1, k2, k3, k4⟩ := ih (vl := (addVertices close slaves vl op).1) h1
      (fun o ho => hS o (List.mem_cons_of_mem _ ho))
    simp only [assemble]
    refine ⟨k1, h2.trans k2, by simp [k3], ?_⟩
    intro b hb
    simp only [List.zip_cons_cons, List.mem_cons] at hb
    rcases hb with rfl | hb
    · exact ⟨h3, fun x hx => (h4 x hx).mono close k2⟩
    · exact k4 b hb

/-- entries of the registry with the same vertex index are the same entry -/
theorem Inv.entry_of_index {S : P → Prop} {vl : VList P N} (hi : Inv close S vl) {d e : Dup P N}
    (hd : d ∈ vl.duplicated) (he : e ∈ vl.duplicated) (h : d.vertex.index = e.vertex.index) : d = e := by
  obtain ⟨i, hi'⟩ := List.mem_iff_getElem?.mp hd
  obtain ⟨j, hj'⟩ := List.mem_iff_getElem?.mp he
  have := hi.dense i d hi'
  have := hi.dense j e hj'
  have hij : i = j := by omega
  subst hij
  rw [hi'] at hj'
  exact Option.some.inj hj'

theorem pairwise_mem {α : Type} {R : α → α → Prop} {l : List α} (h : l.Pairwise R) {a b : α}
    (ha : a ∈ l) (hb : b ∈ l) : a = b ∨ R a b ∨ R b a := by
  induction l with
  | nil => simp at ha
  | cons x l ih =>
    rw [List.pairwise_cons] at h
    rcases List.mem_cons.mp ha with rfl | ha' <;> rcases List.mem_cons.mp hb with rfl | hb'
    · left; rfl
    · right; left; exact h.1 b hb'
    · right; right; exact h.1 a ha'
    · exact ih h.2 ha' hb'

/-- entries of the registry with matching keys are the same entry -/
theorem Inv.entry_of_key {S : P → Prop} (hc : CloseEquivOn close S) {vl : VList P N} (hi : Inv close S vl)
    {d e : Dup P N} (hd : d ∈ vl.duplicated) (he : e ∈ vl.duplicated)
    (h1 : close d.vertex.pos e.vertex.pos = true) (h2 : d.patches = e.patches) : d = e := by
  rcases pairwise_mem hi.distinct hd he with h | h | h
  · exact h
  · exact absurd ⟨h1, h2⟩ h
  · exact absurd ⟨hc.symm _ _ (hi.inS d hd) (hi.inS e he) h1, h2.symm⟩ h

/-- the core of the property: two calls get the same vertex iff their keys agree -/
theorem placed_same_iff {S : P → Prop} (hc : CloseEquivOn close S) {vl : VList P N} (hi : Inv close S vl)
    {c₁ c₂ : P × List N} (hs₁ : S c₁.1) (hs₂ : S c₂.1) {v₁ v₂ : Vertex P}
    (h₁ : Placed close vl c₁ v₁) (h₂ : Placed close vl c₂ v₂) :
    v₁.index = v₂.index ↔ (close c₁.1 c₂.1 = true ∧ sort c₁.2 = sort c₂.2) := by
  obtain ⟨d₁, hd₁, rfl, hk₁, hp₁⟩ := h₁
  obtain ⟨d₂, hd₂, rfl, hk₂, hp₂⟩ := h₂
  have s₁ := hi.inS d₁ hd₁
  have s₂ := hi.inS d₂ hd₂
  constructor
  · intro h
    have := hi.entry_of_index close hd₁ hd₂ h
    subst this
    exact ⟨hc.trans _ _ _ hs₁ s₁ hs₂ hk₁ (hc.symm _ _ hs₂ s₁ hk₂), hp₁.symm.trans hp₂⟩
  · intro ⟨h1, h2⟩
    have : d₁ = d₂ := by
      apply hi.entry_of_key close hc hd₁ hd₂
      · exact hc.trans _ _ _ s₁ hs₁ s₂ (hc.symm _ _ hs₁ s₁ hk₁) (hc.trans _ _ _ hs₁ hs₂ s₂ h1 hk₂)
      · rw [hp₁, hp₂, h2]
    rw [this]

end Invariant

/-! ### helpers of the property theorems -/

section PropsHelpers
variable {P N : Type} [DecidableEq N] [LinearOrder N] (close : P → P → Bool)

/-- `vertices[i].index = i` -/
def Dense (vl : VList P N) : Prop := ∀ (i : Nat) (v : Vertex P), vl.vertices[i]? = some v → v.index = i

theorem dense_append {vl : VList P N} (h : Dense vl) (p : P) (ds : List (Dup P N)) :
    Dense ({ vertices := vl.vertices ++ [newVertex vl p], duplicated := ds } : VList P N) := by
  intro i v hv
  simp only at hv
  rw [List.getElem?_append] at hv
  split at hv
  · exact h i v hv
  · have : i - vl.vertices.length = 0 := by
      cases hk : i - vl.vertices.length with
      | zero => rfl
      | succ k => rw [hk] at hv; simp at hv
    rw [this] at hv
    simp only [List.getElem?_cons_zero, Option.some.injEq] at hv
    subst hv
    simp only [newVertex]
    omega

theorem add_dense {vl : VList P N} (h : Dense vl) (p : P) (s : Option (List N)) :
    Dense (add close vl p s).1 := by
  cases s with
  | none =>
    simp only [add]
    split
    · split
      · exact dense_append h p _
      · exact h
    · exact dense_append h p _
  | some s =>
    rw [add_some_eq]
    split
    · exact h
    · exact dense_append h p _


theorem dense_empty : Dense ({} : VList P N) := by intro i v h; simp at h


theorem cornerCalls_get (slaves : List N) (op : Op P N) (c : Nat) :
    (cornerCalls slaves op)[c]? = (op.pts[c]?).map (fun p => (p, slaveSet slaves op c)) := by
  unfold cornerCalls
  rw [List.getElem?_map, List.getElem?_zipIdx]
  cases op.pts[c]? <;> simp

/-- what `assemble` says about one corner: the vertex of corner `c` of block `i` -/
def vertexAt (blocks : List (List (Vertex P))) (i c : Nat) : Option (Vertex P) :=
  (blocks[i]?).bind (·[c]?)

theorem placed_of_vertexAt {S : P → Prop} (hc : CloseEquivOn close S) (slaves : List N) (ops : List (Op P N))
    (hS : ∀ op ∈ ops, ∀ p ∈ op.pts, S p) {i c : Nat} {o : Op P N} {p : P} {v : Vertex P}
    (ho : ops[i]? = some o) (hp : o.pts[c]? = some p)
    (hv : vertexAt (assemble close slaves {} ops).2 i c = some v) :
    Placed close (assemble close slaves {} ops).1 (p, slaveSet slaves o c) v := by
  obtain ⟨_, _, _, h4⟩ := assemble_spec close hc slaves ops (inv_empty close S) hS
  unfold vertexAt at hv
  cases hb : (assemble close slaves {} ops).2[i]? with
  | none => rw [hb] at hv; simp at hv
  | some vs =>
    rw [hb] at hv
    simp only [Option.bind_some] at hv
    have mb : (o, vs) ∈ ops.zip (assemble close slaves {} ops).2 :=
      List.mem_of_getElem? (List.getElem?_zip_eq_some.mpr ⟨ho, hb⟩)
    obtain ⟨_, k⟩ := h4 _ mb
    have hcall : (cornerCalls slaves o)[c]? = some (p, slaveSet slaves o c) := by
      rw [cornerCalls_get, hp]; rfl
    have mz : ((p, slaveSet slaves o c), v) ∈ (cornerCalls slaves o).zip vs :=
      List.mem_of_getElem? (i := c) (List.getElem?_zip_eq_some.mpr ⟨hcall, hv⟩)
    exact k _ mz


/-- equality of location numbers is an equivalence -/
theorem closeEquiv_eq : CloseEquivOn (fun (a b : Nat) => a == b) (fun _ => True) :=
  ⟨by simp, by simp, by intro p q r _ _ _ h1 h2; simp at *; omega⟩


def closeEquivCheck (pts : List V3) : Bool :=
  pts.all (fun p => closeV3 p p) &&
  pts.all (fun p => pts.all (fun q => !closeV3 p q || closeV3 q p)) &&
  pts.all (fun p => pts.all (fun q => pts.all (fun r => !(closeV3 p q && closeV3 q r) || closeV3 p r)))

theorem closeEquivOn_of_check (pts : List V3) (h : closeEquivCheck pts = true) :
    CloseEquivOn closeV3 (· ∈ pts) := by
  simp only [closeEquivCheck, Bool.and_eq_true, List.all_eq_true, Bool.or_eq_true, Bool.not_eq_true',
    Bool.and_eq_false_iff] at h
  obtain ⟨⟨h1, h2⟩, h3⟩ := h
  refine ⟨h1, ?_, ?_⟩
  · intro p q hp hq hpq
    rcases h2 p hp q hq with h | h
    · rw [h] at hpq; cases hpq
    · exact h
  · intro p q r hp hq hr hpq hqr
    rcases h3 p hp q hq r hr with h | h
    · rcases h with h | h
      · rw [h] at hpq; cases hpq
      · rw [h] at hqr; cases hqr
    · exact h


/-- every corner has a vertex (totality: the statement above is not vacuous) -/
theorem vertexAt_total {S : P → Prop} (hc : CloseEquivOn close S) (slaves : List N) (ops : List (Op P N))
    (hS : ∀ op ∈ ops, ∀ p ∈ op.pts, S p) (i c : Nat) (o : Op P N) (p : P)
    (ho : ops[i]? = some o) (hp : o.pts[c]? = some p) :
    ∃ v, vertexAt (assemble close slaves {} ops).2 i c = some v := by
  obtain ⟨_, _, h3, h4⟩ := assemble_spec close hc slaves ops (inv_empty close S) hS
  have hlt : i < (assemble close slaves {} ops).2.length := by
    rw [h3]; exact (List.getElem?_eq_some_iff.mp ho).1
  have hb : (assemble close slaves {} ops).2[i]? = some (assemble close slaves {} ops).2[i] :=
    List.getElem?_eq_getElem hlt
  have mb : (o, (assemble close slaves {} ops).2[i]) ∈ ops.zip (assemble close slaves {} ops).2 :=
    List.mem_of_getElem? (i := i) (List.getElem?_zip_eq_some.mpr ⟨ho, hb⟩)
  obtain ⟨hl, _⟩ := h4 _ mb
  simp only at hl
  have hcl : c < (assemble close slaves {} ops).2[i].length := by
    rw [hl]
    have := cornerCalls_get slaves o c
    rw [hp] at this
    exact (List.getElem?_eq_some_iff.mp this).1
  exact ⟨_, by unfold vertexAt; rw [hb]; simp only [Option.bind_some]; exact List.getElem?_eq_getElem hcl⟩

/-- the vertex of a corner sits at the corner (within the tolerance) -/
theorem vertexAt_position {S : P → Prop} (hc : CloseEquivOn close S) (slaves : List N) (ops : List (Op P N))
    (hS : ∀ op ∈ ops, ∀ p ∈ op.pts, S p) (i c : Nat) (o : Op P N) (p : P) (v : Vertex P)
    (ho : ops[i]? = some o) (hp : o.pts[c]? = some p)
    (hv : vertexAt (assemble close slaves {} ops).2 i c = some v) :
    close p v.pos = true := by
  obtain ⟨d, _, rfl, hk, _⟩ := placed_of_vertexAt close hc slaves ops hS ho hp hv
  exact hk


end PropsHelpers

/-! ### histories -/

section HistLemmas
variable {P N : Type} [DecidableEq N] [LE N] [DecidableLE N] (close : P → P → Bool)

theorem runHist_append (a b : List (Step P N)) : ∀ (st : MeshSt P N),
    runHist close st (a ++ b) =
      ((runHist close (runHist close st a).1 b).1, (runHist close st a).2 ++ (runHist close (runHist close st a).1 b).2) := by
  induction a with
  | nil => intro st; simp [runHist]
  | cons s rest ih =>
    intro st
    cases s <;> simp [runHist, ih]

theorem runHist_decl (steps : List (Step P N)) : ∀ (st : MeshSt P N),
    (runHist close st steps).1.depot = st.depot ++ addsOf steps ∧
    (runHist close st steps).1.merged = st.merged ++ mergesOf steps := by
  induction steps with
  | nil => intro st; simp [runHist, addsOf, mergesOf]
  | cons s rest ih =>
    intro st
    cases s <;> simp [runHist, MeshSt.step, addsOf, mergesOf, ih]

theorem runHist_noAssemble (steps : List (Step P N)) (h : noAssemble steps = true) : ∀ (st : MeshSt P N),
    st.vl.vertices = [] → st.vl.duplicated = [] → st.blocks = [] →
    (runHist close st steps).1.vl.vertices = [] ∧ (runHist close st steps).1.vl.duplicated = [] ∧
    (runHist close st steps).1.blocks = [] ∧ (runHist close st steps).2 = [] := by
  induction steps with
  | nil => intro st h1 h2 h3; exact ⟨h1, h2, h3, rfl⟩
  | cons s rest ih =>
    intro st h1 h2 h3
    cases s with
    | assemble => simp [noAssemble] at h
    | add op =>
      have := ih (by simpa [noAssemble] using h) (st.step close (Step.add op)) h1 h2 h3
      simpa [runHist] using this
    | merge m sl =>
      have := ih (by simpa [noAssemble] using h) (st.step close (Step.merge m sl)) h1 h2 h3
      simpa [runHist] using this
    | query =>
      have := ih (by simpa [noAssemble] using h) (st.step close (Step.query)) h1 h2 h3
      simpa [runHist] using this
    | clear =>
      have := ih (by simpa [noAssemble] using h) (st.step close Step.clear) rfl rfl rfl
      simpa [runHist] using this

theorem addsOf_append (a b : List (Step P N)) : addsOf (a ++ b) = addsOf a ++ addsOf b := by
  induction a with
  | nil => rfl
  | cons s rest ih => cases s <;> simp [addsOf, ih]

theorem mergesOf_append (a b : List (Step P N)) : mergesOf (a ++ b) = mergesOf a ++ mergesOf b := by
  induction a with
  | nil => rfl
  | cons s rest ih => cases s <;> simp [mergesOf, ih]

/-- what the last `assemble` of `h ++ [clear] ++ mid ++ [assemble]` leaves behind -/
theorem runHist_reassemble (h mid : List (Step P N)) (hm : noAssemble mid = true) :
    (runHist close {} (h ++ [Step.clear] ++ mid ++ [Step.assemble])).2.getLast? =
      some (assemble close (slavePatches (mergesOf (h ++ mid))) {} (addsOf (h ++ mid))) := by
  rw [runHist_append, runHist_append, runHist_append]
  obtain ⟨d1, m1⟩ := runHist_decl close h ({} : MeshSt P N)
  generalize hst : (runHist close ({} : MeshSt P N) h).1 = st1 at d1 m1 ⊢
  have hc : (runHist close st1 [Step.clear]).1 = { st1 with vl := {}, blocks := [] } := by simp [runHist, MeshSt.step]
  rw [hc]
  obtain ⟨d2, m2⟩ := runHist_decl close mid { st1 with vl := {}, blocks := [] }
  obtain ⟨v1, v2, v3, _⟩ := runHist_noAssemble close mid hm { st1 with vl := {}, blocks := [] } rfl rfl rfl
  generalize (runHist close { st1 with vl := {}, blocks := [] } mid).1 = st2 at d2 m2 v1 v2 v3 ⊢
  have hvl : st2.vl = {} := by
    cases hv : st2.vl with
    | mk vs ds => rw [hv] at v1 v2; simp at v1 v2; subst v1; subst v2; rfl
  simp only [runHist, MeshSt.step, List.getLast?_append, List.getLast?_singleton, hvl, v3,
    List.nil_append]
  simp only [d2, m2, d1, m1, addsOf_append, mergesOf_append]
  simp

end HistLemmas

end CBV.C05
