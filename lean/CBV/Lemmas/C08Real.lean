/-
C08 — lemmas for the statements over ℝ (round 6): points of a circle in an orthonormal frame of its plane, the
circumcentre, the real-number image of the float part of `arc_length_3point` (`sqrt`, `np.clip`, `arccos`, side test).

* `comb e1 e2 x y = x·e1 + y·e2`, `circPt C e1 e2 x y = C + x·e1 + y·e2`; algebra of dot / cross products of such
  combinations in a frame (`Frame`: unit, orthogonal) — over every ordered field.
* `arc3LengthR`: the model function `arc3` with `Float.sqrt / Float.acos / clip` replaced by `Real.sqrt / Real.arccos / clipR`;
  the exact part (`arc3Centre`, `arc3SideTest`, the radius vectors) is the *same generic definition* the driver executes over ℚ.
-/
import CBV.Lemmas.C08
import Mathlib.Analysis.SpecialFunctions.Trigonometric.Inverse

namespace CBV.C08
open Vec

section frame
variable {K : Type} [Field K] [LinearOrder K] [IsStrictOrderedRing K]
set_option linter.unusedSectionVars false

/-- `x·e1 + y·e2` -/
def comb (e1 e2 : Vec K) (x y : K) : Vec K := add (smul x e1) (smul y e2)

/-- `C + x·e1 + y·e2` -/
def circPt (C e1 e2 : Vec K) (x y : K) : Vec K := add C (comb e1 e2 x y)

/-- an orthonormal pair spanning the plane of the circle -/
structure Frame (e1 e2 : Vec K) : Prop where
  n1 : nsq e1 = 1
  n2 : nsq e2 = 1
  d12 : dot e1 e2 = 0

theorem sub_circPt_C (C e1 e2 : Vec K) (x y : K) : sub (circPt C e1 e2 x y) C = comb e1 e2 x y := by
  apply Vec.ext' <;> simp only [circPt, comb, sub, add, smul] <;> ring

theorem sub_C_circPt (C e1 e2 : Vec K) (x y : K) : sub C (circPt C e1 e2 x y) = comb e1 e2 (-x) (-y) := by
  apply Vec.ext' <;> simp only [circPt, comb, sub, add, smul] <;> ring

theorem sub_circPt (C e1 e2 : Vec K) (x y u v : K) :
    sub (circPt C e1 e2 x y) (circPt C e1 e2 u v) = comb e1 e2 (x - u) (y - v) := by
  apply Vec.ext' <;> simp only [circPt, comb, sub, add, smul] <;> ring

theorem midPoint_circPt (C e1 e2 : Vec K) (x y u v : K) :
    midPoint (circPt C e1 e2 x y) (circPt C e1 e2 u v) = circPt C e1 e2 ((x + u) / 2) ((y + v) / 2) := by
  apply Vec.ext' <;> simp only [circPt, comb, midPoint, add, smul] <;> ring

theorem circPt_add_smul (C e1 e2 : Vec K) (x y k u v : K) :
    add (circPt C e1 e2 x y) (smul k (comb e1 e2 u v)) = circPt C e1 e2 (x + k * u) (y + k * v) := by
  apply Vec.ext' <;> simp only [circPt, comb, add, smul] <;> ring

theorem circPt_sub_smul (C e1 e2 : Vec K) (x y k u v : K) :
    sub (circPt C e1 e2 x y) (smul k (comb e1 e2 u v)) = circPt C e1 e2 (x - k * u) (y - k * v) := by
  apply Vec.ext' <;> simp only [circPt, comb, sub, add, smul] <;> ring

theorem circPt_zero (C e1 e2 : Vec K) : circPt C e1 e2 0 0 = C := by
  apply Vec.ext' <;> simp only [circPt, comb, add, smul] <;> ring

theorem dot_comb {e1 e2 : Vec K} (hF : Frame e1 e2) (x y u v : K) :
    dot (comb e1 e2 x y) (comb e1 e2 u v) = x * u + y * v := by
  have h : dot (comb e1 e2 x y) (comb e1 e2 u v)
      = x * u * nsq e1 + (x * v + y * u) * dot e1 e2 + y * v * nsq e2 := by
    simp only [comb, nsq, dot, add, smul]; ring
  rw [h, hF.n1, hF.n2, hF.d12]; ring

theorem nsq_comb {e1 e2 : Vec K} (hF : Frame e1 e2) (x y : K) : nsq (comb e1 e2 x y) = x * x + y * y :=
  dot_comb hF x y x y

/-- the cross product of two vectors of the plane is a multiple of the normal `e1 × e2` (no frame hypothesis needed) -/
theorem cross_comb (e1 e2 : Vec K) (x y u v : K) :
    cross (comb e1 e2 x y) (comb e1 e2 u v) = smul (x * v - y * u) (cross e1 e2) := by
  apply Vec.ext' <;> simp only [comb, cross, add, smul] <;> ring

theorem nsq_cross_frame {e1 e2 : Vec K} (hF : Frame e1 e2) : nsq (cross e1 e2) = 1 := by
  have h : nsq (cross e1 e2) = nsq e1 * nsq e2 - dot e1 e2 * dot e1 e2 := by
    simp only [nsq, dot, cross]; ring
  rw [h, hF.n1, hF.n2, hF.d12]; ring

theorem dot_smul_n {e1 e2 : Vec K} (hF : Frame e1 e2) (a b : K) :
    dot (smul a (cross e1 e2)) (smul b (cross e1 e2)) = a * b := by
  have h : dot (smul a (cross e1 e2)) (smul b (cross e1 e2)) = a * b * nsq (cross e1 e2) := by
    simp only [nsq, dot, smul]; ring
  rw [h, nsq_cross_frame hF]; ring

theorem dot_comb_n (e1 e2 : Vec K) (x y : K) : dot (comb e1 e2 x y) (cross e1 e2) = 0 := by
  simp only [comb, dot, cross, add, smul]; ring

theorem dot_comb_smul_n (e1 e2 : Vec K) (x y k : K) : dot (comb e1 e2 x y) (smul k (cross e1 e2)) = 0 := by
  simp only [comb, dot, cross, add, smul]; ring

/-- `(x·e1 + y·e2) × (e1 × e2) = y·e1 − x·e2` in a frame -/
theorem cross_comb_n {e1 e2 : Vec K} (hF : Frame e1 e2) (x y : K) :
    cross (comb e1 e2 x y) (cross e1 e2) = comb e1 e2 y (-x) := by
  have h : cross (comb e1 e2 x y) (cross e1 e2)
      = comb e1 e2 (x * dot e1 e2 + y * nsq e2) (-(x * nsq e1) - y * dot e1 e2) := by
    apply Vec.ext' <;> simp only [comb, nsq, dot, cross, add, smul] <;> ring
  rw [h, hF.n1, hF.n2, hF.d12]
  apply Vec.ext' <;> simp only [comb, add, smul] <;> ring

theorem smul_comb (e1 e2 : Vec K) (k x y : K) : smul k (comb e1 e2 x y) = comb e1 e2 (k * x) (k * y) := by
  apply Vec.ext' <;> simp only [comb, add, smul] <;> ring

theorem arc3Denom_eq (pS pB pE : Vec K) :
    arc3Denom pS pB pE = nsq (cross (sub pB pS) (sub pE pS)) := by
  simp only [arc3Denom, nsq, dot, cross]; ring

theorem smul_eq_zero_vec {k : K} {w : Vec K} (hk : k ≠ 0) (h : smul k w = ⟨0, 0, 0⟩) : w = ⟨0, 0, 0⟩ := by
  have hx := congrArg Vec.x h
  have hy := congrArg Vec.y h
  have hz := congrArg Vec.z h
  simp only [smul] at hx hy hz
  apply Vec.ext'
  · exact (mul_eq_zero.mp hx).resolve_left hk
  · exact (mul_eq_zero.mp hy).resolve_left hk
  · exact (mul_eq_zero.mp hz).resolve_left hk

end frame

/-! ### the real-number image of the float part of `arc_length_3point` -/

/-- `np.clip(x, -1.0, 1.0)` as written in the model function `arc3` -/
noncomputable def clipR (x : ℝ) : ℝ := if x < -1 then -1 else if x > 1 then 1 else x

/-- the angle of `arc_length_3point` from the three radius vectors: `arccos(clip(r1·r3 / (|r1| |r3|)))`, replaced by
    `2π − angle` when `dot(cross(r1, r2), cross(r1, r3)) < 0` -/
noncomputable def arc3AngleR (r1 r2 r3 : Vec ℝ) : ℝ :=
  if arc3SideTest r1 r2 r3 < 0
  then 2 * Real.pi - Real.arccos (clipR (dot r1 r3 / (Real.sqrt (nsq r1) * Real.sqrt (nsq r3))))
  else Real.arccos (clipR (dot r1 r3 / (Real.sqrt (nsq r1) * Real.sqrt (nsq r3))))

/-- `angle * norm(radius)` with the radius vectors taken from the centre `C` -/
noncomputable def arc3LengthAt (C pS pB pE : Vec ℝ) : ℝ :=
  arc3AngleR (sub pS C) (sub pB C) (sub pE C) * Real.sqrt (nsq (sub pE C))

/-- `functions.arc_length_3point` over ℝ: the model function `arc3` (same `arc3Centre`, same `arc3SideTest`) with
    `Float.sqrt / clip / Float.acos` replaced by `Real.sqrt / clipR / Real.arccos` -/
noncomputable def arc3LengthR (pS pB pE : Vec ℝ) : ℝ := arc3LengthAt (arc3Centre pS pB pE) pS pB pE

/-- the point of the circle (centre `C`, frame `e1, e2`, radius `r`) at the angle `φ` -/
noncomputable def circAt (C e1 e2 : Vec ℝ) (r φ : ℝ) : Vec ℝ := circPt C e1 e2 (r * Real.cos φ) (r * Real.sin φ)

theorem clipR_cos (θ : ℝ) : clipR (Real.cos θ) = Real.cos θ := by
  unfold clipR
  rw [if_neg (not_lt.mpr (Real.neg_one_le_cos θ)), if_neg (not_lt.mpr (Real.cos_le_one θ))]

theorem arccos_cos_upper {θ : ℝ} (h1 : Real.pi ≤ θ) (h2 : θ ≤ 2 * Real.pi) :
    Real.arccos (Real.cos θ) = 2 * Real.pi - θ := by
  rw [← Real.cos_two_pi_sub θ, Real.arccos_cos (by linarith) (by linarith)]

/-- twice the signed area of the triangle of three circle points, up to `r²`:
    `(cos 2u − 1) sin 2w − sin 2u (cos 2w − 1) = 4 sin u · sin w · sin (w − u)` -/
theorem circ_D (u w : ℝ) :
    (Real.cos (2 * u) - 1) * Real.sin (2 * w) - Real.sin (2 * u) * (Real.cos (2 * w) - 1)
      = 4 * Real.sin u * Real.sin w * Real.sin (w - u) := by
  rw [Real.sin_sub, Real.cos_two_mul, Real.sin_two_mul, Real.sin_two_mul, Real.cos_two_mul]
  have hu := Real.sin_sq_add_cos_sq u
  have hw := Real.sin_sq_add_cos_sq w
  linear_combination (4 * Real.sin w * Real.cos w) * hu - (4 * Real.sin u * Real.cos u) * hw

theorem circ_D_pos {ψ θ : ℝ} (h0 : 0 < ψ) (h1 : ψ < θ) (h2 : θ < 2 * Real.pi) :
    0 < (Real.cos ψ - 1) * Real.sin θ - Real.sin ψ * (Real.cos θ - 1) := by
  have e := circ_D (ψ / 2) (θ / 2)
  rw [show 2 * (ψ / 2) = ψ by ring, show 2 * (θ / 2) = θ by ring] at e
  rw [e]
  have s1 : 0 < Real.sin (ψ / 2) := Real.sin_pos_of_pos_of_lt_pi (by linarith) (by linarith)
  have s2 : 0 < Real.sin (θ / 2) := Real.sin_pos_of_pos_of_lt_pi (by linarith) (by linarith)
  have s3 : 0 < Real.sin (θ / 2 - ψ / 2) := Real.sin_pos_of_pos_of_lt_pi (by linarith) (by linarith)
  positivity

theorem sin_neg_upper {θ : ℝ} (h1 : Real.pi < θ) (h2 : θ < 2 * Real.pi) : Real.sin θ < 0 := by
  have := Real.sin_pos_of_pos_of_lt_pi (x := θ - Real.pi) (by linarith) (by linarith)
  rw [Real.sin_sub_pi] at this
  linarith

theorem sin_nonpos_upper {θ : ℝ} (h1 : Real.pi ≤ θ) (h2 : θ ≤ 2 * Real.pi) : Real.sin θ ≤ 0 := by
  have := Real.sin_nonneg_of_nonneg_of_le_pi (x := θ - Real.pi) (by linarith) (by linarith)
  rw [Real.sin_sub_pi] at this
  linarith

theorem nsq_circ {e1 e2 : Vec ℝ} (hF : Frame e1 e2) (r φ : ℝ) :
    nsq (comb e1 e2 (r * Real.cos φ) (r * Real.sin φ)) = r * r := by
  rw [nsq_comb hF]
  linear_combination (r * r) * Real.cos_sq_add_sin_sq φ

/-- `arc_length_3point` (over ℝ) of three points of a circle at the angles 0, ψ, θ, *given* that the computed centre is the
    circle's centre: the cosine is `cos θ` (never clipped), the side test is `r⁴ sin ψ sin θ` -/
theorem arc3LengthAt_circle {C e1 e2 : Vec ℝ} (hF : Frame e1 e2) {r : ℝ} (hr : 0 < r) (ψ θ : ℝ) :
    arc3LengthAt C (circAt C e1 e2 r 0) (circAt C e1 e2 r ψ) (circAt C e1 e2 r θ)
      = (if r * r * (r * r) * (Real.sin ψ * Real.sin θ) < 0
          then 2 * Real.pi - Real.arccos (Real.cos θ) else Real.arccos (Real.cos θ)) * r := by
  unfold arc3LengthAt arc3AngleR circAt
  simp only [sub_circPt_C]
  have hside : arc3SideTest (comb e1 e2 (r * Real.cos 0) (r * Real.sin 0)) (comb e1 e2 (r * Real.cos ψ) (r * Real.sin ψ))
      (comb e1 e2 (r * Real.cos θ) (r * Real.sin θ)) = r * r * (r * r) * (Real.sin ψ * Real.sin θ) := by
    unfold arc3SideTest
    rw [cross_comb, cross_comb, dot_smul_n hF, Real.cos_zero, Real.sin_zero]; ring
  have hdot : dot (comb e1 e2 (r * Real.cos 0) (r * Real.sin 0)) (comb e1 e2 (r * Real.cos θ) (r * Real.sin θ))
      = r * r * Real.cos θ := by
    rw [dot_comb hF, Real.cos_zero, Real.sin_zero]; ring
  have hsq : Real.sqrt (r * r) = r := Real.sqrt_mul_self (le_of_lt hr)
  have hne : r ≠ 0 := ne_of_gt hr
  rw [hside, hdot, nsq_circ hF, nsq_circ hF, hsq]
  have hq : r * r * Real.cos θ / (r * r) = Real.cos θ := by field_simp
  rw [hq, clipR_cos]

/-! ### round 6c: from coordinates to a frame and angles -/

section basis
variable {K : Type} [Field K] [LinearOrder K] [IsStrictOrderedRing K]
set_option linter.unusedSectionVars false

/-- `e1`, `n × e1` is a frame of the plane orthogonal to the unit vector `n`, for a unit vector `e1 ⟂ n` -/
theorem frame_of_normal {e1 n : Vec K} (h1 : nsq e1 = 1) (hn : nsq n = 1) (hd : dot n e1 = 0) : Frame e1 (cross n e1) := by
  refine ⟨h1, ?_, ?_⟩
  · have h : nsq (cross n e1) = nsq n * nsq e1 - dot n e1 * dot n e1 := by simp only [nsq, dot, cross]; ring
    rw [h, h1, hn, hd]; ring
  · simp only [dot, cross]; ring

theorem cross_e1_e2 {e1 n : Vec K} (h1 : nsq e1 = 1) (hd : dot n e1 = 0) : cross e1 (cross n e1) = n := by
  have h : cross e1 (cross n e1) = sub (smul (nsq e1) n) (smul (dot n e1) e1) := by
    apply Vec.ext' <;> simp only [nsq, dot, cross, sub, smul] <;> ring
  rw [h, h1, hd]
  apply Vec.ext' <;> simp only [sub, smul] <;> ring

/-- a vector orthogonal to `n` is the combination of `e1` and `n × e1` with its own dot products as coefficients -/
theorem decompose {e1 n : Vec K} (h1 : nsq e1 = 1) (hn : nsq n = 1) (hd : dot n e1 = 0) (v : Vec K) (hv : dot v n = 0) :
    v = comb e1 (cross n e1) (dot v e1) (dot v (cross n e1)) := by
  obtain ⟨w, hw⟩ : ∃ w, w = sub v (smul (dot v e1) e1) := ⟨_, rfl⟩
  have hwe : dot w e1 = 0 := by
    have : dot w e1 = dot v e1 - dot v e1 * nsq e1 := by rw [hw]; simp only [nsq, dot, sub, smul]; ring
    rw [this, h1]; ring
  have hwn : dot w n = 0 := by
    have : dot w n = dot v n - dot v e1 * dot n e1 := by rw [hw]; simp only [dot, sub, smul]; ring
    rw [this, hv, hd]; ring
  have hp := perp_parallel w n e1 hwe hwn
  have hF := frame_of_normal h1 hn hd
  have hwd : dot w (cross n e1) = dot v (cross n e1) := by
    rw [hw]; simp only [dot, cross, sub, smul]; ring
  have hn2 : nsq (cross n e1) = 1 := hF.n2
  rw [hn2, hwd] at hp
  have kx := congrArg Vec.x hp
  have ky := congrArg Vec.y hp
  have kz := congrArg Vec.z hp
  rw [hw] at kx ky kz
  simp only [smul, sub] at kx ky kz
  apply Vec.ext' <;> simp only [comb, add, smul] <;> linarith

end basis

/-- every point of the unit circle has an angle in `[0, 2π)` -/
theorem exists_angle {x y : ℝ} (h : x * x + y * y = 1) :
    ∃ α : ℝ, 0 ≤ α ∧ α < 2 * Real.pi ∧ Real.cos α = x ∧ Real.sin α = y := by
  have hπ := Real.pi_pos
  have hx1 : -1 ≤ x := by nlinarith [mul_self_nonneg y, mul_self_nonneg (x + 1)]
  have hx2 : x ≤ 1 := by nlinarith [mul_self_nonneg y, mul_self_nonneg (x - 1)]
  have hs : Real.sin (Real.arccos x) = |y| := by
    rw [Real.sin_arccos, show 1 - x ^ 2 = y ^ 2 by nlinarith, Real.sqrt_sq_eq_abs]
  by_cases hy : 0 ≤ y
  · refine ⟨Real.arccos x, Real.arccos_nonneg x, by linarith [Real.arccos_le_pi x], Real.cos_arccos hx1 hx2, ?_⟩
    rw [hs, abs_of_nonneg hy]
  · have hy' : y < 0 := not_le.mp hy
    have hxlt : x < 1 := by
      rcases lt_or_eq_of_le hx2 with h1 | h1
      · exact h1
      · exfalso; rw [h1] at h; have : y * y = 0 := by linarith
        have := mul_self_eq_zero.mp this; linarith
    have hpos : 0 < Real.arccos x := Real.arccos_pos.mpr hxlt
    refine ⟨2 * Real.pi - Real.arccos x, by linarith [Real.arccos_le_pi x], by linarith, ?_, ?_⟩
    · rw [Real.cos_two_pi_sub]; exact Real.cos_arccos hx1 hx2
    · rw [Real.sin_two_pi_sub, hs, abs_of_neg hy']; ring

/-- the sign of the triangle's orientation orders the angles: for `ψ, θ ∈ [0, 2π)`,
    `(cos ψ − 1) sin θ − sin ψ (cos θ − 1) > 0` forces `0 < ψ < θ` -/
theorem circ_D_order {ψ θ : ℝ} (hψ0 : 0 ≤ ψ) (hψ : ψ < 2 * Real.pi) (hθ0 : 0 ≤ θ) (hθ : θ < 2 * Real.pi)
    (hD : 0 < (Real.cos ψ - 1) * Real.sin θ - Real.sin ψ * (Real.cos θ - 1)) : 0 < ψ ∧ ψ < θ := by
  have e := circ_D (ψ / 2) (θ / 2)
  rw [show 2 * (ψ / 2) = ψ by ring, show 2 * (θ / 2) = θ by ring] at e
  rw [e] at hD
  have s1 : 0 ≤ Real.sin (ψ / 2) := Real.sin_nonneg_of_nonneg_of_le_pi (by linarith) (by linarith)
  have s2 : 0 ≤ Real.sin (θ / 2) := Real.sin_nonneg_of_nonneg_of_le_pi (by linarith) (by linarith)
  have s1p : 0 < Real.sin (ψ / 2) := by
    rcases lt_or_eq_of_le s1 with h | h
    · exact h
    · rw [← h] at hD; simp at hD
  have s2p : 0 < Real.sin (θ / 2) := by
    rcases lt_or_eq_of_le s2 with h | h
    · exact h
    · rw [← h] at hD; simp at hD
  have s3p : 0 < Real.sin (θ / 2 - ψ / 2) := by
    by_contra hneg
    have := mul_nonpos_of_nonneg_of_nonpos (mul_nonneg (mul_nonneg (by norm_num : (0:ℝ) ≤ 4) s1) s2) (not_lt.mp hneg)
    linarith
  constructor
  · by_contra h0
    have : ψ = 0 := le_antisymm (not_lt.mp h0) hψ0
    rw [this] at s1p; simp at s1p
  · by_contra hle
    have hle' : θ ≤ ψ := not_lt.mp hle
    have := Real.sin_nonpos_of_nonpos_of_neg_pi_le (x := θ / 2 - ψ / 2) (by linarith) (by linarith)
    linarith

/-! ### round 6d: linear isometries -/

/-- a linear map of vectors that preserves the dot product (rotations, reflections and their products) -/
structure LinIso (Q : Vec ℝ → Vec ℝ) : Prop where
  map_add : ∀ u v, Q (add u v) = add (Q u) (Q v)
  map_sub : ∀ u v, Q (sub u v) = sub (Q u) (Q v)
  map_smul : ∀ (k : ℝ) v, Q (smul k v) = smul k (Q v)
  map_dot : ∀ u v, dot (Q u) (Q v) = dot u v

/-- the centre of `arc_length_3point` written with dot products only: `(a × b) × a = |a|² b − (a·b) a` -/
theorem arc3Centre_dotform (pS pB pE : Vec ℝ) :
    arc3Centre pS pB pE =
      add (add pS (smul (1 / 2) (sub pB pS)))
        (smul ((nsq (sub pE pS) - dot (sub pB pS) (sub pE pS)) / (2 * arc3Denom pS pB pE))
          (sub (smul (nsq (sub pB pS)) (sub pE pS)) (smul (dot (sub pB pS) (sub pE pS)) (sub pB pS)))) := by
  unfold arc3Centre
  apply Vec.ext' <;> simp only [add, sub, smul, unitVec, cross, nsq, dot] <;> ring

/-- the side test of `arc_length_3point` written with dot products only (Binet–Cauchy) -/
theorem arc3SideTest_dotform (r1 r2 r3 : Vec ℝ) :
    arc3SideTest r1 r2 r3 = nsq r1 * dot r2 r3 - dot r1 r3 * dot r1 r2 := by
  simp only [arc3SideTest, nsq, dot, cross]; ring

end CBV.C08
