/-
C12 — the model's step functions as *readings of the statements of the current source*.

`cbv/tables/c12.py` regenerates, with python's `ast`, the statements of `Mesh.clear` (with the bodies of the `clear()` of
every list), `Mesh.backport`, `Mesh.write`, `Mesh.grade`, `Mesh.delete`, `Mesh.add`, … into `CBV.Gen`.  Here every
statement gets a meaning on the model state (an unknown statement has none), a method is the composition of its statements
in source order, and `Props/C12.lean` proves that this composition is the model function the theorems are about.
-/
import CBV.Lemmas.C12d
import CBV.Gen.TC12

namespace CBV.C12

/-! ### clear -/

/-- what `self.<attr>.clear()` of `Mesh.clear` does to the lists of the model, given the statements of that `clear()`;
    `none`: a statement list the model has no reading for -/
def clearEffect (call : String × List String) (l : Lists) : Option Lists :=
  if call = ("assembled", ["<builtin>"]) ∨ call = ("assembled", ["<recreated>"]) then some { l with assembled := [] }
  else if call = ("vertex_list", ["self.vertices.clear()", "self.duplicated.clear()"]) ∨ call = ("vertex_list", ["<recreated>"]) then
    some { l with verts := [] }   -- a `Vtx` of the model is the vertex and its `DuplicatedEntry`
  else if call = ("edge_list", ["self.edges.clear()"]) ∨ call = ("edge_list", ["<recreated>"]) then some { l with edges := [] }
  else if call = ("block_list", ["self.blocks.clear()"]) ∨ call = ("block_list", ["<recreated>"]) then some { l with blocks := [] }
  else if call = ("patch_list", ["for v0 in self.patches.values():", "    v0.sides.clear()"]) then
    some { l with patches := clearPatches l.patches }
  else if call = ("face_list", ["self.faces.clear()"]) ∨ call = ("face_list", ["<recreated>"]) then some { l with faces := [] }
  else none

/-- `Mesh.clear` as the sequence of its statements -/
def clearBy (calls : List (String × List String)) (other : List String) (m : Mesh) : Option Mesh :=
  if other ≠ [] then none
  else (calls.foldlM (fun l c => clearEffect c l) m.lists).map (fun l => { m with lists := l })

/-! ### backport -/

/-- the reading of one top-level statement of `Mesh.backport`; the outer `Option` is "no reading", the state `none` is
    "an exception was raised" (then the remaining statements do not run) -/
def backportEffect (st : String × List String) (s : Option Mesh) : Option (Option Mesh) :=
  match s with
  | none => some none
  | some m =>
    if st = ("if not self.is_assembled:", ["    raise RuntimeError"]) then
      some (if isAssembled m then some m else none)
    else if st = ("for v0, v1 in zip(self.blocks, self.assembled):",
        ["    v2 = [v3.position for v3 in v0.vertices]", "    v1.bottom_face.update(v2[:4])",
         "    v1.top_face.update(v2[4:])"]) then
      -- `Face.update` assigns the given positions to the four points of the face: the first four positions go to the
      -- bottom face (corners 0..3), the rest to the top face (corners 4..7)
      some (some { m with depot := backportDepot m.lists.verts (m.lists.blocks.zip m.lists.assembled) m.depot })
    else if st = ("self.clear()", []) then some (some (clear m))
    else if st = ("self.assemble()", []) then some (some (assemble m))
    else none

def backportBy (stmts : List (String × List String)) (m : Mesh) : Option (Option Mesh) :=
  stmts.foldlM (fun s st => backportEffect st s) (some m)

/-! ### write / grade -/

/-- the reading of the statements of `Mesh.grade`: state and, once something was raised, the error -/
def gradeEffect (st : String × List String) (s : Mesh × Option Err) : Option (Mesh × Option Err) :=
  match s.2 with
  | some _ => some s
  | none =>
    if st = ("if not self.is_assembled:", ["    raise RuntimeError"]) then
      some (if isAssembled s.1 then s else (s.1, some .notAssembled))
    else if st = ("self.block_list.grade_blocks()", []) then some (gradeBlocks s.1, none)
    else if st = ("self.block_list.propagate_gradings()", []) then
      -- every axis of the model carries its own chops: nothing to copy; an axis without chops stays undefined
      some (if s.1.lists.blocks.all Block.isDefined then s else (s.1, some .undefined))
    else if st = ("self.block_list.check_consistency()", []) then some s
    else none

def gradeBy (stmts : List (String × List String)) (m : Mesh) : Option (Mesh × Option Err) :=
  stmts.foldlM (fun s st => gradeEffect st s) (m, none)

/-- the statements of `Mesh.write` before the file is opened -/
def writePreEffect (grade : List (String × List String)) (st : String × List String) (s : Mesh × Option Err) :
    Option (Mesh × Option Err) :=
  match s.2 with
  | some _ => some s
  | none =>
    if st = ("if not self.is_assembled:", ["    self.assemble()"]) then some (if isAssembled s.1 then s else (assemble s.1, none))
    else if st = ("if v1 is not None:", ["    write_vtk(v1, self.vertex_list.vertices, self.block_list.blocks)"]) then
      some s   -- the histories never pass a debug path
    else if st = ("self.grade()", []) then gradeBy grade s.1
    else none

/-- `Mesh.write`: the statements before the file is opened, then the `output.write(...)` calls in order -/
def writeBy (pre grade : List (String × List String)) (sections : List String) (m : Mesh) : Option (Mesh × Except Err Text) := do
  let s ← pre.foldlM (fun s st => writePreEffect grade st s) (m, none)
  match s.2 with
  | some e => some (s.1, .error e)
  | none => (renderBy sections s.1).map (fun t => (s.1, .ok t))

/-! ### the readings of `grade` and `write` evaluated -/

theorem isAssembled_gradeBlocks (m : Mesh) : isAssembled (gradeBlocks m) = isAssembled m := rfl

theorem gradeBy_eq (m : Mesh) :
    gradeBy [("if not self.is_assembled:", ["    raise RuntimeError"]),
       ("self.block_list.grade_blocks()", []), ("self.block_list.propagate_gradings()", []),
       ("self.block_list.check_consistency()", [])] m
    = some (if isAssembled m then
        (if (gradeBlocks m).lists.blocks.all Block.isDefined then (gradeBlocks m, none) else (gradeBlocks m, some .undefined))
        else (m, some .notAssembled)) := by
  by_cases ha : isAssembled m = true
  · by_cases hd : (gradeBlocks m).lists.blocks.all Block.isDefined = true
    · simp [gradeBy, gradeEffect, ha, hd, -List.all_eq_true]
    · simp [gradeBy, gradeEffect, ha, hd, -List.all_eq_true]
  · simp [gradeBy, gradeEffect, ha]

theorem writeBy_eq (m : Mesh) :
    writeBy [("if not self.is_assembled:", ["    self.assemble()"]),
       ("if v1 is not None:", ["    write_vtk(v1, self.vertex_list.vertices, self.block_list.blocks)"]),
       ("self.grade()", [])]
      [("if not self.is_assembled:", ["    raise RuntimeError"]),
       ("self.block_list.grade_blocks()", []), ("self.block_list.propagate_gradings()", []),
       ("self.block_list.check_consistency()", [])] CBV.Gen.c12WriteSections m = some (write m) := by
  have hr : ∀ x, renderBy CBV.Gen.c12WriteSections x = some (render x) := by
    intro x
    simp [renderBy, CBV.Gen.c12WriteSections, sectionOf, render, List.mapM_cons, List.mapM_nil]
  unfold writeBy write
  by_cases ha : isAssembled m = true
  · by_cases hd : (gradeBlocks m).lists.blocks.all Block.isDefined = true
    · simp [writePreEffect, gradeBy_eq, ha, hd, hr, -List.all_eq_true]
    · simp [writePreEffect, gradeBy_eq, ha, hd, hr, -List.all_eq_true]
  · by_cases hb : isAssembled (assemble m) = true
    · by_cases hd : (gradeBlocks (assemble m)).lists.blocks.all Block.isDefined = true
      · simp [writePreEffect, gradeBy_eq, ha, hb, hd, hr, -List.all_eq_true]
      · simp [writePreEffect, gradeBy_eq, ha, hb, hd, hr, -List.all_eq_true]
    · simp [writePreEffect, gradeBy_eq, ha, hb, hr, -List.all_eq_true]

end CBV.C12
