/-
C18 (round 6e) — the float-to-exact link of the finder theorems, in general form over an ordered field.

The exact positions of a disk sketch live in ℚ(√2) (ℝ); the implementation compares float images of them.  If every float
position is within `δ` of the exact one (vertices and sketch points alike), `2δ < TOL`, and no exact vertex lies in the
ambiguity shell of an exact sketch position (distance in `[TOL − 2δ, TOL + 2δ)`; in particular: the vertices of the end
face coincide with their sketch positions and rim / non-rim positions are at least `TOL + 2δ` apart), then the finder on
the float data returns exactly what the finder on the exact data returns.
-/
import CBV.Lemmas.C18Disk
import Mathlib.Tactic.Positivity
import Mathlib.Tactic.Push
import Mathlib.Data.Rat.Cast.Order

namespace CBV.C18
open CBV.C11 (P3)
open CBV.C11.P3

variable {K : Type} [Field K] [LinearOrder K] [IsStrictOrderedRing K]

theorem nsqK_nonneg (a : P3 K) : 0 ≤ nsq a := by
  simp only [nsq, dot]
  nlinarith [mul_self_nonneg a.x, mul_self_nonneg a.y, mul_self_nonneg a.z]

theorem cauchyK (a b : P3 K) : dot a b * dot a b ≤ nsq a * nsq b := by
  have h : nsq a * nsq b - dot a b * dot a b = nsq (cross a b) := by
    simp only [nsq, dot, cross]; ring
  have := nsqK_nonneg (cross a b)
  linarith

/-- the triangle inequality on squared lengths (no square roots in an ordered field) -/
theorem nsq_add_lt {x y : P3 K} {a b : K} (ha : 0 ≤ a) (hb : 0 ≤ b) (hx : nsq x ≤ a * a) (hy : nsq y < b * b) :
    nsq (add x y) < (a + b) * (a + b) := by
  have hd : dot x y ≤ a * b := by
    by_contra h
    have h : a * b < dot x y := not_le.mp h
    have h1 : a * b * (a * b) < dot x y * dot x y := mul_self_lt_mul_self (mul_nonneg ha hb) h
    have h2 : nsq x * nsq y ≤ a * a * (b * b) := mul_le_mul hx hy.le (nsqK_nonneg y) (mul_self_nonneg a)
    have h3 := cauchyK x y
    have h4 : a * b * (a * b) = a * a * (b * b) := by ring
    linarith
  have he : nsq (add x y) = nsq x + 2 * dot x y + nsq y := by
    simp only [nsq, dot, add]; ring
  rw [he]
  nlinarith

/-- within `t` to the tolerance, over any ordered field -/
def nearK (t : K) (a b : P3 K) : Prop := nsq (sub a b) < t * t

instance (t : K) (a b : P3 K) : Decidable (nearK t a b) := by unfold nearK; infer_instance

/-- exact data clearly within ⇒ float data within -/
theorem nearK_of_exact {t δ : K} (hδ : 0 ≤ δ) (ht : 2 * δ < t) {v v' p p' : P3 K}
    (hv : nsq (sub v' v) ≤ δ * δ) (hp : nsq (sub p' p) ≤ δ * δ) (h : nearK (t - 2 * δ) v p) : nearK t v' p' := by
  unfold nearK at *
  have hp' : nsq (sub p p') ≤ δ * δ := by
    have : nsq (sub p p') = nsq (sub p' p) := by simp only [nsq, dot, sub]; ring
    rw [this]; exact hp
  have h1 := nsq_add_lt hδ (by linarith : (0 : K) ≤ t - 2 * δ) hp' h
  have h2 := nsq_add_lt hδ (by linarith : (0 : K) ≤ δ + (t - 2 * δ)) hv h1
  have he : nsq (sub v' p') = nsq (add (sub v' v) (add (sub p p') (sub v p))) := by
    simp only [nsq, dot, sub, add]; ring
  rw [he]
  have : (δ + (δ + (t - 2 * δ))) * (δ + (δ + (t - 2 * δ))) = t * t := by ring
  linarith

/-- float data within ⇒ exact data within `t + 2δ` -/
theorem nearK_exact_of_float {t δ : K} (hδ : 0 ≤ δ) (ht : 0 ≤ t) {v v' p p' : P3 K}
    (hv : nsq (sub v' v) ≤ δ * δ) (hp : nsq (sub p' p) ≤ δ * δ) (h : nearK t v' p') : nearK (t + 2 * δ) v p := by
  unfold nearK at *
  have hv' : nsq (sub v v') ≤ δ * δ := by
    have : nsq (sub v v') = nsq (sub v' v) := by simp only [nsq, dot, sub]; ring
    rw [this]; exact hv
  have h1 := nsq_add_lt hδ ht hp h
  have h2 := nsq_add_lt hδ (by linarith : (0 : K) ≤ δ + t) hv' h1
  have he : nsq (sub v p) = nsq (add (sub v v') (add (sub p' p) (sub v' p'))) := by
    simp only [nsq, dot, sub, add]; ring
  rw [he]
  have : (δ + (δ + t)) * (δ + (δ + t)) = (t + 2 * δ) * (t + 2 * δ) := by ring
  linarith

/-- `_find_from_points` over any ordered field: the vertices within `t` of one of the points -/
def findK (t : K) (z : P3 K) (vs ps : List (P3 K)) : List Nat :=
  (List.range vs.length).filter (fun i =>
    (List.range ps.length).any (fun k => decide (nearK t (vs.getD i z) (ps.getD k z))))

/-- **Stability.**  Float vertices `vs'` and float sketch positions `ps'`, each within `δ` of the exact ones, `2δ < t`, and
    no exact vertex in the ambiguity shell `[t − 2δ, t + 2δ)` of an exact position: the finder on the float data with the
    tolerance `t` returns what the finder on the exact data returns with `t − 2δ` (equivalently with `t`, or `t + 2δ`). -/
theorem findK_stable (t δ : K) (hδ : 0 ≤ δ) (ht : 2 * δ < t) (z : P3 K) (vs vs' ps ps' : List (P3 K))
    (hlv : vs'.length = vs.length) (hlp : ps'.length = ps.length)
    (hv : ∀ i, i < vs.length → nsq (sub (vs'.getD i z) (vs.getD i z)) ≤ δ * δ)
    (hp : ∀ k, k < ps.length → nsq (sub (ps'.getD k z) (ps.getD k z)) ≤ δ * δ)
    (gap : ∀ i, i < vs.length → ∀ k, k < ps.length →
      nearK (t - 2 * δ) (vs.getD i z) (ps.getD k z) ∨ ¬ nearK (t + 2 * δ) (vs.getD i z) (ps.getD k z)) :
    findK t z vs' ps' = findK (t - 2 * δ) z vs ps := by
  unfold findK
  rw [hlv, hlp]
  apply List.filter_congr
  intro i hi
  have hi := List.mem_range.mp hi
  rw [Bool.eq_iff_iff]
  simp only [List.any_eq_true, List.mem_range, decide_eq_true_eq]
  constructor
  · rintro ⟨k, hk, hn⟩
    refine ⟨k, hk, ?_⟩
    rcases gap i hi k hk with g | g
    · exact g
    · exact absurd (nearK_exact_of_float hδ (by linarith) (hv i hi) (hp k hk) hn) g
  · rintro ⟨k, hk, hn⟩
    exact ⟨k, hk, nearK_of_exact hδ ht (hv i hi) (hp k hk) hn⟩

/-- under the same gap the exact finder does not depend on the tolerance between `t − 2δ` and `t + 2δ` either -/
theorem findK_gap (t δ : K) (hδ : 0 ≤ δ) (ht : 2 * δ < t) (z : P3 K) (vs ps : List (P3 K))
    (gap : ∀ i, i < vs.length → ∀ k, k < ps.length →
      nearK (t - 2 * δ) (vs.getD i z) (ps.getD k z) ∨ ¬ nearK (t + 2 * δ) (vs.getD i z) (ps.getD k z)) :
    findK (t - 2 * δ) z vs ps = findK t z vs ps := by
  -- exact finder with t − 2δ vs. t: by the gap
  unfold findK
  apply List.filter_congr
  intro i hi
  have hi := List.mem_range.mp hi
  rw [Bool.eq_iff_iff]
  simp only [List.any_eq_true, List.mem_range, decide_eq_true_eq]
  constructor
  · rintro ⟨k, hk, hn⟩
    refine ⟨k, hk, ?_⟩
    unfold nearK at *
    have : (t - 2 * δ) * (t - 2 * δ) ≤ t * t := by nlinarith
    linarith
  · rintro ⟨k, hk, hn⟩
    refine ⟨k, hk, ?_⟩
    rcases gap i hi k hk with g | g
    · exact g
    · exfalso
      apply g
      unfold nearK at *
      have : t * t ≤ (t + 2 * δ) * (t + 2 * δ) := by nlinarith
      linarith

/-! ### the model's finder (over ℚ, on the float images) inside any ordered field -/

/-- a rational (float) position inside the field of the exact positions -/
def castP (v : V3) : P3 K := ⟨(v.x : K), (v.y : K), (v.z : K)⟩

theorem near_cast (a b : V3) : nearK ((tol : Rat) : K) (castP a) (castP b) ↔ near a b := by
  unfold nearK near dist2
  have h : nsq (sub (castP a : P3 K) (castP b)) = ((V3.norm2 (a - b) : Rat) : K) := by
    simp only [nsq, dot, sub, castP, V3.norm2, V3.dot, V3.sub_x, V3.sub_y, V3.sub_z]
    push_cast
    ring
  rw [h, ← Rat.cast_mul, Rat.cast_lt]

theorem getD_map_castP (l : List V3) (i : Nat) : (l.map (castP (K := K))).getD i (castP V3.zero) = castP (l.getD i V3.zero) := by
  induction l generalizing i with
  | nil => rfl
  | cons x xs ih =>
    cases i with
    | zero => rfl
    | succ i => simpa using ih i

theorem any_range_getD (f : V3 → Bool) (ps : List V3) :
    ps.any f = (List.range ps.length).any (fun k => f (ps.getD k V3.zero)) := by
  rw [Bool.eq_iff_iff]
  simp only [List.any_eq_true, List.mem_range]
  constructor
  · rintro ⟨p, hp, hf⟩
    obtain ⟨k, hk, rfl⟩ := List.mem_iff_getElem.mp hp
    have e : ps.getD k V3.zero = ps[k] := by simp [List.getD, hk]
    exact ⟨k, hk, by rw [e]; exact hf⟩
  · rintro ⟨k, hk, hf⟩
    have e : ps.getD k V3.zero = ps[k] := by simp [List.getD, hk]
    rw [e] at hf
    exact ⟨ps[k], List.getElem_mem hk, hf⟩

/-- `RoundSolidFinder._find_from_points` of the model (rational positions, `constants.TOL`) is `findK` on the same
    positions read in any ordered field -/
theorem findFromPoints_cast (vs ps : List V3) :
    findFromPoints vs ps = findK ((tol : Rat) : K) (castP V3.zero) (vs.map castP) (ps.map castP) := by
  unfold findFromPoints findIdx findK
  simp only [List.length_map]
  apply List.filter_congr
  intro i _
  rw [any_range_getD]
  rw [Bool.eq_iff_iff]
  simp only [List.any_eq_true, List.mem_range, decide_eq_true_eq, getD_map_castP, near_cast]

end CBV.C18
