/-
C06 — helper lemmas: the bracket layer round trip, entry decoders, statement splitting.
-/
import CBV.Model.C06
import Std.Data.String.ToNat

namespace CBV.C06

/-! ### bracket layer -/

mutual
theorem parseStk_flat : ∀ (t : Tree) (rest : List Tok) (stk : List (Open × List Tree)) (cur : List Tree),
    parseStk (t.flat ++ rest) stk cur = parseStk rest stk (t :: cur)
  | .atom s, rest, stk, cur => by simp [Tree.flat, parseStk]
  | .semi, rest, stk, cur => by simp [Tree.flat, parseStk]
  | .comment s, rest, stk, cur => by simp [Tree.flat, parseStk]
  | .paren ts, rest, stk, cur => by
      simp only [Tree.flat, List.cons_append, List.append_assoc, parseStk]
      rw [parseStk_flatList ts]
      simp [parseStk]
  | .brace ts, rest, stk, cur => by
      simp only [Tree.flat, List.cons_append, List.append_assoc, parseStk]
      rw [parseStk_flatList ts]
      simp [parseStk]
theorem parseStk_flatList : ∀ (ts : List Tree) (rest : List Tok) (stk : List (Open × List Tree)) (cur : List Tree),
    parseStk (flatList ts ++ rest) stk cur = parseStk rest stk (ts.reverse ++ cur)
  | [], rest, stk, cur => by simp [flatList]
  | t :: ts, rest, stk, cur => by
      simp only [flatList, List.append_assoc]
      rw [parseStk_flat t, parseStk_flatList ts]
      simp
end

theorem parseTrees_flatList (ts : List Tree) : parseTrees (flatList ts) = some ts := by
  have := parseStk_flatList ts [] [] []
  simp only [List.append_nil] at this
  unfold parseTrees
  rw [this]
  simp [parseStk]

end CBV.C06
