/-
C06 — helper lemmas: the bracket layer round trip, entry decoders, statement splitting.
-/
import CBV.Model.C06
import Std.Data.String.ToNat

set_option linter.unusedSectionVars false

namespace CBV.C06

/-! ### bracket layer -/

mutual
theorem parseStk_flat : ∀ (t : Tree) (rest : List Tok) (stk : List (Open × List Tree)) (cur : List Tree),
    parseStk (t.flat ++ rest) stk cur = parseStk rest stk (t :: cur)
  | .atom s, rest, stk, cur => by simp [Tree.flat, parseStk]
  | .semi, rest, stk, cur => by simp [Tree.flat, parseStk]
  | .comment s, rest, stk, cur => by simp [Tree.flat, parseStk]
  | .paren ts, rest, stk, cur => by
      simp only [Tree.flat, List.cons_append, List.append_assoc, parseStk]
      rw [parseStk_flatList ts]
      simp [parseStk]
  | .brace ts, rest, stk, cur => by
      simp only [Tree.flat, List.cons_append, List.append_assoc, parseStk]
      rw [parseStk_flatList ts]
      simp [parseStk]
theorem parseStk_flatList : ∀ (ts : List Tree) (rest : List Tok) (stk : List (Open × List Tree)) (cur : List Tree),
    parseStk (flatList ts ++ rest) stk cur = parseStk rest stk (ts.reverse ++ cur)
  | [], rest, stk, cur => by simp [flatList]
  | t :: ts, rest, stk, cur => by
      simp only [flatList, List.append_assoc]
      rw [parseStk_flat t, parseStk_flatList ts]
      simp
end

theorem parseTrees_flatList (ts : List Tree) : parseTrees (flatList ts) = some ts := by
  have := parseStk_flatList ts [] [] []
  simp only [List.append_nil] at this
  unfold parseTrees
  rw [this]
  simp [parseStk]

/-! ### the bracket parser is faithful: whatever parses is the flattening of its parse -/

theorem flatList_append (a b : List Tree) : flatList (a ++ b) = flatList a ++ flatList b := by
  induction a with
  | nil => rfl
  | cons t ts ih => simp [flatList, ih]

def Open.tok : Open → Tok
  | .paren => .lp
  | .brace => .lb

/-- the tokens consumed when the parser is in state `(stk, cur)` -/
def unwind : List (Open × List Tree) → List Tree → List Tok
  | [], cur => flatList cur.reverse
  | (o, prev) :: stk, cur => unwind stk prev ++ [o.tok] ++ flatList cur.reverse

theorem unwind_push (stk : List (Open × List Tree)) (t : Tree) (cur : List Tree) :
    unwind stk (t :: cur) = unwind stk cur ++ t.flat := by
  cases stk with
  | nil => simp [unwind, flatList_append, flatList]
  | cons a stk => obtain ⟨o, prev⟩ := a; simp [unwind, flatList_append, flatList]

theorem parseStk_faithful : ∀ (toks : List Tok) (stk : List (Open × List Tree)) (cur res : List Tree),
    parseStk toks stk cur = some res → flatList res = unwind stk cur ++ toks := by
  intro toks
  induction toks with
  | nil =>
    intro stk cur res h
    cases stk with
    | nil => simp only [parseStk, Option.some.injEq] at h; subst h; simp [unwind]
    | cons a stk => simp [parseStk] at h
  | cons t ts ih =>
    intro stk cur res h
    cases t with
    | lp =>
      have := ih _ _ _ (by simpa [parseStk] using h)
      rw [this]; simp [unwind, Open.tok, flatList]
    | lb =>
      have := ih _ _ _ (by simpa [parseStk] using h)
      rw [this]; simp [unwind, Open.tok, flatList]
    | rp =>
      cases stk with
      | nil => simp [parseStk] at h
      | cons a stk =>
        obtain ⟨o, prev⟩ := a
        cases o with
        | brace => simp [parseStk] at h
        | paren =>
          have := ih _ _ _ (by simpa [parseStk] using h)
          rw [this, unwind_push]
          simp [unwind, Open.tok, Tree.flat]
    | rb =>
      cases stk with
      | nil => simp [parseStk] at h
      | cons a stk =>
        obtain ⟨o, prev⟩ := a
        cases o with
        | paren => simp [parseStk] at h
        | brace =>
          have := ih _ _ _ (by simpa [parseStk] using h)
          rw [this, unwind_push]
          simp [unwind, Open.tok, Tree.flat]
    | semi =>
      have := ih _ _ _ (by simpa [parseStk] using h)
      rw [this, unwind_push]; simp [Tree.flat]
    | word s =>
      have := ih _ _ _ (by simpa [parseStk] using h)
      rw [this, unwind_push]; simp [Tree.flat]
    | comment s =>
      have := ih _ _ _ (by simpa [parseStk] using h)
      rw [this, unwind_push]; simp [Tree.flat]

theorem parseTrees_faithful (toks : List Tok) (ts : List Tree) (h : parseTrees toks = some ts) :
    flatList ts = toks := by
  have := parseStk_faithful toks [] [] ts h
  simpa [unwind, flatList] using this

/-! ### schema layer: leaves -/

theorem atomsOf_map (l : List String) : atomsOf (l.map Tree.atom) = some l := by
  induction l with
  | nil => rfl
  | cons a l ih => simp [atomsOf, ih]

theorem commentsOf_map (l : List String) : commentsOf (l.map Tree.comment) = some l := by
  induction l with
  | nil => rfl
  | cons a l ih => simp [commentsOf, ih]

theorem toNat?_toString (n : Nat) : (toString n).toNat? = some n := Nat.toNat?_repr n

theorem natsOf_natAtoms (ns : List Nat) : natsOf (natAtoms ns) = some ns := by
  induction ns with
  | nil => rfl
  | cons a l ih =>
    have : natAtoms (a :: l) = Tree.atom (toString a) :: natAtoms l := rfl
    rw [this]
    simp only [natsOf, toNat?_toString, ih]
    rfl

/-! ### repeated entries -/

theorem decMany_flatMap {α : Type} (enc : α → List Tree) (step : List Tree → Option (α × List Tree))
    (hne : ∀ x, enc x ≠ []) :
    ∀ (xs : List α), (∀ x ∈ xs, ∀ rest, step (enc x ++ rest) = some (x, rest)) →
      ∀ (fuel : Nat), (xs.flatMap enc).length ≤ fuel → decMany step fuel (xs.flatMap enc) = some xs := by
  intro xs
  induction xs with
  | nil => intro _ fuel _; cases fuel <;> rfl
  | cons x xs ih =>
    intro h fuel hf
    simp only [List.flatMap_cons] at hf ⊢
    cases hx : enc x with
    | nil => exact absurd hx (hne x)
    | cons t ts =>
      rw [hx] at hf
      simp only [List.cons_append, List.length_cons, List.length_append] at hf
      cases fuel with
      | zero => omega
      | succ f =>
        have hs := h x List.mem_cons_self (xs.flatMap enc)
        rw [hx] at hs
        simp only [List.cons_append] at hs ⊢
        simp only [decMany, hs]
        rw [ih (fun y hy => h y (List.mem_cons_of_mem _ hy)) f (by omega)]
        rfl

theorem decMany_flatMap_len {α : Type} (enc : α → List Tree) (step : List Tree → Option (α × List Tree))
    (hne : ∀ x, enc x ≠ []) (xs : List α) (h : ∀ x ∈ xs, ∀ rest, step (enc x ++ rest) = some (x, rest)) :
    decMany step (xs.flatMap enc).length (xs.flatMap enc) = some xs :=
  decMany_flatMap enc step hne xs h _ (Nat.le_refl _)

/-! ### statements -/

/-- no `;` at the top level of a statement -/
def NoSemi (s : List Tree) : Prop := ∀ t ∈ s, t.isSemi = false

theorem splitSemi_stmt (s : List Tree) (hs : NoSemi s) (acc rest : List Tree) :
    splitSemi (s ++ Tree.semi :: rest) acc = (splitSemi rest []).map ((acc.reverse ++ s) :: ·) := by
  induction s generalizing acc with
  | nil => simp [splitSemi, Tree.isSemi]
  | cons t s ih =>
    have ht : t.isSemi = false := hs t List.mem_cons_self
    have hs' : NoSemi s := fun u hu => hs u (List.mem_cons_of_mem _ hu)
    simp only [List.cons_append, splitSemi, ht, Bool.false_eq_true, if_false]
    rw [ih hs']
    simp

theorem splitSemi_encStmts (ss : List (List Tree)) (h : ∀ s ∈ ss, NoSemi s) :
    splitSemi (encStmts ss) [] = some ss := by
  induction ss with
  | nil => rfl
  | cons s ss ih =>
    have : encStmts (s :: ss) = s ++ Tree.semi :: encStmts ss := by simp [encStmts]
    rw [this, splitSemi_stmt s (h s List.mem_cons_self), ih (fun t ht => h t (List.mem_cons_of_mem _ ht))]
    simp

theorem spanSemi_stmt (s : List Tree) (hs : NoSemi s) (acc rest : List Tree) :
    spanSemi (s ++ Tree.semi :: rest) acc = some (acc.reverse ++ s, rest) := by
  induction s generalizing acc with
  | nil => simp [spanSemi, Tree.isSemi]
  | cons t s ih =>
    have ht : t.isSemi = false := hs t List.mem_cons_self
    have hs' : NoSemi s := fun u hu => hs u (List.mem_cons_of_mem _ hu)
    simp only [List.cons_append, spanSemi, ht, Bool.false_eq_true, if_false]
    rw [ih hs']
    simp

/-! ### entries -/

theorem stepV_encV (v : VEntry) (rest : List Tree) : stepV (encV v ++ rest) = some (v, rest) := by
  obtain ⟨cs, ls, c⟩ := v
  unfold encV
  by_cases h : ls.isEmpty
  · have : ls = [] := List.isEmpty_iff.mp h
    subst this
    simp [stepV, atomsOf_map]
  · have h' : ls ≠ [] := fun e => h (by simp [e])
    simp [h, h', stepV, atomsOf_map]

theorem stepB_encB (b : BEntry) (rest : List Tree) : stepB (encB b ++ rest) = some (b, rest) := by
  obtain ⟨vs, z, c, g, gr, cm⟩ := b
  unfold encB
  by_cases h : z.isEmpty
  · have hz : z = "" := by simpa [String.isEmpty_iff] using h
    subst hz
    simp [stepB, natsOf_natAtoms]
  · simp [h, stepB, natsOf_natAtoms]

theorem stepE_encE (e : EEntry) (rest : List Tree) : stepE (encE e ++ rest) = some (e, rest) := by
  obtain ⟨pre, k, a, b, p⟩ := e
  cases pre <;> simp [encE, stepE]

theorem stepF_encF (f : FEntry) (rest : List Tree) : stepF (encF f ++ rest) = some (f, rest) := by
  obtain ⟨q, l⟩ := f
  simp [encF, stepF, natsOf_natAtoms]

theorem stepQuad_encQuad (q : List Nat) (rest : List Tree) : stepQuad (encQuad q ++ rest) = some (q, rest) := by
  simp [encQuad, stepQuad, natsOf_natAtoms]

theorem stepM_encM (m : String × String) (rest : List Tree) : stepM (encM m ++ rest) = some (m, rest) := by
  simp [encM, stepM]

theorem stepG_encG (g : GEntry) (h : ∀ s ∈ g.props, NoSemi s) (rest : List Tree) :
    stepG (encG g ++ rest) = some (g, rest) := by
  obtain ⟨n, ps⟩ := g
  simp [encG, stepG, splitSemi_encStmts ps h]

theorem stepP_encP (p : PEntry) (h : ∀ s ∈ p.settings, NoSemi s) (rest : List Tree) :
    stepP (encP p ++ rest) = some (p, rest) := by
  obtain ⟨n, k, st, qs⟩ := p
  have hall : ∀ s ∈ ([Tree.atom "type", Tree.atom k] :: (st ++
      [[Tree.atom "faces", Tree.paren (qs.flatMap encQuad)]])), NoSemi s := by
    intro s hs
    simp only [List.mem_cons, List.mem_append, List.not_mem_nil, or_false] at hs
    rcases hs with rfl | hs | rfl
    · intro t ht; simp only [List.mem_cons, List.not_mem_nil, or_false] at ht
      rcases ht with rfl | rfl <;> rfl
    · exact h s hs
    · intro t ht; simp only [List.mem_cons, List.not_mem_nil, or_false] at ht
      rcases ht with rfl | rfl <;> rfl
  have hq := decMany_flatMap_len encQuad stepQuad (by intro q; simp [encQuad]) qs
    (fun q _ rest => stepQuad_encQuad q rest)
  have hsplit := splitSemi_encStmts _ hall
  simp only [encP, List.cons_append, List.nil_append, stepP, hsplit, Option.bind_eq_bind, Option.bind_some,
    decPBody, List.getLast?_concat, List.dropLast_concat, hq]

/-! ### settings -/

theorem decSettings_enc (ss : List (String × List Tree))
    (h : ∀ s ∈ ss, isSectionKey s.1 = false ∧ NoSemi s.2) (k : String) (hk : isSectionKey k = true)
    (rest : List Tree) :
    ∀ fuel, (ss.flatMap encSetting).length < fuel →
      decSettings fuel (ss.flatMap encSetting ++ Tree.atom k :: rest) = some (ss, Tree.atom k :: rest) := by
  induction ss with
  | nil =>
    intro fuel hf
    cases fuel with
    | zero => omega
    | succ f => simp only [List.flatMap_nil, List.nil_append, decSettings, hk, if_true]
  | cons s ss ih =>
    intro fuel hf
    obtain ⟨key, v⟩ := s
    have hs := h (key, v) List.mem_cons_self
    have e1 : List.flatMap encSetting ((key, v) :: ss) ++ Tree.atom k :: rest =
        Tree.atom key :: (v ++ Tree.semi :: (ss.flatMap encSetting ++ Tree.atom k :: rest)) := by
      simp [encSetting]
    have e2 : (List.flatMap encSetting ((key, v) :: ss)).length = v.length + 2 + (ss.flatMap encSetting).length := by
      simp only [List.flatMap_cons, encSetting, List.length_append, List.length_cons, List.length_nil]
    rw [e1]
    rw [e2] at hf
    cases fuel with
    | zero => omega
    | succ f =>
      have hsp := spanSemi_stmt v hs.2 [] (ss.flatMap encSetting ++ Tree.atom k :: rest)
      simp only [List.reverse_nil, List.nil_append] at hsp
      have hrec := ih (fun t ht => h t (List.mem_cons_of_mem _ ht)) f (by omega)
      simp only [decSettings, hs.1, Bool.false_eq_true, if_false, hsp, Option.bind_eq_bind, Option.bind_some,
        hrec]

/-! ### the whole dictionary -/

/-- statements of the dictionary contain no `;` inside; setting names are not section names -/
structure WF (d : Dict) : Prop where
  settings : ∀ s ∈ d.settings, isSectionKey s.1 = false ∧ NoSemi s.2
  geometry : ∀ g ∈ d.geometry, ∀ s ∈ g.props, NoSemi s
  patches : ∀ p ∈ d.patches, ∀ s ∈ p.settings, NoSemi s

theorem decV (vs : List VEntry) : decMany stepV (vs.flatMap encV).length (vs.flatMap encV) = some vs :=
  decMany_flatMap_len encV stepV (by intro v; unfold encV; split <;> simp) vs (fun v _ rest => stepV_encV v rest)

theorem decB (bs : List BEntry) : decMany stepB (bs.flatMap encB).length (bs.flatMap encB) = some bs :=
  decMany_flatMap_len encB stepB (by intro v; unfold encB; split <;> simp) bs (fun v _ rest => stepB_encB v rest)

theorem decE (es : List EEntry) : decMany stepE (es.flatMap encE).length (es.flatMap encE) = some es :=
  decMany_flatMap_len encE stepE (by intro v; unfold encE; simp) es (fun v _ rest => stepE_encE v rest)

theorem decF (fs : List FEntry) : decMany stepF (fs.flatMap encF).length (fs.flatMap encF) = some fs :=
  decMany_flatMap_len encF stepF (by intro v; simp [encF]) fs (fun v _ rest => stepF_encF v rest)

theorem decM (ms : List (String × String)) : decMany stepM (ms.flatMap encM).length (ms.flatMap encM) = some ms :=
  decMany_flatMap_len encM stepM (by intro m; simp [encM]) ms (fun m _ rest => stepM_encM m rest)

theorem decP (ps : List PEntry) (h : ∀ p ∈ ps, ∀ s ∈ p.settings, NoSemi s) :
    decMany stepP (ps.flatMap encP).length (ps.flatMap encP) = some ps :=
  decMany_flatMap_len encP stepP (by intro v; simp [encP]) ps (fun v hv rest => stepP_encP v (h v hv) rest)

theorem decG (gs : List GEntry) (h : ∀ g ∈ gs, ∀ s ∈ g.props, NoSemi s) :
    decMany stepG (gs.flatMap encG).length (gs.flatMap encG) = some gs :=
  decMany_flatMap_len encG stepG (by intro g; simp [encG]) gs (fun g hg rest => stepG_encG g (h g hg) rest)

theorem decTail_enc (d : Dict) :
    decTail d.foamFile d.headComment d.settings d.geometry d.vertices d.blocks d.edges d.faces d.patches d.default
      (Tree.atom "mergePatchPairs" :: Tree.paren (d.merged.flatMap encM) :: Tree.semi :: d.footer.map Tree.comment)
      = some d := by
  simp only [decTail, decM, commentsOf_map, Option.bind_eq_bind, Option.bind_some]

/-- the sections after the geometry -/
def encSections (d : Dict) : List Tree :=
  Tree.atom "vertices" :: .paren (d.vertices.flatMap encV) :: .semi ::
  .atom "blocks" :: .paren (d.blocks.flatMap encB) :: .semi ::
  .atom "edges" :: .paren (d.edges.flatMap encE) :: .semi ::
  .atom "faces" :: .paren (d.faces.flatMap encF) :: .semi ::
  .atom "boundary" :: .paren (d.patches.flatMap encP) :: .semi ::
  ((match d.default with
    | some (n, k) => [Tree.atom "defaultPatch", .brace [.atom "name", .atom n, .semi, .atom "type", .atom k, .semi]]
    | none => []) ++
   (Tree.atom "mergePatchPairs" :: .paren (d.merged.flatMap encM) :: .semi :: d.footer.map Tree.comment))

theorem decSections_enc (d : Dict) (h : WF d) :
    decSections d.foamFile d.headComment d.settings d.geometry (encSections d) = some d := by
  have ht := decTail_enc d
  have hp := decP d.patches h.patches
  unfold encSections
  cases hd : d.default with
  | none =>
    rw [hd] at ht
    simp only [List.nil_append, decSections, decV, decB, decE, decF, hp, Option.bind_eq_bind, Option.bind_some]
    split
    · rename_i heq
      simp at heq
    · exact ht
  | some nk =>
    obtain ⟨n, k⟩ := nk
    rw [hd] at ht
    simp only [List.cons_append, List.nil_append, decSections, decV, decB, decE, decF, hp, Option.bind_eq_bind,
      Option.bind_some, ht]

theorem encode_eq (d : Dict) :
    encode d = Tree.atom "FoamFile" :: .brace d.foamFile :: .comment d.headComment ::
      (d.settings.flatMap encSetting ++
        ((if d.geometry.isEmpty then [] else [Tree.atom "geometry", .brace (d.geometry.flatMap encG), .semi]) ++
          encSections d)) := by
  unfold encode encSections
  simp only [List.cons_append, List.nil_append, List.append_assoc]
  rfl

/-- the schema layer reads its own output back -/
theorem decode_encode (d : Dict) (h : WF d) : decode (encode d) = some d := by
  have hs := decSections_enc d h
  rw [encode_eq]
  have hkey : ∃ k rest, ((if d.geometry.isEmpty then [] else
      [Tree.atom "geometry", .brace (d.geometry.flatMap encG), .semi]) ++ encSections d) = Tree.atom k :: rest ∧
      isSectionKey k = true := by
    by_cases hg : d.geometry.isEmpty
    · exact ⟨"vertices", _, by simp only [hg, if_true, List.nil_append]; rfl, rfl⟩
    · exact ⟨"geometry", _, by simp only [hg]; rfl, rfl⟩
  obtain ⟨k, rest, hk, hkk⟩ := hkey
  simp only [decode]
  rw [hk, decSettings_enc d.settings h.settings k hkk rest _ (by simp only [List.length_append, List.length_cons]; omega)]
  simp only [Option.bind_eq_bind, Option.bind_some]
  rw [← hk]
  by_cases hg : d.geometry.isEmpty
  · have hg' : d.geometry = [] := List.isEmpty_iff.mp hg
    simp only [hg, if_true, List.nil_append]
    rw [hg'] at hs
    unfold encSections at hs ⊢
    exact hs
  · simp only [hg, Bool.false_eq_true, if_false, List.cons_append, List.nil_append,
      decG d.geometry h.geometry, Option.bind_some]
    exact hs

/-- **round trip**: the parser reads the rendering of every well-formed dictionary back -/
theorem parse_render (d : Dict) (h : WF d) : parse (render d) = some d := by
  unfold parse render
  rw [parseTrees_flatList]
  exact decode_encode d h

end CBV.C06
