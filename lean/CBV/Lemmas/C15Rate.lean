/-
C15 — a rate for the Gauss–Seidel sweep of `SmootherBase.smooth`, for every graph with a level function:
if every free junction has a neighbour of smaller level (levels count the links to the frame), at most `Δ`
neighbours, and level at most `d`, then `d` sweeps shrink every error against the fixed point to at most
`(1 - (1/Δ)^d)·M`, where `M` bounds the errors at the start.
-/
import CBV.Lemmas.C15Max
import Mathlib.Algebra.Order.Field.Basic

namespace CBV.C15
open CBV

/-! ### the bound of level `k`: `1 - (1/Δ)^k` -/

def bnd (D : Rat) : Nat → Rat
  | 0 => 0
  | k + 1 => 1 - (1 - bnd D k) / D

theorem bnd_closed (D : Rat) (hD : D ≠ 0) (k : Nat) : bnd D k = 1 - (1 / D) ^ k := by
  induction k with
  | zero => simp [bnd]
  | succ k ih => rw [bnd, ih, pow_succ]; field_simp; ring

theorem bnd_range (D : Rat) (hD : 1 ≤ D) (k : Nat) : 0 ≤ bnd D k ∧ bnd D k ≤ 1 := by
  have hpos : 0 < D := by linarith
  induction k with
  | zero => simp [bnd]
  | succ k ih =>
    obtain ⟨i1, i2⟩ := ih
    have h1 : 0 ≤ (1 - bnd D k) / D := div_nonneg (by linarith) (le_of_lt hpos)
    have h2 : (1 - bnd D k) / D ≤ 1 := by rw [div_le_one hpos]; linarith
    simp only [bnd]; constructor <;> linarith

theorem bnd_le_succ (D : Rat) (hD : 1 ≤ D) (k : Nat) : bnd D k ≤ bnd D (k + 1) := by
  have hpos : 0 < D := by linarith
  obtain ⟨r1, r2⟩ := bnd_range D hD k
  have h2 : (1 - bnd D k) / D ≤ 1 - bnd D k := div_le_self (by linarith) hD
  simp only [bnd]; linarith

theorem bnd_mono (D : Rat) (hD : 1 ≤ D) {a b : Nat} (h : a ≤ b) : bnd D a ≤ bnd D b := by
  induction h with
  | refl => exact le_rfl
  | step _ ih => exact ih.trans (bnd_le_succ D hD _)

/-! ### an average with one smaller entry -/

theorem sum_le_of_le_of_one (l : List Rat) (M : Rat) (h : ∀ x ∈ l, x ≤ M) (y : Rat) (hy : y ∈ l) (Y : Rat)
    (hY : y ≤ Y) : l.sum ≤ ((l.length : Rat) - 1) * M + Y := by
  induction l with
  | nil => simp at hy
  | cons a l ih =>
    have h1 := h a (by simp)
    have hl : ∀ x ∈ l, x ≤ M := fun x hx => h x (by simp [hx])
    simp only [List.sum_cons, List.length_cons]
    push_cast
    rcases List.mem_cons.mp hy with rfl | hy'
    · have := sum_le_of_le l M hl; linarith
    · have := ih hl hy'; linarith

/-- the average of at most `D` numbers `≤ M`, one of which is `≤ β·M`, is at most `(1 - (1-β)/D)·M` -/
theorem avg_level_bound (l : List Rat) (M β D : Rat) (hM : 0 ≤ M) (hβ : β ≤ 1) (hlen : (l.length : Rat) ≤ D)
    (h : ∀ x ∈ l, x ≤ M) (y : Rat) (hy : y ∈ l) (hyb : y ≤ β * M) :
    l.sum / (l.length : Rat) ≤ (1 - (1 - β) / D) * M := by
  have hne : l ≠ [] := by intro h0; rw [h0] at hy; simp at hy
  have hpos := len_pos_of_ne_nil l hne
  have hs := sum_le_of_le_of_one l M h y hy (β * M) hyb
  have hDpos : 0 < D := lt_of_lt_of_le hpos hlen
  have h1 : l.sum / (l.length : Rat) ≤ M - (1 - β) * M / (l.length : Rat) := by
    rw [div_le_iff₀ hpos]
    have : (M - (1 - β) * M / (l.length : Rat)) * (l.length : Rat) = ((l.length : Rat) - 1) * M + β * M := by
      field_simp; ring
    linarith
  have hnn : 0 ≤ (1 - β) * M := mul_nonneg (by linarith) hM
  have h2 : (1 - β) * M / D ≤ (1 - β) * M / (l.length : Rat) := div_le_div_of_nonneg_left hnn hpos hlen
  have h3 : (1 - (1 - β) / D) * M = M - (1 - β) * M / D := by field_simp
  rw [h3]; linarith

/-! ### one sweep raises the level up to which the bounds hold -/

section
variable {c : V3 → Rat} (hc : IsLin c) (inner : List Nat) (nbrs : Nat → List Nat) (fixed : List Nat) (q : List V3)
  (lvl : Nat → Nat) (D M : Rat) (s : Nat)

/-- the invariant inside sweep number `s + 1`: all errors `≤ M`, no error off the free junctions, the level
    bounds up to level `s`, and up to level `s + 1` at the junctions `Pr` already visited in this sweep -/
def LevelInv (c : V3 → Rat) (inner : List Nat) (fixed : List Nat) (q : List V3) (lvl : Nat → Nat) (D M : Rat) (s : Nat)
    (Pr : Nat → Prop) (p : List V3) : Prop :=
  (∀ i, c (pget p i) - c (pget q i) ≤ M) ∧
  (∀ i, ¬ (i ∈ inner ∧ i ∉ fixed) → c (pget p i) - c (pget q i) = 0) ∧
  (∀ i, (lvl i ≤ s ∨ (Pr i ∧ lvl i ≤ s + 1)) → c (pget p i) - c (pget q i) ≤ bnd D (lvl i) * M)

theorem levelInv_weaken {Pr Pr' : Nat → Prop} (h : ∀ i, Pr' i → Pr i) {p : List V3}
    (hJ : LevelInv c inner fixed q lvl D M s Pr p) : LevelInv c inner fixed q lvl D M s Pr' p :=
  ⟨hJ.1, hJ.2.1, fun i hi => hJ.2.2 i (by rcases hi with h1 | ⟨h1, h2⟩; exact Or.inl h1; exact Or.inr ⟨h i h1, h2⟩)⟩

include hc in
theorem step_levelInv (hD : 1 ≤ D) (hM : 0 ≤ M) (Pr : Nat → Prop) (p : List V3) (j : Nat) (hj : j ∈ inner)
    (hl : j < p.length)
    (hq : j ∉ fixed → pget q j = avg ((nbrs j).map (pget q)))
    (hlv : j ∉ fixed → ∃ t ∈ nbrs j, lvl t < lvl j)
    (hdeg : j ∉ fixed → ((nbrs j).length : Rat) ≤ D)
    (hJ : LevelInv c inner fixed q lvl D M s Pr p) :
    LevelInv c inner fixed q lvl D M s (fun i => Pr i ∨ i = j) (step nbrs fixed p j) := by
  obtain ⟨hA, hZ, hB⟩ := hJ
  by_cases hf : j ∈ fixed
  · rw [step_fixed _ _ _ _ hf]
    refine ⟨hA, hZ, fun i hi => ?_⟩
    rcases hi with h1 | ⟨h1 | rfl, h2⟩
    · exact hB i (Or.inl h1)
    · exact hB i (Or.inr ⟨h1, h2⟩)
    · rw [hZ i (fun h => h.2 hf)]; exact mul_nonneg (bnd_range D hD _).1 hM
  · -- the new error at `j` is the average of the errors of its neighbours
    have hnew : c (pget (step nbrs fixed p j) j) - c (pget q j)
        = ((nbrs j).map (fun t => c (pget p t) - c (pget q t))).sum / ((nbrs j).length : Rat) := by
      unfold step
      simp only [List.contains_iff_mem, hf, if_false]
      rw [pget_set_self _ _ _ hl, hq hf, avg_diff hc]
    obtain ⟨t0, ht0, hlt0⟩ := hlv hf
    have hne : nbrs j ≠ [] := by intro h0; rw [h0] at ht0; simp at ht0
    have hall : ∀ x ∈ (nbrs j).map (fun t => c (pget p t) - c (pget q t)), x ≤ M := by
      intro x hx; obtain ⟨t, _, rfl⟩ := List.mem_map.mp hx; exact hA t
    have hother : ∀ i, i ≠ j → c (pget (step nbrs fixed p j) i) - c (pget q i) = c (pget p i) - c (pget q i) := by
      intro i hij; rw [pget_step_ne _ _ _ _ _ hij]
    refine ⟨fun i => ?_, fun i hi => ?_, fun i hi => ?_⟩
    · by_cases hij : i = j
      · subst hij; rw [hnew]
        have := avg_le_of_le _ M (fun h0 => hne (List.map_eq_nil_iff.mp h0)) hall
        rwa [List.length_map] at this
      · rw [hother i hij]; exact hA i
    · have hij : i ≠ j := by rintro rfl; exact hi ⟨hj, hf⟩
      rw [hother i hij]; exact hZ i hi
    · by_cases hij : i = j
      · subst hij
        have hle : lvl i ≤ s + 1 := by rcases hi with h1 | ⟨_, h2⟩ <;> omega
        obtain ⟨l', hl'⟩ : ∃ l', lvl i = l' + 1 := ⟨lvl i - 1, by omega⟩
        have ht0b : c (pget p t0) - c (pget q t0) ≤ bnd D l' * M :=
          (hB t0 (Or.inl (by omega))).trans
            (mul_le_mul_of_nonneg_right (bnd_mono D hD (by omega)) hM)
        rw [hnew, hl']
        have := avg_level_bound ((nbrs i).map (fun t => c (pget p t) - c (pget q t))) M (bnd D l') D hM
          (bnd_range D hD l').2 (by rw [List.length_map]; exact hdeg hf) hall _
          (List.mem_map.mpr ⟨t0, ht0, rfl⟩) ht0b
        rw [List.length_map] at this
        exact this
      · rw [hother i hij]
        apply hB i
        rcases hi with h1 | ⟨h1 | h1, h2⟩
        · exact Or.inl h1
        · exact Or.inr ⟨h1, h2⟩
        · exact absurd h1 hij

include hc in
theorem sweep_levelInv (hD : 1 ≤ D) (hM : 0 ≤ M) (js : List Nat) (hsub : ∀ j ∈ js, j ∈ inner)
    (hq : ∀ j ∈ js, j ∉ fixed → pget q j = avg ((nbrs j).map (pget q)))
    (hlv : ∀ j ∈ js, j ∉ fixed → ∃ t ∈ nbrs j, lvl t < lvl j)
    (hdeg : ∀ j ∈ js, j ∉ fixed → ((nbrs j).length : Rat) ≤ D)
    (Pr : Nat → Prop) (p : List V3) (hl : ∀ j ∈ js, j < p.length)
    (hJ : LevelInv c inner fixed q lvl D M s Pr p) :
    LevelInv c inner fixed q lvl D M s (fun i => Pr i ∨ i ∈ js) (sweep js nbrs fixed p) := by
  induction js generalizing Pr p with
  | nil => exact levelInv_weaken inner fixed q lvl D M s (fun i h => by simpa using h) hJ
  | cons j js ih =>
    rw [sweep_cons]
    have h1 := step_levelInv hc inner nbrs fixed q lvl D M s hD hM Pr p j (hsub j List.mem_cons_self)
      (hl j List.mem_cons_self) (hq j List.mem_cons_self) (hlv j List.mem_cons_self) (hdeg j List.mem_cons_self) hJ
    have h2 := ih (fun t ht => hsub t (List.mem_cons_of_mem _ ht)) (fun t ht => hq t (List.mem_cons_of_mem _ ht))
      (fun t ht => hlv t (List.mem_cons_of_mem _ ht)) (fun t ht => hdeg t (List.mem_cons_of_mem _ ht))
      (fun i => Pr i ∨ i = j) (step nbrs fixed p j)
      (fun t ht => by rw [step_length]; exact hl t (List.mem_cons_of_mem _ ht)) h1
    exact levelInv_weaken inner fixed q lvl D M s
      (fun i h => by
        rcases h with h | h
        · exact Or.inl (Or.inl h)
        · rcases List.mem_cons.mp h with rfl | h
          · exact Or.inl (Or.inr rfl)
          · exact Or.inr h) h2

include hc in
/-- one whole sweep: the bounds that hold up to level `s` hold up to level `s + 1` afterwards -/
theorem sweep_level_succ (hD : 1 ≤ D) (hM : 0 ≤ M)
    (hq : ∀ j ∈ inner, j ∉ fixed → pget q j = avg ((nbrs j).map (pget q)))
    (hlv : ∀ j ∈ inner, j ∉ fixed → ∃ t ∈ nbrs j, lvl t < lvl j)
    (hdeg : ∀ j ∈ inner, j ∉ fixed → ((nbrs j).length : Rat) ≤ D)
    (p : List V3) (hl : ∀ j ∈ inner, j < p.length)
    (hJ : LevelInv c inner fixed q lvl D M s (fun _ => False) p) :
    LevelInv c inner fixed q lvl D M (s + 1) (fun _ => False) (sweep inner nbrs fixed p) := by
  have h := sweep_levelInv hc inner nbrs fixed q lvl D M s hD hM inner (fun j hj => hj) hq hlv hdeg (fun _ => False) p hl hJ
  obtain ⟨hA, hZ, hB⟩ := h
  refine ⟨hA, hZ, fun i hi => ?_⟩
  have hle : lvl i ≤ s + 1 := by rcases hi with h1 | ⟨h1, _⟩; exact h1; exact absurd h1 id
  by_cases hfree : i ∈ inner ∧ i ∉ fixed
  · exact hB i (Or.inr ⟨Or.inr hfree.1, hle⟩)
  · rw [hZ i hfree]; exact mul_nonneg (bnd_range D hD _).1 hM

include hc in
/-- `k` sweeps: the level bounds hold up to level `k` -/
theorem iter_levelInv (hD : 1 ≤ D) (hM : 0 ≤ M)
    (hq : ∀ j ∈ inner, j ∉ fixed → pget q j = avg ((nbrs j).map (pget q)))
    (hlv : ∀ j ∈ inner, j ∉ fixed → ∃ t ∈ nbrs j, lvl t < lvl j)
    (hdeg : ∀ j ∈ inner, j ∉ fixed → ((nbrs j).length : Rat) ≤ D)
    (k : Nat) (p : List V3) (hl : ∀ j ∈ inner, j < p.length)
    (hA : ∀ i, c (pget p i) - c (pget q i) ≤ M)
    (hZ : ∀ i, ¬ (i ∈ inner ∧ i ∉ fixed) → c (pget p i) - c (pget q i) = 0) :
    LevelInv c inner fixed q lvl D M k (fun _ => False) (iter (sweep inner nbrs fixed) k p) := by
  induction k with
  | zero =>
    refine ⟨hA, hZ, fun i hi => ?_⟩
    have h0 : lvl i = 0 := by rcases hi with h1 | ⟨h1, _⟩; omega; exact absurd h1 id
    have hnf : ¬ (i ∈ inner ∧ i ∉ fixed) := by
      rintro ⟨h1, h2⟩; obtain ⟨t, _, hlt⟩ := hlv i h1 h2; omega
    simp only [iter]
    rw [hZ i hnf, h0]; simp [bnd]
  | succ k ih =>
    rw [iter_succ']
    apply sweep_level_succ hc inner nbrs fixed q lvl D M k hD hM hq hlv hdeg _ _ ih
    intro j hj
    rw [iter_length _ (fun r => sweep_length _ _ _ r)]; exact hl j hj

include hc in
/-- **`d` sweeps on a graph of depth `d`**: every error is at most `(1 - (1/D)^d)·M` -/
theorem iter_err_le_rate (hD : 1 ≤ D) (hM : 0 ≤ M)
    (hq : ∀ j ∈ inner, j ∉ fixed → pget q j = avg ((nbrs j).map (pget q)))
    (hlv : ∀ j ∈ inner, j ∉ fixed → ∃ t ∈ nbrs j, lvl t < lvl j)
    (hdeg : ∀ j ∈ inner, j ∉ fixed → ((nbrs j).length : Rat) ≤ D)
    (d : Nat) (hdepth : ∀ j ∈ inner, j ∉ fixed → lvl j ≤ d)
    (p : List V3) (hl : ∀ j ∈ inner, j < p.length)
    (hA : ∀ i, c (pget p i) - c (pget q i) ≤ M)
    (hZ : ∀ i, ¬ (i ∈ inner ∧ i ∉ fixed) → c (pget p i) - c (pget q i) = 0) (i : Nat) :
    c (pget (iter (sweep inner nbrs fixed) d p) i) - c (pget q i) ≤ (1 - (1 / D) ^ d) * M := by
  obtain ⟨_, hZ', hB⟩ := iter_levelInv hc inner nbrs fixed q lvl D M hD hM hq hlv hdeg d p hl hA hZ
  rw [← bnd_closed D (by linarith) d]
  by_cases hfree : i ∈ inner ∧ i ∉ fixed
  · have hle := hdepth i hfree.1 hfree.2
    exact (hB i (Or.inl hle)).trans (mul_le_mul_of_nonneg_right (bnd_mono D hD hle) hM)
  · rw [hZ' i hfree]; exact mul_nonneg (bnd_range D hD _).1 hM

end

/-! ### every anchored graph has a level function -/

/-- `j` reaches a non-free junction in exactly `k` links -/
inductive ReachN (nbrs : Nat → List Nat) (free : Nat → Prop) : Nat → Nat → Prop
  | base (j : Nat) : ¬ free j → ReachN nbrs free 0 j
  | step (k j t : Nat) : t ∈ nbrs j → ReachN nbrs free k t → ReachN nbrs free (k + 1) j

theorem reachN_of_reach {nbrs : Nat → List Nat} {free : Nat → Prop} {j : Nat} (h : Reach nbrs free j) :
    ∃ k, ReachN nbrs free k j := by
  induction h with
  | base j hnf => exact ⟨0, ReachN.base j hnf⟩
  | step j t ht _ ih => obtain ⟨k, hk⟩ := ih; exact ⟨k + 1, ReachN.step k j t ht hk⟩

theorem exists_min_nat (P : Nat → Prop) (h : ∃ k, P k) : ∃ k, P k ∧ ∀ m, m < k → ¬ P m := by
  obtain ⟨k, hk⟩ := h
  induction k using Nat.strong_induction_on with
  | _ k ih =>
    by_cases hmin : ∀ m, m < k → ¬ P m
    · exact ⟨k, hk, hmin⟩
    · simp only [not_forall, not_not] at hmin
      obtain ⟨m, hm, hPm⟩ := hmin
      exact ih m hm hPm

/-- the number of links to the frame (0 where there is no path) -/
noncomputable def levelOf (nbrs : Nat → List Nat) (free : Nat → Prop) (j : Nat) : Nat :=
  open Classical in
  if h : ∃ k, ReachN nbrs free k j then Classical.choose (exists_min_nat _ h) else 0

theorem levelOf_spec (nbrs : Nat → List Nat) (free : Nat → Prop) (j : Nat) (h : ∃ k, ReachN nbrs free k j) :
    ReachN nbrs free (levelOf nbrs free j) j ∧ ∀ m, m < levelOf nbrs free j → ¬ ReachN nbrs free m j := by
  unfold levelOf
  rw [dif_pos h]
  exact Classical.choose_spec (exists_min_nat _ h)

/-- a free junction that reaches the frame has a neighbour of smaller level -/
theorem levelOf_nbr (nbrs : Nat → List Nat) (free : Nat → Prop) (j : Nat) (hf : free j)
    (h : ∃ k, ReachN nbrs free k j) : ∃ t ∈ nbrs j, levelOf nbrs free t < levelOf nbrs free j := by
  obtain ⟨hr, _⟩ := levelOf_spec nbrs free j h
  generalize hk : levelOf nbrs free j = k at hr
  cases hr with
  | base _ hnf => exact absurd hf hnf
  | step k' _ t ht hrt =>
    refine ⟨t, ht, ?_⟩
    have ht' : ∃ k, ReachN nbrs free k t := ⟨k', hrt⟩
    have hmin := (levelOf_spec nbrs free t ht').2
    by_contra hge
    exact hmin k' (by omega) hrt

theorem exists_bound (l : List Nat) (f : Nat → Nat) : ∃ B, ∀ j ∈ l, f j ≤ B := by
  induction l with
  | nil => exact ⟨0, fun j hj => by simp at hj⟩
  | cons a l ih =>
    obtain ⟨B, hB⟩ := ih
    refine ⟨max B (f a), fun j hj => ?_⟩
    rcases List.mem_cons.mp hj with rfl | hj
    · exact Nat.le_max_right _ _
    · exact (hB j hj).trans (Nat.le_max_left _ _)

end CBV.C15
