/-
C14 — helper lemmas: vector algebra of rotations / scalings, behaviour of one side of a cell under
a rigid motion, a scaling and a cyclic renumbering, and sorting of permuted lists.
-/
import CBV.Model.C14
import Mathlib.Tactic.Ring
import Mathlib.Tactic.Linarith
import Mathlib.Tactic.FieldSimp
import Mathlib.Algebra.Order.Field.Rat
import Mathlib.Data.List.Perm.Basic

namespace CBV.C14
open CBV

/-! ### rotation by a rational quaternion -/

/-- `N · R v` for the quaternion `(w, a)`, `N = w² + |a|²` -/
def rotN (w : Rat) (a v : V3) : V3 :=
  let N := w * w + V3.dot a a
  let c1 := V3.cross a v
  let c2 := V3.cross a c1
  ⟨N * v.x + 2 * (w * c1.x + c2.x), N * v.y + 2 * (w * c1.y + c2.y), N * v.z + 2 * (w * c1.z + c2.z)⟩

/-- the rotation `R v = q v q⁻¹` of the quaternion `q = (w, a)` (identity for the zero quaternion) -/
def rot (w : Rat) (a v : V3) : V3 := V3.smul (1 / (w * w + V3.dot a a)) (rotN w a v)

/-- rigid motion: rotation followed by a translation -/
def rigid (w : Rat) (a t v : V3) : V3 := rot w a v + t

theorem rotN_dot (w : Rat) (a u v : V3) :
    V3.dot (rotN w a u) (rotN w a v) = (w * w + V3.dot a a) ^ 2 * V3.dot u v := by
  simp only [rotN, V3.dot, V3.cross]; ring

theorem rotN_cross (w : Rat) (a u v : V3) :
    V3.cross (rotN w a u) (rotN w a v) = V3.smul (w * w + V3.dot a a) (rotN w a (V3.cross u v)) := by
  apply V3.ext' <;> simp only [rotN, V3.dot, V3.cross, V3.smul] <;> ring

theorem dot_smul_smul (k : Rat) (x y : V3) : V3.dot (V3.smul k x) (V3.smul k y) = k * k * V3.dot x y := by
  simp only [V3.dot, V3.smul]; ring

theorem cross_smul_smul (k : Rat) (x y : V3) :
    V3.cross (V3.smul k x) (V3.smul k y) = V3.smul (k * k) (V3.cross x y) := by
  apply V3.ext' <;> simp only [V3.cross, V3.smul] <;> ring

theorem smul_smul (j k : Rat) (x : V3) : V3.smul j (V3.smul k x) = V3.smul (j * k) x := by
  apply V3.ext' <;> simp only [V3.smul] <;> ring

theorem rot_dot (w : Rat) (a u v : V3) (hN : w * w + V3.dot a a ≠ 0) :
    V3.dot (rot w a u) (rot w a v) = V3.dot u v := by
  unfold rot
  rw [dot_smul_smul, rotN_dot]
  generalize w * w + V3.dot a a = N at hN ⊢
  field_simp

theorem rot_cross (w : Rat) (a u v : V3) (hN : w * w + V3.dot a a ≠ 0) :
    V3.cross (rot w a u) (rot w a v) = rot w a (V3.cross u v) := by
  unfold rot
  rw [cross_smul_smul, rotN_cross, smul_smul]
  generalize w * w + V3.dot a a = N at hN ⊢
  congr 1
  field_simp

theorem rot_sub (w : Rat) (a u v : V3) : rot w a (u - v) = rot w a u - rot w a v := by
  apply V3.ext' <;> simp [rot, rotN, V3.dot, V3.cross] <;> ring

theorem rigid_sub (w : Rat) (a t u v : V3) : rigid w a t u - rigid w a t v = rot w a (u - v) := by
  rw [rot_sub]; apply V3.ext' <;> simp [rigid]

theorem norm2_rot (w : Rat) (a u : V3) (hN : w * w + V3.dot a a ≠ 0) : V3.norm2 (rot w a u) = V3.norm2 u :=
  rot_dot w a u u hN

theorem mkTri_rot (w : Rat) (a u v : V3) (hN : w * w + V3.dot a a ≠ 0) :
    mkTri (rot w a u) (rot w a v) = mkTri u v := by
  simp [mkTri, rot_dot _ _ _ _ hN, norm2_rot _ _ _ hN]

/-! ### averages -/

theorem vsum_map_rigid (w : Rat) (a t : V3) (l : List V3) :
    vsum (l.map (rigid w a t)) = rot w a (vsum l) + V3.smul (l.length : Rat) t := by
  induction l with
  | nil => apply V3.ext' <;> simp [vsum, V3.zero, rot, rotN, V3.cross, V3.dot]
  | cons x xs ih =>
    simp only [List.map_cons, vsum, ih, List.length_cons]
    apply V3.ext' <;> simp [rigid, rot, rotN, V3.cross, V3.dot] <;> ring

theorem avg_map_rigid (w : Rat) (a t : V3) (l : List V3) (hl : l ≠ []) :
    avg (l.map (rigid w a t)) = rigid w a t (avg l) := by
  have hlen : ((l.length : Nat) : Rat) ≠ 0 := by
    have : l.length ≠ 0 := fun h => hl (List.length_eq_zero_iff.mp h)
    exact_mod_cast this
  unfold avg
  rw [vsum_map_rigid, List.length_map]
  apply V3.ext' <;> simp [rigid, rot, rotN, V3.cross, V3.dot] <;> field_simp

theorem vsum_perm {l₁ l₂ : List V3} (h : l₁.Perm l₂) : vsum l₁ = vsum l₂ := by
  induction h with
  | nil => rfl
  | cons x _ ih => simp [vsum, ih]
  | swap x y l => apply V3.ext' <;> simp [vsum] <;> ring
  | trans _ _ ih1 ih2 => exact ih1.trans ih2

theorem avg_perm {l₁ l₂ : List V3} (h : l₁.Perm l₂) : avg l₁ = avg l₂ := by
  unfold avg; rw [vsum_perm h, h.length_eq]

/-! ### sorting permuted lists -/

theorem mergeSort_congr {α : Type} (le : α → α → Bool)
    (trans : ∀ a b c, le a b → le b c → le a c) (total : ∀ a b, le a b || le b a)
    (antisymm : ∀ a b, le a b → le b a → a = b) {l₁ l₂ : List α} (h : l₁.Perm l₂) :
    l₁.mergeSort le = l₂.mergeSort le :=
  List.Perm.eq_of_pairwise (fun a b _ _ => antisymm a b)
    (List.pairwise_mergeSort trans total l₁) (List.pairwise_mergeSort trans total l₂)
    ((List.mergeSort_perm l₁ le).trans (h.trans (List.mergeSort_perm l₂ le).symm))

theorem Tri.le_trans (a b c : Tri) : Tri.le a b → Tri.le b c → Tri.le a c := by
  simp only [Tri.le, Bool.or_eq_true, Bool.and_eq_true, decide_eq_true_eq, beq_iff_eq]
  intro h1 h2
  rcases h1 with h1 | ⟨e1, h1 | ⟨f1, g1⟩⟩ <;> rcases h2 with h2 | ⟨e2, h2 | ⟨f2, g2⟩⟩
  · left; linarith
  · left; linarith
  · left; linarith
  · left; linarith
  · right; exact ⟨e1.trans e2, Or.inl (by linarith)⟩
  · right; exact ⟨e1.trans e2, Or.inl (by linarith)⟩
  · left; linarith
  · right; exact ⟨e1.trans e2, Or.inl (by linarith)⟩
  · right; exact ⟨e1.trans e2, Or.inr ⟨f1.trans f2, by linarith⟩⟩

theorem Tri.le_total (a b : Tri) : (Tri.le a b || Tri.le b a) = true := by
  simp only [Tri.le, Bool.or_eq_true, Bool.and_eq_true, decide_eq_true_eq, beq_iff_eq]
  rcases lt_trichotomy a.nc b.nc with h | h | h
  · left; left; exact h
  · rcases lt_trichotomy a.nn b.nn with h' | h' | h'
    · left; right; exact ⟨h, Or.inl h'⟩
    · rcases _root_.le_total a.cc b.cc with h'' | h''
      · left; right; exact ⟨h, Or.inr ⟨h', h''⟩⟩
      · right; right; exact ⟨h.symm, Or.inr ⟨h'.symm, h''⟩⟩
    · right; right; exact ⟨h.symm, Or.inl h'⟩
  · right; left; exact h

theorem Tri.le_antisymm (a b : Tri) : Tri.le a b → Tri.le b a → a = b := by
  simp only [Tri.le, Bool.or_eq_true, Bool.and_eq_true, decide_eq_true_eq, beq_iff_eq]
  intro h1 h2
  cases a; cases b
  simp only [Tri.mk.injEq] at *
  rcases h1 with h1 | ⟨e1, h1 | ⟨f1, g1⟩⟩ <;> rcases h2 with h2 | ⟨e2, h2 | ⟨f2, g2⟩⟩ <;>
    first
      | (exfalso; linarith)
      | (exact ⟨e1, f1, _root_.le_antisymm g1 g2⟩)

theorem Tri0.le_trans (a b c : Tri0) : Tri0.le a b → Tri0.le b c → Tri0.le a c := by
  simp only [Tri0.le, Bool.or_eq_true, Bool.and_eq_true, decide_eq_true_eq, beq_iff_eq]
  intro h1 h2
  rcases h1 with h1 | ⟨e1, g1⟩ <;> rcases h2 with h2 | ⟨e2, g2⟩
  · left; omega
  · left; omega
  · left; omega
  · right; exact ⟨e1.trans e2, by linarith⟩

theorem Tri0.le_total (a b : Tri0) : (Tri0.le a b || Tri0.le b a) = true := by
  simp only [Tri0.le, Bool.or_eq_true, Bool.and_eq_true, decide_eq_true_eq, beq_iff_eq]
  rcases lt_trichotomy a.s b.s with h | h | h
  · left; left; exact h
  · rcases _root_.le_total a.r b.r with h' | h'
    · left; right; exact ⟨h, h'⟩
    · right; right; exact ⟨h.symm, h'⟩
  · right; left; exact h

theorem Tri0.le_antisymm (a b : Tri0) : Tri0.le a b → Tri0.le b a → a = b := by
  simp only [Tri0.le, Bool.or_eq_true, Bool.and_eq_true, decide_eq_true_eq, beq_iff_eq]
  intro h1 h2
  cases a; cases b
  simp only [Tri0.mk.injEq] at *
  rcases h1 with h1 | ⟨e1, g1⟩ <;> rcases h2 with h2 | ⟨e2, g2⟩ <;>
    first
      | (exfalso; omega)
      | (exact ⟨e1, _root_.le_antisymm g1 g2⟩)

theorem ratle_trans (a b c : Rat) : decide (a ≤ b) = true → decide (b ≤ c) = true → decide (a ≤ c) = true := by
  simp only [decide_eq_true_eq]; exact le_trans

theorem ratle_total (a b : Rat) : (decide (a ≤ b) || decide (b ≤ a)) = true := by
  simp only [Bool.or_eq_true, decide_eq_true_eq]; exact le_total a b

theorem ratle_antisymm (a b : Rat) : decide (a ≤ b) = true → decide (b ≤ a) = true → a = b := by
  simp only [decide_eq_true_eq]; exact le_antisymm

/-- signatures that are permutations of each other have the same canonical form -/
theorem canon_congr {s₁ s₂ : Sig} (ht : s₁.tris.Perm s₂.tris) (hc : s₁.corners.Perm s₂.corners)
    (he : s₁.edges.Perm s₂.edges) : s₁.canon = s₂.canon := by
  unfold Sig.canon
  rw [mergeSort_congr Tri.le Tri.le_trans Tri.le_total Tri.le_antisymm ht,
    mergeSort_congr Tri.le Tri.le_trans Tri.le_total Tri.le_antisymm hc,
    mergeSort_congr _ ratle_trans ratle_total ratle_antisymm he]

theorem canon0_congr {s₁ s₂ : Sig0} (ht : s₁.tris.Perm s₂.tris) (hc : s₁.corners.Perm s₂.corners)
    (he : s₁.aspect2 = s₂.aspect2) : s₁.canon = s₂.canon := by
  unfold Sig0.canon
  rw [mergeSort_congr Tri0.le Tri0.le_trans Tri0.le_total Tri0.le_antisymm ht,
    mergeSort_congr Tri0.le Tri0.le_trans Tri0.le_total Tri0.le_antisymm hc, he]

end CBV.C14
