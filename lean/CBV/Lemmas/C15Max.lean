/-
C15 — discrete maximum principle for the Gauss–Seidel sweep of `SmootherBase.smooth`, for every graph
(any junction order, any neighbour function):

* the error against a fixed point of the sweep, measured through any linear functional of the position
  (in particular each coordinate), never leaves a band `[-M, M]` it is in: the max-norm distance to a
  fixed point is non-increasing under a sweep (`linfDist_sweep_le`);
* a function that is harmonic on the free junctions (equal to the average of its neighbours), zero on the
  others, on a graph where every free junction reaches a non-free one along neighbour links, is zero
  (`max_principle`, `harmonic_zero`) — so the fixed point with given boundary / fixed values is unique.
-/
import CBV.Lemmas.C15

namespace CBV.C15
open CBV

/-! ### linear functionals of a position -/

structure IsLin (c : V3 → Rat) : Prop where
  add : ∀ a b, c (a + b) = c a + c b
  smul : ∀ k a, c (V3.smul k a) = k * c a
  zero : c V3.zero = 0

theorem isLin_x : IsLin (fun v => v.x) := ⟨fun _ _ => rfl, fun _ _ => rfl, rfl⟩
theorem isLin_y : IsLin (fun v => v.y) := ⟨fun _ _ => rfl, fun _ _ => rfl, rfl⟩
theorem isLin_z : IsLin (fun v => v.z) := ⟨fun _ _ => rfl, fun _ _ => rfl, rfl⟩

theorem IsLin.neg {c : V3 → Rat} (h : IsLin c) : IsLin (fun v => - c v) :=
  ⟨fun a b => by simp only [h.add]; ring, fun k a => by simp only [h.smul]; ring, by simp only [h.zero]; ring⟩

theorem IsLin.vsum {c : V3 → Rat} (h : IsLin c) (l : List V3) : c (vsum l) = (l.map c).sum := by
  induction l with
  | nil => simp [CBV.C15.vsum, h.zero]
  | cons a l ih => simp [CBV.C15.vsum, h.add, ih]

theorem IsLin.avg {c : V3 → Rat} (h : IsLin c) (l : List V3) : c (avg l) = (l.map c).sum / (l.length : Rat) := by
  unfold CBV.C15.avg
  rw [h.smul, h.vsum]; ring

/-! ### sums of bounded rationals -/

theorem sum_le_of_le (l : List Rat) (M : Rat) (h : ∀ x ∈ l, x ≤ M) : l.sum ≤ (l.length : Rat) * M := by
  induction l with
  | nil => simp
  | cons a l ih =>
    have h1 := h a (by simp)
    have h2 := ih (fun x hx => h x (by simp [hx]))
    simp only [List.sum_cons, List.length_cons]
    push_cast; linarith

theorem sum_lt_of_lt (l : List Rat) (M : Rat) (h : ∀ x ∈ l, x ≤ M) (y : Rat) (hy : y ∈ l) (hlt : y < M) :
    l.sum < (l.length : Rat) * M := by
  induction l with
  | nil => simp at hy
  | cons a l ih =>
    have h1 := h a (by simp)
    have hl : ∀ x ∈ l, x ≤ M := fun x hx => h x (by simp [hx])
    simp only [List.sum_cons, List.length_cons]
    push_cast
    rcases List.mem_cons.mp hy with rfl | hy'
    · have := sum_le_of_le l M hl; linarith
    · have := ih hl hy'; linarith

theorem len_pos_of_ne_nil {α : Type} (l : List α) (h : l ≠ []) : (0 : Rat) < (l.length : Rat) := by
  have : 0 < l.length := List.length_pos_iff.mpr h
  exact_mod_cast this

theorem avg_le_of_le (l : List Rat) (M : Rat) (hne : l ≠ []) (h : ∀ x ∈ l, x ≤ M) :
    l.sum / (l.length : Rat) ≤ M := by
  have hpos := len_pos_of_ne_nil l hne
  rw [div_le_iff₀ hpos]
  have := sum_le_of_le l M h
  linarith

/-- an average of numbers `≤ M` that equals `M`: all of them equal `M` -/
theorem all_eq_of_avg_eq (l : List Rat) (M : Rat) (hne : l ≠ []) (h : ∀ x ∈ l, x ≤ M)
    (he : l.sum / (l.length : Rat) = M) : ∀ x ∈ l, x = M := by
  intro x hx
  by_contra hxne
  have hlt : x < M := lt_of_le_of_ne (h x hx) hxne
  have hpos := len_pos_of_ne_nil l hne
  have h1 := sum_lt_of_lt l M h x hx hlt
  rw [div_eq_iff (ne_of_gt hpos)] at he
  linarith

theorem sum_map_sub (l : List Nat) (f g : Nat → Rat) :
    (l.map f).sum - (l.map g).sum = (l.map (fun t => f t - g t)).sum := by
  induction l with
  | nil => simp
  | cons a l ih => simp only [List.map_cons, List.sum_cons]; linarith

theorem sum_map_neg (l : List Nat) (f : Nat → Rat) : (l.map (fun t => - f t)).sum = - (l.map f).sum := by
  induction l with
  | nil => simp
  | cons a l ih => simp only [List.map_cons, List.sum_cons, ih]; ring

/-- difference of two averages over the same junction list, through a linear functional -/
theorem avg_diff {c : V3 → Rat} (hc : IsLin c) (l : List Nat) (p q : List V3) :
    c (avg (l.map (pget p))) - c (avg (l.map (pget q)))
      = (l.map (fun t => c (pget p t) - c (pget q t))).sum / (l.length : Rat) := by
  rw [hc.avg, hc.avg]
  simp only [List.map_map, List.length_map]
  rw [← sub_div]
  congr 1
  exact sum_map_sub l (fun t => c (pget p t)) (fun t => c (pget q t))

/-! ### the error against a fixed point stays in its band (Gauss–Seidel, in place) -/

theorem step_err_le {c : V3 → Rat} (hc : IsLin c) (nbrs : Nat → List Nat) (fixed : List Nat) (q p : List V3)
    (j : Nat)
    (hq : j ∉ fixed → j < q.length → pget q j = avg ((nbrs j).map (pget q)))
    (hne : j ∉ fixed → nbrs j ≠ [])
    (hlen : p.length = q.length) (M : Rat) (hM : ∀ i, c (pget p i) - c (pget q i) ≤ M) :
    ∀ i, c (pget (step nbrs fixed p j) i) - c (pget q i) ≤ M := by
  intro i
  by_cases hij : i = j
  · subst hij
    unfold step
    by_cases hf : i ∈ fixed
    · simp only [List.contains_iff_mem, hf, if_true]; exact hM i
    · simp only [List.contains_iff_mem, hf, if_false]
      by_cases hl : i < p.length
      · rw [pget_set_self _ _ _ hl, hq hf (by omega), avg_diff hc]
        have := avg_le_of_le ((nbrs i).map (fun t => c (pget p t) - c (pget q t))) M
          (fun h0 => hne hf (List.map_eq_nil_iff.mp h0))
          (fun x hx => by obtain ⟨t, _, rfl⟩ := List.mem_map.mp hx; exact hM t)
        rwa [List.length_map] at this
      · rw [List.set_eq_of_length_le (by omega)]; exact hM i
  · rw [pget_step_ne _ _ _ _ _ hij]; exact hM i

/-- one sweep: an upper bound of the error (through a linear functional) against a fixed point `q` of the
    sweep stays an upper bound — whatever the visiting order -/
theorem sweep_err_le {c : V3 → Rat} (hc : IsLin c) (inner : List Nat) (nbrs : Nat → List Nat) (fixed : List Nat)
    (q : List V3)
    (hq : ∀ j ∈ inner, j ∉ fixed → j < q.length → pget q j = avg ((nbrs j).map (pget q)))
    (hne : ∀ j ∈ inner, j ∉ fixed → nbrs j ≠ [])
    (p : List V3) (hlen : p.length = q.length) (M : Rat) (hM : ∀ i, c (pget p i) - c (pget q i) ≤ M) :
    ∀ i, c (pget (sweep inner nbrs fixed p) i) - c (pget q i) ≤ M := by
  induction inner generalizing p with
  | nil => exact hM
  | cons j js ih =>
    rw [sweep_cons]
    apply ih
    · intro t ht; exact hq t (List.mem_cons_of_mem _ ht)
    · intro t ht; exact hne t (List.mem_cons_of_mem _ ht)
    · simpa using hlen
    · exact step_err_le hc nbrs fixed q p j (hq j List.mem_cons_self) (hne j List.mem_cons_self) hlen M hM

/-- two-sided form -/
theorem sweep_abs_err_le {c : V3 → Rat} (hc : IsLin c) (inner : List Nat) (nbrs : Nat → List Nat)
    (fixed : List Nat) (q : List V3)
    (hq : ∀ j ∈ inner, j ∉ fixed → j < q.length → pget q j = avg ((nbrs j).map (pget q)))
    (hne : ∀ j ∈ inner, j ∉ fixed → nbrs j ≠ [])
    (p : List V3) (hlen : p.length = q.length) (M : Rat) (hM : ∀ i, |c (pget p i) - c (pget q i)| ≤ M) :
    ∀ i, |c (pget (sweep inner nbrs fixed p) i) - c (pget q i)| ≤ M := by
  intro i
  rw [abs_le]
  have hup := sweep_err_le hc inner nbrs fixed q hq hne p hlen M (fun t => (abs_le.mp (hM t)).2) i
  have hlo := sweep_err_le hc.neg inner nbrs fixed q hq hne p hlen M
    (fun t => by have := (abs_le.mp (hM t)).1; linarith) i
  constructor <;> linarith

/-! ### max-norm distance of two position lists -/

/-- largest coordinate difference of two points -/
def coordDist (a b : V3) : Rat := max (max |a.x - b.x| |a.y - b.y|) |a.z - b.z|

/-- max-norm distance of two position lists (over the indexes of the first) -/
def linfDist (p q : List V3) : Rat :=
  (List.range p.length).foldl (fun m i => max m (coordDist (pget p i) (pget q i))) 0

theorem coordDist_le_iff (a b : V3) (M : Rat) :
    coordDist a b ≤ M ↔ |a.x - b.x| ≤ M ∧ |a.y - b.y| ≤ M ∧ |a.z - b.z| ≤ M := by
  unfold coordDist; simp only [max_le_iff, and_assoc]

theorem foldl_max_le_iff (l : List Nat) (f : Nat → Rat) (a M : Rat) :
    l.foldl (fun m i => max m (f i)) a ≤ M ↔ a ≤ M ∧ ∀ i ∈ l, f i ≤ M := by
  induction l generalizing a with
  | nil => simp
  | cons x l ih =>
    simp only [List.foldl_cons, ih, max_le_iff, List.mem_cons, forall_eq_or_imp, and_assoc]

theorem linfDist_le_iff (p q : List V3) (M : Rat) :
    linfDist p q ≤ M ↔ 0 ≤ M ∧ ∀ i, i < p.length → coordDist (pget p i) (pget q i) ≤ M := by
  unfold linfDist
  rw [foldl_max_le_iff]
  simp only [List.mem_range]

theorem linfDist_nonneg (p q : List V3) : 0 ≤ linfDist p q :=
  ((linfDist_le_iff p q _).mp le_rfl).1

theorem coordDist_le_linfDist (p q : List V3) (i : Nat) (h : i < p.length) :
    coordDist (pget p i) (pget q i) ≤ linfDist p q :=
  ((linfDist_le_iff p q _).mp le_rfl).2 i h

theorem pget_of_le (p : List V3) (i : Nat) (h : p.length ≤ i) : pget p i = V3.zero := by
  unfold pget; simp [List.getD_eq_getElem?_getD, List.getElem?_eq_none h]

/-- **Lyapunov quantity**: the max-norm distance to a fixed point of the sweep does not increase under a
    sweep (in place, any visiting order, any graph in which the free junctions have a neighbour) -/
theorem linfDist_sweep_le (inner : List Nat) (nbrs : Nat → List Nat) (fixed : List Nat) (q : List V3)
    (hq : ∀ j ∈ inner, j ∉ fixed → j < q.length → pget q j = avg ((nbrs j).map (pget q)))
    (hne : ∀ j ∈ inner, j ∉ fixed → nbrs j ≠ [])
    (p : List V3) (hlen : p.length = q.length) :
    linfDist (sweep inner nbrs fixed p) q ≤ linfDist p q := by
  have hM : ∀ {c : V3 → Rat}, IsLin c → (∀ a b, |c a - c b| ≤ coordDist a b) →
      ∀ i, |c (pget p i) - c (pget q i)| ≤ linfDist p q := by
    intro c _ hcd i
    by_cases hi : i < p.length
    · exact (hcd _ _).trans (coordDist_le_linfDist p q i hi)
    · rw [pget_of_le p i (by omega), pget_of_le q i (by omega)]
      simpa using linfDist_nonneg p q
  have hx : ∀ a b : V3, |a.x - b.x| ≤ coordDist a b := fun a b => ((coordDist_le_iff a b _).mp le_rfl).1
  have hy : ∀ a b : V3, |a.y - b.y| ≤ coordDist a b := fun a b => ((coordDist_le_iff a b _).mp le_rfl).2.1
  have hz : ∀ a b : V3, |a.z - b.z| ≤ coordDist a b := fun a b => ((coordDist_le_iff a b _).mp le_rfl).2.2
  rw [linfDist_le_iff]
  refine ⟨linfDist_nonneg p q, fun i _ => ?_⟩
  rw [coordDist_le_iff]
  exact ⟨sweep_abs_err_le isLin_x inner nbrs fixed q hq hne p hlen _ (hM isLin_x hx) i,
         sweep_abs_err_le isLin_y inner nbrs fixed q hq hne p hlen _ (hM isLin_y hy) i,
         sweep_abs_err_le isLin_z inner nbrs fixed q hq hne p hlen _ (hM isLin_z hz) i⟩

theorem iter_succ' (f : List V3 → List V3) (k : Nat) (p : List V3) : iter f (k + 1) p = f (iter f k p) := by
  induction k generalizing p with
  | zero => rfl
  | succ k ih => rw [iter, ih (f p)]; rfl

/-! ### maximum principle: uniqueness of the fixed point -/

/-- junction `j` reaches a junction that is not free along neighbour links -/
inductive Reach (nbrs : Nat → List Nat) (free : Nat → Prop) : Nat → Prop
  | base (j : Nat) : ¬ free j → Reach nbrs free j
  | step (j t : Nat) : t ∈ nbrs j → Reach nbrs free t → Reach nbrs free j

theorem exists_argmax (e : Nat → Rat) (n : Nat) (hn : 0 < n) : ∃ j, j < n ∧ ∀ i, i < n → e i ≤ e j := by
  induction n with
  | zero => omega
  | succ n ih =>
    by_cases h0 : n = 0
    · subst h0; exact ⟨0, by omega, fun i hi => by have : i = 0 := (by omega); simp [this]⟩
    · obtain ⟨j, hj, hmax⟩ := ih (by omega)
      by_cases hle : e n ≤ e j
      · refine ⟨j, by omega, fun i hi => ?_⟩
        by_cases hin : i = n
        · subst hin; exact hle
        · exact hmax i (by omega)
      · refine ⟨n, by omega, fun i hi => ?_⟩
        by_cases hin : i = n
        · subst hin; exact le_rfl
        · exact (hmax i (by omega)).trans (le_of_lt (not_le.mp hle))

/-- a function that is the average of its neighbours at every free junction and zero elsewhere is `≤ 0`
    as soon as every free junction reaches a non-free one -/
theorem max_principle (nbrs : Nat → List Nat) (free : Nat → Prop) (n : Nat) (e : Nat → Rat)
    (hlt : ∀ j, free j → j < n)
    (hzero : ∀ i, ¬ free i → e i = 0)
    (hharm : ∀ j, free j → e j = ((nbrs j).map e).sum / ((nbrs j).length : Rat))
    (hreach : ∀ j, free j → Reach nbrs free j) : ∀ i, e i ≤ 0 := by
  intro i0
  by_contra hpos
  have hpos : 0 < e i0 := not_le.mp hpos
  have hfree0 : free i0 := by
    by_contra hnf; rw [hzero i0 hnf] at hpos; exact lt_irrefl _ hpos
  have hn : 0 < n := Nat.lt_of_le_of_lt (Nat.zero_le _) (hlt i0 hfree0)
  obtain ⟨j0, hj0, hmax⟩ := exists_argmax e n hn
  have hMpos : 0 < e j0 := lt_of_lt_of_le hpos (hmax i0 (hlt i0 hfree0))
  have hall : ∀ i, e i ≤ e j0 := by
    intro i
    by_cases hf : free i
    · exact hmax i (hlt i hf)
    · rw [hzero i hf]; exact le_of_lt hMpos
  have key : ∀ j, Reach nbrs free j → e j = e j0 → False := by
    intro j hr
    induction hr with
    | base j hnf => intro h; rw [hzero j hnf] at h; rw [← h] at hMpos; exact lt_irrefl _ hMpos
    | step j t ht _ ih =>
      intro h
      by_cases hf : free j
      · have hne : (nbrs j).map e ≠ [] := by
          intro h0; rw [List.map_eq_nil_iff] at h0; rw [h0] at ht; simp at ht
        have havg : ((nbrs j).map e).sum / (((nbrs j).map e).length : Rat) = e j0 := by
          rw [List.length_map, ← hharm j hf, h]
        have := all_eq_of_avg_eq ((nbrs j).map e) (e j0) hne
          (fun x hx => by obtain ⟨s, _, rfl⟩ := List.mem_map.mp hx; exact hall s) havg
          (e t) (List.mem_map.mpr ⟨t, ht, rfl⟩)
        exact ih this
      · rw [hzero j hf] at h; rw [← h] at hMpos; exact lt_irrefl _ hMpos
  by_cases hf : free j0
  · exact key j0 (hreach j0 hf) rfl
  · exact key j0 (Reach.base j0 hf) rfl

theorem harmonic_zero (nbrs : Nat → List Nat) (free : Nat → Prop) (n : Nat) (e : Nat → Rat)
    (hlt : ∀ j, free j → j < n)
    (hzero : ∀ i, ¬ free i → e i = 0)
    (hharm : ∀ j, free j → e j = ((nbrs j).map e).sum / ((nbrs j).length : Rat))
    (hreach : ∀ j, free j → Reach nbrs free j) : ∀ i, e i = 0 := by
  intro i
  have h1 := max_principle nbrs free n e hlt hzero hharm hreach i
  have h2 := max_principle nbrs free n (fun t => - e t) hlt
    (fun t ht => by simp only [hzero t ht]; ring)
    (fun j hj => by
      have : (nbrs j).map (fun t => - e t) = (nbrs j).map (fun t => - e t) := rfl
      simp only [sum_map_neg, hharm j hj]; ring)
    hreach i
  linarith

/-- `Reach` decided with fuel by the model's `reachSet` -/
theorem reach_of_reachSet (nbrs : Nat → List Nat) (free : Nat → Prop) (n : Nat) (nonfree : List Nat)
    (hnf : ∀ j ∈ nonfree, ¬ free j) (k : Nat) : ∀ j ∈ reachSet nbrs n nonfree k, Reach nbrs free j := by
  induction k with
  | zero => intro j hj; exact Reach.base j (hnf j hj)
  | succ k ih =>
    intro j hj
    unfold reachSet reachStep at hj
    simp only [List.mem_filter, List.mem_range, Bool.or_eq_true, List.contains_iff_mem, List.any_eq_true] at hj
    rcases hj.2 with h | ⟨t, ht, hr⟩
    · exact ih j h
    · exact Reach.step j t ht (ih t hr)

theorem Reach.mono {nbrs nbrs' : Nat → List Nat} {free : Nat → Prop} (h : ∀ j t, t ∈ nbrs' j → t ∈ nbrs j) {j : Nat}
    (hr : Reach nbrs' free j) : Reach nbrs free j := by
  induction hr with
  | base j hnf => exact Reach.base j hnf
  | step j t ht _ ih => exact Reach.step j t (h j t ht) ih

/-- the model's per-grid decision establishes the hypothesis of the uniqueness theorem -/
theorem reach_of_anchoredB (g : Grid) (fixed : List Nat) (h : anchoredB g fixed = true) :
    ∀ j ∈ inner g, j ∉ fixed → Reach (junctionNbrs g) (fun j => j ∈ inner g ∧ j ∉ fixed) j := by
  intro j hj hf
  unfold anchoredB at h
  simp only [List.all_eq_true, Bool.or_eq_true, List.contains_iff_mem] at h
  rcases h j hj with h1 | h1
  · exact absurd h1 hf
  · apply Reach.mono (nbrs' := fun j => ((List.range g.n).map (junctionNbrs g)).getD j [])
    · intro a t ht
      by_cases ha : a < g.n
      · simpa [List.getD_eq_getElem?_getD, List.getElem?_map, List.getElem?_range ha] using ht
      · simp [List.getD_eq_getElem?_getD, List.getElem?_eq_none (show ((List.range g.n).map (junctionNbrs g)).length ≤ a by simp; omega)] at ht
    · refine reach_of_reachSet _ _ g.n _ ?_ g.n j h1
      intro i hi hfree
      simp only [List.mem_filter, List.mem_range, Bool.or_eq_true, Bool.not_eq_true',
        List.contains_eq_mem, decide_eq_false_iff_not, decide_eq_true_eq] at hi
      rcases hi.2 with h2 | h2
      · exact h2 hfree.1
      · exact hfree.2 h2

/-! ### first step of a rate: next to the frame the error shrinks by the factor `1 - 1/degree` -/

theorem sum_le_of_le_of_zero (l : List Rat) (M : Rat) (h : ∀ x ∈ l, x ≤ M) (y : Rat) (hy : y ∈ l)
    (h0 : y ≤ 0) : l.sum ≤ ((l.length : Rat) - 1) * M := by
  induction l with
  | nil => simp at hy
  | cons a l ih =>
    have h1 := h a (by simp)
    have hl : ∀ x ∈ l, x ≤ M := fun x hx => h x (by simp [hx])
    simp only [List.sum_cons, List.length_cons]
    push_cast
    rcases List.mem_cons.mp hy with rfl | hy'
    · have := sum_le_of_le l M hl; linarith
    · have := ih hl hy'; linarith

/-- the update of a free junction that has a neighbour with no error (a boundary or fixed point of the same rim):
    its new error is at most `(1 - 1/degree)·M` when all errors are at most `M ≥ 0` -/
theorem step_err_contract {c : V3 → Rat} (hc : IsLin c) (nbrs : Nat → List Nat) (fixed : List Nat) (q p : List V3)
    (j t : Nat) (hf : j ∉ fixed) (hl : j < p.length)
    (hq : pget q j = avg ((nbrs j).map (pget q)))
    (ht : t ∈ nbrs j) (ht0 : c (pget p t) - c (pget q t) ≤ 0)
    (M : Rat) (hM : ∀ i, c (pget p i) - c (pget q i) ≤ M) :
    c (pget (step nbrs fixed p j) j) - c (pget q j) ≤ (1 - 1 / ((nbrs j).length : Rat)) * M := by
  unfold step
  simp only [List.contains_iff_mem, hf, if_false]
  rw [pget_set_self _ _ _ hl, hq, avg_diff hc]
  have hne : nbrs j ≠ [] := by intro h0; rw [h0] at ht; simp at ht
  have hpos := len_pos_of_ne_nil (nbrs j) hne
  have hs := sum_le_of_le_of_zero ((nbrs j).map (fun t => c (pget p t) - c (pget q t))) M
    (fun x hx => by obtain ⟨s, _, rfl⟩ := List.mem_map.mp hx; exact hM s)
    (c (pget p t) - c (pget q t)) (List.mem_map.mpr ⟨t, ht, rfl⟩) ht0
  rw [List.length_map] at hs
  rw [div_le_iff₀ hpos]
  have : (1 - 1 / ((nbrs j).length : Rat)) * M * ((nbrs j).length : Rat) = (((nbrs j).length : Rat) - 1) * M := by
    field_simp
  linarith

end CBV.C15
