/-
C19 — helper lemmas: the append loops of `Grid.__init__`, `LoftedShape.__init__` and
`TransformedStack.__init__` in closed form, `get_slice` on that closed form, duplicate-freeness.
-/
import CBV.Model.C19
import Mathlib.Data.List.Nodup

namespace CBV.C19

theorem appendLoop_eq {α β : Type} (f : α → β) (xs : List α) (init : List β) :
    appendLoop f xs init = init ++ xs.map f := by
  unfold appendLoop
  induction xs generalizing init with
  | nil => simp
  | cons x rest ih => simp [ih]

/-- the grid of `Grid(…, nx, ny)`: row `iy` holds the faces of columns 0 … nx-1 -/
theorem gridSketch_eq (nx ny level : Nat) :
    gridSketch nx ny level = (List.range ny).map (fun iy => (List.range nx).map (fun ix => (⟨ix, iy, level⟩ : Face3))) := by
  unfold gridSketch
  rw [appendLoop_eq]
  simp [appendLoop_eq]

theorem loftRow_eq {α : Type} (τ : α → α) (pre rest : List α) :
    loftRow (pre ++ rest.map τ) pre.length rest = some (rest.map (fun f => (f, τ f))) := by
  induction rest generalizing pre with
  | nil => simp [loftRow]
  | cons f rest ih =>
    have h := ih (pre ++ [τ f])
    simp only [List.append_assoc, List.singleton_append, List.length_append, List.length_singleton] at h
    simp [loftRow, h]

theorem loftRow_map {α : Type} (τ : α → α) (row : List α) :
    loftRow (row.map τ) 0 row = some (row.map (fun f => (f, τ f))) := by
  simpa using loftRow_eq τ [] row

theorem loftRows_eq {α : Type} (τ : α → α) (pre rest : List (List α)) :
    loftRows (pre ++ rest.map (·.map τ)) pre.length rest = some (rest.map (·.map (fun f => (f, τ f)))) := by
  induction rest generalizing pre with
  | nil => simp [loftRows]
  | cons row rest ih =>
    have h := ih (pre ++ [row.map τ])
    simp only [List.append_assoc, List.singleton_append, List.length_append, List.length_singleton] at h
    simp [loftRows, h, loftRow_map]

/-- a sketch lofted to its transformed copy: `lofts[i][j]` is made of `grid[i][j]` and its image, for every
    shape of nested list -/
theorem loftedGrid_map {α : Type} (τ : α → α) (g : List (List α)) :
    loftedGrid g (g.map (·.map τ)) = some (g.map (·.map (fun f => (f, τ f)))) := by
  simpa [loftedGrid] using loftRows_eq τ [] g

/-- one tier of the stack: lofts from level `k` to level `k+1`, `tier[j][i]` over cell (i, j) -/
def tier (nx ny k : Nat) : List (List Loft) :=
  (List.range ny).map (fun j => (List.range nx).map (fun i => (⟨⟨i, j, k⟩, ⟨i, j, k + 1⟩⟩ : Loft)))

theorem lift_gridSketch (nx ny l : Nat) : lift (gridSketch nx ny l) = gridSketch nx ny (l + 1) := by
  simp [lift, gridSketch_eq, List.map_map, Function.comp_def]

theorem stackLoop_eq (n nx ny l : Nat) (shapes : List (List (List Loft))) :
    stackLoop n (gridSketch nx ny l) shapes = some (shapes ++ (List.range n).map (fun t => tier nx ny (l + t))) := by
  induction n generalizing l shapes with
  | zero => simp [stackLoop]
  | succ n ih =>
    have hl : loftedGrid (gridSketch nx ny l) (lift (gridSketch nx ny l)) =
        some ((gridSketch nx ny l).map (·.map (fun f => (f, ({ f with level := f.level + 1 } : Face3))))) := by
      unfold lift
      exact loftedGrid_map _ _
    simp only [stackLoop]
    rw [hl]
    simp only [lift_gridSketch, ih]
    have ht : mkLofts ((gridSketch nx ny l).map (·.map (fun f => (f, ({ f with level := f.level + 1 } : Face3)))))
        = tier nx ny l := by
      simp [mkLofts, tier, gridSketch_eq, List.map_map, Function.comp_def]
    rw [ht, List.range_succ_eq_map]
    simp [List.map_map, Function.comp_def, Nat.add_assoc, Nat.add_comm 1]

theorem stackGrid_eq (nx ny nz : Nat) : stackGrid nx ny nz = some ((List.range nz).map (tier nx ny)) := by
  unfold stackGrid
  rw [stackLoop_eq]
  simp

theorem allSome_map_some {α β : Type} (f : α → β) (xs : List α) :
    allSome (xs.map (fun x => some (f x))) = some (xs.map f) := by
  induction xs with
  | nil => rfl
  | cons x rest ih => simp [allSome, ih]

theorem allSome_map_congr {α β : Type} (f : α → Option β) (g : α → β) (xs : List α)
    (h : ∀ x ∈ xs, f x = some (g x)) : allSome (xs.map f) = some (xs.map g) := by
  rw [← allSome_map_some]
  congr 1
  apply List.map_congr_left
  exact h

/-- the loft over cell (i, j) on tier k -/
def cell (i j k : Nat) : Loft := ⟨⟨i, j, k⟩, ⟨i, j, k + 1⟩⟩

theorem cell_inj (i j k i' j' k' : Nat) (h : cell i j k = cell i' j' k') : i = i' ∧ j = j' ∧ k = k' := by
  simp only [cell, Loft.mk.injEq, Face3.mk.injEq] at h
  exact ⟨h.1.1, h.1.2.1, h.1.2.2⟩

theorem tier_eq (nx ny k : Nat) : tier nx ny k = (List.range ny).map (fun j => (List.range nx).map (fun i => cell i j k)) := rfl

theorem slice2_eq (nx ny nz idx : Nat) (h : idx < nz) :
    getSlice ((List.range nz).map (tier nx ny)) 2 idx
      = some ((List.range ny).flatMap (fun j => (List.range nx).map (fun i => cell i j idx))) := by
  simp [getSlice, h, operations, tier_eq, List.flatMap_def]

theorem slice0_eq (nx ny nz idx : Nat) (h : idx < nx) :
    getSlice ((List.range nz).map (tier nx ny)) 0 idx
      = some ((List.range nz).flatMap (fun k => (List.range ny).map (fun j => cell idx j k))) := by
  have h1 : ∀ k, allSome ((tier nx ny k).map (fun row => row[idx]?)) = some ((List.range ny).map (fun j => cell idx j k)) := by
    intro k
    rw [tier_eq, List.map_map]
    apply allSome_map_congr
    intro j _
    simp [h]
  simp only [getSlice, List.map_map]
  rw [if_neg (by decide : ¬ ((0 : Nat) = 2)), if_pos trivial]
  have h2 : allSome ((List.range nz).map ((fun g => allSome (g.map (fun row => row[idx]?))) ∘ tier nx ny))
      = some ((List.range nz).map (fun k => (List.range ny).map (fun j => cell idx j k))) := by
    apply allSome_map_congr
    intro k _
    exact h1 k
  rw [h2]
  simp [List.flatMap_def]

theorem slice1_eq (nx ny nz idx : Nat) (h : idx < ny) :
    getSlice ((List.range nz).map (tier nx ny)) 1 idx
      = some ((List.range nz).flatMap (fun k => (List.range nx).map (fun i => cell i idx k))) := by
  simp only [getSlice, List.map_map]
  rw [if_neg (by decide : ¬ ((1 : Nat) = 2)), if_neg (by decide : ¬ ((1 : Nat) = 0))]
  have h2 : allSome ((List.range nz).map ((fun g => g[idx]?) ∘ tier nx ny))
      = some ((List.range nz).map (fun k => (List.range nx).map (fun i => cell i idx k))) := by
    apply allSome_map_congr
    intro k _
    simp [tier_eq, h]
  rw [h2]
  simp [List.flatMap_def]

theorem allSome_none {α : Type} (xs : List (Option α)) (h : none ∈ xs) : allSome xs = none := by
  induction xs with
  | nil => simp at h
  | cons x rest ih =>
    cases x with
    | none => rfl
    | some v =>
      simp only [List.mem_cons] at h
      rcases h with h | h
      · cases h
      · simp [allSome, ih h]

theorem stackOps_eq (nx ny nz : Nat) :
    stackOps ((List.range nz).map (tier nx ny))
      = (List.range nz).flatMap (fun k => (List.range ny).flatMap (fun j => (List.range nx).map (fun i => cell i j k))) := by
  simp [stackOps, operations, tier_eq, List.flatMap_def, List.map_map, Function.comp_def]

theorem mem_stackOps (nx ny nz : Nat) (c : Loft) :
    c ∈ stackOps ((List.range nz).map (tier nx ny)) ↔ ∃ i j k, i < nx ∧ j < ny ∧ k < nz ∧ c = cell i j k := by
  rw [stackOps_eq]
  simp only [List.mem_flatMap, List.mem_map, List.mem_range]
  constructor
  · rintro ⟨k, hk, j, hj, i, hi, rfl⟩; exact ⟨i, j, k, hi, hj, hk, rfl⟩
  · rintro ⟨i, j, k, hi, hj, hk, rfl⟩; exact ⟨k, hk, j, hj, i, hi, rfl⟩

theorem nodup_map_range {α : Type} (n : Nat) (f : Nat → α) (inj : ∀ a b, f a = f b → a = b) :
    ((List.range n).map f).Nodup :=
  List.Nodup.map (fun a b h => inj a b h) List.nodup_range

theorem nodup_flatMap_range {α : Type} (n : Nat) (f : Nat → List α) (h1 : ∀ k, (f k).Nodup)
    (h2 : ∀ a b, a ≠ b → ∀ x ∈ f a, x ∉ f b) : ((List.range n).flatMap f).Nodup := by
  rw [List.nodup_flatMap]
  refine ⟨fun k _ => h1 k, ?_⟩
  apply List.Pairwise.imp _ List.nodup_range
  intro a b hab
  simp only [Function.onFun]
  rw [List.disjoint_left]
  exact fun x hx => h2 a b hab x hx

theorem stackOps_nodup (nx ny nz : Nat) : (stackOps ((List.range nz).map (tier nx ny))).Nodup := by
  rw [stackOps_eq]
  apply nodup_flatMap_range
  · intro k
    apply nodup_flatMap_range
    · intro j
      apply nodup_map_range
      intro a b h; exact (cell_inj _ _ _ _ _ _ h).1
    · intro a b hab x hx hx'
      simp only [List.mem_map, List.mem_range] at hx hx'
      obtain ⟨i, _, rfl⟩ := hx
      obtain ⟨i', _, h⟩ := hx'
      exact hab (cell_inj _ _ _ _ _ _ h).2.1.symm
  · intro a b hab x hx hx'
    simp only [List.mem_flatMap, List.mem_map, List.mem_range] at hx hx'
    obtain ⟨j, _, i, _, rfl⟩ := hx
    obtain ⟨j', _, i', _, h⟩ := hx'
    exact hab (cell_inj _ _ _ _ _ _ h).2.2.symm

end CBV.C19
