/-
C11 — helper lemmas: the breadth-first closure of the model computes exactly the axes that are
reachable from the chopped ones through shared wires, and never runs out of fuel.
-/
import CBV.Model.C11
import Mathlib.Data.List.Perm.Subperm

namespace CBV.C11

/-- an axis (node) is *reachable* when it is chopped or shares a wire with a reachable axis -/
inductive Reach (T : List (List Wire)) (S : List Nat) : Nat → Prop
  | seed {n : Nat} : n ∈ S → n < T.length → Reach T S n
  | step {m n : Nat} : Reach T S m → adjT T m n = true → n < T.length → Reach T S n

theorem mem_newNodes {T : List (List Wire)} {vis fr : List Nat} {n : Nat} :
    n ∈ newNodes T vis fr ↔ n < T.length ∧ n ∉ vis ∧ ∃ m ∈ fr, adjT T m n = true := by
  simp [newNodes, List.mem_filter, List.mem_range, List.any_eq_true]

theorem mem_seedsOf {T : List (List Wire)} {S : List Nat} {n : Nat} :
    n ∈ seedsOf T S ↔ n < T.length ∧ n ∈ S := by
  simp [seedsOf, List.mem_filter, List.mem_range]

/-- soundness of the passes: whatever ends up defined is reachable -/
theorem iter_sound (T : List (List Wire)) (S : List Nat) :
    ∀ (fuel : Nat) (vis fr d : List Nat), iter T fuel vis fr = some d →
      (∀ x ∈ vis, Reach T S x) → (∀ x ∈ fr, x ∈ vis) → ∀ x ∈ d, Reach T S x := by
  intro fuel
  induction fuel with
  | zero => intro vis fr d h; simp [iter] at h
  | succ k ih =>
    intro vis fr d h hv hf
    unfold iter at h
    split at h
    · cases h; exact hv
    · rename_i x xs hnew
      apply ih _ _ _ h
      · intro y hy
        rcases List.mem_append.mp hy with hy | hy
        · exact hv y hy
        · have : y ∈ newNodes T vis fr := by rw [hnew]; exact hy
          obtain ⟨hlt, _, m, hm, ha⟩ := mem_newNodes.mp this
          exact Reach.step (hv m (hf m hm)) ha hlt
      · intro y hy
        exact List.mem_append.mpr (Or.inr hy)

/-- the result contains the starting set -/
theorem iter_mono (T : List (List Wire)) :
    ∀ (fuel : Nat) (vis fr d : List Nat), iter T fuel vis fr = some d → ∀ x ∈ vis, x ∈ d := by
  intro fuel
  induction fuel with
  | zero => intro vis fr d h; simp [iter] at h
  | succ k ih =>
    intro vis fr d h
    unfold iter at h
    split at h
    · cases h; exact fun x hx => hx
    · intro x hx
      exact ih _ _ _ h x (List.mem_append.mpr (Or.inl hx))

/-- the result is closed under the neighbour relation -/
theorem iter_closed (T : List (List Wire)) :
    ∀ (fuel : Nat) (vis fr d : List Nat), iter T fuel vis fr = some d →
      (∀ m ∈ vis, m ∉ fr → ∀ n, n < T.length → adjT T m n = true → n ∈ vis) →
      ∀ m ∈ d, ∀ n, n < T.length → adjT T m n = true → n ∈ d := by
  intro fuel
  induction fuel with
  | zero => intro vis fr d h; simp [iter] at h
  | succ k ih =>
    intro vis fr d h inv
    unfold iter at h
    split at h
    · rename_i hnew
      cases h
      intro m hm n hn ha
      by_cases hmf : m ∈ fr
      · by_contra hnv
        have : n ∈ newNodes T vis fr := mem_newNodes.mpr ⟨hn, hnv, m, hmf, ha⟩
        rw [hnew] at this
        exact absurd this (List.not_mem_nil)
      · exact inv m hm hmf n hn ha
    · rename_i x xs hnew
      apply ih _ _ _ h
      intro m hm hmn n hn ha
      rcases List.mem_append.mp hm with hm | hm
      · by_cases hmf : m ∈ fr
        · by_cases hnv : n ∈ vis
          · exact List.mem_append.mpr (Or.inl hnv)
          · have : n ∈ newNodes T vis fr := mem_newNodes.mpr ⟨hn, hnv, m, hmf, ha⟩
            rw [hnew] at this
            exact List.mem_append.mpr (Or.inr this)
        · exact List.mem_append.mpr (Or.inl (inv m hm hmf n hn ha))
      · exact absurd hm hmn

/-- completeness: every reachable axis ends up defined -/
theorem closureT_complete (T : List (List Wire)) (S d : List Nat) (h : closureT T S = some d) :
    ∀ x, Reach T S x → x ∈ d := by
  unfold closureT at h
  have hclosed := iter_closed T _ _ _ d h (fun m hm hmf => absurd hm hmf)
  have hmono := iter_mono T _ _ _ d h
  intro x hx
  induction hx with
  | seed hs hl => exact hmono _ (mem_seedsOf.mpr ⟨hl, hs⟩)
  | step _ ha hl ih => exact hclosed _ ih _ hl ha

theorem closureT_sound (T : List (List Wire)) (S d : List Nat) (h : closureT T S = some d) :
    ∀ x ∈ d, Reach T S x := by
  unfold closureT at h
  apply iter_sound T S _ _ _ d h
  · intro x hx
    obtain ⟨hl, hs⟩ := mem_seedsOf.mp hx
    exact Reach.seed hs hl
  · exact fun x hx => hx

/-! ### fuel -/

theorem nodup_lt_length_le {l : List Nat} {N : Nat} (hn : l.Nodup) (hl : ∀ x ∈ l, x < N) : l.length ≤ N := by
  have hsub : l ⊆ List.range N := fun x hx => List.mem_range.mpr (hl x hx)
  have := (List.subperm_of_subset hn hsub).length_le
  simpa using this

theorem newNodes_nodup (T : List (List Wire)) (vis fr : List Nat) : (newNodes T vis fr).Nodup :=
  List.Nodup.sublist List.filter_sublist List.nodup_range

theorem iter_fuel (T : List (List Wire)) :
    ∀ (fuel : Nat) (vis fr : List Nat), vis.Nodup → (∀ x ∈ vis, x < T.length) →
      T.length < fuel + vis.length → (iter T fuel vis fr).isSome = true := by
  intro fuel
  induction fuel with
  | zero =>
    intro vis fr hn hl hf
    have := nodup_lt_length_le hn hl
    omega
  | succ k ih =>
    intro vis fr hn hl hf
    unfold iter
    split
    · rfl
    · rename_i x xs hnew
      have hmem : ∀ y ∈ x :: xs, y < T.length ∧ y ∉ vis := by
        intro y hy
        have : y ∈ newNodes T vis fr := by rw [hnew]; exact hy
        obtain ⟨h1, h2, _⟩ := mem_newNodes.mp this
        exact ⟨h1, h2⟩
      have hnd : (x :: xs).Nodup := by rw [← hnew]; exact newNodes_nodup T vis fr
      apply ih
      · refine List.nodup_append.mpr ⟨hn, hnd, ?_⟩
        intro a ha b hb hab
        subst hab
        exact (hmem a hb).2 ha
      · intro y hy
        rcases List.mem_append.mp hy with hy | hy
        · exact hl y hy
        · exact (hmem y hy).1
      · simp only [List.length_append, List.length_cons]
        omega

theorem seedsOf_nodup (T : List (List Wire)) (S : List Nat) : (seedsOf T S).Nodup :=
  List.Nodup.sublist List.filter_sublist List.nodup_range

/-- the fuel `#nodes + 1` is always sufficient -/
theorem closureT_isSome (T : List (List Wire)) (S : List Nat) : (closureT T S).isSome = true := by
  unfold closureT
  apply iter_fuel
  · exact seedsOf_nodup T S
  · intro x hx; exact (mem_seedsOf.mp hx).1
  · omega

theorem wireTable_length (B : Blocking) : (wireTable B).length = 3 * B.length := by
  unfold wireTable
  induction B with
  | nil => rfl
  | cons b bs ih =>
    simp only [List.flatMap_cons, List.length_append, List.length_cons, List.length_nil, ih]
    omega

end CBV.C11
