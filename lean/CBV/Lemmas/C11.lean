/-
C11 — helper lemmas: the breadth-first closure of the model computes exactly the axes that are
reachable from the chopped ones through shared wires, and never runs out of fuel; wire sets as bit masks.
-/
import CBV.Model.C11

namespace CBV.C11

/-! ### bit masks as wire sets -/

theorem ne_zero_iff_testBit (x : Nat) : x ≠ 0 ↔ ∃ i, x.testBit i = true := by
  constructor
  · intro h
    apply Classical.byContradiction
    intro hne
    apply h
    apply Nat.eq_of_testBit_eq
    intro i
    rw [Nat.zero_testBit]
    cases hb : x.testBit i
    · rfl
    · exact absurd ⟨i, hb⟩ hne
  · rintro ⟨i, hi⟩ h0
    rw [h0, Nat.zero_testBit] at hi
    cases hi

theorem testBit_orAll (ms : List Mask) (i : Nat) :
    (orAll ms).testBit i = true ↔ ∃ m ∈ ms, m.testBit i = true := by
  induction ms with
  | nil => simp [orAll]
  | cons m ms ih =>
    have : orAll (m :: ms) = m ||| orAll ms := rfl
    rw [this, Nat.testBit_or, Bool.or_eq_true, ih]
    simp

/-- wire `w` belongs to the mask of a wire list iff it is in the list -/
theorem testBit_maskOf (ws : List Wire) (w : Nat) : (maskOf ws).testBit w = true ↔ w ∈ ws := by
  unfold maskOf
  rw [testBit_orAll]
  constructor
  · rintro ⟨m, hm, hb⟩
    obtain ⟨v, hv, rfl⟩ := List.mem_map.mp hm
    rw [Nat.testBit_two_pow] at hb
    have : v = w := by simpa using hb
    exact this ▸ hv
  · intro h
    exact ⟨2 ^ w, List.mem_map.mpr ⟨w, h, rfl⟩, Nat.testBit_two_pow_self⟩

/-- two masks meet iff they have a wire in common -/
theorem and_ne_zero_iff (a b : Mask) : a &&& b ≠ 0 ↔ ∃ w, a.testBit w = true ∧ b.testBit w = true := by
  rw [ne_zero_iff_testBit]
  simp [Nat.testBit_and]

/-- the unordered-pair code is injective below the bound -/
theorem wireKey_inj {M u v u' v' : Nat} (hu : u < M) (hv : v < M) (hu' : u' < M) (hv' : v' < M)
    (h : wireKey M u v = wireKey M u' v') : (u = u' ∧ v = v') ∨ (u = v' ∧ v = u') := by
  have key : ∀ a b a' b' : Nat, b < M → b' < M → a * M + b = a' * M + b' → a = a' ∧ b = b' := by
    intro a b a' b' hb hb' he
    have hM : 0 < M := by omega
    have h1 : (a * M + b) / M = a := by
      rw [Nat.mul_comm, Nat.mul_add_div hM, Nat.div_eq_of_lt hb]; rfl
    have h2 : (a' * M + b') / M = a' := by
      rw [Nat.mul_comm, Nat.mul_add_div hM, Nat.div_eq_of_lt hb']; rfl
    have ha : a = a' := by rw [← h1, ← h2, he]
    subst ha
    exact ⟨rfl, by omega⟩
  unfold wireKey at h
  split at h <;> split at h
  · left; exact key _ _ _ _ hv hv' h
  · right
    obtain ⟨h1, h2⟩ := key _ _ _ _ hv hu' h
    exact ⟨h1, h2⟩
  · right
    obtain ⟨h1, h2⟩ := key _ _ _ _ hu hv' h
    exact ⟨h2, h1⟩
  · left
    obtain ⟨h1, h2⟩ := key _ _ _ _ hu hu' h
    exact ⟨h2, h1⟩

/-! ### reachability -/

/-- two axes (nodes) are neighbours when they own a common wire (`Axis.add_neighbour`) -/
def Adj (T : List Mask) (m n : Nat) : Prop := ∃ w, (T.getD m 0).testBit w = true ∧ (T.getD n 0).testBit w = true

/-- an axis (node) is *reachable* when it is chopped or shares a wire with a reachable axis -/
inductive Reach (T : List Mask) (S : List Nat) : Nat → Prop
  | seed {n : Nat} : n ∈ S → n < T.length → Reach T S n
  | step {m n : Nat} : Reach T S m → Adj T m n → n < T.length → Reach T S n

theorem Adj.symm {T : List Mask} {m n : Nat} (h : Adj T m n) : Adj T n m := by
  obtain ⟨w, h1, h2⟩ := h
  exact ⟨w, h2, h1⟩

theorem mem_nodesOf {T : List Mask} {x : Node} :
    x ∈ nodesOf T ↔ x.2 < T.length ∧ x.1 = T.getD x.2 0 := by
  obtain ⟨ws, n⟩ := x
  simp only [nodesOf, List.mem_zipIdx_iff_getElem?]
  constructor
  · intro h
    obtain ⟨hl, he⟩ := List.getElem?_eq_some_iff.mp h
    exact ⟨hl, by simp [List.getD, List.getElem?_eq_getElem hl, he]⟩
  · rintro ⟨hl, he⟩
    simp only [List.getD, List.getElem?_eq_getElem hl, Option.getD_some] at he
    simp [List.getElem?_eq_getElem hl, he]

theorem node_mem {T : List Mask} {n : Nat} (h : n < T.length) : (T.getD n 0, n) ∈ nodesOf T :=
  mem_nodesOf.mpr ⟨h, rfl⟩

theorem memN_iff {n : Nat} {l : List Nat} : memN n l = true ↔ n ∈ l := by
  induction l with
  | nil => simp [memN]
  | cons x xs ih => simp [memN, ih]

theorem hit_iff {fw : Mask} {x : Node} : hit fw x = true ↔ ∃ w, x.1.testBit w = true ∧ fw.testBit w = true := by
  have h := and_ne_zero_iff fw x.1
  unfold hit
  constructor
  · intro hh
    have hne : fw &&& x.1 ≠ 0 := by
      intro h0
      simp [h0] at hh
    obtain ⟨w, h1, h2⟩ := h.mp hne
    exact ⟨w, h2, h1⟩
  · rintro ⟨w, h1, h2⟩
    have hne : fw &&& x.1 ≠ 0 := h.mpr ⟨w, h2, h1⟩
    cases hb : Nat.beq (fw &&& x.1) 0
    · rfl
    · exact absurd (Nat.eq_of_beq_eq_true hb) hne

/-- soundness of the passes: whatever ends up defined is reachable -/
theorem iter_sound (T : List Mask) (S : List Nat) :
    ∀ (fuel : Nat) (vis : List Nat) (fw : Mask) (rest : List Node) (d : List Nat),
      iter fuel vis fw rest = some d →
      (∀ x ∈ vis, Reach T S x) → (∀ w, fw.testBit w = true → ∃ m ∈ vis, (T.getD m 0).testBit w = true) →
      (∀ x ∈ rest, x ∈ nodesOf T) →
      ∀ x ∈ d, Reach T S x := by
  intro fuel
  induction fuel with
  | zero => intro vis fw rest d h; simp [iter] at h
  | succ k ih =>
    intro vis fw rest d h hv hf hr
    unfold iter at h
    split at h
    · cases h; exact hv
    · rename_i x xs hnew
      have hmem : ∀ y ∈ x :: xs, y ∈ rest ∧ hit fw y = true := by
        intro y hy
        rw [← hnew] at hy
        exact List.mem_filter.mp hy
      apply ih _ _ _ _ h
      · intro y hy
        rcases List.mem_append.mp hy with hy | hy
        · obtain ⟨z, hz, rfl⟩ := List.mem_map.mp hy
          obtain ⟨hzr, hzh⟩ := hmem z hz
          obtain ⟨hl, he⟩ := mem_nodesOf.mp (hr z hzr)
          obtain ⟨w, hw1, hw2⟩ := hit_iff.mp hzh
          obtain ⟨m, hm, hwm⟩ := hf w hw2
          exact Reach.step (hv m hm) ⟨w, hwm, he ▸ hw1⟩ hl
        · exact hv y hy
      · intro w hw
        obtain ⟨mk, hmk, hb⟩ := (testBit_orAll _ w).mp hw
        obtain ⟨z, hz, rfl⟩ := List.mem_map.mp hmk
        obtain ⟨hzr, _⟩ := hmem z hz
        obtain ⟨_, he⟩ := mem_nodesOf.mp (hr z hzr)
        exact ⟨z.2, List.mem_append.mpr (Or.inl (List.mem_map.mpr ⟨z, hz, rfl⟩)), he ▸ hb⟩
      · intro y hy
        exact hr y (List.mem_filter.mp hy).1

/-- the result contains the starting set -/
theorem iter_mono :
    ∀ (fuel : Nat) (vis : List Nat) (fw : Mask) (rest : List Node) (d : List Nat),
      iter fuel vis fw rest = some d → ∀ x ∈ vis, x ∈ d := by
  intro fuel
  induction fuel with
  | zero => intro vis fw rest d h; simp [iter] at h
  | succ k ih =>
    intro vis fw rest d h
    unfold iter at h
    split at h
    · cases h; exact fun x hx => hx
    · intro x hx
      exact ih _ _ _ _ h x (List.mem_append.mpr (Or.inr hx))

/-- the result is closed under the neighbour relation -/
theorem iter_closed (T : List Mask) :
    ∀ (fuel : Nat) (vis : List Nat) (fw : Mask) (rest : List Node) (d : List Nat),
      iter fuel vis fw rest = some d →
      (∀ x ∈ rest, x ∈ nodesOf T) →
      (∀ n, n < T.length → n ∈ vis ∨ (T.getD n 0, n) ∈ rest) →
      (∀ m ∈ vis, ∀ x ∈ rest, (∃ w, (T.getD m 0).testBit w = true ∧ x.1.testBit w = true) → hit fw x = true) →
      ∀ m ∈ d, ∀ n, n < T.length → Adj T m n → n ∈ d := by
  intro fuel
  induction fuel with
  | zero => intro vis fw rest d h; simp [iter] at h
  | succ k ih =>
    intro vis fw rest d h hr ha hb
    unfold iter at h
    split at h
    · rename_i hnew
      cases h
      intro m hm n hn hadj
      rcases ha n hn with hv | hrest
      · exact hv
      · have h1 : hit fw (T.getD n 0, n) = true := hb m hm _ hrest hadj
        have : (T.getD n 0, n) ∈ rest.filter (hit fw) := List.mem_filter.mpr ⟨hrest, h1⟩
        rw [hnew] at this
        exact absurd this List.not_mem_nil
    · rename_i x xs hnew
      have hmem : ∀ y, y ∈ x :: xs ↔ y ∈ rest ∧ hit fw y = true := by
        intro y
        rw [← hnew]
        exact List.mem_filter
      apply ih _ _ _ _ h
      · intro y hy
        exact hr y (List.mem_filter.mp hy).1
      · intro n hn
        rcases ha n hn with hv | hrest
        · exact Or.inl (List.mem_append.mpr (Or.inr hv))
        · by_cases hh : hit fw (T.getD n 0, n) = true
          · left
            exact List.mem_append.mpr (Or.inl (List.mem_map.mpr ⟨_, (hmem _).mpr ⟨hrest, hh⟩, rfl⟩))
          · right
            exact List.mem_filter.mpr ⟨hrest, by cases h' : hit fw (T.getD n 0, n) <;> simp_all⟩
      · intro m hm y hy hsh
        obtain ⟨hyr, hyh⟩ := List.mem_filter.mp hy
        rcases List.mem_append.mp hm with hm | hm
        · obtain ⟨z, hz, rfl⟩ := List.mem_map.mp hm
          obtain ⟨hzr, _⟩ := (hmem z).mp hz
          obtain ⟨_, he⟩ := mem_nodesOf.mp (hr z hzr)
          obtain ⟨w, hw1, hw2⟩ := hsh
          exact hit_iff.mpr ⟨w, hw2, (testBit_orAll _ w).mpr ⟨z.1, List.mem_map.mpr ⟨z, hz, rfl⟩, he ▸ hw1⟩⟩
        · have := hb m hm y hyr hsh
          simp [this] at hyh

theorem closureT_sound (T : List Mask) (S d : List Nat) (h : closureT T S = some d) :
    ∀ x ∈ d, Reach T S x := by
  unfold closureT at h
  apply iter_sound T S _ _ _ _ d h
  · intro x hx
    obtain ⟨z, hz, rfl⟩ := List.mem_map.mp hx
    obtain ⟨hzn, hzc⟩ := List.mem_filter.mp hz
    exact Reach.seed (memN_iff.mp hzc) (mem_nodesOf.mp hzn).1
  · intro w hw
    obtain ⟨mk, hmk, hb⟩ := (testBit_orAll _ w).mp hw
    obtain ⟨z, hz, rfl⟩ := List.mem_map.mp hmk
    obtain ⟨hzn, _⟩ := List.mem_filter.mp hz
    exact ⟨z.2, List.mem_map.mpr ⟨z, hz, rfl⟩, (mem_nodesOf.mp hzn).2 ▸ hb⟩
  · intro x hx
    exact (List.mem_filter.mp hx).1

/-- completeness: every reachable axis ends up defined -/
theorem closureT_complete (T : List Mask) (S d : List Nat) (h : closureT T S = some d) :
    ∀ x, Reach T S x → x ∈ d := by
  unfold closureT at h
  have hmono := iter_mono _ _ _ _ d h
  have hclosed := iter_closed T _ _ _ _ d h
    (fun x hx => (List.mem_filter.mp hx).1)
    (by
      intro n hn
      by_cases hc : memN n S = true
      · left
        exact List.mem_map.mpr ⟨(T.getD n 0, n), List.mem_filter.mpr ⟨node_mem hn, hc⟩, rfl⟩
      · right
        exact List.mem_filter.mpr ⟨node_mem hn, by cases h' : memN n S <;> simp_all⟩)
    (by
      intro m hm x _ hsh
      obtain ⟨z, hz, rfl⟩ := List.mem_map.mp hm
      obtain ⟨hzn, _⟩ := List.mem_filter.mp hz
      obtain ⟨w, hw1, hw2⟩ := hsh
      exact hit_iff.mpr ⟨w, hw2, (testBit_orAll _ w).mpr
        ⟨z.1, List.mem_map.mpr ⟨z, hz, rfl⟩, (mem_nodesOf.mp hzn).2 ▸ hw1⟩⟩)
  intro x hx
  induction hx with
  | seed hs hl =>
    apply hmono
    exact List.mem_map.mpr ⟨(T.getD _ 0, _), List.mem_filter.mpr ⟨node_mem hl, memN_iff.mpr hs⟩, rfl⟩
  | step _ ha hl ih => exact hclosed _ ih _ hl ha

/-! ### fuel -/

theorem filter_not_length {α : Type} (p : α → Bool) (l : List α) :
    (l.filter (fun y => !p y)).length + (l.filter p).length = l.length := by
  induction l with
  | nil => rfl
  | cons a as ih =>
    cases hp : p a <;> simp [hp] <;> omega

theorem filter_lt_of_hit {α : Type} (p : α → Bool) (l : List α) (x : α) (xs : List α)
    (h : l.filter p = x :: xs) : (l.filter (fun y => !p y)).length < l.length := by
  have := filter_not_length p l
  rw [h] at this
  simp only [List.length_cons] at this
  omega

theorem iter_fuel :
    ∀ (fuel : Nat) (vis : List Nat) (fw : Mask) (rest : List Node),
      rest.length < fuel → (iter fuel vis fw rest).isSome = true := by
  intro fuel
  induction fuel with
  | zero => intro vis fw rest h; omega
  | succ k ih =>
    intro vis fw rest hf
    unfold iter
    split
    · rfl
    · rename_i x xs hnew
      apply ih
      have := filter_lt_of_hit (hit fw) rest x xs hnew
      omega

/-- the fuel `#nodes + 1` is always sufficient -/
theorem closureT_isSome (T : List Mask) (S : List Nat) : (closureT T S).isSome = true := by
  unfold closureT
  apply iter_fuel
  have h1 := List.length_filter_le (fun x : Node => !memN x.2 S) (nodesOf T)
  have h2 : (nodesOf T).length = T.length := by simp [nodesOf]
  omega

theorem wireTable_eq (B : Blocking) : wireTable B = wireTableM (vertexBound B) B := by
  unfold wireTable
  split <;> rename_i h <;> rw [h]

theorem wireTable_length (B : Blocking) : (wireTable B).length = 3 * B.length := by
  rw [wireTable_eq]
  unfold wireTableM
  generalize vertexBound B = M
  induction B with
  | nil => rfl
  | cons b bs ih =>
    simp only [List.flatMap_cons, List.length_append, List.length_cons, List.length_nil, ih]
    omega

end CBV.C11
