/-
C11 — helper lemmas for stacks with any number of tiers: the blocks of `stackBlocks Q k`, the shift of
the neighbour relation from one tier to any tier, and the edges consecutive tiers share.
-/
import CBV.Lemmas.C11Ring

namespace CBV.C11

/-- well-formed quad map: four different points per quad -/
def WfQuads (Q : List (List Nat)) : Prop := ∀ q ∈ Q, q.length = 4 ∧ q.Nodup

theorem loft_length (Q : List (List Nat)) (np l : Nat) : (loftBlocks Q np l).length = Q.length := by
  simp [loftBlocks]

theorem loft_getD (Q : List (List Nat)) (np l i : Nat) (hi : i < Q.length) :
    (loftBlocks Q np l).getD i [] =
      (Q.getD i []).map (· + l * np) ++ (Q.getD i []).map (· + (l + 1) * np) := by
  simp [loftBlocks, List.getD_eq_getElem?_getD, List.getElem?_map, List.getElem?_eq_getElem hi]

theorem stackBlocks_succ (Q : List (List Nat)) (k : Nat) :
    stackBlocks Q (k + 1) = stackBlocks Q k ++ loftBlocks Q (nPoints Q) k := by
  simp [stackBlocks, List.range_succ, List.flatMap_append]

theorem stack_length (Q : List (List Nat)) (k : Nat) : (stackBlocks Q k).length = k * Q.length := by
  induction k with
  | zero => simp [stackBlocks]
  | succ k ih => rw [stackBlocks_succ, List.length_append, ih, loft_length, Nat.succ_mul]

theorem stack_getD (Q : List (List Nat)) (k l i : Nat) (hl : l < k) (hi : i < Q.length) :
    (stackBlocks Q k).getD (l * Q.length + i) [] = (loftBlocks Q (nPoints Q) l).getD i [] := by
  induction k with
  | zero => omega
  | succ k ih =>
    rw [stackBlocks_succ]
    simp only [List.getD_eq_getElem?_getD]
    by_cases hlk : l < k
    · have hlt : l * Q.length + i < (stackBlocks Q k).length := by
        rw [stack_length]
        have : (l + 1) * Q.length ≤ k * Q.length := Nat.mul_le_mul_right _ hlk
        rw [Nat.succ_mul] at this
        omega
      rw [List.getElem?_append_left hlt]
      have := ih hlk
      simp only [List.getD_eq_getElem?_getD] at this
      exact this
    · have hlk' : l = k := by omega
      subst hlk'
      have hge : (stackBlocks Q l).length ≤ l * Q.length + i := by rw [stack_length]; omega
      rw [List.getElem?_append_right hge, stack_length]
      have : l * Q.length + i - l * Q.length = i := by omega
      rw [this]

/-- corner `c` of the block lofted from a quad between offsets `A` (bottom) and `B` (top) -/
theorem loft_corner (q : List Nat) (hq : q.length = 4) (A B c : Nat) (hc : c < 8) :
    (q.map (· + A) ++ q.map (· + B)).getD c 0 = if c < 4 then q.getD c 0 + A else q.getD (c - 4) 0 + B := by
  match q, hq with
  | [q0, q1, q2, q3], _ =>
    have : c = 0 ∨ c = 1 ∨ c = 2 ∨ c = 3 ∨ c = 4 ∨ c = 5 ∨ c = 6 ∨ c = 7 := by omega
    rcases this with rfl | rfl | rfl | rfl | rfl | rfl | rfl | rfl <;> simp

/-- a corner of the block of quad `i` in tier `l` is the corner of the same block in the single-tier
    blocking, shifted by `l` layers -/
theorem stack_corner (Q : List (List Nat)) (hw : WfQuads Q) (k l i c : Nat) (hl : l < k) (hi : i < Q.length)
    (hc : c < 8) :
    ((stackBlocks Q k).getD (l * Q.length + i) []).getD c 0 =
      ((stackBlocks Q 1).getD i []).getD c 0 + l * nPoints Q := by
  have hq : (Q.getD i []).length = 4 := by
    have : Q.getD i [] ∈ Q := by
      simp only [List.getD_eq_getElem?_getD, List.getElem?_eq_getElem hi, Option.getD_some]
      exact List.getElem_mem hi
    exact (hw _ this).1
  rw [stack_getD Q k l i hl hi, loft_getD Q _ l i hi, loft_corner _ hq _ _ c hc]
  rw [stackBlocks_one, loft_getD Q _ 0 i hi, loft_corner _ hq _ _ c hc]
  by_cases h4 : c < 4
  · simp [h4]
  · simp only [h4, if_false]
    rw [Nat.succ_mul]
    omega

theorem axisPairs_lt : ∀ a, a < 3 → ∀ p ∈ CBV.Gen.axisPairs.getD a [], p.1 < 8 ∧ p.2 < 8 := by decide

/-- the neighbour relation of the single-tier blocking holds in every tier -/
theorem sharesEdge_shift (Q : List (List Nat)) (hw : WfQuads Q) (k l i i' a a' : Nat) (hl : l < k)
    (hi : i < Q.length) (hi' : i' < Q.length) (ha : a < 3) (ha' : a' < 3)
    (h : SharesEdge ((stackBlocks Q 1).getD i []) ((stackBlocks Q 1).getD i' []) a a') :
    SharesEdge ((stackBlocks Q k).getD (l * Q.length + i) []) ((stackBlocks Q k).getD (l * Q.length + i') []) a a' := by
  obtain ⟨p, hp, p', hp', hne, heq⟩ := h
  obtain ⟨hp1, hp2⟩ := axisPairs_lt a ha p hp
  obtain ⟨hp1', hp2'⟩ := axisPairs_lt a' ha' p' hp'
  refine ⟨p, hp, p', hp', ?_, ?_⟩
  · rw [stack_corner Q hw k l i _ hl hi hp1, stack_corner Q hw k l i _ hl hi hp2]
    omega
  · rw [stack_corner Q hw k l i _ hl hi hp1, stack_corner Q hw k l i _ hl hi hp2,
      stack_corner Q hw k l i' _ hl hi' hp1', stack_corner Q hw k l i' _ hl hi' hp2']
    rcases heq with ⟨h1, h2⟩ | ⟨h1, h2⟩
    · left; omega
    · right; omega

theorem pair_mem_axis0_45 : ((4, 5) : Nat × Nat) ∈ CBV.Gen.axisPairs.getD 0 [] := by decide
theorem pair_mem_axis1_03 : ((0, 3) : Nat × Nat) ∈ CBV.Gen.axisPairs.getD 1 [] := by decide
theorem pair_mem_axis1_47 : ((4, 7) : Nat × Nat) ∈ CBV.Gen.axisPairs.getD 1 [] := by decide

/-- the block of quad `i` in tier `l+1` shares, along the sketch axes 0 and 1, its bottom edges with the
    top edges of the block of the same quad in tier `l` -/
theorem sharesEdge_up (Q : List (List Nat)) (hw : WfQuads Q) (k l i a : Nat) (hl : l + 1 < k)
    (hi : i < Q.length) (ha : a < 2) :
    SharesEdge ((stackBlocks Q k).getD (l * Q.length + i) []) ((stackBlocks Q k).getD ((l + 1) * Q.length + i) []) a a := by
  have hqm : Q.getD i [] ∈ Q := by
    simp only [List.getD_eq_getElem?_getD, List.getElem?_eq_getElem hi, Option.getD_some]
    exact List.getElem_mem hi
  obtain ⟨hq, hnd⟩ := hw _ hqm
  rw [stack_getD Q k l i (by omega) hi, loft_getD Q _ l i hi,
    stack_getD Q k (l + 1) i hl hi, loft_getD Q _ (l + 1) i hi]
  generalize Q.getD i [] = q at hq hnd
  match q, hq with
  | [q0, q1, q2, q3], _ =>
    simp only [List.nodup_cons, List.mem_cons, List.not_mem_nil, or_false, not_or] at hnd
    have ha' : a = 0 ∨ a = 1 := by omega
    rcases ha' with rfl | rfl
    · refine ⟨(4, 5), pair_mem_axis0_45, (0, 1), pair_mem_axis0_01, ?_, Or.inl ⟨?_, ?_⟩⟩ <;> simp <;> omega
    · refine ⟨(4, 7), pair_mem_axis1_47, (0, 3), pair_mem_axis1_03, ?_, Or.inl ⟨?_, ?_⟩⟩ <;> simp <;> omega

/-! ### reachability in every tier -/

/-- `Stack.chop()`: axis 2 of the first operation of every tier -/
def axialSeeds (nQ k : Nat) : List Nat := (List.range k).map (fun l => 3 * (l * nQ) + 2)

theorem tier_bound (nQ k l n : Nat) (hl : l < k) (hn : n < 3 * nQ) : n + 3 * (l * nQ) < 3 * (k * nQ) := by
  have : (l + 1) * nQ ≤ k * nQ := Nat.mul_le_mul_right _ hl
  rw [Nat.succ_mul] at this
  omega

/-- a chopped axis 0/1 of the first tier defines the same axis of the same quad in every tier above -/
theorem stack_seed_lift (Q : List (List Nat)) (hw : WfQuads Q) (S : List Nat) (k s : Nat)
    (hs : s ∈ S) (hlt : s < 3 * Q.length) (h2 : s % 3 ≠ 2) :
    ∀ l, l < k → Reach (wireTable (stackBlocks Q k)) S (s + 3 * (l * Q.length)) := by
  have hT : (wireTable (stackBlocks Q k)).length = 3 * (k * Q.length) := by rw [wireTable_length, stack_length]
  intro l
  induction l with
  | zero =>
    intro hl
    have hb := tier_bound Q.length k 0 s hl hlt
    simp only [Nat.zero_mul, Nat.mul_zero, Nat.add_zero] at hb ⊢
    exact Reach.seed hs (by omega)
  | succ l ih =>
    intro hl
    have hprev := ih (by omega)
    have hi : s / 3 < Q.length := by omega
    have ha : s % 3 < 2 := by omega
    have hlen : (stackBlocks Q k).length = k * Q.length := stack_length Q k
    have hb1 := tier_bound Q.length k l s (by omega) hlt
    have hb2 := tier_bound Q.length k (l + 1) s hl hlt
    have hadj := adj_of_sharesEdge (stackBlocks Q k) (l * Q.length + s / 3) ((l + 1) * Q.length + s / 3) (s % 3) (s % 3)
      (by rw [hlen]; omega) (by rw [hlen]; omega) (by omega) (by omega) (sharesEdge_up Q hw k l (s / 3) (s % 3) hl hi ha)
    have e1 : 3 * (l * Q.length + s / 3) + s % 3 = s + 3 * (l * Q.length) := by omega
    have e2 : 3 * ((l + 1) * Q.length + s / 3) + s % 3 = s + 3 * ((l + 1) * Q.length) := by omega
    rw [e1, e2] at hadj
    exact Reach.step hprev hadj (by omega)

/-- if the single tier is fully reachable from the chops of axes 0/1 (`c01`) and axis 2 of operation 0,
    every tier of the stack is reachable from `c01` and `Stack.chop()` -/
theorem stack_reach (Q : List (List Nat)) (hw : WfQuads Q) (c01 : List Nat) (h01 : ∀ s ∈ c01, s % 3 ≠ 2) (k : Nat) :
    ∀ l, l < k → ∀ n, Reach (wireTable (stackBlocks Q 1)) (c01 ++ [2]) n →
      Reach (wireTable (stackBlocks Q k)) (c01 ++ axialSeeds Q.length k) (n + 3 * (l * Q.length)) := by
  have hT1 : (wireTable (stackBlocks Q 1)).length = 3 * Q.length := by
    rw [wireTable_length, stack_length]; omega
  have hTk : (wireTable (stackBlocks Q k)).length = 3 * (k * Q.length) := by rw [wireTable_length, stack_length]
  have hlen1 : (stackBlocks Q 1).length = Q.length := by rw [stack_length]; omega
  have hlenk : (stackBlocks Q k).length = k * Q.length := stack_length Q k
  intro l hl n hr
  induction hr with
  | seed hs hlt =>
    rename_i s
    rw [hT1] at hlt
    rcases List.mem_append.mp hs with hc | hc
    · exact stack_seed_lift Q hw _ k s (List.mem_append.mpr (Or.inl hc)) hlt (h01 s hc) l hl
    · have : s = 2 := by simpa using hc
      subst this
      refine Reach.seed (List.mem_append.mpr (Or.inr ?_)) ?_
      · exact List.mem_map.mpr ⟨l, List.mem_range.mpr hl, by omega⟩
      · have := tier_bound Q.length k l 2 hl hlt
        omega
  | step hm hadj hlt ih =>
    rename_i m n
    have hmlt := reach_lt hm
    rw [hT1] at hlt hmlt
    have em : m = 3 * (m / 3) + m % 3 := by omega
    have en : n = 3 * (n / 3) + n % 3 := by omega
    rw [em, en] at hadj
    have hse := sharesEdge_of_adj (stackBlocks Q 1) (m / 3) (n / 3) (m % 3) (n % 3) (by rw [hlen1]; omega)
      (by rw [hlen1]; omega) (by omega) (by omega) hadj
    have hsh := sharesEdge_shift Q hw k l (m / 3) (n / 3) (m % 3) (n % 3) hl (by omega) (by omega) (by omega)
      (by omega) hse
    have hb1 := tier_bound Q.length k l m hl hmlt
    have hb2 := tier_bound Q.length k l n hl hlt
    have hadjk := adj_of_sharesEdge (stackBlocks Q k) (l * Q.length + m / 3) (l * Q.length + n / 3) (m % 3) (n % 3)
      (by rw [hlenk]; omega) (by rw [hlenk]; omega) (by omega) (by omega) hsh
    have e1 : 3 * (l * Q.length + m / 3) + m % 3 = m + 3 * (l * Q.length) := by omega
    have e2 : 3 * (l * Q.length + n / 3) + n % 3 = n + 3 * (l * Q.length) := by omega
    rw [e1, e2] at hadjk
    exact Reach.step ih hadjk (by omega)

/-! ### small facts used by the property theorems -/

theorem undefinedBlocks_eq (B : Blocking) (d : List Nat) : undefinedBlocks B d = undefinedBlocksM B (maskOf d) := by
  unfold undefinedBlocks
  split <;> rename_i h <;> rw [h]

theorem undefinedBlocks_nil_iff (B : Blocking) (d : List Nat) :
    undefinedBlocks B d = [] ↔ ∀ n, n < 3 * B.length → n ∈ d := by
  rw [undefinedBlocks_eq]
  unfold undefinedBlocksM inMask
  rw [List.filter_eq_nil_iff]
  simp only [List.mem_range, Bool.not_eq_true', Bool.not_eq_false, Bool.and_eq_true, testBit_maskOf]
  constructor
  · intro h n hn
    have hb : n / 3 < B.length := by omega
    obtain ⟨⟨h0, h1⟩, h2⟩ := h (n / 3) hb
    have : n % 3 = 0 ∨ n % 3 = 1 ∨ n % 3 = 2 := by omega
    rcases this with hm | hm | hm
    · have : 3 * (n / 3) = n := by omega
      rw [this] at h0; exact h0
    · have : 3 * (n / 3) + 1 = n := by omega
      rw [this] at h1; exact h1
    · have : 3 * (n / 3) + 2 = n := by omega
      rw [this] at h2; exact h2
  · intro h b hb
    exact ⟨⟨h _ (by omega), h _ (by omega)⟩, h _ (by omega)⟩

theorem chopNodesAxis_mod (chops : List (List Nat)) (axis : Nat) (ha : axis < 2) :
    ∀ s ∈ chopNodesAxis chops axis, s % 3 ≠ 2 := by
  intro s hs
  unfold chopNodesAxis at hs
  have : (axis == 2) = false := by
    have : axis = 0 ∨ axis = 1 := by omega
    rcases this with rfl | rfl <;> rfl
  simp only [this, Bool.false_eq_true, ↓reduceIte, List.mem_map] at hs
  obtain ⟨i, _, rfl⟩ := hs
  omega

theorem wf_of_conformal (Q : List (List Nat)) (h : quadsConformal Q = true) : WfQuads Q := by
  intro q hq
  unfold quadsConformal at h
  simp only [Bool.and_eq_true, List.all_eq_true] at h
  have := h.1 q hq
  simp only [beq_iff_eq, decide_eq_true_eq] at this
  exact this

/-- the well-formedness hypothesis holds for every ring with at least 2 segments -/
theorem ringQuads_wf (n : Nat) (h : 2 ≤ n) : ∀ q ∈ ringQuads n, q.length = 4 ∧ q.Nodup := by
  intro q hq
  unfold ringQuads at hq
  obtain ⟨i, hi, rfl⟩ := List.mem_map.mp hq
  have hi' : i < n := List.mem_range.mp hi
  refine ⟨rfl, ?_⟩
  have hj : (i + 1) % n ≠ i := by
    by_cases h1 : i + 1 < n
    · rw [Nat.mod_eq_of_lt h1]; omega
    · have : i + 1 = n := by omega
      rw [this, Nat.mod_self]; omega
  simp only [List.nodup_cons, List.mem_cons, List.not_mem_nil, or_false, not_or, List.nodup_nil, and_true,
    not_false_eq_true]
  omega


end CBV.C11
