/-
C15 — the graph the model builds from a cell list, for every cell list and either cell class:
which side of a cell has no neighbour (`cellNbrs`), what `commonSide` = `CellBase.get_common_side` means,
and which points are boundary (`cellBoundary`, `isBoundary`).
-/
import CBV.Lemmas.C15

namespace CBV.C15
open CBV

/-! ### `_bind_cell_neighbours`: the fold that fills `neighbours` -/

/-- the fold of `cellNbrs` with the cell test folded into the side function -/
def nbrFold (f : Nat → Option Nat) (l : List Nat) (acc : List (Option Nat)) : List (Option Nat) :=
  l.foldl (fun acc cj => match f cj with | some s => acc.set s (some cj) | none => acc) acc

theorem nbrFold_length (f : Nat → Option Nat) (l : List Nat) (acc : List (Option Nat)) :
    (nbrFold f l acc).length = acc.length := by
  unfold nbrFold
  induction l generalizing acc with
  | nil => rfl
  | cons x l ih =>
    simp only [List.foldl_cons]
    rw [ih]
    split <;> simp

/-- a slot stays empty iff it was empty and no candidate names it -/
theorem nbrFold_none_iff (f : Nat → Option Nat) (l : List Nat) (acc : List (Option Nat)) (s : Nat) :
    (nbrFold f l acc)[s]? = some none ↔ acc[s]? = some none ∧ ∀ cj ∈ l, f cj ≠ some s := by
  unfold nbrFold
  induction l generalizing acc with
  | nil => simp
  | cons x l ih =>
    simp only [List.foldl_cons, List.mem_cons, forall_eq_or_imp]
    rw [ih]
    cases hfx : f x with
    | none => simp
    | some s' =>
      simp only []
      by_cases hss : s' = s
      · subst hss
        simp only [ne_eq, not_true_eq_false, false_and, and_false, iff_false, not_and]
        intro h
        rw [List.getElem?_set] at h
        simp only [if_true] at h
        split at h <;> simp at h
      · rw [List.getElem?_set_ne hss]
        simp [hss]

/-- a slot holds `cj` only if `cj` is a candidate that names it -/
theorem nbrFold_some (f : Nat → Option Nat) (l : List Nat) (acc : List (Option Nat)) (s cj : Nat)
    (h : (nbrFold f l acc)[s]? = some (some cj)) : acc[s]? = some (some cj) ∨ (cj ∈ l ∧ f cj = some s) := by
  unfold nbrFold at h
  induction l generalizing acc with
  | nil => left; simpa using h
  | cons x l ih =>
    simp only [List.foldl_cons] at h
    rcases ih _ h with h1 | h1
    · cases hfx : f x with
      | none => rw [hfx] at h1; left; exact h1
      | some s' =>
        rw [hfx] at h1
        simp only [] at h1
        by_cases hss : s' = s
        · subst hss
          rw [List.getElem?_set] at h1
          simp only [if_true] at h1
          split at h1
          · simp only [Option.some.injEq] at h1; subst h1; right; exact ⟨List.mem_cons_self, hfx⟩
          · simp at h1
        · rw [List.getElem?_set_ne hss] at h1; left; exact h1
    · right; exact ⟨List.mem_cons_of_mem _ h1.1, h1.2⟩

theorem cellNbrs_eq (g : Grid) (ci : Nat) :
    cellNbrs g ci = nbrFold
      (fun cj => if cj = ci then none else commonSide g.kind (g.cells.getD ci []) (g.cells.getD cj []))
      (List.range g.cells.length) (List.replicate g.kind.sideIdx.length none) := by
  unfold cellNbrs nbrFold
  dsimp only
  congr 1
  funext acc cj
  by_cases h : cj = ci
  · simp [h]
  · simp only [h, if_false]
    cases commonSide g.kind (g.cells.getD ci []) (g.cells.getD cj []) <;> rfl

theorem cellNbrs_length (g : Grid) (ci : Nat) : (cellNbrs g ci).length = g.kind.sideIdx.length := by
  rw [cellNbrs_eq, nbrFold_length]; simp

/-- side `s` of cell `ci` has **no neighbour** iff no *other* cell of the grid shares exactly that side with it -/
theorem cellNbrs_none_iff (g : Grid) (ci s : Nat) :
    (cellNbrs g ci)[s]? = some none ↔
      s < g.kind.sideIdx.length ∧
      ∀ cj, cj < g.cells.length → cj ≠ ci →
        commonSide g.kind (g.cells.getD ci []) (g.cells.getD cj []) ≠ some s := by
  rw [cellNbrs_eq, nbrFold_none_iff]
  have h1 : (List.replicate g.kind.sideIdx.length (none : Option Nat))[s]? = some none ↔
      s < g.kind.sideIdx.length := by
    rw [List.getElem?_replicate]; split <;> simp_all
  rw [h1]
  apply and_congr_right
  intro _
  constructor
  · intro h cj hlt hne
    have := h cj (List.mem_range.mpr hlt)
    simpa [hne] using this
  · intro h cj hm
    by_cases hne : cj = ci
    · simp [hne]
    · simpa [hne] using h cj (List.mem_range.mp hm) hne

/-- the neighbour recorded on a side is another cell that shares exactly that side -/
theorem cellNbrs_some (g : Grid) (ci s cj : Nat) (h : (cellNbrs g ci)[s]? = some (some cj)) :
    cj < g.cells.length ∧ cj ≠ ci ∧
      commonSide g.kind (g.cells.getD ci []) (g.cells.getD cj []) = some s := by
  rw [cellNbrs_eq] at h
  rcases nbrFold_some _ _ _ _ _ h with h1 | ⟨hm, hf⟩
  · rw [List.getElem?_replicate] at h1; split at h1 <;> simp at h1
  · by_cases hne : cj = ci
    · simp [hne] at hf
    · simp only [hne, if_false] at hf
      exact ⟨List.mem_range.mp hm, hne, hf⟩

/-! ### `CellBase.get_common_side` -/

theorem mem_common (c1 c2 : List Nat) (x : Nat) : x ∈ common c1 c2 ↔ x ∈ c1 ∧ x ∈ c2 := by
  unfold common
  simp [List.mem_filter, List.mem_eraseDups]

theorem getD_idxOf (c : List Nat) (x : Nat) (h : x ∈ c) : c.getD (c.idxOf x) 0 = x := by
  have hlt : c.idxOf x < c.length := List.idxOf_lt_length_iff.mpr h
  simp [List.getD_eq_getElem?_getD, List.getElem?_eq_getElem hlt]

/-- What a common side is, for every cell class and any two cells: if `get_common_side` answers side `s`,
    the two cells share as many points as a side has corners, every corner of side `s` of the first cell
    holds a point of the second, and every shared point sits at a corner of side `s`. -/
theorem commonSide_some (k : Kind) (c1 c2 : List Nat) (s : Nat) (h : commonSide k c1 c2 = some s) :
    (common c1 c2).length = (k.sideIdx.headD []).length ∧
    ∃ side, k.sideIdx[s]? = some side ∧
      (∀ u ∈ side, c1.getD u 0 ∈ c1 ∧ c1.getD u 0 ∈ c2) ∧
      (∀ x, x ∈ c1 → x ∈ c2 → ∃ u ∈ side, c1.getD u 0 = x) := by
  unfold commonSide at h
  simp only [] at h
  split at h
  · simp at h
  · rename_i hlen
    refine ⟨by simpa using hlen, ?_⟩
    unfold findSide at h
    simp only [] at h
    split at h
    · rename_i hlt
      simp only [Option.some.injEq] at h
      have hp := List.findIdx_getElem (w := hlt)
      rw [← h]
      refine ⟨_, List.getElem?_eq_getElem hlt, ?_, ?_⟩
      · intro u hu
        unfold setEq at hp
        simp only [Bool.and_eq_true, List.all_eq_true, List.contains_iff_mem] at hp
        obtain ⟨x, hx, rfl⟩ := List.mem_map.mp (hp.1 u hu)
        have hx' := (mem_common c1 c2 x).mp hx
        rw [getD_idxOf c1 x hx'.1]; exact hx'
      · intro x hx1 hx2
        unfold setEq at hp
        simp only [Bool.and_eq_true, List.all_eq_true, List.contains_iff_mem] at hp
        have := hp.2 (c1.idxOf x) (List.mem_map.mpr ⟨x, (mem_common c1 c2 x).mpr ⟨hx1, hx2⟩, rfl⟩)
        exact ⟨_, this, getD_idxOf c1 x hx1⟩
    · simp at h

/-! ### `CellBase.boundary`, `Junction.is_boundary` -/

theorem mem_zip_iff {α β : Type} (l1 : List α) (l2 : List β) (a : α) (b : β) :
    (a, b) ∈ l1.zip l2 ↔ ∃ i : Nat, l1[i]? = some a ∧ l2[i]? = some b := by
  rw [List.mem_iff_getElem?]
  constructor
  · rintro ⟨i, hi⟩
    rw [List.getElem?_zip_eq_some] at hi
    exact ⟨i, hi⟩
  · rintro ⟨i, h1, h2⟩
    exact ⟨i, List.getElem?_zip_eq_some.mpr ⟨h1, h2⟩⟩

/-- `CellBase.boundary` of cell `ci`: the points at the corners of its sides that have no neighbour -/
theorem mem_cellBoundary (g : Grid) (ci j : Nat) :
    j ∈ cellBoundary g ci ↔
      ∃ (s : Nat) (side : List Nat), g.kind.sideIdx[s]? = some side ∧ (cellNbrs g ci)[s]? = some none ∧
        ∃ u ∈ side, (g.cells.getD ci []).getD u 0 = j := by
  unfold cellBoundary
  simp only [List.mem_flatMap, List.mem_filter, List.mem_map, Prod.exists]
  constructor
  · rintro ⟨side, nb, ⟨hz, hn⟩, u, hu, rfl⟩
    obtain ⟨s, h1, h2⟩ := (mem_zip_iff _ _ _ _).mp hz
    cases nb with
    | none => exact ⟨s, side, h1, h2, u, hu, rfl⟩
    | some _ => simp at hn
  · rintro ⟨s, side, h1, h2, u, hu, rfl⟩
    exact ⟨side, none, ⟨(mem_zip_iff _ _ _ _).mpr ⟨s, h1, h2⟩, rfl⟩, u, hu, rfl⟩

/-- `Junction.is_boundary`: some cell that contains the point has it on a side without neighbour -/
theorem isBoundary_iff (g : Grid) (j : Nat) :
    isBoundary g j = true ↔
      ∃ (ci : Nat) (cell : List Nat), g.cells[ci]? = some cell ∧ j ∈ cell ∧ j ∈ cellBoundary g ci := by
  unfold isBoundary isBoundaryWith cellBoundaries
  simp only [List.any_eq_true, Bool.and_eq_true, List.contains_iff_mem, Prod.exists]
  constructor
  · rintro ⟨cell, b, hz, hj, hb⟩
    obtain ⟨ci, h1, h2⟩ := (mem_zip_iff _ _ _ _).mp hz
    have hlt : ci < g.cells.length := by
      by_contra hc; rw [List.getElem?_eq_none (by omega)] at h1; simp at h1
    rw [List.getElem?_map, List.getElem?_range hlt] at h2
    simp only [Option.map_some, Option.some.injEq] at h2
    exact ⟨ci, cell, h1, hj, h2 ▸ hb⟩
  · rintro ⟨ci, cell, h1, hj, hb⟩
    have hlt : ci < g.cells.length := by
      by_contra hc; rw [List.getElem?_eq_none (by omega)] at h1; simp at h1
    refine ⟨cell, cellBoundary g ci, (mem_zip_iff _ _ _ _).mpr ⟨ci, h1, ?_⟩, hj, hb⟩
    rw [List.getElem?_map, List.getElem?_range hlt]; rfl

/-- membership in `Junction.neighbours` (the statement of `T_C15_neigh`, usable from lemma files) -/
theorem mem_junctionNbrs (g : Grid) (j t : Nat) :
    t ∈ junctionNbrs g j ↔
      t < g.n ∧ t ≠ j ∧ ∃ cell ∈ g.cells, j ∈ cell ∧ ∃ e ∈ g.kind.edgePairs,
        (cell.getD e.1 0 = j ∧ cell.getD e.2 0 = t) ∨ (cell.getD e.1 0 = t ∧ cell.getD e.2 0 = j) := by
  unfold junctionNbrs connected
  simp only [List.mem_filter, List.mem_range, Bool.and_eq_true, bne_iff_ne, ne_eq, List.any_eq_true,
    List.contains_iff_mem, Bool.or_eq_true, beq_iff_eq]

theorem junctionNbrs_sorted (g : Grid) (j : Nat) : (junctionNbrs g j).Pairwise (· < ·) := by
  unfold junctionNbrs
  exact List.Pairwise.filter _ List.pairwise_lt_range

end CBV.C15
