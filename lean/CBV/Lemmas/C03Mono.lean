/-
C03 — for a fixed total expansion the length of the progression grows with the number of cells:
if `a^(m-1) = T = b^m` (ratios blockMesh uses for `m` and `m+1` cells) then
`1 + a + … + a^(m-1) < 1 + b + … + b^m`.  Hence the count of the size+total pairs is unique.
-/
import CBV.Lemmas.C03Calc
import Mathlib.Algebra.BigOperators.Group.Finset.Basic
import Mathlib.Algebra.Order.BigOperators.Group.Finset
import Mathlib.Algebra.BigOperators.Ring.Finset

namespace CBV.C03

open Finset

theorem geomSum_eq_sum (r : ℚ) (n : ℕ) : geomSum r n = ∑ i ∈ range n, r ^ i := by
  induction n with
  | zero => simp [geomSum]
  | succ n ih => rw [geomSum, ih, sum_range_succ]

/-- `n·x^(n+1) - (n+1)·x^n + 1 ≥ 0` -/
theorem bernoulli_step {x : ℚ} (hx : 0 ≤ x) (n : ℕ) : 0 ≤ n * x ^ (n + 1) - (n + 1) * x ^ n + 1 := by
  induction n with
  | zero => simp
  | succ n ih =>
    have h1 : ((n + 1 : ℕ) : ℚ) * x ^ (n + 1 + 1) - ((n + 1 : ℕ) + 1) * x ^ (n + 1) + 1
        = x * (n * x ^ (n + 1) - (n + 1) * x ^ n + 1) + (x - 1) * (x ^ (n + 1) - 1) := by
      push_cast; ring
    rw [h1]
    have h2 : 0 ≤ (x - 1) * (x ^ (n + 1) - 1) := by
      rcases le_total 1 x with h | h
      · exact mul_nonneg (by linarith) (by have := one_le_pow₀ h (n := n + 1); linarith)
      · exact mul_nonneg_of_nonpos_of_nonpos (by linarith) (by have := pow_le_one₀ hx h (n := n + 1); linarith)
    have := mul_nonneg hx ih
    linarith

/-- `(x^n - 1)/n` is non-decreasing in `n`: `k·(x^i - 1) ≤ i·(x^k - 1)` for `i ≤ k` -/
theorem pow_sub_one_mono {x : ℚ} (hx : 0 ≤ x) {i k : ℕ} (hik : i ≤ k) :
    (k : ℚ) * (x ^ i - 1) ≤ i * (x ^ k - 1) := by
  induction k, hik using Nat.le_induction with
  | base => exact le_refl _
  | succ k hk ih =>
    rcases Nat.eq_zero_or_pos k with h0 | hpos
    · subst h0
      have : i = 0 := by omega
      subst this; simp
    · have hb := bernoulli_step hx k
      -- k·(x^(k+1) - 1) ≥ (k+1)·(x^k - 1)
      have h1 : ((k : ℚ) + 1) * (x ^ k - 1) ≤ k * (x ^ (k + 1) - 1) := by linarith
      have hk0 : (0 : ℚ) < k := by exact_mod_cast hpos
      have hi0 : (0 : ℚ) ≤ i := by exact_mod_cast Nat.zero_le i
      -- multiply: i·k·(x^(k+1)-1) ≥ i·(k+1)·(x^k - 1) ≥ (k+1)·k·(x^i - 1)
      have h2 := mul_le_mul_of_nonneg_left h1 hi0
      have h3 := mul_le_mul_of_nonneg_left ih (show (0 : ℚ) ≤ (k : ℚ) + 1 by linarith)
      have h4 : (k : ℚ) * (((k : ℚ) + 1) * (x ^ i - 1)) ≤ k * (i * (x ^ (k + 1) - 1)) := by nlinarith
      have := le_of_mul_le_mul_left h4 hk0
      push_cast
      linarith

/-- weighted AM-GM in the form needed: `k·x^((k+1)·i) ≤ (k-i)·x^(k·i) + i·x^(k·(i+1))` -/
theorem amgm_term {x : ℚ} (hx : 0 < x) {i k : ℕ} (hik : i ≤ k) :
    (k : ℚ) * x ^ ((k + 1) * i) ≤ ((k : ℚ) - i) * x ^ (k * i) + i * x ^ (k * (i + 1)) := by
  have h := pow_sub_one_mono (le_of_lt hx) hik
  have hp : 0 < x ^ (k * i) := pow_pos hx _
  have e1 : x ^ ((k + 1) * i) = x ^ (k * i) * x ^ i := by rw [← pow_add]; congr 1; ring
  have e2 : x ^ (k * (i + 1)) = x ^ (k * i) * x ^ k := by rw [← pow_add]; congr 1
  rw [e1, e2]
  have := mul_le_mul_of_nonneg_left h (le_of_lt hp)
  nlinarith

/-- the core inequality: `Σ_{i≤k} x^((k+1)i) < Σ_{j≤k+1} x^(kj)` -/
theorem geomSum_pow_lt {x : ℚ} (hx : 0 < x) (k : ℕ) :
    geomSum (x ^ (k + 1)) (k + 1) < geomSum (x ^ k) (k + 2) := by
  rcases Nat.eq_zero_or_pos k with h0 | hpos
  · subst h0; simp [geomSum]
  rw [geomSum_eq_sum, geomSum_eq_sum]
  simp only [← pow_mul]
  set y := x ^ k with hy
  have hypos : 0 < y := pow_pos hx k
  have hk0 : (0 : ℚ) < k := by exact_mod_cast hpos
  -- termwise AM-GM, summed
  have hsum : (k : ℚ) * ∑ i ∈ range (k + 1), x ^ ((k + 1) * i) ≤
      ∑ i ∈ range (k + 1), (((k : ℚ) - i) * x ^ (k * i) + i * x ^ (k * (i + 1))) := by
    rw [mul_sum]
    apply sum_le_sum
    intro i hi
    exact amgm_term hx (by have := mem_range.mp hi; omega)
  -- the right-hand side, regrouped by powers of y = x^k
  have hR : ∑ i ∈ range (k + 1), (((k : ℚ) - i) * x ^ (k * i) + i * x ^ (k * (i + 1))) =
      ((k : ℚ) - 1) * ∑ j ∈ range (k + 2), x ^ (k * j) + y ^ (k + 1) + 1 := by
    rw [sum_add_distrib]
    have s1 : ∑ i ∈ range (k + 1), ((k : ℚ) - i) * x ^ (k * i) =
        ∑ j ∈ range (k + 2), ((k : ℚ) - j) * x ^ (k * j) + y ^ (k + 1) := by
      rw [sum_range_succ (fun j => ((k : ℚ) - j) * x ^ (k * j)) (k + 1)]
      rw [hy, ← pow_mul]; push_cast; ring
    have s2 : ∑ i ∈ range (k + 1), (i : ℚ) * x ^ (k * (i + 1)) =
        ∑ j ∈ range (k + 2), ((j : ℚ) - 1) * x ^ (k * j) + 1 := by
      rw [sum_range_succ' (fun j => ((j : ℚ) - 1) * x ^ (k * j)) (k + 1)]
      simp only [Nat.cast_add, Nat.cast_one, add_sub_cancel_right, Nat.cast_zero, zero_sub, mul_zero, pow_zero]
      ring
    rw [s1, s2, mul_sum]
    have : ∑ j ∈ range (k + 2), ((k : ℚ) - j) * x ^ (k * j) + ∑ j ∈ range (k + 2), ((j : ℚ) - 1) * x ^ (k * j) =
        ∑ j ∈ range (k + 2), ((k : ℚ) - 1) * x ^ (k * j) := by
      rw [← sum_add_distrib]; apply sum_congr rfl; intro j _; ring
    linarith
  -- y^(k+1) + 1 < Σ_{j<k+2} y^j since the term j = 1 is positive (k ≥ 1)
  have hlt : y ^ (k + 1) + 1 < ∑ j ∈ range (k + 2), x ^ (k * j) := by
    have hterm : ∀ j, x ^ (k * j) = y ^ j := fun j => by rw [hy, ← pow_mul]
    simp only [hterm]
    rw [sum_range_succ, sum_range_succ' (fun j => y ^ j) k]
    have hnn : 0 ≤ ∑ i ∈ range k, y ^ (i + 1) := sum_nonneg (fun i _ => le_of_lt (pow_pos hypos _))
    obtain ⟨k', rfl⟩ : ∃ k', k = k' + 1 := ⟨k - 1, by omega⟩
    rw [sum_range_succ' (fun i => y ^ (i + 1)) k']
    have hnn' : 0 ≤ ∑ i ∈ range k', y ^ (i + 1 + 1) := sum_nonneg (fun i _ => le_of_lt (pow_pos hypos _))
    simp only [pow_zero, zero_add, pow_one]
    linarith
  -- conclusion
  have hfin : (k : ℚ) * ∑ i ∈ range (k + 1), x ^ ((k + 1) * i) < k * ∑ j ∈ range (k + 2), x ^ (k * j) := by
    rw [hR] at hsum
    nlinarith
  exact lt_of_mul_lt_mul_left hfin (le_of_lt hk0)

/-- with the same total expansion, one more cell makes the progression (in units of its first cell) longer -/
theorem geomSum_total_step {a b : ℚ} {m : ℕ} (ha : 0 < a) (hb : 0 < b) (hm : 1 ≤ m)
    (h : a ^ (m - 1) = b ^ m) : geomSum a m < geomSum b (m + 1) := by
  obtain ⟨k, rfl⟩ : ∃ k, m = k + 1 := ⟨m - 1, by omega⟩
  simp only [Nat.add_sub_cancel] at h
  -- x = a / b: a = x^(k+1), b = x^k
  have hb0 : b ≠ 0 := ne_of_gt hb
  have hx : 0 < a / b := div_pos ha hb
  have ea : (a / b) ^ (k + 1) = a := by
    rw [div_pow, ← h, pow_succ]; field_simp
  have eb : (a / b) ^ k = b := by
    rw [div_pow, h, pow_succ]; field_simp
  have := geomSum_pow_lt hx k
  rwa [ea, eb] at this

/-- `ρ m` is the ratio blockMesh uses for `m` cells and total expansion `T`, for `2 ≤ m ≤ hi` -/
def IsRatioFamily (T : ℚ) (ρ : ℕ → ℚ) (hi : ℕ) : Prop := ∀ m, 2 ≤ m → m ≤ hi → 0 < ρ m ∧ ρ m ^ (m - 1) = T

/-- length of the progression of `m` cells with total expansion `T`, in units of its first cell -/
def totalLen (ρ : ℕ → ℚ) (m : ℕ) : ℚ := geomSum (ρ m) m

theorem totalLen_step {T : ℚ} {ρ : ℕ → ℚ} {hi m : ℕ} (hf : IsRatioFamily T ρ hi) (hm : 1 ≤ m) (hmh : m + 1 ≤ hi) :
    totalLen ρ m < totalLen ρ (m + 1) := by
  unfold totalLen
  rcases Nat.eq_or_lt_of_le hm with h1 | h2
  · subst h1
    have := (hf 2 (le_refl 2) hmh).1
    simp only [geomSum, pow_zero, pow_one, zero_add]
    linarith
  · obtain ⟨ha, hat⟩ := hf m h2 (by omega)
    obtain ⟨hb, hbt⟩ := hf (m + 1) (by omega) hmh
    exact geomSum_total_step ha hb hm (by rw [hat, ← hbt]; simp)

theorem totalLen_lt {T : ℚ} {ρ : ℕ → ℚ} {hi m m' : ℕ} (hf : IsRatioFamily T ρ hi) (hm : 1 ≤ m) (h : m < m')
    (hmh : m' ≤ hi) : totalLen ρ m < totalLen ρ m' := by
  induction m', h using Nat.le_induction with
  | base => exact totalLen_step hf hm hmh
  | succ k hk ih =>
    exact lt_trans (ih (by omega)) (totalLen_step hf (by omega) hmh)

theorem totalLen_le {T : ℚ} {ρ : ℕ → ℚ} {hi m m' : ℕ} (hf : IsRatioFamily T ρ hi) (hm : 1 ≤ m) (h : m ≤ m')
    (hmh : m' ≤ hi) : totalLen ρ m ≤ totalLen ρ m' := by
  rcases Nat.eq_or_lt_of_le h with h1 | h2
  · subst h1; exact le_refl _
  · exact le_of_lt (totalLen_lt hf hm h2 hmh)

/-- strict count specification of the size+total pairs: `n-1` cells with total expansion `T` and first cell `s`
    do not exceed the edge, `n` cells do -/
def SizeTotalStrict (L s : ℚ) (ρ : ℕ → ℚ) (n : ℕ) : Prop :=
  1 ≤ n ∧ (2 ≤ n → s * totalLen ρ (n - 1) ≤ L) ∧ L < s * totalLen ρ n

theorem sizeTotalStrict_unique {T L s : ℚ} {ρ : ℕ → ℚ} {hi n n' : ℕ} (hf : IsRatioFamily T ρ hi) (hs : 0 < s)
    (hn : SizeTotalStrict L s ρ n) (hn' : SizeTotalStrict L s ρ n') (h1 : n ≤ hi) (h2 : n' ≤ hi) : n = n' := by
  obtain ⟨a1, a2, a3⟩ := hn
  obtain ⟨b1, b2, b3⟩ := hn'
  by_contra hne
  rcases Nat.lt_or_gt_of_ne hne with h | h
  · have hle := totalLen_le hf a1 (show n ≤ n' - 1 by omega) (by omega)
    have := mul_le_mul_of_nonneg_left hle (le_of_lt hs)
    have := b2 (by omega)
    linarith
  · have hle := totalLen_le hf b1 (show n' ≤ n - 1 by omega) (by omega)
    have := mul_le_mul_of_nonneg_left hle (le_of_lt hs)
    have := a2 (by omega)
    linarith

/-- non-strict form (what the validator admits at tolerance 0) -/
def SizeTotalWeak (L s : ℚ) (ρ : ℕ → ℚ) (n : ℕ) : Prop :=
  1 ≤ n ∧ (2 ≤ n → s * totalLen ρ (n - 1) ≤ L) ∧ L ≤ s * totalLen ρ n

theorem totalLen_one (ρ : ℕ → ℚ) : totalLen ρ 1 = 1 := by simp [totalLen, geomSum]

/-- it determines the count up to the tie at an exact-integer solution -/
theorem sizeTotalWeak_near_unique {T L s : ℚ} {ρ : ℕ → ℚ} {hi n n' : ℕ} (hf : IsRatioFamily T ρ hi) (hs : 0 < s)
    (hn : SizeTotalWeak L s ρ n) (hn' : SizeTotalWeak L s ρ n') (h1 : n ≤ hi) (h2 : n' ≤ hi) :
    n = n' ∨ (n' = n + 1 ∧ L = s * totalLen ρ n) ∨ (n = n' + 1 ∧ L = s * totalLen ρ n') := by
  obtain ⟨a1, a2, a3⟩ := hn
  obtain ⟨b1, b2, b3⟩ := hn'
  rcases Nat.lt_trichotomy n n' with h | h | h
  · right; left
    have hle := totalLen_le hf a1 (show n ≤ n' - 1 by omega) (by omega)
    have hle' := mul_le_mul_of_nonneg_left hle (le_of_lt hs)
    have hb := b2 (by omega)
    have hL : L = s * totalLen ρ n := le_antisymm a3 (by linarith)
    refine ⟨?_, hL⟩
    by_contra hne
    have hlt := totalLen_lt hf a1 (show n < n' - 1 by omega) (by omega)
    have := mul_lt_mul_of_pos_left hlt hs
    linarith
  · left; exact h
  · right; right
    have hle := totalLen_le hf b1 (show n' ≤ n - 1 by omega) (by omega)
    have hle' := mul_le_mul_of_nonneg_left hle (le_of_lt hs)
    have ha := a2 (by omega)
    have hL : L = s * totalLen ρ n' := le_antisymm b3 (by linarith)
    refine ⟨?_, hL⟩
    by_contra hne
    have hlt := totalLen_lt hf b1 (show n' < n - 1 by omega) (by omega)
    have := mul_lt_mul_of_pos_left hlt hs
    linarith

/-- what the pair theorems deliver (`SizeTotalSpec`, existential witnesses) is the weak specification for any
    family of ratios, because a positive root is unique -/
theorem sizeTotalWeak_of_spec {T L s : ℚ} {ρ : ℕ → ℚ} {hi n : ℕ} (hf : IsRatioFamily T ρ hi) (hn1 : 1 ≤ n)
    (hn : n ≤ hi) (h : SizeTotalSpec L s T n) : SizeTotalWeak L s ρ n := by
  obtain ⟨h1, h2, h3, h4⟩ := h
  refine ⟨hn1, ?_, ?_⟩
  · intro h2n
    rcases Nat.eq_or_lt_of_le h2n with he | hlt
    · rw [← he]; simp only [Nat.add_one_sub_one, totalLen_one, mul_one]; exact h3 he.symm
    · obtain ⟨w, hw, hpw, hle⟩ := h4 (by omega)
      obtain ⟨hr, hrp⟩ := hf (n - 1) (by omega) (by omega)
      have : w = ρ (n - 1) := ratio_unique hw hr (show n - 2 ≠ 0 by omega)
        (by rw [hpw, show n - 2 = n - 1 - 1 by omega, hrp])
      subst this
      have hg := geomSum_pos (le_of_lt hw) (show 0 < n - 1 by omega)
      unfold firstCell at hle
      rw [le_div_iff₀ hg] at hle
      exact hle
  · rcases Nat.eq_or_lt_of_le hn1 with he | hlt
    · rw [← he, totalLen_one, mul_one]; exact h1 he.symm
    · obtain ⟨w, hw, hpw, hle⟩ := h2 (by omega)
      obtain ⟨hr, hrp⟩ := hf n (by omega) hn
      have : w = ρ n := ratio_unique hw hr (show n - 1 ≠ 0 by omega) (by rw [hpw, hrp])
      subst this
      have hg := geomSum_pos (le_of_lt hw) (show 0 < n by omega)
      unfold firstCell at hle
      rw [div_le_iff₀ hg] at hle
      exact hle

end CBV.C03
