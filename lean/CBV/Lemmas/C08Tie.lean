/-
C08 / C16 — reading the tables that the translator regenerates from the source text (round 6): the meaning of the comparison
operator names it emits and Python's chained comparison.  Used by the tie theorems of `CBV.Props.C08` and `CBV.Props.C16`.
-/
import CBV.Model.C08

namespace CBV.C08

/-- the comparison the translator's operator name stands for -/
def cmpOp (op : String) : Option (Rat → Rat → Bool) :=
  if op = "Lt" then some (fun a b => decide (a < b))
  else if op = "LtE" then some (fun a b => decide (a ≤ b))
  else if op = "Gt" then some (fun a b => decide (b < a))
  else if op = "GtE" then some (fun a b => decide (b ≤ a))
  else if op = "Eq" then some (fun a b => decide (a = b))
  else if op = "NotEq" then some (fun a b => decide (a ≠ b))
  else none

/-- Python's chained comparison `x0 op1 x1 op2 x2 …`; `none` = unknown operator / wrong number of operands -/
def chain : List String → List Rat → Option Bool
  | [], [_] => some true
  | op :: ops, x :: y :: rest =>
      match cmpOp op, chain ops (y :: rest) with
      | some f, some r => some (f x y && r)
      | _, _ => none
  | _, _ => none

/-- operator names of the `i`-th comparison of a regenerated table -/
def opsAt (t : List (String × List String × List String)) (i : Nat) : List String := (t.getD i ("", [], [])).2.1

/-- operands (left, comparators) of the `i`-th comparison of a regenerated table -/
def operandsAt (t : List (String × List String × List String)) (i : Nat) : String × List String :=
  ((t.getD i ("", [], [])).1, (t.getD i ("", [], [])).2.2)

end CBV.C08
