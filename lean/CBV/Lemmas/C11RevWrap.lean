/-
C11 — the revolved-shape theorem for any sketch given in the frame of a fan, instantiated to WrappedDisk.
-/
import CBV.Lemmas.C11RevDisk

namespace CBV.C11
open P3

set_option linter.unusedSectionVars false
set_option linter.unusedSimpArgs false
set_option linter.unusedVariables false

variable {K : Type} [Field K] [LinearOrder K] [IsStrictOrderedRing K]

/-- a sketch given by plane coordinates `L` in the frame of a fan (centre `(x0, y0)` and radius vector
    `α k + β (N × k)` in the frame of the axis), all inside the unit disk of the fan, quads convex and
    counter-clockwise, indices in range; axis outside the disk (`y0 > 0`, `α² + β² < y0²`), positive sine:
    every block between the sketch and its turned copy is right-handed -/
theorem revolved_fan_RH (quads : List (List Nat)) (L : List (P3 K)) (n : Nat) (o k N : P3 K)
    (x0 y0 α β cs sn : K) (hk : nsq k = 1) (hN : nsq N = 1) (hNk : dot N k = 0) (hsn : 0 < sn) (hy : 0 < y0)
    (hs : 0 < α * α + β * β) (hr : α * α + β * β < y0 * y0)
    (hlen : L.length = n) (hpos : 0 < n) (hbelow : quadsBelow quads n = true) (hz : ∀ p ∈ L, p.z = 0)
    (hunit : ∀ p ∈ L, p.x * p.x + p.y * p.y ≤ 1) (hconv : ∀ q ∈ quads, convexCCW (quadOf L q)) :
    ∀ H ∈ revolveOf quads (L.map (frame (frame o k N ⟨x0, y0, 0⟩) (add (smul α k) (smul β (cross N k))) N))
        (frame o k N ⟨x0, y0, 0⟩) cs sn k o, H.RH := by
  have hmap : L.map (frame (frame o k N ⟨x0, y0, 0⟩) (add (smul α k) (smul β (cross N k))) N)
      = (L.map (simL x0 y0 α β)).map (frame o k N) := by
    rw [List.map_map]
    apply List.map_congr_left
    intro p _
    exact frame_in_axis_frame o k N p x0 y0 α β hN hNk
  rw [hmap]
  have hidx : ∀ q ∈ quads, ∀ j, q.getD j 0 < n := fun q hq j => getD_lt_of_quadsBelow _ _ hpos hbelow q hq j
  rw [revolveOf_default _ _ _ (frame o k N ⟨0, 0, 0⟩) cs sn k o
    (by intro q hq j; rw [List.length_map, List.length_map, hlen]; exact hidx q hq j)]
  apply revolve_RH o k N _ cs sn _ hk hN hNk hsn
  · intro p hp'
    obtain ⟨p0, hp0, rfl⟩ := List.mem_map.mp hp'
    simp only [simL]; exact hz p0 hp0
  · intro q hq
    have hc := hconv q hq
    have hL : ∀ j, q.getD j 0 < L.length := fun j => by rw [hlen]; exact hidx q hq j
    unfold quadOf at hc ⊢
    rw [getD_map_lt _ _ _ _ ⟨0, 0, 0⟩ (hL 0), getD_map_lt _ _ _ _ ⟨0, 0, 0⟩ (hL 1), getD_map_lt _ _ _ _ ⟨0, 0, 0⟩ (hL 2),
      getD_map_lt _ _ _ _ ⟨0, 0, 0⟩ (hL 3)]
    refine ⟨convexCCW_sim x0 y0 α β hs _ _ _ _ hc, ?_, ?_, ?_, ?_⟩ <;>
      exact sim_height_pos x0 y0 α β hy hr _ (hunit _ (getD_mem_of_lt _ _ _ (hL _)))

/-! ### WrappedDisk -/

theorem wrappedL_facts (h dg rr : K) (hd0 : 0 < dg) (hd1 : dg < 1) (hr0 : 0 < rr) (hr1 : rr < 1) :
    (wrappedL h dg rr).length = 12 ∧ (∀ p ∈ wrappedL h dg rr, p.z = 0) ∧
      ∀ p ∈ wrappedL h dg rr, p.x * p.x + p.y * p.y ≤ 1 := by
  rw [wrappedL_lit]
  have a0 : 0 < dg * rr := mul_pos hd0 hr0
  have a1 : dg * rr < 1 := by nlinarith
  have haa : (dg * rr) * (dg * rr) ≤ 1 := by nlinarith
  have hrr : rr * rr ≤ 1 := by nlinarith
  refine ⟨rfl, ?_, ?_⟩
  · intro p hp; simp only [List.mem_cons, List.not_mem_nil, or_false] at hp
    rcases hp with rfl | rfl | rfl | rfl | rfl | rfl | rfl | rfl | rfl | rfl | rfl | rfl <;> rfl
  · intro p hp; simp only [List.mem_cons, List.not_mem_nil, or_false] at hp
    rcases hp with rfl | rfl | rfl | rfl | rfl | rfl | rfl | rfl | rfl | rfl | rfl | rfl <;> dsimp only <;>
      linarith [haa, hrr]

theorem wrapped_quadsBelow : quadsBelow (sketchQuads "WrappedDisk") 12 = true := by
  rw [quads_wrapped]; decide

/-- **RevolvedShape of a WrappedDisk**: axis in the sketch plane, the centre at height `y0 > 0`, the corner vector
    `α k + β (N × k)` shorter than `y0` (the axis passes outside the circle through the corners), the inner circle
    inside the square (`0 < radius < wn`), `0 < diagonal_ratio < 1`, positive sine -/
theorem revolved_wrapped_RH (o k N : P3 K) (x0 y0 α β h dg radius wn cs sn : K)
    (hk : nsq k = 1) (hN : nsq N = 1) (hNk : dot N k = 0) (hsn : 0 < sn) (hy : 0 < y0)
    (hs : 0 < α * α + β * β) (hr : α * α + β * β < y0 * y0)
    (hd0 : 0 < dg) (hd1 : dg < 1) (hr0 : 0 < radius) (hr1 : radius < wn) :
    ∀ H ∈ revolveOf (sketchQuads "WrappedDisk")
        (wrappedPts (frame o k N ⟨x0, y0, 0⟩) (add (frame o k N ⟨x0, y0, 0⟩) (add (smul α k) (smul β (cross N k)))) N
          h dg radius wn) (frame o k N ⟨x0, y0, 0⟩) cs sn k o, H.RH := by
  have hw : 0 < wn := lt_trans hr0 hr1
  have hrr0 : 0 < radius / wn := div_pos hr0 hw
  have hrr1 : radius / wn < 1 := (div_lt_one hw).mpr hr1
  have hp : dot N (sub (add (frame o k N ⟨x0, y0, 0⟩) (add (smul α k) (smul β (cross N k)))) (frame o k N ⟨x0, y0, 0⟩)) = 0 := by
    rw [sub_add_self]
    have h' := hNk
    simp only [dot] at h'
    simp only [dot, add, smul, cross]
    linear_combination α * h'
  obtain ⟨hlen, hz, hunit⟩ := wrappedL_facts h dg (radius / wn) hd0 hd1 hrr0 hrr1
  rw [wrappedPts_frame _ _ N h dg radius wn hp, sub_add_self]
  exact revolved_fan_RH _ _ 12 o k N x0 y0 α β cs sn hk hN hNk hsn hy hs hr hlen (by decide) wrapped_quadsBelow hz hunit
    (wrapped_convex h dg (radius / wn) hd0 hd1 hrr0 hrr1)

end CBV.C11
