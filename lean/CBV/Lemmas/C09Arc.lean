/-
C09 — the arc constructions that derive a third point from transformed edge data (`functions.arc_mid`,
`arc_from_origin` without centre adjustment, `arc_from_theta`) commute with similarities.  Square roots enter as
witnesses (`r·r = |c − p1|²` …), `tan(θ/2)` as an arbitrary non-zero number `τ`.
-/
import CBV.Lemmas.C09Algebra

namespace CBV.C09
open CBV

set_option linter.unusedSimpArgs false

/-- `functions.arc_mid(axis, center, p1, p2)`: `center + unit(mid − center)·|center − p1|` with the witnesses
    `r = |center − p1|`, `s = |mid − center|` -/
def arcMid (c p1 p2 : V3) (r s : Rat) : V3 := c + V3.smul (r / s) (V3.smul (1 / 2) (p1 + p2) - c)

/-- vector from the chord's midpoint to the centre in `arc_from_theta(p1, p2, θ, axis)`, `dp = p2 − p1`:
    `−(dp·axis)/2 · axis − |chord|/(2 tan(θ/2)) · unit(dp × axis)`; witnesses `cr = |dp × axis|`, `m = |chord|` -/
def angleOffset (dp ax : V3) (τ cr m : Rat) : V3 :=
  V3.smul (-(V3.dot dp ax) / 2) ax - V3.smul (m / (2 * τ * cr)) (V3.cross dp ax)

/-- centre of the arc given by sector angle and axis -/
def angleCenter (p1 p2 ax : V3) (τ cr m : Rat) : V3 :=
  V3.smul (1 / 2) (p1 + p2) + angleOffset (p2 - p1) ax τ cr m

/-- the chord of `arc_from_theta` (the part of `dp` normal to the axis) -/
def chordOf (dp ax : V3) : V3 := dp - V3.smul (V3.dot dp ax) ax

/-! ### arc_mid -/

theorem RT.pt_mid (t : RT) (p q : V3) : V3.smul (1 / 2) (t.pt p + t.pt q) = t.pt (V3.smul (1 / 2) (p + q)) := by
  cases t <;> simp only [RT.pt] <;> apply V3.ext' <;> v3_unfold <;> ring

theorem RT.pt_lerp (t : RT) (c m : V3) (l : Rat) : t.pt c + V3.smul l (t.pt m - t.pt c) = t.pt (c + V3.smul l (m - c)) := by
  cases t <;> simp only [RT.pt] <;> apply V3.ext' <;> v3_unfold <;> ring

/-- `arc_mid` of transformed data is the transformed `arc_mid`, the witnesses being scaled by the ratio `k` -/
theorem arcMid_equivariant (t : RT) (c p1 p2 : V3) (r s k : Rat) (hk : k ≠ 0) (hs : s ≠ 0) :
    arcMid (t.pt c) (t.pt p1) (t.pt p2) (k * r) (k * s) = t.pt (arcMid c p1 p2 r s) := by
  unfold arcMid
  rw [RT.pt_mid, show k * r / (k * s) = r / s from by field_simp, RT.pt_lerp]

/-! ### arc_from_theta -/

theorem angleOffset_rotate (w : Rat) (a dp ax : V3) (τ cr m : Rat) (hN : w * w + V3.dot a a ≠ 0) :
    angleOffset (rotLin w a dp) (rotLin w a ax) τ cr m = rotLin w a (angleOffset dp ax τ cr m) := by
  unfold angleOffset
  rw [rotLin_dot w a dp ax hN, rotLin_cross w a dp ax hN, rotLin_sub, rotLin_smul, rotLin_smul]

theorem angleOffset_scale (r : Rat) (dp ax : V3) (τ cr m : Rat) (hr : r ≠ 0) (hcr : cr ≠ 0) (hτ : τ ≠ 0) :
    angleOffset (V3.smul r dp) ax τ (r * cr) (r * m) = V3.smul r (angleOffset dp ax τ cr m) := by
  unfold angleOffset
  apply V3.ext' <;> v3_unfold <;> field_simp

theorem dot_neg_right (x y : V3) : V3.dot x (-y) = -(V3.dot x y) := by v3_unfold; ring
theorem cross_neg_right (x y : V3) : V3.cross x (-y) = -(V3.cross x y) := by apply V3.ext' <;> v3_unfold <;> ring
theorem smul_neg' (c : Rat) (x : V3) : V3.smul c (-x) = V3.smul (-c) x := by apply V3.ext' <;> v3_unfold <;> ring

/-- a mirror reverses the axis (`AxisVector.mirror`), and exactly then the construction is equivariant -/
theorem angleOffset_mirror (n dp ax : V3) (τ cr m : Rat) (hn : V3.dot n n ≠ 0) :
    angleOffset (mirLin n dp) (-(mirLin n ax)) τ cr m = mirLin n (angleOffset dp ax τ cr m) := by
  unfold angleOffset
  rw [dot_neg_right, mirLin_dot n dp ax hn, cross_neg_right, mirLin_cross n dp ax hn, neg_neg', smul_neg',
    mirLin_sub, mirLin_smul, mirLin_smul]
  congr 2
  ring

/-- the witnesses stay witnesses: the chord and `dp × axis` of the transformed data have `k` times the length -/
theorem chord_cross_scale (t : RT) (ht : t.Valid) (dp ax : V3) :
    V3.dot (chordOf (t.lin dp) (t.dir ax)) (chordOf (t.lin dp) (t.dir ax)) = t.ratio2 * V3.dot (chordOf dp ax) (chordOf dp ax) ∧
    V3.dot (V3.cross (t.lin dp) (t.dir ax)) (V3.cross (t.lin dp) (t.dir ax))
      = t.ratio2 * V3.dot (V3.cross dp ax) (V3.cross dp ax) := by
  cases t with
  | translate d => simp [RT.lin, RT.dir, RT.ratio2]
  | rotate w a o =>
      simp only [RT.lin, RT.dir, RT.ratio2, one_mul, chordOf]
      rw [rotLin_dot w a dp ax ht, rotLin_cross w a dp ax ht, ← rotLin_smul, ← rotLin_sub, rotLin_dot _ _ _ _ ht,
        rotLin_dot _ _ _ _ ht]
      exact ⟨rfl, rfl⟩
  | scale r o =>
      simp only [RT.lin, RT.dir, RT.ratio2, chordOf]
      constructor
      · have : V3.smul r dp - V3.smul (V3.dot (V3.smul r dp) ax) ax = V3.smul r (dp - V3.smul (V3.dot dp ax) ax) := by
          apply V3.ext' <;> v3_unfold <;> ring
        rw [this]; v3_unfold; ring
      · v3_unfold; ring
  | mirror n o =>
      simp only [RT.lin, RT.dir, RT.ratio2, one_mul, chordOf]
      rw [dot_neg_right, mirLin_dot n dp ax ht, cross_neg_right, mirLin_cross n dp ax ht, neg_neg']
      have : mirLin n dp - V3.smul (-(V3.dot dp ax)) (-(mirLin n ax)) = mirLin n (dp - V3.smul (V3.dot dp ax) ax) := by
        rw [smul_neg', mirLin_sub, mirLin_smul]; congr 2; ring
      rw [this, mirLin_dot _ _ _ ht, mirLin_dot _ _ _ ht]
      exact ⟨rfl, rfl⟩

end CBV.C09
