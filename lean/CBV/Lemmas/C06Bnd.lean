/-
C06 — helper lemmas: the boundary and the projected faces list exactly what was declared
(soundness: nothing else gets in; completeness: every declared side is listed, up to the
de-duplication by vertex set that the code performs).
-/
import CBV.Lemmas.C06Asm

set_option linter.unusedSectionVars false

namespace CBV.C06

theorem foldl_reach {α β : Type} (P : β → Prop) (f : β → α → β) (x : α)
    (hx : ∀ acc, P (f acc x)) (hmono : ∀ acc y, P acc → P (f acc y)) :
    ∀ (l : List α), x ∈ l → ∀ init, P (l.foldl f init) := by
  intro l
  induction l with
  | nil => intro h; simp at h
  | cons y ys ih =>
    intro h init
    rcases List.mem_cons.mp h with rfl | h
    · exact foldl_inv P f ys _ (hx init) (fun acc z _ hacc => hmono acc z hacc)
    · exact ih h _

theorem sameSet_refl (q : List Nat) : sameSet q q = true := by
  simp [sameSet, List.all_eq_true]

/-! ### patches: soundness -/

/-- every quad of every patch satisfies `Q` (name of the patch, quad) -/
def PQN (Q : String → List Nat → Prop) (ps : List PEntry) : Prop := ∀ p ∈ ps, ∀ q ∈ p.quads, Q p.name q

theorem addPatchSide_pqn {Q : String → List Nat → Prop} {ps : List PEntry} (h : PQN Q ps) {name : String}
    {quad : List Nat} (hq : Q name quad) : PQN Q (addPatchSide ps name quad) := by
  unfold addPatchSide
  split
  · intro p hp q hqm
    rw [List.mem_map] at hp
    obtain ⟨p0, hp0, rfl⟩ := hp
    by_cases h1 : (p0.name == name) = true
    · have hn : p0.name = name := by simpa using h1
      by_cases h2 : p0.quads.any (sameSet · quad) = true
      · simp only [h1, h2, ↓reduceIte] at hqm ⊢
        exact h p0 hp0 q hqm
      · simp only [h1, h2, ↓reduceIte] at hqm ⊢
        rcases List.mem_append.mp hqm with hqm | hqm
        · exact h p0 hp0 q hqm
        · simp only [List.mem_singleton] at hqm
          subst hqm
          rw [hn]; exact hq
    · simp only [h1, ↓reduceIte] at hqm ⊢
      exact h p0 hp0 q hqm
  · intro p hp q hqm
    rcases List.mem_append.mp hp with hp | hp
    · exact h p hp q hqm
    · simp only [List.mem_singleton] at hp
      subst hp
      simp only [List.mem_singleton] at hqm
      subst hqm
      exact hq

theorem modifyPatch_pqn {Q : String → List Nat → Prop} {ps : List PEntry} (h : PQN Q ps) (m : Modify) :
    PQN Q (modifyPatch ps m) := by
  unfold modifyPatch
  simp only
  split
  · intro p hp q hqm
    rw [List.mem_map] at hp
    obtain ⟨p0, hp0, rfl⟩ := hp
    split at hqm
    · rename_i hname
      simp only [hname, if_true]
      exact h p0 hp0 q hqm
    · rename_i hname
      simp only [hname, Bool.false_eq_true, if_false]
      exact h p0 hp0 q hqm
  · intro p hp q hqm
    rcases List.mem_append.mp hp with hp | hp
    · exact h p hp q hqm
    · simp only [List.mem_singleton] at hp
      subst hp
      simp at hqm

/-- the patch assignments of an operation: (orient, name) -/
def OpDecl.patchAt (o : OpDecl) (orient name : String) : Prop := (orient, some name) ∈ orients.zip o.patches

theorem addPatches_pqn {Q : String → List Nat → Prop} {ps : List PEntry} (h : PQN Q ps) (o : OpDecl) (verts : List Nat)
    (hq : ∀ orient name, o.patchAt orient name → Q name (quadOf verts orient)) :
    PQN Q (addPatches ps o verts) := by
  unfold addPatches
  apply foldl_inv (PQN Q) _ _ _ h
  intro acc x hx hacc
  obtain ⟨orient, n⟩ := x
  cases n with
  | none => exact hacc
  | some name => exact addPatchSide_pqn hacc (hq orient name hx)

theorem patchesOf_pqn (Q : String → List Nat → Prop) (d : Decl) (ob : List (OpDecl × List Nat))
    (hQ : ∀ x ∈ ob, ∀ orient name, x.1.patchAt orient name → Q name (quadOf x.2 orient)) :
    PQN Q (patchesOf d ob) :=
  foldl_inv (PQN Q) _ d.modifyAfter _
    (foldl_inv (PQN Q) _ ob _
      (foldl_inv (PQN Q) _ d.modifyBefore [] (by intro p hp; simp at hp)
        (fun acc m _ hacc => modifyPatch_pqn hacc m))
      (fun acc x hx hacc => addPatches_pqn hacc x.1 x.2 (hQ x hx)))
    (fun acc m _ hacc => modifyPatch_pqn hacc m)

/-! ### patches: completeness -/

/-- the patch `name` lists a quad with the same vertices as `quad` -/
def HasSide (name : String) (quad : List Nat) (ps : List PEntry) : Prop :=
  ∃ p ∈ ps, p.name = name ∧ ∃ q ∈ p.quads, sameSet q quad = true

theorem addPatchSide_has (ps : List PEntry) (name : String) (quad : List Nat) :
    HasSide name quad (addPatchSide ps name quad) := by
  unfold addPatchSide
  split
  · rename_i hany
    rw [List.any_eq_true] at hany
    obtain ⟨p0, hp0, hname⟩ := hany
    have hn : p0.name = name := by simpa using hname
    by_cases hq : p0.quads.any (sameSet · quad) = true
    · refine ⟨p0, ?_, hn, ?_⟩
      · rw [List.mem_map]; exact ⟨p0, hp0, by simp [hname, hq]⟩
      · rw [List.any_eq_true] at hq; exact hq
    · refine ⟨{ p0 with quads := p0.quads ++ [quad] }, ?_, hn, quad, by simp, sameSet_refl quad⟩
      rw [List.mem_map]; exact ⟨p0, hp0, by simp [hname, hq]⟩
  · exact ⟨⟨name, "patch", [], [quad]⟩, by simp, rfl, quad, by simp, sameSet_refl quad⟩

theorem addPatchSide_has_mono {n : String} {q : List Nat} {ps : List PEntry} (h : HasSide n q ps)
    (name : String) (quad : List Nat) : HasSide n q (addPatchSide ps name quad) := by
  obtain ⟨p, hp, hn, q', hq', hs⟩ := h
  unfold addPatchSide
  split
  · by_cases hc : (p.name == name) = true ∧ ¬ p.quads.any (sameSet · quad) = true
    · refine ⟨{ p with quads := p.quads ++ [quad] }, ?_, hn, q', List.mem_append_left _ hq', hs⟩
      rw [List.mem_map]; exact ⟨p, hp, by simp [hc.1, hc.2]⟩
    · refine ⟨p, ?_, hn, q', hq', hs⟩
      rw [List.mem_map]
      refine ⟨p, hp, ?_⟩
      by_cases h1 : (p.name == name) = true
      · have h2 : p.quads.any (sameSet · quad) = true := by
          by_contra h2; exact hc ⟨h1, h2⟩
        simp [h1, h2]
      · simp [h1]
  · exact ⟨p, List.mem_append_left _ hp, hn, q', hq', hs⟩

theorem modifyPatch_has_mono {n : String} {q : List Nat} {ps : List PEntry} (h : HasSide n q ps) (m : Modify) :
    HasSide n q (modifyPatch ps m) := by
  obtain ⟨p, hp, hn, q', hq', hs⟩ := h
  unfold modifyPatch
  simp only
  split
  · by_cases h1 : (p.name == m.name) = true
    · refine ⟨{ p with kind := m.kind, settings := match m.settings with | some s => s | none => p.settings }, ?_,
        hn, q', hq', hs⟩
      rw [List.mem_map]; exact ⟨p, hp, by simp only [h1, ↓reduceIte]; rfl⟩
    · refine ⟨p, ?_, hn, q', hq', hs⟩
      rw [List.mem_map]; exact ⟨p, hp, by simp [h1]⟩
  · exact ⟨p, List.mem_append_left _ hp, hn, q', hq', hs⟩

theorem addPatches_has_mono {n : String} {q : List Nat} {ps : List PEntry} (h : HasSide n q ps)
    (o : OpDecl) (verts : List Nat) : HasSide n q (addPatches ps o verts) := by
  unfold addPatches
  apply foldl_inv (HasSide n q) _ _ _ h
  intro acc x _ hacc
  obtain ⟨orient, nm⟩ := x
  cases nm with
  | none => exact hacc
  | some name => exact addPatchSide_has_mono hacc name _

theorem addPatches_has (ps : List PEntry) (o : OpDecl) (verts : List Nat) {orient name : String}
    (h : o.patchAt orient name) : HasSide name (quadOf verts orient) (addPatches ps o verts) := by
  unfold addPatches
  apply foldl_reach (HasSide name (quadOf verts orient)) _ (orient, some name) _ _ _ h
  · intro acc; exact addPatchSide_has acc name _
  · intro acc y hacc
    obtain ⟨orient', nm⟩ := y
    cases nm with
    | none => exact hacc
    | some name' => exact addPatchSide_has_mono hacc name' _

theorem patchesOf_has (d : Decl) (ob : List (OpDecl × List Nat)) {x : OpDecl × List Nat} (hx : x ∈ ob)
    {orient name : String} (h : x.1.patchAt orient name) :
    HasSide name (quadOf x.2 orient) (patchesOf d ob) := by
  unfold patchesOf
  apply foldl_inv (HasSide name (quadOf x.2 orient)) _ _ _ _ (fun acc m _ hacc => modifyPatch_has_mono hacc m)
  apply foldl_reach (HasSide name (quadOf x.2 orient)) _ x _ _ _ hx
  · intro acc; exact addPatches_has acc x.1 x.2 h
  · intro acc y hacc; exact addPatches_has_mono hacc y.1 y.2

/-! ### patches: names, type, settings -/

/-- the names in the boundary are names of declared sides or of `modify_patch` calls -/
def PNames (N : String → Prop) (ps : List PEntry) : Prop := ∀ p ∈ ps, N p.name

theorem addPatchSide_names {N : String → Prop} {ps : List PEntry} (h : PNames N ps) {name : String} (hn : N name)
    (quad : List Nat) : PNames N (addPatchSide ps name quad) := by
  unfold addPatchSide
  split
  · intro p hp
    rw [List.mem_map] at hp
    obtain ⟨p0, hp0, rfl⟩ := hp
    split
    · split
      · exact h p0 hp0
      · exact h p0 hp0
    · exact h p0 hp0
  · intro p hp
    rcases List.mem_append.mp hp with hp | hp
    · exact h p hp
    · simp only [List.mem_singleton] at hp; subst hp; exact hn

theorem modifyPatch_names {N : String → Prop} {ps : List PEntry} (h : PNames N ps) (m : Modify) (hn : N m.name) :
    PNames N (modifyPatch ps m) := by
  unfold modifyPatch
  simp only
  split
  · intro p hp
    rw [List.mem_map] at hp
    obtain ⟨p0, hp0, rfl⟩ := hp
    split
    · exact h p0 hp0
    · exact h p0 hp0
  · intro p hp
    rcases List.mem_append.mp hp with hp | hp
    · exact h p hp
    · simp only [List.mem_singleton] at hp; subst hp; exact hn

theorem patchesOf_names (N : String → Prop) (d : Decl) (ob : List (OpDecl × List Nat))
    (h1 : ∀ m ∈ d.modifyBefore, N m.name) (h2 : ∀ m ∈ d.modifyAfter, N m.name)
    (h3 : ∀ x ∈ ob, ∀ orient name, x.1.patchAt orient name → N name) : PNames N (patchesOf d ob) :=
  foldl_inv (PNames N) _ d.modifyAfter _
    (foldl_inv (PNames N) _ ob _
      (foldl_inv (PNames N) _ d.modifyBefore [] (by intro p hp; simp at hp)
        (fun acc m hm hacc => modifyPatch_names hacc m (h1 m hm)))
      (fun acc x hx hacc => by
        unfold addPatches
        apply foldl_inv (PNames N) _ _ _ hacc
        intro acc' y hy hacc'
        obtain ⟨orient, nm⟩ := y
        cases nm with
        | none => exact hacc'
        | some name => exact addPatchSide_names hacc' (h3 x hx orient name hy) _))
    (fun acc m hm hacc => modifyPatch_names hacc m (h2 m hm))

/-! ### projected faces -/

/-- the projections of an operation: (orient, label) -/
def OpDecl.projAt (o : OpDecl) (orient label : String) : Prop :=
  (orient, some label) ∈ CBV.Gen.sidesMap.zip o.sideProj ∨ (orient = "bottom" ∧ o.bottomProj = some label) ∨
    (orient = "top" ∧ o.topProj = some label)

def FQL (Q : List Nat → String → Prop) (fs : List FEntry) : Prop := ∀ f ∈ fs, Q f.quad f.label

theorem addFace_fql {Q : List Nat → String → Prop} {fs : List FEntry} (h : FQL Q fs) {quad : List Nat} {label : String}
    (hq : Q quad label) : FQL Q (addFace fs quad label) := by
  unfold addFace
  split
  · exact h
  · intro f hf
    rcases List.mem_append.mp hf with hf | hf
    · exact h f hf
    · simp only [List.mem_singleton] at hf; subst hf; exact hq

theorem addFaces_fql {Q : List Nat → String → Prop} {fs : List FEntry} (h : FQL Q fs) (o : OpDecl) (verts : List Nat)
    (hq : ∀ orient label, o.projAt orient label → Q (quadOf verts orient) label) : FQL Q (addFaces fs o verts) := by
  unfold addFaces
  have h1 : FQL Q ((CBV.Gen.sidesMap.zip o.sideProj).foldl (fun fs (x : String × Option String) =>
      match x.2 with
      | some label => addFace fs (quadOf verts x.1) label
      | none => fs) fs) := by
    apply foldl_inv (FQL Q) _ _ _ h
    intro acc x hx hacc
    obtain ⟨orient, l⟩ := x
    cases l with
    | none => exact hacc
    | some label => exact addFace_fql hacc (hq orient label (Or.inl hx))
  simp only
  cases hb : o.bottomProj with
  | none =>
    cases ht : o.topProj with
    | none => exact h1
    | some lt => exact addFace_fql h1 (hq "top" lt (Or.inr (Or.inr ⟨rfl, ht⟩)))
  | some lb =>
    cases ht : o.topProj with
    | none => exact addFace_fql h1 (hq "bottom" lb (Or.inr (Or.inl ⟨rfl, hb⟩)))
    | some lt =>
      exact addFace_fql (addFace_fql h1 (hq "bottom" lb (Or.inr (Or.inl ⟨rfl, hb⟩))))
        (hq "top" lt (Or.inr (Or.inr ⟨rfl, ht⟩)))

theorem facesOf_fql (Q : List Nat → String → Prop) (ob : List (OpDecl × List Nat))
    (hQ : ∀ x ∈ ob, ∀ orient label, x.1.projAt orient label → Q (quadOf x.2 orient) label) : FQL Q (facesOf ob) :=
  foldl_inv (FQL Q) _ ob [] (by intro f hf; simp at hf)
    (fun acc x hx hacc => addFaces_fql hacc x.1 x.2 (hQ x hx))

/-- some projected face has the same vertices as `quad` -/
def HasFace (quad : List Nat) (fs : List FEntry) : Prop := ∃ f ∈ fs, sameSet f.quad quad = true

theorem addFace_has (fs : List FEntry) (quad : List Nat) (label : String) : HasFace quad (addFace fs quad label) := by
  unfold addFace
  split
  · rename_i h
    rw [List.any_eq_true] at h
    exact h
  · exact ⟨⟨quad, label⟩, by simp, sameSet_refl quad⟩

theorem addFace_has_mono {q : List Nat} {fs : List FEntry} (h : HasFace q fs) (quad : List Nat) (label : String) :
    HasFace q (addFace fs quad label) := by
  obtain ⟨f, hf, hs⟩ := h
  unfold addFace
  split
  · exact ⟨f, hf, hs⟩
  · exact ⟨f, List.mem_append_left _ hf, hs⟩

theorem addFaces_has_mono {q : List Nat} {fs : List FEntry} (h : HasFace q fs) (o : OpDecl) (verts : List Nat) :
    HasFace q (addFaces fs o verts) := by
  unfold addFaces
  have h1 : HasFace q ((CBV.Gen.sidesMap.zip o.sideProj).foldl (fun fs (x : String × Option String) =>
      match x.2 with
      | some label => addFace fs (quadOf verts x.1) label
      | none => fs) fs) := by
    apply foldl_inv (HasFace q) _ _ _ h
    intro acc x _ hacc
    obtain ⟨orient, l⟩ := x
    cases l with
    | none => exact hacc
    | some label => exact addFace_has_mono hacc _ _
  simp only
  split <;> split <;> first
    | exact addFace_has_mono (addFace_has_mono h1 _ _) _ _
    | exact addFace_has_mono h1 _ _
    | exact h1

theorem addFaces_has (fs : List FEntry) (o : OpDecl) (verts : List Nat) {orient label : String}
    (h : o.projAt orient label) : HasFace (quadOf verts orient) (addFaces fs o verts) := by
  unfold addFaces
  rcases h with h | ⟨rfl, hb⟩ | ⟨rfl, ht⟩
  · have h1 : HasFace (quadOf verts orient) ((CBV.Gen.sidesMap.zip o.sideProj).foldl
        (fun fs (x : String × Option String) =>
          match x.2 with
          | some label => addFace fs (quadOf verts x.1) label
          | none => fs) fs) := by
      apply foldl_reach (HasFace (quadOf verts orient)) _ (orient, some label) _ _ _ h
      · intro acc; exact addFace_has acc _ _
      · intro acc y hacc
        obtain ⟨orient', l⟩ := y
        cases l with
        | none => exact hacc
        | some label' => exact addFace_has_mono hacc _ _
    simp only
    split <;> split <;> first
      | exact addFace_has_mono (addFace_has_mono h1 _ _) _ _
      | exact addFace_has_mono h1 _ _
      | exact h1
  · simp only [hb]
    split
    · exact addFace_has_mono (addFace_has _ _ _) _ _
    · exact addFace_has _ _ _
  · simp only [ht]
    exact addFace_has _ _ _

theorem facesOf_has (ob : List (OpDecl × List Nat)) {x : OpDecl × List Nat} (hx : x ∈ ob) {orient label : String}
    (h : x.1.projAt orient label) : HasFace (quadOf x.2 orient) (facesOf ob) := by
  unfold facesOf
  apply foldl_reach (HasFace (quadOf x.2 orient)) _ x _ _ _ hx
  · intro acc; exact addFaces_has acc x.1 x.2 h
  · intro acc y hacc; exact addFaces_has_mono hacc y.1 y.2

end CBV.C06
