/-
C19 (round 6) — helper lemmas: closed form of the generic `TransformedStack` loop, `np.linspace` over ℚ,
iterated translations, `Stack.chop` on the closed form.
-/
import CBV.Lemmas.C19
import Mathlib.Algebra.Order.Field.Rat
import Mathlib.Logic.Function.Iterate
import Mathlib.Tactic.Ring
import Mathlib.Tactic.Linarith
import Mathlib.Tactic.FieldSimp

namespace CBV.C19

/-! ### the generic stack loop -/

/-- tier `k` of a stack on the sketch `g` with transformation `τ` -/
def ttier {α : Type} (τ : α → α) (g : List (List α)) (k : Nat) : List (List (α × α)) :=
  g.map (·.map (fun f => (τ^[k] f, τ^[k + 1] f)))

theorem ttier_succ {α : Type} (τ : α → α) (g : List (List α)) (k : Nat) :
    ttier τ (g.map (·.map τ)) k = ttier τ g (k + 1) := by
  simp [ttier, List.map_map, Function.comp_def, Function.iterate_succ_apply]

theorem tstackLoop_eq {α : Type} (τ : α → α) (n : Nat) (g : List (List α)) (shapes : List (List (List (α × α)))) :
    tstackLoop τ n g shapes = some (shapes ++ (List.range n).map (ttier τ g)) := by
  induction n generalizing g shapes with
  | zero => simp [tstackLoop]
  | succ n ih =>
    simp only [tstackLoop, loftedGrid_map]
    rw [ih, List.range_succ_eq_map]
    simp only [List.map_cons, List.map_map, List.append_assoc, List.singleton_append]
    congr 3
    apply List.map_congr_left
    intro k _
    exact ttier_succ τ g k

theorem tstack_eq {α : Type} (τ : α → α) (n : Nat) (g : List (List α)) :
    tstack τ n g = some ((List.range n).map (ttier τ g)) := by
  simp [tstack, tstackLoop_eq]

/-! ### translations -/

theorem V3.add_assoc' (a b c : V3) : a + b + c = a + (b + c) := by
  apply V3.ext' <;> simp <;> ring

theorem iterate_translate (v : V3) (k : Nat) (pts : List V3) :
    (translate v)^[k] pts = pts.map (· + V3.smul (k : Rat) v) := by
  induction k generalizing pts with
  | zero =>
    simp only [Function.iterate_zero, id_eq]
    symm
    conv => rhs; rw [← List.map_id pts]
    apply List.map_congr_left
    intro p _
    apply V3.ext' <;> simp
  | succ k ih =>
    rw [Function.iterate_succ_apply, ih, translate, List.map_map]
    apply List.map_congr_left
    intro p _
    apply V3.ext' <;> simp <;> ring

/-! ### `np.linspace` -/

/-- for a positive count the i-th coordinate is the point at parameter `i / n` between the two ends -/
theorem linspace_eq (a b : Rat) (n i : Nat) (hn : 0 < n) (_hi : i ≤ n) :
    linspace a b n i = a + ((i : Rat) / (n : Rat)) * (b - a) := by
  have hn' : (n : Rat) ≠ 0 := by exact_mod_cast (Nat.pos_iff_ne_zero.mp hn)
  unfold linspace
  split
  · rename_i h
    rw [h.2]
    field_simp
    ring
  · field_simp
    ring

theorem linspace_zero (a b : Rat) (n : Nat) (hn : 0 < n) : linspace a b n 0 = a := by
  rw [linspace_eq a b n 0 hn (Nat.zero_le _)]; simp

theorem linspace_last (a b : Rat) (n : Nat) (hn : 0 < n) : linspace a b n n = b := by
  simp [linspace, Nat.pos_iff_ne_zero.mp hn]

theorem linspace_lt (a b : Rat) (n i j : Nat) (hab : a < b) (hij : i < j) (hj : j ≤ n) :
    linspace a b n i < linspace a b n j := by
  have hn : 0 < n := by omega
  rw [linspace_eq a b n i hn (by omega), linspace_eq a b n j hn hj]
  have hnq : (0 : Rat) < (n : Rat) := by exact_mod_cast hn
  have hq : (i : Rat) < (j : Rat) := by exact_mod_cast hij
  have h1 : (i : Rat) / n < (j : Rat) / n := div_lt_div_of_pos_right hq hnq
  have h2 : (0 : Rat) < b - a := by linarith
  have := mul_lt_mul_of_pos_right h1 h2
  linarith

theorem linspace_gt (a b : Rat) (n i j : Nat) (hab : b < a) (hij : i < j) (hj : j ≤ n) :
    linspace a b n j < linspace a b n i := by
  have hn : 0 < n := by omega
  rw [linspace_eq a b n i hn (by omega), linspace_eq a b n j hn hj]
  have hnq : (0 : Rat) < (n : Rat) := by exact_mod_cast hn
  have hq : (i : Rat) < (j : Rat) := by exact_mod_cast hij
  have h1 : (i : Rat) / n < (j : Rat) / n := div_lt_div_of_pos_right hq hnq
  have h2 : (0 : Rat) < a - b := by linarith
  have := mul_lt_mul_of_pos_right h1 h2
  linarith

/-- two different indices never give the same coordinate (the two ends differ) -/
theorem linspace_inj (a b : Rat) (n i j : Nat) (hab : a ≠ b) (hi : i ≤ n) (hj : j ≤ n)
    (h : linspace a b n i = linspace a b n j) : i = j := by
  rcases Nat.lt_trichotomy i j with hij | hij | hij
  · exfalso
    rcases lt_or_gt_of_ne hab with hlt | hgt
    · exact absurd h (ne_of_lt (linspace_lt a b n i j hlt hij hj))
    · exact absurd h.symm (ne_of_lt (linspace_gt a b n i j hgt hij hj))
  · exact hij
  · exfalso
    rcases lt_or_gt_of_ne hab with hlt | hgt
    · exact absurd h.symm (ne_of_lt (linspace_lt a b n j i hlt hij hi))
    · exact absurd h (ne_of_lt (linspace_gt a b n j i hgt hij hi))

/-! ### `Stack.chop` -/

theorem stackChop_eq (nx ny nz : Nat) (hx : 0 < nx) (hy : 0 < ny) :
    stackChop ((List.range nz).map (tier nx ny)) = some ((List.range nz).map (fun k => cell 0 0 k)) := by
  unfold stackChop
  rw [List.map_map]
  apply allSome_map_congr
  intro k _
  simp [tier_eq, hx, hy]

theorem stackChop_reject (nx ny nz : Nat) (hz : 0 < nz) (h0 : nx = 0 ∨ ny = 0) :
    stackChop ((List.range nz).map (tier nx ny)) = none := by
  unfold stackChop
  apply allSome_none
  simp only [List.mem_map, List.mem_range]
  refine ⟨tier nx ny 0, ⟨0, hz, rfl⟩, ?_⟩
  rcases h0 with rfl | rfl
  · cases ny <;> simp [tier_eq, List.range_succ_eq_map]
  · simp [tier_eq]

end CBV.C19
