/-
C11 — helper lemmas for rings with any number of segments: the blocks of the lofted `ringQuads n`
and the edges neighbouring segments share.
-/
import CBV.Lemmas.C11Adj

namespace CBV.C11

theorem stackBlocks_one (Q : List (List Nat)) : stackBlocks Q 1 = loftBlocks Q (nPoints Q) 0 := by
  simp [stackBlocks, List.range_succ]

theorem ring_length (n : Nat) : (stackBlocks (ringQuads n) 1).length = n := by
  simp [stackBlocks_one, loftBlocks, ringQuads]

/-- block `i` of the lofted ring: inner i, outer i, outer i+1, inner i+1 on both layers -/
theorem ring_block (n i : Nat) (hi : i < n) :
    (stackBlocks (ringQuads n) 1).getD i [] =
      [2 * i, 2 * i + 1, 2 * ((i + 1) % n) + 1, 2 * ((i + 1) % n),
        2 * i + nPoints (ringQuads n), 2 * i + 1 + nPoints (ringQuads n),
        2 * ((i + 1) % n) + 1 + nPoints (ringQuads n), 2 * ((i + 1) % n) + nPoints (ringQuads n)] := by
  rw [stackBlocks_one]
  generalize nPoints (ringQuads n) = np
  simp [loftBlocks, ringQuads, List.getD_eq_getElem?_getD, List.getElem?_map, List.getElem?_range hi]

theorem nPoints_pos (Q : List (List Nat)) : 0 < nPoints Q := by
  unfold nPoints; omega

theorem pair_mem_axis0_32 : ((3, 2) : Nat × Nat) ∈ CBV.Gen.axisPairs.getD 0 [] := by decide
theorem pair_mem_axis0_01 : ((0, 1) : Nat × Nat) ∈ CBV.Gen.axisPairs.getD 0 [] := by decide
theorem pair_mem_axis2_37 : ((3, 7) : Nat × Nat) ∈ CBV.Gen.axisPairs.getD 2 [] := by decide
theorem pair_mem_axis2_04 : ((0, 4) : Nat × Nat) ∈ CBV.Gen.axisPairs.getD 2 [] := by decide

/-- neighbouring segments share the radial edge between them … -/
theorem ring_radial_shared (n i : Nat) (hi : i + 1 < n) :
    SharesEdge ((stackBlocks (ringQuads n) 1).getD i []) ((stackBlocks (ringQuads n) 1).getD (i + 1) []) 0 0 := by
  rw [ring_block n i (by omega), ring_block n (i + 1) hi]
  have hm : (i + 1) % n = i + 1 := Nat.mod_eq_of_lt hi
  refine ⟨(3, 2), pair_mem_axis0_32, (0, 1), pair_mem_axis0_01, ?_, Or.inl ⟨?_, ?_⟩⟩ <;> simp [hm]

/-- … and the axial edges above it -/
theorem ring_axial_shared (n i : Nat) (hi : i + 1 < n) :
    SharesEdge ((stackBlocks (ringQuads n) 1).getD i []) ((stackBlocks (ringQuads n) 1).getD (i + 1) []) 2 2 := by
  rw [ring_block n i (by omega), ring_block n (i + 1) hi]
  have hm : (i + 1) % n = i + 1 := Nat.mod_eq_of_lt hi
  have hp := nPoints_pos (ringQuads n)
  refine ⟨(3, 7), pair_mem_axis2_37, (0, 4), pair_mem_axis2_04, ?_, Or.inl ⟨?_, ?_⟩⟩ <;> simp [hm] <;> omega

end CBV.C11
