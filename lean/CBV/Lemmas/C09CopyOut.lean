/-
C09 — a tree with the same skeleton and the same leaf values reads as the same output geometry; hence a copy writes
the same output as its original.
-/
import CBV.Lemmas.C09Copy
import CBV.Lemmas.C09Entity

namespace CBV.C09
open CBV

set_option linter.unusedSimpArgs false

mutual
theorem visits_len_skelE : ∀ (e e' : Ent), skelE e' = skelE e → (visitsE e').length = (visitsE e).length
  | .pt i, e', h => by cases e' <;> simp [skelE, visitsE] at h ⊢
  | .dir i, e', h => by cases e' <;> simp [skelE, visitsE] at h ⊢
  | .arr is, e', h => by
      cases e' with
      | arr js =>
          simp only [skelE, Ent.arr.injEq] at h
          have := congrArg List.length h
          simpa [visitsE] using this
      | _ => simp [skelE] at h
  | .node k a ch, e', h => by
      cases e' with
      | node k' a' ch' =>
          simp only [skelE, Ent.node.injEq] at h
          simp only [visitsE]
          exact visits_len_skelL ch ch' h.2.2
      | _ => simp [skelE] at h
theorem visits_len_skelL : ∀ (es es' : List Ent), skelL es' = skelL es → (visitsL es').length = (visitsL es).length
  | [], es', h => by cases es' <;> simp [skelL, visitsL] at h ⊢
  | e :: es, es', h => by
      cases es' with
      | nil => simp [skelL] at h
      | cons e' es' =>
          simp only [skelL, List.cons.injEq] at h
          simp only [visitsL, List.length_append, visits_len_skelE e e' h.1, visits_len_skelL es es' h.2]
end

mutual
/-- same skeleton, same values read through the leaves ⇒ same output geometry -/
theorem resolve_of_skel_vals (h h' : Heap) : ∀ (e e' : Ent), skelE e' = skelE e → valsE h' e' = valsE h e →
    resolveE h' e' = resolveE h e
  | .pt i, e', hs, hv => by
      cases e' with
      | pt j => simpa [valsE, visitsE, resolveE] using hv
      | _ => simp [skelE] at hs
  | .dir i, e', hs, hv => by
      cases e' with
      | dir j => simpa [valsE, visitsE, resolveE] using hv
      | _ => simp [skelE] at hs
  | .arr is, e', hs, hv => by
      cases e' with
      | arr js =>
          have := congrArg (List.map Prod.fst) hv
          simpa [valsE, visitsE, resolveE, List.map_map, Function.comp_def] using this
      | _ => simp [skelE] at hs
  | .node k a ch, e', hs, hv => by
      cases e' with
      | node k' a' ch' =>
          simp only [skelE, Ent.node.injEq] at hs
          obtain ⟨hk, ha, hch⟩ := hs
          subst hk; subst ha
          simp only [resolveE, VEnt.node.injEq, true_and]
          exact resolve_of_skel_valsL h h' ch ch' hch (by simpa [valsE, valsL, visitsE] using hv)
      | _ => simp [skelE] at hs
theorem resolve_of_skel_valsL (h h' : Heap) : ∀ (es es' : List Ent), skelL es' = skelL es → valsL h' es' = valsL h es →
    resolveL h' es' = resolveL h es
  | [], es', hs, _ => by cases es' <;> simp [skelL, resolveL] at hs ⊢
  | e :: es, es', hs, hv => by
      cases es' with
      | nil => simp [skelL] at hs
      | cons e' es' =>
          simp only [skelL, List.cons.injEq] at hs
          simp only [valsL, visitsL, List.map_append] at hv
          have hlen : ((visitsE e').map (fun v => (Heap.get h' v.1, v.2))).length
              = ((visitsE e).map (fun v => (Heap.get h v.1, v.2))).length := by
            simp [visits_len_skelE e e' hs.1]
          obtain ⟨h1, h2⟩ := List.append_inj hv hlen
          simp only [resolveL]
          rw [resolve_of_skel_vals h h' e e' hs.1 h1, resolve_of_skel_valsL h h' es es' hs.2 h2]
end

/-! ### a copy of a tree without shared leaves has no shared leaves -/

theorem lookup_none_of_not_mem : ∀ (m : List (Nat × Nat)) (i : Nat), i ∉ m.map Prod.fst → m.lookup i = none
  | [], _, _ => rfl
  | (a, b) :: m, i, h => by
      simp only [List.map_cons, List.mem_cons, not_or] at h
      have : (i == a) = false := by simpa using h.1
      simp only [List.lookup, this]
      exact lookup_none_of_not_mem m i h.2

/-- copying cells that are pairwise distinct and not yet in the memo: the new cells are consecutive fresh numbers -/
def Consec (s s' : CopySt) (cells cells' : List Nat) : Prop :=
  cells' = List.range' s.heap.length cells.length ∧ s'.heap.length = s.heap.length + cells.length ∧
    s'.memo.map Prod.fst = cells.reverse ++ s.memo.map Prod.fst

theorem copyCell_consec (s : CopySt) (i : Nat) (hi : i ∉ s.memo.map Prod.fst) :
    Consec s (copyCell i s).2 [i] [(copyCell i s).1] := by
  unfold copyCell
  rw [lookup_none_of_not_mem _ _ hi]
  simp [Consec]

theorem Consec.append {s s1 s2 : CopySt} {a a' b b' : List Nat} (h1 : Consec s s1 a a') (h2 : Consec s1 s2 b b') :
    Consec s s2 (a ++ b) (a' ++ b') := by
  obtain ⟨x1, x2, x3⟩ := h1
  obtain ⟨y1, y2, y3⟩ := h2
  refine ⟨?_, ?_, ?_⟩
  · rw [x1, y1, x2, List.length_append, List.range'_append_1]
  · rw [y2, x2, List.length_append]; omega
  · rw [y3, x3, List.reverse_append, List.append_assoc]

theorem copyCells_consec : ∀ (is : List Nat) (s : CopySt), is.Nodup → (∀ i ∈ is, i ∉ s.memo.map Prod.fst) →
    Consec s (copyCells is s).2 is (copyCells is s).1
  | [], s, _, _ => by simp [copyCells, Consec]
  | i :: is, s, hnd, hm => by
      simp only [List.nodup_cons] at hnd
      have h1 := copyCell_consec s i (hm i (by simp))
      have h2 := copyCells_consec is (copyCell i s).2 hnd.2 (by
        intro j hj hmem
        rw [h1.2.2] at hmem
        simp only [List.reverse_cons, List.reverse_nil, List.nil_append, List.cons_append, List.mem_cons] at hmem
        rcases hmem with rfl | hmem
        · exact hnd.1 hj
        · exact hm j (by simp [hj]) hmem)
      simp only [copyCells]
      exact Consec.append h1 h2

mutual
theorem copyE_consec : ∀ (e : Ent) (s : CopySt), ((visitsE e).map Prod.fst).Nodup →
    (∀ v ∈ visitsE e, v.1 ∉ s.memo.map Prod.fst) →
    Consec s (copyE e s).2 ((visitsE e).map Prod.fst) ((visitsE (copyE e s).1).map Prod.fst)
  | .pt i, s, _, hm => by
      simpa [copyE, visitsE] using copyCell_consec s i (by simpa [visitsE] using hm)
  | .dir i, s, _, hm => by
      simpa [copyE, visitsE] using copyCell_consec s i (by simpa [visitsE] using hm)
  | .arr is, s, hnd, hm => by
      have := copyCells_consec is s (by simpa [visitsE, List.map_map, Function.comp_def] using hnd)
        (by intro i hi; exact hm (i, false) (by simp [visitsE, hi]))
      simpa [copyE, visitsE, List.map_map, Function.comp_def] using this
  | .node k a ch, s, hnd, hm => by
      simpa [copyE, visitsE] using copyL_consec ch s (by simpa [visitsE] using hnd) (by simpa [visitsE] using hm)
theorem copyL_consec : ∀ (es : List Ent) (s : CopySt), ((visitsL es).map Prod.fst).Nodup →
    (∀ v ∈ visitsL es, v.1 ∉ s.memo.map Prod.fst) →
    Consec s (copyL es s).2 ((visitsL es).map Prod.fst) ((visitsL (copyL es s).1).map Prod.fst)
  | [], s, _, _ => by simp [copyL, visitsL, Consec]
  | e :: es, s, hnd, hm => by
      simp only [visitsL, List.map_append, List.nodup_append] at hnd
      have h1 := copyE_consec e s hnd.1 (fun v hv => hm v (by simp [visitsL, hv]))
      have h2 := copyL_consec es (copyE e s).2 hnd.2.1 (by
        intro v hv hmem
        rw [h1.2.2] at hmem
        simp only [List.mem_append, List.mem_reverse] at hmem
        rcases hmem with hmem | hmem
        · exact hnd.2.2 _ hmem _ (List.mem_map.mpr ⟨v, hv, rfl⟩) rfl
        · exact hm v (by simp [visitsL, hv]) hmem)
      simp only [copyL, visitsL, List.map_append]
      exact Consec.append h1 h2
end

/-- NoAlias is preserved by `copy` -/
theorem copy_noalias (e : Ent) (h : Heap) (hna : ((visitsE e).map Prod.fst).Nodup) :
    ((visitsE (copy e h).1).map Prod.fst).Nodup := by
  have := copyE_consec e ⟨[], h⟩ hna (by simp)
  simp only [copy]
  rw [this.1]
  exact List.nodup_range'

end CBV.C09
