/-
C18 — every returning run of the re-orienter under the hull contract alone (round 6c).

No assumption on the view: whichever triangles the six passes pick, if `reorient` returns, the result is one of the 48
relabellings of the block.  What is assumed is the hull contract (the oriented hull triangles are the two halves of each
of the six sides, pairwise different) and a property of the BLOCK alone: triangles of different sides are more than 60°
apart (`across`), so that `Quadrangle` (repair 5ddf0fe) only accepts the two halves of one side.
-/
import CBV.Lemmas.C18Clear

namespace CBV.C18

theorem pick2_perm {d : V3} {l : List Tri} {b a : Tri} {rest : List Tri} (h : pick2 d l = some (b, a, rest)) :
    l.Perm (a :: b :: rest) := by
  unfold pick2 at h
  simp only [Option.bind_eq_bind] at h
  cases hi : bestIdx d l with
  | none => simp [hi] at h
  | some i =>
    simp only [hi, Option.bind_some] at h
    cases ha : l[i]? with
    | none => simp [ha] at h
    | some a' =>
      simp only [ha, Option.bind_some] at h
      cases hj : bestIdx d (l.eraseIdx i) with
      | none => simp [hj] at h
      | some j =>
        simp only [hj, Option.bind_some] at h
        cases hb : (l.eraseIdx i)[j]? with
        | none => simp [hb] at h
        | some b' =>
          simp only [hb, Option.bind_some, Option.some.injEq, Prod.mk.injEq] at h
          obtain ⟨rfl, rfl, rfl⟩ := h
          exact (perm_cons_eraseIdx ha).trans ((perm_cons_eraseIdx hb).cons _)

theorem mkQuad_steep {t0 t1 : Tri} (h : tooSteep t0 t1) : mkQuad t0 t1 = .error .degenerate := by
  unfold mkQuad
  rw [if_pos h]

/-- the hull contract (`hv s` = the two halves of side `s`, either diagonal, any vertex order; twelve different
    triangles) and the one property of the block: triangles of different sides are more than 60° apart -/
structure HullContract (Q : Hex) (hv : Nat → ITri × ITri) : Prop where
  sep : Sep Q
  cut : ∀ s ∈ sides6, halves s (hv s).1 (hv s).2 = true
  nodup : (sides6.flatMap (pairOf Q hv)).Nodup
  across : ∀ s ∈ sides6, ∀ s' ∈ sides6, s ≠ s' → ∀ X ∈ pairOf Q hv s, ∀ Y ∈ pairOf Q hv s', tooSteep X Y

/-- one pass, whatever it picks: if it does not raise, the quad is a whole side that was still there -/
theorem quadStep_sides {Q : Hex} {hv : Nat → ITri × ITri} (hc : HullContract Q hv) {d : V3} {S : List Nat}
    (hS : ∀ s ∈ S, s ∈ sides6) {rem : List Tri} (hrem : rem.Perm (S.flatMap (pairOf Q hv))) (hremn : rem.Nodup)
    {q : List V3} {rest : List Tri} (h : quadStep d rem = .ok (q, rest)) :
    ∃ s ∈ S, ∃ m : List Nat, m.Perm (corners s) ∧ q = m.map Q ∧
      rest.Perm ((S.erase s).flatMap (pairOf Q hv)) ∧ rest.Nodup := by
  obtain ⟨b, a, hp, hq⟩ := quadStep_spec h
  have hperm := pick2_perm hp
  have hnd : (a :: b :: rest).Nodup := hperm.nodup_iff.mp hremn
  have hab : a ≠ b := by
    intro e
    rw [e] at hnd
    simp at hnd
  have hrestn : rest.Nodup := (List.nodup_cons.mp (List.nodup_cons.mp hnd).2).2
  have ha : a ∈ S.flatMap (pairOf Q hv) := hrem.mem_iff.mp (hperm.mem_iff.mpr (by simp))
  have hb : b ∈ S.flatMap (pairOf Q hv) := hrem.mem_iff.mp (hperm.mem_iff.mpr (by simp))
  obtain ⟨s, hs, has⟩ := List.mem_flatMap.mp ha
  obtain ⟨s', hs', hbs⟩ := List.mem_flatMap.mp hb
  have hnst : ¬ tooSteep b a := fun hst => by rw [mkQuad_steep hst] at hq; cases hq
  have hss : s' = s := by
    by_contra hne
    exact hnst (hc.across s' (hS s' hs') s (hS s hs) hne b hbs a has)
  rw [hss] at hbs
  have hSperm : (S.flatMap (pairOf Q hv)).Perm
      (triP Q (hv s).1 :: triP Q (hv s).2 :: (S.erase s).flatMap (pairOf Q hv)) := by
    have := List.Perm.flatMap_right (pairOf Q hv) (List.perm_cons_erase hs)
    simpa [pairOf] using this
  have hall := hperm.symm.trans (hrem.trans hSperm)
  simp only [pairOf, List.mem_cons, List.not_mem_nil, or_false] at has hbs
  have hh := hc.cut s (hS s hs)
  simp only [halves, Bool.and_eq_true] at hh
  rcases has with has | has <;> rcases hbs with hbs | hbs
  · exact absurd (has.trans hbs.symm) hab
  · rw [has, hbs] at hall hq hnst
    obtain ⟨hq', hm⟩ := mkQuad_idx hc.sep hh.2 hnst
    rw [hq'] at hq
    cases hq
    exact ⟨s, hs, _, hm, rfl, (hall.cons_inv).cons_inv, hrestn⟩
  · rw [has, hbs] at hall hq hnst
    obtain ⟨hq', hm⟩ := mkQuad_idx hc.sep hh.1 hnst
    rw [hq'] at hq
    cases hq
    exact ⟨s, hs, _, hm, rfl, (((List.Perm.swap _ _ _).trans hall).cons_inv).cons_inv, hrestn⟩
  · exact absurd (has.trans hbs.symm) hab

/-- the six passes: six different sides, in whatever order the view makes the code pick them -/
theorem quadsOf_sides {Q : Hex} {hv : Nat → ITri × ITri} (hc : HullContract Q hv) {tris : List Tri} {d : Dirs}
    (htris : tris.Perm (sides6.flatMap (pairOf Q hv))) {q : Quads} (h : quadsOf tris d = .ok q) :
    ∃ s1 ∈ sides6, ∃ s2 ∈ sides6.erase s1, ∃ s3 ∈ (sides6.erase s1).erase s2,
      ∃ s4 ∈ ((sides6.erase s1).erase s2).erase s3, ∃ s5 ∈ (((sides6.erase s1).erase s2).erase s3).erase s4,
      ∃ s6 ∈ ((((sides6.erase s1).erase s2).erase s3).erase s4).erase s5,
      ∃ m1 m2 m3 m4 m5 m6 : List Nat, m1.Perm (corners s1) ∧ m2.Perm (corners s2) ∧ m3.Perm (corners s3) ∧
        m4.Perm (corners s4) ∧ m5.Perm (corners s5) ∧ m6.Perm (corners s6) ∧
        q = ⟨m1.map Q, m2.map Q, m3.map Q, m4.map Q, m5.map Q, m6.map Q⟩ := by
  obtain ⟨r1, r2, r3, r4, r5, r6, e1, e2, e3, e4, e5, e6⟩ := quadsOf_steps h
  have n0 : tris.Nodup := htris.nodup_iff.mpr hc.nodup
  have sub : ∀ {S : List Nat} {x : Nat}, (∀ s ∈ S, s ∈ sides6) → ∀ s ∈ S.erase x, s ∈ sides6 :=
    fun hS s hs => hS s (List.mem_of_mem_erase hs)
  have S0 : ∀ s ∈ sides6, s ∈ sides6 := fun _ h => h
  obtain ⟨s1, h1, m1, p1, q1, x1, n1⟩ := quadStep_sides hc S0 htris n0 e1
  obtain ⟨s2, h2, m2, p2, q2, x2, n2⟩ := quadStep_sides hc (sub S0) x1 n1 e2
  obtain ⟨s3, h3, m3, p3, q3, x3, n3⟩ := quadStep_sides hc (sub (sub S0)) x2 n2 e3
  obtain ⟨s4, h4, m4, p4, q4, x4, n4⟩ := quadStep_sides hc (sub (sub (sub S0))) x3 n3 e4
  obtain ⟨s5, h5, m5, p5, q5, x5, n5⟩ := quadStep_sides hc (sub (sub (sub (sub S0)))) x4 n4 e5
  obtain ⟨s6, h6, m6, p6, q6, _, _⟩ := quadStep_sides hc (sub (sub (sub (sub (sub S0))))) x5 n5 e6
  refine ⟨s1, h1, s2, h2, s3, h3, s4, h4, s5, h5, s6, h6, m1, m2, m3, m4, m5, m6, p1, p2, p3, p4, p5, p6, ?_⟩
  cases q
  simp only at q1 q2 q3 q4 q5 q6
  simp only [Quads.mk.injEq]
  exact ⟨q1, q2, q3, q4, q5, q6⟩

/-! ### the eight triple intersections for ANY assignment of sides to the six names -/

/-- the corners common to the sides `a`, `b`, `c` (as `get_common_point` computes them) -/
def triple (a b c : Nat) : List Nat := commonIdx (commonIdx (corners a) (corners b)) (corners c)

/-- `sorted_points` on corner numbers when front, back, top, bottom, left, right are the sides `sf … sr` -/
def cornersIdx (sf sb st so sl sr : Nat) : List (List Nat) :=
  [triple so sf sl, triple so sf sr, triple so sb sr, triple so sb sl,
   triple st sf sl, triple st sf sr, triple st sb sr, triple st sb sl]

theorem commonPoint_sides_inv {Q : Hex} (hs : Sep Q) {s s1 s2 : Nat} {m m1 m2 : List Nat}
    (hm : m.Perm (corners s)) (hm1 : m1.Perm (corners s1)) (hm2 : m2.Perm (corners s2)) {p : V3}
    (h : commonPoint (m.map Q) (m1.map Q) (m2.map Q) = .ok p) : ∃ k, triple s s1 s2 = [k] ∧ p = Q k ∧ k < 8 := by
  have lt : ∀ {m : List Nat} {s : Nat}, m.Perm (corners s) → ∀ i ∈ m, i < 8 :=
    fun h i hi => corners_lt _ i (h.mem_iff.mp hi)
  have hL : (commonIdx (commonIdx m m1) m2).Perm (triple s s1 s2) := commonIdx_perm (commonIdx_perm hm hm1) hm2
  have hsub : ∀ i ∈ commonIdx (commonIdx m m1) m2, i < 8 :=
    fun i hi => lt hm i (commonIdx_subset i (commonIdx_subset i hi))
  unfold commonPoint at h
  simp only at h
  rw [commonPoints_map hs _ _ (lt hm) (lt hm1),
    commonPoints_map hs _ _ (fun i hi => lt hm i (commonIdx_subset i hi)) (lt hm2)] at h
  generalize commonIdx (commonIdx m m1) m2 = L at h hL hsub
  match L, h, hL, hsub with
  | [], h, _, _ => simp at h
  | [k], h, hL, hsub =>
    refine ⟨k, List.perm_singleton.mp hL.symm, ?_, hsub k (by simp)⟩
    simp at h
    exact h.symm
  | _ :: _ :: _, h, _, _ => simp at h

theorem cornersOf_sides_inv {Q : Hex} (hs : Sep Q) {sf sb st so sl sr : Nat} {mf mb mt mo ml mr : List Nat}
    (hf : mf.Perm (corners sf)) (hb : mb.Perm (corners sb)) (ht : mt.Perm (corners st)) (ho : mo.Perm (corners so))
    (hl : ml.Perm (corners sl)) (hr : mr.Perm (corners sr)) {out : List V3}
    (h : cornersOf ⟨mf.map Q, mb.map Q, mt.map Q, mo.map Q, ml.map Q, mr.map Q⟩ = .ok out) :
    ∃ idx : List Nat, cornersIdx sf sb st so sl sr = idx.map (fun k => [k]) ∧ out = idx.map Q ∧ ∀ k ∈ idx, k < 8 := by
  unfold cornersOf at h
  obtain ⟨p0, h0, h⟩ := except_bind_ok h
  obtain ⟨p1, h1, h⟩ := except_bind_ok h
  obtain ⟨p2, h2, h⟩ := except_bind_ok h
  obtain ⟨p3, h3, h⟩ := except_bind_ok h
  obtain ⟨p4, h4, h⟩ := except_bind_ok h
  obtain ⟨p5, h5, h⟩ := except_bind_ok h
  obtain ⟨p6, h6, h⟩ := except_bind_ok h
  obtain ⟨p7, h7, h⟩ := except_bind_ok h
  cases h
  obtain ⟨k0, t0, e0, l0⟩ := commonPoint_sides_inv hs ho hf hl h0
  obtain ⟨k1, t1, e1, l1⟩ := commonPoint_sides_inv hs ho hf hr h1
  obtain ⟨k2, t2, e2, l2⟩ := commonPoint_sides_inv hs ho hb hr h2
  obtain ⟨k3, t3, e3, l3⟩ := commonPoint_sides_inv hs ho hb hl h3
  obtain ⟨k4, t4, e4, l4⟩ := commonPoint_sides_inv hs ht hf hl h4
  obtain ⟨k5, t5, e5, l5⟩ := commonPoint_sides_inv hs ht hf hr h5
  obtain ⟨k6, t6, e6, l6⟩ := commonPoint_sides_inv hs ht hb hr h6
  obtain ⟨k7, t7, e7, l7⟩ := commonPoint_sides_inv hs ht hb hl h7
  refine ⟨[k0, k1, k2, k3, k4, k5, k6, k7], ?_, ?_, ?_⟩
  · simp only [cornersIdx, t0, t1, t2, t3, t4, t5, t6, t7, List.map_cons, List.map_nil]
  · simp only [e0, e1, e2, e3, e4, e5, e6, e7, List.map_cons, List.map_nil]
  · intro k hk
    simp only [List.mem_cons, List.not_mem_nil, or_false] at hk
    rcases hk with rfl | rfl | rfl | rfl | rfl | rfl | rfl | rfl <;> assumption

/-- repair e299470 on corner numbers: every corner of the block is taken exactly once -/
theorem eachOnce_count {Q : Hex} (hs : Sep Q) {idx : List Nat} (hidx : ∀ k ∈ idx, k < 8)
    (h : eachOnce Q.toList (idx.map Q) = true) : ∀ j < 8, idx.count j = 1 := by
  intro j hj
  unfold eachOnce Hex.toList at h
  simp only [List.all_eq_true, List.mem_map, beq_iff_eq] at h
  have := h (Q j) ⟨j, List.mem_range.mpr hj, rfl⟩
  rw [List.filter_map, List.length_map] at this
  have hf : idx.filter ((fun p => decide (near p (Q j))) ∘ Q) = idx.filter (fun i => i == j) := by
    apply List.filter_congr
    intro i hi
    have hi8 := hidx i hi
    by_cases hij : i = j
    · subst hij; simp [near_refl]
    · have hn : ¬ near (Q i) (Q j) := fun hn => hij (hs i j hi8 hj hn)
      simp [hn, hij]
  rw [hf] at this
  rw [List.count_eq_countP, List.countP_eq_length_filter]
  exact this

/-- what every assignment of six different sides to the six names leads to: if all eight triples are single corners and
    every corner is taken once, the numbering is one of the 48 -/
def leafOk (sf sb st so sl sr : Nat) : Bool :=
  let c := cornersIdx sf sb st so sl sr
  !(c.all (fun l => l.length == 1) && (List.range 8).all (fun j => c.flatten.count j == 1)) || sym48.contains c.flatten

def allAssignmentsOk : Bool :=
  sides6.all fun s1 => (sides6.erase s1).all fun s2 => ((sides6.erase s1).erase s2).all fun s3 =>
    (((sides6.erase s1).erase s2).erase s3).all fun s4 =>
      ((((sides6.erase s1).erase s2).erase s3).erase s4).all fun s5 =>
        (((((sides6.erase s1).erase s2).erase s3).erase s4).erase s5).all fun s6 => leafOk s1 s2 s3 s4 s5 s6

/-- all 720 assignments (complete enumeration) -/
theorem allAssignments : allAssignmentsOk = true := by decide +kernel

theorem flatten_singletons (idx : List Nat) : (idx.map (fun k => [k])).flatten = idx := by
  induction idx with
  | nil => rfl
  | cons k ks ih => simp only [List.map_cons, List.flatten_cons, ih, List.singleton_append]

/-- **every returning run**: under the hull contract, whatever the view, the order of the triangles and the input
    numbering, what `reorientCore` returns is `fixHand` of one of the 48 numberings of the block -/
theorem reorientCore_sides {Q : Hex} {hv : Nat → ITri × ITri} (hc : HullContract Q hv) {pts : List V3}
    (hp : pts.Perm Q.toList) {tris : List Tri} (htris : tris.Perm (sides6.flatMap (pairOf Q hv)))
    {c obs ceil : V3} {out : List V3} (h : reorientCore pts tris c obs ceil = .ok out) :
    ∃ l ∈ sym48, out = fixHand (l.map Q) := by
  obtain ⟨q, c0, hq, hc0, he, rfl⟩ := reorientCore_spec h
  obtain ⟨s1, h1, s2, h2, s3, h3, s4, h4, s5, h5, s6, h6, m1, m2, m3, m4, m5, m6, p1, p2, p3, p4, p5, p6, rfl⟩ :=
    quadsOf_sides hc htris hq
  obtain ⟨idx, hidx, rfl, hlt⟩ := cornersOf_sides_inv hc.sep p1 p2 p3 p4 p5 p6 hc0
  rw [eachOnce_perm_left hp] at he
  have hcount := eachOnce_count hc.sep hlt he
  have hall := allAssignments
  simp only [allAssignmentsOk, List.all_eq_true] at hall
  have hleaf := hall s1 h1 s2 h2 s3 h3 s4 h4 s5 h5 s6 h6
  have hflat : (idx.map (fun k => [k])).flatten = idx := flatten_singletons idx
  unfold leafOk at hleaf
  simp only [hidx, hflat, Bool.or_eq_true, Bool.not_eq_true', Bool.and_eq_false_iff, List.contains_iff_mem] at hleaf
  refine ⟨idx, ?_, rfl⟩
  rcases hleaf with (hl | hl) | hl
  · exfalso
    have : (idx.map (fun k => [k])).all (fun l => l.length == 1) = true := by
      simp [List.all_eq_true]
    rw [this] at hl
    cases hl
  · exfalso
    have : (List.range 8).all (fun j => idx.count j == 1) = true := by
      simp only [List.all_eq_true, List.mem_range, beq_iff_eq]
      exact hcount
    rw [this] at hl
    cases hl
  · exact hl

end CBV.C18
