import CBV.Lemmas.C02Complete
namespace CBV.Prop0

/-- number of axes below n that are not defined -/
def cnt (d : Def) : Nat → Nat
  | 0 => 0
  | n+1 => cnt d n + (if n ∈ d then 0 else 1)

theorem cnt_cons_le (d : Def) (a : Nat) : ∀ n, cnt (a :: d) n ≤ cnt d n := by
  intro n; induction n with
  | zero => simp [cnt]
  | succ n ih =>
    simp only [cnt, List.mem_cons]
    split <;> split <;> simp_all <;> omega

theorem cnt_cons_lt (d : Def) (a : Nat) (ha : a ∉ d) : ∀ n, a < n → cnt (a :: d) n + 1 ≤ cnt d n := by
  intro n; induction n with
  | zero => intro h; omega
  | succ n ih =>
    intro h
    by_cases hn : n = a
    · have hle := cnt_cons_le d a n
      have e1 : cnt (a :: d) (n+1) = cnt (a :: d) n := by simp [cnt, hn]
      have e2 : cnt d (n+1) = cnt d n + 1 := by simp [cnt, hn, ha]
      omega
    · have hlt := ih (by omega)
      have e1 : cnt (a :: d) (n+1) = cnt (a :: d) n + (if n ∈ d then 0 else 1) := by
        simp [cnt, hn]
      have e2 : cnt d (n+1) = cnt d n + (if n ∈ d then 0 else 1) := by simp [cnt]
      omega

/-- measure bookkeeping for one axis copy -/
theorem axisCopy_cnt (inp : Inp) (d : Def) (a n : Nat) (ha : a < n) :
    cnt (axisCopy inp d a).1 n + (if (axisCopy inp d a).2 then 1 else 0) ≤ cnt d n := by
  unfold axisCopy
  by_cases h1 : a ∈ d
  · simp [h1]
  · by_cases h2 : HasDefNbr inp d a
    · simp only [h1, h2, if_true, if_false]; exact cnt_cons_lt d a h1 n ha
    · simp [h1, h2]

theorem axesCopy_cnt (inp : Inp) (n : Nat) (as : List Nat) : ∀ d, (∀ a ∈ as, a < n) →
    cnt (axesCopy inp d as).1 n + (if (axesCopy inp d as).2 then 1 else 0) ≤ cnt d n := by
  induction as with
  | nil => intro d _; simp [axesCopy]
  | cons a as ih =>
    intro d h
    unfold axesCopy
    have h1 := axisCopy_cnt inp d a n (h a List.mem_cons_self)
    have h2 := ih (axisCopy inp d a).1 (fun x hx => h x (List.mem_cons_of_mem _ hx))
    dsimp only
    split at h1 <;> split at h2 <;> split <;> simp_all <;> omega

theorem axesOf_lt {b N a : Nat} (hb : b < N) (ha : a ∈ axesOf b) : a < 3 * N := by
  unfold axesOf at ha
  simp only [List.mem_cons, List.mem_nil_iff, or_false] at ha
  omega

theorem blockCopy_cnt (inp : Inp) (d : Def) (b : Nat) (hb : b < inp.nBlocks) :
    cnt (blockCopy inp d b).1 (3 * inp.nBlocks) + (if (blockCopy inp d b).2 then 1 else 0)
      ≤ cnt d (3 * inp.nBlocks) := by
  unfold blockCopy
  by_cases h : BlockDef d b
  · simp [h]
  · simp only [h, if_false]
    exact axesCopy_cnt inp _ _ d (fun a ha => axesOf_lt hb ha)

/-- a pass that reports an update strictly decreases `|worklist| + #undefined axes` -/
theorem pass_measure (inp : Inp) (wl : List Nat) : ∀ d, (∀ b ∈ wl, b < inp.nBlocks) →
    (pass inp d wl).2.1.length + cnt (pass inp d wl).1 (3 * inp.nBlocks)
      + (if (pass inp d wl).2.2 then 1 else 0) ≤ wl.length + cnt d (3 * inp.nBlocks) := by
  induction wl with
  | nil => intro d _; simp [pass]
  | cons b rest ih =>
    intro d h
    unfold pass
    by_cases hb : BlockDef d b
    · simp [hb]; omega
    · simp only [hb, if_false]
      have h1 := blockCopy_cnt inp d b (h b List.mem_cons_self)
      have h2 := ih (blockCopy inp d b).1 (fun x hx => h x (List.mem_cons_of_mem _ hx))
      split at h1 <;> split at h2 <;> split <;> simp_all <;> omega

/-- termination: enough fuel is never exhausted -/
theorem loop_fuel (inp : Inp) : ∀ (fuel : Nat) (d : Def) (wl : List Nat),
    (∀ b ∈ wl, b < inp.nBlocks) → wl.length + cnt d (3 * inp.nBlocks) < fuel →
    (loop inp fuel d wl).2 ≠ .outOfFuel := by
  intro fuel
  induction fuel with
  | zero => intro d wl _ h; omega
  | succ f ih =>
    intro d wl hwl hm
    unfold loop
    cases wl with
    | nil => simp
    | cons b rest =>
      simp only
      by_cases hu : (pass inp d (b :: rest)).2.2 = true
      · simp only [hu, if_true]
        apply ih
        · intro c hc; exact hwl c (pass_sub inp _ d c hc)
        · have := pass_measure inp (b :: rest) d hwl
          simp only [hu, if_true] at this
          omega
      · have hu' : (pass inp d (b :: rest)).2.2 = false := by simpa using hu
        simp [hu']

theorem cnt_le (d : Def) : ∀ n, cnt d n ≤ n := by
  intro n; induction n with
  | zero => simp [cnt]
  | succ n ih => simp only [cnt]; split <;> omega

/-- the headline: with fuel 4·|blocks|+1 the loop terminates by itself -/
theorem loop_terminates (inp : Inp) (d : Def) :
    (loop inp (4 * inp.nBlocks + 1) d (List.range inp.nBlocks)).2 ≠ .outOfFuel := by
  apply loop_fuel
  · intro b hb; exact List.mem_range.mp hb
  · have := cnt_le d (3 * inp.nBlocks)
    simp only [List.length_range]; omega

end CBV.Prop0


