/-
C20 — lemmas about the semantics of guard syntax (`CBV/Model/C20Syntax.lean`): the outcome does not depend on
the trace that is threaded through, unfolding equations for `runStmts`, and the trace of statement lists
without mutations.
-/
import CBV.Model.C20
import Mathlib.Tactic.Ring
import Mathlib.Tactic.Linarith
import Mathlib.Algebra.Order.Field.Rat

namespace CBV.C20

theorem runS_fst (env : Env) (b : List S) (tr tr' : List String) : (runS env b tr).1 = (runS env b tr').1 := by
  induction b generalizing tr tr' with
  | nil => rfl
  | cons x r ih =>
      cases x with
      | raise cls c => simp only [runS]; split <;> simp [ih tr tr']
      | implicit cls c => simp only [runS]; split <;> simp [ih tr tr']
      | ret c => simp only [runS]; split <;> simp [ih tr tr']
      | mutate w => simp only [runS]; exact ih _ _

theorem eachRun_fst (env : Env) (v : String) (b : List S) (xs : List Int) (tr tr' : List String) :
    (eachRun env v b xs tr).1 = (eachRun env v b xs tr').1 := by
  induction xs generalizing tr tr' with
  | nil => rfl
  | cons x r ih =>
      simp only [eachRun]
      rw [runS_fst (env.bind v x) b tr tr']
      cases (runS (env.bind v x) b tr').1 with
      | some o => rfl
      | none => exact ih _ _

theorem traceStmts_fst (env : Env) (g : List Stmt) (tr tr' : List String) :
    (traceStmts env g tr).1 = (traceStmts env g tr').1 := by
  induction g generalizing tr tr' with
  | nil => rfl
  | cons st r ih =>
      cases st with
      | s x =>
          cases x with
          | raise cls c => simp only [traceStmts]; split <;> simp [ih tr tr']
          | implicit cls c => simp only [traceStmts]; split <;> simp [ih tr tr']
          | ret c => simp only [traceStmts]; split <;> simp [ih tr tr']
          | mutate w => simp only [traceStmts]; exact ih _ _
      | each v l b =>
          simp only [traceStmts]
          rw [eachRun_fst env v b (env.ints l) tr tr']
          cases (eachRun env v b (env.ints l) tr').1 with
          | some o => rfl
          | none => exact ih _ _

@[simp] theorem runStmts_nil (env : Env) : runStmts env [] = .accept := rfl

@[simp] theorem runStmts_raise (env : Env) (cls : String) (c : C) (r : List Stmt) :
    runStmts env (.s (.raise cls c) :: r) = if evalC env c then .reject cls else runStmts env r := by
  simp only [runStmts, traceStmts]; split <;> rfl

@[simp] theorem runStmts_implicit (env : Env) (cls : String) (c : C) (r : List Stmt) :
    runStmts env (.s (.implicit cls c) :: r) = if evalC env c then .reject cls else runStmts env r := by
  simp only [runStmts, traceStmts]; split <;> rfl

@[simp] theorem runStmts_ret (env : Env) (c : C) (r : List Stmt) :
    runStmts env (.s (.ret c) :: r) = if evalC env c then .accept else runStmts env r := by
  simp only [runStmts, traceStmts]; split <;> rfl

@[simp] theorem runStmts_mut (env : Env) (w : String) (r : List Stmt) :
    runStmts env (.s (.mutate w) :: r) = runStmts env r := by
  simp only [runStmts, traceStmts]; exact traceStmts_fst env r _ _

/-- the loop around a helper whose only statements are one guard and mutations -/
def eachOut (env : Env) (v : String) (b : List S) : List Int → Option Out
  | [] => none
  | x :: xs => match (runS (env.bind v x) b []).1 with
      | some o => some o
      | none => eachOut env v b xs

theorem eachRun_eq_eachOut (env : Env) (v : String) (b : List S) (xs : List Int) (tr : List String) :
    (eachRun env v b xs tr).1 = eachOut env v b xs := by
  induction xs generalizing tr with
  | nil => rfl
  | cons x r ih =>
      simp only [eachRun, eachOut]
      rw [runS_fst (env.bind v x) b tr []]
      cases (runS (env.bind v x) b []).1 with
      | some o => rfl
      | none => exact ih _

@[simp] theorem runStmts_each (env : Env) (v l : String) (b : List S) (r : List Stmt) :
    runStmts env (.each v l b :: r) =
      match eachOut env v b (env.ints l) with
      | some o => o
      | none => runStmts env r := by
  simp only [runStmts, traceStmts]
  rw [eachRun_eq_eachOut]
  cases eachOut env v b (env.ints l) with
  | some o => rfl
  | none => exact traceStmts_fst env r _ _

/-! ### statement lists without mutations leave nothing behind -/

theorem runS_trace_of_no_mut (env : Env) (b : List S) (tr : List String)
    (h : b.all (fun x => x.muts.isEmpty) = true) : (runS env b tr).2 = tr := by
  induction b generalizing tr with
  | nil => rfl
  | cons x r ih =>
      simp only [List.all_cons, Bool.and_eq_true] at h
      cases x with
      | raise cls c => simp only [runS]; split <;> simp [ih tr h.2]
      | implicit cls c => simp only [runS]; split <;> simp [ih tr h.2]
      | ret c => simp only [runS]; split <;> simp [ih tr h.2]
      | mutate w => simp [S.muts] at h

theorem S_muts_nil_iff (b : List S) :
    (b.flatMap S.muts).isEmpty = true ↔ b.all (fun x => x.muts.isEmpty) = true := by
  induction b with
  | nil => simp
  | cons x r ih =>
      cases x <;> simp_all [List.flatMap_cons, S.muts]

theorem eachRun_trace_of_no_mut (env : Env) (v : String) (b : List S) (xs : List Int) (tr : List String)
    (h : b.all (fun x => x.muts.isEmpty) = true) : (eachRun env v b xs tr).2 = tr := by
  induction xs generalizing tr with
  | nil => rfl
  | cons x r ih =>
      simp only [eachRun]
      have h2 := runS_trace_of_no_mut (env.bind v x) b tr h
      cases hh : (runS (env.bind v x) b tr).1 with
      | some o => simp [h2]
      | none => simp only [h2]; exact ih tr

/-- **a list of statements that contains no mutation changes no state, whatever the outcome** -/
theorem traceStmts_of_mutFree (env : Env) (g : List Stmt) (tr : List String) (h : mutFree g = true) :
    (traceStmts env g tr).2 = tr := by
  induction g generalizing tr with
  | nil => rfl
  | cons st r ih =>
      simp only [mutFree, List.all_cons, Bool.and_eq_true] at h
      have hr : mutFree r = true := h.2
      cases st with
      | s x =>
          cases x with
          | raise cls c => simp only [traceStmts]; split <;> simp [ih tr hr]
          | implicit cls c => simp only [traceStmts]; split <;> simp [ih tr hr]
          | ret c => simp only [traceStmts]; split <;> simp [ih tr hr]
          | mutate w => simp [Stmt.muts, S.muts] at h
      | each v l b =>
          have hb := (S_muts_nil_iff b).1 (by simpa [Stmt.muts] using h.1)
          simp only [traceStmts]
          have h2 := eachRun_trace_of_no_mut env v b (env.ints l) tr hb
          cases hh : (eachRun env v b (env.ints l) tr).1 with
          | some o => simp [h2]
          | none => simp only [h2]; exact ih tr hr

/-! comparisons of an integer argument (cast to ℚ by the semantics) with a literal -/

@[simp] theorem lit_lt_intCast (n : ℕ) [n.AtLeastTwo] (c : ℤ) :
    ((no_index (OfNat.ofNat n) : ℚ) < (c : ℚ)) ↔ ((OfNat.ofNat n : ℤ) < c) := by
  rw [← Int.cast_ofNat (R := ℚ), Int.cast_lt]

@[simp] theorem intCast_lt_lit (n : ℕ) [n.AtLeastTwo] (c : ℤ) :
    ((c : ℚ) < (no_index (OfNat.ofNat n) : ℚ)) ↔ (c < (OfNat.ofNat n : ℤ)) := by
  rw [← Int.cast_ofNat (R := ℚ), Int.cast_lt]

@[simp] theorem lit_le_intCast (n : ℕ) [n.AtLeastTwo] (c : ℤ) :
    ((no_index (OfNat.ofNat n) : ℚ) ≤ (c : ℚ)) ↔ ((OfNat.ofNat n : ℤ) ≤ c) := by
  rw [← Int.cast_ofNat (R := ℚ), Int.cast_le]

@[simp] theorem intCast_le_lit (n : ℕ) [n.AtLeastTwo] (c : ℤ) :
    ((c : ℚ) ≤ (no_index (OfNat.ofNat n) : ℚ)) ↔ (c ≤ (OfNat.ofNat n : ℤ)) := by
  rw [← Int.cast_ofNat (R := ℚ), Int.cast_le]

@[simp] theorem lit_eq_intCast (n : ℕ) [n.AtLeastTwo] (c : ℤ) :
    ((no_index (OfNat.ofNat n) : ℚ) = (c : ℚ)) ↔ ((OfNat.ofNat n : ℤ) = c) := by
  rw [← Int.cast_ofNat (R := ℚ), Int.cast_inj]

@[simp] theorem intCast_eq_lit (n : ℕ) [n.AtLeastTwo] (c : ℤ) :
    ((c : ℚ) = (no_index (OfNat.ofNat n) : ℚ)) ↔ (c = (OfNat.ofNat n : ℤ)) := by
  rw [← Int.cast_ofNat (R := ℚ), Int.cast_inj]

@[simp] theorem natCast_eq_lit (n : ℕ) [n.AtLeastTwo] (k : ℕ) :
    ((k : ℚ) = (no_index (OfNat.ofNat n) : ℚ)) ↔ (k = (OfNat.ofNat n : ℕ)) := by
  rw [← Nat.cast_ofNat (R := ℚ), Nat.cast_inj]

@[simp] theorem natCast_lt_lit (n : ℕ) [n.AtLeastTwo] (k : ℕ) :
    ((k : ℚ) < (no_index (OfNat.ofNat n) : ℚ)) ↔ (k < (OfNat.ofNat n : ℕ)) := by
  rw [← Nat.cast_ofNat (R := ℚ), Nat.cast_lt]

@[simp] theorem natCast_le_lit (n : ℕ) [n.AtLeastTwo] (k : ℕ) :
    ((k : ℚ) ≤ (no_index (OfNat.ofNat n) : ℚ)) ↔ (k ≤ (OfNat.ofNat n : ℕ)) := by
  rw [← Nat.cast_ofNat (R := ℚ), Nat.cast_le]

@[simp] theorem lit_lt_natCast (n : ℕ) [n.AtLeastTwo] (k : ℕ) :
    ((no_index (OfNat.ofNat n) : ℚ) < (k : ℚ)) ↔ ((OfNat.ofNat n : ℕ) < k) := by
  rw [← Nat.cast_ofNat (R := ℚ), Nat.cast_lt]

theorem dot_smul_left (k : Rat) (a b : V3) : V3.dot (V3.smul k a) b = k * V3.dot a b := by
  simp only [V3.dot, V3.smul_x, V3.smul_y, V3.smul_z]; ring

/-! helpers of the per-entry-point theorems -/

theorem eachOut_removeEdges_explicit (env : Env) (cs : List Int) :
    eachOut env "corner"
      [.raise "FaceCreationError" (.or (.cmp .lt (.var "corner") (.int 0)) (.cmp .gt (.var "corner") (.int 3))),
       .mutate "self.edges"] cs =
      match removeEdgesRun cs with
      | .accept => none
      | .reject cls => some (.reject cls) := by
  induction cs with
  | nil => rfl
  | cons c r ih =>
      simp only [eachOut, runS, evalC, evalE, evalOp, Env.bind, removeEdgesRun, faceCornerBad]
      have e : (decide (((c : Int) : Rat) < ((0 : Int) : Rat)) || decide (((c : Int) : Rat) > ((3 : Int) : Rat)))
          = (decide (c < 0) || decide (c > 3)) := by
        congr 1 <;> simp
      simp only [beq_self_eq_true, if_true, e]
      by_cases h : (decide (c < 0) || decide (c > 3)) = true
      · simp [h]
      · simp [h, ih]

theorem pyShape_one (m : Nat) : pyShape [m] = [m] := by cases m <;> rfl

theorem pyShape_two (n m : Nat) (h : n ≠ 0) : pyShape [n, m] = [n, m] := by
  cases n with
  | zero => exact absurd rfl h
  | succ k => simp [pyShape, pyShape_one]

/-! ### membership of an unordered pair in a list of pairs (`Frame.add_beam`) -/

def matchPair (p : Int × Int) (x y : Int) : Bool := (p.1 == x && p.2 == y) || (p.1 == y && p.2 == x)

def pairHas (pairs : List (Int × Int)) (x y : Int) : Bool := pairs.any (fun p => matchPair p x y)

def samePair (p q : Int × Int) : Bool := matchPair p q.1 q.2

/-- the pairs of the model's reading of `Frame.valid_pairs` -/
def framePairs : List (Int × Int) :=
  [(0, 1), (2, 3), (6, 7), (4, 5), (0, 3), (1, 2), (5, 6), (4, 7), (0, 4), (1, 5), (2, 6), (3, 7)]

def edgePairsInt : List (Int × Int) := CBV.Gen.edgePairs.map (fun q => (((q.1 : Nat) : Int), ((q.2 : Nat) : Int)))

theorem matchPair_of_samePair (p q : Int × Int) (x y : Int) (h : samePair p q = true) (hm : matchPair p x y = true) :
    matchPair q x y = true := by
  simp only [samePair, matchPair, Bool.or_eq_true, Bool.and_eq_true, beq_iff_eq] at *
  rcases h with ⟨h1, h2⟩ | ⟨h1, h2⟩ <;> rcases hm with ⟨m1, m2⟩ | ⟨m1, m2⟩ <;> omega

theorem pairHas_mono (P Q : List (Int × Int)) (hP : ∀ p ∈ P, ∃ q ∈ Q, samePair p q = true) (x y : Int)
    (h : pairHas P x y = true) : pairHas Q x y = true := by
  simp only [pairHas, List.any_eq_true] at *
  obtain ⟨p, hp, hm⟩ := h
  obtain ⟨q, hq, hs⟩ := hP p hp
  exact ⟨q, hq, matchPair_of_samePair p q x y hs hm⟩

/-- two lists that hold the same unordered pairs answer every look-up alike -/
theorem pairHas_congr (P Q : List (Int × Int)) (hP : ∀ p ∈ P, ∃ q ∈ Q, samePair p q = true)
    (hQ : ∀ q ∈ Q, ∃ p ∈ P, samePair q p = true) (x y : Int) : pairHas P x y = pairHas Q x y := by
  rw [Bool.eq_iff_iff]
  exact ⟨pairHas_mono P Q hP x y, pairHas_mono Q P hQ x y⟩

theorem validPair_eq_pairHas (c1 c2 : Int) : validPair c1 c2 = pairHas edgePairsInt c1 c2 := by
  simp only [validPair, pairHas, edgePairsInt, List.any_map, matchPair]
  rfl

/-- the semantics of `{a, b} in pairs` on two integer arguments is the look-up of the unordered pair -/
theorem evalC_pairin (env : Env) (a b : String) (x y : Int) (pairs : List (Int × Int))
    (ha : env.rat a = (x : Rat)) (hb : env.rat b = (y : Rat)) :
    evalC env (.pairin (.var a) (.var b) pairs) = pairHas pairs x y := by
  simp only [evalC, evalE, ha, hb, pairHas, matchPair]
  congr 1
  funext p
  simp only [Int.cast_inj]
  rfl

theorem arcTheta_cond (a twoPi : Rat) :
    (decide (0 < absR a) && decide (absR a < twoPi)) = true ↔ (a ≠ 0 ∧ -twoPi < a ∧ a < twoPi) := by
  simp only [Bool.and_eq_true, decide_eq_true_eq, absR]
  by_cases h0 : a < 0
  · simp only [h0, if_true, decide_eq_true_eq]
    constructor
    · rintro ⟨_, h2⟩; exact ⟨ne_of_lt h0, by linarith, by linarith⟩
    · rintro ⟨_, h2, _⟩; exact ⟨by linarith, by linarith⟩
  · simp only [h0, if_false, decide_eq_true_eq]
    have h0' : 0 ≤ a := not_lt.mp h0
    constructor
    · rintro ⟨h1, h2⟩; exact ⟨ne_of_gt h1, by linarith, h2⟩
    · rintro ⟨hne, _, h3⟩; exact ⟨lt_of_le_of_ne h0' (Ne.symm hne), h3⟩

theorem eachOut_removeEdges (env : Env) (cs : List Int) :
    eachOut env "corner"
      [.raise "FaceCreationError" (.or (.cmp .lt (.var "corner") (.int 0)) (.cmp .gt (.var "corner") (.int 3))),
       .implicit "IndexError" (.not (.and (.cmp .le (.int (-4)) (.var "corner")) (.cmp .lt (.var "corner") (.int 4)))),
       .mutate "self.edges"] cs =
      match removeEdgesRun cs with
      | .accept => none
      | .reject cls => some (.reject cls) := by
  induction cs with
  | nil => rfl
  | cons c r ih =>
      simp only [eachOut, runS, evalC, evalE, evalOp, Env.bind, removeEdgesRun, faceCornerBad]
      have e : (decide (((c : Int) : Rat) < ((0 : Int) : Rat)) || decide (((c : Int) : Rat) > ((3 : Int) : Rat)))
          = (decide (c < 0) || decide (c > 3)) := by
        congr 1 <;> simp
      have e2 : (decide ((((-4 : Int)) : Rat) ≤ ((c : Int) : Rat)) && decide (((c : Int) : Rat) < ((4 : Int) : Rat)))
          = (decide (-4 ≤ c) && decide (c < 4)) := by
        congr 1 <;> simp [Int.cast_le, Int.cast_lt] <;> norm_cast
      simp only [beq_self_eq_true, if_true, e, e2]
      by_cases h : (decide (c < 0) || decide (c > 3)) = true
      · simp [h]
      · have h2 : (decide (-4 ≤ c) && decide (c < 4)) = true := by
          simp only [Bool.or_eq_true, decide_eq_true_eq, not_or, not_lt] at h
          simp only [Bool.and_eq_true, decide_eq_true_eq]; omega
        simp [h, h2, ih]

/-- after an explicit `c < 0 or c > hi` (hi ≤ 3) the subscript on a list of four elements cannot fail -/
theorem implicit_index_unreachable (c hi : Int) (cls : String) (hhi : hi ≤ 3) :
    (if c < 0 ∨ hi < c then Out.reject cls
      else if (c : ℚ) < -4 ∨ 4 ≤ c then Out.reject "IndexError" else Out.accept) =
    if c < 0 ∨ hi < c then Out.reject cls else Out.accept := by
  by_cases h : c < 0 ∨ hi < c
  · simp [h]
  · have h1 : ¬ ((c : ℚ) < -4) := by
      have : ((-4 : ℤ) : ℚ) ≤ (c : ℚ) := Int.cast_le.mpr (by omega)
      push_cast at this; linarith
    have h2 : ¬ (4 ≤ c) := by omega
    simp [h, h1, h2]

end CBV.C20
