/-
C06 — helper lemmas about `assembleDecl`: index bounds of the vertices handed out by the C05
model (no hypothesis on closeness needed), fold invariants of patches / faces / edges.
-/
import CBV.Lemmas.C06
import CBV.Lemmas.C05

set_option linter.unusedSectionVars false

namespace CBV.C06

open CBV.C05 (VList Vertex Dup Op)

/-! ### folds -/

theorem foldl_inv {α β : Type} (P : β → Prop) (f : β → α → β) :
    ∀ (l : List α) (init : β), P init → (∀ acc x, x ∈ l → P acc → P (f acc x)) → P (l.foldl f init) := by
  intro l
  induction l with
  | nil => intro init h0 _; exact h0
  | cons x xs ih =>
    intro init h0 hs
    exact ih (f init x) (hs init x List.mem_cons_self h0) (fun acc y hy => hs acc y (List.mem_cons_of_mem _ hy))

/-! ### every vertex handed out is listed (no hypothesis on `close`) -/

section Bound
variable {P N : Type} [DecidableEq N] [LE N] [DecidableLE N] (close : P → P → Bool)

/-- all vertices are registered and carry their position as index -/
structure WInv (vl : VList P N) : Prop where
  reg : vl.duplicated.map Dup.vertex = vl.vertices
  dense : ∀ (i : Nat) (v : Vertex P), vl.vertices[i]? = some v → v.index = i

theorem winv_empty : WInv ({} : VList P N) := ⟨rfl, by simp⟩

theorem add_some_eq' (vl : VList P N) (p : P) (s : List N) :
    C05.add close vl p (some s) =
      match C05.findDuplicated close vl p (C05.sort s) with
      | some v => (vl, v)
      | none => ({ vertices := vl.vertices ++ [C05.newVertex vl p],
                   duplicated := vl.duplicated ++ [⟨C05.newVertex vl p, C05.sort s⟩] }, C05.newVertex vl p) := rfl

theorem add_winv {vl : VList P N} (hi : WInv vl) (p : P) (s : List N) :
    WInv (C05.add close vl p (some s)).1 ∧
    (∀ v ∈ vl.vertices, v ∈ (C05.add close vl p (some s)).1.vertices) ∧
    (C05.add close vl p (some s)).2 ∈ (C05.add close vl p (some s)).1.vertices := by
  rw [add_some_eq']
  cases hf : C05.findDuplicated close vl p (C05.sort s) with
  | some v =>
    refine ⟨hi, fun v hv => hv, ?_⟩
    unfold C05.findDuplicated at hf
    rw [Option.map_eq_some_iff] at hf
    obtain ⟨d, hd, rfl⟩ := hf
    have hm := List.mem_of_find?_eq_some hd
    show d.vertex ∈ vl.vertices
    rw [← hi.reg]
    exact List.mem_map_of_mem hm
  | none =>
    refine ⟨⟨by simp [hi.reg], ?_⟩, fun v hv => List.mem_append_left _ hv, by simp⟩
    intro i v hv
    simp only at hv
    rw [List.getElem?_append] at hv
    split at hv
    · exact hi.dense i v hv
    · have : i - vl.vertices.length = 0 := by
        cases hk : i - vl.vertices.length with
        | zero => rfl
        | succ k => rw [hk] at hv; simp at hv
      rw [this] at hv
      simp only [List.getElem?_cons_zero, Option.some.injEq] at hv
      subst hv
      simp only [C05.newVertex]
      omega

theorem runAdds_winv (calls : List (P × List N)) :
    ∀ {vl : VList P N}, WInv vl →
      WInv (C05.runAdds close vl calls).1 ∧
      (∀ v ∈ vl.vertices, v ∈ (C05.runAdds close vl calls).1.vertices) ∧
      (C05.runAdds close vl calls).2.length = calls.length ∧
      ∀ v ∈ (C05.runAdds close vl calls).2, v ∈ (C05.runAdds close vl calls).1.vertices := by
  induction calls with
  | nil => intro vl hi; exact ⟨hi, fun v hv => hv, rfl, by simp [C05.runAdds]⟩
  | cons c rest ih =>
    intro vl hi
    obtain ⟨p, s⟩ := c
    obtain ⟨h1, h2, h3⟩ := add_winv close hi p s
    obtain ⟨k1, k2, k3, k4⟩ := ih h1
    simp only [C05.runAdds]
    refine ⟨k1, fun v hv => k2 v (h2 v hv), by simp [k3], ?_⟩
    intro v hv
    rcases List.mem_cons.mp hv with rfl | hv
    · exact k2 _ h3
    · exact k4 v hv

theorem assemble_winv (slaves : List N) (ops : List (Op P N)) :
    ∀ {vl : VList P N}, WInv vl →
      WInv (C05.assemble close slaves vl ops).1 ∧
      (∀ v ∈ vl.vertices, v ∈ (C05.assemble close slaves vl ops).1.vertices) ∧
      (C05.assemble close slaves vl ops).2.length = ops.length ∧
      (∀ b ∈ ops.zip (C05.assemble close slaves vl ops).2, b.2.length = b.1.pts.length) ∧
      ∀ b ∈ (C05.assemble close slaves vl ops).2, ∀ v ∈ b, v ∈ (C05.assemble close slaves vl ops).1.vertices := by
  induction ops with
  | nil => intro vl hi; exact ⟨hi, fun v hv => hv, rfl, by simp [C05.assemble], by simp [C05.assemble]⟩
  | cons op rest ih =>
    intro vl hi
    obtain ⟨h1, h2, h3, h4⟩ := runAdds_winv close (C05.cornerCalls slaves op) hi
    obtain ⟨k1, k2, k3, k4, k5⟩ := ih (vl := (C05.addVertices close slaves vl op).1) h1
    simp only [C05.assemble]
    refine ⟨k1, fun v hv => k2 v (h2 v hv), by simp [k3], ?_, ?_⟩
    · intro b hb
      simp only [List.zip_cons_cons, List.mem_cons] at hb
      rcases hb with rfl | hb
      · show (C05.runAdds close vl (C05.cornerCalls slaves op)).2.length = op.pts.length
        rw [h3]; simp [C05.cornerCalls]
      · exact k4 b hb
    · intro b hb v hv
      rcases List.mem_cons.mp hb with rfl | hb
      · exact k2 v (h4 v hv)
      · exact k5 b hb v hv

/-- a listed vertex has an index below the number of vertices -/
theorem WInv.index_lt {vl : VList P N} (hi : WInv vl) {v : Vertex P} (hv : v ∈ vl.vertices) :
    v.index < vl.vertices.length := by
  obtain ⟨i, h⟩ := List.mem_iff_getElem?.mp hv
  have := hi.dense i v h
  have := (List.getElem?_eq_some_iff.mp h).1
  omega

end Bound

/-! ### patches, faces, edges: what can get into the lists -/

/-- every quad of every patch satisfies `Q` -/
def PQuads (Q : List Nat → Prop) (ps : List PEntry) : Prop := ∀ p ∈ ps, ∀ q ∈ p.quads, Q q

theorem addPatchSide_quads {Q : List Nat → Prop} {ps : List PEntry} (h : PQuads Q ps) (name : String)
    {quad : List Nat} (hq : Q quad) : PQuads Q (addPatchSide ps name quad) := by
  unfold addPatchSide
  split
  · intro p hp q hqm
    rw [List.mem_map] at hp
    obtain ⟨p0, hp0, rfl⟩ := hp
    split at hqm
    · split at hqm
      · exact h p0 hp0 q hqm
      · simp only [List.mem_append, List.mem_singleton] at hqm
        rcases hqm with hqm | rfl
        · exact h p0 hp0 q hqm
        · exact hq
    · exact h p0 hp0 q hqm
  · intro p hp q hqm
    rcases List.mem_append.mp hp with hp | hp
    · exact h p hp q hqm
    · simp only [List.mem_singleton] at hp
      subst hp
      simp only [List.mem_singleton] at hqm
      subst hqm
      exact hq

theorem modifyPatch_quads {Q : List Nat → Prop} {ps : List PEntry} (h : PQuads Q ps) (m : Modify) :
    PQuads Q (modifyPatch ps m) := by
  unfold modifyPatch
  simp only
  split
  · intro p hp q hqm
    rw [List.mem_map] at hp
    obtain ⟨p0, hp0, rfl⟩ := hp
    split at hqm
    · exact h p0 hp0 q hqm
    · exact h p0 hp0 q hqm
  · intro p hp q hqm
    rcases List.mem_append.mp hp with hp | hp
    · exact h p hp q hqm
    · simp only [List.mem_singleton] at hp
      subst hp
      simp at hqm

theorem addPatches_quads {Q : List Nat → Prop} {ps : List PEntry} (h : PQuads Q ps) (o : OpDecl) (verts : List Nat)
    (hq : ∀ orient ∈ orients, Q (quadOf verts orient)) : PQuads Q (addPatches ps o verts) := by
  unfold addPatches
  apply foldl_inv (PQuads Q) _ _ _ h
  intro acc x hx hacc
  obtain ⟨orient, n⟩ := x
  cases n with
  | none => exact hacc
  | some name => exact addPatchSide_quads hacc name (hq orient (List.of_mem_zip hx).1)

/-- every projected quad satisfies `Q` -/
def FQuads (Q : List Nat → Prop) (fs : List FEntry) : Prop := ∀ f ∈ fs, Q f.quad

theorem addFace_quads {Q : List Nat → Prop} {fs : List FEntry} (h : FQuads Q fs) {quad : List Nat} (label : String)
    (hq : Q quad) : FQuads Q (addFace fs quad label) := by
  unfold addFace
  split
  · exact h
  · intro f hf
    rcases List.mem_append.mp hf with hf | hf
    · exact h f hf
    · simp only [List.mem_singleton] at hf
      subst hf
      exact hq

theorem addFaces_quads {Q : List Nat → Prop} {fs : List FEntry} (h : FQuads Q fs) (o : OpDecl) (verts : List Nat)
    (hq : ∀ orient ∈ orients, Q (quadOf verts orient)) : FQuads Q (addFaces fs o verts) := by
  unfold addFaces
  have hside : ∀ orient ∈ CBV.Gen.sidesMap, orient ∈ orients := by
    intro orient ho; unfold orients; exact List.mem_append_right _ ho
  have h1 : FQuads Q ((CBV.Gen.sidesMap.zip o.sideProj).foldl (fun fs (x : String × Option String) =>
      match x.2 with
      | some label => addFace fs (quadOf verts x.1) label
      | none => fs) fs) := by
    apply foldl_inv (FQuads Q) _ _ _ h
    intro acc x hx hacc
    obtain ⟨orient, l⟩ := x
    cases l with
    | none => exact hacc
    | some label => exact addFace_quads hacc label (hq orient (hside orient (List.of_mem_zip hx).1))
  have hb : "bottom" ∈ orients := by decide
  have ht : "top" ∈ orients := by decide
  simp only
  split <;> split <;> first
    | exact addFace_quads (addFace_quads h1 _ (hq _ hb)) _ (hq _ ht)
    | exact addFace_quads h1 _ (hq _ ht)
    | exact addFace_quads h1 _ (hq _ hb)
    | exact h1

/-- both ends of every edge satisfy `R` -/
def EEnds (R : Nat → Prop) (es : List EEntry) : Prop := ∀ e ∈ es, R e.v1 ∧ R e.v2

theorem addEdge_ends {R : Nat → Prop} {es : List EEntry} (h : EEnds R es) {v1 v2 : Nat} (d : EdgeDecl) (fw : Bool)
    (h1 : R v1) (h2 : R v2) : EEnds R (addEdge es v1 v2 d fw) := by
  unfold addEdge
  split
  · exact h
  · split
    · intro e he
      rcases List.mem_append.mp he with he | he
      · exact h e he
      · simp only [List.mem_singleton] at he
        subst he
        exact ⟨h1, h2⟩
    · exact h

theorem addEdges_ends {R : Nat → Prop} {es : List EEntry} (h : EEnds R es) (o : OpDecl) (verts : List Nat)
    (hv : ∀ x ∈ edgeOrder, R (verts.getD x.1 0) ∧ R (verts.getD x.2 0)) :
    EEnds R (addEdges es o verts) := by
  unfold addEdges
  apply foldl_inv (EEnds R) _ _ _ h
  intro acc x hx hacc
  obtain ⟨a, b⟩ := x
  simp only
  split
  · split
    · exact addEdge_ends hacc _ _ (hv (a, b) hx).1 (hv (a, b) hx).2
    · exact hacc
  · exact hacc

theorem facesOf_quads (Q : List Nat → Prop) (ob : List (OpDecl × List Nat))
    (hQ : ∀ x ∈ ob, ∀ orient ∈ orients, Q (quadOf x.2 orient)) : FQuads Q (facesOf ob) :=
  foldl_inv (FQuads Q) _ ob [] (by intro f hf; simp at hf)
    (fun acc x hx hacc => addFaces_quads hacc x.1 x.2 (hQ x hx))

theorem patchesOf_quads (Q : List Nat → Prop) (d : Decl) (ob : List (OpDecl × List Nat))
    (hQ : ∀ x ∈ ob, ∀ orient ∈ orients, Q (quadOf x.2 orient)) : PQuads Q (patchesOf d ob) :=
  foldl_inv (PQuads Q) _ d.modifyAfter _
    (foldl_inv (PQuads Q) _ ob _
      (foldl_inv (PQuads Q) _ d.modifyBefore [] (by intro p hp; simp at hp)
        (fun acc m _ hacc => modifyPatch_quads hacc m))
      (fun acc x hx hacc => addPatches_quads hacc x.1 x.2 (hQ x hx)))
    (fun acc m _ hacc => modifyPatch_quads hacc m)

theorem edgesOf_ends (R : Nat → Prop) (ob : List (OpDecl × List Nat))
    (hR : ∀ x ∈ ob, ∀ y ∈ edgeOrder, R (x.2.getD y.1 0) ∧ R (x.2.getD y.2 0)) :
    EEnds R (edgesOf ob) :=
  foldl_inv (EEnds R) _ ob [] (by intro e he; simp at he)
    (fun acc x hx hacc => addEdges_ends hacc x.1 x.2 (hR x hx))

/-! ### blocks -/

theorem mem_blocksOf {ob : List (OpDecl × List Nat)} {x : OpDecl × List Nat} (hx : x ∈ ob) :
    ∃ b ∈ blocksOf ob, b.verts = x.2 := by
  obtain ⟨i, hi⟩ := List.mem_iff_getElem?.mp hx
  refine ⟨blockEntry i x.1 x.2, ?_, rfl⟩
  unfold blocksOf
  rw [List.mem_map]
  exact ⟨(x, i), List.mk_mem_zipIdx_iff_getElem?.mpr hi, rfl⟩

theorem blocksOf_getElem? (ob : List (OpDecl × List Nat)) (k : Nat) :
    (blocksOf ob)[k]? = (ob[k]?).map (fun x => blockEntry k x.1 x.2) := by
  unfold blocksOf
  rw [List.getElem?_map, List.getElem?_zipIdx]
  cases ob[k]? <;> simp

theorem verts_of_mem_blocksOf {ob : List (OpDecl × List Nat)} {b : BEntry} (hb : b ∈ blocksOf ob) :
    ∃ x ∈ ob, b.verts = x.2 := by
  unfold blocksOf at hb
  rw [List.mem_map] at hb
  obtain ⟨⟨x, i⟩, hm, rfl⟩ := hb
  exact ⟨x, (List.mem_zipIdx_iff_getElem?.mp hm) |> List.mem_of_getElem?, rfl⟩

/-! ### quads are sides of blocks -/

theorem mem_orients {o : String} (h : o ∈ orients) :
    o = "bottom" ∨ o = "top" ∨ o = "front" ∨ o = "right" ∨ o = "back" ∨ o = "left" := by
  simpa [orients, CBV.Gen.sidesMap] using h

/-- `quadOf verts orient` is the `FACE_MAP` quad of a block with these vertices -/
theorem side_of_block (d : Dict) {b : BEntry} (hb : b ∈ d.blocks) {orient : String} (ho : orient ∈ orients) :
    isSideOfBlock d (quadOf b.verts orient) = true := by
  unfold isSideOfBlock
  rw [List.any_eq_true]
  refine ⟨b, hb, ?_⟩
  rcases mem_orients ho with rfl | rfl | rfl | rfl | rfl | rfl <;>
    simp [quadOf, CBV.Gen.faceMap, List.lookup]

theorem quadsOk_dictOf (d : Decl) (vl : C05.VList Corner String) (ob : List (OpDecl × List Nat)) :
    quadsOk (dictOf d vl ob) = true := by
  let D := dictOf d vl ob
  have hQ : ∀ x ∈ ob, ∀ orient ∈ orients, isSideOfBlock D (quadOf x.2 orient) = true := by
    intro x hx orient ho
    obtain ⟨b, hb, hv⟩ := mem_blocksOf hx
    rw [← hv]
    exact side_of_block D (by exact hb) ho
  have hf := facesOf_quads (fun q => isSideOfBlock D q = true) ob hQ
  have hp := patchesOf_quads (fun q => isSideOfBlock D q = true) d ob hQ
  unfold quadsOk
  rw [Bool.and_eq_true, List.all_eq_true, List.all_eq_true]
  refine ⟨fun f hfm => hf f hfm, fun p hpm => ?_⟩
  rw [List.all_eq_true]
  exact fun q hq => hp p hpm q hq

/-! ### indices -/

theorem getD_lt {verts : List Nat} {n : Nat} (h8 : verts.length = 8) (hall : ∀ v ∈ verts, v < n) {i : Nat}
    (hi : i < 8) : verts.getD i 0 < n := by
  have : i < verts.length := by omega
  rw [List.getD_eq_getElem?_getD, List.getElem?_eq_getElem this]
  exact hall _ (List.getElem_mem this)

theorem quadOf_lt {verts : List Nat} {n : Nat} (h8 : verts.length = 8) (hall : ∀ v ∈ verts, v < n)
    {orient : String} (ho : orient ∈ orients) : ∀ v ∈ quadOf verts orient, v < n := by
  have g : ∀ i, i < 8 → (verts[i]?).getD 0 < n := fun i hi => by
    have := getD_lt h8 hall hi
    rwa [List.getD_eq_getElem?_getD] at this
  rcases mem_orients ho with rfl | rfl | rfl | rfl | rfl | rfl <;>
    simp [quadOf, CBV.Gen.faceMap, List.lookup, g]

theorem edgeOrder_lt8 : ∀ x ∈ edgeOrder, x.1 < 8 ∧ x.2 < 8 := by decide

theorem indicesOk_dictOf (d : Decl) (vl : C05.VList Corner String) (ob : List (OpDecl × List Nat))
    (h : ∀ x ∈ ob, x.2.length = 8 ∧ ∀ v ∈ x.2, v < vl.vertices.length) :
    indicesOk (dictOf d vl ob) = true := by
  have hn : (dictOf d vl ob).vertices.length = vl.vertices.length := by simp [dictOf]
  have hf := facesOf_quads (fun q => ∀ v ∈ q, v < vl.vertices.length) ob
    (fun x hx orient ho => quadOf_lt (h x hx).1 (h x hx).2 ho)
  have hp := patchesOf_quads (fun q => ∀ v ∈ q, v < vl.vertices.length) d ob
    (fun x hx orient ho => quadOf_lt (h x hx).1 (h x hx).2 ho)
  have he := edgesOf_ends (fun v => v < vl.vertices.length) ob (fun x hx y hy =>
      ⟨getD_lt (h x hx).1 (h x hx).2 (edgeOrder_lt8 y hy).1, getD_lt (h x hx).1 (h x hx).2 (edgeOrder_lt8 y hy).2⟩)
  unfold indicesOk
  simp only [hn, Bool.and_eq_true, List.all_eq_true, decide_eq_true_eq]
  refine ⟨⟨⟨?_, ?_⟩, ?_⟩, ?_⟩
  · intro b hb v hv
    obtain ⟨x, hx, hbv⟩ := verts_of_mem_blocksOf (by exact hb)
    rw [hbv] at hv
    exact (h x hx).2 v hv
  · intro e hem
    exact he e hem
  · intro f hfm v hv
    exact hf f hfm v hv
  · intro p hpm q hq v hv
    exact hp p hpm q hq v hv

/-- the hypothesis of `indicesOk_dictOf` holds for the blocks that the C05 model hands out -/
theorem declOb_bound (d : Decl) (h8 : ∀ o ∈ declOps d, o.corners.length = 8) :
    ∀ x ∈ (declOps d).zip ((declVA d).2.map (·.map (·.index))),
      x.2.length = 8 ∧ ∀ v ∈ x.2, v < (declVA d).1.vertices.length := by
  obtain ⟨k1, _, _, k4, k5⟩ := assemble_winv closeCorner (C05.slavePatches (declMerged d))
    ((declOps d).map OpDecl.toC05) (vl := {}) winv_empty
  intro x hx
  obtain ⟨o, vs⟩ := x
  rw [List.zip_map_right, List.mem_map] at hx
  obtain ⟨⟨o', b⟩, hm, heq⟩ := hx
  simp only [Prod.map_apply, id_eq, Prod.mk.injEq] at heq
  obtain ⟨rfl, rfl⟩ := heq
  have hb : b ∈ (declVA d).2 := (List.of_mem_zip hm).2
  have ho : o' ∈ declOps d := (List.of_mem_zip hm).1
  constructor
  · -- length: the block of `o'` has as many vertices as `o'` has corners
    have hz : (o'.toC05, b) ∈ ((declOps d).map OpDecl.toC05).zip (declVA d).2 := by
      rw [List.zip_map_left, List.mem_map]
      exact ⟨(o', b), hm, rfl⟩
    have := k4 _ hz
    simp only [List.length_map]
    rw [this]
    exact h8 o' ho
  · intro v hv
    rw [List.mem_map] at hv
    obtain ⟨w, hw, rfl⟩ := hv
    exact k1.index_lt (k5 b hb w hw)

/-! ### well-formedness of the assembled dictionary (so that the round trip applies to it) -/

/-- the user's statements contain no `;`; setting names are not section names -/
structure WFDecl (d : Decl) : Prop where
  settings : ∀ s ∈ d.settings, isSectionKey s.1 = false ∧ NoSemi s.2
  geomBefore : ∀ g ∈ d.geomBefore, ∀ s ∈ g.props, NoSemi s
  geomDepot : ∀ g ∈ d.depot.flatMap (·.geometry), ∀ s ∈ g.props, NoSemi s
  geomAfter : ∀ g ∈ d.geomAfter, ∀ s ∈ g.props, NoSemi s
  modifyBefore : ∀ m ∈ d.modifyBefore, ∀ st, m.settings = some st → ∀ s ∈ st, NoSemi s
  modifyAfter : ∀ m ∈ d.modifyAfter, ∀ st, m.settings = some st → ∀ s ∈ st, NoSemi s

def GAll (G : GEntry → Prop) (gs : List GEntry) : Prop := ∀ g ∈ gs, G g

theorem addGeometry_all {G : GEntry → Prop} {gs : List GEntry} (h : GAll G gs) {g : GEntry} (hg : G g) :
    GAll G (addGeometry gs g) := by
  unfold addGeometry
  split
  · intro x hx
    rw [List.mem_map] at hx
    obtain ⟨y, hy, rfl⟩ := hx
    split
    · exact hg
    · exact h y hy
  · intro x hx
    rcases List.mem_append.mp hx with hx | hx
    · exact h x hx
    · simp only [List.mem_singleton] at hx; subst hx; exact hg

theorem declGeometry_all (G : GEntry → Prop) (d : Decl) (h1 : ∀ g ∈ d.geomBefore, G g)
    (h2 : ∀ g ∈ d.depot.flatMap (·.geometry), G g) (h3 : ∀ g ∈ d.geomAfter, G g) : GAll G (declGeometry d) :=
  foldl_inv (GAll G) _ _ _
    (foldl_inv (GAll G) _ d.geomAfter _
      (foldl_inv (GAll G) _ (d.depot.flatMap (·.geometry)) _
        (foldl_inv (GAll G) _ d.geomBefore [] (by intro g hg; simp at hg)
          (fun acc g hg hacc => addGeometry_all hacc (h1 g hg)))
        (fun acc g hg hacc => addGeometry_all hacc (h2 g hg)))
      (fun acc g hg hacc => addGeometry_all hacc (h3 g hg)))
    (fun acc g hg hacc => addGeometry_all hacc (h2 g (by
      split at hg
      · exact hg
      · simp at hg)))

/-- every setting statement of every patch satisfies `S` -/
def PSet (S : List Tree → Prop) (ps : List PEntry) : Prop := ∀ p ∈ ps, ∀ s ∈ p.settings, S s

theorem addPatchSide_set {S : List Tree → Prop} {ps : List PEntry} (h : PSet S ps) (name : String)
    (quad : List Nat) : PSet S (addPatchSide ps name quad) := by
  unfold addPatchSide
  split
  · intro p hp s hs
    rw [List.mem_map] at hp
    obtain ⟨p0, hp0, rfl⟩ := hp
    split at hs
    · split at hs
      · exact h p0 hp0 s hs
      · exact h p0 hp0 s hs
    · exact h p0 hp0 s hs
  · intro p hp s hs
    rcases List.mem_append.mp hp with hp | hp
    · exact h p hp s hs
    · simp only [List.mem_singleton] at hp
      subst hp
      simp at hs

theorem addPatches_set {S : List Tree → Prop} {ps : List PEntry} (h : PSet S ps) (o : OpDecl) (verts : List Nat) :
    PSet S (addPatches ps o verts) := by
  unfold addPatches
  apply foldl_inv (PSet S) _ _ _ h
  intro acc x _ hacc
  obtain ⟨orient, n⟩ := x
  cases n with
  | none => exact hacc
  | some name => exact addPatchSide_set hacc name _

theorem modifyPatch_set {S : List Tree → Prop} {ps : List PEntry} (h : PSet S ps) (m : Modify)
    (hm : ∀ st, m.settings = some st → ∀ s ∈ st, S s) : PSet S (modifyPatch ps m) := by
  unfold modifyPatch
  simp only
  cases hms : m.settings with
  | none =>
    split
    · intro p hp s hs
      rw [List.mem_map] at hp
      obtain ⟨p0, hp0, rfl⟩ := hp
      split at hs
      · exact h p0 hp0 s hs
      · exact h p0 hp0 s hs
    · intro p hp s hs
      rcases List.mem_append.mp hp with hp | hp
      · exact h p hp s hs
      · simp only [List.mem_singleton] at hp
        subst hp
        simp at hs
  | some st =>
    split
    · intro p hp s hs
      rw [List.mem_map] at hp
      obtain ⟨p0, hp0, rfl⟩ := hp
      split at hs
      · exact hm st hms s hs
      · exact h p0 hp0 s hs
    · intro p hp s hs
      rcases List.mem_append.mp hp with hp | hp
      · exact h p hp s hs
      · simp only [List.mem_singleton] at hp
        subst hp
        exact hm st hms s hs

theorem patchesOf_set (S : List Tree → Prop) (d : Decl) (ob : List (OpDecl × List Nat))
    (h1 : ∀ m ∈ d.modifyBefore, ∀ st, m.settings = some st → ∀ s ∈ st, S s)
    (h2 : ∀ m ∈ d.modifyAfter, ∀ st, m.settings = some st → ∀ s ∈ st, S s) : PSet S (patchesOf d ob) :=
  foldl_inv (PSet S) _ d.modifyAfter _
    (foldl_inv (PSet S) _ ob _
      (foldl_inv (PSet S) _ d.modifyBefore [] (by intro p hp; simp at hp)
        (fun acc m hm hacc => modifyPatch_set hacc m (h1 m hm)))
      (fun acc x _ hacc => addPatches_set hacc x.1 x.2))
    (fun acc m hm hacc => modifyPatch_set hacc m (h2 m hm))

theorem wf_dictOf (d : Decl) (h : WFDecl d) (vl : C05.VList Corner String) (ob : List (OpDecl × List Nat)) :
    WF (dictOf d vl ob) :=
  ⟨h.settings,
   declGeometry_all (fun g => ∀ s ∈ g.props, NoSemi s) d h.geomBefore h.geomDepot h.geomAfter,
   patchesOf_set NoSemi d ob h.modifyBefore h.modifyAfter⟩

/-! ### VTK -/

theorem takeGroups_flatten (m : Nat) (gs : List (List String)) (h : ∀ g ∈ gs, g.length = m) (R : List String) :
    takeGroups gs.length m (gs.flatten ++ R) = some (gs, R) := by
  induction gs with
  | nil => simp [takeGroups]
  | cons g gs ih =>
    have hg : g.length = m := h g List.mem_cons_self
    have hlen : ¬ (g ++ (gs.flatten ++ R)).length < m := by simp [hg]
    simp only [List.length_cons, takeGroups, List.flatten_cons, List.append_assoc, hlen, if_false]
    rw [← hg, List.drop_left, List.take_left, hg, ih (fun x hx => h x (List.mem_cons_of_mem _ hx))]
    rfl

theorem strsToNats_map (c : List Nat) : strsToNats (c.map toString) = some c := by
  induction c with
  | nil => rfl
  | cons a c ih => simp only [List.map_cons, strsToNats, toNat?_toString, ih]; rfl

theorem decCells_map (cells : List (List Nat)) :
    decCells (cells.map (fun c => "8" :: c.map toString)) = some cells := by
  induction cells with
  | nil => rfl
  | cons c cs ih => simp only [List.map_cons, decCells, strsToNats_map, ih]; rfl

theorem parseVtk_renderVtk (hdr : List String) (pts : List (List String)) (cells : List (List Nat))
    (hp : ∀ p ∈ pts, p.length = 3) (hc : ∀ c ∈ cells, c.length = 8) :
    parseVtk hdr.length (renderVtk hdr pts cells) = some (pts, cells) := by
  unfold parseVtk renderVtk
  simp only [List.append_assoc, List.drop_left, List.cons_append, List.nil_append, toNat?_toString,
    Option.bind_eq_bind, Option.bind_some]
  rw [takeGroups_flatten 3 pts hp]
  simp only [Option.bind_some, toNat?_toString]
  have hcells : cells.flatMap (fun c => "8" :: c.map toString) = (cells.map (fun c => "8" :: c.map toString)).flatten := by
    rw [List.flatMap_def]
  rw [hcells]
  have hl : (cells.map (fun c => "8" :: c.map toString)).length = cells.length := by simp
  rw [← hl, takeGroups_flatten 9 _ (by
    intro g hg
    rw [List.mem_map] at hg
    obtain ⟨c, hcm, rfl⟩ := hg
    simp [hc c hcm])]
  simp only [Option.bind_some, decCells_map]

end CBV.C06
