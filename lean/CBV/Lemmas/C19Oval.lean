/-
C19 (round 6g) — the outline of `Oval` on C11's exact positions (`ovalPts`, `ovalPts_frame`, `ovalL_lit`).
A position lies on the outline iff its distance to the nearer of the two centres is the radius:
`(d1 = r² ∧ r² ≤ d2) ∨ (d2 = r² ∧ r² ≤ d1)` (all positions of the outline are on the two half circles, ends of the straight
segments included).
-/
import CBV.Lemmas.C19Rim
import CBV.Lemmas.C11Oval

namespace CBV.C19
open CBV.C11 P3

set_option linter.unusedSectionVars false
set_option linter.unusedSimpArgs false
set_option linter.unusedVariables false

variable {K : Type} [Field K] [LinearOrder K] [IsStrictOrderedRing K]

/-- in the plane coordinates of the first fan (unit = radius, second centre at (0, −t)): on the outline -/
def onOutlineL (t : K) (p : P3 K) : Prop :=
  (p.x * p.x + p.y * p.y = 1 ∧ 1 ≤ p.x * p.x + (p.y + t) * (p.y + t)) ∨
  (p.x * p.x + (p.y + t) * (p.y + t) = 1 ∧ 1 ≤ p.x * p.x + p.y * p.y)

set_option maxHeartbeats 1600000 in
/-- the 22 positions of `Oval`: on the outline exactly from index 12 on (the two `get_outer_points` lists) -/
theorem oval_onOutline_iff (h k dg t : K) (hk0 : 0 < k) (hk1 : k < 1) (hd0 : 0 < dg) (hd1 : dg < 1) (hh0 : 0 < h)
    (hh : h * h + h * h = 1) (ht : 0 < t) (i : Nat) (hi : i < 22) :
    ((ovalL h k dg t).getD i ⟨0, 0, 0⟩).z = 0 ∧ (onOutlineL t ((ovalL h k dg t).getD i ⟨0, 0, 0⟩) ↔ 12 ≤ i) := by
  have hkk : k * k < 1 := by nlinarith
  have hdd : dg * dg < 1 := by nlinarith
  have hd2 : dg * h * (dg * h) + dg * h * (dg * h) = dg * dg := by linear_combination (dg * dg) * hh
  have hht : 0 < h * t := mul_pos hh0 ht
  have htt : 0 < t * t := mul_pos ht ht
  rw [ovalL_lit]
  rcases Nat.lt_or_ge i 12 with hlt | hge
  · interval_cases i <;> refine ⟨rfl, ?_⟩ <;> simp only [List.getD_cons_zero, List.getD_cons_succ, onOutlineL] <;>
      (apply iff_of_false; (rintro (⟨e, g⟩ | ⟨e, g⟩) <;> nlinarith [hkk, hdd, hd2, e, g]); omega)
  · interval_cases i <;> refine ⟨rfl, ?_⟩ <;> simp only [List.getD_cons_zero, List.getD_cons_succ, onOutlineL] <;>
      first
        | (apply iff_of_true; (left; constructor <;> nlinarith [hh, hht, htt]); omega)
        | (apply iff_of_true; (right; constructor <;> nlinarith [hh, hht, htt]); omega)

/-- squared distance of two points given in the same frame -/
theorem nsq_frame_sub (c ρ u p q : P3 K) (hu : nsq u = 1) (hp : dot u ρ = 0) :
    nsq (sub (frame c ρ u p) (frame c ρ u q))
      = ((p.x - q.x) * (p.x - q.x) + (p.y - q.y) * (p.y - q.y)) * nsq ρ + (p.z - q.z) * (p.z - q.z) := by
  have e : sub (frame c ρ u p) (frame c ρ u q) = sub (frame c ρ u ⟨p.x - q.x, p.y - q.y, p.z - q.z⟩) c := by
    simp only [frame, add, smul, sub, cross, P3.mk.injEq]; refine ⟨?_, ?_, ?_⟩ <;> ring
  rw [e, nsq_frame _ _ _ _ hu hp]

end CBV.C19
