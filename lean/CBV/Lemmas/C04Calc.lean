/-
What the composed model (`Model/C04Chop.lean`) needs to know about C03's model of `Chop.calculate` and
`copy_preserving`, proved here from C03's *lemma* files only (`Lemmas/C03*.lean`, `Model/C03.lean`), so that C04 does not
depend on C03's property module and its ties to the source (round 6b).  The statements are those of
`T_C03_pair_count_start`, `T_C03_pair_count_end` and `T_C03_copy_preserving` of `Props/C03.lean` (count and total
expansion part), restated.
-/
import CBV.Lemmas.C03Calc
import CBV.Lemmas.C03Geom

namespace CBV.C03.ForC04
open CBV.C03

/-- (count, start size): the count is reproduced; unless the count is 1 (see the counterexample below)
    the first cell of the realised progression is the requested size — exactly, or within `TOL` of the
    uniform size on the near-uniform branch -/
theorem calc_count_start {L s : ℚ} {n : ℕ} {o : Oracle} {res : Vals}
    (h : calculate T0 L o { count := some n, start := some s } = .ok res) :
    res.count = some n ∧ 0 < L ∧ 1 ≤ n ∧ 0 < s ∧ s < L ∧
      ∃ c, res.c2c = some c ∧ 0 < c ∧ res.total = some (c ^ (n - 1)) ∧ 0 < c ^ (n - 1) ∧
        ((n = 1 ∧ c = 1) ∨ (2 ≤ n ∧ absR (n * s - L) / L < TOL ∧ c = 1) ∨ (2 ≤ n ∧ firstCell L n c = s)) := by
  obtain ⟨c, T, e, hc, hT, he, rfl⟩ := pair_count_start h
  obtain ⟨hL, hn, hs0, hsL, hcase⟩ := c2cCountStart_ok hc
  obtain ⟨_, _, _, hTv⟩ := totalCountC2c_ok hT
  have hcpos : 0 < c := by
    rcases hcase with ⟨_, rfl⟩ | ⟨_, _, rfl⟩ | ⟨_, _, _, hroot⟩
    · exact one_pos
    · exact one_pos
    · exact (rootOK_zero hroot).1
  refine ⟨rfl, hL, hn, hs0, hsL, c, rfl, hcpos, by rw [hTv], pow_pos hcpos _, ?_⟩
  rcases hcase with ⟨h1, hc1⟩ | ⟨h2, hnear, hc1⟩ | ⟨h2, _, _, hroot⟩
  · exact Or.inl ⟨h1, hc1⟩
  · exact Or.inr (Or.inl ⟨h2, hnear, hc1⟩)
  · refine Or.inr (Or.inr ⟨h2, ?_⟩)
    obtain ⟨hc0, hsum⟩ := rootOK_zero hroot
    have hg := geomSum_pos (le_of_lt hc0) (show 0 < n by omega)
    unfold firstCell
    rw [← hsum]; field_simp

/-- (count, end size): the count is reproduced and the last cell of the realised progression is the requested size -/
theorem calc_count_end {L e : ℚ} {n : ℕ} {o : Oracle} {res : Vals}
    (h : calculate T0 L o { count := some n, end_ := some e } = .ok res) :
    res.count = some n ∧ 0 < L ∧ 1 ≤ n ∧ 0 < e ∧
      ∃ c, res.c2c = some c ∧ 0 < c ∧ res.total = some (c ^ (n - 1)) ∧ 0 < c ^ (n - 1) ∧
        ((absR (n * e - L) / L < TOL ∧ c = 1) ∨ (2 ≤ n ∧ lastCell L n c = e)) := by
  obtain ⟨c, s, T, hc, hs, hT, rfl⟩ := pair_count_end h
  obtain ⟨hL, hn, he0, hcase⟩ := c2cCountEnd_ok hc
  obtain ⟨_, _, _, hTv⟩ := totalCountC2c_ok hT
  have hcpos : 0 < c := by
    rcases hcase with ⟨_, rfl⟩ | ⟨_, _, _, hroot⟩
    · exact one_pos
    · have := (rootOK_zero hroot).1
      rw [one_div] at this
      exact inv_pos.mp this
  refine ⟨rfl, hL, hn, he0, c, rfl, hcpos, by rw [hTv], pow_pos hcpos _, ?_⟩
  rcases hcase with ⟨hnear, hc1⟩ | ⟨h2, _, _, hroot⟩
  · exact Or.inl ⟨hnear, hc1⟩
  · refine Or.inr ⟨h2, ?_⟩
    obtain ⟨hc0, hsum⟩ := rootOK_zero hroot
    rw [one_div] at hsum hc0
    have hg := geomSum_pos (le_of_lt hc0) (show 0 < n by omega)
    rw [lastCell_eq hcpos (by omega), div_eq_iff (ne_of_gt hg)]; exact hsum.symm

/-- (count, c2c): count and ratio are reproduced exactly, on any length -/
theorem calc_count_c2c {t : Tol} {L r : ℚ} {n : ℕ} {o : Oracle} {res : Vals}
    (h : calculate t L o { count := some n, c2c := some r } = .ok res) :
    res.count = some n ∧ res.total = some (r ^ (n - 1)) := by
  obtain ⟨s, T, e, _, hT, _, rfl⟩ := pair_count_c2c h
  obtain ⟨_, _, _, hTv⟩ := totalCountC2c_ok hT
  exact ⟨rfl, by rw [hTv]⟩

/-- the copy of a chop that preserves the cell-to-cell ratio: count and ratio of the last results; evaluated on any
    length it returns that count with total expansion `c^(n-1)`, the reversed copy the reciprocal `1 / c^(n-1)` -/
theorem calc_copy_preserving {ob : Obj} {res : Vals} {n : ℕ} {c : ℚ} (hl : ob.last = some res) (hp : ob.preserve = .c2c)
    (hn : res.count = some n) (hn1 : 1 ≤ n) (hc : res.c2c = some c) (hc0 : c ≠ 0) :
    copyPreserving ob false = .ok { count := some n, c2c := some c } ∧
    copyPreserving ob true = .ok { count := some n, c2c := some (1 / c) } ∧
    ∀ (t : Tol) (L : ℚ) (o : Oracle) (r : Vals),
      (calculate t L o { count := some n, c2c := some c } = .ok r → r.count = some n ∧ r.total = some (c ^ (n - 1))) ∧
      (calculate t L o { count := some n, c2c := some (1 / c) } = .ok r →
        r.count = some n ∧ r.total = some (1 / c ^ (n - 1))) := by
  have hmax : max n 1 = n := by omega
  refine ⟨?_, ?_, ?_⟩
  · unfold copyPreserving
    simp only [hl, hn, hp, Vals.get, hc, Vals.assign, hmax]
    rfl
  · unfold copyPreserving
    simp only [hl, hn, hp, Vals.get, hc, Vals.assign, hmax]
    simp only [reduceCtorEq, if_false, if_true]
    unfold invert
    rw [if_neg (by simp [hc0])]
    rfl
  · intro t L o r
    constructor
    · intro h
      exact calc_count_c2c h
    · intro h
      obtain ⟨h1, h2⟩ := calc_count_c2c h
      refine ⟨h1, ?_⟩
      rw [h2, one_div, one_div, inv_pow]

end CBV.C03.ForC04
