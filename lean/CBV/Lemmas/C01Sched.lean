/-
C01 — membership lemmas for the schedule built from the vertex indexes (Model/C01.lean, `builtCoinc`, `builtNbrs`).
-/
import CBV.Model.C01

namespace CBV.Prop


theorem mem_otherBlocks (n b b' : Nat) : b' ∈ otherBlocks n b ↔ b' < n ∧ b' ≠ b := by
  simp [otherBlocks, List.mem_filter, List.mem_range]

theorem mem_blockWires (b w : Nat) : w ∈ blockWires b ↔ w / 12 = b := by
  simp only [blockWires, List.mem_map, List.mem_range]
  constructor
  · rintro ⟨j, hj, rfl⟩; omega
  · intro h; exact ⟨w % 12, by omega, by omega⟩

theorem mem_blockAxes (b x : Nat) : x ∈ blockAxes b ↔ x / 3 = b := by
  simp only [blockAxes, List.mem_cons, List.not_mem_nil, or_false]
  omega

theorem mem_builtCoinc (inp : Inp) (w w' : Nat) :
    w' ∈ builtCoinc inp w ↔ (w' / 12 < inp.nBlocks ∧ w' / 12 ≠ w / 12 ∧ samePair inp w w' = true) := by
  simp only [builtCoinc, List.mem_flatMap, List.mem_filter, mem_otherBlocks, mem_blockWires]
  constructor
  · rintro ⟨b', ⟨h1, h2⟩, h3, h4⟩; subst h3; exact ⟨h1, h2, h4⟩
  · rintro ⟨h1, h2, h3⟩; exact ⟨w' / 12, ⟨h1, h2⟩, rfl, h3⟩

theorem mem_builtNbrs (inp : Inp) (x y : Nat) :
    y ∈ builtNbrs inp x ↔ (y / 3 < inp.nBlocks ∧ y / 3 ≠ x / 3 ∧ (axisAligned inp y x).isSome = true) := by
  simp only [builtNbrs, List.mem_flatMap, List.mem_filter, mem_otherBlocks, mem_blockAxes]
  constructor
  · rintro ⟨b', ⟨h1, h2⟩, h3, h4⟩; subst h3; exact ⟨h1, h2, h4⟩
  · rintro ⟨h1, h2, h3⟩; exact ⟨y / 3, ⟨h1, h2⟩, rfl, h3⟩

end CBV.Prop
