/-
C06 — the validator of `str(float)` tokens: an accepted token denotes a value within half an ulp of the double.
-/
import CBV.Model.C06Repr
import Mathlib.Tactic.Linarith
import Mathlib.Tactic.Positivity
import Mathlib.Tactic.FieldSimp
import Mathlib.Algebra.Order.Field.Rat
import Mathlib.Data.Rat.Cast.Order

namespace CBV.C06

theorem halfUlp_nonneg (x : Rat) : 0 ≤ halfUlp x := by
  unfold halfUlp; positivity

/-- a number in the rounding interval of `x` is within half an ulp of `x` -/
theorem inRound_close (x q : Rat) (h : inRound x q = true) :
    q - x ≤ halfUlp x ∧ x - q ≤ halfUlp x := by
  have hh := halfUlp_nonneg x
  unfold inRound at h
  simp only [Bool.and_eq_true, decide_eq_true_eq] at h
  obtain ⟨hs, hb⟩ := h
  have key : absR q - absR x ≤ halfUlp x ∧ absR x - absR q ≤ halfUlp x := by
    split at hb
    · rename_i hle
      simp only [Bool.or_eq_true, decide_eq_true_eq, Bool.and_eq_true] at hb
      rcases hb with hb | ⟨hb, _⟩ <;> constructor <;> linarith
    · rename_i hle
      have hd : (if isPow2 x = true then halfUlp x / 2 else halfUlp x) ≤ halfUlp x := by
        split <;> linarith
      simp only [Bool.or_eq_true, decide_eq_true_eq, Bool.and_eq_true] at hb
      rcases hb with hb | ⟨hb, _⟩ <;> constructor <;> linarith
  unfold absR at key
  by_cases hx : x < 0
  · have hq : q < 0 := hs.mp hx
    simp only [hx, hq, if_true] at key
    constructor <;> linarith [key.1, key.2]
  · have hq : ¬ q < 0 := fun h => hx (hs.mpr h)
    simp only [hx, hq, if_false] at key
    exact key

/-- for a dyadic `x ≠ 0` half an ulp is at most `|x| · 2⁻⁵³` -/
theorem halfUlp_le (x : Rat) (hx : x ≠ 0) (hd : x.den = 2 ^ Nat.log2 x.den) :
    halfUlp x * ((2 ^ 53 : Nat) : Rat) ≤ absR x := by
  have hn : x.num.natAbs ≠ 0 := by
    intro h; apply hx; exact Rat.zero_of_num_zero (Int.natAbs_eq_zero.mp h)
  have h1 : 2 ^ Nat.log2 x.num.natAbs ≤ x.num.natAbs := Nat.log2_self_le hn
  have h1' : ((2 ^ Nat.log2 x.num.natAbs : Nat) : Rat) ≤ ((x.num.natAbs : Nat) : Rat) := by exact_mod_cast h1
  have hden : (0 : Rat) < ((x.den : Nat) : Rat) := by exact_mod_cast x.den_pos
  have habs : absR x = ((x.num.natAbs : Nat) : Rat) / ((x.den : Nat) : Rat) := by
    have hxe : x = (x.num : Rat) / ((x.den : Nat) : Rat) := (Rat.num_div_den x).symm
    unfold absR
    split
    · rename_i hneg
      have : x.num < 0 := Rat.num_neg.mpr hneg
      have hc : ((x.num.natAbs : Nat) : Rat) = -(x.num : Rat) := by
        have h' : (x.num.natAbs : Int) = -x.num := by omega
        rw [← Int.cast_natCast, h', Int.cast_neg]
      rw [hc, neg_div, ← hxe]
    · rename_i hneg
      have : 0 ≤ x.num := Rat.num_nonneg.mpr (not_lt.mp hneg)
      have hc : ((x.num.natAbs : Nat) : Rat) = (x.num : Rat) := by
        have h' : (x.num.natAbs : Int) = x.num := by omega
        rw [← Int.cast_natCast, h']
      rw [hc, ← hxe]
  rw [habs]
  unfold halfUlp
  rw [← hd]
  have h53 : (0 : Rat) < ((2 ^ 53 : Nat) : Rat) := by positivity
  rw [div_mul_eq_mul_div, div_le_div_iff₀ (by positivity) hden]
  nlinarith [mul_nonneg (sub_nonneg.mpr h1') (mul_pos hden h53).le]

/-- **the validator is sound**: an accepted token denotes a rational within half an ulp of the double -/
theorem reprOk_sound (neg : Bool) (x : Rat) (hx : x ≠ 0) (cs : List Char) (h : reprOk neg x cs = true) :
    ∃ q, floatValue cs = some q ∧ q - x ≤ halfUlp x ∧ x - q ≤ halfUlp x := by
  unfold reprOk at h
  split at h
  · exact absurd h (by decide)
  · rename_i q hq
    simp only [hx, if_false, Bool.and_eq_true] at h
    exact ⟨q, hq, inRound_close x q h.2⟩

end CBV.C06
