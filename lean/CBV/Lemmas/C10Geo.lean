/-
C10 — helper lemmas for the geometric statements of Props/C10.lean: the first-minimum property of `argmin` for
lists of any length, affine images of the unit cube.
-/
import CBV.Model.C10
import Mathlib.Tactic.Ring
import Mathlib.Tactic.Linarith
import Mathlib.Tactic.LinearCombination
import Mathlib.Tactic.FieldSimp
import Mathlib.Algebra.Order.Field.Rat

namespace CBV.C10

/-! ### `argmin` / `argmax` return the first minimum / maximum -/

/-- the scan either keeps the incumbent (which is then ≤ everything scanned) or returns the position `i + k` of an
    element strictly below the incumbent, ≤ everything scanned and strictly below everything scanned before it -/
theorem argminAux_spec (ds : List Rat) : ∀ (i best : Nat) (bd : Rat),
    (argminAux ds i best bd = best ∧ ∀ d ∈ ds, bd ≤ d) ∨
    (∃ k v, ds[k]? = some v ∧ argminAux ds i best bd = i + k ∧ v < bd ∧ (∀ d ∈ ds, v ≤ d) ∧
      ∀ j w, j < k → ds[j]? = some w → v < w) := by
  induction ds with
  | nil => intro i best bd; left; simp [argminAux]
  | cons d ds ih =>
    intro i best bd
    unfold argminAux
    split
    · rename_i hlt
      rcases ih (i + 1) i d with ⟨h1, h2⟩ | ⟨k, v, hk, hr, hv, hall, hfirst⟩
      · right
        refine ⟨0, d, by simp, by simpa using h1, hlt, ?_, ?_⟩
        · intro x hx
          rcases List.mem_cons.mp hx with h | h
          · subst h; exact le_refl _
          · exact h2 x h
        · intro j w hj; omega
      · right
        refine ⟨k + 1, v, by simpa using hk, by rw [hr]; omega, lt_trans hv hlt, ?_, ?_⟩
        · intro x hx
          rcases List.mem_cons.mp hx with h | h
          · subst h; exact le_of_lt hv
          · exact hall x h
        · intro j w hj hw
          cases j with
          | zero => simp at hw; subst hw; exact hv
          | succ j => exact hfirst j w (by omega) (by simpa using hw)
    · rename_i hge
      have hge : bd ≤ d := not_lt.mp hge
      rcases ih (i + 1) best bd with ⟨h1, h2⟩ | ⟨k, v, hk, hr, hv, hall, hfirst⟩
      · left
        refine ⟨h1, ?_⟩
        intro x hx
        rcases List.mem_cons.mp hx with h | h
        · subst h; exact hge
        · exact h2 x h
      · right
        refine ⟨k + 1, v, by simpa using hk, by rw [hr]; omega, hv, ?_, ?_⟩
        · intro x hx
          rcases List.mem_cons.mp hx with h | h
          · subst h; exact le_of_lt (lt_of_lt_of_le hv hge)
          · exact hall x h
        · intro j w hj hw
          cases j with
          | zero => simp at hw; subst hw; exact lt_of_lt_of_le hv hge
          | succ j => exact hfirst j w (by omega) (by simpa using hw)

/-- `argmin` of a non-empty list is a valid position, its element is ≤ every element and strictly below every
    earlier one (so it is what `np.argmin` and a stable sort by key put first) -/
theorem argmin_spec (ds : List Rat) (hne : ds ≠ []) :
    ∃ v, ds[argmin ds]? = some v ∧ (∀ d ∈ ds, v ≤ d) ∧ ∀ j w, j < argmin ds → ds[j]? = some w → v < w := by
  cases ds with
  | nil => exact absurd rfl hne
  | cons d rest =>
    simp only [argmin]
    rcases argminAux_spec rest 1 0 d with ⟨h1, h2⟩ | ⟨k, v, hk, hr, hv, hall, hfirst⟩
    · refine ⟨d, by rw [h1]; simp, ?_, ?_⟩
      · intro x hx
        rcases List.mem_cons.mp hx with h | h
        · subst h; exact le_refl _
        · exact h2 x h
      · intro j w hj; rw [h1] at hj; omega
    · refine ⟨v, by rw [hr, Nat.add_comm]; simpa using hk, ?_, ?_⟩
      · intro x hx
        rcases List.mem_cons.mp hx with h | h
        · subst h; exact le_of_lt hv
        · exact hall x h
      · intro j w hj hw
        rw [hr] at hj
        cases j with
        | zero => simp at hw; subst hw; exact hv
        | succ j => exact hfirst j w (by omega) (by simpa using hw)

/-- `argmax` of a non-empty list: its element is ≥ every element and strictly above every earlier one -/
theorem argmax_spec (ds : List Rat) (hne : ds ≠ []) :
    ∃ v, ds[argmax ds]? = some v ∧ (∀ d ∈ ds, d ≤ v) ∧ ∀ j w, j < argmax ds → ds[j]? = some w → w < v := by
  obtain ⟨v, hv, hall, hfirst⟩ := argmin_spec (ds.map (fun d => -d)) (by simpa using hne)
  rw [List.getElem?_map] at hv
  cases hd : ds[argmax ds]? with
  | none =>
    have hu : ds[argmin (ds.map (fun d => -d))]? = none := hd
    rw [hu] at hv; simp at hv
  | some u =>
    have hu : ds[argmin (ds.map (fun d => -d))]? = some u := hd
    rw [hu] at hv
    simp only [Option.map_some, Option.some.injEq] at hv
    refine ⟨u, rfl, ?_, ?_⟩
    · intro d hdm
      have := hall (-d) (List.mem_map.mpr ⟨d, hdm, rfl⟩)
      linarith
    · intro j w hj hw
      have := hfirst j (-w) hj (by rw [List.getElem?_map, hw]; rfl)
      linarith

/-! ### the blockMesh hexahedron: corner `c` has local coordinates (x, y, z) ∈ {0,1}³ -/

/-- blockMesh corner numbering: corner `c` has local coordinates (x, y, z) ∈ {0,1}³ -/
def coord (c : Nat) : Bool × Bool × Bool :=
  (c % 4 == 1 || c % 4 == 2, c % 4 == 2 || c % 4 == 3, c ≥ 4)

/-- the defining coordinate of each named side -/
def onSide (side : String) (c : Nat) : Bool :=
  match side with
  | "bottom" => !(coord c).2.2
  | "top" => (coord c).2.2
  | "left" => !(coord c).1
  | "right" => (coord c).1
  | "front" => !(coord c).2.1
  | "back" => (coord c).2.1
  | _ => false

/-- two corners are joined by an edge of the hexahedron iff they differ in exactly one coordinate -/
def isEdge (c1 c2 : Nat) : Bool :=
  let a := coord c1; let b := coord c2
  ((if a.1 != b.1 then 1 else 0) + (if a.2.1 != b.2.1 then 1 else 0) + (if a.2.2 != b.2.2 then 1 else 0)) == 1

/-- an affine map of space: columns `u`, `v`, `w` (images of the x, y, z unit vectors) and the image `t` of the origin -/
structure Aff where
  u : V3
  v : V3
  w : V3
  t : V3

/-- determinant of the linear part: `(u × v) · w` -/
def Aff.det (A : Aff) : Rat := V3.dot (V3.cross A.u A.v) A.w

def b2r (b : Bool) : Rat := if b then 1 else 0

/-- image of the point with local coordinates `(x, y, z)` -/
def Aff.app (A : Aff) (x y z : Rat) : V3 := A.t + V3.smul x A.u + V3.smul y A.v + V3.smul z A.w

/-- image of corner `c` of the unit cube in blockMesh numbering -/
def Aff.corner (A : Aff) (c : Nat) : V3 := A.app (b2r (coord c).1) (b2r (coord c).2.1) (b2r (coord c).2.2)

/-- the hexahedron that is the image of the unit cube -/
def Aff.hex (A : Aff) : GOp := ⟨(List.range 8).map A.corner⟩

/-- 8 · (face centre − block centre) · (raw normal of the face): positive iff the corner order of the face is
    counter-clockwise seen from outside (normal pointing out of the block) -/
def outwardRaw (o : GOp) (f : List V3) : Rat :=
  V3.dot (normalOf f) (V3.smul 2 (vsum f) - vsum o.pts)

theorem hex_pts (A : Aff) : A.hex.pts =
    [A.app 0 0 0, A.app 1 0 0, A.app 1 1 0, A.app 0 1 0, A.app 0 0 1, A.app 1 0 1, A.app 1 1 1, A.app 0 1 1] := by
  simp [Aff.hex, Aff.corner, coord, b2r, List.range, List.range.loop]

/-! ### rotation about an axis (Rodrigues' form), for a unit axis `u` -/

/-- `rotateP` with the normalised axis named: `rotateP c s axis len o p = rotU c s (axis / len) o p` by definition -/
def rotU (c s : Rat) (u o p : V3) : V3 :=
  o + (V3.smul c (p - o) + V3.smul s (V3.cross u (p - o)) + V3.smul ((1 - c) * V3.dot u (p - o)) u)

theorem rotateP_eq (c s : Rat) (axis : V3) (len : Rat) (o p : V3) :
    rotateP c s axis len o p = rotU c s (V3.smul (1 / len) axis) o p := rfl

/-- the normalised axis is a unit vector when `len` is the length of the axis -/
theorem unit_axis (axis : V3) (len : Rat) (h0 : len ≠ 0) (hl : len * len = V3.norm2 axis) :
    V3.norm2 (V3.smul (1 / len) axis) = 1 := by
  simp only [V3.norm2, V3.dot, V3.smul_x, V3.smul_y, V3.smul_z] at hl ⊢
  field_simp
  linear_combination -hl

/-- the chord from a point to its image is perpendicular to the axis -/
theorem rotU_chord_perp (c s : Rat) (u o p : V3) (hu : V3.norm2 u = 1) :
    V3.dot (rotU c s u o p - p) u = 0 := by
  simp only [V3.norm2, V3.dot] at hu
  simp only [rotU, V3.dot, V3.add_x, V3.add_y, V3.add_z, V3.sub_x, V3.sub_y, V3.sub_z, V3.smul_x, V3.smul_y, V3.smul_z,
    V3.cross_x, V3.cross_y, V3.cross_z]
  linear_combination ((1 - c) * (u.x * (p.x - o.x) + u.y * (p.y - o.y) + u.z * (p.z - o.z))) * hu

/-- a point and its image are at the same distance from the foot of the point on the axis (the centre of the arc) -/
theorem rotU_equidistant (c s : Rat) (u o p : V3) (hu : V3.norm2 u = 1) (hcs : c * c + s * s = 1) :
    V3.norm2 (rotU c s u o p - (o + V3.smul (V3.dot u (p - o)) u)) =
      V3.norm2 (p - (o + V3.smul (V3.dot u (p - o)) u)) := by
  simp only [V3.norm2, V3.dot] at hu
  simp only [rotU, V3.norm2, V3.dot, V3.add_x, V3.add_y, V3.add_z, V3.sub_x, V3.sub_y, V3.sub_z, V3.smul_x, V3.smul_y,
    V3.smul_z, V3.cross_x, V3.cross_y, V3.cross_z]
  linear_combination
    (((p.x - o.x) * (p.x - o.x) + (p.y - o.y) * (p.y - o.y) + (p.z - o.z) * (p.z - o.z)) -
      (u.x * (p.x - o.x) + u.y * (p.y - o.y) + u.z * (p.z - o.z)) ^ 2) * hcs +
    ((c * c - 1) * (u.x * (p.x - o.x) + u.y * (p.y - o.y) + u.z * (p.z - o.z)) ^ 2 +
      s * s * ((p.x - o.x) * (p.x - o.x) + (p.y - o.y) * (p.y - o.y) + (p.z - o.z) * (p.z - o.z))) * hu

/-- the rotation keeps all distances -/
theorem rotU_isometry (c s : Rat) (u o p q : V3) (hu : V3.norm2 u = 1) (hcs : c * c + s * s = 1) :
    V3.norm2 (rotU c s u o p - rotU c s u o q) = V3.norm2 (p - q) := by
  simp only [V3.norm2, V3.dot] at hu
  simp only [rotU, V3.norm2, V3.dot, V3.add_x, V3.add_y, V3.add_z, V3.sub_x, V3.sub_y, V3.sub_z, V3.smul_x, V3.smul_y,
    V3.smul_z, V3.cross_x, V3.cross_y, V3.cross_z]
  linear_combination
    (((p.x - q.x) * (p.x - q.x) + (p.y - q.y) * (p.y - q.y) + (p.z - q.z) * (p.z - q.z)) -
      (u.x * (p.x - q.x) + u.y * (p.y - q.y) + u.z * (p.z - q.z)) ^ 2) * hcs +
    (s * s * ((p.x - q.x) * (p.x - q.x) + (p.y - q.y) * (p.y - q.y) + (p.z - q.z) * (p.z - q.z)) +
      (1 - c) ^ 2 * (u.x * (p.x - q.x) + u.y * (p.y - q.y) + u.z * (p.z - q.z)) ^ 2) * hu

/-- turning about the same axis through any other point of the axis line is the same map (the arc of an `Angle` datum has
    no origin of its own: its centre is the foot of the start point on the axis) -/
theorem rotU_axis_point (c s lam : Rat) (u o p : V3) (hu : V3.norm2 u = 1) :
    rotU c s u (o + V3.smul lam u) p = rotU c s u o p := by
  simp only [V3.norm2, V3.dot] at hu
  apply V3.ext' <;>
    simp only [rotU, V3.dot, V3.add_x, V3.add_y, V3.add_z, V3.sub_x, V3.sub_y, V3.sub_z, V3.smul_x, V3.smul_y, V3.smul_z,
      V3.cross_x, V3.cross_y, V3.cross_z]
  · linear_combination (-(1 - c) * lam * u.x) * hu
  · linear_combination (-(1 - c) * lam * u.y) * hu
  · linear_combination (-(1 - c) * lam * u.z) * hu

/-- turning back by the opposite angle (what `Angle.reverse()` describes) undoes the turn -/
theorem rotU_inverse (c s : Rat) (u o p : V3) (hu : V3.norm2 u = 1) (hcs : c * c + s * s = 1) :
    rotU c (-s) u o (rotU c s u o p) = p := by
  simp only [V3.norm2, V3.dot] at hu
  apply V3.ext' <;>
    simp only [rotU, V3.dot, V3.add_x, V3.add_y, V3.add_z, V3.sub_x, V3.sub_y, V3.sub_z, V3.smul_x, V3.smul_y, V3.smul_z,
      V3.cross_x, V3.cross_y, V3.cross_z]
  · linear_combination ((p.x - o.x) - (u.x * (p.x - o.x) + u.y * (p.y - o.y) + u.z * (p.z - o.z)) * u.x) * hcs +
      (s * s * (p.x - o.x) + (1 - c) ^ 2 * (u.x * (p.x - o.x) + u.y * (p.y - o.y) + u.z * (p.z - o.z)) * u.x) * hu
  · linear_combination ((p.y - o.y) - (u.x * (p.x - o.x) + u.y * (p.y - o.y) + u.z * (p.z - o.z)) * u.y) * hcs +
      (s * s * (p.y - o.y) + (1 - c) ^ 2 * (u.x * (p.x - o.x) + u.y * (p.y - o.y) + u.z * (p.z - o.z)) * u.y) * hu
  · linear_combination ((p.z - o.z) - (u.x * (p.x - o.x) + u.y * (p.y - o.y) + u.z * (p.z - o.z)) * u.z) * hcs +
      (s * s * (p.z - o.z) + (1 - c) ^ 2 * (u.x * (p.x - o.x) + u.y * (p.y - o.y) + u.z * (p.z - o.z)) * u.z) * hu

/-! ### corner Jacobians of a hexahedron (blockMesh numbering) -/

def triple (a b c : V3) : Rat := V3.dot (V3.cross a b) c

/-- corner, and its three neighbours in right-handed order: the Jacobian at the corner is the triple product of the edges
    to them; positive at all eight corners of the unit cube (and of every right-handed block) -/
def cornerNbrs : List (Nat × Nat × Nat × Nat) :=
  [(0, 1, 3, 4), (1, 2, 0, 5), (2, 3, 1, 6), (3, 0, 2, 7), (4, 7, 5, 0), (5, 4, 6, 1), (6, 5, 7, 2), (7, 6, 4, 3)]

def cornerJac (pts : List V3) (n : Nat × Nat × Nat × Nat) : Rat :=
  let p (i : Nat) := pts.getD i V3.zero
  triple (p n.2.1 - p n.1) (p n.2.2.1 - p n.1) (p n.2.2.2 - p n.1)

/-! ### Round 6e: a frame (unit axis `u`, unit radial direction `e ⟂ u`, `u × e`) and the invariance of Jacobians -/

/-- the point with height `h` along the axis and distance `ρ` from it in the half-plane spanned by `u` and `e` -/
def halfPlanePt (o u e : V3) (h ρ : Rat) : V3 := o + V3.smul h u + V3.smul ρ e

/-- the same point turned about the axis: height kept, the radial arm `ρ·e` becomes `ρ·(c·e + s·(u × e))` -/
def turnedPt (o u e : V3) (c s h ρ : Rat) : V3 := o + V3.smul h u + V3.smul (c * ρ) e + V3.smul (s * ρ) (V3.cross u e)

theorem rotateP_halfPlanePt (o u e : V3) (c s h ρ : Rat) (hu : V3.norm2 u = 1) (hue : V3.dot u e = 0) :
    rotateP c s u 1 o (halfPlanePt o u e h ρ) = turnedPt o u e c s h ρ := by
  simp only [V3.norm2, V3.dot] at hu hue
  apply V3.ext' <;>
    simp only [rotateP, halfPlanePt, turnedPt, V3.dot, V3.add_x, V3.add_y, V3.add_z, V3.sub_x, V3.sub_y, V3.sub_z, V3.smul_x,
      V3.smul_y, V3.smul_z, V3.cross_x, V3.cross_y, V3.cross_z]
  · linear_combination (h * (1 - c) * u.x) * hu + ((1 - c) * ρ * u.x) * hue
  · linear_combination (h * (1 - c) * u.y) * hu + ((1 - c) * ρ * u.y) * hue
  · linear_combination (h * (1 - c) * u.z) * hu + ((1 - c) * ρ * u.z) * hue

/-- the linear part of `rotU`: `rotU c s u o p − rotU c s u o q = rotLin c s u (p − q)` -/
def rotLin (c s : Rat) (u w : V3) : V3 := V3.smul c w + V3.smul s (V3.cross u w) + V3.smul ((1 - c) * V3.dot u w) u

theorem rotU_sub (c s : Rat) (u o p q : V3) : rotU c s u o p - rotU c s u o q = rotLin c s u (p - q) := by
  apply V3.ext' <;>
    simp only [rotU, rotLin, V3.dot, V3.add_x, V3.add_y, V3.add_z, V3.sub_x, V3.sub_y, V3.sub_z, V3.smul_x, V3.smul_y, V3.smul_z,
      V3.cross_x, V3.cross_y, V3.cross_z] <;> ring

/-- **a rotation has determinant 1**: triple products are kept (`det = (c + (1−c)|u|²)(c² + s²|u|²)` exactly, which is 1 with the
    two witnesses) -/
theorem triple_rotLin (c s : Rat) (u a b d : V3) (hu : V3.norm2 u = 1) (hcs : c * c + s * s = 1) :
    triple (rotLin c s u a) (rotLin c s u b) (rotLin c s u d) = triple a b d := by
  simp only [V3.norm2, V3.dot] at hu
  simp only [triple, rotLin, V3.dot, V3.add_x, V3.add_y, V3.add_z, V3.smul_x, V3.smul_y, V3.smul_z, V3.cross_x, V3.cross_y,
    V3.cross_z]
  linear_combination
    (((a.y * b.z - a.z * b.y) * d.x + (a.z * b.x - a.x * b.z) * d.y + (a.x * b.y - a.y * b.x) * d.z) *
      (1 + (1 - c) * (u.x * u.x + u.y * u.y + u.z * u.z - 1))) * hcs +
    (((a.y * b.z - a.z * b.y) * d.x + (a.z * b.x - a.x * b.z) * d.y + (a.x * b.y - a.y * b.x) * d.z) *
      (s * s + (1 - c) * (1 + s * s * (u.x * u.x + u.y * u.y + u.z * u.z - 1)))) * hu

/-! ### small helpers of Props/C10.lean -/

theorem length_insertSorted_not_mem (l : String) : ∀ ls : List String, l ∉ ls → (insertSorted l ls).length = ls.length + 1 := by
  intro ls
  induction ls with
  | nil => intro _; rfl
  | cons x xs ih =>
    intro hn
    have hx : l ≠ x := fun h => hn (by simp [h])
    have hxs : l ∉ xs := fun h => hn (by simp [h])
    unfold insertSorted
    split
    · simp
    · simp only [hx, if_false, List.length_cons, ih hxs]

theorem length_insertSorted_bounds (l : String) : ∀ ls : List String,
    1 ≤ (insertSorted l ls).length ∧ (insertSorted l ls).length ≤ ls.length + 1 := by
  intro ls
  induction ls with
  | nil => simp [insertSorted]
  | cons x xs ih =>
    unfold insertSorted
    split
    · simp
    · split
      · simp
      · simp only [List.length_cons]; omega

theorem cube_le_one (x : Rat) (h : x * x ≤ 1) : x ^ 3 ≤ 1 ∧ (x ^ 3 = 1 → x = 1) := by
  have hx1 : x ≤ 1 := by nlinarith [sq_nonneg (x - 1), sq_nonneg (x + 1)]
  have hq : 0 < 1 + x + x * x := by nlinarith [sq_nonneg (x + 1 / 2)]
  constructor
  · nlinarith [mul_nonneg (sub_nonneg.mpr hx1) (le_of_lt hq)]
  · intro h3
    have : (1 - x) * (1 + x + x * x) = 0 := by ring_nf; ring_nf at h3; linarith
    rcases mul_eq_zero.mp this with h' | h'
    · linarith
    · exact absurd h' (ne_of_gt hq)


end CBV.C10
