/-
C11 — helper lemmas for the interface between consecutive tiers (a shape chained to the end sketch of
another one with the same sketch is the next tier of a stack).
-/
import CBV.Lemmas.C11Stack

namespace CBV.C11

/-- the vertices of tier `l` of the lofted quad map -/
def tierVerts (Q : List (List Nat)) (l : Nat) : List Nat := (loftBlocks Q (nPoints Q) l).flatten

theorem mem_tierVerts {Q : List (List Nat)} {l v : Nat} :
    v ∈ tierVerts Q l ↔ ∃ q ∈ Q, ∃ i ∈ q, v = i + l * nPoints Q ∨ v = i + (l + 1) * nPoints Q := by
  unfold tierVerts loftBlocks
  simp only [List.mem_flatten, List.mem_map]
  constructor
  · rintro ⟨b, ⟨q, hq, rfl⟩, hv⟩
    rcases List.mem_append.mp hv with h | h
    · obtain ⟨i, hi, rfl⟩ := List.mem_map.mp h
      exact ⟨q, hq, i, hi, Or.inl rfl⟩
    · obtain ⟨i, hi, rfl⟩ := List.mem_map.mp h
      exact ⟨q, hq, i, hi, Or.inr rfl⟩
  · rintro ⟨q, hq, i, hi, h | h⟩
    · exact ⟨_, ⟨q, hq, rfl⟩, List.mem_append.mpr (Or.inl (List.mem_map.mpr ⟨i, hi, h.symm⟩))⟩
    · exact ⟨_, ⟨q, hq, rfl⟩, List.mem_append.mpr (Or.inr (List.mem_map.mpr ⟨i, hi, h.symm⟩))⟩

theorem point_lt_nPoints {Q : List (List Nat)} {q : List Nat} {i : Nat} (hq : q ∈ Q) (hi : i ∈ q) :
    i < nPoints Q := by
  unfold nPoints
  have h1 := le_maxOf hi
  have h2 : maxOf q ≤ maxOf (Q.map maxOf) := le_maxOf (List.mem_map.mpr ⟨q, hq, rfl⟩)
  omega

theorem allPointsUsed_iff (Q : List (List Nat)) :
    allPointsUsed Q = true ↔ ∀ i, i < nPoints Q → ∃ q ∈ Q, i ∈ q := by
  unfold allPointsUsed
  simp [List.all_eq_true, List.any_eq_true]

end CBV.C11
