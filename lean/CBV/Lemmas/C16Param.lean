/-
C16 — the parameter returned by `LinearInterpolatedCurve.get_closest_param` addresses the projection point (round 6):
`interp1d` at `t_i + ρ (t_{i+1} − t_i)` is the point at the ratio `ρ` of the segment `i`.
-/
import CBV.Lemmas.C16
import Mathlib.Tactic.FieldSimp

namespace CBV.C16

theorem lerpV_self_one (p0 p1 : V) : lerpV p0 p1 1 = p1 := by
  cases p0; cases p1; simp [lerpV]

theorem lerpV_zero (p0 p1 : V) : lerpV p0 p1 0 = p0 := by
  cases p0; cases p1; simp [lerpV]

theorem lerp_at_segment : ∀ (ts : List Rat) (ps : List V), ts.length = ps.length → ts.Pairwise (· < ·) →
    ∀ (i : Nat) (h1 : i + 1 < ts.length) (h2 : i + 1 < ps.length) (ρ : Rat), 0 ≤ ρ → ρ ≤ 1 →
      lerp ts ps (ts[i] + ρ * (ts[i + 1] - ts[i])) = some (lerpV ps[i] ps[i + 1] ρ)
  | [], _, _, _, i, h1, _, _, _, _ => by simp at h1
  | [_], _, _, _, i, h1, _, _, _, _ => by simp at h1
  | _ :: _ :: _, [], hl, _, _, _, _, _, _, _ => by simp at hl
  | _ :: _ :: _, [_], hl, _, _, _, _, _, _, _ => by simp at hl
  | t0 :: t1 :: ts, p0 :: p1 :: ps, hl, hs, i, h1, h2, ρ, hρ0, hρ1 => by
      rw [List.pairwise_cons] at hs
      obtain ⟨h0, hs'⟩ := hs
      have h01 : t0 < t1 := h0 t1 (by simp)
      have hd : 0 < t1 - t0 := sub_pos.mpr h01
      have hne : t1 - t0 ≠ 0 := ne_of_gt hd
      match i, h1, h2 with
      | 0, _, _ =>
          simp only [List.getElem_cons_zero, List.getElem_cons_succ, lerp]
          have hρd : 0 ≤ ρ * (t1 - t0) := mul_nonneg hρ0 (le_of_lt hd)
          have hρd1 : ρ * (t1 - t0) ≤ 1 * (t1 - t0) := mul_le_mul_of_nonneg_right hρ1 (le_of_lt hd)
          rw [if_pos ⟨by linarith, by linarith⟩]
          have : (t0 + ρ * (t1 - t0) - t0) / (t1 - t0) = ρ := by field_simp; ring
          rw [this]
      | i + 1, h1, h2 =>
          have h1' : i + 1 < (t1 :: ts).length := by simpa using h1
          have h2' : i + 1 < (p1 :: ps).length := by simpa using h2
          have hlen : (t1 :: ts).length = (p1 :: ps).length := by simpa using hl
          have ih := lerp_at_segment (t1 :: ts) (p1 :: ps) hlen hs' i h1' h2' ρ hρ0 hρ1
          simp only [List.getElem_cons_succ]
          have hab : (t1 :: ts)[i] < (t1 :: ts)[i + 1] :=
            (List.pairwise_iff_getElem.mp hs') i (i + 1) (by omega) h1' (by omega)
          have ht1a : t1 ≤ (t1 :: ts)[i] := by
            cases i with
            | zero => simp
            | succ j =>
                rw [List.pairwise_cons] at hs'
                exact le_of_lt (hs'.1 _ (by simp only [List.getElem_cons_succ]; exact List.getElem_mem _))
          have hstep : 0 ≤ ρ * ((t1 :: ts)[i + 1] - (t1 :: ts)[i]) := mul_nonneg hρ0 (le_of_lt (sub_pos.mpr hab))
          by_cases hle : (t1 :: ts)[i] + ρ * ((t1 :: ts)[i + 1] - (t1 :: ts)[i]) ≤ t1
          · -- the parameter is the knot t1 itself: end of the first segment = start of the second
            have ha : (t1 :: ts)[i] = t1 := le_antisymm (by linarith) ht1a
            have hρz : ρ * ((t1 :: ts)[i + 1] - (t1 :: ts)[i]) = 0 := by linarith
            have hρ : ρ = 0 := by
              rcases mul_eq_zero.mp hρz with h | h
              · exact h
              · exact absurd h (ne_of_gt (sub_pos.mpr hab))
            have hi0 : i = 0 := by
              cases i with
              | zero => rfl
              | succ j =>
                  exfalso
                  rw [List.pairwise_cons] at hs'
                  have : t1 < (t1 :: ts)[j + 1] :=
                    hs'.1 _ (by simp only [List.getElem_cons_succ]; exact List.getElem_mem _)
                  linarith
            subst hi0
            subst hρ
            simp only [List.getElem_cons_zero, zero_mul, add_zero, lerp]
            rw [if_pos ⟨le_of_lt h01, le_refl _⟩, div_self hne, lerpV_self_one, lerpV_zero]
          · unfold lerp
            rw [if_neg (fun h => hle h.2)]
            exact ih

theorem clip01_bounds (x : Rat) : 0 ≤ clip01 x ∧ clip01 x ≤ 1 := by
  unfold clip01
  split
  · exact ⟨le_refl _, by norm_num⟩
  · split
    · exact ⟨by norm_num, le_refl _⟩
    · constructor <;> linarith

end CBV.C16
