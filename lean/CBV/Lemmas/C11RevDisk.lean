/-
C11 — the revolved-shape theorem instantiated to the four fan disk classes: from the frame of the fan to the
frame of the axis (a plane similarity), heights over an axis further from the centre than the radius.
-/
import CBV.Lemmas.C11Rev

namespace CBV.C11
open P3

set_option linter.unusedSectionVars false
set_option linter.unusedSimpArgs false
set_option linter.unusedVariables false

variable {K : Type} [Field K] [LinearOrder K] [IsStrictOrderedRing K]

/-- plane similarity from fan coordinates to axis coordinates: centre at `(x0, y0)`, radius vector `(α, β)` -/
def simL (x0 y0 α β : K) (p : P3 K) : P3 K := ⟨x0 + α * p.x - β * p.y, y0 + β * p.x + α * p.y, p.z⟩

/-- a point given in the frame of a fan whose centre and radius vector are given in the frame of the axis -/
theorem frame_in_axis_frame (o k N p : P3 K) (x0 y0 α β : K) (hN : nsq N = 1) (hNk : dot N k = 0) :
    frame (frame o k N ⟨x0, y0, 0⟩) (add (smul α k) (smul β (cross N k))) N p
      = frame o k N (simL x0 y0 α β p) := by
  simp only [nsq, dot] at hN hNk
  apply P3.ext3 <;> simp only [frame, simL, add, smul, cross]
  · linear_combination (p.y * β * N.x) * hNk - (p.y * β * k.x) * hN
  · linear_combination (p.y * β * N.y) * hNk - (p.y * β * k.y) * hN
  · linear_combination (p.y * β * N.z) * hNk - (p.y * β * k.z) * hN

/-- the similarity keeps quads convex and counter-clockwise (plane cross products scale by `α² + β²`) -/
theorem convexCCW_sim (x0 y0 α β : K) (hs : 0 < α * α + β * β) (a b d e : P3 K) (h : convexCCW (a, b, d, e)) :
    convexCCW (simL x0 y0 α β a, simL x0 y0 α β b, simL x0 y0 α β d, simL x0 y0 α β e) := by
  obtain ⟨h1, h2, h3, h4, c1, c2, c3, c4⟩ := h
  have key : ∀ p q r : P3 K, cross2K (simL x0 y0 α β p) (simL x0 y0 α β q) (simL x0 y0 α β r)
      = (α * α + β * β) * cross2K p q r := by
    intro p q r; simp only [cross2K, simL]; ring
  unfold convexCCW
  dsimp only at h1 h2 h3 h4 c1 c2 c3 c4 ⊢
  rw [key, key, key, key]
  exact ⟨h1, h2, h3, h4, mul_pos hs c1, mul_pos hs c2, mul_pos hs c3, mul_pos hs c4⟩

/-- a point of the unit disk of the fan lies above an axis that is further from the centre than the radius -/
theorem sim_height_pos (x0 y0 α β : K) (hy : 0 < y0) (hr : α * α + β * β < y0 * y0) (p : P3 K)
    (hp : p.x * p.x + p.y * p.y ≤ 1) : 0 < (simL x0 y0 α β p).y := by
  simp only [simL]
  have c1 : (β * p.x + α * p.y) * (β * p.x + α * p.y) ≤ (α * α + β * β) * (p.x * p.x + p.y * p.y) := by
    nlinarith [mul_self_nonneg (α * p.x - β * p.y)]
  have c2 : (α * α + β * β) * (p.x * p.x + p.y * p.y) ≤ α * α + β * β := by
    nlinarith [mul_nonneg (add_nonneg (mul_self_nonneg α) (mul_self_nonneg β)) (sub_nonneg.mpr hp)]
  by_contra hc
  have hc := not_lt.mp hc
  nlinarith [mul_nonneg (by linarith : (0 : K) ≤ -(β * p.x + α * p.y) - y0) (by linarith : (0 : K) ≤ -(β * p.x + α * p.y) + y0)]

theorem getD_map_lt {α' β' : Type} (f : α' → β') (L : List α') (i : Nat) (d : β') (d' : α') (hi : i < L.length) :
    (L.map f).getD i d = f (L.getD i d') := by
  simp [List.getD_eq_getElem?_getD, List.getElem?_map, List.getElem?_eq_getElem hi]

/-- all indices of all quads are below `n` -/
def quadsBelow (quads : List (List Nat)) (n : Nat) : Bool := quads.all (fun q => q.all (fun i => decide (i < n)))

theorem getD_lt_of_quadsBelow (quads : List (List Nat)) (n : Nat) (hn : 0 < n) (h : quadsBelow quads n = true)
    (q : List Nat) (hq : q ∈ quads) (j : Nat) : q.getD j 0 < n := by
  unfold quadsBelow at h
  rw [List.all_eq_true] at h
  have hq' := h q hq
  rw [List.all_eq_true] at hq'
  rw [List.getD_eq_getElem?_getD]
  by_cases hj : j < q.length
  · rw [List.getElem?_eq_getElem hj]
    simpa using hq' _ (List.getElem_mem hj)
  · rw [List.getElem?_eq_none (by omega)]
    simpa using hn

/-- number of positions of a class -/
def DiskCls.nPts : DiskCls → Nat
  | .oneCore => 8 | .quarter => 7 | .half => 11 | .fourCore => 17

theorem diskL_length (cl : DiskCls) (h k dg : K) : (diskL cl h k dg).length = cl.nPts := by
  cases cl
  · rw [diskL_oneCore]; rfl
  · rw [diskL_quarter]; rfl
  · rw [diskL_half]; rfl
  · rw [diskL_fourCore]; rfl

theorem disk_quadsBelow (cl : DiskCls) : quadsBelow (sketchQuads cl.name) cl.nPts = true := by
  cases cl
  · rw [show DiskCls.oneCore.name = "OneCoreDisk" from rfl, quads_oneCore]; decide
  · rw [show DiskCls.quarter.name = "QuarterDisk" from rfl, quads_quarter]; decide
  · rw [show DiskCls.half.name = "HalfDisk" from rfl, quads_half]; decide
  · rw [show DiskCls.fourCore.name = "FourCoreDisk" from rfl, quads_fourCore]; decide

theorem diskL_z (cl : DiskCls) (h k dg : K) : ∀ p ∈ diskL cl h k dg, p.z = 0 := by
  cases cl
  · rw [diskL_oneCore]; intro p hp; simp only [List.mem_cons, List.not_mem_nil, or_false] at hp
    rcases hp with rfl | rfl | rfl | rfl | rfl | rfl | rfl | rfl <;> rfl
  · rw [diskL_quarter]; intro p hp; simp only [List.mem_cons, List.not_mem_nil, or_false] at hp
    rcases hp with rfl | rfl | rfl | rfl | rfl | rfl | rfl <;> rfl
  · rw [diskL_half]; intro p hp; simp only [List.mem_cons, List.not_mem_nil, or_false] at hp
    rcases hp with rfl | rfl | rfl | rfl | rfl | rfl | rfl | rfl | rfl | rfl | rfl <;> rfl
  · rw [diskL_fourCore]; intro p hp; simp only [List.mem_cons, List.not_mem_nil, or_false] at hp
    rcases hp with rfl | rfl | rfl | rfl | rfl | rfl | rfl | rfl | rfl | rfl | rfl | rfl | rfl | rfl | rfl | rfl | rfl <;> rfl

/-- every position of a disk sketch lies in the closed unit disk of its fan (`2h² ≤ 1`: the rim points at the odd
    multiples of π/4 are not outside the circle) -/
theorem diskL_unit (cl : DiskCls) (h k dg : K) (hok : DiskOK cl h k dg) (hh2 : 2 * (h * h) ≤ 1) :
    ∀ p ∈ diskL cl h k dg, p.x * p.x + p.y * p.y ≤ 1 := by
  cases cl
  · obtain ⟨hd0, hd1⟩ := hok
    rw [diskL_oneCore]; intro p hp; simp only [List.mem_cons, List.not_mem_nil, or_false] at hp
    have hdd : dg * dg ≤ 1 := by nlinarith
    rcases hp with rfl | rfl | rfl | rfl | rfl | rfl | rfl | rfl <;> dsimp only <;> linarith [hdd]
  all_goals
    obtain ⟨hk0, hk1, hh, he1, he2⟩ := hok
    have a2 : 0 < dg * h := by linarith
    have e2 : (dg * h) * (dg * h) < h * h := by nlinarith
    have hkk : k * k ≤ 1 := by nlinarith
    have hee : 2 * ((dg * h) * (dg * h)) ≤ 1 := by linarith
  · rw [diskL_quarter]; intro p hp; simp only [List.mem_cons, List.not_mem_nil, or_false] at hp
    rcases hp with rfl | rfl | rfl | rfl | rfl | rfl | rfl <;> dsimp only <;> linarith [hkk, hee, hh2]
  · rw [diskL_half]; intro p hp; simp only [List.mem_cons, List.not_mem_nil, or_false] at hp
    rcases hp with rfl | rfl | rfl | rfl | rfl | rfl | rfl | rfl | rfl | rfl | rfl <;> dsimp only <;>
      linarith [hkk, hee, hh2]
  · rw [diskL_fourCore]; intro p hp; simp only [List.mem_cons, List.not_mem_nil, or_false] at hp
    rcases hp with rfl | rfl | rfl | rfl | rfl | rfl | rfl | rfl | rfl | rfl | rfl | rfl | rfl | rfl | rfl | rfl | rfl <;>
      dsimp only <;> linarith [hkk, hee, hh2]

theorem getD_irrel {α' : Type} (L : List α') (i : Nat) (d d' : α') (hi : i < L.length) : L.getD i d = L.getD i d' := by
  simp [List.getD_eq_getElem?_getD, List.getElem?_eq_getElem hi]

theorem getD_mem_of_lt {α' : Type} (L : List α') (i : Nat) (d : α') (hi : i < L.length) : L.getD i d ∈ L := by
  simp [List.getD_eq_getElem?_getD, List.getElem?_eq_getElem hi]

/-- the default position of `revolveOf` is never used when every index of every quad is in range -/
theorem revolveOf_default (quads : List (List Nat)) (pts : List (P3 K)) (d d' : P3 K) (cs sn : K) (ax o : P3 K)
    (hin : ∀ q ∈ quads, ∀ j, q.getD j 0 < pts.length) :
    revolveOf quads pts d cs sn ax o = revolveOf quads pts d' cs sn ax o := by
  unfold revolveOf loftHexes
  apply List.map_congr_left
  intro q hq
  have hl : (pts.map (rotAbout cs sn ax o)).length = pts.length := List.length_map _
  unfold hexAt
  rw [getD_irrel pts _ d d' (hin q hq 0), getD_irrel pts _ d d' (hin q hq 1), getD_irrel pts _ d d' (hin q hq 2),
    getD_irrel pts _ d d' (hin q hq 3),
    getD_irrel (pts.map (rotAbout cs sn ax o)) _ (rotAbout cs sn ax o d) (rotAbout cs sn ax o d') (by rw [hl]; exact hin q hq 0),
    getD_irrel (pts.map (rotAbout cs sn ax o)) _ (rotAbout cs sn ax o d) (rotAbout cs sn ax o d') (by rw [hl]; exact hin q hq 1),
    getD_irrel (pts.map (rotAbout cs sn ax o)) _ (rotAbout cs sn ax o d) (rotAbout cs sn ax o d') (by rw [hl]; exact hin q hq 2),
    getD_irrel (pts.map (rotAbout cs sn ax o)) _ (rotAbout cs sn ax o d) (rotAbout cs sn ax o d') (by rw [hl]; exact hin q hq 3)]

/-- **RevolvedShape of a fan disk sketch**: the axis (point `o`, unit direction `k`) lies in the sketch plane
    (unit normal `N ⟂ k`), the centre of the disk at `(x0, y0)` in the frame of the axis with height `y0 > 0`, the
    radius vector `α k + β (N × k)` shorter than `y0`, the sweep with positive sine -/
theorem revolved_disk_RH (cl : DiskCls) (o k N : P3 K) (x0 y0 α β h kk dg cs sn : K)
    (hk : nsq k = 1) (hN : nsq N = 1) (hNk : dot N k = 0) (hsn : 0 < sn) (hy : 0 < y0)
    (hs : 0 < α * α + β * β) (hr : α * α + β * β < y0 * y0) (hok : DiskOK cl h kk dg) (hh2 : 2 * (h * h) ≤ 1) :
    ∀ H ∈ revolvedHexes (sketchQuads cl.name) cl (frame o k N ⟨x0, y0, 0⟩)
        (add (frame o k N ⟨x0, y0, 0⟩) (add (smul α k) (smul β (cross N k)))) N h kk dg cs sn k o, H.RH := by
  have hp : dot N (sub (add (frame o k N ⟨x0, y0, 0⟩) (add (smul α k) (smul β (cross N k)))) (frame o k N ⟨x0, y0, 0⟩)) = 0 := by
    rw [sub_add_self]
    have h' := hNk
    simp only [dot] at h'
    simp only [dot, add, smul, cross]
    linear_combination α * h'
  unfold revolvedHexes
  rw [diskPts_frame cl _ _ N h kk dg hp, sub_add_self]
  have hmap : (diskL cl h kk dg).map (frame (frame o k N ⟨x0, y0, 0⟩) (add (smul α k) (smul β (cross N k))) N)
      = ((diskL cl h kk dg).map (simL x0 y0 α β)).map (frame o k N) := by
    rw [List.map_map]
    apply List.map_congr_left
    intro p _
    exact frame_in_axis_frame o k N p x0 y0 α β hN hNk
  rw [hmap]
  have hlen : ((diskL cl h kk dg).map (simL x0 y0 α β)).length = cl.nPts := by rw [List.length_map, diskL_length]
  have hpos : 0 < cl.nPts := by cases cl <;> decide
  have hidx : ∀ q ∈ sketchQuads cl.name, ∀ j, q.getD j 0 < cl.nPts :=
    fun q hq j => getD_lt_of_quadsBelow _ _ hpos (disk_quadsBelow cl) q hq j
  rw [revolveOf_default _ _ _ (frame o k N ⟨0, 0, 0⟩) cs sn k o
    (by intro q hq j; rw [List.length_map, hlen]; exact hidx q hq j)]
  apply revolve_RH o k N _ cs sn _ hk hN hNk hsn
  · intro p hp'
    obtain ⟨p0, hp0, rfl⟩ := List.mem_map.mp hp'
    simp only [simL]; exact diskL_z cl h kk dg p0 hp0
  · intro q hq
    have hconv := disk_convex cl h kk dg hok q hq
    have hL : ∀ j, q.getD j 0 < (diskL cl h kk dg).length := fun j => by rw [diskL_length]; exact hidx q hq j
    unfold quadOf at hconv ⊢
    rw [getD_map_lt _ _ _ _ ⟨0, 0, 0⟩ (hL 0), getD_map_lt _ _ _ _ ⟨0, 0, 0⟩ (hL 1), getD_map_lt _ _ _ _ ⟨0, 0, 0⟩ (hL 2),
      getD_map_lt _ _ _ _ ⟨0, 0, 0⟩ (hL 3)]
    refine ⟨convexCCW_sim x0 y0 α β hs _ _ _ _ hconv, ?_, ?_, ?_, ?_⟩ <;>
      exact sim_height_pos x0 y0 α β hy hr _ (diskL_unit cl h kk dg hok hh2 _ (getD_mem_of_lt _ _ _ (hL _)))

end CBV.C11
