/-
C11 — Oval revolved: the frame of the first fan rescaled by `t + 1` (all 22 positions inside its unit disk), the
radius vector of the first fan in the frame of the axis.
-/
import CBV.Lemmas.C11RevWrap

namespace CBV.C11
open P3

set_option linter.unusedSectionVars false
set_option linter.unusedSimpArgs false
set_option linter.unusedVariables false

theorem oval_quadsBelow : quadsBelow (sketchQuads "Oval") 22 = true := by
  rw [quads_oval]; decide

variable {K : Type} [Field K] [LinearOrder K] [IsStrictOrderedRing K]

/-- `N × (a k + b (N × k)) = −b k + a (N × k)` for a unit normal `N ⟂ k` -/
theorem cross_axis_vec (N k : P3 K) (a b : K) (hN : nsq N = 1) (hNk : dot N k = 0) :
    cross N (add (smul a k) (smul b (cross N k))) = add (smul (-b) k) (smul a (cross N k)) := by
  simp only [nsq, dot] at hN hNk
  apply P3.ext3 <;> simp only [add, smul, cross]
  · linear_combination (b * N.x) * hNk - (b * k.x) * hN
  · linear_combination (b * N.y) * hNk - (b * k.y) * hN
  · linear_combination (b * N.z) * hNk - (b * k.z) * hN

/-- a point of the sketch plane in a frame whose radius vector is `s (−b k + a (N × k))`, in the frame rescaled by `B` -/
theorem frame_rescale (c N k p : P3 K) (s a b B : K) (hB : B ≠ 0) (hz : p.z = 0) :
    frame c (smul s (add (smul (-b) k) (smul a (cross N k)))) N p
      = frame c (add (smul (B * s * (-b)) k) (smul (B * s * a) (cross N k))) N (scaleL (1 / B) p) := by
  apply P3.ext3 <;> simp only [frame, scaleL, add, smul, cross, hz] <;> field_simp <;> ring

/-- the 22 positions of `Oval` in the frame of its first fan: in the sketch plane and within `t + 1` fan units of
    the first centre (`t = |c2 − c1| / radius`) -/
theorem ovalL_facts (h k dg t : K) (hk0 : 0 < k) (hk1 : k < 1) (hh : 0 < h) (he1 : k < 2 * (dg * h))
    (he2 : dg * h < h) (hh2 : 2 * (h * h) ≤ 1) (ht : 0 < t) :
    (ovalL h k dg t).length = 22 ∧ (∀ p ∈ ovalL h k dg t, p.z = 0) ∧
      ∀ p ∈ ovalL h k dg t, p.x * p.x + p.y * p.y ≤ (t + 1) * (t + 1) := by
  rw [ovalL_lit]
  have a2 : 0 < dg * h := by linarith
  have hh1 : h < 1 := by nlinarith
  have hkk : k * k ≤ 1 := by nlinarith
  have hee : 2 * ((dg * h) * (dg * h)) ≤ 1 := by nlinarith
  have tk : t * k ≤ t := by nlinarith
  have th : t * h ≤ t := by nlinarith
  have te : t * (dg * h) ≤ t := by nlinarith
  have tt : 0 ≤ t * t := mul_self_nonneg t
  refine ⟨rfl, ?_, ?_⟩
  · intro p hp; simp only [List.mem_cons, List.not_mem_nil, or_false] at hp
    rcases hp with rfl | rfl | rfl | rfl | rfl | rfl | rfl | rfl | rfl | rfl | rfl | rfl | rfl | rfl | rfl | rfl | rfl | rfl | rfl | rfl | rfl | rfl <;> rfl
  · intro p hp; simp only [List.mem_cons, List.not_mem_nil, or_false] at hp
    rcases hp with rfl | rfl | rfl | rfl | rfl | rfl | rfl | rfl | rfl | rfl | rfl | rfl | rfl | rfl | rfl | rfl | rfl | rfl | rfl | rfl | rfl | rfl <;> dsimp only <;> linarith [hkk, hee, hh2, tk, th, te, tt, ht]

/-- the rescaled coordinates lie in the unit disk -/
theorem scaled_unit (B : K) (hB : 0 < B) (p : P3 K) (hp : p.x * p.x + p.y * p.y ≤ B * B) :
    (scaleL (1 / B) p).x * (scaleL (1 / B) p).x + (scaleL (1 / B) p).y * (scaleL (1 / B) p).y ≤ 1 := by
  have hne : B ≠ 0 := ne_of_gt hB
  have e : (scaleL (1 / B) p).x * (scaleL (1 / B) p).x + (scaleL (1 / B) p).y * (scaleL (1 / B) p).y
      = (p.x * p.x + p.y * p.y) / (B * B) := by
    simp only [scaleL]; field_simp
  rw [e, div_le_one (mul_pos hB hB)]; exact hp

/-- **RevolvedShape of an Oval**: axis in the sketch plane; first centre at `(x0, y0)` in the frame of the axis,
    `c2 − c1 = a k + b (N × k) ≠ 0`; with `B = wd/radius + 1` and `s = radius/wd` the bounding circle about the first
    centre has the radius vector `B s (−b k + a (N × k))` (length `radius + |c2 − c1|` when `wd = |c2 − c1|`), and the
    axis passes outside it -/
theorem revolved_oval_RH (o k N : P3 K) (x0 y0 a b h kk dg radius wd cs sn : K)
    (hk : nsq k = 1) (hN : nsq N = 1) (hNk : dot N k = 0) (hsn : 0 < sn) (hy : 0 < y0)
    (hr0 : 0 < radius) (hw : 0 < wd) (hab : 0 < a * a + b * b)
    (hr : ((wd / radius + 1) * (radius / wd) * (-b)) * ((wd / radius + 1) * (radius / wd) * (-b))
        + ((wd / radius + 1) * (radius / wd) * a) * ((wd / radius + 1) * (radius / wd) * a) < y0 * y0)
    (hok : DiskOK .half h kk dg) (hh2 : 2 * (h * h) ≤ 1) :
    ∀ H ∈ revolveOf (sketchQuads "Oval")
        (ovalPts (frame o k N ⟨x0, y0, 0⟩) (add (frame o k N ⟨x0, y0, 0⟩) (add (smul a k) (smul b (cross N k)))) N
          h kk dg radius wd) (frame o k N ⟨x0, y0, 0⟩) cs sn k o, H.RH := by
  obtain ⟨hk0, hk1, hh, he1, he2⟩ := hok
  have ht : 0 < wd / radius := div_pos hw hr0
  have hB : 0 < wd / radius + 1 := by linarith
  have hs : 0 < radius / wd := div_pos hr0 hw
  have hp : dot N (sub (add (frame o k N ⟨x0, y0, 0⟩) (add (smul a k) (smul b (cross N k)))) (frame o k N ⟨x0, y0, 0⟩)) = 0 := by
    rw [sub_add_self]
    have h' := hNk
    simp only [dot] at h'
    simp only [dot, add, smul, cross]
    linear_combination a * h'
  obtain ⟨hlen, hz, hbound⟩ := ovalL_facts h kk dg (wd / radius) hk0 hk1 hh he1 he2 hh2 ht
  rw [ovalPts_frame _ _ N h kk dg radius wd hr0 hw hN hp, sub_add_self, cross_axis_vec N k a b hN hNk]
  have hmap : (ovalL h kk dg (wd / radius)).map (frame (frame o k N ⟨x0, y0, 0⟩)
        (smul (radius / wd) (add (smul (-b) k) (smul a (cross N k)))) N)
      = ((ovalL h kk dg (wd / radius)).map (scaleL (1 / (wd / radius + 1)))).map
          (frame (frame o k N ⟨x0, y0, 0⟩)
            (add (smul ((wd / radius + 1) * (radius / wd) * (-b)) k) (smul ((wd / radius + 1) * (radius / wd) * a) (cross N k))) N) := by
    rw [List.map_map]
    apply List.map_congr_left
    intro p hp'
    exact frame_rescale _ N k p (radius / wd) a b (wd / radius + 1) (ne_of_gt hB) (hz p hp')
  rw [hmap]
  have hpos : 0 < ((wd / radius + 1) * (radius / wd) * (-b)) * ((wd / radius + 1) * (radius / wd) * (-b))
      + ((wd / radius + 1) * (radius / wd) * a) * ((wd / radius + 1) * (radius / wd) * a) := by
    have e : ((wd / radius + 1) * (radius / wd) * (-b)) * ((wd / radius + 1) * (radius / wd) * (-b))
        + ((wd / radius + 1) * (radius / wd) * a) * ((wd / radius + 1) * (radius / wd) * a)
        = ((wd / radius + 1) * (radius / wd)) * ((wd / radius + 1) * (radius / wd)) * (a * a + b * b) := by ring
    rw [e]
    exact mul_pos (mul_pos (mul_pos hB hs) (mul_pos hB hs)) hab
  apply revolved_fan_RH _ _ 22 o k N x0 y0 _ _ cs sn hk hN hNk hsn hy hpos hr (by rw [List.length_map, hlen])
    (by decide) oval_quadsBelow
  · intro p hp'
    obtain ⟨p0, hp0, rfl⟩ := List.mem_map.mp hp'
    simp only [scaleL, hz p0 hp0, mul_zero]
  · intro p hp'
    obtain ⟨p0, hp0, rfl⟩ := List.mem_map.mp hp'
    exact scaled_unit _ hB p0 (hbound p0 hp0)
  · intro q hq
    exact convexCCW_scale _ (div_pos one_pos hB) _ q (oval_convex h kk dg (wd / radius) hk0 hk1 hh he1 he2 ht q hq)

end CBV.C11
