/-
C14 — renumbering the corners of a hexahedral cell by a permutation that maps every side of the
(generated) side table onto a cyclic shift of a side and the edge table onto itself: the signature
lists are permuted.  The condition on the permutation is a computable check (`renumOk`), decided on the
generated tables for each of the 24 rotations in `Props/C14`.
-/
import CBV.Lemmas.C14Sig

namespace CBV.C14
open CBV

/-- `σ[i]` -/
def ap (σ : List Nat) (i : Nat) : Nat := σ.getD i 0

def normPair (e : Nat × Nat) : Nat × Nat := (min e.1 e.2, max e.1 e.2)

/-- the number of left shifts that turns `s` into `s'` -/
def findRot (s s' : List Nat) : Option Nat := (List.range 4).find? (fun r => rollN r s == s')

/-- side `i` of the renumbered cell is side `j` of the original one, shifted `r` times -/
def sideMatch (sides : List (List Nat)) (σ : List Nat) (i : Nat) : Option (Nat × Nat) :=
  (List.range sides.length).findSome? (fun j =>
    (findRot (sides.getD j []) ((sides.getD i []).map (ap σ))).map (fun r => (j, r)))

/-- which original side the side `i` of the renumbered cell is -/
def sidePerm (sides : List (List Nat)) (σ : List Nat) (i : Nat) : Nat :=
  ((sideMatch sides σ i).map (·.1)).getD 0

/-- `σ` renumbers the `n` corners such that sides go to shifted sides (bijectively) and edges to edges -/
def renumOk (sides : List (List Nat)) (pairs : List (Nat × Nat)) (n : Nat) (σ : List Nat) : Bool :=
  σ.isPerm (List.range n) &&
  (List.range sides.length).all (fun i => (sideMatch sides σ i).isSome) &&
  ((List.range sides.length).map (sidePerm sides σ)).isPerm (List.range sides.length) &&
  (pairs.map (fun e => normPair (ap σ e.1, ap σ e.2))).isPerm (pairs.map normPair)

theorem range_map_pt (pts : List V3) : (List.range pts.length).map (pt pts) = pts := by
  apply List.ext_getElem (by simp)
  intro i h1 h2
  simp [pt, List.getD_eq_getElem?_getD, h2]

theorem pt_map_ap (g : Nat → V3) (σ : List Nat) (k : Nat) (h : k < σ.length) : pt (σ.map g) k = g (ap σ k) := by
  simp [pt, ap, List.getD_eq_getElem?_getD, h]

theorem sideMatch_spec (sides : List (List Nat)) (σ : List Nat) (i j r : Nat)
    (h : sideMatch sides σ i = some (j, r)) :
    j < sides.length ∧ rollN r (sides.getD j []) = (sides.getD i []).map (ap σ) := by
  unfold sideMatch at h
  obtain ⟨j', hj', hf⟩ := List.exists_of_findSome?_eq_some h
  cases hr : findRot (sides.getD j' []) ((sides.getD i []).map (ap σ)) with
  | none => rw [hr] at hf; simp at hf
  | some r' =>
    rw [hr] at hf
    simp only [Option.map_some, Option.some.injEq, Prod.mk.injEq] at hf
    obtain ⟨rfl, rfl⟩ := hf
    unfold findRot at hr
    have := List.find?_some hr
    exact ⟨List.mem_range.mp hj', by simpa using this⟩

theorem norm2_sub_comm (u v : V3) : V3.norm2 (u - v) = V3.norm2 (v - u) := by
  simp only [V3.norm2, V3.dot, V3.sub_x, V3.sub_y, V3.sub_z]; ring

/-- squared length of the segment between two corners, as a function of the unordered pair -/
def len2 (pts : List V3) (e : Nat × Nat) : Rat := V3.norm2 (pt pts e.2 - pt pts e.1)

theorem len2_normPair (pts : List V3) (e : Nat × Nat) : len2 pts (normPair e) = len2 pts e := by
  unfold len2 normPair
  by_cases h : e.1 ≤ e.2
  · simp [Nat.min_eq_left h, Nat.max_eq_right h]
  · have h' : e.2 ≤ e.1 := by omega
    simp only [Nat.min_eq_right h', Nat.max_eq_left h']
    exact norm2_sub_comm _ _

theorem sigHexWith_renumber (sides : List (List Nat)) (pairs : List (Nat × Nat)) (n : Nat) (σ : List Nat)
    (pts : List V3) (hlen : pts.length = n) (nb : Nat → Option V3)
    (hT : TablesOk sides pairs 4 n) (hok : renumOk sides pairs n σ = true) :
    let s' := sigHexWith sides pairs (σ.map (pt pts)) (fun i => nb (sidePerm sides σ i))
    let s := sigHexWith sides pairs pts nb
    s'.tris.Perm s.tris ∧ s'.corners.Perm s.corners ∧ s'.edges.Perm s.edges := by
  unfold renumOk at hok
  simp only [Bool.and_eq_true, List.isPerm_iff, List.all_eq_true] at hok
  obtain ⟨⟨⟨hσ, hmatch⟩, hπ⟩, hE⟩ := hok
  have hσlen : σ.length = n := by rw [hσ.length_eq]; simp
  -- the centre does not change
  have hperm : (σ.map (pt pts)).Perm pts := by
    have := hσ.map (pt pts)
    rw [← hlen] at this
    rwa [range_map_pt] at this
  have hc : avg (σ.map (pt pts)) = avg pts := avg_perm hperm
  -- one side
  have hside : ∀ i ∈ List.range sides.length,
      let F' := hexSide ((sides.getD i []).map (pt (σ.map (pt pts)))) (avg (σ.map (pt pts)))
        (nb (sidePerm sides σ i))
      let F := hexSide ((sides.getD (sidePerm sides σ i) []).map (pt pts)) (avg pts) (nb (sidePerm sides σ i))
      F'.1.Perm F.1 ∧ F'.2.Perm F.2 := by
    intro i hi
    have hsome := hmatch i hi
    cases hm : sideMatch sides σ i with
    | none => rw [hm] at hsome; simp at hsome
    | some jr =>
      obtain ⟨j, r⟩ := jr
      have hj : sidePerm sides σ i = j := by simp [sidePerm, hm]
      obtain ⟨hjlt, hroll⟩ := sideMatch_spec sides σ i j r hm
      have hmi := getD_mem_of_lt sides [] i (List.mem_range.mp hi)
      have hmj := getD_mem_of_lt sides [] j hjlt
      have hpts : (sides.getD i []).map (pt (σ.map (pt pts))) = rollN r ((sides.getD j []).map (pt pts)) := by
        rw [rollN_map, hroll, List.map_map]
        apply List.map_congr_left
        intro k hk
        exact pt_map_ap _ _ _ (by rw [hσlen]; exact (hT.1 _ hmi).2 k hk)
      intro F' F
      simp only [F', F, hj, hpts, hc]
      exact hexSide_rollN r _ (by rw [List.length_map]; exact (hT.1 _ hmj).1) _ _
  -- all sides
  have hflat : ∀ (sel : List Tri × List Tri → List Tri)
      (hsel : ∀ i ∈ List.range sides.length,
        (sel (hexSide ((sides.getD i []).map (pt (σ.map (pt pts)))) (avg (σ.map (pt pts)))
          (nb (sidePerm sides σ i)))).Perm
        (sel (hexSide ((sides.getD (sidePerm sides σ i) []).map (pt pts)) (avg pts) (nb (sidePerm sides σ i))))),
      (((List.range sides.length).map (fun i => hexSide ((sides.getD i []).map (pt (σ.map (pt pts))))
          (avg (σ.map (pt pts))) (nb (sidePerm sides σ i)))).flatMap sel).Perm
      (((List.range sides.length).map (fun i => hexSide ((sides.getD i []).map (pt pts)) (avg pts) (nb i))).flatMap sel) := by
    intro sel hsel
    rw [List.flatMap_map, List.flatMap_map]
    refine (List.Perm.flatMap_left _ hsel).trans ?_
    have := List.Perm.flatMap_right
      (fun j => sel (hexSide ((sides.getD j []).map (pt pts)) (avg pts) (nb j))) hπ
    rwa [List.flatMap_map] at this
  intro s' s
  refine ⟨?_, ?_, ?_⟩
  · exact hflat (·.1) (fun i hi => (hside i hi).1)
  · exact hflat (·.2) (fun i hi => (hside i hi).2)
  · -- edges
    simp only [s', s, sigHexWith, edgeLens]
    have h1 : pairs.map (fun e => V3.norm2 (pt (σ.map (pt pts)) e.2 - pt (σ.map (pt pts)) e.1)) =
        (pairs.map (fun e => normPair (ap σ e.1, ap σ e.2))).map (len2 pts) := by
      rw [List.map_map]
      apply List.map_congr_left
      intro e he
      simp only [Function.comp, len2_normPair]
      rw [pt_map_ap _ _ _ (by rw [hσlen]; exact (hT.2 e he).2), pt_map_ap _ _ _ (by rw [hσlen]; exact (hT.2 e he).1)]
      rfl
    have h2 : pairs.map (fun e => V3.norm2 (pt pts e.2 - pt pts e.1)) = (pairs.map normPair).map (len2 pts) := by
      rw [List.map_map]
      apply List.map_congr_left
      intro e _
      simp only [Function.comp, len2_normPair]; rfl
    rw [h1, h2]
    exact hE.map _

end CBV.C14
