/-
C15 — helper lemmas about the sweep of `SmootherBase.smooth` (a left fold over the inner junctions).
-/
import CBV.Model.C15
import Mathlib.Tactic.Ring
import Mathlib.Tactic.Linarith
import Mathlib.Tactic.FieldSimp
import Mathlib.Algebra.Order.Field.Rat

namespace CBV.C15
open CBV

/-- one update of the inner loop -/
def step (nbrs : Nat → List Nat) (fixed : List Nat) (p : List V3) (j : Nat) : List V3 :=
  if fixed.contains j then p else p.set j (avg ((nbrs j).map (pget p)))

theorem sweep_eq_foldl (inner : List Nat) (nbrs : Nat → List Nat) (fixed : List Nat) (p : List V3) :
    sweep inner nbrs fixed p = inner.foldl (step nbrs fixed) p := rfl

@[simp] theorem sweep_nil (nbrs : Nat → List Nat) (fixed : List Nat) (p : List V3) :
    sweep [] nbrs fixed p = p := rfl

@[simp] theorem sweep_cons (j : Nat) (js : List Nat) (nbrs : Nat → List Nat) (fixed : List Nat) (p : List V3) :
    sweep (j :: js) nbrs fixed p = sweep js nbrs fixed (step nbrs fixed p j) := rfl

theorem sweep_append (xs ys : List Nat) (nbrs : Nat → List Nat) (fixed : List Nat) (p : List V3) :
    sweep (xs ++ ys) nbrs fixed p = sweep ys nbrs fixed (sweep xs nbrs fixed p) := by
  simp [sweep_eq_foldl, List.foldl_append]

@[simp] theorem step_length (nbrs : Nat → List Nat) (fixed : List Nat) (p : List V3) (j : Nat) :
    (step nbrs fixed p j).length = p.length := by
  unfold step; split <;> simp

@[simp] theorem sweep_length (inner : List Nat) (nbrs : Nat → List Nat) (fixed : List Nat) (p : List V3) :
    (sweep inner nbrs fixed p).length = p.length := by
  induction inner generalizing p with
  | nil => rfl
  | cons j js ih => simp [ih]

theorem pget_set_ne (p : List V3) (i j : Nat) (v : V3) (h : i ≠ j) : pget (p.set j v) i = pget p i := by
  unfold pget
  simp [List.getD_eq_getElem?_getD, List.getElem?_set_ne (Ne.symm h)]

theorem pget_set_self (p : List V3) (j : Nat) (v : V3) (h : j < p.length) : pget (p.set j v) j = v := by
  unfold pget
  simp [List.getD_eq_getElem?_getD, h]

theorem set_pget_self (p : List V3) (j : Nat) : p.set j (pget p j) = p := by
  unfold pget
  by_cases h : j < p.length
  · apply List.ext_getElem (by simp)
    intro i h1 h2
    by_cases hij : j = i
    · subst hij; simp [List.getD_eq_getElem?_getD, h]
    · simp [List.getElem_set_ne hij]
  · exact List.set_eq_of_length_le (by omega)

theorem pget_step_ne (nbrs : Nat → List Nat) (fixed : List Nat) (p : List V3) (i j : Nat) (h : i ≠ j) :
    pget (step nbrs fixed p j) i = pget p i := by
  unfold step; split
  · rfl
  · exact pget_set_ne _ _ _ _ h

theorem step_fixed (nbrs : Nat → List Nat) (fixed : List Nat) (p : List V3) (j : Nat) (h : j ∈ fixed) :
    step nbrs fixed p j = p := by
  unfold step; simp [h]

/-- a sweep changes only free inner junctions -/
theorem pget_sweep_of_not_free (inner : List Nat) (nbrs : Nat → List Nat) (fixed : List Nat) (p : List V3)
    (i : Nat) (h : i ∉ inner ∨ i ∈ fixed) : pget (sweep inner nbrs fixed p) i = pget p i := by
  induction inner generalizing p with
  | nil => rfl
  | cons j js ih =>
    rw [sweep_cons, ih]
    · by_cases hij : i = j
      · subst hij
        rcases h with h | h
        · simp at h
        · rw [step_fixed _ _ _ _ h]
      · exact pget_step_ne _ _ _ _ _ hij
    · rcases h with h | h
      · left; intro hm; exact h (List.mem_cons_of_mem _ hm)
      · right; exact h

theorem pget_iter (f : List V3 → List V3) (i : Nat) (hf : ∀ p, pget (f p) i = pget p i) (k : Nat) (p : List V3) :
    pget (iter f k p) i = pget p i := by
  induction k generalizing p with
  | zero => rfl
  | succ k ih => simp [iter, ih, hf]

theorem iter_length (f : List V3 → List V3) (hf : ∀ p, (f p).length = p.length) (k : Nat) (p : List V3) :
    (iter f k p).length = p.length := by
  induction k generalizing p with
  | zero => rfl
  | succ k ih => simp [iter, ih, hf]

theorem iter_fix (f : List V3 → List V3) (p : List V3) (h : f p = p) (k : Nat) : iter f k p = p := by
  induction k with
  | zero => rfl
  | succ k ih => simp [iter, h, ih]

theorem mem_inner (g : Grid) (j : Nat) : j ∈ inner g ↔ j < g.n ∧ isBoundary g j = false := by
  unfold inner isBoundary
  simp [List.mem_filter]

theorem inner_nodup (g : Grid) : (inner g).Nodup := by
  unfold inner
  exact List.Pairwise.filter _ List.nodup_range

/-- step at `j` is the identity iff (when `j` is free and inside the list) the point already is the average -/
theorem step_eq_self_iff (nbrs : Nat → List Nat) (fixed : List Nat) (p : List V3) (j : Nat) :
    step nbrs fixed p j = p ↔ (j ∉ fixed → j < p.length → pget p j = avg ((nbrs j).map (pget p))) := by
  unfold step
  by_cases hf : j ∈ fixed
  · simp [hf]
  · simp only [List.contains_iff_mem, hf, if_false, not_false_eq_true, true_implies]
    constructor
    · intro h hl
      have := congrArg (fun q => pget q j) h
      simp only [pget_set_self _ _ _ hl] at this
      exact this.symm
    · intro h
      by_cases hl : j < p.length
      · rw [← h hl]; exact set_pget_self p j
      · exact List.set_eq_of_length_le (by omega)

/-- fixed points of a sweep over a duplicate-free junction list -/
theorem sweep_eq_self_iff (inner : List Nat) (hn : inner.Nodup) (nbrs : Nat → List Nat) (fixed : List Nat)
    (p : List V3) :
    sweep inner nbrs fixed p = p ↔
      ∀ j ∈ inner, j ∉ fixed → j < p.length → pget p j = avg ((nbrs j).map (pget p)) := by
  induction inner with
  | nil => simp
  | cons j js ih =>
    have hj : j ∉ js := (List.nodup_cons.mp hn).1
    have hjs : js.Nodup := (List.nodup_cons.mp hn).2
    rw [sweep_cons]
    constructor
    · intro h
      -- the value at `j` after the whole sweep is the value right after its own update
      have h1 : pget (step nbrs fixed p j) j = pget p j := by
        have := pget_sweep_of_not_free js nbrs fixed (step nbrs fixed p j) j (Or.inl hj)
        rw [h] at this; exact this.symm
      have hstep : step nbrs fixed p j = p := by
        unfold step at h1 ⊢
        by_cases hf : j ∈ fixed
        · simp [hf]
        · simp only [List.contains_iff_mem, hf, if_false] at h1 ⊢
          by_cases hl : j < p.length
          · rw [pget_set_self _ _ _ hl] at h1
            rw [h1]; exact set_pget_self p j
          · exact List.set_eq_of_length_le (by omega)
      rw [hstep] at h
      intro i hi
      rcases List.mem_cons.mp hi with rfl | hi
      · exact (step_eq_self_iff nbrs fixed p i).mp hstep
      · exact (ih hjs).mp h i hi
    · intro h
      have hstep : step nbrs fixed p j = p :=
        (step_eq_self_iff nbrs fixed p j).mpr (h j (List.mem_cons_self))
      rw [hstep]
      exact (ih hjs).mpr (fun i hi => h i (List.mem_cons_of_mem _ hi))

/-! ### sums and averages of affine images -/

theorem vsum_map_affine (l : List Nat) (c : Nat → V3) (o u v w : V3) :
    vsum (l.map (fun n => o + (V3.smul (c n).x u + V3.smul (c n).y v + V3.smul (c n).z w)))
      = V3.smul (l.length : Rat) o +
        (V3.smul (vsum (l.map c)).x u + V3.smul (vsum (l.map c)).y v + V3.smul (vsum (l.map c)).z w) := by
  induction l with
  | nil => apply V3.ext' <;> simp [vsum, V3.zero]
  | cons a l ih =>
    simp only [List.map_cons, vsum, ih, List.length_cons]
    apply V3.ext' <;> simp <;> ring

/-! ### lattice-like grids -/

/-- `coord` assigns lattice coordinates to the junctions such that the neighbours of every free inner
    junction are centrally symmetric about it (their coordinates sum to `count · coord j`).
    Decidable for a concrete grid; true for the structured maps (examples below; the harness has
    the model decide it for every regular case it generates). -/
def LatticeLike (g : Grid) (fixed : List Nat) (coord : Nat → V3) : Prop :=
  ∀ j ∈ inner g, j ∉ fixed →
    junctionNbrs g j ≠ [] ∧
      vsum ((junctionNbrs g j).map coord) = V3.smul ((junctionNbrs g j).length : Rat) (coord j)

theorem latticeLike_of_B (g : Grid) (fixed : List Nat) (coord : Nat → V3) (h : latticeLikeB g fixed coord = true) :
    LatticeLike g fixed coord := by
  intro j hj hf
  unfold latticeLikeB at h
  rw [List.all_eq_true] at h
  have := h j hj
  simp only [Bool.or_eq_true, List.contains_iff_mem, hf, false_or, Bool.and_eq_true, Bool.not_eq_true',
    List.isEmpty_eq_false_iff, beq_iff_eq] at this
  exact this

end CBV.C15
