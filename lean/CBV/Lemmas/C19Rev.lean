/-
C19 (round 6e) — rotations about one axis compose by the addition formulas; the k-th iterate of a tier's rotation.
-/
import CBV.Model.C19Rev
import CBV.Lemmas.C19Geo
import Mathlib.Tactic.LinearCombination

namespace CBV.C19
open CBV.C11 (P3 rotAbout)
open CBV.C11.P3

variable {K : Type} [Field K]

/-- two turns about the same unit axis through the same origin are one turn by the sum of the angles -/
theorem rotAbout_comp (c1 s1 c2 s2 : K) (u o p : P3 K) (hu : nsq u = 1) :
    rotAbout c2 s2 u o (rotAbout c1 s1 u o p) = rotAbout (c1 * c2 - s1 * s2) (s1 * c2 + c1 * s2) u o p := by
  have hu' : u.x * u.x + u.y * u.y + u.z * u.z = 1 := hu
  simp only [rotAbout, add, sub, smul, cross, dot, P3.mk.injEq]
  refine ⟨?_, ?_, ?_⟩
  · linear_combination (-(s1 * s2) * (p.x - o.x) + (1 - c1) * (1 - c2) *
      (u.x * (p.x - o.x) + u.y * (p.y - o.y) + u.z * (p.z - o.z)) * u.x) * hu'
  · linear_combination (-(s1 * s2) * (p.y - o.y) + (1 - c1) * (1 - c2) *
      (u.x * (p.x - o.x) + u.y * (p.y - o.y) + u.z * (p.z - o.z)) * u.y) * hu'
  · linear_combination (-(s1 * s2) * (p.z - o.z) + (1 - c1) * (1 - c2) *
      (u.x * (p.x - o.x) + u.y * (p.y - o.y) + u.z * (p.z - o.z)) * u.z) * hu'

theorem rotAbout_id (u o p : P3 K) : rotAbout 1 0 u o p = p := by
  cases p; cases o
  simp only [rotAbout, add, sub, smul, cross, dot, P3.mk.injEq]
  refine ⟨?_, ?_, ?_⟩ <;> ring

/-- the height along the axis is kept -/
theorem rotAbout_height (cs sn : K) (u o p : P3 K) (hu : nsq u = 1) :
    dot u (sub (rotAbout cs sn u o p) o) = dot u (sub p o) := by
  have hu' : u.x * u.x + u.y * u.y + u.z * u.z = 1 := hu
  simp only [rotAbout, add, sub, smul, cross, dot]
  linear_combination ((1 - cs) * (u.x * (p.x - o.x) + u.y * (p.y - o.y) + u.z * (p.z - o.z))) * hu'

/-- the distance from the origin of the rotation is kept (`cs² + sn² = 1`) -/
theorem rotAbout_dist (cs sn : K) (u o p : P3 K) (hu : nsq u = 1) (hcs : cs * cs + sn * sn = 1) :
    nsq (sub (rotAbout cs sn u o p) o) = nsq (sub p o) := by
  have hu' : u.x * u.x + u.y * u.y + u.z * u.z = 1 := hu
  simp only [rotAbout, add, sub, smul, cross, dot, nsq]
  linear_combination (sn * sn * ((p.x - o.x) * (p.x - o.x) + (p.y - o.y) * (p.y - o.y) + (p.z - o.z) * (p.z - o.z)) +
      (1 - cs) * (1 - cs) * (u.x * (p.x - o.x) + u.y * (p.y - o.y) + u.z * (p.z - o.z)) *
        (u.x * (p.x - o.x) + u.y * (p.y - o.y) + u.z * (p.z - o.z))) * hu' +
    (((p.x - o.x) * (p.x - o.x) + (p.y - o.y) * (p.y - o.y) + (p.z - o.z) * (p.z - o.z)) -
      (u.x * (p.x - o.x) + u.y * (p.y - o.y) + u.z * (p.z - o.z)) *
        (u.x * (p.x - o.x) + u.y * (p.y - o.y) + u.z * (p.z - o.z))) * hcs

/-- the witnesses of k steps are again a (cos, sin) pair -/
theorem stepAngle_unit (cs sn : K) (hcs : cs * cs + sn * sn = 1) (k : Nat) :
    (stepAngle cs sn k).1 * (stepAngle cs sn k).1 + (stepAngle cs sn k).2 * (stepAngle cs sn k).2 = 1 := by
  induction k with
  | zero => simp [stepAngle]
  | succ k ih =>
    simp only [stepAngle]
    linear_combination (cs * cs + sn * sn) * ih + hcs

/-- k turns of a face by one step = one turn by the k-step angle -/
theorem iterate_rotateFace (cs sn : K) (u o : P3 K) (hu : nsq u = 1) (k : Nat) (pts : List (P3 K)) :
    (rotateFace cs sn u o)^[k] pts = pts.map (rotAbout (stepAngle cs sn k).1 (stepAngle cs sn k).2 u o) := by
  induction k with
  | zero =>
    simp only [Function.iterate_zero, id_eq, stepAngle]
    conv => lhs; rw [← List.map_id pts]
    apply List.map_congr_left
    intro p _
    simp [rotAbout_id]
  | succ k ih =>
    rw [Function.iterate_succ_apply', ih, rotateFace, List.map_map]
    apply List.map_congr_left
    intro p _
    simp only [Function.comp_apply, stepAngle]
    exact rotAbout_comp _ _ cs sn u o p hu

end CBV.C19
