/-
C01 — the statements on M-PROP that C01, C02 and C04 build on (round 6b: moved here from `Props/C01.lean`, which restates
them as the `T_C01_*` theorems, so that `Props/C02.lean` and `Props/C04.lean` do not depend on C01's property module
and its tie to the source text).  All statements hold for every input, every schedule and every expansion oracle.
-/
import CBV.Model.C01
import CBV.Lemmas.C01Own
import CBV.Lemmas.C01Sched

namespace CBV.Prop

/-- success of `run` means: the schedule was complete and the final consistency check passed on the
    state that is written -/
theorem C01_checked (inp : Inp) (st : St) (h : run inp = .ok st) :
    coincComplete inp = true ∧ checkAll inp st = true := by
  unfold run at h
  split at h
  · cases h
  · rename_i hc
    split at h
    · cases h
    · split at h
      · rename_i hk
        cases h
        have hc' : (coincComplete inp && nbrsValid inp) = true := by simpa using hc
        rw [Bool.and_eq_true] at hc'
        exact ⟨hc'.1, hk⟩
      · cases h

theorem axisConsistent_of_checkAll {inp : Inp} {st : St} (h : checkAll inp st = true) {x : Nat}
    (hx : x < 3 * inp.nBlocks) : axisConsistent inp st x = true := by
  unfold checkAll at h
  rw [List.all_eq_true] at h
  exact h x (List.mem_range.mpr hx)

/-- the four parallel edges of a block direction carry the same count -/
theorem C01_block_axis (inp : Inp) (st : St) (h : run inp = .ok st) (x : Nat) (hx : x < 3 * inp.nBlocks) :
    ∀ w ∈ axisWires x, count (specOf st w) = count (specOf st (4 * x)) := by
  have hc := axisConsistent_of_checkAll (C01_checked inp st h).2 hx
  unfold axisConsistent at hc
  rw [Bool.and_eq_true] at hc
  have h1 := hc.1
  unfold countsEqual at h1
  rw [List.all_eq_true] at h1
  intro w hw
  simpa using h1 w hw

/-- two wires of the same block direction carry the same count -/
theorem same_axis_count (inp : Inp) (st : St) (h : run inp = .ok st) (w w' : Nat)
    (hw : w < 12 * inp.nBlocks) (hax : w / 4 = w' / 4) :
    count (specOf st w) = count (specOf st w') := by
  have hx : w / 4 < 3 * inp.nBlocks := by omega
  have m1 : w ∈ axisWires (w / 4) := by
    unfold axisWires; simp only [List.mem_cons, List.not_mem_nil, or_false]; omega
  have m2 : w' ∈ axisWires (w / 4) := by
    unfold axisWires; simp only [List.mem_cons, List.not_mem_nil, or_false]; omega
  rw [C01_block_axis inp st h _ hx w m1, C01_block_axis inp st h _ hx w' m2]

/-- an edge shared by two blocks (same vertex pair, either direction) carries the same count in both -/
theorem C01_shared (inp : Inp) (st : St) (h : run inp = .ok st) (w w' : Nat)
    (hw : w < 12 * inp.nBlocks) (hw' : w' < 12 * inp.nBlocks) (hb : w / 12 ≠ w' / 12)
    (hp : samePair inp w w' = true) :
    count (specOf st w) = count (specOf st w') := by
  obtain ⟨hcc, hck⟩ := C01_checked inp st h
  -- the schedule lists w' among the coincidents of w
  have hmem : (inp.coinc w).contains w' = true := by
    unfold coincComplete at hcc
    rw [List.all_eq_true] at hcc
    have h1 := hcc w (List.mem_range.mpr hw)
    rw [List.all_eq_true] at h1
    have h2 := h1 w' (List.mem_range.mpr hw')
    have hne : (w / 12 != w' / 12) = true := by simpa using hb
    simpa [hne, hp] using h2
  have hx : w / 4 < 3 * inp.nBlocks := by omega
  have hc := axisConsistent_of_checkAll hck hx
  unfold axisConsistent at hc
  rw [Bool.and_eq_true] at hc
  have h2 := hc.2
  rw [List.all_eq_true] at h2
  have m1 : w ∈ axisWires (w / 4) := by
    unfold axisWires; simp only [List.mem_cons, List.not_mem_nil, or_false]; omega
  have h3 := h2 w m1
  unfold wireConsistent at h3
  rw [List.all_eq_true] at h3
  have h4 := h3 w' (by simpa using hmem)
  rw [Bool.and_eq_true] at h4
  simpa using h4.1

/-- the family relation on wires: parallel edges of one block direction, and edges shared between blocks,
    joined transitively -/
inductive Fam (inp : Inp) : Nat → Nat → Prop
  | refl (w) : w < 12 * inp.nBlocks → Fam inp w w
  | axis {w w' w''} : Fam inp w w' → w'' < 12 * inp.nBlocks → w' / 4 = w'' / 4 → Fam inp w w''
  | shared {w w' w''} : Fam inp w w' → w'' < 12 * inp.nBlocks → w' / 12 ≠ w'' / 12 →
      samePair inp w' w'' = true → Fam inp w w''

theorem Fam.lt {inp : Inp} {w w' : Nat} (h : Fam inp w w') : w' < 12 * inp.nBlocks := by
  cases h <;> assumption

/-- every edge of a family carries the same count -/
theorem C01_family (inp : Inp) (st : St) (h : run inp = .ok st) (w w' : Nat) (hf : Fam inp w w') :
    count (specOf st w) = count (specOf st w') := by
  induction hf with
  | refl _ => rfl
  | axis hf hlt hax ih => rw [ih]; exact same_axis_count inp st h _ _ hf.lt hax
  | shared hf hlt hb hp ih => rw [ih]; exact C01_shared inp st h _ _ hf.lt hlt hb hp

/-- consequently a mesh in which two edges of one family would carry different counts is never written:
    whatever state the propagation reaches, `run` does not return it -/
theorem C01_conflict (inp : Inp) (w w' : Nat) (hf : Fam inp w w') :
    ∀ st, count (specOf st w) ≠ count (specOf st w') → run inp ≠ .ok st := by
  intro st hne h
  exact hne (C01_family inp st h w w' hf)

/-- the count written in the `hex` entry of an un-chopped block direction is the count of its edges -/
theorem C01_written_unchopped (inp : Inp) (st : St) (h : run inp = .ok st) (x : Nat)
    (hx : x < 3 * inp.nBlocks) (hu : userChopped inp x = false) :
    ∀ w ∈ axisWires x, count (specOf st w) = writtenCount inp st x := by
  intro w hw
  unfold writtenCount
  simp only [hu, Bool.false_eq_true, if_false]
  exact C01_block_axis inp st h x hx w hw

/-- total count the user's chops put on an axis -/
def chopTotal (inp : Inp) (x : Nat) : Nat := ((inp.chops x).map (·.count)).sum

/-- the count written in the `hex` entry is the count of each of the four edges, also for a chopped direction -/
theorem C01_written (inp : Inp) (st : St) (h : run inp = .ok st) (x : Nat) (hx : x < 3 * inp.nBlocks) :
    ∀ w ∈ axisWires x, count (specOf st w) = writtenCount inp st x := by
  by_cases hu : userChopped inp x = true
  · intro w hw
    have hw4 : w / 4 = x := by
      unfold axisWires at hw; simp only [List.mem_cons, List.not_mem_nil, or_false] at hw; omega
    unfold writtenCount
    simp only [hu, if_true]
    rw [run_inv inp st h x hx hu w hw4, count_map_secOn]
  · exact C01_written_unchopped inp st h x hx (by simpa using hu)

/-- every edge of a family that contains a chopped block direction carries that chop's total count -/
theorem C01_family_count (inp : Inp) (st : St) (h : run inp = .ok st) (x : Nat) (hx : x < 3 * inp.nBlocks)
    (hu : userChopped inp x = true) (w : Nat) (hf : Fam inp (4 * x) w) :
    count (specOf st w) = chopTotal inp x := by
  rw [← C01_family inp st h _ _ hf, run_inv inp st h x hx hu (4 * x) (by omega), count_map_secOn]
  rfl

/-- conflicting chops: two chopped block directions of one family with different totals are never written
    (the run ends with an error, for every schedule and every expansion oracle) -/
theorem C01_conflict_chops (inp : Inp) (x y : Nat) (hx : x < 3 * inp.nBlocks) (hy : y < 3 * inp.nBlocks)
    (hux : userChopped inp x = true) (huy : userChopped inp y = true) (hf : Fam inp (4 * x) (4 * y))
    (hne : chopTotal inp x ≠ chopTotal inp y) : ∀ st, run inp ≠ .ok st := by
  intro st h
  apply hne
  rw [← C01_family_count inp st h x hx hux (4 * y) hf,
    ← C01_family_count inp st h y hy huy (4 * y) (.refl _ (by omega))]

/-! ### the schedule is a function of the vertex indexes -/

/-- the schedule the code builds from the vertex indexes is complete and valid: `run` never answers `badSchedule` on it -/
theorem C01_built_schedule_ok (inp : Inp) :
    (coincComplete (withBuiltSchedule inp) && nbrsValid (withBuiltSchedule inp)) = true := by
  rw [Bool.and_eq_true]
  constructor
  · unfold coincComplete
    simp only [List.all_eq_true, List.mem_range]
    intro w hw w' hw'
    have hs : samePair (withBuiltSchedule inp) w w' = samePair inp w w' := rfl
    have hc : (withBuiltSchedule inp).coinc w = builtCoinc inp w := rfl
    have hn : (withBuiltSchedule inp).nBlocks = inp.nBlocks := rfl
    rw [hs, hc]
    rw [hn] at hw'
    by_cases hcond : (w / 12 != w' / 12 && samePair inp w w') = true
    · simp only [hcond, if_true, List.contains_iff_mem]
      rw [mem_builtCoinc]
      simp only [Bool.and_eq_true, bne_iff_ne] at hcond
      exact ⟨by omega, fun e => hcond.1 e.symm, hcond.2⟩
    · simp only [hcond, if_false, Bool.false_eq_true, Bool.not_eq_true', ← Bool.not_eq_true, List.contains_iff_mem]
      rw [mem_builtCoinc]
      rintro ⟨_, h2, h3⟩
      apply hcond
      simp only [Bool.and_eq_true, bne_iff_ne]
      exact ⟨fun e => h2 e.symm, h3⟩
  · unfold nbrsValid
    simp only [List.all_eq_true, List.mem_range, Bool.and_eq_true, decide_eq_true_eq]
    intro x _ nb hnb
    have hb : (withBuiltSchedule inp).nbrs x = builtNbrs inp x := rfl
    have ha : axisAligned (withBuiltSchedule inp) nb x = axisAligned inp nb x := rfl
    have hn : (withBuiltSchedule inp).nBlocks = inp.nBlocks := rfl
    rw [hb, mem_builtNbrs] at hnb
    rw [ha, hn]
    exact ⟨by omega, hnb.2.2⟩

end CBV.Prop

namespace CBV.Prop.Examples
open CBV.Prop

/-- two boxes sharing the face x = 1; block 0 chopped in all three directions, block 1 only along x -/
def twoBoxes (n0 n1 : Nat) : Inp where
  nBlocks := 2
  verts := [[0, 1, 2, 3, 4, 5, 6, 7], [1, 8, 9, 2, 5, 10, 11, 6]]
  chops := fun x =>
    if x = 0 then [⟨0, 1, 4, false⟩] else if x = 1 then [⟨1, 1, n0, false⟩] else if x = 2 then [⟨2, 1, 3, false⟩]
    else if x = 3 then [⟨3, 1, 2, false⟩] else if x = 4 ∧ n1 ≠ 0 then [⟨4, 1, n1, false⟩] else []
  nbrs := fun x => if x = 1 then [4] else if x = 2 then [5] else if x = 4 then [1] else if x = 5 then [2] else []
  coinc := fun w =>
    -- block 0 wires 1-2 (5), 5-6 (6), 1-5 (9), 2-6 (10)  ↔  block 1 wires 0-3 (16), 4-7 (19), 0-4 (20), 3-7 (23)
    if w = 5 then [16] else if w = 6 then [19] else if w = 9 then [20] else if w = 10 then [23]
    else if w = 16 then [5] else if w = 19 then [6] else if w = 20 then [9] else if w = 23 then [10] else []
  ev := fun _ _ _ => 1

end CBV.Prop.Examples
