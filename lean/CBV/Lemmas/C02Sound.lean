import CBV.Model.C02
namespace CBV.Prop0

/-! ### monotonicity -/
theorem axisCopy_mono (inp : Inp) (d : Def) (a x : Nat) (h : x ∈ d) : x ∈ (axisCopy inp d a).1 := by
  unfold axisCopy; split
  · exact h
  · split
    · exact List.mem_cons_of_mem _ h
    · exact h

theorem axesCopy_mono (inp : Inp) (as : List Nat) : ∀ (d : Def) (x : Nat), x ∈ d → x ∈ (axesCopy inp d as).1 := by
  induction as with
  | nil => intro d x h; exact h
  | cons a as ih => intro d x h; exact ih _ _ (axisCopy_mono inp d a x h)

theorem blockCopy_mono (inp : Inp) (d : Def) (b x : Nat) (h : x ∈ d) : x ∈ (blockCopy inp d b).1 := by
  unfold blockCopy; split
  · exact h
  · exact axesCopy_mono inp _ d x h

theorem pass_mono (inp : Inp) (wl : List Nat) : ∀ (d : Def) (x : Nat), x ∈ d → x ∈ (pass inp d wl).1 := by
  induction wl with
  | nil => intro d x h; exact h
  | cons b rest ih =>
    intro d x h
    unfold pass; split
    · exact h
    · exact ih _ _ (blockCopy_mono inp d b x h)

/-! ### soundness: everything defined is reachable from the initially defined set -/
/-- reachability from a set of sources along `adj` (n ∈ adj a means a can copy from n) -/
inductive Reach (inp : Inp) (src : Def) : Nat → Prop
  | base {a} : a ∈ src → Reach inp src a
  | step {a n} : n ∈ inp.adj a → Reach inp src n → Reach inp src a

def Sound (inp : Inp) (src d : Def) : Prop := ∀ x ∈ d, Reach inp src x

theorem axisCopy_sound (inp : Inp) (src d : Def) (a : Nat) (h : Sound inp src d) :
    Sound inp src (axisCopy inp d a).1 := by
  unfold axisCopy; split
  · exact h
  · split
    · rename_i _ hn
      obtain ⟨n, hn1, hn2⟩ := hn
      intro x hx
      rcases List.mem_cons.mp hx with rfl | hx
      · exact Reach.step hn1 (h n hn2)
      · exact h x hx
    · exact h

theorem axesCopy_sound (inp : Inp) (src : Def) (as : List Nat) :
    ∀ d, Sound inp src d → Sound inp src (axesCopy inp d as).1 := by
  induction as with
  | nil => intro d h; exact h
  | cons a as ih => intro d h; exact ih _ (axisCopy_sound inp src d a h)

theorem blockCopy_sound (inp : Inp) (src d : Def) (b : Nat) (h : Sound inp src d) :
    Sound inp src (blockCopy inp d b).1 := by
  unfold blockCopy; split
  · exact h
  · exact axesCopy_sound inp src _ d h

theorem pass_sound (inp : Inp) (src : Def) (wl : List Nat) :
    ∀ d, Sound inp src d → Sound inp src (pass inp d wl).1 := by
  induction wl with
  | nil => intro d h; exact h
  | cons b rest ih =>
    intro d h; unfold pass; split
    · exact h
    · exact ih _ (blockCopy_sound inp src d b h)

theorem loop_sound (inp : Inp) (src : Def) : ∀ (fuel : Nat) (d : Def) (wl : List Nat),
    Sound inp src d → Sound inp src (loop inp fuel d wl).1 := by
  intro fuel
  induction fuel with
  | zero => intro d wl h; exact h
  | succ f ih =>
    intro d wl h
    unfold loop
    cases wl with
    | nil => exact h
    | cons b rest =>
      simp only
      split
      · exact ih _ _ (pass_sound inp src _ d h)
      · exact pass_sound inp src _ d h

/-! ### a pass that reports no update changes nothing and certifies a stuck state -/
theorem axisCopy_false (inp : Inp) (d : Def) (a : Nat) (h : (axisCopy inp d a).2 = false) :
    (axisCopy inp d a).1 = d ∧ (a ∈ d ∨ ¬ HasDefNbr inp d a) := by
  unfold axisCopy at h ⊢
  by_cases h1 : a ∈ d
  · simp [h1]
  · by_cases h2 : HasDefNbr inp d a
    · simp [h1, h2] at h
    · simp [h1, h2]

theorem axesCopy_false (inp : Inp) (as : List Nat) : ∀ d, (axesCopy inp d as).2 = false →
    (axesCopy inp d as).1 = d ∧ ∀ a ∈ as, (a ∈ d ∨ ¬ HasDefNbr inp d a) := by
  induction as with
  | nil => intro d _; exact ⟨rfl, by simp⟩
  | cons a as ih =>
    intro d h
    unfold axesCopy at h ⊢
    dsimp only at h ⊢
    simp only [Bool.or_eq_false_iff] at h
    obtain ⟨h1, h2⟩ := h
    obtain ⟨e1, c1⟩ := axisCopy_false inp d a h1
    rw [e1] at h2 ⊢
    obtain ⟨e2, c2⟩ := ih d h2
    refine ⟨e2, ?_⟩
    intro x hx
    rcases List.mem_cons.mp hx with rfl | hx
    · exact c1
    · exact c2 x hx

/-- stuck: every axis of every block on the work-list is defined or has no defined neighbour,
    and no block on the work-list is completely defined -/
def Stuck (inp : Inp) (d : Def) (wl : List Nat) : Prop :=
  ∀ b ∈ wl, ¬ BlockDef d b ∧ ∀ a ∈ axesOf b, (a ∈ d ∨ ¬ HasDefNbr inp d a)

theorem pass_false (inp : Inp) (wl : List Nat) : ∀ d, (pass inp d wl).2.2 = false →
    (pass inp d wl).1 = d ∧ (pass inp d wl).2.1 = wl ∧ Stuck inp d wl := by
  induction wl with
  | nil => intro d _; exact ⟨rfl, rfl, by intro b hb; cases hb⟩
  | cons b rest ih =>
    intro d h
    unfold pass at h ⊢
    by_cases hb : BlockDef d b
    · simp [hb] at h
    · simp only [hb, if_false] at h ⊢
      simp only [Bool.or_eq_false_iff] at h
      obtain ⟨h1, h2⟩ := h
      have hbc : (blockCopy inp d b).1 = d ∧ ∀ a ∈ axesOf b, (a ∈ d ∨ ¬ HasDefNbr inp d a) := by
        unfold blockCopy at h1 ⊢
        simp only [hb, if_false] at h1 ⊢
        exact axesCopy_false inp _ d h1
      rw [hbc.1] at h2 ⊢
      obtain ⟨e1, e2, st⟩ := ih d h2
      refine ⟨e1, by rw [e2], ?_⟩
      intro x hx
      rcases List.mem_cons.mp hx with rfl | hx
      · exact ⟨hb, hbc.2⟩
      · exact st x hx

end CBV.Prop0
