/-
C14 — renumbering a quadrilateral cell by a cyclic shift of its corners.  `QuadCell.normal` is taken
at corner 0; for a planar convex quadrilateral the normals at all corners are positive multiples of
one another, so the scale-free signature is only rotated.
-/
import CBV.Lemmas.C14Box
import CBV.Gen.TC14

namespace CBV.C14
open CBV

theorem cross_smul_left (j : Rat) (x y : V3) : V3.cross (V3.smul j x) y = V3.smul j (V3.cross x y) := by
  apply V3.ext' <;> simp only [V3.cross, V3.smul] <;> ring

theorem smul_one (x : V3) : V3.smul 1 x = x := by
  apply V3.ext' <;> simp

/-- positive multiples of the first vector give the same scale-free triple -/
theorem norm_mkTri_smul_same_sign (j k : Rat) (x d : V3) (h : 0 < j * k) :
    (mkTri (V3.smul j x) d).norm = (mkTri (V3.smul k x) d).norm := by
  have hk : k ≠ 0 := by rintro rfl; simp at h
  have hjk : 0 < j / k := by
    have : j / k = (j * k) / (k * k) := by field_simp
    rw [this]; exact div_pos h (mul_self_pos.mpr hk)
  have e : V3.smul j x = V3.smul (j / k) (V3.smul k x) := by
    rw [smul_smul]; congr 1; field_simp
  have := norm_mkTri_smul (j / k) 1 (V3.smul k x) d (by simpa using hjk)
  rw [smul_one] at this
  rw [e, this]

theorem maxL_roll4 (a b c d : Rat) : maxL [b, c, d, a] = maxL [a, b, c, d] := by
  simp only [maxL, List.foldl, max_assoc, max_comm, max_left_comm]

theorem minL_roll4 (a b c d : Rat) : minL [b, c, d, a] = minL [a, b, c, d] := by
  simp only [minL, List.foldl, min_assoc, min_comm, min_left_comm]

/-- shifting the corner list of a quad cell by one (new corner `k` = old corner `k+1`; neighbours follow
    their sides), when the corner normals at 0 and 1 are same-sign multiples of one vector -/
theorem sigQuad_roll (P0 P1 P2 P3 W : V3) (D0 D1 : Rat)
    (h0 : V3.cross (P1 - P0) (P3 - P0) = V3.smul D0 W) (h1 : V3.cross (P2 - P1) (P0 - P1) = V3.smul D1 W)
    (hpos : 0 < D1 * D0) (nb : Nat → Option V3) :
    (sigQuad [P1, P2, P3, P0] (fun i => nb ((i + 1) % 4))).norm.tris = rollL (sigQuad [P0, P1, P2, P3] nb).norm.tris ∧
    (sigQuad [P1, P2, P3, P0] (fun i => nb ((i + 1) % 4))).norm.corners = rollL (sigQuad [P0, P1, P2, P3] nb).norm.corners ∧
    (sigQuad [P1, P2, P3, P0] (fun i => nb ((i + 1) % 4))).norm.aspect2 = (sigQuad [P0, P1, P2, P3] nb).norm.aspect2 := by
  have hc : avg [P1, P2, P3, P0] = avg [P0, P1, P2, P3] :=
    avg_perm (List.perm_append_comm (l₁ := [P0]) (l₂ := [P1, P2, P3])).symm
  have key : ∀ sv d : V3, (mkTri (V3.cross (V3.smul D1 W) sv) d).norm = (mkTri (V3.cross (V3.smul D0 W) sv) d).norm := by
    intro sv d
    rw [cross_smul_left, cross_smul_left]
    exact norm_mkTri_smul_same_sign D1 D0 _ d hpos
  unfold sigQuad sigQuadWith Sig.norm
  simp only [CBV.Gen.quadSideIdx, CBV.Gen.quadAspectPairs, List.length_cons, List.length_nil, List.range,
    List.range.loop, List.map, quadSide, List.getD_cons_zero, List.getD_cons_succ, pt, edgeLens, hc,
    Nat.reduceAdd, Nat.reduceMod, h0, h1, rollL, List.cons_append, List.nil_append, List.cons.injEq, and_true,
    key, true_and]
  simp only [norm2_sub_comm P0 P1, norm2_sub_comm P0 P3, maxL, minL, List.foldl, max_assoc, max_comm,
    max_left_comm, min_assoc, min_comm, min_left_comm]

/-- a point of the plane `o + x·u + y·v` -/
def planePt (o u v : V3) (x y : Rat) : V3 := o + (V3.smul x u + V3.smul y v)

/-- the turn at corner `a` from `b` to `c` in plane coordinates (twice the signed triangle area) -/
def turn (xa ya xb yb xc yc : Rat) : Rat := (xb - xa) * (yc - ya) - (yb - ya) * (xc - xa)

theorem planar_cross (o u v : V3) (xa ya xb yb xc yc : Rat) :
    V3.cross (planePt o u v xb yb - planePt o u v xa ya) (planePt o u v xc yc - planePt o u v xa ya) =
      V3.smul (turn xa ya xb yb xc yc) (V3.cross u v) := by
  apply V3.ext' <;> simp [planePt, turn] <;> ring

theorem quality0_of_roll (s' s : Sig) (ht : s'.norm.tris = rollL s.norm.tris)
    (hc : s'.norm.corners = rollL s.norm.corners) (ha : s'.norm.aspect2 = s.norm.aspect2) :
    s'.norm.canon = s.norm.canon ∧ quality0 s' = quality0 s := by
  have h : s'.norm.canon = s.norm.canon :=
    canon0_congr (by rw [ht]; exact rollL_perm _) (by rw [hc]; exact rollL_perm _) ha
  exact ⟨h, by unfold quality0; rw [h]⟩

theorem shift_nb2 (nb : Nat → Option V3) :
    (fun i => (fun i => nb ((i + 1) % 4)) ((i + 1) % 4)) = fun i => nb ((i + 2) % 4) := by
  funext i
  show nb (((i + 1) % 4 + 1) % 4) = nb ((i + 2) % 4)
  rw [show ((i + 1) % 4 + 1) % 4 = (i + 2) % 4 by omega]

theorem shift_nb3 (nb : Nat → Option V3) :
    (fun i => (fun i => nb ((i + 2) % 4)) ((i + 1) % 4)) = fun i => nb ((i + 3) % 4) := by
  funext i
  show nb (((i + 1) % 4 + 2) % 4) = nb ((i + 3) % 4)
  rw [show ((i + 1) % 4 + 2) % 4 = (i + 3) % 4 by omega]

end CBV.C14
