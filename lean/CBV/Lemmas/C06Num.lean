/-
C06 — the `%.8f` rounding: `round8 q` is a nearest integer to `|q| · 10^8`.
-/
import CBV.Model.C06
import Mathlib.Tactic.Linarith
import Mathlib.Tactic.Ring
import Mathlib.Algebra.Order.Field.Rat
import Mathlib.Data.Rat.Cast.Order

namespace CBV.C06

theorem roundHalfEven_spec (x : Rat) (hx : 0 ≤ x) :
    ((roundHalfEven x : Nat) : Rat) - x ≤ 1 / 2 ∧ x - ((roundHalfEven x : Nat) : Rat) ≤ 1 / 2 := by
  have h1 := Rat.floor_le x
  have h2 := Rat.lt_floor_add_one x
  have hf0 : 0 ≤ x.floor := by
    by_contra hneg
    have h3 : x.floor + 1 ≤ 0 := by omega
    have h4 : ((x.floor + 1 : Int) : Rat) ≤ 0 := by exact_mod_cast h3
    linarith
  have hcast : ((x.floor.toNat : Nat) : Rat) = (x.floor : Rat) := by
    have h5 : ((x.floor.toNat : Nat) : Int) = x.floor := Int.toNat_of_nonneg hf0
    exact_mod_cast congrArg (fun z : Int => (z : Rat)) h5
  have h2' : x < (x.floor : Rat) + 1 := by
    have : ((x.floor + 1 : Int) : Rat) = (x.floor : Rat) + 1 := by push_cast; ring
    linarith
  unfold roundHalfEven
  simp only
  split_ifs with c1 c2 c3 <;> push_cast <;> rw [hcast] at * <;> constructor <;> linarith

end CBV.C06
