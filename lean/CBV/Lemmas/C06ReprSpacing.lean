/-
C06 — binary64 spacing: the correctly rounded 17-digit decimal of a dyadic number lies in its rounding interval
(`10^16 > 2^53`), so the digit search of `pyRepr` always returns a candidate.
-/
import CBV.Lemmas.C06ReprParse

namespace CBV.C06

theorem absR_eq_div (x : Rat) : absR x = ((x.num.natAbs : Nat) : Rat) / ((x.den : Nat) : Rat) := by
  have hxe : x = (x.num : Rat) / ((x.den : Nat) : Rat) := (Rat.num_div_den x).symm
  unfold absR
  split
  · rename_i hneg
    have : x.num < 0 := Rat.num_neg.mpr hneg
    have hc : ((x.num.natAbs : Nat) : Rat) = -(x.num : Rat) := by
      have h' : (x.num.natAbs : Int) = -x.num := by omega
      rw [← Int.cast_natCast, h', Int.cast_neg]
    rw [hc, neg_div, ← hxe]
  · rename_i hneg
    have : 0 ≤ x.num := Rat.num_nonneg.mpr (not_lt.mp hneg)
    have hc : ((x.num.natAbs : Nat) : Rat) = (x.num : Rat) := by
      have h' : (x.num.natAbs : Int) = x.num := by omega
      rw [← Int.cast_natCast, h']
    rw [hc, ← hxe]

/-- a dyadic `x ≠ 0` is below `2^54` half-ulps -/
theorem lt_halfUlp_mul (x : Rat) (_hx : x ≠ 0) (hd : x.den = 2 ^ Nat.log2 x.den) :
    absR x < halfUlp x * ((2 ^ 54 : Nat) : Rat) := by
  have h1 : x.num.natAbs < 2 ^ (Nat.log2 x.num.natAbs + 1) := Nat.lt_log2_self
  have h1' : ((x.num.natAbs : Nat) : Rat) < ((2 ^ Nat.log2 x.num.natAbs : Nat) : Rat) * 2 := by
    have : x.num.natAbs < 2 ^ Nat.log2 x.num.natAbs * 2 := by rw [← Nat.pow_succ]; exact h1
    exact_mod_cast this
  have hden : (0 : Rat) < ((x.den : Nat) : Rat) := by exact_mod_cast x.den_pos
  rw [absR_eq_div]
  unfold halfUlp
  rw [← hd]
  have h53 : (0 : Rat) < ((2 ^ 53 : Nat) : Rat) := by positivity
  rw [div_mul_eq_mul_div, div_lt_div_iff₀ hden (by positivity)]
  have e54 : ((2 ^ 54 : Nat) : Rat) = ((2 ^ 53 : Nat) : Rat) * 2 := by norm_num
  rw [e54]
  nlinarith [mul_pos hden h53]

/-- at a power of two, `|x|` is exactly `2^53` half-ulps -/
theorem pow2_eq_halfUlp_mul (x : Rat) (hd : x.den = 2 ^ Nat.log2 x.den) (hp : isPow2 x = true) :
    absR x = halfUlp x * ((2 ^ 53 : Nat) : Rat) := by
  have hn : x.num.natAbs = 2 ^ Nat.log2 x.num.natAbs := by simpa [isPow2] using hp
  have hden : ((x.den : Nat) : Rat) ≠ 0 := by exact_mod_cast x.den_pos.ne'
  rw [absR_eq_div]
  unfold halfUlp
  rw [← hd, ← hn]
  have h53 : ((2 ^ 53 : Nat) : Rat) ≠ 0 := by positivity
  field_simp

theorem pow10R_pos (e : Int) : 0 < pow10R e := by rw [pow10R_eq_zpow]; positivity

/-- **the 17-digit candidate is in the rounding interval** -/
theorem candidate17_inRound (ax : Rat) (hpos : 0 < ax) (hd : ax.den = 2 ^ Nat.log2 ax.den) (dp : Int)
    (hdp : pow10R (dp - 1) ≤ ax) :
    inRound ax (((roundHalfEven (ax * pow10R ((17 : Int) - dp)) : Nat) : Rat) * pow10R (-((17 : Int) - dp))) = true := by
  have hx0 : ax ≠ 0 := ne_of_gt hpos
  have habs : absR ax = ax := by unfold absR; simp [not_lt.mpr hpos.le]
  have hs := pow10R_pos ((17 : Int) - dp)
  have hy : 0 ≤ ax * pow10R ((17 : Int) - dp) := (mul_pos hpos hs).le
  obtain ⟨r1, r2⟩ := roundHalfEven_spec _ hy
  have hinv : pow10R ((17 : Int) - dp) * pow10R (-((17 : Int) - dp)) = 1 := by
    rw [pow10R_eq_zpow, pow10R_eq_zpow, ← zpow_add₀ (by norm_num : (10 : Rat) ≠ 0)]; simp
  have ht := pow10R_pos (-((17 : Int) - dp))
  have h16 : pow10R (-((17 : Int) - dp)) * ((10 ^ 16 : Nat) : Rat) = pow10R (dp - 1) := by
    rw [pow10R_eq_zpow, pow10R_eq_zpow]
    have : ((10 ^ 16 : Nat) : Rat) = (10 : Rat) ^ (16 : Int) := by norm_num
    rw [this, ← zpow_add₀ (by norm_num : (10 : Rat) ≠ 0)]
    congr 1; ring
  set m : Rat := ((roundHalfEven (ax * pow10R ((17 : Int) - dp)) : Nat) : Rat) with hm
  set t := pow10R (-((17 : Int) - dp)) with htdef
  set q := m * t with hq
  -- |q − ax| ≤ t / 2
  have hax : ax = (ax * pow10R ((17 : Int) - dp)) * t := by rw [mul_assoc, hinv, mul_one]
  have d1 : q - ax ≤ t / 2 := by rw [hq, hax]; nlinarith
  have d2 : ax - q ≤ t / 2 := by rw [hq, hax]; nlinarith
  -- t · 10^16 ≤ ax
  have ht16 : t * ((10 ^ 16 : Nat) : Rat) ≤ ax := by rw [h16]; exact hdp
  have hF2 := lt_halfUlp_mul ax hx0 hd
  rw [habs] at hF2
  have hh := halfUlp_nonneg ax
  have c16 : ((10 ^ 16 : Nat) : Rat) = 10000000000000000 := by norm_num
  have c54 : ((2 ^ 54 : Nat) : Rat) = 18014398509481984 := by norm_num
  have c53 : ((2 ^ 53 : Nat) : Rat) = 9007199254740992 := by norm_num
  rw [c16] at ht16
  rw [c54] at hF2
  have hm0 : 0 ≤ m := by rw [hm]; exact Nat.cast_nonneg _
  have hq0 : 0 ≤ q := mul_nonneg hm0 ht.le
  have habsq : absR q = q := by unfold absR; simp [not_lt.mpr hq0]
  unfold inRound
  simp only [habs, habsq]
  have hsign : decide ((ax < 0) ↔ (q < 0)) = true := by
    apply decide_eq_true
    constructor
    · intro h; linarith
    · intro h; linarith
  rw [hsign, Bool.true_and]
  split
  · -- q above
    have : q - ax < halfUlp ax := by nlinarith
    simp [this]
  · by_cases hp : isPow2 ax = true
    · have he := pow2_eq_halfUlp_mul ax hd hp
      rw [habs, c53] at he
      have : ax - q < halfUlp ax / 2 := by nlinarith
      simp [hp, this]
    · have : ax - q < halfUlp ax := by nlinarith
      simp [hp, this]

/-- the search returns a candidate as soon as one of the tried digit counts fits -/
theorem shortestFrom_some (x ax : Rat) (dp : Int) : ∀ (f n : Nat),
    (∃ j, n ≤ j ∧ j < n + f ∧
      inRound (absR x) (((roundHalfEven (ax * pow10R ((j : Int) - dp)) : Nat) : Rat) * pow10R (-((j : Int) - dp))) = true) →
    ∃ r, shortestFrom x ax dp f n = some r := by
  intro f
  induction f with
  | zero => intro n ⟨j, h1, h2, _⟩; omega
  | succ f ih =>
    intro n ⟨j, h1, h2, hj⟩
    unfold shortestFrom
    simp only
    split
    · exact ⟨_, rfl⟩
    · rename_i hnot
      by_cases hjn : j = n
      · subst hjn; exact absurd hj hnot
      · exact ih (n + 1) ⟨j, by omega, by omega, hj⟩

/-- the definition of the decimal point position, for `1 ≤ ax`: `10^(dp−1) ≤ ax` -/
theorem decPoint_spec_ge_one (ax : Rat) (h1 : 1 ≤ ax) : pow10R (decPoint ax - 1) ≤ ax := by
  unfold decPoint
  simp only [h1, if_true]
  have hfl : (1 : Int) ≤ ax.floor := Rat.le_floor_iff.mpr (by exact_mod_cast h1)
  set n := ax.floor.toNat with hn
  have hn1 : 1 ≤ n := by omega
  have hlen := Nat.length_toDigits_pos (b := 10) (n := n)
  have hle : 10 ^ ((Nat.toDigits 10 n).length - 1) ≤ n := by
    by_cases hk : (Nat.toDigits 10 n).length - 1 = 0
    · rw [hk]; simpa using hn1
    · by_contra hlt
      have := (Nat.length_toDigits_le_iff (b := 10) (n := n) (k := (Nat.toDigits 10 n).length - 1) (by decide)
        (by omega)).mpr (by omega)
      omega
  have he : (((Nat.toDigits 10 n).length : Nat) : Int) - 1 = (((Nat.toDigits 10 n).length - 1 : Nat) : Int) := by omega
  rw [he, pow10R_nat, pow10_eq]
  have hcast : ((10 ^ ((Nat.toDigits 10 n).length - 1) : Nat) : Rat) ≤ ((n : Nat) : Rat) := by exact_mod_cast hle
  have hnf : ((n : Nat) : Rat) = ((ax.floor : Int) : Rat) := by
    have : ((n : Nat) : Int) = ax.floor := by omega
    rw [← this]; simp
  have := Rat.floor_le ax
  linarith

end CBV.C06
