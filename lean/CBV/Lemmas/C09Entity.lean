/-
C09 — the whole entity tree: transforming the entity in place (heap) and reading its output geometry is the same as
reading the output geometry and transforming it (`mapV`), for every tree without shared leaves.
-/
import CBV.Lemmas.C09Tree
import CBV.Lemmas.C09Center
import CBV.Lemmas.C09Arc

namespace CBV.C09
open CBV

set_option linter.unusedSimpArgs false

/-! ### the tree a method call leaves behind -/

mutual
/-- the tree after a method call (`m`: the call was a mirror): caches invalidated, operations inverted -/
def afterE (m : Bool) : Ent → Ent
  | .pt i => .pt i
  | .dir i => .dir i
  | .arr is => .arr is
  | .node k a ch => .node k (touchAttr k a) (if m && k == .op then invertOp (afterL m ch) else afterL m ch)
def afterL (m : Bool) : List Ent → List Ent
  | [] => []
  | e :: es => afterE m e :: afterL m es
end

mutual
theorem applyE_fst (t : RT) : ∀ (e : Ent) (h : Heap), (applyE t e h).1 = afterE t.isMirror e
  | .pt i, h => by simp [applyE, afterE]
  | .dir i, h => by simp [applyE, afterE]
  | .arr is, h => by simp [applyE, afterE]
  | .node k a ch, h => by
      simp only [applyE, afterE]
      rw [applyL_fst t ch h]
theorem applyL_fst (t : RT) : ∀ (es : List Ent) (h : Heap), (applyL t es h).1 = afterL t.isMirror es
  | [], h => by simp [applyL, afterL]
  | e :: es, h => by
      simp only [applyL, afterL]
      rw [applyE_fst t e h, applyL_fst t es]
end

/-! ### reading values commutes with the structural changes -/

theorem resolveL_eq_map (h : Heap) : ∀ es : List Ent, resolveL h es = es.map (resolveE h)
  | [] => by simp [resolveL]
  | e :: es => by simp [resolveL, resolveL_eq_map h es]

theorem mapVL_eq_map (t : RT) : ∀ es : List VEnt, mapVL t es = es.map (mapV t)
  | [] => by simp [mapVL]
  | e :: es => by simp [mapVL, mapVL_eq_map t es]

theorem resolve_reverseE (h : Heap) (e : Ent) : resolveE h (reverseE e) = reverseV (resolveE h e) := by
  match e with
  | .pt i => simp [reverseE, resolveE, reverseV]
  | .dir i => simp [reverseE, resolveE, reverseV]
  | .arr is => simp [reverseE, resolveE, reverseV]
  | .node k a ch =>
    cases k <;> try (simp [reverseE, resolveE, reverseV]; done)
    -- spline
    match ch with
    | [] => simp [reverseE, resolveE, resolveL, reverseV]
    | _ :: _ :: _ => simp [reverseE, resolveE, resolveL, reverseV]
    | [.pt _] => simp [reverseE, resolveE, resolveL, reverseV]
    | [.dir _] => simp [reverseE, resolveE, resolveL, reverseV]
    | [.arr _] => simp [reverseE, resolveE, resolveL, reverseV]
    | [.node k2 a2 ch2] =>
      cases k2 <;> try (simp [reverseE, resolveE, resolveL, reverseV]; done)
      match ch2 with
      | [] => simp [reverseE, resolveE, resolveL, reverseV]
      | _ :: _ :: _ => simp [reverseE, resolveE, resolveL, reverseV]
      | [.pt _] => simp [reverseE, resolveE, resolveL, reverseV]
      | [.dir _] => simp [reverseE, resolveE, resolveL, reverseV]
      | [.node _ _ _] => simp [reverseE, resolveE, resolveL, reverseV]
      | [.arr is] => simp [reverseE, resolveE, resolveL, reverseV, List.map_reverse]

theorem resolve_invertOp (h : Heap) (ch : List Ent) : resolveL h (invertOp ch) = invertOpV (resolveL h ch) := by
  match ch with
  | [] => simp [invertOp, invertOpV, resolveL]
  | [_] => simp [invertOp, invertOpV, resolveL]
  | b :: t :: sides =>
      simp only [invertOp, invertOpV, resolveL, resolveL_eq_map, List.map_map, List.map_cons]
      congr 2
      apply List.map_congr_left
      intro e _
      exact resolve_reverseE h e

/-! ### transform, then read = read, then transform -/

mutual
/-- if the heap `h'` holds the image of every visited cell of `e`, the tree left behind by the call reads in `h'`
    as the transformed output of `e` in `h` -/
theorem resolve_after (t : RT) (h h' : Heap) : ∀ (e : Ent),
    (∀ v ∈ visitsE e, Heap.get h' v.1 = (if v.2 then t.dir else t.pt) (Heap.get h v.1)) →
    resolveE h' (afterE t.isMirror e) = mapV t (resolveE h e)
  | .pt i, hv => by
      have := hv (i, false) (by simp [visitsE])
      simp only [afterE, resolveE, mapV]
      simpa using this
  | .dir i, hv => by
      have := hv (i, true) (by simp [visitsE])
      simp only [afterE, resolveE, mapV]
      simpa using this
  | .arr is, hv => by
      simp only [afterE, resolveE, mapV, List.map_map, VEnt.arr.injEq]
      apply List.map_congr_left
      intro i hi
      have := hv (i, false) (by simp only [visitsE, List.mem_map]; exact ⟨i, hi, rfl⟩)
      simpa using this
  | .node k a ch, hv => by
      have ih := resolve_afterL t h h' ch (by simpa [visitsE] using hv)
      simp only [afterE, resolveE, mapV]
      by_cases hm : (t.isMirror && k == .op) = true
      · simp only [hm, if_true, resolve_invertOp, ih]
      · simp only [hm, CRule.isCurveOf, Bool.false_eq_true, if_false, Bool.false_eq_true]
        rw [ih]
theorem resolve_afterL (t : RT) (h h' : Heap) : ∀ (es : List Ent),
    (∀ v ∈ visitsL es, Heap.get h' v.1 = (if v.2 then t.dir else t.pt) (Heap.get h v.1)) →
    resolveL h' (afterL t.isMirror es) = mapVL t (resolveL h es)
  | [], _ => by simp [afterL, resolveL, mapVL]
  | e :: es, hv => by
      simp only [afterL, resolveL, mapVL]
      rw [resolve_after t h h' e (fun v hm => hv v (by simp [visitsL, hm])),
        resolve_afterL t h h' es (fun v hm => hv v (by simp [visitsL, hm]))]
end

/-- the heap effect and the tree effect together: transform, then read = read, then transform -/
theorem resolve_applyE (t : RT) (e : Ent) (h : Heap) (hna : ((visitsE e).map Prod.fst).Nodup)
    (hin : ∀ v ∈ visitsE e, v.1 < h.length) :
    resolveE (applyE t e h).2 (applyE t e h).1 = mapV t (resolveE h e) := by
  rw [applyE_fst, applyE_heap]
  apply resolve_after
  intro v hv
  exact runV_once t (visitsE e) h v.1 v.2 hna hv (hin v hv)

theorem resolve_applyL (t : RT) (es : List Ent) (h : Heap) (hna : ((visitsL es).map Prod.fst).Nodup)
    (hin : ∀ v ∈ visitsL es, v.1 < h.length) :
    resolveL (applyL t es h).2 (applyL t es h).1 = mapVL t (resolveL h es) := by
  rw [applyL_fst, applyL_heap]
  apply resolve_afterL
  intro v hv
  exact runV_once t (visitsL es) h v.1 v.2 hna hv (hin v hv)

/-! ### centres on the output geometry follow the map -/

theorem ptOfV_mapV (t : RT) (c : VEnt) : ptOfV (mapV t c) = (ptOfV c).map t.pt := by
  cases c <;> simp [mapV, ptOfV]

theorem kindOfV_mapV (t : RT) (c : VEnt) : kindOfV (mapV t c) = kindOfV c := by
  cases c <;> simp [mapV, kindOfV]

theorem childrenV_mapV (t : RT) (k : Kind) (a : Rat) (ch : List VEnt) (hk : k ≠ .op) :
    childrenV (mapV t (.node k a ch)) = ch.map (mapV t) := by
  have : (k == Kind.op) = false := by simpa using hk
  simp [mapV, childrenV, this, mapVL_eq_map]

theorem filterMap_ptOfV_map (t : RT) (cs : List VEnt) :
    (cs.map (mapV t)).filterMap ptOfV = (cs.filterMap ptOfV).map t.pt := by
  induction cs with
  | nil => rfl
  | cons c cs ih =>
      simp only [List.map_cons, List.filterMap_cons, ptOfV_mapV]
      cases hc : ptOfV c <;> simp [ih]

/-- a face (anything but an operation) carries its corner points along -/
theorem facePtsV_mapV (t : RT) (f : VEnt) (hf : kindOfV f ≠ some .op) :
    facePtsV (mapV t f) = (facePtsV f).map t.pt := by
  cases f with
  | pt v => simp [facePtsV, mapV, childrenV]
  | dir v => simp [facePtsV, mapV, childrenV]
  | arr vs => simp [facePtsV, mapV, childrenV]
  | node k a ch =>
      have hk : k ≠ .op := by intro h; apply hf; simp [kindOfV, h]
      unfold facePtsV
      rw [childrenV_mapV t k a ch hk]
      simp only [childrenV, ← List.map_take, filterMap_ptOfV_map]

theorem faceCenterV_mapV (t : RT) (f : VEnt) (hf : kindOfV f ≠ some .op) (hne : facePtsV f ≠ []) :
    faceCenterV (mapV t f) = t.pt (faceCenterV f) := by
  simp only [faceCenterV, facePtsV_mapV t f hf]
  exact (RT.pt_avg t _ hne).symm

/-- an operation: under a mirror the two faces change places, the average of the eight points does not care -/
theorem opCenterV_mapV (t : RT) (a : Rat) (b tp : VEnt) (sides : List VEnt)
    (hb : kindOfV b ≠ some .op) (htp : kindOfV tp ≠ some .op) (hne : facePtsV b ++ facePtsV tp ≠ []) :
    opCenterV (mapV t (.node .op a (b :: tp :: sides))) = t.pt (opCenterV (.node .op a (b :: tp :: sides))) := by
  have hR : t.pt (opCenterV (.node .op a (b :: tp :: sides))) = avg ((facePtsV b ++ facePtsV tp).map t.pt) := by
    simp only [opCenterV, opPtsV, childrenV]
    exact RT.pt_avg t _ hne
  rw [hR]
  cases hm : t.isMirror
  · simp [opCenterV, opPtsV, mapV, mapVL, childrenV, hm, facePtsV_mapV t b hb, facePtsV_mapV t tp htp]
  · simp only [opCenterV, opPtsV, mapV, mapVL, childrenV, hm, invertOpV, Bool.true_and, beq_self_eq_true, if_true,
      facePtsV_mapV t b hb, facePtsV_mapV t tp htp, List.map_append]
    exact avg_append_comm _ _

/-! ### what the schema gives -/

theorem rowsFor_op : rowsFor .op =
    [⟨"Operation", [.op], [one "bottom_face" .face, one "top_face" .face, many "side_edges" .edgeData 4 (some 4)]⟩] := by
  rfl

theorem rowsFor_face : rowsFor .face =
    [⟨"Face", [.face], [many "points" .pt 4 (some 4), many "edges" .edgeData 4 (some 4)]⟩] := by
  rfl

theorem accepts_face (c : VEnt) (h : Cls.accepts .face c = true) : ∃ a ch, c = .node .face a ch := by
  cases c with
  | node k a ch =>
      simp only [Cls.accepts, beq_iff_eq] at h
      exact ⟨a, ch, by rw [h]⟩
  | _ => simp [Cls.accepts] at h

theorem accepts_pt (c : VEnt) (h : Cls.accepts .pt c = true) : ∃ v, c = .pt v := by
  cases c with
  | pt v => exact ⟨v, rfl⟩
  | _ => simp [Cls.accepts] at h

theorem matchSlots_one (n : String) (c : Cls) (ss : List Slot) (e : VEnt) (rest : List VEnt) :
    matchSlots (one n c :: ss) (e :: rest) = (c.accepts e && matchSlots ss rest) := by
  simp [matchSlots, one]

theorem matchSlots_one_nil (n : String) (c : Cls) (ss : List Slot) : matchSlots (one n c :: ss) [] = false := by
  simp [matchSlots, one]

theorem matchSlots_many_lo (n : String) (c : Cls) (lo : Nat) (hi : Option Nat) (ss : List Slot) (es : List VEnt)
    (h : matchSlots (many n c lo hi :: ss) es = true) :
    lo ≤ (es.takeWhile c.accepts).length ∧ matchSlots ss (es.dropWhile c.accepts) = true := by
  simp only [matchSlots, many, if_true, Bool.and_eq_true, decide_eq_true_eq] at h
  exact ⟨of_decide_eq_true h.1.1, h.2⟩

theorem wfNode_op (ch : List VEnt) (h : wfNode .op ch = true) :
    ∃ ab cb at_ ct sides, ch = .node .face ab cb :: .node .face at_ ct :: sides := by
  simp only [wfNode, rowsFor_op, List.any_cons, List.any_nil, Bool.or_false] at h
  have h : matchSlots [one "bottom_face" .face, one "top_face" .face, many "side_edges" .edgeData 4 (some 4)] ch = true := by
    simpa using h
  match ch, h with
  | b :: tp :: sides, h =>
      rw [matchSlots_one, matchSlots_one] at h
      simp only [Bool.and_eq_true] at h
      obtain ⟨ab, cb, hb⟩ := accepts_face b h.1
      obtain ⟨at_, ct, ht⟩ := accepts_face tp h.2.1
      exact ⟨ab, cb, at_, ct, sides, by rw [hb, ht]⟩
  | [_], h =>
      rw [matchSlots_one, matchSlots_one_nil] at h
      simp at h
  | [], h =>
      rw [matchSlots_one_nil] at h
      simp at h

theorem wfNode_face (ch : List VEnt) (h : wfNode .face ch = true) : ∃ v rest, ch = .pt v :: rest := by
  simp only [wfNode, rowsFor_face, List.any_cons, List.any_nil, Bool.or_false] at h
  have h : matchSlots [many "points" .pt 4 (some 4), many "edges" .edgeData 4 (some 4)] ch = true := by
    simpa using h
  have h4 := (matchSlots_many_lo _ _ _ _ _ _ h).1
  match ch, h4 with
  | [], h4 => simp at h4
  | c :: rest, h4 =>
      by_cases hc : Cls.accepts .pt c = true
      · obtain ⟨v, hv⟩ := accepts_pt c hc
        exact ⟨v, rest, by rw [hv]⟩
      · simp [List.takeWhile_cons, hc] at h4

theorem facePtsV_ne_nil (a : Rat) (ch : List VEnt) (h : wfNode .face ch = true) : facePtsV (.node .face a ch) ≠ [] := by
  obtain ⟨v, rest, hch⟩ := wfNode_face ch h
  subst hch
  simp [facePtsV, childrenV, ptOfV]

/-- every well-formed operation carries its centre along -/
theorem opCenterV_wf (t : RT) (o : VEnt) (hk : kindOfV o = some .op) (hwf : wfV o = true) :
    opCenterV (mapV t o) = t.pt (opCenterV o) := by
  cases o with
  | node k a ch =>
      simp only [kindOfV, Option.some.injEq] at hk
      subst hk
      simp only [wfV, Bool.and_eq_true] at hwf
      obtain ⟨ab, cb, at_, ct, sides, hch⟩ := wfNode_op ch hwf.1
      subst hch
      have hw := hwf.2
      simp only [wfVL, wfV, Bool.and_eq_true] at hw
      apply opCenterV_mapV
      · simp [kindOfV]
      · simp [kindOfV]
      · intro hnil
        have := facePtsV_ne_nil ab cb hw.1.1
        simp only [List.append_eq_nil_iff] at hnil
        exact this hnil.1
  | _ => simp [kindOfV] at hk

theorem wfVL_mem : ∀ (ch : List VEnt) (c : VEnt), wfVL ch = true → c ∈ ch → wfV c = true
  | [], _, _, hc => by cases hc
  | e :: es, c, h, hc => by
      simp only [wfVL, Bool.and_eq_true] at h
      rcases List.mem_cons.mp hc with rfl | hc
      · exact h.1
      · exact wfVL_mem es c h.2 hc

theorem opsOfV_mapV (t : RT) (c : VEnt) (hk : kindOfV c ≠ some .op) :
    opsOfV (mapV t c) = (opsOfV c).map (mapV t) := by
  cases c with
  | node k a ch =>
      have hk' : k ≠ .op := by intro h; apply hk; simp [kindOfV, h]
      unfold opsOfV
      rw [childrenV_mapV t k a ch hk']
      simp only [childrenV, List.filter_map]
      congr 1
      apply List.filter_congr
      intro x _
      simp [kindOfV_mapV]
  | _ => simp [opsOfV, mapV, childrenV]

theorem opsOfV_spec (c o : VEnt) (hwf : wfV c = true) (ho : o ∈ opsOfV c) : kindOfV o = some .op ∧ wfV o = true := by
  cases c with
  | node k a ch =>
      simp only [opsOfV, childrenV, List.mem_filter, beq_iff_eq] at ho
      simp only [wfV, Bool.and_eq_true] at hwf
      exact ⟨ho.2, wfVL_mem ch o hwf.2 ho.1⟩
  | _ => simp [opsOfV, childrenV] at ho

/-- average of the centres of a list of well-formed operations -/
theorem avg_opCenters_mapV (t : RT) (ops : List VEnt) (hne : ops ≠ [])
    (hops : ∀ o ∈ ops, kindOfV o = some .op ∧ wfV o = true) :
    avg ((ops.map (mapV t)).map opCenterV) = t.pt (avg (ops.map opCenterV)) := by
  rw [RT.pt_avg t _ (by simpa using hne)]
  congr 1
  simp only [List.map_map]
  apply List.map_congr_left
  intro o ho
  exact opCenterV_wf t o (hops o ho).1 (hops o ho).2

theorem partPointV_mapV (t : RT) (n : Nat) (ch : List VEnt) :
    partPointV n (ch.map (mapV t)) = (partPointV n ch).map t.pt := by
  simp only [partPointV, List.length_map, List.getD_eq_getElem?_getD, List.getElem?_map]
  cases ch[ch.length - n]? with
  | none => simp [ptOfV]
  | some c => simp [ptOfV_mapV]

/-! ### the centre rules, kind by kind (children already mapped) -/

theorem mapV_node (t : RT) (k : Kind) (a : Rat) (ch : List VEnt) (hk : k ≠ .op) :
    mapV t (.node k a ch) = .node k (touchAttr k a) (ch.map (mapV t)) := by
  have : (k == Kind.op) = false := by simpa using hk
  simp [mapV, this, mapVL_eq_map]

theorem facePts_ch (t : RT) (k : Kind) (a a' : Rat) (ch : List VEnt) :
    facePtsV (.node k a' (ch.map (mapV t))) = (facePtsV (.node k a ch)).map t.pt := by
  simp only [facePtsV, childrenV, ← List.map_take, filterMap_ptOfV_map]

theorem ops_ch (t : RT) (k : Kind) (a a' : Rat) (ch : List VEnt) :
    opsOfV (.node k a' (ch.map (mapV t))) = (opsOfV (.node k a ch)).map (mapV t) := by
  simp only [opsOfV, childrenV, List.filter_map]
  congr 1
  apply List.filter_congr
  intro x _
  simp [kindOfV_mapV]

theorem rowsFor_shape : rowsFor .shape = [⟨"Shape", [.shape], [many "operations" .op 1]⟩] := by rfl
theorem rowsFor_stack : rowsFor .stack = [⟨"Stack", [.stack], [many "shapes" .shape 1]⟩] := by rfl
theorem rowsFor_asm : rowsFor .asm = [⟨"Assembly", [.asm], [many "shapes" .shape 1]⟩] := by rfl

theorem accepts_op (c : VEnt) (h : Cls.accepts .op c = true) : kindOfV c = some .op := by
  cases c with
  | node k a ch =>
      simp only [Cls.accepts, beq_iff_eq] at h
      simp [kindOfV, h]
  | _ => simp [Cls.accepts] at h

theorem accepts_shape (c : VEnt) (h : Cls.accepts .shape c = true) : kindOfV c ≠ some .op := by
  cases c with
  | node k a ch =>
      simp only [Cls.accepts, Bool.or_eq_true, beq_iff_eq] at h
      rcases h with h | h <;> simp [kindOfV, h]
  | _ => simp [Cls.accepts] at h

theorem dropWhile_nil_all {α : Type} (p : α → Bool) : ∀ l : List α, l.dropWhile p = [] →
    (∀ x ∈ l, p x = true) ∧ (l.takeWhile p).length = l.length
  | [], _ => by simp
  | x :: xs, h => by
      by_cases hx : p x = true
      · simp only [List.dropWhile_cons, hx, if_true] at h
        obtain ⟨h1, h2⟩ := dropWhile_nil_all p xs h
        refine ⟨?_, by simp [List.takeWhile_cons, hx, h2]⟩
        intro y hy
        rcases List.mem_cons.mp hy with rfl | hy
        · exact hx
        · exact h1 y hy
      · simp [List.dropWhile_cons, hx] at h

/-- a starred slot that ends the list: every part is accepted, and there are at least `lo` of them -/
theorem matchSlots_many_last (n : String) (c : Cls) (lo : Nat) (es : List VEnt)
    (h : matchSlots [many n c lo none] es = true) : (∀ e ∈ es, c.accepts e = true) ∧ lo ≤ es.length := by
  obtain ⟨h1, h2⟩ := matchSlots_many_lo _ _ _ _ _ _ h
  simp only [matchSlots, List.isEmpty_iff] at h2
  obtain ⟨h3, h4⟩ := dropWhile_nil_all _ _ h2
  exact ⟨h3, by rw [h4] at h1; exact h1⟩

theorem wfNode_shape (ch : List VEnt) (h : wfNode .shape ch = true) :
    (∀ e ∈ ch, kindOfV e = some .op) ∧ ch ≠ [] := by
  simp only [wfNode, rowsFor_shape, List.any_cons, List.any_nil, Bool.or_false] at h
  have h : matchSlots [many "operations" .op 1 none] ch = true := by simpa using h
  obtain ⟨h1, h2⟩ := matchSlots_many_last _ _ _ _ h
  exact ⟨fun e he => accepts_op e (h1 e he), by intro hn; rw [hn] at h2; simp at h2⟩

theorem wfNode_stack (ch : List VEnt) (h : wfNode .stack ch = true) :
    (∀ e ∈ ch, Cls.accepts .shape e = true) ∧ ch ≠ [] := by
  simp only [wfNode, rowsFor_stack, List.any_cons, List.any_nil, Bool.or_false] at h
  have h : matchSlots [many "shapes" .shape 1 none] ch = true := by simpa using h
  obtain ⟨h1, h2⟩ := matchSlots_many_last _ _ _ _ h
  exact ⟨h1, by intro hn; rw [hn] at h2; simp at h2⟩

theorem wfNode_asm (ch : List VEnt) (h : wfNode .asm ch = true) :
    (∀ e ∈ ch, Cls.accepts .shape e = true) ∧ ch ≠ [] := by
  simp only [wfNode, rowsFor_asm, List.any_cons, List.any_nil, Bool.or_false] at h
  have h : matchSlots [many "shapes" .shape 1 none] ch = true := by simpa using h
  obtain ⟨h1, h2⟩ := matchSlots_many_last _ _ _ _ h
  exact ⟨h1, by intro hn; rw [hn] at h2; simp at h2⟩

/-- `Shape.center` (also the harness' group of operations): needs at least one operation -/
theorem shapeCenter_ch (t : RT) (k : Kind) (a a' : Rat) (ch : List VEnt) (hwf : wfVL ch = true)
    (hne : opsOfV (.node k a ch) ≠ []) :
    shapeCenterV (.node k a' (ch.map (mapV t))) = t.pt (shapeCenterV (.node k a ch)) := by
  unfold shapeCenterV
  rw [ops_ch t k a a' ch]
  apply avg_opCenters_mapV t _ hne
  intro o ho
  simp only [opsOfV, childrenV, List.mem_filter, beq_iff_eq] at ho
  exact ⟨ho.2, wfVL_mem ch o hwf ho.1⟩

theorem rowsFor_sphere : rowsFor .sphere = [⟨"EighthSphere", [.sphere],
    [many "operations" .op 1, one "_center_point" .pt, one "_radius_point" .pt]⟩] := by rfl

/-- a well-formed shape (or sphere shape) has at least one operation -/
theorem shape_has_op (c : VEnt) (hsh : Cls.accepts .shape c = true) (hwf : wfV c = true) : opsOfV c ≠ [] := by
  cases c with
  | node k a ch =>
      simp only [wfV, Bool.and_eq_true] at hwf
      simp only [Cls.accepts, Bool.or_eq_true, beq_iff_eq] at hsh
      have hfirst : ∃ x xs, ch = x :: xs ∧ Cls.accepts .op x = true := by
        rcases hsh with hk | hk
        · subst hk
          have h := hwf.1
          simp only [wfNode, rowsFor_shape, List.any_cons, List.any_nil, Bool.or_false] at h
          have h : matchSlots [many "operations" .op 1 none] ch = true := by simpa using h
          have h1 := (matchSlots_many_lo _ _ _ _ _ _ h).1
          match ch, h1 with
          | [], h1 => simp at h1
          | x :: xs, h1 =>
              by_cases hx : Cls.accepts .op x = true
              · exact ⟨x, xs, rfl, hx⟩
              · simp [List.takeWhile_cons, hx] at h1
        · subst hk
          have h := hwf.1
          simp only [wfNode, rowsFor_sphere, List.any_cons, List.any_nil, Bool.or_false] at h
          have h : matchSlots [many "operations" .op 1 none, one "_center_point" .pt, one "_radius_point" .pt] ch = true := by
            simpa using h
          have h1 := (matchSlots_many_lo _ _ _ _ _ _ h).1
          match ch, h1 with
          | [], h1 => simp at h1
          | x :: xs, h1 =>
              by_cases hx : Cls.accepts .op x = true
              · exact ⟨x, xs, rfl, hx⟩
              · simp [List.takeWhile_cons, hx] at h1
      obtain ⟨x, xs, hch, hx⟩ := hfirst
      subst hch
      simp [opsOfV, childrenV, List.filter_cons, accepts_op x hx]
  | _ => simp [Cls.accepts] at hsh

theorem stackOps_ch (t : RT) (ch : List VEnt) (hsh : ∀ e ∈ ch, Cls.accepts .shape e = true) :
    (ch.map (mapV t)).flatMap opsOfV = (ch.flatMap opsOfV).map (mapV t) := by
  induction ch with
  | nil => rfl
  | cons c cs ih =>
      simp only [List.map_cons, List.flatMap_cons, List.map_append]
      rw [opsOfV_mapV t c (accepts_shape c (hsh c (by simp))), ih (fun e he => hsh e (by simp [he]))]

theorem shapeLike_mapV (t : RT) (c : VEnt) (hsh : Cls.accepts .shape c = true) (hwf : wfV c = true)
    (hne : opsOfV c ≠ []) : shapeLikeCenterV (mapV t c) = (shapeLikeCenterV c).map t.pt := by
  cases c with
  | node k a ch =>
      have hk : k ≠ .op := by
        have := accepts_shape _ hsh
        intro h; apply this; simp [kindOfV, h]
      rw [mapV_node t k a ch hk]
      simp only [wfV, Bool.and_eq_true] at hwf
      by_cases hs : k = .sphere
      · subst hs
        simp only [shapeLikeCenterV, partPointV_mapV]
      · have e1 : ∀ a ch, shapeLikeCenterV (.node k a ch) = some (shapeCenterV (.node k a ch)) := by
          intro a ch
          cases k <;> first | rfl | exact absurd rfl hs
        rw [e1, e1, shapeCenter_ch t k a _ ch hwf.2 hne]
        rfl
  | _ => simp [Cls.accepts] at hsh

theorem filterMap_equiv (t : RT) (g : VEnt → Option V3) : ∀ (ch : List VEnt),
    (∀ c ∈ ch, g (mapV t c) = (g c).map t.pt) →
    (ch.map (mapV t)).filterMap g = (ch.filterMap g).map t.pt ∧
      (ch.map (mapV t)).all (fun c => (g c).isSome) = ch.all (fun c => (g c).isSome)
  | [], _ => by simp
  | c :: cs, h => by
      obtain ⟨h1, h2⟩ := filterMap_equiv t g cs (fun x hx => h x (by simp [hx]))
      have hc := h c (by simp)
      constructor
      · simp only [List.map_cons, List.filterMap_cons, hc]
        cases hg : g c <;> simp [h1]
      · simp only [List.map_cons, List.all_cons, h2, hc]
        cases hg : g c <;> simp

/-- kinds whose centre rule is proved to follow the map -/
def coveredKind : Kind → Bool
  | .face | .op | .shape | .sphere | .joint | .stack | .asm | .dcurve | .lcurve | .circle | .ringc => true
  | _ => false

/-- the centre of the transformed output is the image of the centre, for every well-formed entity of a covered kind -/
theorem centerV_mapV_node (t : RT) (k : Kind) (a : Rat) (ch : List VEnt) (hcov : coveredKind k = true)
    (hwf : wfV (.node k a ch) = true) (c : V3) (hc : centerV none (.node k a ch) = some c) :
    centerV none (mapV t (.node k a ch)) = some (t.pt c) := by
  have hwf' := hwf
  simp only [wfV, Bool.and_eq_true] at hwf'
  obtain ⟨hn, hl⟩ := hwf'
  cases k <;> simp only [coveredKind] at hcov <;> try (exact absurd hcov (by decide))
  · -- op
    obtain ⟨ab, cb, at_, ct, sides, hch⟩ := wfNode_op ch hn
    subst hch
    have h1 := opCenterV_wf t (.node .op a (.node .face ab cb :: .node .face at_ ct :: sides)) rfl hwf
    have hc' : c = opCenterV (.node .op a (.node .face ab cb :: .node .face at_ ct :: sides)) := by
      simp only [centerV, ruleOf, CRule.eval, CRule.isCurveOf, Bool.false_eq_true, if_false] at hc
      simpa using hc.symm
    rw [hc', ← h1]
    simp [mapV, centerV, ruleOf, CRule.eval, CRule.isCurveOf]
  · -- face
    rw [mapV_node t _ a ch (by decide)]
    have hne := facePtsV_ne_nil a ch hn
    simp only [centerV, ruleOf, CRule.eval, CRule.isCurveOf, Bool.false_eq_true, if_false, Option.some.injEq] at hc ⊢
    subst hc
    simp only [faceCenterV, facePts_ch t _ a _ ch]
    exact (RT.pt_avg t _ hne).symm
  · -- circle
    rw [mapV_node t _ a ch (by decide)]
    simp only [centerV, ruleOf, CRule.eval, childrenV, CRule.isCurveOf, Bool.false_eq_true, if_false] at hc ⊢
    match ch, hc with
    | .pt o :: rest, hc =>
        simp only [Option.some.injEq] at hc
        subst hc
        simp [mapV]
    | [], hc => simp at hc
    | .dir _ :: _, hc => simp at hc
    | .arr _ :: _, hc => simp at hc
    | .node _ _ _ :: _, hc => simp at hc
  · -- lcurve
    rw [mapV_node t _ a ch (by decide)]
    simp only [centerV, ruleOf, CRule.eval, childrenV, CRule.isCurveOf, Bool.false_eq_true, if_false] at hc ⊢
    match ch, hc with
    | [.pt p, .pt q], hc =>
        simp only [Option.some.injEq] at hc
        subst hc
        simp only [List.map, mapV, Option.some.injEq]
        exact RT.pt_mid t p q
    | [], hc => simp at hc
    | [_], hc => simp at hc
    | _ :: _ :: _ :: _, hc => simp at hc
    | [.dir _, _], hc => simp at hc
    | [.arr _, _], hc => simp at hc
    | [.node _ _ _, _], hc => simp at hc
    | [.pt _, .dir _], hc => simp at hc
    | [.pt _, .arr _], hc => simp at hc
    | [.pt _, .node _ _ _], hc => simp at hc
  · -- dcurve
    rw [mapV_node t _ a ch (by decide)]
    simp only [centerV, ruleOf, CRule.eval, childrenV, CRule.isCurveOf, Bool.false_eq_true, if_false] at hc ⊢
    match ch, hc, hl with
    | [.arr vs], hc, hl =>
        simp only [Option.some.injEq] at hc
        subst hc
        simp only [wfVL, wfV, Bool.and_true, decide_eq_true_eq, arrayMinRows] at hl
        have hl : vs ≠ [] := by intro h0; rw [h0] at hl; simp at hl
        simp only [List.map, mapV, Option.some.injEq]
        exact (RT.pt_avg t vs hl).symm
    | [], hc, _ => simp at hc
    | _ :: _ :: _, hc, _ => simp at hc
    | [.pt _], hc, _ => simp at hc
    | [.dir _], hc, _ => simp at hc
    | [.node _ _ _], hc, _ => simp at hc
  · -- shape
    rw [mapV_node t _ a ch (by decide)]
    obtain ⟨hops, hne⟩ := wfNode_shape ch hn
    simp only [centerV, ruleOf, CRule.eval, CRule.isCurveOf, Bool.false_eq_true, if_false, Option.some.injEq] at hc ⊢
    subst hc
    apply shapeCenter_ch t _ a _ ch hl
    obtain ⟨x, xs, hx⟩ := List.exists_cons_of_ne_nil hne
    subst hx
    simp [opsOfV, childrenV, List.filter_cons, hops x (by simp)]
  · -- sphere
    rw [mapV_node t _ a ch (by decide)]
    simp only [centerV, ruleOf, CRule.eval, childrenV, CRule.isCurveOf, Bool.false_eq_true, if_false] at hc ⊢
    rw [partPointV_mapV, hc]
    rfl
  · -- stack
    rw [mapV_node t _ a ch (by decide)]
    obtain ⟨hsh, hne⟩ := wfNode_stack ch hn
    simp only [centerV, ruleOf, CRule.eval, childrenV, CRule.isCurveOf, Bool.false_eq_true, if_false, Option.some.injEq] at hc ⊢
    subst hc
    rw [stackOps_ch t ch hsh]
    apply avg_opCenters_mapV
    · -- the first shape has an operation
      obtain ⟨x, xs, hx⟩ := List.exists_cons_of_ne_nil hne
      subst hx
      have hxw := wfVL_mem _ x hl (by simp)
      intro hnil
      simp only [List.flatMap_cons, List.append_eq_nil_iff] at hnil
      exact shape_has_op x (hsh x (by simp)) hxw hnil.1
    · intro o ho
      simp only [List.mem_flatMap] at ho
      obtain ⟨s, hs, hos⟩ := ho
      exact opsOfV_spec s o (wfVL_mem ch s hl hs) hos
  · -- joint
    rw [mapV_node t _ a ch (by decide)]
    simp only [centerV, ruleOf, CRule.eval, childrenV, CRule.isCurveOf, Bool.false_eq_true, if_false] at hc ⊢
    rw [partPointV_mapV, hc]
    rfl
  · -- asm
    rw [mapV_node t _ a ch (by decide)]
    obtain ⟨hsh, hne⟩ := wfNode_asm ch hn
    have hmap : ∀ x ∈ ch, shapeLikeCenterV (mapV t x) = (shapeLikeCenterV x).map t.pt := fun x hx =>
      shapeLike_mapV t x (hsh x hx) (wfVL_mem ch x hl hx) (shape_has_op x (hsh x hx) (wfVL_mem ch x hl hx))
    obtain ⟨h1, h2⟩ := filterMap_equiv t shapeLikeCenterV ch hmap
    simp only [centerV, ruleOf, CRule.eval, childrenV, CRule.isCurveOf, Bool.false_eq_true, if_false] at hc ⊢
    simp only [h1, h2]
    by_cases hall : (ch.all fun c => (shapeLikeCenterV c).isSome) = true
    · simp only [hall, if_true, Option.some.injEq] at hc ⊢
      subst hc
      refine (RT.pt_avg t _ ?_).symm
      obtain ⟨x, xs, hx⟩ := List.exists_cons_of_ne_nil hne
      subst hx
      simp only [List.all_cons, Bool.and_eq_true] at hall
      obtain ⟨v, hv⟩ := Option.isSome_iff_exists.mp hall.1
      simp [List.filterMap_cons, hv]
    · simp [hall] at hc
  · -- ringc (ring sketches keep their centre as a point of their own, the last part)
    rw [mapV_node t _ a ch (by decide)]
    simp only [centerV, ruleOf, CRule.eval, childrenV, CRule.isCurveOf, Bool.false_eq_true, if_false] at hc ⊢
    rw [partPointV_mapV, hc]
    rfl

/-! ### edges on curves and sketches -/

theorem rowsFor_oncurve : rowsFor .oncurve = [⟨"OnCurve", [.oncurve], [one "curve" .curve]⟩] := by rfl
theorem rowsFor_spline : rowsFor .spline = [⟨"Spline", [.spline], [one "curve" .curve]⟩] := by rfl

def sketchRow : Row := ⟨"Sketch", [.grid, .firstpt, .face0, .sketchavg, .other, .facept3, .oval], [many "faces" .face 1]⟩
theorem rowsFor_grid : rowsFor .grid = [sketchRow] := by rfl
theorem rowsFor_firstpt : rowsFor .firstpt = [sketchRow] := by rfl
theorem rowsFor_face0 : rowsFor .face0 = [sketchRow] := by rfl
theorem rowsFor_sketchavg : rowsFor .sketchavg = [sketchRow] := by rfl

def sketchKind : Kind → Bool
  | .grid | .firstpt | .face0 | .sketchavg | .facept3 | .oval => true
  | _ => false

theorem wfNode_sketch (k : Kind) (hk : sketchKind k = true) (ch : List VEnt) (h : wfNode k ch = true) :
    (∀ e ∈ ch, ∃ a c, e = .node .face a c) ∧ ch ≠ [] := by
  have hrow : rowsFor k = [sketchRow] := by
    cases k <;> simp only [sketchKind] at hk <;> first | rfl | exact absurd hk (by decide)
  have hko : (k == Kind.other) = false := by
    cases k <;> simp only [sketchKind] at hk <;> first | rfl | exact absurd hk (by decide)
  simp only [wfNode, hrow, hko, Bool.false_or, List.any_cons, List.any_nil, Bool.or_false, sketchRow] at h
  obtain ⟨h1, h2⟩ := matchSlots_many_last _ _ _ _ h
  exact ⟨fun e he => accepts_face e (h1 e he), by intro hn; rw [hn] at h2; simp at h2⟩

theorem wfNode_curveEdge (k : Kind) (hk : k = .oncurve ∨ k = .spline) (ch : List VEnt) (h : wfNode k ch = true) :
    ∃ c, ch = [c] ∧ Cls.accepts .curve c = true := by
  have h : matchSlots [one "curve" .curve] ch = true := by
    rcases hk with rfl | rfl
    · simpa [wfNode, rowsFor_oncurve] using h
    · simpa [wfNode, rowsFor_spline] using h
  match ch, h with
  | [], h => rw [matchSlots_one_nil] at h; simp at h
  | [c], h =>
      rw [matchSlots_one] at h
      simp only [Bool.and_eq_true] at h
      exact ⟨c, rfl, h.1⟩
  | _ :: _ :: _, h =>
      rw [matchSlots_one] at h
      simp [matchSlots] at h

/-- kinds of the second group: edges on curves, sketches -/
def coveredKind2 : Kind → Bool
  | .spline | .oncurve | .grid | .firstpt | .face0 | .sketchavg | .facept3 | .oval => true
  | _ => false

theorem centerV_mapV_node2 (t : RT) (k : Kind) (a : Rat) (ch : List VEnt) (hcov : coveredKind2 k = true)
    (hwf : wfV (.node k a ch) = true) (c : V3) (hc : centerV none (.node k a ch) = some c) :
    centerV none (mapV t (.node k a ch)) = some (t.pt c) := by
  have hwf' := hwf
  simp only [wfV, Bool.and_eq_true] at hwf'
  obtain ⟨hn, hl⟩ := hwf'
  have hkop : k ≠ .op := by intro h; subst h; simp [coveredKind2] at hcov
  rw [mapV_node t k a ch hkop]
  by_cases hedge : k = .oncurve ∨ k = .spline
  · -- the centre of the curve the edge holds
    obtain ⟨cv, hch, hadm⟩ := wfNode_curveEdge k hedge ch hn
    subst hch
    have hcw : wfV cv = true := by simpa [wfVL] using hl
    cases cv with
    | node kc ac cc =>
        have hE : ∀ (a' : Rat) (x : VEnt), centerV none (.node k a' [x]) = curveCenterV none x := by
          intro a' x
          rcases hedge with rfl | rfl <;> simp [centerV, ruleOf, CRule.isCurveOf]
        rw [hE] at hc
        simp only [List.map]
        rw [hE]
        simp only [Cls.accepts, Bool.or_eq_true, beq_iff_eq] at hadm
        have hflat : ∀ (a' : Rat) (cc' : List VEnt), curveCenterV none (.node kc a' cc') = centerV none (.node kc a' cc') := by
          intro a' cc'
          rcases hadm with ((rfl | rfl) | rfl) | rfl <;> simp [curveCenterV, centerV, ruleOf, CRule.isCurveOf]
        have hkc : kc ≠ .op := by
          rcases hadm with ((rfl | rfl) | rfl) | rfl <;> decide
        rw [hflat] at hc
        by_cases hic : kc = .icurve
        · subst hic
          simp [centerV, ruleOf, CRule.isCurveOf, CRule.eval] at hc
        · have hcovc : coveredKind kc = true := by
            rcases hadm with ((rfl | rfl) | rfl) | rfl <;> first | rfl | exact absurd rfl hic
          have := centerV_mapV_node t kc ac cc hcovc hcw c hc
          rw [mapV_node t kc ac cc hkc] at this ⊢
          rw [hflat]
          exact this
    | pt v => simp [Cls.accepts] at hadm
    | dir v => simp [Cls.accepts] at hadm
    | arr vs => simp [Cls.accepts] at hadm
  · -- sketches
    have hsk : sketchKind k = true := by
      cases k <;> simp only [coveredKind2] at hcov <;>
        first | rfl | exact absurd hcov (by decide) | exact absurd (Or.inl rfl) hedge | exact absurd (Or.inr rfl) hedge
    obtain ⟨hfaces, hne⟩ := wfNode_sketch k hsk ch hn
    have hfp : ∀ f ∈ ch, facePtsV (mapV t f) = (facePtsV f).map t.pt := by
      intro f hf
      obtain ⟨af, cf, rfl⟩ := hfaces f hf
      exact facePtsV_mapV t _ (by simp [kindOfV])
    have hfne : ∀ f ∈ ch, facePtsV f ≠ [] := by
      intro f hf
      obtain ⟨af, cf, rfl⟩ := hfaces f hf
      have := wfVL_mem ch _ hl hf
      simp only [wfV, Bool.and_eq_true] at this
      exact facePtsV_ne_nil af cf this.1
    have hfc : ∀ f ∈ ch, faceCenterV (mapV t f) = t.pt (faceCenterV f) := by
      intro f hf
      simp only [faceCenterV, hfp f hf]
      exact (RT.pt_avg t _ (hfne f hf)).symm
    obtain ⟨f0, rest, hch⟩ := List.exists_cons_of_ne_nil hne
    cases k <;> simp only [sketchKind] at hsk <;> try (exact absurd hsk (by decide))
    · -- grid
      simp only [centerV, ruleOf, CRule.eval, childrenV, CRule.isCurveOf, Bool.false_eq_true, if_false,
        List.head?_map, List.getLast?_map] at hc ⊢
      cases hh : ch.head? with
      | none => simp [hh] at hc
      | some g0 =>
        cases hg : ch.getLast? with
        | none => simp [hh, hg] at hc
        | some gl =>
          have m0 : g0 ∈ ch := List.mem_of_mem_head? hh
          have ml : gl ∈ ch := List.mem_of_getLast? hg
          simp only [hh, hg, Option.map_some, hfp g0 m0, hfp gl ml, List.head?_map, List.getElem?_map] at hc ⊢
          cases h1 : (facePtsV g0).head? with
          | none => simp [h1] at hc
          | some p =>
            cases h2 : (facePtsV gl)[2]? with
            | none => simp [h1, h2] at hc
            | some q =>
              simp only [h1, h2, Option.map_some, Option.some.injEq] at hc ⊢
              subst hc
              exact RT.pt_mid t p q
    · -- firstpt
      subst hch
      simp only [centerV, ruleOf, CRule.eval, childrenV, CRule.isCurveOf, Bool.false_eq_true, if_false,
        List.map_cons, List.head?_cons, Option.bind_some, hfp f0 (by simp), List.head?_map] at hc ⊢
      rw [hc]
      rfl
    · -- face0
      subst hch
      simp only [centerV, ruleOf, CRule.eval, childrenV, CRule.isCurveOf, Bool.false_eq_true, if_false,
        List.map_cons, List.head?_cons, Option.map_some, Option.some.injEq] at hc ⊢
      subst hc
      exact hfc f0 (by simp)
    · -- sketchavg
      simp only [centerV, ruleOf, CRule.eval, childrenV, CRule.isCurveOf, Bool.false_eq_true, if_false,
        Option.some.injEq, List.map_map] at hc ⊢
      subst hc
      rw [RT.pt_avg t _ (by simpa using hne), List.map_map]
      congr 1
      apply List.map_congr_left
      intro f hf
      exact hfc f hf
    · -- facept3 (SplineRound: fourth corner of the first face)
      subst hch
      simp only [centerV, ruleOf, CRule.eval, childrenV, CRule.isCurveOf, Bool.false_eq_true, if_false,
        List.map_cons, List.head?_cons, Option.bind_some, hfp f0 (by simp), List.getElem?_map] at hc ⊢
      rw [hc]
      rfl
    · -- oval: midpoint of the first corners of faces 0 and 5
      simp only [centerV, ruleOf, CRule.eval, childrenV, CRule.isCurveOf, Bool.false_eq_true, if_false,
        List.getElem?_map] at hc ⊢
      cases h0 : ch[0]? with
      | none => simp [h0] at hc
      | some g0 =>
        cases h5 : ch[5]? with
        | none => simp [h0, h5] at hc
        | some g5 =>
          have m0 : g0 ∈ ch := List.mem_of_getElem? h0
          have m5 : g5 ∈ ch := List.mem_of_getElem? h5
          simp only [h0, h5, Option.map_some, hfp g0 m0, hfp g5 m5, List.head?_map] at hc ⊢
          cases h1 : (facePtsV g0).head? with
          | none => simp [h1] at hc
          | some p =>
            cases h2 : (facePtsV g5).head? with
            | none => simp [h1, h2] at hc
            | some q =>
              simp only [h1, h2, Option.map_some, Option.some.injEq] at hc ⊢
              subst hc
              exact RT.pt_mid t p q

end CBV.C09
