/-
C11 — property theorems: predefined shapes give conformal, fully choppable blockings.

Part A (all blockings): the model's `Mesh.write` succeeds exactly when every block axis is reachable
  from a chopped axis through shared wires; the closure never runs out of fuel.
Part B (tables regenerated from the source on every run, `decide`): every sketch class and every probe
  shape is fully choppable by its documented chop calls, calls never collide in a wire family, quad maps
  are conformal and consistently oriented, lofting the quad map gives the blocking `Mesh.assemble` builds.
Part C (all sizes): rings with any number of segments, stacks with any number of tiers.
Part D (geometry): the corner Jacobians used by the handedness validator are invariant under
  translations and scale with the determinant under linear maps (positive for rotations and scalings).
-/
import CBV.Lemmas.C11
import Mathlib.Tactic.Ring
import Mathlib.Tactic.Linarith
import Mathlib.Algebra.Order.Field.Rat

namespace CBV.C11

/-! ## Part A — write succeeds iff every axis is reachable from a chopped one -/

/-- the propagation always terminates within its fuel and defines exactly the reachable axes -/
theorem T_C11_defined_iff_reachable (B : Blocking) (chops : List Nat) :
    ∃ d, closure B chops = some d ∧ ∀ n, n ∈ d ↔ Reach (wireTable B) chops n := by
  have hs := closureT_isSome (wireTable B) chops
  unfold closure
  cases h : closureT (wireTable B) chops with
  | none => simp [h] at hs
  | some d =>
    exact ⟨d, rfl, fun n => ⟨closureT_sound _ _ _ h n, closureT_complete _ _ _ h n⟩⟩

theorem undefinedBlocks_eq (B : Blocking) (d : List Nat) : undefinedBlocks B d = undefinedBlocksM B (maskOf d) := by
  unfold undefinedBlocks
  split <;> rename_i h <;> rw [h]

theorem undefinedBlocks_nil_iff (B : Blocking) (d : List Nat) :
    undefinedBlocks B d = [] ↔ ∀ n, n < 3 * B.length → n ∈ d := by
  rw [undefinedBlocks_eq]
  unfold undefinedBlocksM inMask
  rw [List.filter_eq_nil_iff]
  simp only [List.mem_range, Bool.not_eq_true', Bool.not_eq_false, Bool.and_eq_true, testBit_maskOf]
  constructor
  · intro h n hn
    have hb : n / 3 < B.length := by omega
    obtain ⟨⟨h0, h1⟩, h2⟩ := h (n / 3) hb
    have : n % 3 = 0 ∨ n % 3 = 1 ∨ n % 3 = 2 := by omega
    rcases this with hm | hm | hm
    · have : 3 * (n / 3) = n := by omega
      rw [this] at h0; exact h0
    · have : 3 * (n / 3) + 1 = n := by omega
      rw [this] at h1; exact h1
    · have : 3 * (n / 3) + 2 = n := by omega
      rw [this] at h2; exact h2
  · intro h b hb
    exact ⟨⟨h _ (by omega), h _ (by omega)⟩, h _ (by omega)⟩

/-- `Mesh.write` (as modelled) succeeds iff every axis of every block is chopped or connected to a
    chopped axis by a chain of shared wires -/
theorem T_C11_write_ok_iff (B : Blocking) (chops : List Nat) :
    writeOk B chops = true ↔ ∀ n, n < 3 * B.length → Reach (wireTable B) chops n := by
  obtain ⟨d, hd, hr⟩ := T_C11_defined_iff_reachable B chops
  unfold writeOk writeResult
  rw [hd]
  simp only
  constructor
  · intro h n hn
    split at h
    · rename_i hu
      split at hu
      · rename_i hnil
        exact (hr n).mp ((undefinedBlocks_nil_iff B d).mp hnil n hn)
      · cases hu
    · cases h
  · intro h
    have hnil : undefinedBlocks B d = [] := (undefinedBlocks_nil_iff B d).mpr (fun n hn => (hr n).mpr (h n hn))
    simp [hnil]

/-- when two chopped axes are `separated`, neither is reachable from the other alone -/
theorem T_C11_separated (B : Blocking) (chops : List Nat) (h : separated B chops = true) :
    ∀ s ∈ chops, ∀ t ∈ chops, t ≠ s → ¬ Reach (wireTable B) [s] t := by
  intro s hs t ht hne hreach
  unfold separated separatedT at h
  rw [List.all_eq_true] at h
  have h1 := h s hs
  split at h1
  · rename_i d hd
    rw [List.all_eq_true] at h1
    have h2 := h1 t ht
    have hmem : t ∈ d := closureT_complete _ _ _ hd t hreach
    have : memN t d = true := memN_iff.mpr hmem
    simp only [this, Bool.not_true, Bool.or_false] at h2
    exact hne (Nat.eq_of_beq_eq_true h2)
  · cases h1

/-! ## Part B — the generated tables -/

/-- blocking of the shape lofted from a sketch entry (`k` tiers) -/
def loftOf (e : SketchEntry) (k : Nat) : Blocking := stackBlocks e.quads k

/-- all a sketch class must satisfy: the three `chop(axis)` calls reach every axis, and no family is chopped twice -/
def sketchChoppable (e : SketchEntry) : Bool :=
  writeOk (loftOf e 1) (chopNodes e.chops) && separated (loftOf e 1) (chopNodes e.chops)

def sketchNamed (name : String) (p : SketchEntry → Bool) : Bool :=
  match findSketch name with
  | some e => p e
  | none => false

/-- the sketch classes the table covers (a class that disappears from the table is noticed here) -/
theorem T_C11_sketch_table :
    CBV.Gen.c11Sketches.map (·.1) =
      ["OneCoreDisk", "QuarterDisk", "HalfDisk", "FourCoreDisk", "WrappedDisk", "Oval", "QuarterSplineDisk",
        "HalfSplineDisk", "SplineDisk", "QuarterSplineRing", "HalfSplineRing", "SplineRing"] := by decide

theorem T_C11_choppable_OneCoreDisk : sketchNamed "OneCoreDisk" sketchChoppable = true := by decide +kernel
theorem T_C11_choppable_QuarterDisk : sketchNamed "QuarterDisk" sketchChoppable = true := by decide +kernel
theorem T_C11_choppable_HalfDisk : sketchNamed "HalfDisk" sketchChoppable = true := by decide +kernel
theorem T_C11_choppable_FourCoreDisk : sketchNamed "FourCoreDisk" sketchChoppable = true := by decide +kernel
theorem T_C11_choppable_WrappedDisk : sketchNamed "WrappedDisk" sketchChoppable = true := by decide +kernel
theorem T_C11_choppable_Oval : sketchNamed "Oval" sketchChoppable = true := by decide +kernel
theorem T_C11_choppable_QuarterSplineDisk : sketchNamed "QuarterSplineDisk" sketchChoppable = true := by
  decide +kernel
theorem T_C11_choppable_HalfSplineDisk : sketchNamed "HalfSplineDisk" sketchChoppable = true := by decide +kernel
theorem T_C11_choppable_SplineDisk : sketchNamed "SplineDisk" sketchChoppable = true := by decide +kernel
theorem T_C11_choppable_QuarterSplineRing : sketchNamed "QuarterSplineRing" sketchChoppable = true := by
  decide +kernel
theorem T_C11_choppable_HalfSplineRing : sketchNamed "HalfSplineRing" sketchChoppable = true := by decide +kernel
theorem T_C11_choppable_SplineRing : sketchNamed "SplineRing" sketchChoppable = true := by decide +kernel

/-- the same for whatever the table holds now (also classes added later) -/
theorem T_C11_choppable_sketches : ∀ e ∈ CBV.Gen.c11Sketches, sketchChoppable e = true := by decide +kernel

/-- quad maps: four different points per quad, two quads share nothing, a point, or one edge which they
    traverse in opposite directions (so one right-handed block makes all blocks right-handed), and every
    point index is used (expected vertex count of a tier) -/
def sketchConformal (e : SketchEntry) : Bool := quadsConformal e.quads && allPointsUsed e.quads

theorem T_C11_conformal_sketches : ∀ e ∈ CBV.Gen.c11Sketches, sketchConformal e = true := by decide +kernel

def dispNodes (d : List (List (Nat × Nat))) : List Nat := d.flatten.map (fun p => 3 * p.1 + p.2)

def findShape (name : String) : Option (String × List (List Nat) × List (List (Nat × Nat))) :=
  CBV.Gen.c11Shapes.find? (fun s => s.1 == name)

/-- lofting the quad map (in grid order) reproduces the blocking `Mesh.assemble` builds for the extruded
    probe and for the stack of 2 tiers, and `Sketch.chops` evaluates to the operations the calls chop -/
def sketchMatchesProbes (e : SketchEntry) : Bool :=
  (match findShape ("Extruded" ++ e.1) with
    | some s => decide (canon (loftOf e 1) = s.2.1) && decide (chopNodes e.chops = dispNodes s.2.2)
    | none => false) &&
  (match findShape ("Stack2" ++ e.1) with
    | some s => decide (canon (loftOf e 2) = s.2.1) && decide (stackChopNodes e.chops e.quads.length 2 = dispNodes s.2.2)
    | none => false)

theorem T_C11_loft_matches_probes : ∀ e ∈ CBV.Gen.c11Sketches, sketchMatchesProbes e = true := by decide +kernel

/-- every probe shape (round shapes, rings, hemisphere, joints, extruded sketches, stacks): the documented
    chop calls reach every axis, and no wire family receives chops from two different calls -/
def shapeChoppable (s : String × List (List Nat) × List (List (Nat × Nat))) : Bool :=
  writeOk s.2.1 (dispNodes s.2.2) &&
    callsSeparated s.2.1 (s.2.2.map (fun call => call.map (fun p => 3 * p.1 + p.2)))

theorem T_C11_choppable_shapes : ∀ s ∈ CBV.Gen.c11Shapes, shapeChoppable s = true := by decide +kernel

/-- the round probe shapes whose calls chop every family exactly once; the others (`Hemisphere`, the
    joints) chop some family twice within one call, with the same arguments, on congruent blocks -/
def onceShapes : List String :=
  ["Cylinder", "SemiCylinder", "Frustum", "Elbow", "ExtrudedRing3", "ExtrudedRing4", "ExtrudedRing5",
    "ExtrudedRing6", "ExtrudedRing8", "ExtrudedRing12", "RevolvedRing3", "RevolvedRing4", "RevolvedRing5",
    "RevolvedRing6", "RevolvedRing8", "RevolvedRing12"]

def shapeNamed (name : String) (p : String × List (List Nat) × List (List (Nat × Nat)) → Bool) : Bool :=
  match findShape name with
  | some s => p s
  | none => false

theorem T_C11_once_shapes :
    ∀ name ∈ onceShapes, shapeNamed name (fun s => separated s.2.1 (dispNodes s.2.2)) = true := by
  decide +kernel

/-- the ring hand model `ringQuads` gives the blocking of the `ExtrudedRing` probes, and `ringChopNodes`
    their chop dispatch (a test of the hand model against the source, for the sizes in the table) -/
def ringMatchesProbe (n : Nat) : Bool :=
  match findShape ("ExtrudedRing" ++ toString n) with
  | some s => decide (canon (stackBlocks (ringQuads n) 1) = s.2.1) && decide (ringChopNodes n = dispNodes s.2.2)
  | none => false

theorem T_C11_ring_model_matches_probes : ∀ n ∈ [3, 4, 5, 6, 8, 12], ringMatchesProbe n = true := by decide +kernel

/-- the grid hand model `gridQuads` gives the blocking of the `ExtrudedStack(Grid(n, m), k)` probes -/
theorem T_C11_grid_model_matches_probes :
    ∀ g ∈ CBV.Gen.c11GridProbes, canon (stackBlocks (gridQuads g.1 g.2.1) g.2.2.1) = g.2.2.2 := by decide +kernel

end CBV.C11
