/- C11 — property theorems.  Stub. -/
import CBV.Model.C11

namespace CBV.C11

end CBV.C11
